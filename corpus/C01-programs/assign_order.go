type N struct {
	v    int
	next *N
}

var calls int

func next() int {
	calls++
	println("next", calls)
	return calls
}

func rev(h *N) *N {
	var prev *N
	cur := h
	for cur != nil {
		cur.next, prev, cur = prev, cur, cur.next
	}
	return prev
}

func f() int {
	println("f")
	return 1
}

func g() int {
	println("g")
	return 5
}

func main() {
	a := []int{0, 0, 0}
	i := 0
	a[i], i = 7, 2
	println(a[0], a[1], a[2], i)
	i, a[i] = 0, 9
	println(a[0], a[1], a[2], i)
	l := &N{v: 1, next: &N{v: 2, next: &N{v: 3}}}
	r := rev(l)
	println(r.v, r.next.v, r.next.next.v, r.next.next.next == nil)
	xs := []int{0, 0, 0, 0}
	xs[f()] = g()
	xs[next()] += 5
	xs[next()]++
	println(xs[0], xs[1], xs[2], xs[3])
	t := &N{v: 1}
	t.v, t = 9, &N{v: 2}
	println(t.v)
	p, q := &N{v: 1}, &N{v: 2}
	p.next, q.next = q, p
	p, p.next.v = q, 50
	println(p.v, q.v, p.next.v)
	m := map[string]int{}
	k := "a"
	m[k], k = 1, "b"
	m[k], k = 2, "c"
	println(m["a"], m["b"], len(m), k)
}
