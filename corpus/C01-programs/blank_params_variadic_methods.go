type T struct {
	A int
}

func (t *T) Mf(k int, xs ...float64) float64 {
	if len(xs) == 0 {
		return 0.25
	}
	return xs[0]/2 + float64(k)
}

func (t *T) Mb(xs ...byte) byte {
	return xs[len(xs)-1] + 200
}

func blank(_ int, _ string, c int) int {
	return c
}

func blank2(_, _ int) int {
	return 7
}

func (_ *T) MB(_ int, _ int, c ...int) int {
	return len(c)
}

func two() (float64, float64) {
	return 1, 3
}

func main() {
	t := &T{}
	mf := t.Mf
	println(t.Mf(1, 3), t.Mf(2), mf(3, 5, 6), t.Mb(100), t.Mb(1, 60))
	println(blank(1, "x", 42), blank2(3, 4), t.MB(1, 2), t.MB(1, 2, 3, 4))
	var a, b float64 = two()
	var c, d = two()
	var mask uint8 = 1 << 7
	var e, g uint8 = 1<<7 + 1, 3
	println(a/2, b/2, c/2, d/2, mask<<1, e<<1, g)
}
