const (
	A uint8 = 250 + iota
	B
	C
)

const (
	a, b = iota, iota + 10
	c, d
	e, f
)

const (
	X = iota * 2
	Y
	Z
	W = "s"
	V
)

const (
	K float64 = 1
	L
)

const (
	_  = iota
	KB = 1 << (10 * iota)
	MB
)

func main() {
	v := C
	v += 10
	println(A, B, v, a, b, c, d, e, f, X, Y, Z, W, V, L/2, KB, MB)
	x := -010
	println(x, 0X1F, -0x10, 0b101, 0o17, 1_000, 017, 0, -0, 0x7fffffff, -0x80000000)
	var u uint8 = 0xff
	u += 0b1
	println(u, 'a', '\n', '\x41', '\101')
}
