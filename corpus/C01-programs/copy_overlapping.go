// imports: fmt
// copy between overlapping slices moves the elements as if through a temporary (seed C01-copy-overlap-forward-loop):
// the insert idiom shifts a tail to the right
func insert(s []int, i, x int) []int {
	s = append(s, 0)
	copy(s[i+1:], s[i:])
	s[i] = x
	return s
}

func main() {
	fmt.Println(insert([]int{1, 2, 3, 4, 5}, 1, 9), insert([]int{1}, 0, 7), insert([]int{1, 2}, 2, 3))
	w := []string{"a", "b", "c", "d", "e", "f"}
	n := copy(w[1:], w)
	fmt.Println(n, w)
	l := []int{1, 2, 3, 4, 5}
	m := copy(l, l[2:])
	fmt.Println(m, l)
	b := []byte("abcdef")
	copy(b[2:], b[:3])
	fmt.Println(string(b))
	same := []int{1, 2, 3}
	fmt.Println(copy(same, same), same)
}
