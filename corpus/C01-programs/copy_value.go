func main() {
	a := []int{1, 2, 3}
	e := make([]int, 2)
	n := copy(e, a)
	println(n, e[0], e[1])
	copy(e, a[1:])
	println(e[0], e[1])
	if copy(e, a) > 1 {
		n++
	}
	b := make([]byte, 3)
	k := copy(b, "héllo")
	println(n, k, b[0], b[2])
	j := copy(b, "x") + copy(e[1:], a)
	println(j, b[0], e[1])
}
