// imports: fmt strconv strings
// the bundled fmt / strconv / strings subset with several operands: fmt.Print and fmt.Sprint put a space only between
// operands of which neither is a string, fmt.Println between all; strconv.ParseFloat honours its bit size
func main() {
	fmt.Print("a", "b", 1, 2, "c", 3.5, true, false, "\n")
	fmt.Print(1, 2, "\n")
	fmt.Print("x", 1, "\n")
	fmt.Print(1, "x", 2, "\n")
	s := fmt.Sprint("n=", 4, 5, " ", []int{1, 2}, map[string]int{"k": 1}, "z")
	fmt.Println(s, len(s))
	fmt.Println(fmt.Sprint(), fmt.Sprint(""), fmt.Sprint(1, 2.5, true), fmt.Sprint("a", "b"))
	fmt.Println("a", "b", 1, 2, "", 3)
	var e []string
	fmt.Print(e, e, "\n")
	f32, err := strconv.ParseFloat("0.1", 32)
	fmt.Println(f32, err == nil)
	f64, _ := strconv.ParseFloat("0.1", 64)
	fmt.Println(f64, f32 == f64)
	big, _ := strconv.ParseFloat("16777217", 32)
	fmt.Println(big)
	n, err2 := strconv.ParseInt("-42", 10, 32)
	fmt.Println(n, err2 == nil, strconv.Itoa(77)+"!", strconv.FormatInt(255, 16), strconv.FormatFloat(1.5, 'f', 2, 64))
	fmt.Println(strings.Repeat("ab", 3), strings.Join(strings.Split("a,b,c", ","), "+"), strings.Contains("hello", "ell"), strings.TrimSpace("  x "), strings.ReplaceAll("aaa", "a", "b"), strings.Replace("aaa", "a", "c", 2), strings.TrimSuffix("file.go", ".go"), strings.TrimRight("xx--", "-"))
}
