func run() int {
	v0 := 0
	_ = v0
	v1 := 1
	_ = v1
	v2 := 2
	_ = v2
	v3 := 3
	_ = v3
	f3 := func(x int) int {
		return x + 3
	}
	if f3(1) != 4 {
		return -3
	}
	v4 := 4
	_ = v4
	v5 := 5
	_ = v5
	v6 := 6
	_ = v6
	v7 := 7
	_ = v7
	v8 := 8
	_ = v8
	v9 := 9
	_ = v9
	v10 := 10
	_ = v10
	v11 := 11
	_ = v11
	v12 := 12
	_ = v12
	v13 := 13
	_ = v13
	v14 := 14
	_ = v14
	v15 := 15
	_ = v15
	v16 := 16
	_ = v16
	v17 := 17
	_ = v17
	v18 := 18
	_ = v18
	v19 := 19
	_ = v19
	v20 := 20
	_ = v20
	v21 := 21
	_ = v21
	v22 := 22
	_ = v22
	v23 := 23
	_ = v23
	v24 := 24
	_ = v24
	v25 := 25
	_ = v25
	v26 := 26
	_ = v26
	v27 := 27
	_ = v27
	v28 := 28
	_ = v28
	v29 := 29
	_ = v29
	v30 := 30
	_ = v30
	v31 := 31
	_ = v31
	v32 := 32
	_ = v32
	v33 := 33
	_ = v33
	v34 := 34
	_ = v34
	v35 := 35
	_ = v35
	v36 := 36
	_ = v36
	v37 := 37
	_ = v37
	v38 := 38
	_ = v38
	v39 := 39
	_ = v39
	v40 := 40
	_ = v40
	v41 := 41
	_ = v41
	v42 := 42
	_ = v42
	v43 := 43
	_ = v43
	v44 := 44
	_ = v44
	v45 := 45
	_ = v45
	v46 := 46
	_ = v46
	v47 := 47
	_ = v47
	v48 := 48
	_ = v48
	v49 := 49
	_ = v49
	v50 := 50
	_ = v50
	v51 := 51
	_ = v51
	v52 := 52
	_ = v52
	v53 := 53
	_ = v53
	v54 := 54
	_ = v54
	v55 := 55
	_ = v55
	v56 := 56
	_ = v56
	v57 := 57
	_ = v57
	v58 := 58
	_ = v58
	v59 := 59
	_ = v59
	v60 := 60
	_ = v60
	f60 := func(x int) int {
		return x + 60
	}
	if f60(1) != 61 {
		return -60
	}
	v61 := 61
	_ = v61
	v62 := 62
	_ = v62
	v63 := 63
	_ = v63
	v64 := 64
	_ = v64
	f64 := func(x int) int {
		return x + 64
	}
	if f64(1) != 65 {
		return -64
	}
	v65 := 65
	_ = v65
	f65 := func(x int) int {
		return x + 65
	}
	if f65(1) != 66 {
		return -65
	}
	v66 := 66
	_ = v66
	f66 := func(x int) int {
		return x + 66
	}
	if f66(1) != 67 {
		return -66
	}
	v67 := 67
	_ = v67
	f67 := func(x int) int {
		return x + 67
	}
	if f67(1) != 68 {
		return -67
	}
	v68 := 68
	_ = v68
	f68 := func(x int) int {
		return x + 68
	}
	if f68(1) != 69 {
		return -68
	}
	v69 := 69
	_ = v69
	f69 := func(x int) int {
		return x + 69
	}
	if f69(1) != 70 {
		return -69
	}
	v70 := 70
	_ = v70
	f70 := func(x int) int {
		return x + 70
	}
	if f70(1) != 71 {
		return -70
	}
	v71 := 71
	_ = v71
	v72 := 72
	_ = v72
	f72 := func(x int) int {
		return x + 72
	}
	if f72(1) != 73 {
		return -72
	}
	v73 := 73
	_ = v73
	v74 := 74
	_ = v74
	v75 := 75
	_ = v75
	f75 := func(x int) int {
		return x + 75
	}
	if f75(1) != 76 {
		return -75
	}
	v76 := 76
	_ = v76
	v77 := 77
	_ = v77
	v78 := 78
	_ = v78
	v79 := 79
	_ = v79
	v80 := 80
	_ = v80
	f80 := func(x int) int {
		return x + 80
	}
	if f80(1) != 81 {
		return -80
	}
	v81 := 81
	_ = v81
	v82 := 82
	_ = v82
	v83 := 83
	_ = v83
	v84 := 84
	_ = v84
	v85 := 85
	_ = v85
	v86 := 86
	_ = v86
	v87 := 87
	_ = v87
	v88 := 88
	_ = v88
	v89 := 89
	_ = v89
	f89 := func(x int) int {
		return x + 89
	}
	if f89(1) != 90 {
		return -89
	}
	return 7
}

type MyT float64

func main() {
	println(run(), MyT(3)/2)
}
