// a range loop over a map whose body deletes and re-inserts a key other than the ones counted: every key that stays
// in the map for the whole loop is produced exactly once (Go spec, "For statements with range clause")
func churn(m map[string]int, t string) (int, int) {
	n, s := 0, 0
	for k, v := range m {
		delete(m, t)
		m[t] = 0
		if k != t {
			n++
			s += v
		}
	}
	return n, s
}

func churnInt(m map[int]int, t int) (int, int) {
	n, s := 0, 0
	for k, v := range m {
		delete(m, t)
		m[t] = 0
		if k != t {
			n++
			s += v
		}
	}
	return n, s
}

func main() {
	m := map[string]int{"t": 0, "a": 1, "b": 2, "c": 3, "d": 4}
	n, s := churn(m, "t")
	println(n, s, len(m))
	n, s = churn(m, "t")
	println(n, s, len(m))
	m2 := map[string]int{"a": 1, "t": 0, "b": 2, "c": 3, "d": 4, "e": 5, "f": 6}
	n, s = churn(m2, "t")
	println(n, s, len(m2))
	mi := map[int]int{9: 0, 1: 1, 2: 2, 3: 3, 4: 4}
	n, s = churnInt(mi, 9)
	println(n, s, len(mi))
	delete(mi, 2)
	n, s = churnInt(mi, 9)
	println(n, s, len(mi))
	n = 0
	for range mi {
		n++
	}
	println(n)
}
