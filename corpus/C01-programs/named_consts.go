const A = 1

const (
	B = A * 2
	C = "s"
)

const Big = 1 << 20

const F = 2.5

func half() float64 {
	return A
}

func par(f float64) float64 {
	return f / 2
}

func main() {
	var x byte = B
	x += 254
	var f float64 = A
	var g float64
	g = B
	xs := []float64{A, B}
	const k = A + 3
	var b byte = 255
	b += k
	println(x, f/2, g/4, xs[0]/2, xs[1]/4, half()/2, par(A), b, Big>>10, F*2, C)
	var m byte = 100
	m = m + 200
	println(m, Big/3, Big%7)
}
