type T struct {
	A int
}

func kind(s []int) int {
	switch s {
	case nil:
		return 1
	}
	return 2
}

func main() {
	var s []int
	var m map[string]int
	var p *T
	var f func()
	println(kind(s), kind([]int{}), nil == s, s == nil, nil != s, nil == m, nil == p, nil == f)
	s = append(s, 1)
	m = map[string]int{}
	p = &T{}
	println(kind(s), nil == s, nil == m, nil != m, nil == p, p != nil)
	switch m {
	case nil:
		println("nil map")
	default:
		println("map")
	}
}
