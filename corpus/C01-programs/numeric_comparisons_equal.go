// imports: fmt
// all six comparisons over equal, adjacent and extreme values of several numeric types
func ci(a, b int) string {
	return fmt.Sprint(a == b, a != b, a < b, a <= b, a > b, a >= b)
}

func cf(a, b float64) string {
	return fmt.Sprint(a == b, a != b, a < b, a <= b, a > b, a >= b)
}

func cu(a, b uint8) string {
	return fmt.Sprint(a == b, a != b, a < b, a <= b, a > b, a >= b)
}

func c32(a, b int32) string {
	return fmt.Sprint(a == b, a != b, a < b, a <= b, a > b, a >= b)
}

func main() {
	is := []int{-2, -1, 0, 1, 1, 2}
	for _, x := range is {
		for _, y := range is {
			fmt.Println(x, y, ci(x, y))
		}
	}
	fs := []float64{-0.5, 0, 0.5, 0.5, 1e300}
	for _, x := range fs {
		for _, y := range fs {
			fmt.Println(x, y, cf(x, y))
		}
	}
	us := []uint8{0, 1, 255, 255}
	for _, x := range us {
		for _, y := range us {
			fmt.Println(x, y, cu(x, y))
		}
	}
	ts := []int32{-2147483648, -1, 2147483647, 2147483647}
	for _, x := range ts {
		for _, y := range ts {
			fmt.Println(x, y, c32(x, y))
		}
	}
}
