type RS []rune

type BS []byte

type M []float64

type MM map[string]int

func main() {
	s := "héllo, wörld"
	r := []rune(s)
	println(len(r), r[1], string(r[1:3]), string(r) == s)
	b := []byte(s)
	println(len(b), b[1], b[2], string(b[0:1]))
	r2 := RS("é!")
	b2 := BS("é!")
	println(len(r2), len(b2), string(r2), string(b2))
	m := M{1, 2}
	n := M(m)
	k := []float64(n)
	println(len(n), n[1]/4, len(k))
	mm := MM(map[string]int{"a": 1})
	println(len(mm), mm["a"])
	bs := append([]byte("x"), "é"...)
	var b3 []byte
	b3 = append(b3, "hi"...)
	println(len(bs), bs[1], bs[2], string(bs), string(b3))
}
