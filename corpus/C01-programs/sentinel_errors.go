// imports: errors fmt
// sentinel errors: an error value equals itself and no other error, whatever path it travelled (fix 1a4ef26)
var ErrNotFound = errors.New("not found")
var ErrOther = errors.New("not found")

func find(k int) error {
	if k == 1 {
		return ErrNotFound
	}
	if k == 2 {
		return ErrOther
	}
	return nil
}

func classify(err error) string {
	if err == nil {
		return "ok"
	}
	if err == ErrNotFound {
		return "missing"
	}
	if err != ErrOther {
		return "unknown"
	}
	return "other"
}

func main() {
	for k := 0; k < 4; k++ {
		fmt.Println(k, classify(find(k)))
	}
	e := find(1)
	var a any = ErrNotFound
	es := []error{ErrOther, ErrNotFound, nil}
	m := map[string]error{"a": ErrNotFound}
	fmt.Println(e == ErrNotFound, e != ErrNotFound, e == ErrOther, find(2) == ErrOther, find(3) == nil, find(1) == nil, nil == find(1), a == e, ErrNotFound == ErrNotFound, e != nil)
	fmt.Println(es[1] == e, es[0] == e, es[2] == nil, m["a"] == e, m["b"] == nil, m["b"] == e)
	fmt.Println(classify(errors.New("x")), e.Error(), ErrOther.Error() == e.Error())
}
