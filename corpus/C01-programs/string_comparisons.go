// imports: fmt
// all six comparisons of strings whose values are equal, a prefix of one another, empty, or differ in the last byte;
// operands from literals, variables, concatenations, slice elements and map values
func cmp(a, b string) string {
	r := ""
	if a == b {
		r += "e"
	}
	if a != b {
		r += "n"
	}
	if a < b {
		r += "l"
	}
	if a <= b {
		r += "L"
	}
	if a > b {
		r += "g"
	}
	if a >= b {
		r += "G"
	}
	return r
}

func sorted(ws []string) bool {
	for i := 1; i < len(ws); i++ {
		if !(ws[i-1] <= ws[i]) {
			return false
		}
	}
	return true
}

func main() {
	ws := []string{"", "a", "a", "ab", "b", "b", "ba", "é", "é"}
	for _, x := range ws {
		line := ""
		for _, y := range ws {
			line += cmp(x, y) + " "
		}
		fmt.Println(line)
	}
	fmt.Println(sorted(ws), sorted([]string{"b", "a"}), sorted([]string{"x", "x", "x"}))
	m := map[string]string{"k": "go", "j": "go"}
	limit := "g" + "o"
	fmt.Println(m["k"] <= m["j"], m["k"] >= limit, "go" <= "go", "go" >= "go", limit < "go", limit > "go")
	n := "m"
	if n >= "m" && n <= "m" {
		fmt.Println("between")
	}
}
