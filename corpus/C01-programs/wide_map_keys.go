func f() int {
	m := map[uint]int{3000000000: 7}
	return m[3000000000]
}

func g() int {
	m := map[float64]int{}
	m[3000000000] = 7
	k := float64(3000000000)
	return m[k]
}

func h() float64 {
	z := 0.0
	z = -z
	w := z - 0
	return 1 / w
}

func main() {
	println(f(), g(), h() < 0)
}
