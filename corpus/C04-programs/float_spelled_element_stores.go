// imports: fmt
// an element store converts a constant spelled like a float to the element type of the slice: the element is an integer
// afterwards - division truncates, arithmetic wraps (seed C04-slice-element-store-keeps-float)
func main() {
	xs := []int32{7, 0}
	xs[1] = 1e3
	y := xs[1] / 7
	bs := make([]uint8, 2)
	bs[0] = 2e2
	bs[1] = 100.0
	i8 := []int8{0}
	i8[0] = 127.0
	i8[0]++
	u := []uint32{0, 0}
	u[0] = 4e9
	u[1] = u[0] + 4e9
	is := []int{1, 2}
	is[0] = 9.0
	is[1] = is[0] / 2
	fs := []float64{0}
	fs[0] = 3
	m := map[string]int{}
	m["k"] = 7.0
	fmt.Println(y, xs, bs[0]+100, bs[0]+bs[1], i8[0], u[1], is, fs[0]/2, m["k"]/2)
	xs[0] += 1e3
	bs[0] -= 250.0
	is[1] *= 3.0
	fmt.Println(xs[0]/7, bs[0], is[1]/2)
}
