// imports: fmt
// a local declared with an untyped constant has the default type whatever value lived at that stack depth before
// (seed C04-frame-locals-not-cleared)
func warm8() uint8 {
	var b uint8 = 200
	b += 10
	return b
}

func warmI8() int8 {
	var b int8 = 100
	return b
}

func warmF() float64 {
	f := 2.5
	g := f * 2
	return g
}

func count() int {
	x := 300
	x++
	return x
}

func loop() int {
	s := 0
	for i := 0; i < 20; i++ {
		s += 10
	}
	return s
}

func div() int {
	x := 7
	y := x / 2 * 2
	return y
}

func main() {
	fmt.Println(warm8(), count(), warmI8(), loop(), warmF(), div())
	fmt.Println(warmF(), count(), warm8(), div(), warmI8(), count(), loop())
}
