// imports: fmt math
// constants are exact: -0.0 is 0 (fix f5c55c6); only the negation of a variable gives the negative zero
const negZero = -0.0

func main() {
	x := -0.0
	y := 0.0
	fmt.Println(x, 1/x, negZero, -(0.0), -0e5, math.Signbit(x), math.Signbit(negZero))
	fmt.Println(-y, 1/-y, math.Signbit(-y), -1.5, -0.5, y*-1)
	var u8 []uint8 = nil
	u8 = append(u8, 200, 100)
	fmt.Println(u8[0]+u8[1], u8[0]+100)
	var i8 []int8 = nil
	i8 = append(i8, 127)
	i8[0]++
	fmt.Println(i8[0], i8)
	var mm map[int]uint32 = nil
	fmt.Println(mm[1]-1, len(mm))
}
