// imports: fmt
// x - 0 keeps the sign of a negative zero (IEEE-754: (-0) - (+0) = -0, (-0) + (+0) = +0): subtracting the literal 0
// is not adding it (seeded C04 round 15: the peephole rule PUSH k; SUB -> INCDEC(-k) without its k != 0 guard)
func f(x float64) float64 {
	y := x - 0
	return 1 / y
}

func g(x float64) float64 {
	x -= 0
	return 1 / x
}

func h(x float64) float64 {
	y := x + 0
	return 1 / y
}

func main() {
	z := 0.0
	z = -z
	fmt.Println(f(z), g(z), h(z), 1/(z-0), 1/(z+0))
	p := 0.0
	fmt.Println(f(p), g(p), h(p))
	i := 5
	fmt.Println(i-0, i+0, i-1)
}
