// imports: fmt
// chains of integer constants: a quotient of two integer constants is an integer before the next operator sees it
// (seed C05-constant-quotient-keeps-fraction)
const w = 15
const mid = w / 2 * 2

func f(a, b int) []int {
	return []int{a + 7/2*2, a - 9/2*2 + b, a * (7 / 2), 7 / 2 * a, a / (7 / 2), 1<<(7/2) + a, a % (9 / 2)}
}

func main() {
	fmt.Println(7/2*2, (7/2)*2, 2*(7/2), -7/2*2, 7/2+7/2, 7/2 == 3, 7/2 != 3, 7/2 < 7/2+1, 7/2*2 == 6)
	fmt.Println(mid, w/2, w/2*2 == 14, 9/2/2, 9/(2/2), 100/7/3*3, 100/(7/3)*3, 1/2+1/2, 3*(1/2), 5/2.0, 7/2%2, -(7 / 2), ^(7 / 2), 1<<(7/2))
	fmt.Println(f(10, 1), 7/2*2 > 6, 7/2*2 >= 7 || 7/2 > 3, 7/2 == 7/2*1)
	x := 7 / 2
	y := 7 / 2 * 2
	var z uint8 = 255 / 2 * 2
	fmt.Println(x, y, z, x*2, []int{1, 2, 3, 4}[7/2], 7/2+x)
}
