// imports: fmt
// an expression may continue on the next line after a binary operator, inside parentheses and inside call arguments:
// its grouping does not depend on the layout (seed C05-star-after-line-break-ends-expression)
func mul3(a, b, c int) int {
	return a *
		b * c
}

func mix(a, b, c int) int {
	x := 10 - a *
		b * c
	y := a /
		b * c - 1
	z := (a +
		b) * c
	w := -a *
		b * c
	return x*1000000 + y*10000 + z*100 + w
}

func sum(xs ...int) int {
	n := 0
	for _, x := range xs {
		n += x
	}
	return n
}

func main() {
	a, b, c := 2, 3, 4
	x := a *
		b * c
	y := sum(a,
		b) * c
	z := a <<
		1 * b
	ok := a < b &&
		b*
			c > 11 ||
		a == 0
	fmt.Println(x, y, z, ok, mul3(2, 3, 4), mix(20, 2, 3), mix(2, 3, 4))
}
