// imports: fmt
// the value of a*b inside a larger expression is the WRAPPED int32 product, whatever instruction computes it: the
// quotient, shift, comparison, remainder or sum that follows in the same expression sees Go's value (seeded C05
// round 15: a fused multiply of two locals that skipped the wrap-around)
func quo(a, b, c int32) int32 {
	return a * b / c
}

func shr(a, b int32) int32 {
	return a * b >> 4
}

func eq(a, b, c int32) bool {
	return a*b == c
}

func rem(a, b int32) int32 {
	return a * b % 1000
}

func sum(a, b, c int32) int32 {
	return c + a*b - c
}

func u(a, b uint32) uint32 {
	return a * b / 3
}

func small(a, b int8) int8 {
	return a * b / 2
}

func main() {
	fmt.Println(quo(65536, 65537, 2), shr(65536, 65537), eq(65536, 65537, 65536), rem(65536, 65537), sum(65536, 65537, 9))
	fmt.Println(quo(6, 7, 2), shr(6, 7), eq(6, 7, 42), rem(6, 7), sum(6, 7, 9))
	fmt.Println(quo(-46341, 46341, 7), shr(-46341, 46341), rem(46341, 46341))
	fmt.Println(u(65536, 65537), u(4000000000, 3), small(100, 3), small(-128, -1))
	x, y := 70000, 70000
	fmt.Println(x*y/7, x*y > 0, (x*y)>>3, x*y%11)
}
