// else-if chains of one, two, three and four links, with and without a final else, nested in loops and in each other
func grade(n int) string {
	if n < 10 {
		return "a"
	} else if n < 20 {
		return "b"
	} else if n < 30 {
		return "c"
	} else if n < 40 {
		return "d"
	} else {
		return "e"
	}
}

func steps(n int) int {
	t := 0
	for i := 0; i < n; i++ {
		if i%5 == 0 {
			t += 1
		} else if i%5 == 1 {
			t += 10
			if t > 50 {
				continue
			} else if t > 30 {
				t += 3
			}
		} else if i%5 == 2 {
			t += 100
		}
		if i == 7 {
			break
		} else if i == 3 {
			t += 1000
		} else if i == 4 {
			t += 2000
		} else if i == 5 {
			t += 4000
		}
	}
	return t
}

func main() {
	for _, n := range []int{5, 15, 25, 35, 45} {
		println(grade(n))
	}
	println(steps(3), steps(6), steps(12))
	x := 7
	if x > 10 {
		println("big")
	} else if x > 8 {
		println("mid")
	} else if x > 6 {
		println("seven")
	}
	if x < 0 {
		println("neg")
	} else if x < 5 {
		println("small")
	}
	println("end")
}
