// a case clause with an empty body still matches and ends the switch: nothing runs, no later clause, no default
func pick(x int) int {
	r := 0
	switch x {
	case 1:
	case 2:
		r = 20
	case 3, 4:
	default:
		r = 99
	}
	return r
}

func sign(x int) int {
	r := 0
	switch {
	case x < 0:
	case x < 10:
		r = 1
	default:
		r = 2
	}
	return r
}

func main() {
	for x := 0; x < 6; x++ {
		println(pick(x), sign(x-2), sign(x*5))
	}
	t := 0
	for _, v := range []int{3, 4, 5, 6} {
		switch v {
		default:
			t += 100
		case 3, 4:
		case 5:
			t += 8
			continue
		}
		t++
	}
	println(t)
	s := "b"
	switch s {
	case "a", "b":
	default:
		println("other")
	}
	switch {
	case len(s) == 1:
	}
	println("end")
}
