// the post statement of a three-clause for belongs to the header's scope: a variable that the body declares with the
// loop variable's name does not capture it (the copy idiom i := i, continue, switch in the body)
func main() {
	n := 0
	for i := 0; i < 3; i++ {
		i := i
		i += 10
		n += i
	}
	println(n)
	out := ""
	for k := 0; k < 4; k += 2 {
		k := k * 3
		switch k {
		case 0:
			out += "zero"
			continue
		case 6:
			out += "six"
		}
		out += "."
	}
	println(out)
	for i := 0; i < 6; i += 2 {
		j := i
		if j == 2 {
			continue
		}
		i := j * 2
		n += i + j
	}
	println(n)
	for i := 0; i < 2; i++ {
		if true {
			i := 50
			n += i
		}
		for i := 0; i < 2; i++ {
			i := i + 1
			n += i
		}
	}
	println(n)
}
