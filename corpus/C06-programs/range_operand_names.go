// the range operand is evaluated once, before the iteration variables exist: an operand may use a name that the
// loop also declares (slices, nested slices, maps, strings; with break / continue / switch / return in the body)
func total(rows [][]int) int {
	n := 0
	for _, rows := range rows {
		for _, rows := range rows {
			if rows == 2 {
				continue
			}
			n += rows
			println("cell", rows)
		}
	}
	return n
}

func firstBig(xs []int) int {
	for xs, v := range xs {
		switch {
		case v > 4:
			return xs*100 + v
		}
	}
	return -1
}

func main() {
	println(total([][]int{{1, 2}, {3}, nil, {4, 2, 5}}))
	println(firstBig([]int{4, 5, 6}), firstBig([]int{1}))
	xs := []int{4, 5, 6}
	n := 0
	for xs := range xs {
		n += xs
	}
	for i, xs := range xs {
		if i == 2 {
			break
		}
		n += xs
	}
	println(n, len(xs))
	m := map[string]int{"a": 1, "bc": 2}
	for m, v := range m {
		n += len(m) + v
	}
	s := "héy"
	for _, s := range s {
		n += int(s)
	}
	for s := range s {
		n += s
	}
	println(n, len(m), s)
	i := 3
	for i := range []int{i, i + 1} {
		println("i", i)
	}
	println(i)
}
