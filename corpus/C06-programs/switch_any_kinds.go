// a tagged switch over values of different dynamic types (any), inside loops: every clause runs exactly when its value
// equals the tag - values of different kinds are unequal, and the tag of one iteration does not depend on the last
func kind(v any) string {
	switch v {
	case 1:
		return "one"
	case 2.5:
		return "twohalf"
	case "a":
		return "A"
	case true:
		return "T"
	case nil:
		return "N"
	}
	return "d"
}

func main() {
	s := ""
	for _, v := range []any{1, 2.5, "a", 3, true, nil, "", 0, false, 2.5, 1} {
		switch v {
		case 1:
			s += "one"
		case 2.5:
			s += "twohalf"
		case "a":
			s += "A"
		case true:
			s += "T"
		case nil:
			s += "N"
		default:
			s += "d"
		}
		s += kind(v) + "."
	}
	println(s)
	var a any = 0
	var b any = ""
	var c any = false
	println(a == b, a == c, b == c, a == nil, b == nil, a == 0, b == "", c == false)
	n := 0
	for _, v := range []any{2.5, 1, "x"} {
		x := v
		if x == 2.5 || x == 1 || x == "x" {
			n++
		}
	}
	println(n)
}
