// imports: fmt
// a slice built by append(nilSlice, xs...) owns its elements: it does not share memory with the VM's operand stack,
// whatever spare capacity an earlier deep call left there (seed C07-append-spread-onto-nil-aliases-stack)
func warm() int {
	var w0 int
	var w1 int
	var w2 int
	var w3 int
	var w4 int
	var w5 int
	var w6 int
	var w7 int
	var w8 int
	var w9 int
	var w10 int
	var w11 int
	var w12 int
	var w13 int
	var w14 int
	var w15 int
	var w16 int
	var w17 int
	var w18 int
	var w19 int
	var w20 int
	var w21 int
	var w22 int
	var w23 int
	var w24 int
	var w25 int
	var w26 int
	var w27 int
	var w28 int
	var w29 int
	var w30 int
	var w31 int
	var w32 int
	var w33 int
	var w34 int
	var w35 int
	var w36 int
	var w37 int
	var w38 int
	var w39 int
	var w40 int
	var w41 int
	var w42 int
	var w43 int
	var w44 int
	var w45 int
	var w46 int
	var w47 int
	var w48 int
	var w49 int
	var w50 int
	var w51 int
	var w52 int
	var w53 int
	var w54 int
	var w55 int
	var w56 int
	var w57 int
	var w58 int
	var w59 int
	var w60 int
	var w61 int
	var w62 int
	var w63 int
	return w0 + w1 + w2 + w3 + w4 + w5 + w6 + w7 + w8 + w9 + w10 + w11 + w12 + w13 + w14 + w15 + w16 + w17 + w18 + w19 + w20 + w21 + w22 + w23 + w24 + w25 + w26 + w27 + w28 + w29 + w30 + w31 + w32 + w33 + w34 + w35 + w36 + w37 + w38 + w39 + w40 + w41 + w42 + w43 + w44 + w45 + w46 + w47 + w48 + w49 + w50 + w51 + w52 + w53 + w54 + w55 + w56 + w57 + w58 + w59 + w60 + w61 + w62 + w63
}

func h(s []int) int {
	x := 1
	y := 2
	s[0] = 50
	s[1] = 60
	return x*10 + y
}

func f(xs []int) int {
	var s []int
	s = append(s, xs...)
	return h(s)
}

func g(xs []int) int {
	var s []int
	s = append(s, xs...)
	a := 5 + 6*7
	return s[0]*1000 + s[1]*100 + s[2]*10 + a - 47
}

func bytesOf(str string) []byte {
	var b []byte
	b = append(b, str...)
	n := len(str) * 3
	b[0] = b[0] + byte(n-n)
	return b
}

func keep(xs []int) []int {
	var s []int
	s = append(s, xs...)
	return s
}

func main() {
	warm()
	k := keep([]int{4, 5, 6})
	fmt.Println(f([]int{7, 8, 9}), g([]int{1, 2, 3}), string(bytesOf("héllo")), k)
	warm()
	fmt.Println(k, f(k), k)
}
