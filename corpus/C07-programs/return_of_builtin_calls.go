// imports: fmt
// a builtin call as the operand of a return leaves its result like any other call; the caller's locals are untouched
// (seed C07-return-copy-pushes-nothing)
func fill(dst, src []int) int { return copy(dst, src) }

func size(s []int) int { return len(s) }

func grown(s []int) []int { return append(s, 1) }

func user() float64 {
	a := []int{0, 0, 0}
	b := []int{1, 2}
	ratio := 2.5
	fill(a, b)
	return ratio * float64(a[1])
}

func loop() float64 {
	buf := make([]int, 4)
	sum := 0.0
	for i := 0; i < 3; i++ {
		w := 0.5
		fill(buf, []int{i, i})
		sum += w
	}
	return sum
}

func both(a, b []int) (int, int) { return copy(a, b), len(a) }

func main() {
	a := []int{0, 0, 0}
	n := fill(a, []int{7, 8})
	m, k := both(a, []int{9})
	fmt.Println(n, a, m, k, user(), loop(), size(a), grown(a), fill(nil, a), fill(a[:1], a[1:]))
	total := 1.5
	fill(a, []int{4})
	fmt.Println(total, a)
}
