// imports: math/rand strings strconv
// a local or a parameter named like an imported package hides the package for the rest of its block, also when the
// import path has several elements (the name in the file is the last one)
type T struct {
	Intn   int
	Repeat string
}

func (t *T) Sort(k int) int {
	return t.Intn*10 + k
}

func f() int {
	rand := &T{Intn: 42}
	return rand.Intn
}

func g(rand *T, strings *T) string {
	return strings.Repeat + "/" + rand.Repeat
}

func h() int {
	strconv := &T{Intn: 4}
	n := strconv.Sort(2)
	if true {
		strconv := []int{3, 1, 2}
		n += len(strconv)
	}
	return n + strconv.Intn
}

func main() {
	println(f(), g(&T{Repeat: "r"}, &T{Repeat: "s"}), h())
	println(strconv.Itoa(12)+"!", strings.Repeat("ab", 2), rand.Intn(1))
	if true {
		strings := "shadow"
		println(strings, len(strings))
	}
	println(strings.Repeat("z", 3))
}
