// imports: fmt
// locals, parameters and package functions named like builtins are called, not the builtin; the caller's locals
// survive (a user function delete(id) was compiled as DELETE, which pops two operands; fix 36683fb)
func delete(id int) int { return id * 2 }

func g() int {
	a := 10
	b := 20
	delete(5)
	c := delete(1)
	return a + b + c
}

func viaParam(len func() int) int { return len() + 1 }

func viaLocal() int {
	copy := func(a int, b int) int { return a + b }
	x := 1
	y := copy(3, 4)
	return x + y
}

func shadowThenBuiltin(s []int) int {
	n := len(s)
	if n > 0 {
		len := 2
		n += len
	}
	return n + len(s)
}

func main() {
	fmt.Println(g(), viaParam(func() int { return 9 }), viaLocal(), delete(21))
	m := map[int]int{1: 1}
	fmt.Println(len(m), shadowThenBuiltin([]int{1, 2, 3}))
}
