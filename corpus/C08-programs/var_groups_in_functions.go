// imports: fmt
// a parenthesised var group inside a function declares locals of that function's block, like single declarations
// (seed C08-var-group-is-a-scope)
var x = 600
var n = 0

func shadow() int {
	var (
		x = 10
		y = 20
	)
	x += 5
	n++
	return x*100 + y
}

func inLoop() int {
	total := 0
	for i := 0; i < 3; i++ {
		var (
			acc int
			k   = i * 2
		)
		acc += k + 1
		total += acc
	}
	return total
}

func typed(b bool) string {
	if b {
		var (
			s string
			q = "q"
		)
		s += q + "!"
		return s
	}
	return "-"
}

func main() {
	fmt.Println(shadow(), x, n, inLoop(), typed(true), typed(false))
	var (
		x = 1
		z = x + 1
	)
	fmt.Println(x, z)
}
