// imports: fmt
// a variadic parameter without arguments is the nil slice (fix 5e85a01); with arguments it is a slice of its own
func count(xs ...int) string {
	n := 0
	for _, x := range xs {
		n += x
	}
	return fmt.Sprint(xs == nil, len(xs), n, append(xs, 1))
}

func tagged(tag string, rest ...string) string {
	if rest == nil {
		return tag + ":none"
	}
	return fmt.Sprint(tag, ":", len(rest), rest)
}

type T struct{ name string }

func (t *T) m(a int, xs ...string) string { return fmt.Sprint(t.name, a, xs == nil, len(xs)) }

func forward(xs ...int) int { return inner(xs...) }

func inner(ys ...int) int {
	if ys == nil {
		return -1
	}
	return len(ys)
}

func anys(format string, xs ...any) string { return fmt.Sprint(format, len(xs), xs == nil, xs) }

func main() {
	fmt.Println(count(), count(1, 2), count([]int{}...), count([]int{4}...))
	fmt.Println(tagged("a"), tagged("b", "x"), tagged("c", "x", "y"))
	t := &T{name: "t"}
	g := t.m
	fmt.Println(t.m(1), t.m(2, "a"), g(3), g(4, "p", "q"))
	fmt.Println(forward(), forward(1), forward(1, 2))
	fmt.Println(anys("a"), anys("b", 1, "x"))
	var none []int
	fmt.Println(count(none...), forward(none...))
}
