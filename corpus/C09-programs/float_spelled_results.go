// imports: fmt
// results are converted to the declared result types: a constant spelled like a float returned from a function with an
// integer result is an integer of that type (seed C09-results-reassigned-not-assigned)
const K = 1e3

func kilo() int       { return 1e3 }
func two() int        { return 2.0 }
func b() byte         { return 2.0 }
func k() int          { return K }
func pair() (string, int) { return "n", 7.0 }
func tail() int       { return kilo() }
func half() float64   { return 1 }

type T struct{ n int }

func (t *T) get() int8 { return 127.0 }

func rec(n int) int {
	if n == 0 {
		return 3.0
	}
	return rec(n - 1)
}

func main() {
	s, n := pair()
	t := &T{}
	g := t.get
	x := kilo()
	lit := func() uint8 { return 250.0 }
	fmt.Println(kilo()/3, two()/4, b()-3, k()/7, s, n/2, tail()/3, half()/2, t.get()+1, g()+1, rec(50)/2, x/3, lit()+10)
	fmt.Println(kilo(), two(), b(), k(), n, tail(), half(), rec(3))
}
