// imports: fmt
// a tail call asks its callee for the results of the ENCLOSING function, also after a function literal with another
// result count was compiled in the same body (seed C19-returns-stack-not-popped-after-literal)
var acc = 0

func minmax(xs []int) (int, int) {
	lo, hi := xs[0], xs[0]
	for _, v := range xs {
		if v < lo {
			lo = v
		}
		if v > hi {
			hi = v
		}
	}
	return lo, hi
}

func twice(x int) int { return 2 * x }

func three() (int, string, bool) { return 1, "a", true }

func apply(n int, f func(int)) {
	for i := 0; i < n; i++ {
		f(i)
	}
}

func stats(xs []int) (int, int) {
	less := func(a, b int) bool { return a < b }
	if less(xs[1], xs[0]) {
		xs[0], xs[1] = xs[1], xs[0]
	}
	return minmax(xs)
}

func run(x int) int {
	apply(3, func(i int) { acc += i })
	return twice(x)
}

func trio() (int, string, bool) {
	f := func() int { return 1 }
	g := func() (int, int) { return 1, 2 }
	acc += f()
	a, b := g()
	acc += a + b
	return three()
}

func none() {
	h := func() (int, int) { return 1, 2 }
	h()
	return
}

type T struct{ k int }

func (t *T) pair() (int, int) {
	inc := func(u *T) { u.k++ }
	inc(t)
	return minmax([]int{t.k, 7})
}

func main() {
	lo, hi := stats([]int{5, 9, 4})
	a, s, ok := trio()
	none()
	t := &T{k: 1}
	p, q := t.pair()
	fmt.Println(lo, hi, run(2), acc, a, s, ok, p, q)
}
