// imports: fmt
// integer literals outside the int32 range as keys of uint32- and float64-keyed maps held in LOCAL variables (the fused
// store `local[literal] = v`): the literal key is the same key as the variable with that value (seeded C10 round 14)
func u32() {
	m := map[uint32]string{}
	m[4000000000] = "x"
	m[7] = "seven"
	var k uint32 = 4000000000
	v, ok := m[k]
	fmt.Println(v, ok, len(m), m[4000000000], m[k-1] == "")
	var sum uint32
	for kk := range m {
		sum += kk
	}
	fmt.Println(sum)
	m[4000000000] = "y"
	delete(m, k)
	fmt.Println(len(m), m[4000000000] == "")
}

func f64() {
	m := map[float64]int{}
	k := 4294967296.0
	m[k] = 1
	m[4294967296] = 2
	m[3000000000] = 5
	m[3000000000] += 20
	x := 3000000000.0
	fmt.Println(m[k]*10+len(m), m[x], m[4294967296])
}

func main() {
	u32()
	f64()
}
