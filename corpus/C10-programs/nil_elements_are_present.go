// imports: fmt
// a key whose element is nil (or the zero value) is present: comma-ok is true, len counts it, delete removes it
// (seed C10-nil-element-reported-missing)
func main() {
	m := map[string]any{"a": nil, "b": 1}
	v, ok := m["a"]
	_, ok2 := m["zz"]
	fmt.Println(v == nil, ok, ok2, len(m))
	m["c"] = nil
	m["b"] = nil
	_, okc := m["c"]
	_, okb := m["b"]
	fmt.Println(okc, okb, len(m))
	n := 0
	for _, e := range m {
		if e == nil {
			n++
		}
	}
	delete(m, "a")
	_, oka := m["a"]
	fmt.Println(n, oka, len(m))
	ps := map[string]*int{"p": nil}
	_, okp := ps["p"]
	ss := map[string][]int{"s": nil}
	e, oks := ss["s"]
	im := map[int]any{1: nil}
	_, oki := im[1]
	z := map[string]int{"z": 0}
	_, okz := z["z"]
	st := map[string]string{"e": ""}
	_, oke := st["e"]
	bm := map[bool]any{true: nil}
	_, okt := bm[true]
	fmt.Println(okp, oks, e == nil, oki, okz, oke, okt, len(ps), len(ss), len(im))
}
