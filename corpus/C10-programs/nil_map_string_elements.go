// imports: fmt
// a lookup in a nil map gives the zero value of the element type - for string elements the empty string, usable like
// any other string (seed C10-nil-map-string-zero-without-payload)
type Rec struct {
	names map[int]string
}

func label(m map[string]string, k string) string {
	v, ok := m[k]
	if ok {
		return v
	}
	return "<" + v + ">"
}

func main() {
	var m map[string]string
	var im map[int]string
	mm := map[string]map[string]string{"a": {"x": "y"}}
	r := &Rec{}
	s := m["k"]
	fmt.Println(s == "", len(s), s+"!", label(m, "k"), label(nil, "z"), im[3] == "", mm["missing"]["k"] == "", mm["a"]["x"], r.names[1]+"|")
	idx := map[string]int{}
	idx[m["k"]]++
	idx[im[7]] += 2
	fmt.Println(idx[""], len(idx), fmt.Sprint(m["q"]) == "", len(m), len(im))
	var nm map[string]int
	var sm map[string][]string
	var bm map[string]bool
	fmt.Println(nm["a"]+1, len(sm["a"]), sm["a"] == nil, bm["a"], !bm["b"])
}
