// imports: fmt
// a tuple assignment to several map elements stores each value under its own key (distinct keys; seed
// C10-tuple-targets-share-key-slot)
func main() {
	m := map[string]int{}
	m["x"], m["y"] = 1, 2
	_, okx := m["x"]
	fmt.Println(m["x"], m["y"], okx, len(m))
	m["x"], m["y"] = m["y"], m["x"]
	fmt.Println(m["x"], m["y"])
	fm := map[float64]string{}
	fm[0.5], fm[1.5], fm[2.5] = "a", "b", "c"
	fmt.Println(fm[0.5], fm[1.5], fm[2.5], len(fm))
	im := map[int]int{1: 10, 2: 20}
	i, j := 1, 2
	im[i], im[j] = im[j], im[i]
	k := 0
	s := []int{0, 0, 0}
	im[3], s[1], k = 30, 11, 5
	im[i+3], s[k-3] = 40, 12
	fmt.Println(im[1], im[2], im[3], im[4], s, k, len(im))
	n := 0
	for key, v := range im {
		n += key * v
	}
	fmt.Println(n)
}
