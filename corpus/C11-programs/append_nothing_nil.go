// imports: fmt
// appending nothing to a nil slice leaves it nil (fix 0ac9253); a declaration with a type and the initialiser nil is
// the nil slice of that type (fix ebaeb1a)
func main() {
	var s []int
	t := append(s)
	var e []int
	u := append(s, e...)
	w := append(s, 1)
	x := append(s, []int{}...)
	fmt.Println(t == nil, u == nil, w == nil, x == nil, len(t), len(u), len(w), len(x), s == nil)
	var b []byte = nil
	fmt.Println(b == nil, len(b))
	b = append(b, 200)
	b = append(b, "é"...)
	fmt.Println(b[0]+100, b, len(b))
	var m map[string]uint8 = nil
	fmt.Println(m == nil, m["a"]+1, len(m))
	var ss [][]int8 = nil
	ss = append(ss, nil, []int8{127})
	ss[1][0]++
	fmt.Println(ss, ss[0] == nil, ss[1][0])
	for i, v := range b[:0] {
		fmt.Println(i, v)
	}
	var z []int
	z1, z2, z3 := z[0:0], z[:], z[:0]
	z4 := append(z[:0], 1)
	fmt.Println(z1 == nil, z2 == nil, z3 == nil, len(z1), z4, z == nil)
	var f func(int) int = nil
	fmt.Println(f == nil)
}
