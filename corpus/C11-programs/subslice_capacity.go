// imports: fmt
// a sub-slice keeps the spare capacity of its parent: an append to it with room writes into the shared array, and it
// can be re-extended up to that capacity (seed C01-subslice-capacity-clipped)
func filterEven(in []int) []int {
	out := in[:0]
	for _, v := range in {
		if v%2 == 0 {
			out = append(out, v)
		}
	}
	return out
}

func main() {
	in := []int{1, 2, 3, 4, 5, 6}
	fmt.Println(filterEven(in), in)
	a := []int{1, 2, 3, 4}
	b := a[:2]
	b = append(b, 99)
	fmt.Println(a, b, len(b))
	c := []int{10, 20, 30, 40}
	head := c[:1]
	fmt.Println(head[:4], len(head))
	mid := c[1:2]
	mid = append(mid, 31)
	fmt.Println(c, mid)
	full := c[1:4]
	full = append(full, 50)
	full[0] = 21
	fmt.Println(c, full)
	tail := c[3:]
	fmt.Println(len(tail), tail[:1])
}
