// imports: fmt
// a tuple assignment evaluates the operands of its index targets (the slice and the index) before any store: the
// element written is an element of the OLD slice at the OLD index, seen through every alias (seeded C11 round 13);
// no two targets name the same cell here (the order of two stores to one cell is an open finding of C10)
func popFront() {
	s := []int{1, 2, 3}
	u := s
	s[0], s = 9, s[1:]
	fmt.Println(u, s, len(s))
}

func indexMoves() {
	a := []int{10, 20, 30, 40}
	b := a[1:3]
	i := 0
	b[i], i = 7, 1
	fmt.Println(a, b, i)
	i, b[i] = 0, 8
	fmt.Println(a, b, i)
}

func both() {
	a := []int{1, 2, 3, 4, 5}
	s := a[:2]
	t := a[3:]
	k := 1
	s[k], t, k = 50, a[1:3], 0
	fmt.Println(a, s, t, k)
	t[k+1], s[k+1], t = 60, 70, a
	fmt.Println(a, s, len(t))
}

func grown() {
	s := []int{0, 0}
	u := s
	s[1], s = 5, append(s, 6)
	s[0] = 100
	fmt.Println(u, s)
}

func main() {
	popFront()
	indexMoves()
	both()
	grown()
}
