// imports: fmt
// a field declared `any` holds the last value stored to it, whatever it held before: a float stored (through an
// alias) over an int stays a float (seeded C12 round 14); stores are variables, not constants (a constant stored to
// an `any` slot that holds another type is the open finding any-slot-adopts-previous-type of C04)
type Box struct {
	A int
	V any
	B int
}

func main() {
	b := &Box{A: 1, B: 2}
	c := b
	b.V = 7
	x := 2.5
	c.V = x
	fmt.Println(b.V, b.A, b.B)
	s := "s"
	c.V = s
	n := 3
	b.V = n
	fmt.Println(c.V)
	y := 0.75
	b.V = y * 3
	fmt.Println(c.V, c.A+c.B)
	u := uint8(200)
	c.V = u
	z := 1.5
	b.V = z
	fmt.Println(c.V)
}
