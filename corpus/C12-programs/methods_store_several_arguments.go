// imports: fmt
// a method stores each of its arguments into the field it names, whatever the number of arguments and the way the
// method is reached (seed C12-method-arguments-shifted-in-place)
type P struct {
	X, Y, Z int
	Name    string
	Tags    []string
}

func (p *P) Move(x, y int)                 { p.X = x; p.Y = y }
func (p *P) Set3(x, y, z int)              { p.X, p.Y, p.Z = x, y, z }
func (p *P) Label(n int, name string)      { p.Z = n; p.Name = name }
func (p *P) Tag(n int, tags ...string)     { p.Z = n; p.Tags = tags }
func (p *P) Sum(a, b, c, d int) int        { return a*1000 + b*100 + c*10 + d + p.X }
func (p *P) Swap(q *P, k int) (int, int)   { p.X, q.X = q.X+k, p.X+k; return p.X, q.X }

func main() {
	a := &P{}
	b := &P{}
	a.Move(1, 2)
	b.Set3(3, 4, 5)
	fmt.Println(a.X, a.Y, b.X, b.Y, b.Z)
	a.Label(9, "nine")
	b.Tag(7, "u", "v")
	fmt.Println(a.Z, a.Name, b.Z, b.Tags, a.Sum(1, 2, 3, 4))
	mv := b.Move
	mv(50, 60)
	alias := a
	alias.Set3(7, 8, 9)
	x, y := a.Swap(b, 100)
	fmt.Println(a.X, a.Y, a.Z, b.X, b.Y, x, y)
	ps := []*P{a, b}
	ps[1].Label(2, "two")
	f := ps[0].Sum
	fmt.Println(ps[1].Z, ps[1].Name, f(4, 3, 2, 1))
}
