// imports: fmt
// two local types of the same name in nested blocks of one function, the inner one retyping a field within its kind
// (slice of another element type, map with another element type): every instance starts with the zero value of the
// field type ITS type declares (seeded C12 round 13)
func f() {
	type P struct {
		V []int
		M map[string]int
		N int
	}
	a := &P{}
	a.V = append(a.V, 3)
	fmt.Println(a.V[0]/2, a.M["k"]+1, a.N)
	if a.N == 0 {
		type P struct {
			V []float64
			M map[string]string
			N int
		}
		b := &P{}
		b.V = append(b.V, 1)
		fmt.Println(b.V[0]/2, b.M["k"] == "", len(b.M["k"]), b.N)
	}
}

func main() {
	f()
}
