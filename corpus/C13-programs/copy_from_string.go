// imports: fmt
// copy from a string source moves its BYTES, min(len(dst), len(src)) of them, and the elements keep the slice's
// element type (seed C11-copy-from-string-reads-runes)
func main() {
	b := make([]byte, 5)
	n := copy(b, "héllo")
	fmt.Println(n, b, string(b))
	a := make([]byte, 8)
	sub := a[2:5]
	k := copy(sub, "wörld")
	fmt.Println(k, a, sub)
	c := make([]byte, 3)
	copy(c, "abc")
	c[0] += 200
	c[1] = c[1] + c[2]
	fmt.Println(c, c[0]/2, string(c[2:]))
	d := make([]byte, 2)
	fmt.Println(copy(d, ""), copy(d, "xyz"), d, string(d) == "xy")
	e := []byte("日本")
	f := make([]byte, 4)
	copy(f, string(e))
	fmt.Println(f, len(e))
}
