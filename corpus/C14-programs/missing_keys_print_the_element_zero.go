// imports: fmt
// the value of a missing key prints as the zero value of the ELEMENT type (seed C14-missing-numeric-key-zero-of-key-type)
func main() {
	seen := map[int]bool{1: true}
	names := map[int]string{1: "a"}
	lists := map[uint8][]string{1: {"x"}}
	fl := map[float64]bool{0.5: true}
	bm := map[bool]string{true: "t"}
	rs := map[rune]float64{'a': 1.5}
	fmt.Println(seen[5], seen[1], names[5]+"|", names[1], lists[5], lists[1], fl[1.5], bm[false]+"|", rs['b'])
	fmt.Println([]bool{seen[2], seen[1]}, []string{names[9], "z"})
	fmt.Print(seen[3], "\n")
	s := fmt.Sprint(names[4])
	fmt.Println(len(s), fmt.Sprint(seen[4]), fmt.Sprint(lists[4]), seen[5] == false, names[5] == "", len(lists[5]))
	v, ok := seen[8]
	w, ok2 := names[8]
	fmt.Println(v, ok, w == "", ok2)
}
