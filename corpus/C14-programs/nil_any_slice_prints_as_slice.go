// imports: fmt
// a nil slice prints as [] whatever its element type and however it was declared (seed C14-nil-any-slice-prints-nil)
var g []any = nil

func main() {
	var a []any = nil
	var b []any
	var c []int = nil
	var d [][]any = nil
	var m map[string]any = nil
	fmt.Println(a, b, c, d, m, g, len(a), a == nil)
	fmt.Print(a, "\n")
	fmt.Println(fmt.Sprint(a), fmt.Sprint(g) == "[]", []any{a, c})
	a = append(a, 1, "x")
	fmt.Println(a)
}
