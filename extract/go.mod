module goatx

go 1.20
