// goatx: fail-closed fact extractor. Parses /repo/*.go with go/ast and writes
// Lean definitions (namespace Gen) for the tables the proofs are stated over.
// Any shape it does not recognise is recorded in Gen.unrecognised, and the
// theorem Gen.allRecognised (in Goat/Gen/Facts.lean) then fails.
package main

import (
	"bytes"
	"fmt"
	"go/ast"
	"go/parser"
	"go/printer"
	"go/token"
	"math"
	"os"
	"path/filepath"
	"sort"
	"strconv"
	"strings"
)

var fset = token.NewFileSet()
var unrec []string

func bad(n ast.Node, why string) {
	p := fset.Position(n.Pos())
	unrec = append(unrec, fmt.Sprintf("%s:%d: %s", filepath.Base(p.Filename), p.Line, why))
}

func src(n ast.Node) string {
	var b bytes.Buffer
	printer.Fprint(&b, fset, n)
	return b.String()
}

func q(s string) string { return strconv.Quote(s) }

func parseFile(dir, name string) *ast.File {
	f, err := parser.ParseFile(fset, filepath.Join(dir, name), nil, 0)
	if err != nil {
		fmt.Fprintln(os.Stderr, "goatx:", err)
		os.Exit(2)
	}
	return f
}

func findFunc(f *ast.File, name string) *ast.FuncDecl {
	for _, d := range f.Decls {
		if fd, ok := d.(*ast.FuncDecl); ok && fd.Name.Name == name {
			return fd
		}
	}
	return nil
}

func findMethod(f *ast.File, name string) *ast.FuncDecl {
	for _, d := range f.Decls {
		if fd, ok := d.(*ast.FuncDecl); ok && fd.Name.Name == name && fd.Recv != nil {
			return fd
		}
	}
	return nil
}

func findVar(f *ast.File, name string) ast.Expr {
	for _, d := range f.Decls {
		gd, ok := d.(*ast.GenDecl)
		if !ok {
			continue
		}
		for _, s := range gd.Specs {
			vs, ok := s.(*ast.ValueSpec)
			if !ok {
				continue
			}
			for i, n := range vs.Names {
				if n.Name == name && i < len(vs.Values) {
					return vs.Values[i]
				}
			}
		}
	}
	return nil
}

func intLit(e ast.Expr) (int, bool) {
	neg := false
	if u, ok := e.(*ast.UnaryExpr); ok && u.Op == token.SUB {
		neg = true
		e = u.X
	}
	if p, ok := e.(*ast.ParenExpr); ok {
		return intLit(p.X)
	}
	if se, ok := e.(*ast.SelectorExpr); ok && !neg && src(se) == "math.MinInt" { // reg is an int: 64 bits here
		return math.MinInt64, true
	}
	bl, ok := e.(*ast.BasicLit)
	if !ok || bl.Kind != token.INT {
		return 0, false
	}
	v, err := strconv.ParseInt(bl.Value, 0, 64)
	if err != nil {
		return 0, false
	}
	if neg {
		v = -v
	}
	return int(v), true
}

func strLit(e ast.Expr) (string, bool) {
	bl, ok := e.(*ast.BasicLit)
	if !ok || bl.Kind != token.STRING {
		return "", false
	}
	s, err := strconv.Unquote(bl.Value)
	return s, err == nil
}

// ---------------------------------------------------------------- symbols

type sym struct {
	name     string
	lbp      int
	nud, led string
}

func extractSymbols(f *ast.File, consts map[string]int) []sym {
	fd := findFunc(f, "init")
	if fd == nil {
		bad(f, "symbol.go: init not found")
		return nil
	}
	var res []sym
	for _, st := range fd.Body.List {
		as, ok := st.(*ast.AssignStmt)
		if !ok || len(as.Lhs) != 1 || src(as.Lhs[0]) != "symbols" {
			continue
		}
		cl, ok := as.Rhs[0].(*ast.CompositeLit)
		if !ok {
			bad(as, "symbols: not a composite literal")
			return nil
		}
		for _, el := range cl.Elts {
			kv, ok := el.(*ast.KeyValueExpr)
			if !ok {
				bad(el, "symbols: element")
				continue
			}
			name, ok := strLit(kv.Key)
			if !ok {
				bad(kv, "symbols: key")
				continue
			}
			s := sym{name: name}
			vcl, ok := kv.Value.(*ast.CompositeLit)
			if !ok {
				bad(kv, "symbols: value")
				continue
			}
			for _, fe := range vcl.Elts {
				fkv, ok := fe.(*ast.KeyValueExpr)
				if !ok {
					bad(fe, "symbols: field")
					continue
				}
				switch src(fkv.Key) {
				case "Lbp":
					if v, ok := intLit(fkv.Value); ok {
						s.lbp = v
					} else if id, ok := fkv.Value.(*ast.Ident); ok {
						if v, ok := consts[id.Name]; ok {
							s.lbp = v
						} else {
							bad(fkv, "symbols: Lbp const "+id.Name)
						}
					} else {
						bad(fkv, "symbols: Lbp")
					}
				case "Nud":
					s.nud = src(fkv.Value)
				case "Led":
					s.led = src(fkv.Value)
				default:
					bad(fkv, "symbols: unknown field")
				}
			}
			res = append(res, s)
		}
	}
	if len(res) == 0 {
		bad(fd, "symbols: literal not found")
	}
	// the post-loop that fills nullNud/nullLed is checked by shape
	found := false
	for _, st := range fd.Body.List {
		if rs, ok := st.(*ast.RangeStmt); ok && src(rs.X) == "symbols" {
			found = strings.Contains(src(rs.Body), "s.Nud = nullNud") && strings.Contains(src(rs.Body), "s.Led = nullLed")
		}
	}
	if !found {
		bad(fd, "symbols: default nud/led loop")
	}
	return res
}

// the binding power a unary nud handler parses its operand at
func unaryBP(f *ast.File, fn string, consts map[string]int) (int, bool) {
	fd := findFunc(f, fn)
	if fd == nil {
		bad(f, fn+" not found")
		return 0, false
	}
	res, n := 0, 0
	ast.Inspect(fd.Body, func(nd ast.Node) bool {
		ce, ok := nd.(*ast.CallExpr)
		if !ok {
			return true
		}
		s := src(ce.Fun)
		if s == "p.doExpression" || s == "p.Expression" {
			n++
			if v, ok := intLit(ce.Args[0]); ok {
				res = v
			} else if id, ok := ce.Args[0].(*ast.Ident); ok {
				if v, ok := consts[id.Name]; ok {
					res = v
				} else {
					n = 99
				}
			} else {
				n = 99
			}
		}
		return true
	})
	if n != 1 {
		bad(fd, fn+": operand binding power")
		return 0, false
	}
	return res, true
}

func intConsts(f *ast.File) map[string]int {
	res := map[string]int{}
	for _, d := range f.Decls {
		gd, ok := d.(*ast.GenDecl)
		if !ok || gd.Tok != token.CONST {
			continue
		}
		for _, s := range gd.Specs {
			vs := s.(*ast.ValueSpec)
			for i, n := range vs.Names {
				if i < len(vs.Values) {
					if v, ok := intLit(vs.Values[i]); ok {
						res[n.Name] = v
					}
				}
			}
		}
	}
	return res
}

// ---------------------------------------------------------------- maps of idents

func stringIdentMap(f *ast.File, name string) [][2]string {
	e := findVar(f, name)
	cl, ok := e.(*ast.CompositeLit)
	if !ok {
		bad(f, name+": not found")
		return nil
	}
	var res [][2]string
	for _, el := range cl.Elts {
		kv, ok := el.(*ast.KeyValueExpr)
		if !ok {
			bad(el, name+": element")
			continue
		}
		k, ok := strLit(kv.Key)
		id, ok2 := kv.Value.(*ast.Ident)
		if !ok || !ok2 {
			bad(el, name+": entry")
			continue
		}
		res = append(res, [2]string{k, id.Name})
	}
	return res
}

// ---------------------------------------------------------------- opcodes

func extractCodes(f *ast.File) (names []string, nums map[string]int) {
	nums = map[string]int{}
	for _, d := range f.Decls {
		gd, ok := d.(*ast.GenDecl)
		if !ok || gd.Tok != token.CONST {
			continue
		}
		iota := 0
		mode := ""
		for _, s := range gd.Specs {
			vs := s.(*ast.ValueSpec)
			if len(vs.Values) == 1 {
				switch strings.ReplaceAll(src(vs.Values[0]), " ", "") {
				case "code(-(iota+1))":
					mode = "neg"
				case "code(iota)":
					mode = "pos"
				default:
					bad(vs, "codes: const expr")
				}
			}
			for _, n := range vs.Names {
				v := iota
				if mode == "neg" {
					v = -(iota + 1)
				}
				nums[n.Name] = v
				names = append(names, n.Name)
			}
			iota++
		}
	}
	return
}

func codeStrings(f *ast.File) map[string]string {
	res := map[string]string{}
	e := findVar(f, "codeToString")
	cl, ok := e.(*ast.CompositeLit)
	if !ok {
		bad(f, "codeToString not found")
		return res
	}
	for _, el := range cl.Elts {
		kv := el.(*ast.KeyValueExpr)
		id, ok := kv.Key.(*ast.Ident)
		s, ok2 := strLit(kv.Value)
		if !ok || !ok2 {
			bad(el, "codeToString entry")
			continue
		}
		res[id.Name] = s
	}
	return res
}

// ---------------------------------------------------------------- type tags

func extractTypeTags(f *ast.File) [][2]string {
	var res [][2]string
	for _, d := range f.Decls {
		gd, ok := d.(*ast.GenDecl)
		if !ok || gd.Tok != token.CONST {
			continue
		}
		for _, s := range gd.Specs {
			vs := s.(*ast.ValueSpec)
			if len(vs.Names) != 1 || len(vs.Values) != 1 {
				continue
			}
			ce, ok := vs.Values[0].(*ast.CallExpr)
			if !ok || src(ce.Fun) != "Type" || len(ce.Args) != 1 {
				continue
			}
			v, ok := intLit(ce.Args[0])
			if !ok {
				bad(vs, "type tag value")
				continue
			}
			res = append(res, [2]string{vs.Names[0].Name, strconv.Itoa(v)})
		}
	}
	if len(res) < 10 {
		bad(f, "type tags: too few")
	}
	return res
}

// ---------------------------------------------------------------- peephole rules

type operand struct {
	kind string // none | fld | neg | join
	i, j int
	f, g string
}

type rule struct {
	lhs     []string
	guards  []string
	rhs     string
	a, b, c operand
	pos     int
	skip    int
	line    int
}

func flattenAnd(e ast.Expr) []ast.Expr {
	if b, ok := e.(*ast.BinaryExpr); ok && b.Op == token.LAND {
		return append(flattenAnd(b.X), flattenAnd(b.Y)...)
	}
	return []ast.Expr{e}
}

// in[n], in[n+1] ... -> index
func inIndex(e ast.Expr) (int, bool) {
	ie, ok := e.(*ast.IndexExpr)
	if !ok || src(ie.X) != "in" {
		return 0, false
	}
	s := strings.ReplaceAll(src(ie.Index), " ", "")
	if s == "n" {
		return 0, true
	}
	if strings.HasPrefix(s, "n+") {
		v, err := strconv.Atoi(s[2:])
		return v, err == nil
	}
	return 0, false
}

// in[n+i].F
func inField(e ast.Expr) (int, string, bool) {
	se, ok := e.(*ast.SelectorExpr)
	if !ok {
		return 0, "", false
	}
	i, ok := inIndex(se.X)
	return i, se.Sel.Name, ok
}

func parseOperand(e ast.Expr) (operand, bool) {
	if i, f, ok := inField(e); ok && (f == "A" || f == "B" || f == "C") {
		return operand{kind: "fld", i: i, f: f}, true
	}
	if u, ok := e.(*ast.UnaryExpr); ok && u.Op == token.SUB {
		if i, f, ok := inField(u.X); ok {
			return operand{kind: "neg", i: i, f: f}, true
		}
	}
	if ce, ok := e.(*ast.CallExpr); ok && src(ce.Fun) == "joinParams" && len(ce.Args) == 2 {
		i, f, ok1 := inField(ce.Args[0])
		j, g, ok2 := inField(ce.Args[1])
		if ok1 && ok2 {
			return operand{kind: "join", i: i, f: f, j: j, g: g}, true
		}
	}
	return operand{}, false
}

func extractRules(f *ast.File, codeStr map[string]string) (rules []rule, okShape bool) {
	fd := findMethod(f, "doOptimize")
	if fd == nil {
		bad(f, "doOptimize not found")
		return nil, false
	}
	// shape: var out; for n := 0; n < len(in); n++ { switch { ... } }; return out
	if len(fd.Body.List) != 3 {
		bad(fd, "doOptimize: body shape")
		return nil, false
	}
	fs, ok := fd.Body.List[1].(*ast.ForStmt)
	if !ok || strings.ReplaceAll(src(fs.Init), " ", "") != "n:=0" || strings.ReplaceAll(src(fs.Cond), " ", "") != "n<len(in)" || strings.ReplaceAll(src(fs.Post), " ", "") != "n++" {
		bad(fd, "doOptimize: loop shape")
		return nil, false
	}
	if strings.ReplaceAll(src(fd.Body.List[2]), " ", "") != "returnout" {
		bad(fd, "doOptimize: return shape")
		return nil, false
	}
	if len(fs.Body.List) != 1 {
		bad(fs, "doOptimize: loop body")
		return nil, false
	}
	sw, ok := fs.Body.List[0].(*ast.SwitchStmt)
	if !ok || sw.Tag != nil || sw.Init != nil {
		bad(fs, "doOptimize: switch shape")
		return nil, false
	}
	sawDefault := false
	for _, cst := range sw.Body.List {
		cc := cst.(*ast.CaseClause)
		if cc.List == nil {
			// default: out = append(out, in[n])
			if len(cc.Body) != 1 || strings.ReplaceAll(src(cc.Body[0]), " ", "") != "out=append(out,in[n])" {
				bad(cc, "doOptimize: default clause")
			}
			sawDefault = true
			continue
		}
		if sawDefault {
			bad(cc, "doOptimize: case after default")
		}
		if len(cc.List) != 1 {
			bad(cc, "doOptimize: case list")
			continue
		}
		r := rule{line: fset.Position(cc.Pos()).Line}
		conds := flattenAnd(cc.List[0])
		window := -1
		codes := map[int]string{}
		good := true
		for ci, c := range conds {
			s := strings.ReplaceAll(src(c), " ", "")
			if ci == 0 {
				switch {
				case s == "n<len(in)":
					window = 1
				case strings.HasPrefix(s, "n<len(in)-"):
					v, err := strconv.Atoi(s[len("n<len(in)-"):])
					if err != nil {
						good = false
					}
					window = v + 1
				default:
					good = false
				}
				continue
			}
			be, ok := c.(*ast.BinaryExpr)
			if ok && be.Op == token.NEQ { // in[n+i].F != constant
				if i, fl, ok := inField(be.X); ok && fl != "Code" {
					if v, ok := intLit(be.Y); ok {
						r.guards = append(r.guards, fmt.Sprintf(".nec %d .%s (%d)", i, fl, v))
						continue
					}
				}
				good = false
				continue
			}
			if !ok || be.Op != token.EQL {
				good = false
				continue
			}
			if i, fl, ok := inField(be.X); ok && fl == "Code" {
				id, ok := be.Y.(*ast.Ident)
				if !ok {
					good = false
					continue
				}
				if _, dup := codes[i]; dup {
					good = false
				}
				codes[i] = id.Name
				continue
			}
			if i, fl, ok := inField(be.X); ok {
				if j, gl, ok := inField(be.Y); ok {
					r.guards = append(r.guards, fmt.Sprintf(".eqf %d .%s %d .%s", i, fl, j, gl))
					continue
				}
				if v, ok := intLit(be.Y); ok {
					r.guards = append(r.guards, fmt.Sprintf(".eqc %d .%s (%d)", i, fl, v))
					continue
				}
			}
			good = false
		}
		if !good || window < 1 || len(codes) != window {
			bad(cc, "doOptimize: case condition")
			continue
		}
		for i := 0; i < window; i++ {
			cn, ok := codes[i]
			if !ok {
				good = false
				break
			}
			r.lhs = append(r.lhs, codeStr[cn])
		}
		// body: out = append(out, instruction{...}) ; [n += k]
		if len(cc.Body) < 1 || len(cc.Body) > 2 {
			bad(cc, "doOptimize: case body length")
			continue
		}
		as, ok := cc.Body[0].(*ast.AssignStmt)
		if !ok || len(as.Rhs) != 1 {
			bad(cc, "doOptimize: case body")
			continue
		}
		ce, ok := as.Rhs[0].(*ast.CallExpr)
		if !ok || src(ce.Fun) != "append" || len(ce.Args) != 2 || src(ce.Args[0]) != "out" || src(as.Lhs[0]) != "out" {
			bad(cc, "doOptimize: append")
			continue
		}
		cl, ok := ce.Args[1].(*ast.CompositeLit)
		if !ok || src(cl.Type) != "instruction" {
			bad(cc, "doOptimize: instruction literal")
			continue
		}
		r.a, r.b, r.c = operand{kind: "none"}, operand{kind: "none"}, operand{kind: "none"}
		r.pos = -1
		for _, el := range cl.Elts {
			kv, ok := el.(*ast.KeyValueExpr)
			if !ok {
				good = false
				continue
			}
			switch src(kv.Key) {
			case "Pos":
				i, fl, ok := inField(kv.Value)
				if !ok || fl != "Pos" {
					good = false
				}
				r.pos = i
			case "Code":
				id, ok := kv.Value.(*ast.Ident)
				if !ok {
					good = false
				} else {
					r.rhs = codeStr[id.Name]
				}
			case "A", "B", "C":
				op, ok := parseOperand(kv.Value)
				if !ok {
					good = false
				}
				switch src(kv.Key) {
				case "A":
					r.a = op
				case "B":
					r.b = op
				case "C":
					r.c = op
				}
			default:
				good = false
			}
		}
		r.skip = 0
		if len(cc.Body) == 2 {
			s := strings.ReplaceAll(src(cc.Body[1]), " ", "")
			if !strings.HasPrefix(s, "n+=") {
				good = false
			} else {
				v, err := strconv.Atoi(s[3:])
				if err != nil {
					good = false
				}
				r.skip = v
			}
		}
		if !good || r.rhs == "" || r.pos < 0 || r.skip != window-1 {
			bad(cc, "doOptimize: case body shape")
			continue
		}
		rules = append(rules, r)
	}
	if !sawDefault {
		bad(sw, "doOptimize: no default")
	}
	return rules, true
}

func (o operand) lean() string {
	switch o.kind {
	case "fld":
		return fmt.Sprintf("(.fld %d .%s)", o.i, o.f)
	case "neg":
		return fmt.Sprintf("(.neg %d .%s)", o.i, o.f)
	case "join":
		return fmt.Sprintf("(.join %d .%s %d .%s)", o.i, o.f, o.j, o.g)
	}
	return ".none"
}

// optimize(): return c.doOptimize(c.doOptimize(in)) guarded by !c.Optimize
func optimizePasses(f *ast.File) int {
	fd := findMethod(f, "optimize")
	if fd == nil || len(fd.Body.List) != 2 {
		bad(f, "optimize: shape")
		return 0
	}
	if strings.ReplaceAll(src(fd.Body.List[0]), " ", "") != "if!c.Optimize{\n\treturnin\n}" && !strings.Contains(strings.ReplaceAll(src(fd.Body.List[0]), " ", ""), "if!c.Optimize{") {
		bad(fd, "optimize: guard")
	}
	s := strings.ReplaceAll(src(fd.Body.List[1]), " ", "")
	n := strings.Count(s, "c.doOptimize(")
	want := "return" + strings.Repeat("c.doOptimize(", n) + "in" + strings.Repeat(")", n)
	if s != want || n == 0 {
		bad(fd, "optimize: passes")
		return 0
	}
	return n
}

// ---------------------------------------------------------------- tree priorities

func treePriorities(f *ast.File) ([][2]string, bool) {
	fd := findFunc(f, "treeSort")
	if fd == nil {
		bad(f, "treeSort not found")
		return nil, false
	}
	var res [][2]string
	okCmp := false
	ast.Inspect(fd.Body, func(n ast.Node) bool {
		if as, ok := n.(*ast.AssignStmt); ok && len(as.Lhs) == 1 && src(as.Lhs[0]) == "priority" {
			if cl, ok := as.Rhs[0].(*ast.CompositeLit); ok {
				for _, el := range cl.Elts {
					kv := el.(*ast.KeyValueExpr)
					k, ok1 := strLit(kv.Key)
					v, ok2 := intLit(kv.Value)
					if !ok1 || !ok2 {
						bad(el, "treeSort: priority entry")
						continue
					}
					res = append(res, [2]string{k, strconv.Itoa(v)})
				}
			}
		}
		if rs, ok := n.(*ast.ReturnStmt); ok && len(rs.Results) == 1 && strings.ReplaceAll(src(rs.Results[0]), " ", "") == "am>bm" {
			okCmp = true
		}
		return true
	})
	s := strings.ReplaceAll(src(fd.Body), " ", "")
	if !okCmp || !strings.Contains(s, "sort.SliceStable(tt,") || !strings.Contains(s, "am,bm:=priority[a.Symbol],priority[b.Symbol]") {
		bad(fd, "treeSort: comparison shape")
	}
	return res, true
}

// ---------------------------------------------------------------- misc literals

func castTypes(f *ast.File) []string {
	// the []Type{...} literal guarding CAST in the ":=", "var" case (first occurrence with codeCast after it)
	var res []string
	fd := findMethod(f, "compile")
	var lits [][]string
	ast.Inspect(fd.Body, func(n ast.Node) bool {
		ifs, ok := n.(*ast.IfStmt)
		if !ok {
			return true
		}
		ce, ok := ifs.Cond.(*ast.CallExpr)
		if !ok || src(ce.Fun) != "slices.Contains" || len(ce.Args) != 2 {
			return true
		}
		cl, ok := ce.Args[0].(*ast.CompositeLit)
		if !ok || src(cl.Type) != "[]Type" {
			return true
		}
		if !strings.Contains(src(ifs.Body), "codeCast") {
			return true
		}
		var l []string
		for _, el := range cl.Elts {
			l = append(l, src(el))
		}
		lits = append(lits, l)
		return true
	})
	if len(lits) == 0 {
		bad(fd, "CAST type list not found")
		return nil
	}
	for _, l := range lits[1:] {
		if strings.Join(l, ",") != strings.Join(lits[0], ",") {
			bad(fd, "CAST type lists differ")
		}
	}
	res = lits[0]
	return res
}

// ---------------------------------------------------------------- panic containment facts (C03)

type fnFact struct {
	name     string
	recovers bool
	unprot   []string // package functions called outside the function's deferred recover (all calls if it has none; the handler's own calls included)
	stages   []string // "error in <stage>" prefixes of the fmt.Errorf calls in the body
	bareErr  int      // return statements handing back a bare `err` (unwrapped)
}

func recvName(fd *ast.FuncDecl) string {
	if fd.Recv == nil || len(fd.Recv.List) == 0 {
		return ""
	}
	t := fd.Recv.List[0].Type
	if st, ok := t.(*ast.StarExpr); ok {
		t = st.X
	}
	if ix, ok := t.(*ast.IndexExpr); ok {
		t = ix.X
	}
	if id, ok := t.(*ast.Ident); ok {
		return id.Name
	}
	return "?"
}

func isRecoverDefer(s ast.Stmt) (*ast.FuncLit, bool) {
	d, ok := s.(*ast.DeferStmt)
	if !ok {
		return nil, false
	}
	fl, ok := d.Call.Fun.(*ast.FuncLit)
	if !ok {
		return nil, false
	}
	found := false
	ast.Inspect(fl.Body, func(n ast.Node) bool {
		if c, ok := n.(*ast.CallExpr); ok {
			if id, ok := c.Fun.(*ast.Ident); ok && id.Name == "recover" {
				found = true
			}
		}
		return true
	})
	return fl, found
}

func extractCoverage(repo string) []fnFact {
	ents, _ := os.ReadDir(repo)
	var files []*ast.File
	for _, e := range ents {
		n := e.Name()
		if !strings.HasSuffix(n, ".go") || strings.HasSuffix(n, "_test.go") || strings.HasPrefix(n, "verif_") {
			continue
		}
		files = append(files, parseFile(repo, n))
	}
	funcs := map[string]bool{}
	methods := map[string][]string{} // method name -> full names
	pkgNames := map[string]bool{}    // imported packages: strconv.Unquote is not a method of ours
	for _, f := range files {
		for _, im := range f.Imports {
			path, _ := strconv.Unquote(im.Path.Value)
			name := path[strings.LastIndex(path, "/")+1:]
			if im.Name != nil {
				name = im.Name.Name
			}
			pkgNames[name] = true
		}
	}
	var decls []*ast.FuncDecl
	for _, f := range files {
		for _, d := range f.Decls {
			fd, ok := d.(*ast.FuncDecl)
			if !ok || fd.Body == nil {
				continue
			}
			decls = append(decls, fd)
			if r := recvName(fd); r != "" {
				methods[fd.Name.Name] = append(methods[fd.Name.Name], r+"."+fd.Name.Name)
			} else {
				funcs[fd.Name.Name] = true
			}
		}
	}
	collect := func(nodes []ast.Node) []string {
		set := map[string]bool{}
		for _, nd := range nodes {
			ast.Inspect(nd, func(n ast.Node) bool {
				c, ok := n.(*ast.CallExpr)
				if !ok {
					return true
				}
				switch fn := c.Fun.(type) {
				case *ast.Ident:
					if funcs[fn.Name] {
						set[fn.Name] = true
					}
				case *ast.IndexExpr: // generic instantiation f[T](...)
					if id, ok := fn.X.(*ast.Ident); ok && funcs[id.Name] {
						set[id.Name] = true
					}
				case *ast.SelectorExpr:
					if id, ok := fn.X.(*ast.Ident); ok && pkgNames[id.Name] && id.Obj == nil {
						break // a function of an imported package
					}
					if len(methods[fn.Sel.Name]) > 0 { // a method of the package, receiver unresolved
						set["."+fn.Sel.Name] = true
					}
				}
				return true
			})
		}
		var out []string
		for k := range set {
			out = append(out, k)
		}
		sort.Strings(out)
		return out
	}
	var facts []fnFact
	for _, fd := range decls {
		name := fd.Name.Name
		if r := recvName(fd); r != "" {
			name = r + "." + name
		}
		fact := fnFact{name: name}
		var nodes []ast.Node
		for _, st := range fd.Body.List {
			if fl, ok := isRecoverDefer(st); ok {
				fact.recovers = true
				nodes = append(nodes, fl.Body) // the handler itself runs unprotected
				break
			}
			nodes = append(nodes, st)
		}
		fact.unprot = collect(nodes)
		ast.Inspect(fd.Body, func(n ast.Node) bool {
			switch x := n.(type) {
			case *ast.CallExpr:
				if se, ok := x.Fun.(*ast.SelectorExpr); ok && se.Sel.Name == "Errorf" && len(x.Args) > 0 {
					if lit, ok := strLit(x.Args[0]); ok && strings.HasPrefix(lit, "error in ") {
						st := strings.TrimPrefix(lit, "error in ")
						if i := strings.Index(st, ":"); i >= 0 {
							st = st[:i]
						}
						fact.stages = append(fact.stages, st)
					}
				}
			case *ast.ReturnStmt:
				if len(x.Results) > 0 {
					if id, ok := x.Results[len(x.Results)-1].(*ast.Ident); ok && id.Name == "err" {
						fact.bareErr++
					}
				}
			case *ast.FuncLit:
				return false
			}
			return true
		})
		facts = append(facts, fact)
	}
	sort.Slice(facts, func(i, j int) bool { return facts[i].name < facts[j].name })
	return facts
}

func main() {
	repo := "/repo"
	out := ""
	if len(os.Args) > 1 {
		repo = os.Args[1]
	}
	if len(os.Args) > 2 {
		out = os.Args[2]
	}
	symF := parseFile(repo, "symbol.go")
	cmpF := parseFile(repo, "compiler.go")
	codF := parseFile(repo, "codes.go")
	valF := parseFile(repo, "value.go")
	treF := parseFile(repo, "tree.go")
	imF := parseFile(repo, "intmap.go")

	var b strings.Builder
	w := func(f string, a ...any) { fmt.Fprintf(&b, f, a...) }
	w("-- GENERATED by /verif/extract/goatx from /repo sources. Do not edit.\n")
	w("import Goat.Gen.Types\nnamespace Gen\n\n")

	// symbols
	consts := intConsts(symF)
	syms := extractSymbols(symF, consts)
	sort.Slice(syms, func(i, j int) bool { return syms[i].name < syms[j].name })
	w("def symbols : List Sym := [\n")
	for i, s := range syms {
		sep := ","
		if i == len(syms)-1 {
			sep = ""
		}
		w("  ⟨%s, %d, %s, %s⟩%s\n", q(s.name), s.lbp, q(s.nud), q(s.led), sep)
	}
	w("]\n\n")
	w("def commaBP : Nat := %d\n", consts["commaBP"])
	for _, fn := range []string{"negateNud", "complementNud", "notNud", "parenNud"} {
		v, _ := unaryBP(symF, fn, consts)
		w("def %sBP : Nat := %d\n", fn, v)
	}
	w("\n")

	// compiler maps
	for _, name := range []string{"infixMap", "prefixMap", "convMap", "builtinMap"} {
		m := stringIdentMap(cmpF, name)
		sort.Slice(m, func(i, j int) bool { return m[i][0] < m[j][0] })
		w("def %s : List (String × String) := [", name)
		for i, kv := range m {
			if i > 0 {
				w(", ")
			}
			w("(%s, %s)", q(kv[0]), q(kv[1]))
		}
		w("]\n")
	}
	w("def castTypes : List String := [")
	for i, t := range castTypes(cmpF) {
		if i > 0 {
			w(", ")
		}
		w("%s", q(t))
	}
	w("]\n\n")

	// opcodes
	names, nums := extractCodes(codF)
	cs := codeStrings(codF)
	w("def opcodes : List (String × Int) := [\n")
	for i, n := range names {
		s, ok := cs[n]
		if !ok {
			if n == "codeNewLocalStruct" || true {
				s = "?" + n
			}
		}
		sep := ","
		if i == len(names)-1 {
			sep = ""
		}
		w("  (%s, %d)%s\n", q(s), nums[n], sep)
	}
	w("]\n\n")

	// type tags
	w("def typeTags : List (String × Nat) := [")
	for i, kv := range extractTypeTags(valF) {
		if i > 0 {
			w(", ")
		}
		w("(%s, %s)", q(kv[0]), kv[1])
	}
	w("]\n\n")

	// peephole
	rules, _ := extractRules(cmpF, cs)
	w("def peephole : List Rule := [\n")
	for i, r := range rules {
		sep := ","
		if i == len(rules)-1 {
			sep = ""
		}
		var l []string
		for _, c := range r.lhs {
			l = append(l, q(c))
		}
		w("  { lhs := [%s], guards := [%s], rhs := %s, a := %s, b := %s, c := %s, pos := %d }%s -- compiler.go:%d\n",
			strings.Join(l, ", "), strings.Join(r.guards, ", "), q(r.rhs), r.a.lean(), r.b.lean(), r.c.lean(), r.pos, sep, r.line)
	}
	w("]\n")
	w("def optimizePasses : Nat := %d\n\n", optimizePasses(cmpF))

	// tree priorities
	tp, _ := treePriorities(treF)
	w("def treePriority : List (String × Int) := [")
	for i, kv := range tp {
		if i > 0 {
			w(", ")
		}
		w("(%s, %s)", q(kv[0]), kv[1])
	}
	w("]\n\n")

	// intmap constants
	ic := intConsts(imF)
	w("def intMapMin : Nat := %d\n", ic["intMapMin"])
	imSrc := strings.ReplaceAll(src(findMethod(imF, "init")), " ", "")
	if !strings.Contains(imSrc, "m.max=size*3/4") || !strings.Contains(imSrc, "m.min=size/4") || !strings.Contains(imSrc, "m.size,m.mask=size,size-1") {
		bad(imF, "intMap.init: load factors")
	}
	w("def intMapMaxNum : Nat := 3\ndef intMapMaxDen : Nat := 4\ndef intMapMinDen : Nat := 4\n")
	if strings.ReplaceAll(src(findFunc(imF, "intMapHash").Body), " ", "") != "{\n\treturnk\n}" {
		bad(imF, "intMapHash: not identity")
	}
	w("\n")

	// panic containment facts
	w("def funcs : List FnFact := [\n")
	facts := extractCoverage(repo)
	for i, f := range facts {
		sep := ","
		if i == len(facts)-1 {
			sep = ""
		}
		var l []string
		for _, c := range f.unprot {
			l = append(l, q(c))
		}
		var st []string
		for _, c := range f.stages {
			st = append(st, q(c))
		}
		w("  { name := %s, recovers := %v, unprot := [%s], stages := [%s], bareErr := %d }%s\n", q(f.name), f.recovers, strings.Join(l, ", "), strings.Join(st, ", "), f.bareErr, sep)
	}
	w("]\n\n")

	// identifier resolution
	order, enter := extractResolve(cmpF)
	w("def resolveOrder : List ResolveStep := [")
	for i, st := range order {
		if i > 0 {
			w(", ")
		}
		w(".%s", st)
	}
	w("]\n")
	w("def enterFuncDrops : Bool := %v\n", enterFuncShape(cmpF))
	w("def predeclaresFuncs : Bool := %v\n", predeclareShape(cmpF))
	w("def tupleStoresLastFirst : Bool := %v\n", tupleAssignShape(cmpF))
	w("def typeRedeclarationMerges : Bool := %v\n", typeObjectShape(valF, parseFile(repo, "do.go")))
	w("def enterFuncCases : List String := [")
	for i, e := range enter {
		if i > 0 {
			w(", ")
		}
		w("%s", q(e))
	}
	w("]\n\n")

	sort.Strings(unrec)
	w("def unrecognised : List String := [")
	for i, u := range unrec {
		if i > 0 {
			w(", ")
		}
		w("%s", q(u))
	}
	w("]\n\nend Gen\n")

	if out == "" {
		fmt.Print(b.String())
		return
	}
	old, _ := os.ReadFile(out)
	if string(old) != b.String() {
		if err := os.WriteFile(out, []byte(b.String()), 0o644); err != nil {
			fmt.Fprintln(os.Stderr, "goatx:", err)
			os.Exit(2)
		}
		fmt.Fprintln(os.Stderr, "goatx: wrote", out)
	}
	for _, u := range unrec {
		fmt.Fprintln(os.Stderr, "goatx: unrecognised:", u)
	}
}
