package main

// The identifier-resolution chain of compiler.compile (case "(name)") and the cases that enter a function.

import (
	"go/ast"
	"sort"
	"strings"
)

func squash(s string) string {
	return strings.NewReplacer(" ", "", "\t", "", "\n", "").Replace(s)
}

// extractResolve returns the steps of the if / else-if chain of `case "(name)":` in source order (the final else, a
// forward reference to the package-level key, is implied) and the case labels of compile's switch that call
// enterFunc with a function name.
func extractResolve(f *ast.File) (order []string, enter []string) {
	fd := findMethod(f, "compile")
	if fd == nil {
		bad(f, "compiler.compile not found")
		return []string{"unknown"}, nil
	}
	var nameClause *ast.CaseClause
	ast.Inspect(fd.Body, func(n ast.Node) bool {
		cc, ok := n.(*ast.CaseClause)
		if !ok {
			return true
		}
		var labels []string
		for _, e := range cc.List {
			if s, ok := strLit(e); ok {
				labels = append(labels, s)
			}
		}
		if len(labels) == 1 && labels[0] == "(name)" {
			nameClause = cc
		}
		calls := false
		for _, st := range cc.Body {
			ast.Inspect(st, func(m ast.Node) bool {
				if _, nested := m.(*ast.CaseClause); nested {
					return false
				}
				if ce, ok := m.(*ast.CallExpr); ok && squash(src(ce.Fun)) == "c.enterFunc" && len(ce.Args) == 1 && squash(src(ce.Args[0])) != `""` {
					calls = true
				}
				return true
			})
		}
		if calls {
			enter = append(enter, labels...)
		}
		return true
	})
	sort.Strings(enter)
	// (a guard that rejects the keyword fallthrough with a compile error may stand before the chain: it resolves nothing)
	if nameClause != nil && len(nameClause.Body) == 3 && squash(src(nameClause.Body[1])) == `iftok.Text=="fallthrough"{panicf("fallthroughisnotsupported")}` {
		nameClause.Body = []ast.Stmt{nameClause.Body[0], nameClause.Body[2]}
	}
	if nameClause == nil || len(nameClause.Body) != 2 {
		bad(fd, `compile: case "(name)" shape`)
		return []string{"unknown"}, enter
	}
	if squash(src(nameClause.Body[0])) != "key:=c.expPrefix(tok.Text)" {
		bad(nameClause.Body[0], `compile: case "(name)": key`)
		return []string{"unknown"}, enter
	}
	emit := func(code, idx string) string {
		return "res=append(res,instruction{Code:" + code + ",A:reg(" + idx + ")})"
	}
	type branch struct{ step, cond, body string }
	known := []branch{
		{"dollar", `tok.Text=="$"`, emit("codeGlobalGet", `c.Globals.Index("$")`)},
		{"localType", `c.isLocal()&&c.Globals.Exists(c.FuncName+"."+tok.Text)`, emit("codeGlobalGet", `c.Globals.Index(c.FuncName+"."+tok.Text)`)},
		{"local", `c.Locals.Exists(tok.Text)`, emit("codeLocalGet", `c.Locals.Index(tok.Text)`)},
		{"global", `c.Globals.Exists(key)`, emit("codeGlobalGet", `c.Globals.Index(key)`)},
		{"builtin", `c.Globals.Exists("builtin."+tok.Text)`, emit("codeGlobalGet", `c.Globals.Index("builtin."+tok.Text)`)},
	}
	var cur ast.Stmt = nameClause.Body[1]
	for cur != nil {
		is, ok := cur.(*ast.IfStmt)
		if !ok { // the final else
			blk, isBlk := cur.(*ast.BlockStmt)
			if !isBlk || len(blk.List) != 1 || squash(src(blk.List[0])) != emit("codeGlobalGet", `c.Globals.Index(key)`) {
				bad(cur, `compile: case "(name)": final else`)
				order = append(order, "unknown")
			}
			break
		}
		step := "unknown"
		if is.Init == nil && len(is.Body.List) == 1 {
			for _, k := range known {
				if squash(src(is.Cond)) == k.cond && squash(src(is.Body.List[0])) == k.body {
					step = k.step
				}
			}
		}
		if step == "unknown" {
			bad(is, `compile: case "(name)": branch`)
		}
		order = append(order, step)
		cur = is.Else
		if cur == nil { // no final else: a name found nowhere would compile to nothing
			bad(is, `compile: case "(name)": no final else`)
			order = append(order, "unknown")
		}
	}
	return order, enter
}

// enterFuncShape reports whether compiler.enterFunc has the shape the Resolve model assumes: it records the name as
// compiled and, when the name was compiled before, deletes from the table exactly the keys "<name>.<identifier>".
func enterFuncShape(f *ast.File) bool {
	fd := findMethod(f, "enterFunc")
	if fd == nil {
		bad(f, "compiler.enterFunc not found")
		return false
	}
	body := squash(src(fd.Body))
	for _, want := range []string{
		`c.FuncName=name`,
		`ifname==""{return}`,
		`ifc.Globals.compiled[name]{forkey:=rangec.Globals.keyToIndex{ifstrings.HasPrefix(key,name+".")&&!strings.Contains(key[len(name)+1:],"."){delete(c.Globals.keyToIndex,key)}}}`,
		`c.Globals.compiled[name]=true`,
	} {
		if !strings.Contains(body, want) {
			bad(fd, "enterFunc: expected "+want)
			return false
		}
	}
	return true
}

// predeclareShape reports whether compilePkgs enters the names of a package's functions into the table of globals
// before it compiles the package (the Resolve model's `predeclare`): the loop over the packages starts with
// declareFuncs(g, tok), and declareFuncs creates the key <export>.<name> for every function, variable and constant declared at the top of the package
// (also inside var ( ... ) groups).
func predeclareShape(f *ast.File) bool {
	cp, df := findFunc(f, "compilePkgs"), findFunc(f, "declareFuncs")
	if cp == nil || df == nil {
		return false
	}
	first := ""
	ast.Inspect(cp.Body, func(n ast.Node) bool {
		if r, ok := n.(*ast.RangeStmt); ok && first == "" && len(r.Body.List) > 0 {
			first = squash(src(r.Body.List[0]))
			return false
		}
		return true
	})
	if first != "declareFuncs(g,tok)" {
		return false
	}
	body := squash(src(df.Body))
	for _, want := range []string{
		`iftok!=nil&&tok.Symbol=="package"&&len(tok.Tokens)>0&&tok.Tokens[len(tok.Tokens)-1]!=nil&&tok.Tokens[len(tok.Tokens)-1].Text!=""{export=tok.Tokens[len(tok.Tokens)-1].Text+"."`,
		`declare=func(toks[]*token){for_,tok:=rangetoks{switch{casetok==nil||len(tok.Tokens)==0||tok.Tokens[0]==nil:casetok.Symbol=="function":g.Index(export+tok.Tokens[0].Text)casetok.Symbol=="var"||tok.Symbol==":="||tok.Symbol=="const":for_,name:=rangetok.Tokens[0].Tokens{ifname!=nil&&name.Symbol=="(name)"&&name.Text!="_"{g.Index(export+name.Text)}}casetok.Symbol=="block":declare(tok.Tokens)}}}`,
		`declare(pkg.Tokens)`,
	} {
		if !strings.Contains(body, want) {
			return false
		}
	}
	return true
}

// caseClause returns the clause of compiler.compile's switch whose only label is the given string
func caseClause(f *ast.File, label string) *ast.CaseClause {
	fd := findMethod(f, "compile")
	if fd == nil {
		return nil
	}
	var found *ast.CaseClause
	ast.Inspect(fd.Body, func(n ast.Node) bool {
		cc, ok := n.(*ast.CaseClause)
		if !ok || found != nil {
			return found == nil
		}
		if len(cc.List) == 1 {
			if s, ok := strLit(cc.List[0]); ok && s == label {
				found = cc
			}
		}
		return true
	})
	return found
}

// tupleAssignShape reports whether the compile case "=" has the shape the Tuple model assumes: the operands of index
// and field targets are compiled first (into hidden slots when there are several targets), then the right-hand side,
// and then ONE loop emits the stores for the targets from the last to the first.
func tupleAssignShape(f *ast.File) bool {
	cc := caseClause(f, "=")
	if cc == nil {
		return false
	}
	var body strings.Builder
	for _, st := range cc.Body {
		body.WriteString(squash(src(st)))
		body.WriteString(";")
	}
	b := body.String()
	operands := strings.Index(b, `forn,arg:=rangetargets{ifarg.Symbol!="index"&&arg.Symbol!="."{continue}`)
	hidden := strings.Index(b, `iflen(targets)==1&&!hasCall(arg.Tokens[indexItem])&&!(arg.Symbol=="index"&&hasCall(arg.Tokens[indexKey])){continue}hi:=c.Locals.Index(arg.Pos.String()+"#item")`)
	rhs := strings.Index(b, `res=append(res,c.compile(tok.Tokens[1])...);`)
	stores := strings.Index(b, `fori:=1;i<=len(tok.Tokens[0].Tokens);i++{arg:=tok.Tokens[0].Tokens[len(tok.Tokens[0].Tokens)-i]`)
	return operands >= 0 && hidden > operands && rhs > hidden && stores > rhs &&
		strings.Count(b, "codeSet}") == 1 && strings.Count(b, "res=append(res,c.compile(tok.Tokens[1])...)") == 1
}

// typeObjectShape reports whether GLOBALSTRUCT, syncFields and addField have the shape the TObj model assumes: a
// second declaration of a type name is merged into the existing object field by field, in the new object's Order;
// addField appends a name to Order only when Lookup does not know it and stores the value with Fields.Set.
func typeObjectShape(valF, doF *ast.File) bool {
	sf, af := findValueMethod(valF, "syncFields"), findValueMethod(valF, "addField")
	if sf == nil || af == nil || doF == nil {
		return false
	}
	if squash(src(sf.Body)) != `{cur:=b.value.(*structT)for_,key:=rangecur.Order{idx:=cur.Lookup[key]value,_:=cur.Fields.Get(idx)v.addField(key,idx,value)}}` {
		return false
	}
	if squash(src(af.Body)) != `{if_,ok:=v.value.(*structT).Lookup[key];!ok{v.value.(*structT).Order=append(v.value.(*structT).Order,key)}v.value.(*structT).Lookup[key]=idxv.value.(*structT).Fields.Set(idx,val)}` {
		return false
	}
	found := false
	ast.Inspect(doF, func(n ast.Node) bool {
		cc, ok := n.(*ast.CaseClause)
		if !ok || len(cc.List) != 1 || squash(src(cc.List[0])) != "codeGlobalStruct" {
			return true
		}
		var body strings.Builder
		for _, st := range cc.Body {
			body.WriteString(squash(src(st)))
			body.WriteString(";")
		}
		found = strings.Contains(body.String(), `ifprev.IsNil(){v.globals.Write(int(i.A),cur)}else{prev.syncFields(cur)};`)
		return false
	})
	return found
}

func findValueMethod(f *ast.File, name string) *ast.FuncDecl {
	if f == nil {
		return nil
	}
	for _, d := range f.Decls {
		if fd, ok := d.(*ast.FuncDecl); ok && fd.Name.Name == name && fd.Recv != nil && fd.Body != nil {
			return fd
		}
	}
	return nil
}
