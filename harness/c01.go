package main

// C01 — programs in the supported subset run exactly as the Go toolchain runs them.
//
// oracle: the Go toolchain itself (GOARCH=386: int is 32 bits), on programs from the
// type-directed generator (progen.go) and the scoping generator (c08.go).

import (
	"fmt"
	"sort"
	"strings"

	goat "github.com/philhassey/goatlang"
)

func init() { checks["C01"] = runC01 }

func (c *Ctx) goDiff(cut string, progs []GoProg, feats []map[string]bool) error {
	res, err := GoBatch(progs)
	if err != nil {
		return err
	}
	for i, p := range progs {
		c.Rep.Oracle[cut]++
		if res[i].Status == "compile-error" || res[i].Status == "timeout" {
			c.Rep.Count("go-" + res[i].Status)
			if res[i].Status == "compile-error" && len(c.Rep.Notes) < 5 {
				c.Rep.Notes = append(c.Rep.Notes, "generator produced invalid Go: "+res[i].Out)
			}
			continue
		}
		st, out := RunGoat(p)
		if feats != nil {
			for f := range feats[i] {
				c.Rep.Count("feature-" + f)
			}
		}
		c.Rep.Seen(p.Src, strings.Count(p.Src, "{") > 8)
		if _, ok := c.Findings[p.Src]; ok {
			continue
		}
		if st != res[i].Status || out != res[i].Out {
			c.Rep.Violate(Violation{Kind: "oracle", Cut: cut, Input: p.Src, Impl: st + "\n" + out, Oracle: res[i].Status + "\n" + res[i].Out})
		}
	}
	return nil
}

// ---------------------------------------------------------------- MiniGo: the fragment with an end-to-end theorem

type mgGen struct {
	r      *RNG
	acts   []string // model tokens "A slot expr"
	cnds   []string // "C op a b"
	nloops int
}

const mgLocals, mgCounters = 6, 4

func (g *mgGen) expr(d int) (src, tok string) {
	r := g.r
	if d <= 0 || r.Intn(3) == 0 {
		if r.Bool() {
			i := r.Intn(mgLocals)
			return fmt.Sprintf("l%d", i), fmt.Sprintf("l%d", i)
		}
		k := r.Intn(21)
		return fmt.Sprint(k), fmt.Sprintf("n%d", k)
	}
	a, at := g.expr(d - 1)
	op := Pick(r, []string{"+", "-", "*", "+", "-", "/", "%"})
	if (op == "/" || op == "%") && r.Intn(8) != 0 { // mostly a non-zero constant divisor; sometimes any expression (may panic)
		k := 1 + r.Intn(9)
		return fmt.Sprintf("(%s %s %d)", a, op, k), fmt.Sprintf("%s %s n%d", op, at, k)
	}
	b, bt := g.expr(d - 1)
	return fmt.Sprintf("(%s %s %s)", a, op, b), fmt.Sprintf("%s %s %s", op, at, bt)
}

func (g *mgGen) act(slot int, src, tok string) (string, string) {
	g.acts = append(g.acts, fmt.Sprintf("A %d %s", slot, tok))
	return fmt.Sprintf("l%d = %s\n", slot, src), fmt.Sprintf("act %d", len(g.acts)-1)
}

func (g *mgGen) cnd() (string, string) {
	r := g.r
	a, at := g.expr(1)
	b, bt := g.expr(1)
	op := Pick(r, [][2]string{{"<", "lt"}, {"<=", "lte"}, {">", "gt"}, {">=", "gte"}, {"==", "eq"}, {"!=", "neq"}})
	g.cnds = append(g.cnds, fmt.Sprintf("C %s %s %s", op[1], at, bt))
	return fmt.Sprintf("%s %s %s", a, op[0], b), fmt.Sprint(len(g.cnds) - 1)
}

// stmt returns source text and model tokens (prefix form)
func (g *mgGen) stmt(d int, inLoop bool) (string, string) {
	r := g.r
	k := r.Intn(100)
	if d <= 0 && k >= 40 {
		k = r.Intn(40)
	}
	switch {
	case k < 30:
		e, et := g.expr(2)
		return g.act(r.Intn(mgLocals), e, et)
	case k < 36 && inLoop:
		c, ci := g.cnd()
		return fmt.Sprintf("if %s {\nbreak\n}\n", c), fmt.Sprintf("ift %s brk", ci)
	case k < 40 && inLoop:
		c, ci := g.cnd()
		return fmt.Sprintf("if %s {\ncontinue\n}\n", c), fmt.Sprintf("ift %s cont", ci)
	case k < 55:
		a, at := g.stmt(d-1, inLoop)
		b, bt := g.stmt(d-1, inLoop)
		return a + b, "seq " + at + " " + bt
	case k < 68:
		c, ci := g.cnd()
		a, at := g.stmt(d-1, inLoop)
		b, bt := g.stmt(d-1, inLoop)
		return fmt.Sprintf("if %s {\n%s} else {\n%s}\n", c, a, b), fmt.Sprintf("ite %s %s %s", ci, at, bt)
	case k < 80:
		c, ci := g.cnd()
		a, at := g.stmt(d-1, inLoop)
		return fmt.Sprintf("if %s {\n%s}\n", c, a), fmt.Sprintf("ift %s %s", ci, at)
	case k < 84 && d > 0: // tagless switch: 1..2 clauses and an optional default; break leaves the switch
		var src strings.Builder
		src.WriteString("switch {\n")
		tok := ""
		for n := 1 + r.Intn(2); n > 0; n-- {
			c, ci := g.cnd()
			a, at := g.stmt(d-1, inLoop)
			if r.Intn(4) == 0 {
				c2, ci2 := g.cnd()
				a = fmt.Sprintf("if %s {\nbreak\n}\n", c2) + a
				at = fmt.Sprintf("seq ift %s brk %s", ci2, at)
			}
			fmt.Fprintf(&src, "case %s:\n%s", c, a)
			tok += fmt.Sprintf("swc %s %s ", ci, at)
		}
		if r.Bool() {
			a, at := g.stmt(d-1, inLoop)
			fmt.Fprintf(&src, "default:\n%s", a)
			tok += "swd " + at
		} else {
			tok += "swd act 9999"
		}
		src.WriteString("}\n")
		return src.String(), tok
	case k < 92 && g.nloops < mgCounters: // for ck = 0; ck < N; ck = ck + 1 { body }
		ck := mgLocals + g.nloops
		g.nloops++
		n := r.Intn(5)
		g.acts = append(g.acts, fmt.Sprintf("A %d n0", ck))
		initI := len(g.acts) - 1
		g.acts = append(g.acts, fmt.Sprintf("A %d + l%d n1", ck, ck))
		postI := len(g.acts) - 1
		g.cnds = append(g.cnds, fmt.Sprintf("C lt l%d n%d", ck, n))
		cI := len(g.cnds) - 1
		b, bt := g.stmt(d-1, true)
		return fmt.Sprintf("for l%d = 0; l%d < %d; l%d = l%d + 1 {\n%s}\n", ck, ck, n, ck, ck, b),
			fmt.Sprintf("seq act %d loop %d %d %s", initI, cI, postI, bt)
	case g.nloops < mgCounters: // ck = 0; for { if ck >= N { break }; ck = ck + 1; body }
		ck := mgLocals + g.nloops
		g.nloops++
		n := r.Intn(5)
		g.acts = append(g.acts, fmt.Sprintf("A %d n0", ck))
		initI := len(g.acts) - 1
		g.acts = append(g.acts, fmt.Sprintf("A %d + l%d n1", ck, ck))
		incI := len(g.acts) - 1
		g.cnds = append(g.cnds, fmt.Sprintf("C gte l%d n%d", ck, n))
		cI := len(g.cnds) - 1
		b, bt := g.stmt(d-1, true)
		return fmt.Sprintf("l%d = 0\nfor {\nif l%d >= %d {\nbreak\n}\nl%d = l%d + 1\n%s}\n", ck, ck, n, ck, ck, b),
			fmt.Sprintf("seq act %d forever 9999 seq ift %d brk seq act %d %s", initI, cI, incI, bt)
	}
	e, et := g.expr(1)
	return g.act(r.Intn(mgLocals), e, et)
}

func (c *Ctx) c01MiniGo(n int) error {
	r := c.RNG
	nl := mgLocals + mgCounters
	var params, rets, retTypes []string
	for i := 0; i < nl; i++ {
		params = append(params, fmt.Sprintf("l%d int", i))
		rets = append(rets, fmt.Sprintf("l%d", i))
		retTypes = append(retTypes, "int")
	}
	type job struct {
		src, line, code, outOff, outOn string
	}
	var jobs []job
	var lines []string
	for it := 0; it < n; it++ {
		g := &mgGen{r: r}
		body, toks := g.stmt(2+r.Intn(3), false)
		var init, initS []string
		for i := 0; i < nl; i++ {
			v := r.Intn(30) - 5
			if i >= mgLocals {
				v = 0
			}
			init = append(init, fmt.Sprint(v))
			initS = append(initS, fmt.Sprintf("(%d)", v))
		}
		src := fmt.Sprintf("func f(%s) (%s) {\n%sreturn %s\n}\n", strings.Join(params, ", "), strings.Join(retTypes, ", "), body, strings.Join(rets, ", "))
		line := "mini " + strings.Join(init, ",") + " | " + toks
		for _, a := range g.acts {
			line += " | " + a
		}
		for _, k := range g.cnds {
			line += " | " + k
		}
		j := job{src: src, line: line}
		// the real compiler's body code, optimizer off
		ins, _, err := goat.New().VerifCompile(src, false)
		if err != nil {
			j.code = "compile error: " + err.Error()
		} else {
			lo, hi := 1+2*nl, len(ins)-(nl+2)
			var w []string
			if lo <= hi {
				for _, in := range ins[lo:hi] {
					w = append(w, fmt.Sprintf("%s:%d", in.Code, in.A))
				}
			}
			j.code = strings.Join(w, ",")
		}
		call := src + fmt.Sprintf("%s := f(%s)\nprintln(%s)\n", strings.Join(rets, ", "), strings.Join(initS, ", "), strings.Join(rets, ", "))
		for _, opt := range []bool{false, true} {
			goat.VerifSetBudget(3000000)
			o, e := runScriptOpt(call, opt)
			goat.VerifSetBudget(-1)
			res := strings.ReplaceAll(strings.TrimSpace(o), " ", ",")
			if e != nil {
				res = "panic"
				if strings.Contains(e.Error(), "budget") {
					res = "fuel"
				}
			}
			if opt {
				j.outOn = res
			} else {
				j.outOff = res
			}
		}
		jobs = append(jobs, j)
		lines = append(lines, line)
		c.Rep.Seen(src, strings.Contains(toks, "loop") || strings.Contains(toks, "forever"))
		if it == 0 {
			c.Rep.Sample(map[string]any{"minigo_program": src, "model_line": line})
		}
	}
	if c.Model == nil {
		return nil
	}
	ans, err := c.Model.AskAll(lines)
	if err != nil {
		return err
	}
	for i, j := range jobs {
		c.Rep.Corr["minigo"]++
		want := fmt.Sprintf("code=%s vm=%s src=%s", j.code, j.outOff, j.outOn)
		a := ans[i]
		// the model's three answers: its compiled code, its machine's result, Go's source semantics
		if a != fmt.Sprintf("code=%s vm=%s src=%s", j.code, j.outOff, j.outOff) || j.outOff != j.outOn {
			c.Rep.Violate(Violation{Kind: "correspondence", Cut: "minigo", Input: map[string]any{"program": j.src, "model_line": j.line}, Impl: want, Model: a})
		}
		switch {
		case j.outOff == "panic":
			c.Rep.Count("minigo-panic")
		case j.outOff == "fuel":
			c.Rep.Count("minigo-fuel")
		default:
			c.Rep.Count("minigo-ok")
		}
	}
	return nil
}

func runScriptOpt(src string, opt bool) (out string, err error) {
	defer func() {
		if r := recover(); r != nil {
			err = fmt.Errorf("PANIC %v", r)
		}
	}()
	var w strings.Builder
	vm := goat.New(goat.WithStdout(&w))
	_, err = vm.VerifEval(src, opt)
	return w.String(), err
}

func runC01(c *Ctx) error {
	nm := 300
	if c.Thorough() {
		nm = 20000
	}
	if err := c.c01MiniGo(nm); err != nil {
		return err
	}
	c.Rep.Rule = "generated Go programs (type-directed: ints with all operators, bools with && ||, slices, maps, struct references with methods, helper functions, if/else-if, three kinds of for, range over slice/map/string, tagged and tagless switch with expression lists and default anywhere, break/continue/early return; plus the scoping generator) compiled and run by the Go toolchain with GOARCH=386 and by goatlang; stdout and outcome must be equal; distinct = distinct source; non-trivial = more than 8 blocks"
	n := 200
	if c.Thorough() {
		n = 6000
	}
	for done := 0; done < n; done += 200 {
		var progs []GoProg
		var feats []map[string]bool
		for i := 0; i < 200 && done+i < n; i++ {
			if i%5 == 4 {
				progs = append(progs, c08Program(c.RNG, 2+c.RNG.Intn(3)))
				feats = append(feats, map[string]bool{"scoping": true})
			} else {
				p, f := GenProgram(c.RNG, 2+c.RNG.Intn(3))
				progs = append(progs, p)
				feats = append(feats, f)
			}
		}
		if done == 0 {
			c.Rep.Sample(map[string]any{"program": progs[0].Src})
		}
		if err := c.goDiff("go-toolchain", progs, feats); err != nil {
			return err
		}
	}
	var ks []string
	for k := range c.Rep.Dist {
		ks = append(ks, k)
	}
	sort.Strings(ks)
	_ = fmt.Sprint(ks)
	return nil
}
