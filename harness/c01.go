package main

// C01 — programs in the supported subset run exactly as the Go toolchain runs them.
//
// oracle: the Go toolchain itself (GOARCH=386: int is 32 bits), on programs from the
// type-directed generator (progen.go) and the scoping generator (c08.go).

import (
	"fmt"
	"math"
	"os"
	"path/filepath"
	"sort"
	"strconv"
	"strings"

	goat "github.com/philhassey/goatlang"
)

func init() { checks["C01"] = runC01 }

func (c *Ctx) goDiff(cut string, progs []GoProg, feats []map[string]bool) error {
	res, err := GoBatch(progs)
	if err != nil {
		return err
	}
	for i, p := range progs {
		c.Rep.Oracle[cut]++
		if res[i].Status == "compile-error" || res[i].Status == "timeout" {
			c.Rep.Count("go-" + res[i].Status)
			if res[i].Status == "compile-error" && len(c.Rep.Notes) < 5 {
				c.Rep.Notes = append(c.Rep.Notes, "generator produced invalid Go: "+res[i].Out)
			}
			if res[i].Status == "compile-error" && strings.Contains(cut, "corpus") {
				// a handwritten program must be valid Go: this is a mistake in the check's own corpus, not a verdict
				return fmt.Errorf("corpus program is not valid Go (%s): %s", cut, res[i].Out)
			}
			continue
		}
		st, out := RunGoat(p)
		if feats != nil {
			for f := range feats[i] {
				c.Rep.Count("feature-" + f)
			}
		}
		c.Rep.Seen(p.Src, strings.Count(p.Src, "{") > 8)
		if _, ok := c.Findings[p.Src]; ok {
			continue
		}
		if st != res[i].Status || out != res[i].Out {
			c.Rep.Violate(Violation{Kind: "oracle", Cut: cut, Input: p.Src, Impl: st + "\n" + out, Oracle: res[i].Status + "\n" + res[i].Out})
		}
	}
	return nil
}

// ---------------------------------------------------------------- MiniGo: the fragment with an end-to-end theorem

type mgGen struct {
	r      *RNG
	acts   []string // model tokens "A slot expr"
	cnds   []string // "C op a b"
	nloops int
}

const mgLocals, mgCounters = 6, 4

func (g *mgGen) expr(d int) (src, tok string) {
	r := g.r
	if d <= 0 || r.Intn(3) == 0 {
		if r.Bool() {
			i := r.Intn(mgLocals)
			return fmt.Sprintf("l%d", i), fmt.Sprintf("l%d", i)
		}
		k := r.Intn(21)
		return fmt.Sprint(k), fmt.Sprintf("n%d", k)
	}
	a, at := g.expr(d - 1)
	op := Pick(r, []string{"+", "-", "*", "+", "-", "/", "%"})
	if (op == "/" || op == "%") && r.Intn(8) != 0 { // mostly a non-zero constant divisor; sometimes any expression (may panic)
		k := 1 + r.Intn(9)
		return fmt.Sprintf("(%s %s %d)", a, op, k), fmt.Sprintf("%s %s n%d", op, at, k)
	}
	b, bt := g.expr(d - 1)
	return fmt.Sprintf("(%s %s %s)", a, op, b), fmt.Sprintf("%s %s %s", op, at, bt)
}

func (g *mgGen) act(slot int, src, tok string) (string, string) {
	g.acts = append(g.acts, fmt.Sprintf("A %d %s", slot, tok))
	return fmt.Sprintf("l%d = %s\n", slot, src), fmt.Sprintf("act %d", len(g.acts)-1)
}

// bexp: a condition — comparisons combined with && || ! (short-circuit: the right operand may divide
// by something the left operand has just excluded)
func (g *mgGen) bexp(d int) (src, tok string) {
	r := g.r
	if d > 0 {
		switch r.Intn(8) {
		case 0, 1:
			a, at := g.bexp(d - 1)
			b, bt := g.bexp(d - 1)
			return "(" + a + " && " + b + ")", "and " + at + " " + bt
		case 2, 3:
			a, at := g.bexp(d - 1)
			b, bt := g.bexp(d - 1)
			return "(" + a + " || " + b + ")", "or " + at + " " + bt
		case 4:
			a, at := g.bexp(d - 1)
			return "!(" + a + ")", "not " + at
		case 5: // the guard idiom
			i := r.Intn(mgLocals)
			e, et := g.expr(1)
			return fmt.Sprintf("(l%d != 0 && (%s / l%d) > 1)", i, e, i), fmt.Sprintf("and neq l%d n0 gt / %s l%d n1", i, et, i)
		}
	}
	a, at := g.expr(1)
	b, bt := g.expr(1)
	op := Pick(r, [][2]string{{"<", "lt"}, {"<=", "lte"}, {">", "gt"}, {">=", "gte"}, {"==", "eq"}, {"!=", "neq"}})
	return fmt.Sprintf("%s %s %s", a, op[0], b), fmt.Sprintf("%s %s %s", op[1], at, bt)
}

func (g *mgGen) cnd() (string, string) {
	src, tok := g.bexp(g.r.Intn(3))
	g.cnds = append(g.cnds, "C "+tok)
	return src, fmt.Sprint(len(g.cnds) - 1)
}

// stmt returns source text and model tokens (prefix form)
func (g *mgGen) stmt(d int, inLoop bool) (string, string) {
	r := g.r
	k := r.Intn(100)
	if d <= 0 && k >= 40 {
		k = r.Intn(40)
	}
	switch {
	case k < 30:
		e, et := g.expr(2)
		return g.act(r.Intn(mgLocals), e, et)
	case k < 36 && inLoop:
		c, ci := g.cnd()
		return fmt.Sprintf("if %s {\nbreak\n}\n", c), fmt.Sprintf("ift %s brk", ci)
	case k < 40 && inLoop:
		c, ci := g.cnd()
		return fmt.Sprintf("if %s {\ncontinue\n}\n", c), fmt.Sprintf("ift %s cont", ci)
	case k < 55:
		a, at := g.stmt(d-1, inLoop)
		b, bt := g.stmt(d-1, inLoop)
		return a + b, "seq " + at + " " + bt
	case k < 68:
		c, ci := g.cnd()
		a, at := g.stmt(d-1, inLoop)
		b, bt := g.stmt(d-1, inLoop)
		return fmt.Sprintf("if %s {\n%s} else {\n%s}\n", c, a, b), fmt.Sprintf("ite %s %s %s", ci, at, bt)
	case k < 80:
		c, ci := g.cnd()
		a, at := g.stmt(d-1, inLoop)
		return fmt.Sprintf("if %s {\n%s}\n", c, a), fmt.Sprintf("ift %s %s", ci, at)
	case k < 84 && d > 0: // tagless switch: 1..2 clauses and an optional default; break leaves the switch
		var src strings.Builder
		src.WriteString("switch {\n")
		tok := ""
		for n := 1 + r.Intn(2); n > 0; n-- {
			c, ci := g.cnd()
			a, at := g.stmt(d-1, inLoop)
			if r.Intn(4) == 0 {
				c2, ci2 := g.cnd()
				a = fmt.Sprintf("if %s {\nbreak\n}\n", c2) + a
				at = fmt.Sprintf("seq ift %s brk %s", ci2, at)
			}
			fmt.Fprintf(&src, "case %s:\n%s", c, a)
			tok += fmt.Sprintf("swc %s %s ", ci, at)
		}
		if r.Bool() {
			a, at := g.stmt(d-1, inLoop)
			fmt.Fprintf(&src, "default:\n%s", a)
			tok += "swd " + at
		} else {
			tok += "swd act 9999"
		}
		src.WriteString("}\n")
		return src.String(), tok
	case k < 92 && g.nloops < mgCounters: // for ck = 0; ck < N; ck = ck + 1 { body }
		ck := mgLocals + g.nloops
		g.nloops++
		n := r.Intn(5)
		g.acts = append(g.acts, fmt.Sprintf("A %d n0", ck))
		initI := len(g.acts) - 1
		g.acts = append(g.acts, fmt.Sprintf("A %d + l%d n1", ck, ck))
		postI := len(g.acts) - 1
		g.cnds = append(g.cnds, fmt.Sprintf("C lt l%d n%d", ck, n))
		cI := len(g.cnds) - 1
		b, bt := g.stmt(d-1, true)
		return fmt.Sprintf("for l%d = 0; l%d < %d; l%d = l%d + 1 {\n%s}\n", ck, ck, n, ck, ck, b),
			fmt.Sprintf("seq act %d loop %d %d %s", initI, cI, postI, bt)
	case g.nloops < mgCounters: // ck = 0; for { if ck >= N { break }; ck = ck + 1; body }
		ck := mgLocals + g.nloops
		g.nloops++
		n := r.Intn(5)
		g.acts = append(g.acts, fmt.Sprintf("A %d n0", ck))
		initI := len(g.acts) - 1
		g.acts = append(g.acts, fmt.Sprintf("A %d + l%d n1", ck, ck))
		incI := len(g.acts) - 1
		g.cnds = append(g.cnds, fmt.Sprintf("C gte l%d n%d", ck, n))
		cI := len(g.cnds) - 1
		b, bt := g.stmt(d-1, true)
		return fmt.Sprintf("l%d = 0\nfor {\nif l%d >= %d {\nbreak\n}\nl%d = l%d + 1\n%s}\n", ck, ck, n, ck, ck, b),
			fmt.Sprintf("seq act %d forever 9999 seq ift %d brk seq act %d %s", initI, cI, incI, bt)
	}
	e, et := g.expr(1)
	return g.act(r.Intn(mgLocals), e, et)
}

func (c *Ctx) c01MiniGo(n int) error {
	r := c.RNG
	nl := mgLocals + mgCounters
	var params, rets, retTypes []string
	for i := 0; i < nl; i++ {
		params = append(params, fmt.Sprintf("l%d int", i))
		rets = append(rets, fmt.Sprintf("l%d", i))
		retTypes = append(retTypes, "int")
	}
	type job struct {
		src, line, code, outOff, outOn string
	}
	var jobs []job
	var lines []string
	for it := 0; it < n; it++ {
		g := &mgGen{r: r}
		body, toks := g.stmt(2+r.Intn(3), false)
		var init, initS []string
		for i := 0; i < nl; i++ {
			v := r.Intn(30) - 5
			if i >= mgLocals {
				v = 0
			}
			init = append(init, fmt.Sprint(v))
			initS = append(initS, fmt.Sprintf("(%d)", v))
		}
		src := fmt.Sprintf("func f(%s) (%s) {\n%sreturn %s\n}\n", strings.Join(params, ", "), strings.Join(retTypes, ", "), body, strings.Join(rets, ", "))
		line := "mini " + strings.Join(init, ",") + " | " + toks
		for _, a := range g.acts {
			line += " | " + a
		}
		for _, k := range g.cnds {
			line += " | " + k
		}
		j := job{src: src, line: line}
		// the real compiler's body code, optimizer off
		ins, _, err := goat.New().VerifCompile(src, false)
		if err != nil {
			j.code = "compile error: " + err.Error()
		} else {
			lo, hi := 1+2*nl, len(ins)-(nl+2)
			var w []string
			if lo <= hi {
				for _, in := range ins[lo:hi] {
					w = append(w, fmt.Sprintf("%s:%d", in.Code, in.A))
				}
			}
			j.code = strings.Join(w, ",")
		}
		call := src + fmt.Sprintf("%s := f(%s)\nprintln(%s)\n", strings.Join(rets, ", "), strings.Join(initS, ", "), strings.Join(rets, ", "))
		for _, opt := range []bool{false, true} {
			goat.VerifSetBudget(3000000)
			o, e := runScriptOpt(call, opt)
			goat.VerifSetBudget(-1)
			res := strings.ReplaceAll(strings.TrimSpace(o), " ", ",")
			if e != nil {
				res = "panic"
				if strings.Contains(e.Error(), "budget") {
					res = "fuel"
				}
			}
			if opt {
				j.outOn = res
			} else {
				j.outOff = res
			}
		}
		jobs = append(jobs, j)
		lines = append(lines, line)
		c.Rep.Seen(src, strings.Contains(toks, "loop") || strings.Contains(toks, "forever"))
		if it == 0 {
			c.Rep.Sample(map[string]any{"minigo_program": src, "model_line": line})
		}
	}
	if c.Model == nil {
		return nil
	}
	ans, err := c.Model.AskAll(lines)
	if err != nil {
		return err
	}
	for i, j := range jobs {
		c.Rep.Corr["minigo"]++
		want := fmt.Sprintf("code=%s vm=%s src=%s", j.code, j.outOff, j.outOn)
		a := ans[i]
		// the model's three answers: its compiled code, its machine's result, Go's source semantics
		if a != fmt.Sprintf("code=%s vm=%s src=%s", j.code, j.outOff, j.outOff) || j.outOff != j.outOn {
			c.Rep.Violate(Violation{Kind: "correspondence", Cut: "minigo", Input: map[string]any{"program": j.src, "model_line": j.line}, Impl: want, Model: a})
		}
		switch {
		case j.outOff == "panic":
			c.Rep.Count("minigo-panic")
		case j.outOff == "fuel":
			c.Rep.Count("minigo-fuel")
		default:
			c.Rep.Count("minigo-ok")
		}
	}
	return nil
}

func runScriptOpt(src string, opt bool) (out string, err error) {
	defer func() {
		if r := recover(); r != nil {
			err = fmt.Errorf("PANIC %v", r)
		}
	}()
	var w strings.Builder
	vm := goat.New(goat.WithStdout(&w))
	_, err = vm.VerifEval(src, opt)
	return w.String(), err
}

// ---------------------------------------------------------------- the bundled fmt / math / strings / strconv subset

func c01LibProgram(r *RNG) (GoProg, map[string]bool) {
	feat := map[string]bool{}
	var sb strings.Builder
	fl := func() string {
		return Pick(r, []string{"0.0", "1.0", "-1.5", "2.5", "3.75", "100.0", "0.001", "-0.5", "7.0", "1e10", "-2.0", "0.5", "9.99"})
	}
	in := func() string { return fmt.Sprint(r.Intn(2000) - 500) }
	st := func() string {
		return strconv.Quote(Pick(r, []string{"", "a", "a,b,,c", "  pad  ", "hello world", "héllo", "xx--yy--", "12", "-7", "3.5", "1e3", "0x1f", "abcabc", "\t tab\n"}))
	}
	sb.WriteString("func main() {\n")
	n := 6 + r.Intn(10)
	for i := 0; i < n; i++ {
		switch k := r.Intn(30); {
		case k < 10:
			// (only the exactly rounded functions here: the toolchain oracle runs with GOARCH=386, whose
			// transcendental functions may differ from amd64's in the last bit; those are compared natively)
			f1 := Pick(r, []string{"Abs", "Ceil", "Floor", "Round", "Sqrt"})
			fmt.Fprintf(&sb, "println(\"math.%s\", math.%s(%s))\n", f1, f1, fl())
			feat["math."+f1] = true
		case k < 14:
			f2 := Pick(r, []string{"Max", "Min", "Mod"})
			fmt.Fprintf(&sb, "println(\"math.%s\", math.%s(%s, %s))\n", f2, f2, fl(), fl())
			feat["math."+f2] = true
		case k == 14:
			fmt.Fprintf(&sb, "println(\"math.Signbit\", math.Signbit(%s), math.Pi > 3.14)\n", fl())
			feat["math.Signbit"] = true
		case k == 15:
			fmt.Fprintf(&sb, "println(\"split\", len(strings.Split(%s, %s)), strings.Split(%s, \",\"))\n", st(), Pick(r, []string{"\",\"", "\"--\"", "\"\"", "\" \""}), st())
			feat["strings.Split"] = true
		case k == 16:
			fmt.Fprintf(&sb, "println(\"join\", strings.Join([]string{%s, %s, %s}, %s))\n", st(), st(), st(), st())
			feat["strings.Join"] = true
		case k == 17:
			fmt.Fprintf(&sb, "println(\"repl\", strings.ReplaceAll(%s, %s, %s), strings.Replace(%s, \"a\", \"Z\", %d))\n", st(), Pick(r, []string{"\"a\"", "\",\"", "\"--\"", "\"\""}), st(), st(), r.Intn(4)-1)
			feat["strings.Replace(All)"] = true
		case k == 18:
			fmt.Fprintf(&sb, "println(\"trim\", \"[\"+strings.TrimSpace(%s)+\"]\", \"[\"+strings.TrimRight(%s, \" -y\")+\"]\", \"[\"+strings.TrimSuffix(%s, \"--\")+\"]\")\n", st(), st(), st())
			feat["strings.Trim*"] = true
		case k == 19:
			fmt.Fprintf(&sb, "println(\"has\", strings.Contains(%s, %s), strings.Repeat(%s, %d))\n", st(), Pick(r, []string{"\"a\"", "\"\"", "\"lo w\"", "\"--\""}), st(), r.Intn(4))
			feat["strings.Contains/Repeat"] = true
		case k == 20:
			fmt.Fprintf(&sb, "println(\"itoa\", strconv.Itoa(%s), strconv.FormatInt(int64(%s), %d))\n", in(), in(), Pick(r, []int{2, 8, 10, 16, 36}))
			feat["strconv.Itoa/FormatInt"] = true
		case k == 21:
			fmt.Fprintf(&sb, "println(\"ffloat\", strconv.FormatFloat(%s, '%s', %d, 64))\n", fl(), Pick(r, []string{"f", "e", "g"}), r.Intn(6)-1)
			feat["strconv.FormatFloat"] = true
		case k == 22:
			fmt.Fprintf(&sb, "if true {\n\tv, err := strconv.ParseInt(%s, %d, 32)\n\tprintln(\"pint\", v, err == nil)\n}\n", st(), Pick(r, []int{10, 10, 16, 0}))
			feat["strconv.ParseInt"] = true
		case k == 23:
			fmt.Fprintf(&sb, "if true {\n\tv, err := strconv.ParseFloat(%s, 64)\n\tprintln(\"pfloat\", v, err == nil)\n}\n", st())
			feat["strconv.ParseFloat"] = true
		case k < 28:
			verb := Pick(r, []string{"%d", "%5d", "%-5d|", "%05d", "%x", "%X", "%o", "%b", "%c", "%v", "%+d"})
			fverb := Pick(r, []string{"%f", "%.2f", "%8.3f", "%e", "%g", "%v", "%.0f"})
			sverb := Pick(r, []string{"%s", "%q", "%10s|", "%-10s|", "%v", "%x"})
			fmt.Fprintf(&sb, "println(fmt.Sprintf(\"%s %s %s %%t %%%%\", %s, %s, %s, %v))\n", verb, fverb, sverb, fmt.Sprint(r.Intn(300)+33), fl(), st(), r.Bool())
			feat["fmt.Sprintf"] = true
		default:
			fmt.Fprintf(&sb, "println(fmt.Sprint(%s), fmt.Sprint(%s), fmt.Sprint(%s), fmt.Sprintf(\"%%v|%%v\", []int{%s, %s}, %v))\n", in(), fl(), st(), in(), in(), r.Bool())
			feat["fmt.Sprint"] = true
		}
	}
	sb.WriteString("}\n")
	var imports []string
	for _, im := range []string{"fmt", "math", "strings", "strconv"} {
		if strings.Contains(sb.String(), im+".") {
			imports = append(imports, im)
		}
	}
	return GoProg{Src: sb.String(), Imports: imports}, feat
}

// c01MathNative: the transcendental shims against Go's math on this very platform
func (c *Ctx) c01MathNative(n int) {
	r := c.RNG
	one := map[string]func(float64) float64{"Atan": math.Atan, "Cos": math.Cos, "Log": math.Log, "Sin": math.Sin, "Tan": math.Tan, "Sqrt": math.Sqrt}
	two := map[string]func(float64, float64) float64{"Atan2": math.Atan2, "Hypot": math.Hypot, "Pow": math.Pow, "Mod": math.Mod}
	for i := 0; i < n; i++ {
		a := float64(r.Intn(20000)-10000) / Pick(r, []float64{1, 10, 1000})
		b := float64(r.Intn(2000)-1000) / Pick(r, []float64{1, 10, 100})
		var src, want string
		if r.Bool() {
			f := Pick(r, sortedKeys(one))
			src = fmt.Sprintf("import \"math\"\nprintln(math.%s(%v))\n", f, lit64(a))
			want = fmt.Sprint(one[f](a))
		} else {
			f := Pick(r, sortedKeys(two))
			src = fmt.Sprintf("import \"math\"\nprintln(math.%s(%v, %v))\n", f, lit64(a), lit64(b))
			want = fmt.Sprint(two[f](a, b))
		}
		out, err := runScript(src)
		c.Rep.Oracle["native-math"]++
		if err != nil || strings.TrimSpace(out) != want {
			c.Rep.Violate(Violation{Kind: "oracle", Cut: "native-math", Input: src, Impl: fmt.Sprint(strings.TrimSpace(out), " ", err), Oracle: want})
		}
	}
}

func lit64(f float64) string {
	s := strconv.FormatFloat(f, 'g', -1, 64)
	if !strings.ContainsAny(s, ".e") {
		s += ".0"
	}
	return "(" + s + ")"
}

// runCorpus runs the handwritten programs of corpus/<dir> (shapes that once slipped through; an optional first line
// "// imports: a b" names the bundled packages a program uses) through the Go toolchain differential
func (c *Ctx) runCorpus(dir string) error {
	files, _ := filepath.Glob(filepath.Join(c.Corpus, dir, "*.go"))
	if len(files) == 0 {
		return nil
	}
	sort.Strings(files)
	var progs []GoProg
	var feats []map[string]bool
	for _, f := range files {
		b, err := os.ReadFile(f)
		if err != nil {
			return err
		}
		gp := GoProg{Src: string(b)}
		if first := strings.SplitN(gp.Src, "\n", 2)[0]; strings.HasPrefix(first, "// imports: ") {
			gp.Imports = strings.Fields(strings.TrimPrefix(first, "// imports: "))
		}
		progs = append(progs, gp)
		feats = append(feats, map[string]bool{"corpus-" + strings.TrimSuffix(filepath.Base(f), ".go"): true})
	}
	return c.goDiff("go-toolchain-corpus", progs, feats)
}

func runC01(c *Ctx) error {
	// a corpus of handwritten programs first: the shapes that once showed a defect (named constants, rune and
	// named-type conversions, copy as a value, nil comparisons, operand order of assignments, blank parameters,
	// variadic methods, wide map keys)
	if err := c.runCorpus("C01-programs"); err != nil {
		return err
	}
	if c.Thorough() {
		c.c01MathNative(20000)
	} else {
		c.c01MathNative(500)
	}
	nl := 120
	if c.Thorough() {
		nl = 3000
	}
	for done := 0; done < nl; done += 300 {
		var progs []GoProg
		var feats []map[string]bool
		for i := 0; i < 300 && done+i < nl; i++ {
			p, f := c01LibProgram(c.RNG)
			progs, feats = append(progs, p), append(feats, f)
		}
		if done == 0 {
			c.Rep.Sample(map[string]any{"library_program": progs[0].Src})
		}
		if err := c.goDiff("go-toolchain-library", progs, feats); err != nil {
			return err
		}
	}
	nm := 300
	if c.Thorough() {
		nm = 20000
	}
	if err := c.c01MiniGo(nm); err != nil {
		return err
	}
	c.Rep.Rule = "generated Go programs (type-directed: ints with all operators, bools with && ||, slices, maps, struct references with methods, helper functions, if/else-if, three kinds of for, range over slice/map/string, tagged and tagless switch with expression lists and default anywhere, break/continue/early return; plus the scoping generator) compiled and run by the Go toolchain with GOARCH=386 and by goatlang; stdout and outcome must be equal; distinct = distinct source; non-trivial = more than 8 blocks"
	n := 200
	if c.Thorough() {
		n = 6000
	}
	for done := 0; done < n; done += 200 {
		var progs []GoProg
		var feats []map[string]bool
		for i := 0; i < 200 && done+i < n; i++ {
			if i%5 == 4 {
				progs = append(progs, c08Program(c.RNG, 2+c.RNG.Intn(3)))
				feats = append(feats, map[string]bool{"scoping": true})
			} else {
				p, f := GenProgram(c.RNG, 2+c.RNG.Intn(3))
				progs = append(progs, p)
				feats = append(feats, f)
			}
		}
		if done == 0 {
			c.Rep.Sample(map[string]any{"program": progs[0].Src})
		}
		if err := c.goDiff("go-toolchain", progs, feats); err != nil {
			return err
		}
	}
	var ks []string
	for k := range c.Rep.Dist {
		ks = append(ks, k)
	}
	sort.Strings(ks)
	_ = fmt.Sprint(ks)
	return nil
}
