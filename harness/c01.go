package main

// C01 — programs in the supported subset run exactly as the Go toolchain runs them.
//
// oracle: the Go toolchain itself (GOARCH=386: int is 32 bits), on programs from the
// type-directed generator (progen.go) and the scoping generator (c08.go).

import (
	"fmt"
	"sort"
	"strings"
)

func init() { checks["C01"] = runC01 }

func (c *Ctx) goDiff(cut string, progs []GoProg, feats []map[string]bool) error {
	res, err := GoBatch(progs)
	if err != nil {
		return err
	}
	for i, p := range progs {
		c.Rep.Oracle[cut]++
		if res[i].Status == "compile-error" || res[i].Status == "timeout" {
			c.Rep.Count("go-" + res[i].Status)
			if res[i].Status == "compile-error" && len(c.Rep.Notes) < 5 {
				c.Rep.Notes = append(c.Rep.Notes, "generator produced invalid Go: "+res[i].Out)
			}
			continue
		}
		st, out := RunGoat(p)
		if feats != nil {
			for f := range feats[i] {
				c.Rep.Count("feature-" + f)
			}
		}
		c.Rep.Seen(p.Src, strings.Count(p.Src, "{") > 8)
		if _, ok := c.Findings[p.Src]; ok {
			continue
		}
		if st != res[i].Status || out != res[i].Out {
			c.Rep.Violate(Violation{Kind: "oracle", Cut: cut, Input: p.Src, Impl: st + "\n" + out, Oracle: res[i].Status + "\n" + res[i].Out})
		}
	}
	return nil
}

func runC01(c *Ctx) error {
	c.Rep.Rule = "generated Go programs (type-directed: ints with all operators, bools with && ||, slices, maps, struct references with methods, helper functions, if/else-if, three kinds of for, range over slice/map/string, tagged and tagless switch with expression lists and default anywhere, break/continue/early return; plus the scoping generator) compiled and run by the Go toolchain with GOARCH=386 and by goatlang; stdout and outcome must be equal; distinct = distinct source; non-trivial = more than 8 blocks"
	n := 200
	if c.Thorough() {
		n = 6000
	}
	for done := 0; done < n; done += 200 {
		var progs []GoProg
		var feats []map[string]bool
		for i := 0; i < 200 && done+i < n; i++ {
			if i%5 == 4 {
				progs = append(progs, c08Program(c.RNG, 2+c.RNG.Intn(3)))
				feats = append(feats, map[string]bool{"scoping": true})
			} else {
				p, f := GenProgram(c.RNG, 2+c.RNG.Intn(3))
				progs = append(progs, p)
				feats = append(feats, f)
			}
		}
		if done == 0 {
			c.Rep.Sample(map[string]any{"program": progs[0].Src})
		}
		if err := c.goDiff("go-toolchain", progs, feats); err != nil {
			return err
		}
	}
	var ks []string
	for k := range c.Rep.Dist {
		ks = append(ks, k)
	}
	sort.Strings(ks)
	_ = fmt.Sprint(ks)
	return nil
}
