package main

// C02 — the optimizer is observationally transparent.
//
// cut point opt:   real doOptimize (1 and 2 passes, VerifOptimize) == Lean interpreter of the
//                  regenerated rule table, instruction for instruction (opcode, A, B, C, line) [correspondence]
// cut point rule:  every rule window vs its fused instruction on the REAL VM (VerifRun), on random
//                  locals/stack of every value kind                                        [correspondence of rule_sound's laws]
// oracle:          optimizer off vs on (VerifEval) for every string literal of the repository's
//                  test files and for generated programs: stdout, values+types, error line  [search]

import (
	"bytes"
	"fmt"
	"go/ast"
	"go/parser"
	"go/token"
	"math"
	"os"
	"path/filepath"
	"regexp"
	"sort"
	"strconv"
	"strings"

	goat "github.com/philhassey/goatlang"
)

func init() { checks["C02"] = runC02 }

var c02Ops = []string{"LOCALGET", "INCDEC", "LOCALSET", "ADD", "SUB", "MUL", "DIV", "CONST", "GET", "SET", "PUSH", "GETATTR", "SETATTR",
	"CALL", "GLOBALGET", "JUMP", "PASS", "LOCALINCDEC", "LOCALADD", "FASTGET", "FASTCALL", "JUMPFALSE", "POP", "EQ", "RETURN", "AND", "GLOBALSET", "MOD"}

func encInstr(i goat.VerifInstr) string {
	return fmt.Sprintf("%s:%d:%d:%d:%d", i.Code, i.A, i.B, i.C, i.Line)
}

func (c *Ctx) c02Opt() error {
	r := c.RNG
	n := 4000
	if c.Thorough() {
		n = 150000
	}
	vm := goat.New()
	// operands that name globals must be valid indexes for String(); interned once
	gidx := []int{vm.VerifGlobalIndex("ga"), vm.VerifGlobalIndex("gb"), vm.VerifGlobalIndex("gc")}
	var lines, impl []string
	for i := 0; i < n; i++ {
		k := r.Intn(14)
		ins := make([]goat.VerifInstr, k)
		for j := range ins {
			op := Pick(r, c02Ops)
			if r.Chance(0.5) {
				op = Pick(r, c02Ops[:15]) // bias toward window opcodes
			}
			a := r.Intn(4)
			switch op {
			case "CONST", "GLOBALGET", "GETATTR", "SETATTR", "FASTCALL", "GLOBALSET":
				a = Pick(r, gidx)
			case "JUMP":
				a = Pick(r, []int{0, 0, 1, -2, 3})
			case "PUSH", "INCDEC":
				a = Pick(r, []int{0, 1, -1, 2, 7, 100, -32768, 32767})
			}
			ins[j] = goat.VerifInstr{Code: op, A: a, B: r.Intn(3), C: r.Intn(2), Line: 1 + r.Intn(3), Func: ""}
			if op == "FASTGET" {
				ins[j].B = Pick(r, gidx)
			}
		}
		for _, passes := range []int{1, 2, 3} {
			var in, o []string
			for _, x := range ins {
				in = append(in, encInstr(x))
			}
			out, err, pmsg := safeOptimize(vm, ins, passes)
			if pmsg != "" { // the model's doOpt is total on every list; a rule reading past the end of its window is a violation with this list as the replay
				c.Rep.Violate(Violation{Kind: "crash", Cut: "opt", Input: strings.TrimRight(fmt.Sprintf("opt %d %s", passes, strings.Join(in, " ")), " "), Impl: "doOptimize panicked: " + pmsg, Oracle: "doOptimize returns an instruction list for every input list"})
				break
			}
			if err != nil {
				return err
			}
			for _, x := range out {
				o = append(o, encInstr(x))
			}
			lines = append(lines, strings.TrimRight(fmt.Sprintf("opt %d %s", passes, strings.Join(in, " ")), " "))
			impl = append(impl, strings.Join(o, " "))
			c.Rep.Seen(lines[len(lines)-1], len(out) < len(ins))
			if len(out) < len(ins) {
				c.Rep.Count("opt-fused-some")
			}
			if passes == 3 {
				// a third pass must change nothing (opt_stable on the implementation)
				o2, _, _ := safeOptimize(vm, ins, 2)
				c.Rep.Oracle["third-pass-identity"]++
				if len(o2) != len(out) {
					c.Rep.Violate(Violation{Kind: "oracle", Cut: "third-pass-identity", Input: lines[len(lines)-1], Impl: strings.Join(o, " "), Oracle: "equal to two passes"})
				}
			}
		}
		if i == 7 {
			c.Rep.Sample(map[string]string{"line": lines[len(lines)-2], "impl": impl[len(impl)-2]})
		}
	}
	if c.Model != nil {
		ans, err := c.Model.AskAll(lines)
		if err != nil {
			return err
		}
		for i, a := range ans {
			c.Rep.Corr["opt"]++
			if a != impl[i] {
				c.Rep.Violate(Violation{Kind: "correspondence", Cut: "opt", Input: lines[i], Impl: impl[i], Model: a})
			}
		}
	}
	return nil
}

// ---------------------------------------------------------------- rule windows on the real VM

// goatlang prints a map by iterating the underlying Go map, i.e. in random order; renderings are
// compared with the entries of every map[...] (nested ones too) sorted
func canonMaps(s string) string {
	var out strings.Builder
	for i := 0; i < len(s); {
		if strings.HasPrefix(s[i:], "map[") {
			// find the matching bracket
			depth, j := 0, i+3
			for ; j < len(s); j++ {
				if s[j] == '[' {
					depth++
				} else if s[j] == ']' {
					depth--
					if depth == 0 {
						break
					}
				}
			}
			if j >= len(s) {
				out.WriteString(s[i:])
				break
			}
			inner := canonMaps(s[i+4 : j])
			// split on spaces at nesting depth 0
			var parts []string
			d, start := 0, 0
			for k := 0; k < len(inner); k++ {
				switch inner[k] {
				case '[', '{':
					d++
				case ']', '}':
					d--
				case ' ':
					if d == 0 {
						parts = append(parts, inner[start:k])
						start = k + 1
					}
				}
			}
			parts = append(parts, inner[start:])
			sort.Strings(parts)
			out.WriteString("map[" + strings.Join(parts, " ") + "]")
			i = j + 1
			continue
		}
		out.WriteByte(s[i])
		i++
	}
	return out.String()
}

func showVals(vm *goat.VM, vs []goat.Value) string {
	var s []string
	for _, v := range vs {
		s = append(s, canonMaps(v.String())+":"+v.VerifTypeStr(vm))
	}
	return strings.Join(s, " | ")
}

func (c *Ctx) c02Rules() error {
	r := c.RNG
	n := 60
	if c.Thorough() {
		n = 2500
	}
	mkVals := func(vm *goat.VM) []goat.Value {
		// fresh values per run so that SET on one side cannot leak into the other
		strct := func() goat.Value {
			rets, err := vm.VerifEval("type T struct { ga int; gb int }; func (t *T) gc(a int) int { return t.ga + a }; __t := &T{ga: 5, gb: 6}; __t", true)
			if err != nil || len(rets) != 1 {
				return goat.Nil()
			}
			return rets[0]
		}
		fn := func() goat.Value {
			rets, err := vm.VerifEval("func __f(a int) int { return a * 2 }; __g := __f; __g", true)
			if err != nil || len(rets) != 1 {
				return goat.Nil()
			}
			return rets[0]
		}
		return []goat.Value{goat.Int(7), goat.Uint8(255), goat.Int8(-128), goat.Uint32(4000000000), goat.Float64(2.5), goat.VerifUntyped(3),
			goat.String("str"), goat.Bool(true), goat.Nil(),
			goat.NewSlice(goat.TypeInt32, []goat.Value{goat.Int(1), goat.Int(2), goat.Int(3)}),
			goat.NewMap(goat.TypeString, goat.TypeInt32, []goat.Value{goat.String("ga"), goat.Int(9)}),
			goat.NewMap(goat.TypeInt32, goat.TypeInt32, []goat.Value{goat.Int(1), goat.Int(11)}),
			goat.NewMap(goat.TypeUint32, goat.TypeInt32, []goat.Value{goat.Uint32(3000000000), goat.Int(12), goat.Uint32(2), goat.Int(13)}),
			goat.NewMap(goat.TypeFloat64, goat.TypeInt32, []goat.Value{goat.Float64(3000000000), goat.Int(14), goat.Float64(-129), goat.Int(15)}),
			goat.Float64(math.Copysign(0, -1)),
			strct(), fn()}
	}
	type rule struct {
		lhs []string
		rhs string
	}
	rules := []rule{
		{[]string{"LOCALGET", "INCDEC", "LOCALSET"}, "LOCALINCDEC"}, {[]string{"LOCALGET", "LOCALGET", "ADD"}, "LOCALADD"},
		{[]string{"LOCALGET", "LOCALGET", "MUL"}, "LOCALMUL"}, {[]string{"LOCALGET", "LOCALGET", "DIV"}, "LOCALDIV"},
		{[]string{"LOCALGET", "LOCALGET", "SUB"}, "LOCALSUB"}, {[]string{"LOCALGET", "CONST", "GET"}, "FASTGET"},
		{[]string{"LOCALGET", "CONST", "SET"}, "FASTSET"}, {[]string{"LOCALGET", "PUSH", "GET"}, "FASTGETINT"},
		{[]string{"LOCALGET", "PUSH", "SET"}, "FASTSETINT"}, {[]string{"LOCALGET", "GETATTR", "CALL"}, "FASTCALLATTR"},
		{[]string{"GLOBALGET", "CALL"}, "FASTCALL"}, {[]string{"LOCALGET", "GETATTR"}, "FASTGETATTR"},
		{[]string{"LOCALGET", "SETATTR"}, "FASTSETATTR"}, {[]string{"PUSH", "ADD"}, "INCDEC"}, {[]string{"PUSH", "SUB"}, "INCDEC"},
		{[]string{"JUMP"}, "PASS"},
	}
	for it := 0; it < n; it++ {
		for _, rl := range rules {
			run := func(fused bool, seed uint64) string {
				rr := NewRNG(seed)
				vm := goat.New()
				vm.Set("ga", goat.String("ga"))
				vm.Set("gb", goat.Int(1))
				vm.Set("gc", Pick(rr, []goat.Value{goat.Int(2), goat.String("gb")}))
				vals := mkVals(vm)
				vm.Set("main.__f2", vals[len(vals)-1])
				gidx := []int{vm.VerifGlobalIndex("ga"), vm.VerifGlobalIndex("gb"), vm.VerifGlobalIndex("gc"), vm.VerifGlobalIndex("main.__f2")}
				slots := 3
				locals := []goat.Value{Pick(rr, vals), Pick(rr, vals), Pick(rr, vals)}
				if rl.rhs == "LOCALINCDEC" {
					// the rule's law (x + k has x's type) is about typed numeric slots: compiled code
					// never increments anything else
					locals = []goat.Value{Pick(rr, vals[:5]), Pick(rr, vals[:5]), Pick(rr, vals[:5])}
				}
				var stack []goat.Value
				for k := 0; k < rr.Intn(4); k++ {
					stack = append(stack, Pick(rr, vals))
				}
				ins := make([]goat.VerifInstr, len(rl.lhs))
				for j, op := range rl.lhs {
					a, b := rr.Intn(3), rr.Intn(3)
					switch op {
					case "CONST", "GLOBALGET", "GETATTR", "SETATTR":
						a = Pick(rr, gidx)
					case "PUSH", "INCDEC":
						a = Pick(rr, []int{0, 1, -1, 2, 200, -129, 3000000000})
					case "CALL":
						a, b = rr.Intn(3), rr.Intn(2)
					case "JUMP":
						a = 0
					}
					ins[j] = goat.VerifInstr{Code: op, A: a, B: b, Line: 1}
				}
				if rl.rhs == "LOCALINCDEC" {
					ins[2].A = ins[0].A
				}
				if len(rl.lhs) == 2 && rl.lhs[0] == "PUSH" && rl.lhs[1] == "SUB" && ins[0].A == 0 {
					ins[0].A = 3 // the rule's guard: PUSH 0; SUB is left alone (x - 0 is not x + 0 for -0.0)
				}
				prog := ins
				if fused {
					o, err, pmsg := safeOptimize(vm, ins, 1)
					if pmsg != "" {
						return "PANIC " + pmsg
					}
					if err != nil || len(o) != 1 || o[0].Code != rl.rhs {
						return fmt.Sprintf("NOT-FUSED %v", o)
					}
					prog = o
				}
				ol, os, err := func() (l, s []goat.Value, e error) {
					defer func() {
						if r := recover(); r != nil {
							e = fmt.Errorf("ESCAPED %v", r)
						}
					}()
					return vm.VerifRun(prog, slots, locals, stack)
				}()
				if err != nil {
					if strings.Contains(err.Error(), "ESCAPED") {
						return err.Error()
					}
					return "error"
				}
				return "locals " + showVals(vm, ol) + " ;; stack " + showVals(vm, os)
			}
			seed := c.RNG.U64()
			a, b := run(false, seed), run(true, seed)
			c.Rep.Corr["rule-on-real-vm"]++
			c.Rep.Seen(fmt.Sprintf("rule %s seed %d", rl.rhs, seed), a != "error")
			if a != "error" {
				c.Rep.Count("rule-window-ok-" + rl.rhs)
			}
			if a != b {
				c.Rep.Violate(Violation{Kind: "correspondence", Cut: "rule-on-real-vm", Input: fmt.Sprintf("rule %v -> %s seed=%d", rl.lhs, rl.rhs, seed), Impl: b, Model: a, Note: "model column = unfused window, impl column = fused instruction"})
			}
		}
		_ = r
	}
	return nil
}

// ---------------------------------------------------------------- optimizer off vs on

var errLineRe = regexp.MustCompile(`:(\d+):\d+:`)

func evalMode(src string, optimize bool) string {
	var w bytes.Buffer
	res := func() (s string) {
		defer func() {
			if r := recover(); r != nil {
				s = fmt.Sprintf("ESCAPED %v", r)
			}
		}()
		vm := goat.New(goat.WithStdout(&w))
		goat.VerifSetBudget(3000000)
		defer goat.VerifSetBudget(-1)
		rets, err := vm.VerifEval(src, optimize)
		if err != nil {
			stage := strings.SplitN(err.Error(), ":", 2)[0]
			line := ""
			if m := errLineRe.FindStringSubmatch(err.Error()); m != nil {
				line = m[1]
			}
			if strings.Contains(err.Error(), "budget exhausted") {
				return "budget"
			}
			return "ERR " + stage + " line " + line
		}
		return "OK " + showVals(vm, rets)
	}()
	return canonMaps(w.String()) + "\n=> " + res
}

func harvestTestStrings(repo string) []string {
	var out []string
	seen := map[string]bool{}
	files, _ := filepath.Glob(filepath.Join(repo, "*_test.go"))
	fset := token.NewFileSet()
	for _, f := range files {
		af, err := parser.ParseFile(fset, f, nil, 0)
		if err != nil {
			continue
		}
		ast.Inspect(af, func(n ast.Node) bool {
			bl, ok := n.(*ast.BasicLit)
			if !ok || bl.Kind != token.STRING {
				return true
			}
			s, err := strconv.Unquote(bl.Value)
			if err != nil || len(s) < 1 || seen[s] {
				return true
			}
			seen[s] = true
			out = append(out, s)
			return true
		})
	}
	return out
}

func (c *Ctx) c02OnOff() error {
	repo := os.Getenv("VERIF_REPO")
	if repo == "" {
		repo = "/repo"
	}
	inputs := harvestTestStrings(repo)
	c.Rep.Dist["harvested-test-strings"] = len(inputs)
	corpus := []string{
		"func f() byte { var b byte = 255; b = b + 1; return b }; x := f(); x",
		"x := 2 + 3; y := __type(x); y",
		"func f(a byte) byte { a += 200; return a }; x := f(100); x",
		"func f() int { x := 10; x -= 3; x = x - 4; return x }; y := f(); y",
		"func f(s []int) int { s[1] = 7; return s[1] + s[0] }; y := f([]int{1,2}); y",
		"type T struct { A int }; func (t *T) M(k int) int { return t.A * k }; func f() int { t := &T{A: 3}; t.A = t.A + 1; return t.M(5) }; y := f(); y",
		"func f() int { m := map[string]int{\"a\": 1}; m[\"a\"] = 5; return m[\"a\"] }; y := f(); y",
		"func f() int { x := 0; for i := 0; i < 10; i++ { if i == 5 { continue }; if i == 8 { break }; x += i }; return x }; y := f(); y",
		"func f() int { a := 7; b := 0; return a / b }; y := f(); y",
		"func f() int { m := map[uint]int{3000000000: 7}; return m[3000000000] }; y := f(); y",
		"func f() int { m := map[float64]int{}; m[3000000000] = 7; k := float64(3000000000); return m[k] }; y := f(); y",
		"func f() float64 { z := 0.0; z = -z; w := z - 0; return 1 / w }; y := f(); y",
		"func f() float64 { z := 0.0; z = -z; z -= 0; v := z + 0; return 1/z + 1/v }; y := f(); y",
		// fused arithmetic on two locals at the edges: float division by zero is not an error (Inf, NaN), integer division is
		"func f() float64 { x := 1.5; z := 0.0; return x / z }; y := f(); y", "func f() float64 { x := -1.5; z := 0.0; return x / z }; y := f(); y",
		"func f() bool { x := 0.0; z := 0.0; q := x / z; return q != q }; y := f(); y", "func f() float64 { x := 1.5; z := 0.0; z = -z; return x / z }; y := f(); y",
		"func f(x, z float64) float64 { return x / z }; y := f(2, 0); y", "func f(x, z int) int { return x / z }; y := f(2, 0); y", "func f(x, z uint8) uint8 { return x / z }; y := f(2, 0); y",
		"func f(x, z float64) float64 { return x * z }; y := f(1e308, 10); y", "func f(x, z float64) float64 { return x - z }; y := f(1e308, -1e308); y", "func f(a, b string) string { return b + a }; y := f(\"a\", \"b\"); y",
		"func f(sep string) string { r := \"a\"; r += sep; r += \"b\"; return r }; y := f(\"-\"); y", "func f(x int) int { return x - 1 - 2 }; y := f(10); y", "func f(x int) int { return x + 1 - 2 }; y := f(10); y", "func f(a, b int) int { return a*b - 3 - 4 }; y := f(5, 4); y",
		// empty blocks: jumps over nothing (conditional ones still pop their condition)
		"func f(x int) int { if x > 10 { }; return x * 2 }; y := f(21); y", "x := 3; if x > 1 { }; x", "func f(x int) int { n := 0; for i := 0; i < x; i++ { if i%2 == 0 { } else { }; n += i }; return n }; y := f(5); y",
		"func f(x int) int { switch { case x > 1: }; switch x { case 7: default: }; for x > 100 { }; return x + 1 }; y := f(7); y",
		// the constant of PUSH k; SUB at the ends of the operand's range (the smallest int has no negation)
		"func f(x float64) float64 { return x - -9223372036854775808 }; y := f(1); y", "func f(x float64) float64 { x -= -9223372036854775808; return x }; y := f(1); y",
		"func f(x float64) float64 { return x - 9223372036854775807 }; y := f(1); y", "func f(x float64) float64 { return x - -9223372036854775807 }; y := f(1); y",
		// failures inside fused windows of statements wrapped over several lines: the same line in both modes
		"func f(a, b int) int {\n\tq := a /\n\t\tb\n\treturn q\n}\ny := f(7, 0)\ny",
		"func f(xs []int, i int) int {\n\treturn xs[\n\t\t7]\n}\ny := f([]int{1}, 0)\ny",
		"func f(m map[string]int) int {\n\tm[\n\t\t\"a\"] = 1\n\treturn 1\n}\nvar nm map[string]int\ny := f(nm)\ny",
		"type T struct {\n\tF func(int) int\n}\nfunc f(t *T) int {\n\treturn t.\n\t\tF(1)\n}\ny := f(&T{})\ny",
		"func f(xs []int) int {\n\txs[\n\t\t7]++\n\treturn 1\n}\ny := f([]int{1})\ny",
	}
	// the same faulting statements with a line break after every token that allows one (one break at a time, and all
	// at once): wherever the statement is wrapped, both modes report the same line
	for _, st := range []string{
		"r = p . add ( 1 , 2 )", "r = nf ( 1 , 2 )", "r = xs [ 7 ] + 1", "xs [ 7 ] = 1 + 2", "mp [ \"a\" ] = 1 + 2", "p . A = 3 + 4", "r = p . A + 1",
		"r = a / ( a - a )", "r %= ( a - a )", "xs [ 7 ] += 2 + a", "r = t . F ( 1 , 2 )", "r = add3 ( 1 , xs [ 7 ] , 3 )", "r = p . add ( xs [ 0 ] , 2 )", "r = s [ 5 ] + 1",
	} {
		toks := strings.Fields(st)
		var breaks []int
		for i, t := range toks[:len(toks)-1] {
			switch t {
			case ":=", "=", "+", "-", "/", "%=", "+=", "(", "[", ",", ".":
				breaks = append(breaks, i)
			}
		}
		variants := [][]int{nil, breaks}
		for _, b := range breaks {
			variants = append(variants, []int{b})
		}
		for _, v := range variants {
			var sb strings.Builder
			for i, t := range toks {
				sb.WriteString(t)
				brk := false
				for _, b := range v {
					brk = brk || b == i
				}
				switch {
				case brk:
					sb.WriteString("\n\t\t")
				case i+1 < len(toks) && t != "." && t != "(" && t != "[" && toks[i+1] != "." && toks[i+1] != "(" && toks[i+1] != "[" && toks[i+1] != ")" && toks[i+1] != "]" && toks[i+1] != ",":
					sb.WriteString(" ")
				}
			}
			corpus = append(corpus, "type T struct {\n\tA int\n\tF func(int, int) int\n}\nfunc (t *T) add(a int, b int) int {\n\treturn t.A + a + b\n}\nfunc add3(a int, b int, c int) int {\n\treturn a + b + c\n}\nfunc f(a int) int {\n\tvar p *T\n\tvar nf func(int, int) int\n\tvar mp map[string]int\n\txs := []int{1, 2}\n\ts := \"ab\"\n\tt := &T{}\n\tr := 0\n\tif a < 0 {\n\t\tprintln(p, nf, mp, xs, s, t, r)\n\t}\n\t"+sb.String()+"\n\treturn r\n}\ny := f(3)\ny")
			c.Rep.Count("onoff-wrapped-fault")
		}
	}
	inputs = append(corpus, inputs...)
	nprog := 400
	if c.Thorough() {
		nprog = 6000
	}
	for i := 0; i < nprog; i++ {
		if i%4 == 0 {
			p := c08Program(c.RNG, 2+c.RNG.Intn(3))
			inputs = append(inputs, p.Src+"\nmain()\n")
		} else if i%8 == 1 { // every call form: variadic functions and methods on local receivers, method values, spreads
			p := c09Program(c.RNG)
			inputs = append(inputs, p.Src+"\nmain()\n")
		} else {
			p, _ := GenProgram(c.RNG, 2+c.RNG.Intn(3))
			inputs = append(inputs, p.Src+"\nmain()\n")
		}
	}
	for i, src := range inputs {
		off, on := evalMode(src, false), evalMode(src, true)
		c.Rep.Oracle["optimizer-off-vs-on"]++
		c.Rep.Seen("onoff:"+src, !strings.Contains(off, "=> ERR tokenize") && !strings.Contains(off, "=> ERR error in parse"))
		if i == len(corpus) {
			c.Rep.Sample(map[string]string{"input": src, "off": off, "on": on})
		}
		if f, ok := c.Findings[src]; ok {
			if off != on {
				c.Rep.Known = append(c.Rep.Known, f.ID+" "+f.What)
			}
			continue
		}
		if off != on {
			c.Rep.Violate(Violation{Kind: "oracle", Cut: "optimizer-off-vs-on", Input: src, Impl: "on: " + on, Oracle: "off: " + off})
		}
	}
	return nil
}

func runC02(c *Ctx) error {
	c.Rep.Rule = "opt: random instruction lists (0..13 instructions over the window opcodes, fused opcodes and neutral ones; operands chosen so that guards sometimes hold) x 1,2,3 passes; rule-on-real-vm: each of the 16 rule windows vs its fused form executed by the real VM on random locals/stack drawn from 14 value kinds; optimized-leaves-assembly: random control skeletons (C06's generator), the real optimizer-on function body vs the model's assembly from model-optimized leaves; optimizer-off-vs-on: every distinct string literal of /repo/*_test.go + a regression corpus + generated programs; distinct = distinct line/seed/input; non-trivial = a rule fired / the window ran without error / the input tokenizes and parses"
	if err := c.c02Opt(); err != nil {
		return err
	}
	if err := c.c02Rules(); err != nil {
		return err
	}
	if err := c.c02OnOff(); err != nil {
		return err
	}
	return c.c02Whole()
}

// c02Whole ties the object of opt_transparent to the real compiler: for control skeletons (the generator of C06:
// if / for / switch / range / break / continue / return at random nesting) the function body the REAL compiler emits
// with the optimizer ON equals the model's assembly from the model-optimized UNoptimized leaves
// (Goat.CF.optLeaves; JUMP 0 read as PASS)
func (c *Ctx) c02Whole() error {
	n := 150
	if c.Thorough() {
		n = 6000
	}
	var lines, impl []string
	for i := 0; i < n; i++ {
		g := &cfGen{r: c.RNG}
		s := g.gen(2+c.RNG.Intn(4), false).guard()
		save := c.Rep
		c.Rep = NewReport("scratch", c.Tier, c.Seed) // c06One's own oracle belongs to C06's evidence
		l, im := c.c06One(s, false)
		c.Rep = save
		for k := range l {
			if strings.HasPrefix(l[k], "cf optleaves ") {
				lines = append(lines, l[k])
				impl = append(impl, im[k])
			}
		}
	}
	if c.Model == nil {
		return nil
	}
	ans, err := c.Model.AskAll(lines)
	if err != nil {
		return err
	}
	for i, a := range ans {
		c.Rep.Corr["optimized-leaves-assembly"]++
		if a != impl[i] {
			c.Rep.Violate(Violation{Kind: "correspondence", Cut: "optimized-leaves-assembly", Input: lines[i], Impl: impl[i], Model: a})
		}
	}
	return nil
}

// safeOptimize runs the real peephole pass under recover (the verif hook calls doOptimize directly, outside
// compiler.run's handler)
func safeOptimize(vm *goat.VM, ins []goat.VerifInstr, passes int) (out []goat.VerifInstr, err error, pmsg string) {
	defer func() {
		if r := recover(); r != nil {
			pmsg = fmt.Sprint(r)
		}
	}()
	out, err = vm.VerifOptimize(ins, passes)
	return
}
