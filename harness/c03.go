package main

// C03 — no input can take the embedding host down.
//
// The theorems cover the recovery handlers' own bookkeeping and the recover/stage structure
// regenerated from the source (Props/C03). What runs outside a recover cannot be proved
// panic-free in a model, so this harness is the search: every entry point, wrapped in a
// recover() and a watchdog, on
//   - random byte strings and token soups,
//   - mutations (byte and token level, truncation, line shuffles) of every string literal in the
//     repository's own tests and of generated programs,
//   - the inputs recorded from earlier crashes (corpus/C03-crashers.json),
//   - random in-memory file trees (odd file names, empty files, wrong package clauses, build
//     constraints, missing / cyclic / self imports) given to Load and to Eval's imports,
//   - every subset of {WithTreeDump, WithCodeDump, WithEvalImports},
//   - Call / Func with missing names, non-function values, wrong argument and result counts.
// It also checks the stage prefix of every error Eval and Load return.                      [search]

import (
	"bytes"
	"encoding/json"
	"fmt"
	"io/fs"
	"os"
	"path/filepath"
	"regexp"
	"strings"
	"testing/fstest"
	"time"

	goat "github.com/philhassey/goatlang"
)

func init() { checks["C03"] = runC03 }

var c03Prefix = regexp.MustCompile(`^error in (tokenize|parse|load|loadImports|compile|compile \(imports\)|run|run \(imports\)): `)

type c03Case struct {
	Kind  string            `json:"kind"` // eval | load | call | func
	Src   string            `json:"src,omitempty"`
	Files map[string]string `json:"files,omitempty"`
	Arg   string            `json:"arg,omitempty"`
	Opts  int               `json:"opts"` // bit 0 tree dump, bit 1 code dump, bit 2 eval imports, bit 3 nil eval-imports map
	XRets int               `json:"xrets,omitempty"`
	NArgs int               `json:"nargs,omitempty"`
	NilFS bool              `json:"nil_fs,omitempty"` // the host passes a nil fs.FS
	Free  bool              `json:"no_instruction_budget,omitempty"`
}

func (k c03Case) options(w *bytes.Buffer) []goat.RunOption {
	var o []goat.RunOption
	if k.Opts&1 != 0 {
		o = append(o, goat.WithTreeDump(w))
	}
	if k.Opts&2 != 0 {
		o = append(o, goat.WithCodeDump(w))
	}
	if k.Opts&4 != 0 {
		o = append(o, goat.WithEvalImports(map[string]string{"fmt": "fmt"}))
	}
	if k.Opts&8 != 0 {
		o = append(o, goat.WithEvalImports(nil))
	}
	return o
}

// run executes one case; the result is "" if the entry point returned normally (with or without
// an error that names its stage), else a description of the violation.
// c03Watchdog: how long one entry-point call may take before it counts as not returning. The slowest legitimate case
// (a 12-million-term constant expression) takes about 8 s on an idle 16-core sandbox; `vp check` #16 ran on a copy
// that was 3.5 times slower and under load, where the former 60 s limit raised a false alarm (DESIGN 0a.4).
const c03Watchdog = 300 * time.Second

func (k c03Case) run() (verdict string, errText string) {
	done := make(chan string, 1)
	var et string
	go func() {
		defer func() {
			if r := recover(); r != nil {
				done <- fmt.Sprintf("panic escaped: %v", r)
			}
		}()
		var out, dump bytes.Buffer
		vm := goat.New(goat.WithStdout(&out))
		// a host native that evaluates source on the VM it is called from (an "eval" builtin of the embedding)
		vm.Set("main.hostEval", goat.NewFunc(1, 0, func(vm *goat.VM, args []goat.Value) {
			if _, err := vm.Eval(nil, "inner", args[0].String()); err != nil {
				panic(err)
			}
		}))
		sys := fstest.MapFS{}
		for n, d := range k.Files {
			sys[n] = &fstest.MapFile{Data: []byte(d)}
		}
		if !k.Free {
			goat.VerifSetBudget(200000)
			defer goat.VerifSetBudget(-1)
		}
		var err error
		var hostFS fs.FS = sys
		if k.NilFS {
			hostFS = nil
		}
		switch k.Kind {
		case "eval":
			_, err = vm.Eval(hostFS, "main", k.Src, k.options(&dump)...)
		case "load":
			err = vm.Load(hostFS, k.Arg, k.options(&dump)...)
		case "call":
			_, _ = vm.Eval(sys, "main", k.Src)
			args := make([]goat.Value, k.NArgs)
			for i := range args {
				args[i] = goat.Int(i)
			}
			_, err = vm.Call(k.Arg, k.XRets, args...)
			et = fmt.Sprint(err)
			done <- ""
			return
		case "func":
			_, _ = vm.Eval(sys, "main", k.Src)
			args := make([]goat.Value, k.NArgs)
			for i := range args {
				args[i] = goat.String("a")
			}
			var f goat.Value
			switch k.Arg {
			case "nil":
			case "int":
				f = goat.Int(3)
			case "string":
				f = goat.String("f")
			default:
				f = vm.Get(k.Arg)
			}
			_, err = vm.Func(f, k.XRets, args...)
			et = fmt.Sprint(err)
			done <- ""
			return
		}
		if err != nil {
			et = err.Error()
			if !c03Prefix.MatchString(et) {
				done <- "error without a stage prefix: " + et
				return
			}
		}
		done <- ""
	}()
	select {
	case v := <-done:
		return v, et
	case <-time.After(c03Watchdog):
		return fmt.Sprintf("wedged: no return after %v", c03Watchdog), ""
	}
}

var c03Tokens = []string{"func", "type", "struct", "interface", "map", "var", "const", "import", "package", "return", "if", "else", "for", "range",
	"switch", "case", "default", "break", "continue", "go", "defer", "nil", "true", "false", "(", ")", "{", "}", "[", "]", ",", ";", ":", ".", "...",
	":=", "=", "+", "-", "*", "/", "%", "&", "|", "^", "<<", ">>", "&^", "&&", "||", "!", "<", ">", "<=", ">=", "==", "!=", "++", "--", "+=", "-=", "*=",
	"x", "y", "f", "T", "main", "int", "string", "byte", "float64", "bool", "0", "1", "42", "1.5", "\"s\"", "'c'", "`r`", "len", "append", "make",
	"println", "fmt", "\n", "\n", "//c\n", "/*c*/", "_", "\"fmt\"", "\"nosuch/none\"", "0x", "1e", "'", "\"", "`", "\\", "#", "$", "@", "~", "?",
	`"\400"`, `'\400'`, `"\777"`, `x "\400"`, `"\u00e9"`, `'\''`, `"\x41"`} // (octal escapes above 255 pass the scanner but not strconv)

func c03Mutate(r *RNG, s string) string {
	if s == "" {
		return Pick(r, c03Tokens)
	}
	switch r.Intn(9) {
	case 0: // truncate
		return s[:r.Intn(len(s))]
	case 1: // delete a span
		i := r.Intn(len(s))
		j := i + r.Intn(min(len(s)-i, 6)+1)
		return s[:i] + s[j:]
	case 2: // insert a token
		i := r.Intn(len(s) + 1)
		return s[:i] + " " + Pick(r, c03Tokens) + " " + s[i:]
	case 3: // replace a byte
		i := r.Intn(len(s))
		return s[:i] + string([]byte{byte(r.Intn(256))}) + s[i+1:]
	case 4: // duplicate a span
		i := r.Intn(len(s))
		j := i + r.Intn(min(len(s)-i, 20)+1)
		return s[:j] + s[i:j] + s[j:]
	case 5: // swap two lines
		ls := strings.Split(s, "\n")
		if len(ls) > 1 {
			a, b := r.Intn(len(ls)), r.Intn(len(ls))
			ls[a], ls[b] = ls[b], ls[a]
		}
		return strings.Join(ls, "\n")
	case 6: // replace one token-looking word
		f := strings.Fields(s)
		if len(f) > 0 {
			f[r.Intn(len(f))] = Pick(r, c03Tokens)
		}
		return strings.Join(f, " ")
	case 7: // drop a closing bracket
		for _, ch := range []string{"}", ")", "]"} {
			if i := strings.LastIndex(s, ch); i >= 0 && r.Bool() {
				return s[:i] + s[i+1:]
			}
		}
		return s + "}"
	}
	return s + Pick(r, c03Tokens)
}

func c03Tree(r *RNG) (map[string]string, string) {
	files := map[string]string{}
	pkgs := []string{"a", "b", "c", "a/sub", "main", "x.go", ""}
	np := 1 + r.Intn(4)
	var used []string
	for i := 0; i < np; i++ {
		p := Pick(r, pkgs)
		used = append(used, p)
		nf := r.Intn(3)
		for j := 0; j <= nf; j++ {
			name := Pick(r, []string{"f.go", "g.go", "h_test.go", "notes.txt", "z.go", ".hidden.go", "dir.go/x.go"})
			var sb strings.Builder
			if r.Intn(6) == 0 {
				sb.WriteString(Pick(r, []string{"//go:build ignore\n\n", "//go:build !verif && (a || b)\n\n", "//go:build ((\n\n", "// +build foo\n\n", "//go:build\n"}))
			}
			if r.Intn(8) != 0 {
				fmt.Fprintf(&sb, "package %s\n\n", Pick(r, []string{"a", "b", "main", "sub", "", "1x"}))
			}
			for k := r.Intn(3); k > 0; k-- {
				fmt.Fprintf(&sb, "import %s\n", Pick(r, []string{`"a"`, `"b"`, `"c"`, `"a/sub"`, `"fmt"`, `"nosuch/none"`, `x "a"`, `"`, `5`, `""`, `"../a"`, `( "a"; "b" )`, `( x "\400" )`, `"\400"`, `y "\777"`}))
			}
			sb.WriteString(Pick(r, []string{"func F() int {\n\treturn 1\n}\n", "var V = 3\n", "func init() {\n\tprintln(\"init\")\n}\n", "type T struct {\n\tA int\n}\n", "func (", "}", "", "func F() int { }\nvar W = F()\n", "42\n", "var V = 3\nV + 1\n", "func F() (int, int) {\n\treturn 1, 2\n}\nF()\n\"s\"\n"}))
			full := name
			if p != "" {
				full = p + "/" + name
			}
			if r.Intn(10) == 0 {
				files[full] = ""
			} else {
				files[full] = sb.String()
			}
		}
	}
	arg := Pick(r, append(used, "a", "a/f.go", "nosuch", ".", "", "..", "a//b", "/a", "a/", "main/f.go", "x.go"))
	return files, arg
}

func (c *Ctx) c03Cases(n int) []c03Case {
	r := c.RNG
	repo := os.Getenv("VERIF_REPO")
	if repo == "" {
		repo = "/repo"
	}
	seeds := harvestTestStrings(repo)
	c.Rep.Dist["harvested-test-strings"] = len(seeds)
	var cases []c03Case
	// recorded crashers first
	var crashers []c03Case
	if b, err := os.ReadFile(filepath.Join(c.Corpus, "C03-crashers.json")); err == nil {
		_ = json.Unmarshal(b, &crashers)
	}
	for _, k := range crashers {
		for o := 0; o < 16; o++ {
			k2 := k
			k2.Opts = o
			cases = append(cases, k2)
		}
	}
	c.Rep.Dist["corpus-crashers"] = len(crashers)
	// size limits of the position encoding (16 bits for line and for column): faults, compile errors and
	// parse errors beyond line / column 65535, at top level and inside functions and methods
	for _, pad := range []int{65534, 65535, 65536, 65540, 70000, 131072 + 5, 200000} {
		for _, body := range []string{
			"x := []int{1}\nx[5]\n", "func f() int {\nx := []int{1}\nreturn x[5]\n}\nf()\n",
			"type T struct {\nA int\n}\nfunc (t *T) M() int {\nreturn t.A\n}\nvar p *T\np.M()\n",
			"func f() {\npanic(\"boom\")\n}\nfunc g() {\nf()\n}\ng()\n", "x := (\n", "import 5\n", "x := 1 / (1 - 1)\n",
		} {
			cases = append(cases, c03Case{Kind: "eval", Src: strings.Repeat("\n", pad) + body, Opts: r.Intn(16)})
			cases = append(cases, c03Case{Kind: "eval", Src: strings.Repeat(" ", pad) + strings.ReplaceAll(strings.TrimSuffix(body, "\n"), "\n", "; ") + "\n", Opts: r.Intn(16)})
			c.Rep.Count("eval-position-limits")
		}
	}
	// the dump options render every instruction and every tree node before the run, outside any recover: programs
	// that put extreme or unusual operands into each family of instruction (literal indices on locals and globals,
	// big and negative constants, attribute access, calls with many arguments, maps, ranges, switches, conversions)
	for _, src := range []string{
		"func f() int { a := []int{1}; return a[100000] }; f()", "func f() int { a := []int{1}; return a[-1] }; f()",
		"func f() { m := map[int]int{}; m[123456] = 7; m[-5] = 1; println(m[123456], m[-5], m[70000]) }; f()",
		"func f() { var a []int; a[70000] = 1 }; f()", "x := 3000000000; y := -2147483648; z := []int{1}; z[99999]",
		"type T struct { A int }; func (t *T) M(a, b, c, d, e, f, g int) int { return t.A }; func f() { t := &T{}; t.A = 99999; t.M(1, 2, 3, 4, 5, 6, 7) }; f()",
		"func f() { s := \"x\"; for i, c := range s { switch c { case 100000, -3: println(i) } }; b := []byte(s); r := []rune(s); println(len(b), len(r), float64(100000), int8(-7)) }; f()",
		"func v(xs ...int) int { return len(xs) }; func f() int { ys := []int{1, 2}; return v(ys...) + v() + v(1, 2, 3, 4, 5, 6, 7, 8, 9) }; f()",
		"const K = 1 << 30; var g = map[string][]int{\"k\": {K, -K}}; func f() int { return g[\"k\"][1] + K }; f()",
	} {
		for o := 0; o < 16; o++ {
			cases = append(cases, c03Case{Kind: "eval", Src: src, Opts: o})
			c.Rep.Count("eval-dump-rendering")
		}
	}
	// no file system at all (the repository's own tests evaluate with a nil fs.FS): imports and loads find nothing
	for _, src := range []string{"import \"fmt\"\nfmt.Println(1)", "import \"nosuch/none\"\nprintln(1)", "import (\n\"a\"\nb \"b/c\"\n)\nprintln(1)", "import 5", "println(1)"} {
		cases = append(cases, c03Case{Kind: "eval", Src: src, NilFS: true, Opts: r.Intn(16)})
	}
	for _, arg := range []string{"main", "", ".", "x.go", "a/b", "../x"} {
		cases = append(cases, c03Case{Kind: "load", Arg: arg, NilFS: true, Opts: r.Intn(16)})
	}
	for i := 0; i < n; i++ {
		k := c03Case{Opts: r.Intn(16), NilFS: r.Intn(12) == 0}
		switch kind := r.Intn(100); {
		case kind < 12: // raw bytes
			k.Kind = "eval"
			b := make([]byte, r.Intn(40))
			for j := range b {
				if r.Intn(3) == 0 {
					b[j] = byte(r.Intn(256))
				} else {
					const alpha = " \n\t(){}[];,.:=+-*/<>!&|^%\"'`0123456789abcxyz_"
					b[j] = alpha[r.Intn(len(alpha))]
				}
			}
			k.Src = string(b)
			c.Rep.Count("eval-random-bytes")
		case kind < 30: // token soup
			k.Kind = "eval"
			var w []string
			for j := r.Intn(25); j > 0; j-- {
				w = append(w, Pick(r, c03Tokens))
			}
			k.Src = strings.Join(w, " ")
			c.Rep.Count("eval-token-soup")
		case kind < 62: // mutated test strings
			k.Kind = "eval"
			k.Src = Pick(r, seeds)
			for m := 1 + r.Intn(3); m > 0; m-- {
				k.Src = c03Mutate(r, k.Src)
			}
			c.Rep.Count("eval-mutated-test-string")
		case kind < 72: // mutated generated programs
			k.Kind = "eval"
			p, _ := GenProgram(r, 2)
			k.Src = p.Src + "\nmain()\n"
			for m := 1 + r.Intn(3); m > 0; m-- {
				k.Src = c03Mutate(r, k.Src)
			}
			c.Rep.Count("eval-mutated-program")
		case kind < 86: // file trees through Load
			k.Kind = "load"
			k.Files, k.Arg = c03Tree(r)
			c.Rep.Count("load-file-tree")
		case kind < 92: // file trees through Eval's imports
			k.Kind = "eval"
			k.Files, _ = c03Tree(r)
			k.Src = fmt.Sprintf("import %s\nprintln(1)\n", Pick(r, []string{`"a"`, `"b"`, `"a/sub"`, `"main"`, `"nosuch/none"`, `5`, `"x.go"`}))
			c.Rep.Count("eval-imports-file-tree")
		case kind < 96:
			k.Kind = "call"
			k.Src = Pick(r, []string{"func f(a int) int { return a }", "func f() { f() }", "func f() int { }", "x := 3", "", "func f(a ...int) (int, int) { return 1, 2 }"})
			k.Arg = Pick(r, []string{"main.f", "main.x", "main.nosuch", "", "f", "fmt.Println", "main.main"})
			k.XRets, k.NArgs = r.Intn(5)-1, r.Intn(4)
			c.Rep.Count("call")
		default:
			k.Kind = "func"
			k.Src = Pick(r, []string{"func f(a int) int { return a }", "func f() int { }", "x := 3"})
			k.Arg = Pick(r, []string{"nil", "int", "string", "main.f", "main.x", "fmt.Sprint"})
			k.XRets, k.NArgs = r.Intn(5)-1, r.Intn(4)
			c.Rep.Count("func")
		}
		cases = append(cases, k)
	}
	return cases
}

func runC03(c *Ctx) error {
	c.Rep.Rule = "search: Eval on random byte strings (0..40 bytes), token soups (0..24 tokens incl. broken literals and stray quotes), 1..3 byte/token/line mutations of every string literal of the repository's tests and of generated programs; Load and Eval-imports on random in-memory trees (1..4 packages, odd file names, empty files, wrong or missing package clauses, well- and ill-formed build constraints, missing / cyclic / self / malformed imports) with random load arguments; Call and Func on missing names, non-function values, wrong argument counts and requested result counts -1..3; deep nesting (millions of parentheses, unary operators, nested calls, blocks, literals; long operator, selector and index chains; announced before the run so that a fatal stack overflow still yields a replay); every subset of WithTreeDump / WithCodeDump / WithEvalImports (also a nil map); each run under a recover and a 300 s watchdog with a 200000-instruction budget; every error of Eval and Load must carry a stage prefix; distinct = distinct case; non-trivial = the entry point returned an error"
	n := 4000
	if c.Thorough() {
		n = 400000
	}
	// deep nesting: the parser, the compiler and the tree printer recurse once per level, and a Go stack
	// overflow is a fatal error that no recover catches - each case is announced first, so that a harness
	// killed by it still yields the replay
	deep := []struct {
		name, pre, open, mid, close string
		n                           int
	}{
		{"parentheses", "x := ", "(", "1", ")", 3000000}, {"unary minus", "x := ", "-(", "1", ")", 1000000},
		{"operator chain", "x := 1", " + 1", "", "", 400000}, {"long operator chain", "x := 1", "+1", "", "", 4000000}, {"selector chain", "type T struct { n *T }\nt := &T{}\nx := t", ".n", "", "", 300000},
		{"index chain", "x := []int{1}\ny := x", "[0", "", "]", 500000}, {"calls", "func f(a int) int { return a }\nx := ", "f(", "1", ")", 500000},
		{"if blocks", "func f() {", "if true {", "", "}", 300000}, {"slice literals", "x := ", "[]any{", "1", "}", 300000},
		{"function literals", "x := ", "func() int { return ", "1", " }()", 200000}, {"not", "x := ", "!", "true", "", 6000000},
		{"complement", "x := ", "^", "1", "", 6000000}, {"minus", "x := ", "- ", "1", "", 3000000},
		{"pointer type", "var x ", "*", "int", "", 6000000}, {"slice type", "var x ", "[]", "int", "", 3000000},
		{"map type", "var x ", "map[int]", "int", "", 1000000}, {"struct type", "type T ", "struct { a ", "int", " }", 300000},
		// a constant group copies the expression of a specification while it is parsed (fix e4f7ce6)
		{"operator chain in a constant group", "const (\n\tA = 1", "+1", "\n\tB\n)\nprintln(A)", "", 12000000},
		// (not Go, but any source text counts) an assignment nested in the index operand of a compound assignment: the
		// operand is compiled once, not once for the read and once for the store at every level
		{"compound assignment in index", "a := []int{0, 0}\na", "[a", "[0]", " += 0]", 60}, {"compound assignment in index, deeper", "a := []int{0, 0}\na", "[a", "[0]", " += 0]", 2500},
		{"increment in index", "a := []int{0, 0}\na", "[a", "[0]", "++]", 70}, {"compound assignment in map key", "m := map[int]int{}\nm", "[m", "[0]", " -= 1]", 64},
	}
	for _, d := range deep {
		if !c.Thorough() && d.n > 500000 && len(d.open)+len(d.close) > 3 {
			d.n = 500000 // the long shapes; one- and two-character shapes keep millions of levels (a few MB of source)
		}
		if !c.Thorough() && d.n > 4000000 {
			d.n = 4000000 // (the quick tier runs on machines of any speed; the thorough tier keeps the full size)
		}
		for _, o := range []int{0, 3} {
			// (with the dump options too: the dump is written level by level and bounded like the compiler)
			src := d.pre + strings.Repeat(d.open, d.n) + d.mid + strings.Repeat(d.close, d.n)
			if d.name == "if blocks" {
				src += "}"
			}
			k := c03Case{Kind: "eval", Src: src, Opts: o}
			c.Pending(map[string]any{"kind": "eval", "deep_nesting": d.name, "levels": d.n, "opts": o, "src": d.pre + " + " + fmt.Sprint(d.n) + " x " + d.open + " ... " + d.close})
			verdict, _ := k.run()
			c.PendingDone()
			c.Rep.Oracle["no-escape"]++
			c.Rep.Count("eval-deep-nesting")
			if verdict != "" {
				k.Src = d.pre + fmt.Sprintf(" <%d x %q> %s <%d x %q>", d.n, d.open, d.mid, d.n, d.close)
				c.Rep.Violate(Violation{Kind: "crash", Cut: "no-escape", Input: k, Impl: verdict, Oracle: "returns to the host with values or a staged error"})
			}
		}
	}
	// printing values that contain themselves (through containers of any, of every key kind, and structs): the
	// printer must cut the cycle - unbounded recursion is a Go stack overflow, fatal to the host
	for _, src := range []string{
		"m := map[int]any{}\nm[2] = m\nprintln(m)", "m := map[string]any{}\nm[\"a\"] = m\nprintln(m)",
		"m := map[float64]any{}\nm[1.5] = m\nprintln(m)", "m := map[bool]any{}\nm[true] = m\nprintln(m)",
		"s := []any{1}\ns[0] = s\nprintln(s)", "m := map[int]any{}\ns := []any{m}\nm[0] = s\nprintln(m)\nprintln(s)",
		"import \"fmt\"\nm := map[int]any{}\ns := []any{m}\nm[0] = s\nx := fmt.Sprint(m)\nprintln(len(x) > 0)",
		"type T struct {\n\tN *T\n\tL []any\n\tM map[int]any\n}\nt := &T{}\nt.N = t\nt.L = append(t.L, t)\nt.M = map[int]any{1: t}\nprintln(t)",
		"m := map[int]any{}\nm[1] = m\npanic(m)", "a := map[int]any{}\nb := map[string]any{}\na[1] = b\nb[\"x\"] = a\nprintln(a, b)",
		// structs that reach themselves only through containers of any (one node, two nodes, nested containers)
		"type Node struct {\n\tname string\n\tkids []any\n}\nroot := &Node{name: \"root\"}\nleaf := &Node{name: \"leaf\"}\nroot.kids = append(root.kids, leaf)\nleaf.kids = append(leaf.kids, root)\nprintln(root)\nprintln(leaf.kids)",
		"type Node struct {\n\tkids []any\n}\nn := &Node{}\nn.kids = append(n.kids, 1, n)\nprintln(n)\nprintln(n.kids)",
		"type Node struct {\n\tattr map[string]any\n}\na := &Node{attr: map[string]any{}}\nb := &Node{attr: map[string]any{}}\na.attr[\"peer\"] = b\nb.attr[\"peer\"] = a\nprintln(a)\nprintln(b.attr)",
		"import \"fmt\"\ntype Node struct {\n\tkids [][]any\n\tm map[int][]any\n}\nn := &Node{m: map[int][]any{}}\nn.kids = append(n.kids, []any{n})\nn.m[1] = []any{[]any{n}}\ns := fmt.Sprint(n)\nprintln(len(s) > 0)\nprintln(fmt.Sprintf(\"%v\", n.kids) != \"\")",
		"type A struct {\n\tb any\n}\ntype B struct {\n\tas []any\n}\nx := &A{}\ny := &B{}\nx.b = y\ny.as = append(y.as, x, y)\nprintln(x, y)",
	} {
		k := c03Case{Kind: "eval", Src: src}
		c.Pending(map[string]any{"kind": "eval", "src": src, "note": "printing a self-containing value"})
		verdict, _ := k.run()
		c.PendingDone()
		c.Rep.Oracle["no-escape"]++
		c.Rep.Count("eval-cyclic-print")
		if verdict != "" {
			c.Rep.Violate(Violation{Kind: "crash", Cut: "no-escape", Input: k, Impl: verdict, Oracle: "returns to the host with values or a staged error"})
		}
	}
	// recursion: every script call nests Go calls, and a Go stack overflow is fatal - a terminating recursion millions
	// of calls deep (functions, methods, function values; no instruction budget here) returns, with its value or an error
	for _, src := range []string{
		"func f(n int) int {\n\tif n == 0 {\n\t\treturn 0\n\t}\n\treturn f(n-1) + 1\n}\nx := f(%d)\nprintln(x)",
		"type T struct {\n\ta int\n}\nfunc (t *T) m(n int) int {\n\tif n == 0 {\n\t\treturn 0\n\t}\n\treturn t.m(n-1) + 1\n}\nt := &T{}\ny := t.m(%d)\nprintln(y)",
		"var g func(int) int\nfunc f(n int) int {\n\tif n == 0 {\n\t\treturn 0\n\t}\n\th := g\n\treturn h(n-1) + 1\n}\ng = f\nx := f(%d)\nprintln(x)",
		"func even(n int) bool {\n\tif n == 0 {\n\t\treturn true\n\t}\n\treturn odd(n - 1)\n}\nfunc odd(n int) bool {\n\tif n == 0 {\n\t\treturn false\n\t}\n\treturn even(n - 1)\n}\nprintln(even(%d))",
		// the recursion passes through a native that calls back into the script (a sort comparator)
		"import \"golang.org/x/exp/slices\"\nvar depth = 0\nfunc rec() {\n\tdepth++\n\tif depth >= %d {\n\t\treturn\n\t}\n\ts := []int{2, 1}\n\tslices.SortFunc(s, func(a, b int) bool {\n\t\trec()\n\t\treturn a < b\n\t})\n}\nrec()\nprintln(depth)",
		"import \"golang.org/x/exp/slices\"\nvar depth = 0\nfunc rec() {\n\tdepth++\n\tif depth >= %d {\n\t\treturn\n\t}\n\ts := []int{2, 1}\n\tslices.SortStableFunc(s, func(a, b int) bool {\n\t\trec()\n\t\treturn a < b\n\t})\n}\nrec()\nprintln(depth)",
		// ... and through a host native that calls Eval on the running VM (fix fd8fe1d)
		"var depth = 0\nfunc rec() {\n\tdepth++\n\tif depth >= %d {\n\t\treturn\n\t}\n\thostEval(\"rec()\")\n}\nrec()\nprintln(depth)",
	} {
		depths := []int{1000, 100000, 3000000}
		if strings.Contains(src, "hostEval") {
			depths = []int{100, 1000, 3000000}
		}
		if strings.Contains(src, "slices.") {
			depths = []int{100, 1000} // (a call made by a native counts for more)
			if strings.Contains(src, "slices.SortFunc") {
				depths = append(depths, 3000000)
			}
		}
		for _, depth := range depths {
			k := c03Case{Kind: "eval", Src: fmt.Sprintf(src, depth), Free: true}
			c.Pending(map[string]any{"kind": "eval", "src": k.Src, "note": "a terminating recursion, no instruction budget"})
			verdict, et := k.run()
			c.PendingDone()
			c.Rep.Oracle["no-escape"]++
			c.Rep.Count("eval-deep-recursion")
			if verdict == "" && (depth <= 1000 || depth <= 100000 && !strings.Contains(src, "slices.") && !strings.Contains(src, "hostEval")) && et != "" && et != "<nil>" {
				verdict = "a recursion of depth " + fmt.Sprint(depth) + " failed: " + et[:min(len(et), 200)]
			}
			if verdict != "" {
				c.Rep.Violate(Violation{Kind: "crash", Cut: "no-escape", Input: k, Impl: verdict, Oracle: "returns to the host with values or a staged error"})
			}
		}
	}
	// terminating programs: the loops that run inside one instruction (container iterators, key-list maintenance,
	// printing, string building) are Go loops that no instruction budget interrupts - every map kind is ranged after
	// deletes, with deletes / inserts / re-inserts in the body; slices and strings are ranged while they change
	var term []string
	for _, kt := range []struct{ t, a, b, c, d string }{{"string", `"a"`, `"b"`, `"c"`, `""`}, {"int", "1", "2", "3", "0"}, {"float64", "1.5", "2.5", "-0.5", "0"}, {"bool", "true", "false", "true", "false"}, {"byte", "1", "2", "255", "0"}} {
		lit := fmt.Sprintf("m := map[%s]int{%s: 1, %s: 2}\nm[%s] = 3\nm[%s] = 4\n", kt.t, kt.a, kt.b, kt.c, kt.d)
		loop := "n := 0\nfor k, v := range m {\n_ = k\nn += v\n%s}\nprintln(n, len(m))\n"
		for _, pre := range []string{"", "delete(m, " + kt.a + ")\n", "delete(m, " + kt.b + ")\n", "delete(m, " + kt.d + ")\n", "delete(m, " + kt.a + ")\ndelete(m, " + kt.b + ")\n",
			"delete(m, " + kt.a + ")\ndelete(m, " + kt.b + ")\ndelete(m, " + kt.c + ")\ndelete(m, " + kt.d + ")\n", "delete(m, " + kt.b + ")\nm[" + kt.b + "] = 9\n"} {
			for _, body := range []string{"", "delete(m, " + kt.b + ")\n", "delete(m, k)\n", "delete(m, " + kt.c + ")\nm[" + kt.c + "] = 5\n", "if n < 50 {\nm[" + kt.a + "] = n\n}\n"} {
				term = append(term, lit+pre+fmt.Sprintf(loop, body)+pre+fmt.Sprintf(loop, body)+"println(m)\n")
			}
		}
	}
	term = append(term,
		"s := []int{1, 2, 3}\nfor i, v := range s {\nif len(s) < 40 {\ns = append(s, v+i)\n}\n}\nprintln(len(s))\n",
		"s := []int{1, 2, 3, 4}\nfor i := range s {\ns = s[:len(s)-1]\n_ = i\n}\nprintln(len(s))\n",
		"s := \"a\\xffb\\xc3\"\nn := 0\nfor i, c := range s {\nn += i + int(c)\n}\nprintln(n, []rune(s), []byte(s), string([]rune(s)))\n",
		"var s []int\nvar m map[string]int\nfor range s {\n}\nfor range m {\n}\ndelete(m, \"a\")\nprintln(len(s), len(m), s, m)\n",
		"import \"strings\"\nprintln(strings.Repeat(\"ab\", 0), strings.Split(\"\", \"\"), strings.Split(\"abc\", \"\"), strings.Replace(\"aaa\", \"\", \"x\", -1), strings.ReplaceAll(\"aaa\", \"\", \"y\"), strings.Join(strings.Split(\"a,b\", \",\"), \"\"), strings.TrimRight(\"\", \"\"))\n",
		"s := []int{3, 1, 2}\nt := s[1:1]\nfor i := 0; i < 5; i++ {\nt = append(t, i)\n}\nn := copy(s, s[1:])\nprintln(n, s, t)\n",
	)
	// a loop as the first statement of its frame (a backward jump lands on the first instruction), its condition made of
	// operands that the optimizer fuses
	for _, cond := range []string{"q.n > l.min", "a[0] < b[0]", "x+1 < y-1", "q.n-1 > l.min+1", "x < y-1", "len(a) > x-5 && x < 4", "!(q.n <= l.min)", "q.n > 3"} {
		term = append(term, "type Q struct {\n\tn int\n}\ntype L struct {\n\tmin int\n}\nfunc drain(q *Q, l *L, a []int, b []int, x int, y int) int {\n\tfor "+cond+
			" {\n\t\tq.n--\n\t\ta[0]++\n\t\tx++\n\t}\n\treturn q.n*100 + a[0]*10 + x\n}\nprintln(drain(&Q{n: 7}, &L{min: 3}, []int{0}, []int{4}, 0, 6))\n")
	}
	// long but flat: tens of thousands of statements with prefix operators, nested-type spellings and parentheses, none
	// nested deeper than three - the nesting bound counts depth, not length
	{
		var sb strings.Builder
		sb.WriteString("x := 1\ny := 2\nvar s [][]int\n")
		for i := 0; i < 12000; i++ {
			switch i % 4 {
			case 0:
				sb.WriteString("x = -(-y) + ^x\n")
			case 1:
				sb.WriteString("var t [][]map[string][]int\n_ = t\n")
			case 2:
				sb.WriteString("y = ((x)) - -1\n")
			default:
				sb.WriteString("s = append(s, []int{-1, +2 - 2})\n")
			}
		}
		sb.WriteString("println(len(s))\n")
		term = append(term, strings.ReplaceAll(sb.String(), "+2 - 2", "2 - 2"))
	}
	for _, src := range term {
		k := c03Case{Kind: "eval", Src: src}
		c.Pending(map[string]any{"kind": "eval", "src": src, "note": "a terminating program"})
		verdict, et := k.run()
		c.PendingDone()
		c.Rep.Oracle["no-escape"]++
		c.Rep.Oracle["terminating-program-returns"]++
		c.Rep.Count("eval-terminating-program")
		if verdict == "" && et != "" && et != "<nil>" {
			verdict = "a valid terminating program failed: " + et
		}
		if verdict != "" {
			c.Rep.Violate(Violation{Kind: "crash", Cut: "no-escape", Input: k, Impl: verdict, Oracle: "returns to the host with its values"})
			if strings.HasPrefix(verdict, "wedged") {
				return nil
			}
		}
	}
	// loaded packages with malformed declarations: what runs before the compiler's recover (declareFuncs, the loader)
	// must not trust the shape of the tree (fix 4879215)
	for _, src := range []string{"package main\nx, ; := 1\n", "package main\nvar (\n\t, = 1\n)\n", "package main\nfunc () {}\n", "package main\nconst x, = 1\nvar q.r = 2\nvar a[0] = 1\n",
		"package main\nvar = 1\n", "package main\nconst (\n\t= iota\n)\n", "package main\n:= 1\n", "package main\nvar x, ; int\n", "package main\nfunc\n", "package\nvar x = 1\n", "package main\nvar (\n", "package main\nvar ()\nconst ()\nx := ;\n"} {
		for _, files := range []map[string]string{{"main/main.go": src}, {"main/main.go": "package main\nimport \"dep\"\n", "dep/dep.go": strings.Replace(src, "package main", "package dep", 1)}} {
			k := c03Case{Kind: "load", Files: files, Arg: "main"}
			verdict, _ := k.run()
			c.Rep.Oracle["no-escape"]++
			c.Rep.Count("load-malformed-declaration")
			if verdict != "" {
				c.Rep.Violate(Violation{Kind: "crash", Cut: "no-escape", Input: k, Impl: verdict, Oracle: "returns to the host with a staged error"})
			}
		}
	}
	for i, k := range c.c03Cases(n) {
		verdict, et := k.run()
		key, _ := json.Marshal(k)
		c.Rep.Seen(string(key), et != "" && et != "<nil>")
		c.Rep.Oracle["no-escape"]++
		if et != "" && et != "<nil>" {
			c.Rep.Count("returned-error")
			if m := c03Prefix.FindStringSubmatch(et); m != nil {
				c.Rep.Count("stage-" + m[1])
			}
		}
		if verdict != "" {
			c.Rep.Violate(Violation{Kind: "crash", Cut: "no-escape", Input: k, Impl: verdict, Oracle: "returns to the host with values or a staged error"})
			if strings.HasPrefix(verdict, "wedged") {
				return nil // the stuck goroutine cannot be killed: stop here
			}
		}
		if i == 0 {
			c.Rep.Sample(map[string]any{"case": k, "error": et})
		}
	}
	return nil
}
