package main

// C04 — fixed-width numeric semantics.
//
// cut point num:  real opAdd…/assign/convert (verif hooks) == Lean model Goat.Num     [correspondence]
// oracle:         script functions called through VM.Call vs native Go arithmetic      [search]

import (
	"fmt"
	"math"
	"strings"
	"testing/fstest"

	goat "github.com/philhassey/goatlang"
)

func init() { checks["C04"] = runC04 }

var c04Tags = goat.VerifTypeTags()

// encIn writes a value as protocol input (NaNs by their bits); encVal as canonical output
func encIn(v goat.Value) string {
	if v.VerifTag() == c04Tags["float64"] {
		return fmt.Sprintf("f:%d", math.Float64bits(v.VerifNum()))
	}
	return encVal(v)
}

func encVal(v goat.Value) string {
	t := v.VerifTag()
	n := v.VerifNum()
	if t == c04Tags["float64"] {
		if math.IsNaN(n) {
			return "f:nan"
		}
		return fmt.Sprintf("f:%d", math.Float64bits(n))
	}
	if n != math.Trunc(n) || math.IsInf(n, 0) || math.IsNaN(n) {
		return fmt.Sprintf("%d:frac(%v)", t, n)
	}
	return fmt.Sprintf("%d:%d", t, int64(n))
}

func implOp(op string, a, b goat.Value) (res string) {
	defer func() {
		if r := recover(); r != nil {
			res = "err"
		}
	}()
	v, err := a.VerifOp(op, b)
	if err != nil {
		return "err"
	}
	return encVal(v)
}

type numKind struct {
	name   string
	tag    int
	lo, hi int64
}

func c04Kinds() []numKind {
	return []numKind{
		{"uint8", c04Tags["uint8"], 0, 255},
		{"int8", c04Tags["int8"], -128, 127},
		{"uint32", c04Tags["uint32"], 0, 4294967295},
		{"int32", c04Tags["int32"], -2147483648, 2147483647},
	}
}

func boundary(k numKind, r *RNG, n int) []int64 {
	vs := []int64{k.lo, k.lo + 1, k.hi, k.hi - 1, 0, 1, 2, 3, 7, 8, 31, 32, 33, 100, 127, 128, 255}
	if k.lo < 0 {
		vs = append(vs, -1, -2, -7, -128, -127)
	}
	if k.hi > 255 {
		vs = append(vs, 256, 65535, 65536, 1<<31-1, 1<<30, 12345678)
		if k.lo < 0 {
			vs = append(vs, -65536, -(1 << 30), -12345678)
		} else {
			vs = append(vs, 1<<31, 1<<31+1, 4000000000)
		}
	}
	var out []int64
	for _, v := range vs {
		if v >= k.lo && v <= k.hi {
			out = append(out, v)
		}
	}
	for i := 0; i < n; i++ {
		out = append(out, k.lo+int64(r.U64()%uint64(k.hi-k.lo+1)))
	}
	return out
}

func (c *Ctx) c04Corr() error {
	r := c.RNG
	ops := []string{"add", "sub", "mul", "div", "mod", "and", "or", "xor", "lsh", "rsh", "lt", "lte", "eq"}
	type item struct {
		line string
		impl string
	}
	var batch []item
	flush := func() error {
		if c.Model == nil || len(batch) == 0 {
			batch = batch[:0]
			return nil
		}
		lines := make([]string, len(batch))
		for i, it := range batch {
			lines[i] = it.line
		}
		ans, err := c.Model.AskAll(lines)
		if err != nil {
			return err
		}
		for i, a := range ans {
			c.Rep.Corr["num"]++
			if a != batch[i].impl {
				c.Rep.Violate(Violation{Kind: "correspondence", Cut: "num", Input: batch[i].line, Impl: batch[i].impl, Model: a})
			}
		}
		batch = batch[:0]
		return nil
	}
	add := func(op string, a, b goat.Value) error {
		line := "num " + op + " " + encIn(a) + " " + encIn(b)
		if op == "eq" || op == "lt" || op == "lte" {
			// model covers numeric/bool left operands only
		}
		batch = append(batch, item{line, implOp(op, a, b)})
		c.Rep.Seen(line, true)
		c.Rep.Count("num-" + op)
		if len(batch) >= 50000 {
			return flush()
		}
		return nil
	}
	mk := func(tag int, n int64) goat.Value { return goat.VerifRaw(tag, float64(n)) }
	kinds := c04Kinds()
	unt := c04Tags["untyped"]
	// 8-bit exhaustive
	exhOps := ops
	if !c.Thorough() {
		exhOps = []string{"add", "sub", "mul", "div", "lsh", "rsh", "lt"}
	}
	for _, k := range kinds[:2] {
		for _, op := range exhOps {
			for a := k.lo; a <= k.hi; a++ {
				for b := k.lo; b <= k.hi; b++ {
					if err := add(op, mk(k.tag, a), mk(k.tag, b)); err != nil {
						return err
					}
				}
			}
		}
	}
	// every ordered pair of kinds (incl. untyped) on boundary + random values, every op
	nrand := 12
	if c.Thorough() {
		nrand = 150
	}
	all := append([]numKind{{"untyped", unt, -1000, 1000}}, kinds...)
	for _, ka := range all {
		for _, kb := range all {
			va, vb := boundary(ka, r, nrand), boundary(kb, r, nrand)
			// the arm is selected by the OR of the tags; a payload outside that arm's range makes
			// the Go float->int conversion implementation-defined (only reachable from ill-typed
			// operand pairs), so such pairs are not compared
			arm := numKind{"", 0, -1 << 62, 1 << 62}
			for _, k := range kinds {
				if k.tag == ka.tag|kb.tag {
					arm = k
				}
			}
			for _, op := range ops {
				for _, a := range va {
					for _, b := range vb {
						if op != "lsh" && op != "rsh" && (a < arm.lo || a > arm.hi || b < arm.lo || b > arm.hi) {
							c.Rep.Count("num-skip-out-of-arm-range")
							continue
						}
						if err := add(op, mk(ka.tag, a), mk(kb.tag, b)); err != nil {
							return err
						}
					}
				}
			}
		}
	}
	// floats
	fl := []float64{0, 1, -1, 0.5, -0.5, 1.5, 2.5, 1e21, 1e-5, 3.141592653589793, math.MaxFloat64, math.SmallestNonzeroFloat64, math.Inf(1), math.Inf(-1), math.NaN(), 1 << 53, -(1 << 53), 123456.789}
	for i := 0; i < nrand; i++ {
		fl = append(fl, math.Float64frombits(r.U64()))
		fl = append(fl, float64(int64(r.U64()%2000000))/1000-1000)
	}
	for _, op := range []string{"add", "sub", "mul", "div", "lt", "lte", "eq"} {
		for _, a := range fl {
			for _, b := range fl {
				if err := add(op, goat.Float64(a), goat.Float64(b)); err != nil {
					return err
				}
			}
			for _, k := range []int64{0, 1, -1, 2, 3, 10, 1000} {
				if err := add(op, goat.Float64(a), mk(unt, k)); err != nil {
					return err
				}
				if err := add(op, mk(unt, k), goat.Float64(a)); err != nil {
					return err
				}
			}
		}
	}
	if err := flush(); err != nil {
		return err
	}
	// unary forms: assign / convert / incdec / negate / complement
	var ulines, uimpl []string
	uadd := func(line string, f func() goat.Value) {
		res := func() (s string) {
			defer func() {
				if r := recover(); r != nil {
					s = "err"
				}
			}()
			return encVal(f())
		}()
		ulines = append(ulines, line)
		uimpl = append(uimpl, res)
		c.Rep.Seen(line, true)
	}
	tags := []int{c04Tags["uint8"], c04Tags["int8"], c04Tags["uint32"], c04Tags["int32"], c04Tags["float64"], c04Tags["nil"], c04Tags["bool"], c04Tags["string"], 128, 160, 224}
	for _, ka := range all {
		vals := boundary(ka, r, nrand)
		if ka.tag == unt { // constants beyond every destination type (a constant shifted by a variable gets there): they wrap
			vals = append(vals, 1<<31, 1<<31+1, -(1<<31)-1, 1<<32, 1<<32+5, -(1 << 32), 1<<40+3, -(1<<40)-3, 1<<52, 255<<24, 70000, -70000)
		}
		for _, a := range vals {
			v := mk(ka.tag, a)
			for _, t := range tags {
				t := t
				uadd(fmt.Sprintf("num assign %s %d", encIn(v), t), func() goat.Value { return v.VerifAssign(t) })
			}
			for _, t := range tags[:5] {
				t := t
				uadd(fmt.Sprintf("num convert %s %d", encIn(v), t), func() goat.Value { return v.VerifConvert(t) })
			}
			for _, k := range []int{1, -1, 2, 100, 200, -128, 255, 1000} {
				k := k
				uadd(fmt.Sprintf("num incdec %s %d", encIn(v), k), func() goat.Value {
					x, err := v.VerifOp("add", goat.VerifUntyped(k))
					if err != nil {
						panic(err)
					}
					return x
				})
			}
			uadd("num complement "+encIn(v), func() goat.Value {
				_, st, err := goat.New().VerifRun([]goat.VerifInstr{{Code: "BITCOMPLEMENT"}}, 0, nil, []goat.Value{v})
				if err != nil {
					panic(err)
				}
				return st[0]
			})
			uadd("num negate "+encIn(v), func() goat.Value {
				x, err := v.VerifOp("mul", goat.VerifUntyped(-1))
				if err != nil {
					panic(err)
				}
				return x
			})
		}
	}
	for _, a := range fl {
		v := goat.Float64(a)
		if math.IsNaN(a) || math.IsInf(a, 0) || math.Abs(a) > 1e15 {
			continue // float->int conversion out of range is implementation-defined
		}
		for _, t := range tags[:5] {
			t := t
			if t != c04Tags["float64"] && (a < -2147483648 || a > 2147483647) {
				continue
			}
			uadd(fmt.Sprintf("num convert %s %d", encIn(v), t), func() goat.Value { return v.VerifConvert(t) })
		}
	}
	if c.Model != nil {
		ans, err := c.Model.AskAll(ulines)
		if err != nil {
			return err
		}
		for i, a := range ans {
			c.Rep.Corr["num-unary"]++
			if a != uimpl[i] {
				c.Rep.Violate(Violation{Kind: "correspondence", Cut: "num-unary", Input: ulines[i], Impl: uimpl[i], Model: a})
			}
		}
	}
	return nil
}

// ---------------------------------------------------------------- oracle: scripts vs native Go

type goInt interface {
	~int8 | ~uint8 | ~int32 | ~uint32
}

func goBin[T goInt](op string, a, b T) (res T, boolRes bool, isBool bool, panics bool) {
	defer func() {
		if r := recover(); r != nil {
			panics = true
		}
	}()
	switch op {
	case "+":
		return a + b, false, false, false
	case "-":
		return a - b, false, false, false
	case "*":
		return a * b, false, false, false
	case "/":
		return a / b, false, false, false
	case "%":
		return a % b, false, false, false
	case "&":
		return a & b, false, false, false
	case "|":
		return a | b, false, false, false
	case "^":
		return a ^ b, false, false, false
	case "&^":
		return a &^ b, false, false, false
	case "<<":
		if int64(b) < 0 {
			return 0, false, false, true
		}
		return a << uint64(b), false, false, false
	case ">>":
		if int64(b) < 0 {
			return 0, false, false, true
		}
		return a >> uint64(b), false, false, false
	case "==":
		return 0, a == b, true, false
	case "!=":
		return 0, a != b, true, false
	case "<":
		return 0, a < b, true, false
	case "<=":
		return 0, a <= b, true, false
	case ">":
		return 0, a > b, true, false
	case ">=":
		return 0, a >= b, true, false
	}
	panic("op")
}

func goBinK(kind string, op string, a, b int64) (string, bool) {
	switch kind {
	case "int8":
		r, bl, isb, p := goBin(op, int8(a), int8(b))
		if p {
			return "error", true
		}
		if isb {
			return fmt.Sprint(bl), true
		}
		return fmt.Sprint(r), true
	case "uint8":
		r, bl, isb, p := goBin(op, uint8(a), uint8(b))
		if p {
			return "error", true
		}
		if isb {
			return fmt.Sprint(bl), true
		}
		return fmt.Sprint(r), true
	case "int32":
		r, bl, isb, p := goBin(op, int32(a), int32(b))
		if p {
			return "error", true
		}
		if isb {
			return fmt.Sprint(bl), true
		}
		return fmt.Sprint(r), true
	case "uint32":
		r, bl, isb, p := goBin(op, uint32(a), uint32(b))
		if p {
			return "error", true
		}
		if isb {
			return fmt.Sprint(bl), true
		}
		return fmt.Sprint(r), true
	}
	return "", false
}

func mkArg(kind string, v int64) goat.Value {
	switch kind {
	case "int8":
		return goat.Int8(int8(v))
	case "uint8":
		return goat.Uint8(uint8(v))
	case "int32":
		return goat.Int32(int32(v))
	case "uint32":
		return goat.Uint32(uint32(v))
	}
	panic(kind)
}

type scriptVM struct {
	vm  *goat.VM
	err error
}

func newScript(src string) (s *scriptVM) {
	s = &scriptVM{}
	defer func() {
		if r := recover(); r != nil {
			s.err = fmt.Errorf("PANIC %v", r)
		}
	}()
	s.vm = goat.New()
	_, s.err = s.vm.Eval(fstest.MapFS{}, "s", src)
	return s
}

// call returns "<value>:<type>" or "error"
func (s *scriptVM) call(fn string, args ...goat.Value) (res string) {
	defer func() {
		if r := recover(); r != nil {
			res = fmt.Sprintf("PANIC %v", r)
		}
	}()
	if s.err != nil {
		return "loaderr " + s.err.Error()
	}
	rets, err := s.vm.Call("main."+fn, 1, args...)
	if err != nil {
		return "error"
	}
	return rets[0].String() + ":" + rets[0].VerifTypeStr(s.vm)
}

func typeName(kind string) string { return kind } // __type names coincide with Go's for these four

func (c *Ctx) c04Oracle() error {
	r := c.RNG
	arith := []string{"+", "-", "*", "/", "%", "&", "|", "^", "&^", "<<", ">>"}
	cmps := []string{"==", "!=", "<", "<=", ">", ">="}
	kinds := c04Kinds()
	check := func(cut, input, got, want string) {
		c.Rep.Oracle[cut]++
		c.Rep.Seen(cut+"|"+input, true)
		if f, ok := c.Findings[input]; ok {
			if got != want {
				c.Rep.Known = append(c.Rep.Known, f.ID+" "+f.What)
			}
			return
		}
		if got != want {
			c.Rep.Violate(Violation{Kind: "oracle", Cut: cut, Input: input, Impl: got, Oracle: want})
		}
	}
	for _, k := range kinds {
		T := k.name
		// var op var, x op= y, comparisons: one script per type
		var sb strings.Builder
		for i, op := range arith {
			fmt.Fprintf(&sb, "func b%d(a %s, b %s) %s { return a %s b }\n", i, T, T, T, op)
			if op != "&^" {
				fmt.Fprintf(&sb, "func c%d(a %s, b %s) %s { a %s= b; return a }\n", i, T, T, T, op)
			}
			// through a local, an element and a field store
			fmt.Fprintf(&sb, "func l%d(a %s, b %s) %s { x := a %s b; return x }\n", i, T, T, T, op)
		}
		for i, op := range cmps {
			fmt.Fprintf(&sb, "func m%d(a %s, b %s) bool { return a %s b }\n", i, T, T, op)
		}
		fmt.Fprintf(&sb, "func inc(a %s) %s { a++; return a }\nfunc dec(a %s) %s { a--; return a }\n", T, T, T, T)
		fmt.Fprintf(&sb, "func neg(a %s) %s { return -a }\nfunc com(a %s) %s { return ^a }\n", T, T, T, T)
		fmt.Fprintf(&sb, "type S struct { F %s }\nfunc fld(a %s) %s { s := &S{}; s.F = a; s.F++; s.F += 1; return s.F }\n", T, T, T)
		fmt.Fprintf(&sb, "func elt(a %s) %s { s := []%s{a}; s[0]++; s[0] += 1; return s[0] }\n", T, T, T)
		fmt.Fprintf(&sb, "func mp(a %s) %s { m := map[string]%s{\"k\": a}; m[\"k\"]++; m[\"k\"] += 1; return m[\"k\"] }\n", T, T, T)
		for _, k2 := range kinds {
			fmt.Fprintf(&sb, "func to_%s(a %s) %s { return %s(a) }\n", k2.name, T, k2.name, k2.name)
		}
		fmt.Fprintf(&sb, "func to_f(a %s) float64 { return float64(a) }\n", T)
		// a constant shifted by a variable takes the type the context gives it: the result wraps in that type
		fmt.Fprintf(&sb, "func shd(n int) %s { var x %s = 1 << n; return x }\nfunc shr(n int) %s { return 5 << n }\nfunc sha(n int) %s { var x %s; x = 3 << n; return x }\n", T, T, T, T, T)
		s := newScript(sb.String())
		for n := int64(0); n < 63; n++ {
			for _, f := range []struct {
				fn string
				k  int64
			}{{"shd", 1}, {"shr", 5}, {"sha", 3}} {
				want, _ := goBinK(T, "<<", f.k, n)
				check("const-shift-var", fmt.Sprintf("%s: %s: %d << n, n = %d", T, f.fn, f.k, n), s.call(f.fn, mkArg("int32", n)), want+":"+T)
			}
		}
		n := 6
		if c.Thorough() {
			n = 60
		}
		va := boundary(k, r, n)
		exh := k.hi-k.lo < 1000 && c.Thorough()
		if exh {
			va = nil
			for v := k.lo; v <= k.hi; v++ {
				va = append(va, v)
			}
		}
		for _, a := range va {
			for _, b := range va {
				for i, op := range arith {
					bb := b
					if (op == "<<" || op == ">>") && (bb < 0 || bb > 40) {
						bb = ((b % 40) + 40) % 40
						if bb > k.hi {
							bb = bb % 8
						}
					}
					want, _ := goBinK(T, op, a, bb)
					if want != "error" {
						want += ":" + typeName(T)
					}
					in := fmt.Sprintf("%s: %d %s %d", T, a, op, bb)
					check("var-op-var", in, s.call(fmt.Sprintf("b%d", i), mkArg(T, a), mkArg(T, bb)), want)
					check("local-store", in+" (x := a op b)", s.call(fmt.Sprintf("l%d", i), mkArg(T, a), mkArg(T, bb)), want)
					if op != "&^" {
						check("op-assign", in+" (a op= b)", s.call(fmt.Sprintf("c%d", i), mkArg(T, a), mkArg(T, bb)), want)
					}
				}
				for i, op := range cmps {
					want, _ := goBinK(T, op, a, b)
					check("compare", fmt.Sprintf("%s: %d %s %d", T, a, op, b), s.call(fmt.Sprintf("m%d", i), mkArg(T, a), mkArg(T, b)), want+":bool")
				}
			}
			w1, _ := goBinK(T, "+", a, 1)
			check("incdec", fmt.Sprintf("%s: %d++", T, a), s.call("inc", mkArg(T, a)), w1+":"+T)
			w2, _ := goBinK(T, "-", a, 1)
			check("incdec", fmt.Sprintf("%s: %d--", T, a), s.call("dec", mkArg(T, a)), w2+":"+T)
			w3, _ := goBinK(T, "-", 0, a)
			check("unary", fmt.Sprintf("%s: -(%d)", T, a), s.call("neg", mkArg(T, a)), w3+":"+T)
			w4, _ := goBinK(T, "^", a, -1)
			check("unary", fmt.Sprintf("%s: ^(%d)", T, a), s.call("com", mkArg(T, a)), w4+":"+T)
			w5, _ := goBinK(T, "+", a, 2)
			check("field-store", fmt.Sprintf("%s: field %d ++ += 1", T, a), s.call("fld", mkArg(T, a)), w5+":"+T)
			check("elem-store", fmt.Sprintf("%s: elem %d ++ += 1", T, a), s.call("elt", mkArg(T, a)), w5+":"+T)
			check("elem-store", fmt.Sprintf("%s: mapelem %d ++ += 1", T, a), s.call("mp", mkArg(T, a)), w5+":"+T)
			for _, k2 := range kinds {
				var want string
				switch k2.name {
				case "int8":
					want = fmt.Sprint(int8(a))
				case "uint8":
					want = fmt.Sprint(uint8(a))
				case "int32":
					want = fmt.Sprint(int32(a))
				case "uint32":
					want = fmt.Sprint(uint32(a))
				}
				check("convert", fmt.Sprintf("%s(%s %d)", k2.name, T, a), s.call("to_"+k2.name, mkArg(T, a)), want+":"+k2.name)
			}
			check("convert", fmt.Sprintf("float64(%s %d)", T, a), s.call("to_f", mkArg(T, a)), fmt.Sprint(float64(a))+":float64")
		}
		// constants: var op K, K op var, var op= K, typed declaration
		nk := 5
		if c.Thorough() {
			nk = 25
		}
		ks := boundary(k, r, nk)
		for _, K := range ks {
			var sk strings.Builder
			for i, op := range arith {
				kk := K
				if op == "<<" || op == ">>" {
					kk = ((K % 34) + 34) % 34
				}
				if (op == "/" || op == "%") && kk == 0 {
					kk = 3
				}
				fmt.Fprintf(&sk, "func vk%d(a %s) %s { return a %s %d }\n", i, T, T, op, kk)
				if op != "<<" && op != ">>" {
					fmt.Fprintf(&sk, "func kv%d(a %s) %s { return %d %s a }\n", i, T, T, kk, op)
				}
				if op != "&^" {
					fmt.Fprintf(&sk, "func ak%d(a %s) %s { a %s= %d; return a }\n", i, T, T, op, kk)
				}
			}
			fmt.Fprintf(&sk, "func decl() %s { var x %s = %d; return x }\nvar g %s = %d\nfunc gdecl() %s { return g }\nconst cc %s = %d\nfunc cdecl() %s { return cc }\n", T, T, K, T, K, T, T, K, T)
			fmt.Fprintf(&sk, "func par(a %s) %s { return a }\nfunc callk() %s { return par(%d) }\n", T, T, T, K)
			fmt.Fprintf(&sk, "type S struct { F %s }\nfunc fk() %s { s := &S{F: %d}; return s.F }\nfunc ek() %s { s := []%s{%d}; return s[0] }\n", T, T, K, T, T, K)
			// a constant EXPRESSION as initialiser of a typed declaration (several instructions, one value)
			fmt.Fprintf(&sk, "func dce() %s { var x %s = %d + 0; return x }\nvar gce %s = 1 * %d\nfunc gdce() %s { return gce }\nfunc dce2() %s { var a, b %s = %d - 0, 3; _ = b; return a }\nfunc dce3() %s { var a, b %s = 3, 0 + %d; _ = a; return b }\n", T, T, K, T, K, T, T, T, K, T, T, K)
			// constants passed as the extra arguments of a variadic function or method take the element type
			fmt.Fprintf(&sk, "func va(xs ...%s) %s { s := xs[0]; s += xs[1]; return s }\nfunc vcall() %s { return va(%d, 0) }\ntype VT struct { A int }\nfunc (t *VT) M(k int, xs ...%s) %s { s := xs[len(xs)-1]; s += 0; return s }\nfunc vmcall() %s { t := &VT{}; return t.M(1, 0, %d) }\n", T, T, T, K, T, T, T, K)
			// named constants declared without a type are untyped constants too
			fmt.Fprintf(&sk, "const NK = %d\nconst NK2 = NK + 0\nfunc nkdecl() %s { var x %s = NK; return x }\nfunc nkop(a %s) %s { return a + NK2 }\nfunc nkpar() %s { return par(NK) }\nfunc nkret() %s { return NK }\n", K, T, T, T, T, T, T)
			fmt.Fprintf(&sk, "func nkfld() %s { s := &S{F: NK}; return s.F }\nfunc nkel() %s { s := []%s{NK2}; return s[0] }\nfunc nkasg() %s { var x %s; x = NK; return x }\nfunc nklocal() %s { const lk = NK; var x %s = lk; return x }\n", T, T, T, T, T, T, T)
			// results: a returned constant takes the declared RESULT type, whatever the parameters' types are
			others := []string{"float64", "uint8", "int8", "uint32", "int", "string", "bool"}
			for pi, P := range others {
				fmt.Fprintf(&sk, "func res%d(p %s) %s { return %d }\nfunc rcall%d() %s { var z %s; r := res%d(z); return r }\n", pi, P, T, K, pi, T, P, pi)
				fmt.Fprintf(&sk, "func resb%d(p %s, q %s) (%s, %s) { return %d, %d }\nfunc rbcall%d() %s { var z %s; a, b := resb%d(z, z); _ = a; return b }\n", pi, P, P, T, T, K, K, pi, T, P, pi)
			}
			// constants spelled like floats (2.0, 1e3 - integral, or Go rejects them) are untyped constants too: they take
			// the declared type in every store position
			fmt.Fprintf(&sk, "func fkd() %s { var x %s = %d.0; return x }\nfunc fka() %s { var x %s; x = %d.0; return x }\nfunc fkp() %s { return par(%d.0) }\nfunc fkr() %s { return %d.0 }\nfunc fkf() %s { s := &S{F: %d.0}; return s.F }\nfunc fke() %s { s := []%s{%d.0}; return s[0] }\nfunc fkm() %s { m := map[string]%s{\"k\": %d.0}; return m[\"k\"] }\nconst FKC = %d.0\nfunc fkn() %s { var x %s = FKC; return x }\nfunc fkms() %s { m := map[string]%s{}; m[\"k\"] = %d.0; return m[\"k\"] }\nfunc fkmi() %s { m := map[int]%s{}; m[3] = %d.0; return m[3] }\nfunc fkes() %s { s := make([]%s, 2); s[1] = %d.0; return s[1] }\nfunc fkap() %s { var s []%s; s = append(s, %d.0); return s[0] }\n",
				T, T, K, T, T, K, T, K, T, K, T, K, T, T, K, T, T, K, K, T, T, T, T, K, T, T, K, T, T, K, T, T, K)
			// implicit repetition in a typed constant group repeats the type too, also for a compound expression
			fmt.Fprintf(&sk, "func cgrp1() %s { const ( CA %s = %d + iota - iota; CB; CC ); v := CC; v += 0; return v }\nfunc cgrp2() %s { const ( DA, DB %s = iota * 0 + %d, %d; DC, DD ); v := DD; return v }\nconst ( GA %s = (%d); GB; GC )\nfunc cgrp3() %s { v := GC; return v }\nfunc cgrp4() %s { const ( EA %s = %d; EB ); return EB }\n",
				T, T, K, T, T, K, K, T, K, T, T, T, K)
			// the zero value read at an absent key has the ELEMENT type, whatever the key type is
			for pi, P := range others {
				fmt.Fprintf(&sk, "func mab%d() %s { m := map[%s]%s{}; var z %s; x := m[z]; x += %d; return x }\nfunc mac%d() %s { m := map[%s]%s{}; var z %s; m[z] += %d; return m[z] }\nfunc mad%d() %s { m := make(map[%s]%s); var z %s; v, ok := m[z]; _ = ok; v += %d; return v }\n",
					pi, T, P, T, P, K, pi, T, P, T, P, K, pi, T, P, T, P, K)
			}
			s := newScript(sk.String())
			for pi, P := range others {
				for _, fn := range []string{"mab", "mac", "mad"} {
					check("absent-key-zero", fmt.Sprintf("%s: map[%s]%s{} read at an absent key, then += %d", fn, P, T, K), s.call(fmt.Sprintf("%s%d", fn, pi)), fmt.Sprintf("%d:%s", K, T))
				}
			}
			for _, fn := range []string{"fkd", "fkp", "fkr", "fke", "fkm", "fkn", "fkms", "fkmi", "fkes", "fkap"} { // (plain assignment and field stores: open finding float-constant-operand)
				check("float-spelled-const-store", fmt.Sprintf("%s: the constant %d.0 stored as %s", fn, K, T), s.call(fn), fmt.Sprintf("%d:%s", K, T))
			}
			for _, fn := range []string{"cgrp1", "cgrp2", "cgrp3", "cgrp4"} {
				check("typed-const-group", fmt.Sprintf("%s: a repeated spec of a const group typed %s with value %d", fn, T, K), s.call(fn), fmt.Sprintf("%d:%s", K, T))
			}
			for _, fn := range []string{"vcall", "vmcall"} {
				check("variadic-store", fmt.Sprintf("%s: %d among the extra arguments of a ...%s parameter", fn, K, T), s.call(fn), fmt.Sprintf("%d:%s", K, T))
			}
			for _, fn := range []string{"dce", "gdce", "dce2", "dce3"} {
				check("typed-decl", fmt.Sprintf("%s: var x %s = <constant expression of value %d>", fn, T, K), s.call(fn), fmt.Sprintf("%d:%s", K, T))
			}
			for _, fn := range []string{"nkdecl", "nkpar", "nkret", "nkfld", "nkel", "nkasg", "nklocal"} {
				check("named-const", fmt.Sprintf("const NK = %d; %s as %s", K, fn, T), s.call(fn), fmt.Sprintf("%d:%s", K, T))
			}
			for _, a := range boundary(k, r, 2) {
				if w, _ := goBinK(T, "+", a, K); w != "error" {
					check("named-const", fmt.Sprintf("%s: %d + NK2 (= %d)", T, a, K), s.call("nkop", mkArg(T, a)), w+":"+T)
				}
			}
			for pi, P := range others {
				check("result-store", fmt.Sprintf("func(p %s) %s { return %d }", P, T, K), s.call(fmt.Sprintf("rcall%d", pi)), fmt.Sprintf("%d:%s", K, T))
				check("result-store", fmt.Sprintf("func(p, q %s) (%s, %s) { return %d, %d }: second", P, T, T, K, K), s.call(fmt.Sprintf("rbcall%d", pi)), fmt.Sprintf("%d:%s", K, T))
			}
			for _, a := range boundary(k, r, 2) {
				for i, op := range arith {
					kk := K
					if op == "<<" || op == ">>" {
						kk = ((K % 34) + 34) % 34
					}
					if (op == "/" || op == "%") && kk == 0 {
						kk = 3
					}
					want, _ := goBinK(T, op, a, kk)
					if want != "error" {
						want += ":" + T
					}
					check("var-op-const", fmt.Sprintf("%s: %d %s K=%d", T, a, op, kk), s.call(fmt.Sprintf("vk%d", i), mkArg(T, a)), want)
					if op != "&^" {
						check("op-assign-const", fmt.Sprintf("%s: %d %s= K=%d", T, a, op, kk), s.call(fmt.Sprintf("ak%d", i), mkArg(T, a)), want)
					}
					if op != "<<" && op != ">>" {
						w2, _ := goBinK(T, op, kk, a)
						if (op == "/" || op == "%") && a == 0 {
							w2 = "error"
						}
						if w2 != "error" {
							w2 += ":" + T
						}
						check("const-op-var", fmt.Sprintf("%s: K=%d %s %d", T, kk, op, a), s.call(fmt.Sprintf("kv%d", i), mkArg(T, a)), w2)
					}
				}
			}
			want := fmt.Sprintf("%d:%s", K, T)
			check("typed-decl", fmt.Sprintf("var x %s = %d", T, K), s.call("decl"), want)
			check("typed-decl", fmt.Sprintf("var g %s = %d (global)", T, K), s.call("gdecl"), want)
			check("typed-decl", fmt.Sprintf("const cc %s = %d", T, K), s.call("cdecl"), want)
			check("param-store", fmt.Sprintf("par(%d) as %s", K, T), s.call("callk"), want)
			check("field-store", fmt.Sprintf("S{F: %d} as %s", K, T), s.call("fk"), want)
			check("elem-store", fmt.Sprintf("[]%s{%d}", T, K), s.call("ek"), want)
		}
	}
	// float64: + - * / comparisons, bit-exact
	fs := newScript(`func add(a float64, b float64) float64 { return a + b }
func sub(a float64, b float64) float64 { return a - b }
func mul(a float64, b float64) float64 { return a * b }
func div(a float64, b float64) float64 { return a / b }
func lt(a float64, b float64) bool { return a < b }
func le(a float64, b float64) bool { return a <= b }
func eq(a float64, b float64) bool { return a == b }
func ne(a float64, b float64) bool { return a != b }
func gt(a float64, b float64) bool { return a > b }
func ge(a float64, b float64) bool { return a >= b }
func mix(a float64, b float64) bool { return !(a < b) == (a >= b) }
func neg(a float64) float64 { return -a }
func addk(a float64) float64 { return a + 1 }
func ti(a float64) int { return int(a) }
const FK = 3
const FK2 = FK * 2 + 1
func fkdecl() float64 { var f float64 = FK; return f / 2 }
func fkasg() float64 { var f float64; f = FK2; return f / 2 }
func fkret() float64 { return FK }
func fkhalf() float64 { return fkret() / 2 }
func fkop(a float64) float64 { return a / FK }
func fkel() float64 { s := []float64{FK, FK2}; return s[1] / 2 }
`)
	fl := []float64{0, 1, -1, 0.5, 1.5, 2.5, -2.5, 1e21, 1e-5, 3.141592653589793, math.MaxFloat64, math.SmallestNonzeroFloat64, math.Inf(1), math.Inf(-1), math.NaN(), 1 << 53, 123456.789, math.Copysign(0, -1)}
	nf := 10
	if c.Thorough() {
		nf = 300
	}
	for i := 0; i < nf; i++ {
		fl = append(fl, math.Float64frombits(r.U64()), float64(int64(r.U64()%2000000))/1000-1000)
	}
	fcall := func(fn string, args ...goat.Value) string {
		defer func() { recover() }()
		rets, err := fs.vm.Call("main."+fn, 1, args...)
		if err != nil {
			return "error"
		}
		if rets[0].Type() == goat.TypeFloat64 {
			f := rets[0].Float64()
			if math.IsNaN(f) {
				return "nan"
			}
			return fmt.Sprintf("bits:%016x", math.Float64bits(f))
		}
		return rets[0].String() + ":" + rets[0].VerifTypeStr(fs.vm)
	}
	fb := func(f float64) string {
		if math.IsNaN(f) {
			return "nan"
		}
		return fmt.Sprintf("bits:%016x", math.Float64bits(f))
	}
	for fn, w := range map[string]float64{"fkdecl": 1.5, "fkasg": 3.5, "fkhalf": 1.5, "fkel": 3.5} {
		c.Rep.Oracle["named-const"]++
		if got := fcall(fn); got != fb(w) {
			c.Rep.Violate(Violation{Kind: "oracle", Cut: "named-const", Input: "const FK = 3; const FK2 = FK*2 + 1; " + fn + "()", Impl: got, Oracle: fb(w)})
		}
	}
	c.Rep.Oracle["named-const"]++
	if got := fcall("fkop", goat.Float64(1)); got != fb(1.0/3) {
		c.Rep.Violate(Violation{Kind: "oracle", Cut: "named-const", Input: "const FK = 3; fkop(1) = 1 / FK", Impl: got, Oracle: fb(1.0 / 3)})
	}
	for _, a := range fl {
		for _, b := range fl {
			in := fmt.Sprintf("float64 %x,%x", math.Float64bits(a), math.Float64bits(b))
			check("float", in+" +", fcall("add", goat.Float64(a), goat.Float64(b)), fb(a+b))
			check("float", in+" -", fcall("sub", goat.Float64(a), goat.Float64(b)), fb(a-b))
			check("float", in+" *", fcall("mul", goat.Float64(a), goat.Float64(b)), fb(a*b))
			check("float", in+" /", fcall("div", goat.Float64(a), goat.Float64(b)), fb(a/b))
			check("float", in+" <", fcall("lt", goat.Float64(a), goat.Float64(b)), fmt.Sprint(a < b)+":bool")
			check("float", in+" <=", fcall("le", goat.Float64(a), goat.Float64(b)), fmt.Sprint(a <= b)+":bool")
			check("float", in+" ==", fcall("eq", goat.Float64(a), goat.Float64(b)), fmt.Sprint(a == b)+":bool")
			check("float", in+" !=", fcall("ne", goat.Float64(a), goat.Float64(b)), fmt.Sprint(a != b)+":bool")
			check("float", in+" >", fcall("gt", goat.Float64(a), goat.Float64(b)), fmt.Sprint(a > b)+":bool")
			check("float", in+" >=", fcall("ge", goat.Float64(a), goat.Float64(b)), fmt.Sprint(a >= b)+":bool")
			check("float", in+" !(a<b)==(a>=b)", fcall("mix", goat.Float64(a), goat.Float64(b)), fmt.Sprint(!(a < b) == (a >= b))+":bool")
		}
		check("float", fmt.Sprintf("float64 -(%x)", math.Float64bits(a)), fcall("neg", goat.Float64(a)), fb(-a))
		check("float", fmt.Sprintf("float64 %x + 1", math.Float64bits(a)), fcall("addk", goat.Float64(a)), fb(a+1))
		if a > -2147483648 && a < 2147483647 {
			check("float", fmt.Sprintf("int(float64 %x)", math.Float64bits(a)), fcall("ti", goat.Float64(a)), fmt.Sprint(int32(a))+":int32")
		}
	}
	return nil
}

// c04OpenFindings replays the recorded, unrepaired defects of the property (known_findings.json): each prints a
// KNOWN-FINDING line while its witness still fails, and is an ordinary violation if it is not listed
func (c *Ctx) c04OpenFindings() {
	for _, w := range []struct {
		id, src, fn string
		args        []goat.Value
		want        string
	}{
		{"float-constant-operand", "func f(i int) float64 { x := i / 2.0; return float64(x) }", "f", []goat.Value{mkArg("int32", 7)}, "3:float64"},
		{"constant-shift-in-expression", "func f(x int32, s int32) int32 { return x + 1<<s>>s }", "f", []goat.Value{mkArg("int32", 5), mkArg("int32", 31)}, "4:int32"},
		{"float-constant-operand", "func f(i int) float64 { x := i; x = 6.0; y := x / 4; return float64(y) }", "f", []goat.Value{mkArg("int32", 7)}, "1:float64"},
		{"any-slot-adopts-previous-type", "func f(i int) any { var x any = uint8(i); x = 300; return x }", "f", []goat.Value{mkArg("int32", 1)}, "300:int32"},
		// (not a finding, its counterpart: a slot that is an any keeps a float stored after an integer)
		{"-", "func f(i int) any { var x any = i; x = 2.5; return x }", "f", []goat.Value{mkArg("int32", 7)}, "2.5:float64"},
		{"-", "type T struct { V any }\nfunc f(i int) any { t := &T{}; t.V = i; g := 2.5; t.V = g; return t.V }", "f", []goat.Value{mkArg("int32", 7)}, "2.5:float64"},
	} {
		got := newScript(w.src).call(w.fn, w.args...)
		c.Rep.Oracle["open-finding-witness"]++
		if got == w.want {
			continue
		}
		if f, ok := c.Findings[w.id]; ok {
			c.Rep.Known = append(c.Rep.Known, w.id+": "+f.What+" (witness "+w.src+" gives "+got+", Go "+w.want+")")
			continue
		}
		c.Rep.Violate(Violation{Kind: "oracle", Cut: "open-finding-witness", Input: w.src, Impl: got, Oracle: w.want})
	}
}

func runC04(c *Ctx) error {
	// handwritten programs (shapes that once slipped through), run by the Go toolchain
	if err := c.runCorpus("C04-programs"); err != nil {
		return err
	}
	c.c04OpenFindings()
	c.Rep.Rule = "num cut: (op, tagged operand pair) lines, 8-bit types exhaustive (256x256 per op), every ordered pair of kinds {untyped,uint8,int8,uint32,int32} on boundary+random values, float64 on special+random bit patterns, assign/convert/incdec/negate forms; oracle: script functions per type x syntactic position (var op var, x := a op b, a op= b, var op K, K op var, a op= K, ++/--, unary, typed var/const declaration, named constants without a type in every store position and as operands, parameter/variadic/field/element/result stores with parameters of every other type, conversions) against native Go arithmetic; distinct = distinct protocol line / (position,type,operands)"
	if err := c.c04Corr(); err != nil {
		return err
	}
	c.Rep.Sample(map[string]string{"line": "num add 3:200 3:100", "expect": "3:44"})
	return c.c04Oracle()
}
