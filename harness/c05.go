package main

// C05 — expressions group by Go's precedence and associativity.
//
// cut points:  tok   (real tokenizer)  -> protocol tokens
//              parse (real parser tree) == Lean Pratt model tree        [correspondence]
// oracle:      go/parser's grouping of the same text                     [search]
//              native Go evaluation of typed expressions vs VM.Eval      [search]

import (
	"fmt"
	"go/ast"
	"go/parser"
	"go/token"
	"strconv"
	"strings"
	"testing/fstest"

	goat "github.com/philhassey/goatlang"
)

func init() { checks["C05"] = runC05 }

var c05BinOps = []string{"*", "/", "%", "<<", ">>", "&", "&^", "+", "-", "|", "^", "==", "!=", "<", "<=", ">", ">=", "&&", "||"}
var c05UnOps = []string{"-", "^", "!"}

// goatTreeOfGo renders go/parser's tree in the form goatlang's token.String prints.
func goatTreeOfGo(e ast.Expr) string {
	switch x := e.(type) {
	case *ast.ParenExpr:
		return goatTreeOfGo(x.X)
	case *ast.Ident:
		return x.Name
	case *ast.BasicLit:
		return x.Value
	case *ast.UnaryExpr:
		in := goatTreeOfGo(x.X)
		switch x.Op {
		case token.SUB:
			inner := x.X
			for {
				p, ok := inner.(*ast.ParenExpr)
				if !ok {
					break
				}
				inner = p.X
			}
			if bl, ok := inner.(*ast.BasicLit); ok && bl.Kind == token.INT {
				return "-" + in // negateNud folds the sign into an unsigned literal
			}
			return "(negate " + in + ")"
		case token.XOR:
			return "(complement " + in + ")"
		case token.NOT:
			return "(! " + in + ")"
		}
		return "(?" + x.Op.String() + " " + in + ")"
	case *ast.BinaryExpr:
		l, r := goatTreeOfGo(x.X), goatTreeOfGo(x.Y)
		if x.Op == token.AND_NOT { // lexed by goatlang as & followed by unary ^
			return "(& " + l + " (complement " + r + "))"
		}
		return "(" + x.Op.String() + " " + l + " " + r + ")"
	}
	return fmt.Sprintf("?%T", e)
}

func protoTokens(toks []goat.VerifTok) (string, bool) {
	var p []string
	for _, t := range toks {
		switch t.Symbol {
		case "(eof)":
		case "(name)":
			p = append(p, "n:"+t.Text)
		case "(int)":
			if _, err := strconv.ParseUint(t.Text, 10, 63); err != nil {
				return "", false
			}
			p = append(p, "i:"+t.Text)
		case "(", ")":
			p = append(p, t.Symbol)
		case "true", "false":
			p = append(p, "n:"+t.Text)
		default:
			if strings.ContainsAny(t.Symbol, " \t") {
				return "", false
			}
			p = append(p, "s:"+t.Symbol)
		}
	}
	return "parse " + strings.Join(p, " "), true
}

type c05Case struct {
	text   string
	impl   string
	proto  string
	gotree string
}

func implTree(text string) (res string) {
	defer func() {
		if r := recover(); r != nil {
			res = fmt.Sprintf("PANIC %v", r)
		}
	}()
	trees, err := goat.VerifParse(text)
	if err != nil {
		return "err"
	}
	return "ok " + strings.Join(trees, " ;; ") // more than one statement shows as ';;'
}

func (c *Ctx) c05Batch(cases []*c05Case, cut string) error {
	var lines []string
	var idx []int
	for i, cs := range cases {
		cs.impl = implTree(cs.text)
		toks, err := goat.VerifTokenize(cs.text)
		if err != nil {
			continue
		}
		p, ok := protoTokens(toks)
		if !ok {
			continue
		}
		cs.proto = p
		lines = append(lines, p)
		idx = append(idx, i)
	}
	if c.Model != nil {
		ans, err := c.Model.AskAll(lines)
		if err != nil {
			return err
		}
		for k, a := range ans {
			cs := cases[idx[k]]
			c.Rep.Corr[cut]++
			want := cs.impl
			got := a
			// model prints "ok <tree> rest=<n>"; a complete parse has rest=0
			if strings.HasPrefix(a, "ok ") {
				j := strings.LastIndex(a, " rest=")
				if a[j:] == " rest=0" {
					got = a[:j]
				} else {
					got = "partial"
				}
			} else if a == "none" {
				got = "err"
			}
			if strings.Contains(want, " ;; ") {
				want = "partial"
			}
			if want != got {
				c.Rep.Violate(Violation{Kind: "correspondence", Cut: cut, Input: cs.text, Impl: cs.impl, Model: a})
			}
		}
	}
	for _, cs := range cases {
		ex, err := parser.ParseExpr(cs.text)
		if err != nil {
			cs.gotree = "err"
		} else {
			cs.gotree = "ok " + goatTreeOfGo(ex)
		}
		c.Rep.Oracle["go/parser:"+cut]++
		if cs.gotree != cs.impl {
			if cs.gotree == "err" {
				c.Rep.Count("invalid-go-skipped")
				continue // not valid Go: outside the property
			}
			c.Rep.Violate(Violation{Kind: "oracle", Cut: "go/parser:" + cut, Input: cs.text, Impl: cs.impl, Oracle: cs.gotree})
		}
		nt := strings.Count(cs.gotree, "(") >= 2
		c.Rep.Seen(cs.text, nt)
	}
	return nil
}

// flat random token text; grouping is decided by the parsers, not by the generator
func c05Flat(r *RNG, nops int, depth int) string {
	var sb strings.Builder
	operand := func() {
		for r.Chance(0.25) {
			sb.WriteString(Pick(r, c05UnOps))
			sb.WriteString(" ")
		}
		if depth > 0 && r.Chance(0.2) {
			sb.WriteString("( ")
			sb.WriteString(c05Flat(r, 1+r.Intn(2), depth-1))
			sb.WriteString(" )")
			return
		}
		if r.Chance(0.3) {
			sb.WriteString(strconv.Itoa(Pick(r, []int{0, 1, 2, 3, 5, 7, 8, 16, 31, 255, 1000})))
		} else {
			sb.WriteString(Pick(r, []string{"a", "b", "c", "d", "p", "q"}))
		}
	}
	operand()
	for i := 0; i < nops; i++ {
		sb.WriteString(" " + Pick(r, c05BinOps) + " ")
		operand()
	}
	return sb.String()
}

func runC05(c *Ctx) error {
	// handwritten programs (shapes that once slipped through), run by the Go toolchain
	if err := c.runCorpus("C05-programs"); err != nil {
		return err
	}
	c.Rep.Rule = "expression texts: exhaustive operator sequences (all 19 binary operators incl. &^, unary prefixes, paren placements) up to the tier's size + random flat token strings; distinct = distinct text; non-trivial = go/parser tree has >= 2 operator nodes"
	// corpus of past failures first
	corpus := []string{"1<<3 - 1", "6 | 1 + 1", "a << 2 + b", "!a == b", "- -5", "-(-5)", "-(5)", "a &^ b * c", "a - -b", "^a + b", "!p == q != p", "a & b == c", "a == b & c"}
	var cases []*c05Case
	for _, t := range corpus {
		cases = append(cases, &c05Case{text: t})
	}
	if err := c.c05Batch(cases, "corpus"); err != nil {
		return err
	}
	for _, cs := range cases {
		c.Rep.Sample(map[string]string{"text": cs.text, "impl": cs.impl, "go": cs.gotree})
	}
	// exhaustive
	names := []string{"a", "b", "c", "d"}
	pre := []string{"", "-", "^", "!"}
	flush := func(cut string) error {
		if len(cases) == 0 {
			return nil
		}
		err := c.c05Batch(cases, cut)
		cases = cases[:0]
		return err
	}
	cases = cases[:0]
	add := func(t, cut string) error {
		cases = append(cases, &c05Case{text: t})
		if len(cases) >= 20000 {
			return flush(cut)
		}
		return nil
	}
	opnd := func(i int, p string) string {
		if p == "" {
			return names[i]
		}
		return p + " " + names[i]
	}
	// 1 operator: all ops x all prefix pairs
	for _, o := range c05BinOps {
		for _, p0 := range pre {
			for _, p1 := range pre {
				if err := add(opnd(0, p0)+" "+o+" "+opnd(1, p1), "exh1"); err != nil {
					return err
				}
			}
		}
	}
	if err := flush("exh1"); err != nil {
		return err
	}
	// 2 operators: all pairs x paren forms x (quick: one prefixed operand at a time; thorough: all prefix triples)
	for _, o1 := range c05BinOps {
		for _, o2 := range c05BinOps {
			var prefs [][3]string
			if c.Thorough() {
				for _, a := range pre {
					for _, b := range pre {
						for _, d := range pre {
							prefs = append(prefs, [3]string{a, b, d})
						}
					}
				}
			} else {
				prefs = append(prefs, [3]string{"", "", ""})
				for _, a := range pre[1:] {
					prefs = append(prefs, [3]string{a, "", ""}, [3]string{"", a, ""}, [3]string{"", "", a})
				}
			}
			for _, pf := range prefs {
				x, y, z := opnd(0, pf[0]), opnd(1, pf[1]), opnd(2, pf[2])
				for _, t := range []string{
					x + " " + o1 + " " + y + " " + o2 + " " + z,
					"( " + x + " " + o1 + " " + y + " ) " + o2 + " " + z,
					x + " " + o1 + " ( " + y + " " + o2 + " " + z + " )",
				} {
					if err := add(t, "exh2"); err != nil {
						return err
					}
				}
			}
		}
	}
	if err := flush("exh2"); err != nil {
		return err
	}
	// 3 operators: thorough exhaustive over operator triples (bare + one prefixed operand + paren forms)
	if c.Thorough() {
		for _, o1 := range c05BinOps {
			for _, o2 := range c05BinOps {
				for _, o3 := range c05BinOps {
					base := []string{"a", o1, "b", o2, "c", o3, "d"}
					forms := [][]string{base}
					for k := 0; k < 4; k++ {
						for _, p := range pre[1:] {
							f := append([]string{}, base...)
							f[2*k] = p + " " + f[2*k]
							forms = append(forms, f)
						}
					}
					for _, f := range forms {
						t := strings.Join(f, " ")
						if err := add(t, "exh3"); err != nil {
							return err
						}
					}
					for _, t := range []string{
						"( a " + o1 + " b ) " + o2 + " ( c " + o3 + " d )",
						"a " + o1 + " ( b " + o2 + " c ) " + o3 + " d",
						"a " + o1 + " ( b " + o2 + " c " + o3 + " d )",
						"( a " + o1 + " b " + o2 + " c ) " + o3 + " d",
					} {
						if err := add(t, "exh3"); err != nil {
							return err
						}
					}
				}
			}
		}
		if err := flush("exh3"); err != nil {
			return err
		}
	}
	// random flat strings
	n := 5000
	maxOps := 6
	if c.Thorough() {
		n = 200000
		maxOps = 9
	}
	for i := 0; i < n; i++ {
		t := c05Flat(c.RNG, 1+c.RNG.Intn(maxOps), 3)
		c.Rep.Count(fmt.Sprintf("random-ops-%d", strings.Count(t, " ")/2))
		if err := add(t, "random"); err != nil {
			return err
		}
		if i < 3 {
			c.Rep.Sample(map[string]string{"random": t})
		}
	}
	if err := flush("random"); err != nil {
		return err
	}
	c.Rep.Exhaustive = true
	if err := c.c05BoolChains(); err != nil {
		return err
	}
	return c.c05Values()
}

// ---------------------------------------------------------------- values (typed expressions)

type texpr struct {
	op   string // "" leaf
	l, r *texpr
	leaf string
	typ  byte // 'i' or 'b'
	par  bool // redundant parens around this node
}

var goLevel = map[string]int{"*": 5, "/": 5, "%": 5, "<<": 5, ">>": 5, "&": 5, "&^": 5, "+": 4, "-": 4, "|": 4, "^": 4,
	"==": 3, "!=": 3, "<": 3, "<=": 3, ">": 3, ">=": 3, "&&": 2, "||": 1}

func (e *texpr) level() int {
	if e.par || e.op == "" {
		return 7
	}
	if e.r == nil {
		return 6
	}
	return goLevel[e.op]
}

func (e *texpr) text(min int) string {
	var s string
	switch {
	case e.op == "":
		s = e.leaf
	case e.r == nil:
		s = e.op + " " + e.l.text(6)
	default:
		lv := goLevel[e.op]
		s = e.l.text(lv) + " " + e.op + " " + e.r.text(lv+1)
	}
	if e.par || e.level() < min {
		return "( " + s + " )"
	}
	return s
}

func genT(r *RNG, typ byte, depth int) *texpr {
	par := r.Chance(0.1)
	if depth == 0 || r.Chance(0.2) {
		if typ == 'i' {
			if r.Chance(0.35) {
				return &texpr{leaf: strconv.Itoa(Pick(r, []int{0, 1, 2, 3, 5, 7, 8, 13, 16, 31})), typ: 'i'}
			}
			return &texpr{leaf: Pick(r, []string{"a", "b", "c", "d"}), typ: 'i', par: par}
		}
		return &texpr{leaf: Pick(r, []string{"p", "q"}), typ: 'b', par: par}
	}
	if typ == 'i' {
		switch k := r.Intn(10); {
		case k == 0:
			return &texpr{op: Pick(r, []string{"-", "^"}), l: genT(r, 'i', depth-1), typ: 'i', par: par}
		case k <= 2: // shift: count is a small masked value or literal
			cnt := &texpr{leaf: strconv.Itoa(r.Intn(6)), typ: 'i'}
			if r.Bool() {
				cnt = &texpr{op: "&", l: genT(r, 'i', 0), r: &texpr{leaf: "7", typ: 'i'}, typ: 'i'}
			}
			return &texpr{op: Pick(r, []string{"<<", ">>"}), l: genT(r, 'i', depth-1), r: cnt, typ: 'i', par: par}
		default:
			return &texpr{op: Pick(r, []string{"*", "/", "%", "&", "&^", "+", "-", "|", "^", "+", "-", "*"}), l: genT(r, 'i', depth-1), r: genT(r, 'i', depth-1), typ: 'i', par: par}
		}
	}
	switch k := r.Intn(10); {
	case k == 0:
		return &texpr{op: "!", l: genT(r, 'b', depth-1), typ: 'b', par: par}
	case k <= 4:
		return &texpr{op: Pick(r, []string{"==", "!=", "<", "<=", ">", ">="}), l: genT(r, 'i', depth-1), r: genT(r, 'i', depth-1), typ: 'b', par: par}
	case k == 5:
		return &texpr{op: Pick(r, []string{"==", "!="}), l: genT(r, 'b', depth-1), r: genT(r, 'b', depth-1), typ: 'b', par: par}
	default:
		return &texpr{op: Pick(r, []string{"&&", "||"}), l: genT(r, 'b', depth-1), r: genT(r, 'b', depth-1), typ: 'b', par: par}
	}
}

type tval struct {
	i   int32
	b   bool
	bad bool // division by zero etc: Go panics
}

// native Go evaluation (int means int32)
func (e *texpr) eval(env map[string]int32, benv map[string]bool) tval {
	if e.op == "" {
		if e.typ == 'b' {
			return tval{b: benv[e.leaf]}
		}
		if v, err := strconv.Atoi(e.leaf); err == nil {
			return tval{i: int32(v)}
		}
		return tval{i: env[e.leaf]}
	}
	l := e.l.eval(env, benv)
	if l.bad {
		return l
	}
	if e.r == nil {
		switch e.op {
		case "-":
			return tval{i: -l.i}
		case "^":
			return tval{i: ^l.i}
		case "!":
			return tval{b: !l.b}
		}
	}
	if e.op == "&&" {
		if !l.b {
			return tval{b: false}
		}
		return e.r.eval(env, benv)
	}
	if e.op == "||" {
		if l.b {
			return tval{b: true}
		}
		return e.r.eval(env, benv)
	}
	r := e.r.eval(env, benv)
	if r.bad {
		return r
	}
	if e.l.typ == 'b' {
		switch e.op {
		case "==":
			return tval{b: l.b == r.b}
		case "!=":
			return tval{b: l.b != r.b}
		}
	}
	a, b := l.i, r.i
	switch e.op {
	case "*":
		return tval{i: a * b}
	case "/":
		if b == 0 {
			return tval{bad: true}
		}
		return tval{i: a / b}
	case "%":
		if b == 0 {
			return tval{bad: true}
		}
		return tval{i: a % b}
	case "<<":
		if b < 0 {
			return tval{bad: true}
		}
		return tval{i: a << uint32(b)}
	case ">>":
		if b < 0 {
			return tval{bad: true}
		}
		return tval{i: a >> uint32(b)}
	case "&":
		return tval{i: a & b}
	case "&^":
		return tval{i: a &^ b}
	case "+":
		return tval{i: a + b}
	case "-":
		return tval{i: a - b}
	case "|":
		return tval{i: a | b}
	case "^":
		return tval{i: a ^ b}
	case "==":
		return tval{b: a == b}
	case "!=":
		return tval{b: a != b}
	case "<":
		return tval{b: a < b}
	case "<=":
		return tval{b: a <= b}
	case ">":
		return tval{b: a > b}
	case ">=":
		return tval{b: a >= b}
	}
	return tval{bad: true}
}

// all-literal subtrees are Go constant expressions (arbitrary precision); keep them out of the
// value sweep by requiring a variable somewhere below every operator that can overflow
func (e *texpr) hasVar() bool {
	if e.op == "" {
		_, err := strconv.Atoi(e.leaf)
		return err != nil
	}
	if e.l.hasVar() {
		return true
	}
	return e.r != nil && e.r.hasVar()
}
func (e *texpr) constSubtree() bool {
	if e.op == "" {
		return false
	}
	if !e.hasVar() {
		return true
	}
	if e.l.constSubtree() {
		return true
	}
	return e.r != nil && e.r.constSubtree()
}

func evalGoat(prelude, text string) (res string) {
	defer func() {
		if r := recover(); r != nil {
			res = fmt.Sprintf("PANIC %v", r)
		}
	}()
	vm := goat.New()
	rets, err := vm.Eval(fstest.MapFS{}, "e", prelude+"; "+text)
	if err != nil {
		return "error"
	}
	if len(rets) != 1 {
		return fmt.Sprintf("rets=%d", len(rets))
	}
	return rets[0].String()
}

func (c *Ctx) c05Values() error {
	n := 1500
	if c.Thorough() {
		n = 60000
	}
	r := c.RNG
	// a systematic family first: a short-circuit operator whose right operand contains arithmetic with a
	// constant or between variables (code the peephole passes shorten), followed by a further operator
	var family []*texpr
	lf := func(s string, t byte) *texpr { return &texpr{leaf: s, typ: t} }
	for _, o1 := range []string{"&&", "||"} {
		for _, o2 := range []string{"&&", "||", "==", "!="} {
			for _, ar := range []string{"-", "+", "*"} {
				for _, rhs := range []*texpr{lf("1", 'i'), lf("b", 'i')} {
					cmp := &texpr{op: "<", l: &texpr{op: ar, l: lf("a", 'i'), r: rhs, typ: 'i'}, r: lf("2", 'i'), typ: 'b'}
					inner := &texpr{op: o1, l: lf("p", 'b'), r: cmp, typ: 'b'}
					// comparison binds tighter than && and ||: the inner operator needs parentheses under == / !=
					inner.par = o2 == "==" || o2 == "!=" || (o1 == "||" && o2 == "&&")
					family = append(family, &texpr{op: o2, l: inner, r: lf("q", 'b'), typ: 'b'})
					inner2 := &texpr{op: o1, l: lf("p", 'b'), r: cmp, typ: 'b', par: true}
					family = append(family, &texpr{op: o2, l: lf("q", 'b'), r: inner2, typ: 'b'})
				}
			}
		}
	}
	for i := 0; i < n+len(family); i++ {
		typ := byte('i')
		if r.Bool() {
			typ = 'b'
		}
		var e *texpr
		if i < len(family) {
			e, typ = family[i], 'b'
			c.Rep.Count("value-short-circuit-family")
		} else {
			e = genT(r, typ, 1+r.Intn(4))
		}
		if e.constSubtree() {
			c.Rep.Count("value-skip-const-subtree")
			continue
		}
		text := e.text(0)
		// the printer is not trusted: go/parser must read the text back as the intended tree
		ex, err := parser.ParseExpr(text)
		if err != nil || goatTreeOfGo(ex) != e.goatTree() {
			c.Rep.Notes = append(c.Rep.Notes, "harness printer disagreement on "+text)
			c.Rep.Count("value-skip-printer")
			continue
		}
		for k := 0; k < 3; k++ {
			env := map[string]int32{}
			benv := map[string]bool{"p": r.Bool(), "q": r.Bool()}
			var pre []string
			for _, v := range []string{"a", "b", "c", "d"} {
				x := int32(Pick(r, []int{0, 1, 2, 3, 5, 7, 11, 13, 64, 100, -1, -2, -7, 1 << 20, 2147483647, -2147483648, 12345, -99}))
				env[v] = x
				pre = append(pre, fmt.Sprintf("var %s int = %d", v, x))
			}
			for _, v := range []string{"p", "q"} {
				pre = append(pre, fmt.Sprintf("var %s bool = %v", v, benv[v]))
			}
			want := e.eval(env, benv)
			var ws string
			switch {
			case want.bad:
				ws = "error"
			case typ == 'b':
				ws = strconv.FormatBool(want.b)
			default:
				ws = strconv.Itoa(int(want.i))
			}
			prelude := strings.Join(pre, "; ")
			got := evalGoat(prelude, text)
			c.Rep.Oracle["values"]++
			c.Rep.Seen("v:"+text+"|"+prelude, e.r != nil)
			if got != ws {
				c.Rep.Violate(Violation{Kind: "oracle", Cut: "values", Input: map[string]string{"prelude": prelude, "expr": text}, Impl: got, Oracle: ws})
			}
			if i < 2 && k == 0 {
				c.Rep.Sample(map[string]string{"expr": text, "prelude": prelude, "value": ws})
			}
		}
	}
	return nil
}

// every tree of 2..4 short-circuit operators over the leaves p, q, r, s, t in order (parenthesised exactly where the
// tree needs it), on every assignment of the leaves, at top level, as a function result over locals and as the
// condition of an if: the value is Go's, whatever jumps the compiler threads through the chain
func boolTrees(leaves []string) []*texpr {
	if len(leaves) == 1 {
		return []*texpr{{leaf: leaves[0], typ: 'b'}}
	}
	var out []*texpr
	for cut := 1; cut < len(leaves); cut++ {
		for _, l := range boolTrees(leaves[:cut]) {
			for _, r := range boolTrees(leaves[cut:]) {
				for _, op := range []string{"&&", "||"} {
					out = append(out, &texpr{op: op, l: l, r: r, typ: 'b'})
				}
			}
		}
	}
	return out
}

func (c *Ctx) c05BoolChains() error {
	names := []string{"p", "q", "r", "s", "t"}
	maxLeaves := 4
	if c.Thorough() {
		maxLeaves = 5
	}
	for nl := 3; nl <= maxLeaves; nl++ {
		for _, e := range boolTrees(names[:nl]) {
			text := e.text(0)
			ex, err := parser.ParseExpr(text)
			if err != nil || goatTreeOfGo(ex) != e.goatTree() {
				c.Rep.Notes = append(c.Rep.Notes, "harness printer disagreement on "+text)
				continue
			}
			var params []string
			for _, n := range names[:nl] {
				params = append(params, n+" bool")
			}
			src := fmt.Sprintf("func f(%s) bool { return %s }\nfunc g(%s) int { if %s { return 1 }; return 0 }\nfunc h(%s) int { n := 0; for i := 0; i < 3 && (%s); i++ { n++ }; return n }\n",
				strings.Join(params, ", "), text, strings.Join(params, ", "), text, strings.Join(params, ", "), text)
			vm := goat.New()
			if _, err := vm.Eval(fstest.MapFS{}, "e", src); err != nil {
				c.Rep.Violate(Violation{Kind: "oracle", Cut: "bool-chains", Input: src, Impl: err.Error(), Oracle: "compiles"})
				continue
			}
			for m := 0; m < 1<<nl; m++ {
				benv := map[string]bool{}
				var args []goat.Value
				var pre []string
				for i, n := range names[:nl] {
					benv[n] = m>>i&1 == 1
					args = append(args, goat.Bool(benv[n]))
					pre = append(pre, fmt.Sprintf("var %s bool = %v", n, benv[n]))
				}
				want := e.eval(nil, benv).b
				wi := "0"
				wh := "0"
				if want {
					wi, wh = "1", "3"
				}
				for _, q := range []struct{ fn, want string }{{"main.f", strconv.FormatBool(want)}, {"main.g", wi}, {"main.h", wh}} {
					got := "error"
					if rets, err := vm.Call(q.fn, 1, args...); err == nil && len(rets) == 1 {
						got = rets[0].String()
					}
					c.Rep.Oracle["bool-chains"]++
					if got != q.want {
						c.Rep.Violate(Violation{Kind: "oracle", Cut: "bool-chains", Input: map[string]string{"expr": text, "function": q.fn, "src": src, "args": strings.Join(pre, "; ")}, Impl: got, Oracle: q.want})
					}
				}
				if got := evalGoat(strings.Join(pre, "; "), text); got != strconv.FormatBool(want) {
					c.Rep.Violate(Violation{Kind: "oracle", Cut: "bool-chains", Input: map[string]string{"prelude": strings.Join(pre, "; "), "expr": text}, Impl: got, Oracle: strconv.FormatBool(want)})
				}
				c.Rep.Oracle["bool-chains"]++
			}
			c.Rep.Seen("chain:"+text, true)
			c.Rep.Count("value-bool-chain-tree")
		}
	}
	return nil
}

func (e *texpr) goatTree() string {
	if e.op == "" {
		return e.leaf
	}
	if e.r == nil {
		in := e.l.goatTree()
		switch e.op {
		case "-":
			if e.l.op == "" {
				if _, err := strconv.Atoi(e.l.leaf); err == nil {
					return "-" + in
				}
			}
			return "(negate " + in + ")"
		case "^":
			return "(complement " + in + ")"
		}
		return "(! " + in + ")"
	}
	if e.op == "&^" {
		return "(& " + e.l.goatTree() + " (complement " + e.r.goatTree() + "))"
	}
	return "(" + e.op + " " + e.l.goatTree() + " " + e.r.goatTree() + ")"
}
