package main

// C06 — break, continue and the branches of if / for reach the target Go specifies.
//
// cut point cf:  the REAL compiler's code for control skeletons (leaves are calls t(n) / c(k))
//                == the Lean model's assembly Goat.CF.compile over the same leaf codes, instruction
//                for instruction (opcode and operands), optimizer off and on          [correspondence]
// oracle:        a native interpreter of Go's statement semantics on the skeleton (trace of the
//                leaves executed); the Go toolchain on the same programs and on generated
//                programs with switch / range / return                               [search]

import (
	"fmt"
	"strings"

	goat "github.com/philhassey/goatlang"
)

func init() { checks["C06"] = runC06 }

type cfStmt struct {
	kind string // act seq ite ift loop forever brk cont sw ret rng (rng: n = item leaf id, p = which ranged slice)
	n    int    // act id / cond id
	p    int    // post act id (0 = none)
	init int    // init act id for 3-clause loops (0 = none)
	a, b *cfStmt
	cs   []*cfStmt // sw: the clauses {n: cond id, a: body}; b: the default body (nil: none)
	dpos int       // sw: where the default clause is written
	vals []int     // tsw clause: the case values
}

type cfGen struct {
	r    *RNG
	next int
}

func (g *cfGen) id() int { g.next++; return g.next }

func (g *cfGen) gen(depth int, inLoop bool) *cfStmt { return g.gen2(depth, inLoop, false) }

// gen2: inSw — directly or indirectly inside a switch clause (a break is allowed: it leaves the switch)
func (g *cfGen) gen2(depth int, inLoop, inSw bool) *cfStmt {
	r := g.r
	k := r.Intn(100)
	jump := func() *cfStmt {
		if inLoop && (r.Bool() || !inSw) {
			return &cfStmt{kind: Pick(r, []string{"brk", "cont"})}
		}
		return &cfStmt{kind: "brk"}
	}
	if k >= 96 || (depth <= 0 && k < 4) { // return (after a leaf, or bare)
		if r.Bool() {
			return &cfStmt{kind: "ret", n: g.id()}
		}
		return &cfStmt{kind: "ret"}
	}
	if depth <= 0 {
		if (inLoop || inSw) && k < 25 {
			return jump()
		}
		return &cfStmt{kind: "act", n: g.id()}
	}
	if k >= 85 && k < 92 && r.Bool() { // switch with 1..3 clauses and an optional default
		s := &cfStmt{kind: "sw"}
		for i := 1 + r.Intn(3); i > 0; i-- {
			s.cs = append(s.cs, &cfStmt{kind: "case", n: g.id(), a: g.gen2(depth-1, inLoop, true)})
		}
		if r.Intn(5) > 1 {
			s.b = g.gen2(depth-1, inLoop, true)
			s.dpos = r.Intn(len(s.cs) + 1)
		}
		return s
	}
	if k >= 85 && k < 92 && r.Intn(3) == 0 { // tagged switch: switch tag(n) { case 0, 2: … default: … }
		s := &cfStmt{kind: "tsw", n: g.id()}
		for i := 1 + r.Intn(3); i > 0; i-- {
			cl := &cfStmt{kind: "tcase", n: g.id(), a: g.gen2(depth-1, inLoop, true)}
			for j := 1 + r.Intn(3); j > 0; j-- {
				cl.vals = append(cl.vals, r.Intn(4))
			}
			s.cs = append(s.cs, cl)
		}
		if r.Intn(5) > 1 {
			s.b = g.gen2(depth-1, inLoop, true)
			s.dpos = r.Intn(len(s.cs) + 1)
		}
		return s
	}
	inSwHere := inSw
	_ = inSwHere
	switch {
	case k < 15:
		return &cfStmt{kind: "act", n: g.id()}
	case k < 40:
		return &cfStmt{kind: "seq", a: g.gen2(depth-1, inLoop, inSw), b: g.gen2(depth-1, inLoop, inSw)}
	case k < 55:
		if r.Intn(8) == 0 { // an empty then- or else-block
			if r.Bool() {
				return &cfStmt{kind: "ite", n: g.id(), a: &cfStmt{kind: "act"}, b: g.gen2(depth-1, inLoop, inSw)}
			}
			return &cfStmt{kind: "ite", n: g.id(), a: g.gen2(depth-1, inLoop, inSw), b: &cfStmt{kind: "act"}}
		}
		return &cfStmt{kind: "ite", n: g.id(), a: g.gen2(depth-1, inLoop, inSw), b: g.gen2(depth-1, inLoop, inSw)}
	case k < 68:
		if r.Intn(6) == 0 { // if c { }
			return &cfStmt{kind: "ift", n: g.id(), a: &cfStmt{kind: "act"}}
		}
		return &cfStmt{kind: "ift", n: g.id(), a: g.gen2(depth-1, inLoop, inSw)}
	case k < 76:
		return &cfStmt{kind: "rng", n: g.id(), p: r.Intn(3), a: g.gen2(depth-1, true, false)}
	case k < 85:
		s := &cfStmt{kind: "loop", n: g.id(), a: g.gen2(depth-1, true, false)}
		if r.Bool() {
			s.init, s.p = g.id(), g.id()
		}
		return s
	case k < 92:
		return &cfStmt{kind: "forever", a: g.gen2(depth-1, true, false)}
	default:
		if inLoop || inSw {
			return jump()
		}
		return &cfStmt{kind: "act", n: g.id()}
	}
}

// every loop body starts with `if fuel() { break }` (cond id 999)
func (s *cfStmt) guard() *cfStmt {
	if s == nil {
		return nil
	}
	c := *s
	c.a, c.b = s.a.guard(), s.b.guard()
	c.cs = nil
	for _, k := range s.cs {
		c.cs = append(c.cs, k.guard())
	}
	if c.kind == "loop" || c.kind == "forever" {
		c.a = &cfStmt{kind: "seq", a: &cfStmt{kind: "ift", n: 999, a: &cfStmt{kind: "brk"}}, b: c.a}
	}
	return &c
}

func (s *cfStmt) src(sb *strings.Builder) {
	cond := func(n int) string {
		if n == 999 {
			return "fuel()"
		}
		return fmt.Sprintf("c(%d)", n)
	}
	switch s.kind {
	case "act":
		if s.n != 0 { // act 0 is the empty statement (an empty block)
			fmt.Fprintf(sb, "t(%d)\n", s.n)
		}
	case "seq":
		s.a.src(sb)
		s.b.src(sb)
	case "ite":
		fmt.Fprintf(sb, "if %s {\n", cond(s.n))
		s.a.src(sb)
		sb.WriteString("} else {\n")
		s.b.src(sb)
		sb.WriteString("}\n")
	case "ift":
		fmt.Fprintf(sb, "if %s {\n", cond(s.n))
		s.a.src(sb)
		sb.WriteString("}\n")
	case "loop":
		if s.init != 0 {
			fmt.Fprintf(sb, "for t(%d); %s; t(%d) {\n", s.init, cond(s.n), s.p)
		} else {
			fmt.Fprintf(sb, "for %s {\n", cond(s.n))
		}
		s.a.src(sb)
		sb.WriteString("}\n")
	case "forever":
		sb.WriteString("for {\n")
		s.a.src(sb)
		sb.WriteString("}\n")
	case "rng":
		fmt.Fprintf(sb, "for k%d, v%d := range rs%d {\n", s.n, s.n, s.p)
		s.a.src(sb)
		sb.WriteString("}\n")
	case "brk":
		sb.WriteString("break\n")
	case "cont":
		sb.WriteString("continue\n")
	case "ret":
		if s.n != 0 {
			fmt.Fprintf(sb, "t(%d)\n", s.n)
		}
		sb.WriteString("return\n")
	case "tsw":
		fmt.Fprintf(sb, "switch tag(%d) {\n", s.n)
		for i, k := range s.cs {
			if s.b != nil && s.dpos == i {
				sb.WriteString("default:\n")
				s.b.src(sb)
			}
			var vs []string
			for _, v := range k.vals {
				vs = append(vs, fmt.Sprint(v))
			}
			fmt.Fprintf(sb, "case %s:\n", strings.Join(vs, ", "))
			k.a.src(sb)
		}
		if s.b != nil && s.dpos >= len(s.cs) {
			sb.WriteString("default:\n")
			s.b.src(sb)
		}
		sb.WriteString("}\n")
	case "sw":
		sb.WriteString("switch {\n")
		for i, k := range s.cs {
			if s.b != nil && s.dpos == i {
				sb.WriteString("default:\n")
				s.b.src(sb)
			}
			fmt.Fprintf(sb, "case %s:\n", cond(k.n))
			k.a.src(sb)
		}
		if s.b != nil && s.dpos >= len(s.cs) {
			sb.WriteString("default:\n")
			s.b.src(sb)
		}
		sb.WriteString("}\n")
	}
}

// protocol tokens; a 3-clause loop is `seq (act init) (loop c p body)`
func (s *cfStmt) proto(w *[]string, leaves map[string]bool) {
	switch s.kind {
	case "act":
		*w = append(*w, "act", fmt.Sprint(s.n))
		if s.n != 0 {
			leaves[fmt.Sprintf("a%d", s.n)] = true
		}
	case "seq":
		*w = append(*w, "seq")
		s.a.proto(w, leaves)
		s.b.proto(w, leaves)
	case "ite", "ift":
		kind := s.kind
		if kind == "ite" && s.b.kind == "act" && s.b.n == 0 {
			kind = "ift" // compiler.go: an else block that compiles to nothing is no else block
		}
		*w = append(*w, kind, fmt.Sprint(s.n))
		leaves[fmt.Sprintf("c%d", s.n)] = true
		s.a.proto(w, leaves)
		if kind == "ite" {
			s.b.proto(w, leaves)
		}
	case "loop":
		if s.init != 0 {
			*w = append(*w, "seq", "act", fmt.Sprint(s.init))
			leaves[fmt.Sprintf("a%d", s.init)] = true
			leaves[fmt.Sprintf("a%d", s.p)] = true
		}
		*w = append(*w, "loop", fmt.Sprint(s.n), fmt.Sprint(s.p))
		leaves[fmt.Sprintf("c%d", s.n)] = true
		s.a.proto(w, leaves)
	case "forever":
		*w = append(*w, "forever", "0")
		s.a.proto(w, leaves)
	case "rng": // the hidden iterator slot and the key/value slots are read off the real code (j-th RANGE in code order)
		j := 0
		for _, t := range *w {
			if t == "rng" {
				j++
			}
		}
		*w = append(*w, "rng", fmt.Sprintf("@r%d", j), fmt.Sprintf("@kv%d", j), fmt.Sprint(s.n))
		leaves[fmt.Sprintf("a%d", s.n)] = true
		leaves[fmt.Sprintf("i%d=%d", s.n, s.p)] = false // marks a<n> as the item leaf `rs<p>`
		s.a.proto(w, leaves)
	case "brk", "cont":
		*w = append(*w, s.kind)
	case "ret":
		*w = append(*w, "ret", fmt.Sprint(s.n))
		if s.n != 0 {
			leaves[fmt.Sprintf("a%d", s.n)] = true
		}
	case "tsw": // the tag leaf stores into the hidden slot; every clause's condition leaf compares a value with it
		*w = append(*w, "seq", "act", fmt.Sprint(s.n))
		leaves[fmt.Sprintf("a%d", s.n)] = true
		leaves[fmt.Sprintf("T%d", s.n)] = false // marks a<n> as a tag leaf
		for _, k := range s.cs {
			*w = append(*w, "swc", fmt.Sprint(k.n))
			leaves[fmt.Sprintf("c%d", k.n)] = true
			var vs []string
			for _, v := range k.vals {
				vs = append(vs, fmt.Sprint(v))
			}
			leaves[fmt.Sprintf("V%d=%d=%s", k.n, s.n, strings.Join(vs, "_"))] = false // c<k.n>: values against tag s.n
			k.a.proto(w, leaves)
		}
		*w = append(*w, "swd")
		if s.b != nil {
			s.b.proto(w, leaves)
		} else {
			*w = append(*w, "act", "0")
		}
	case "sw": // swc c1 A1 (swc c2 A2 (… (swd D)))
		for _, k := range s.cs {
			*w = append(*w, "swc", fmt.Sprint(k.n))
			leaves[fmt.Sprintf("c%d", k.n)] = true
			k.a.proto(w, leaves)
		}
		*w = append(*w, "swd")
		if s.b != nil {
			s.b.proto(w, leaves)
		} else {
			*w = append(*w, "act", "0") // no default clause: an empty block
		}
	}
}

// native interpreter: Go's semantics of the skeleton
type cfRun struct {
	trace []string
	cnt   int
	fuel  int
}

func (m *cfRun) cond(n int) bool {
	if n == 999 {
		m.fuel--
		return m.fuel < 0
	}
	m.cnt++
	return (m.cnt*7+n)%3 != 0
}

func (m *cfRun) exec(s *cfStmt) string { // "", "brk", "cont"
	switch s.kind {
	case "act":
		if s.n != 0 {
			m.trace = append(m.trace, fmt.Sprint(s.n))
		}
	case "seq":
		if o := m.exec(s.a); o != "" {
			return o
		}
		return m.exec(s.b)
	case "ite":
		if m.cond(s.n) {
			return m.exec(s.a)
		}
		return m.exec(s.b)
	case "ift":
		if m.cond(s.n) {
			return m.exec(s.a)
		}
	case "loop":
		if s.init != 0 {
			m.trace = append(m.trace, fmt.Sprint(s.init))
		}
		for m.cond(s.n) {
			o := m.exec(s.a)
			if o == "brk" {
				break
			}
			if o == "ret" {
				return o
			}
			if s.p != 0 {
				m.trace = append(m.trace, fmt.Sprint(s.p))
			}
		}
	case "forever":
		for {
			o := m.exec(s.a)
			if o == "brk" {
				break
			}
			if o == "ret" {
				return o
			}
		}
	case "rng": // the ranged slices hold 0, 1 and 3 elements
		for i := 0; i < []int{0, 1, 3}[s.p]; i++ {
			o := m.exec(s.a)
			if o == "brk" {
				break
			}
			if o == "ret" {
				return o
			}
		}
	case "brk":
		return "brk"
	case "cont":
		return "cont"
	case "ret":
		if s.n != 0 {
			m.trace = append(m.trace, fmt.Sprint(s.n))
		}
		return "ret"
	case "tsw": // the tag is evaluated once (tag(n) prints n and yields n % 3); the first clause listing it, else the default
		m.trace = append(m.trace, fmt.Sprint(s.n))
		tagv := s.n % 3
		body := s.b
	find:
		for _, k := range s.cs {
			for _, v := range k.vals {
				if v == tagv {
					body = k.a
					break find
				}
			}
		}
		if body != nil {
			if o := m.exec(body); o != "brk" {
				return o
			}
		}
	case "sw": // the first clause whose condition holds, else the default; break leaves the switch only
		body := s.b
		for _, k := range s.cs {
			if m.cond(k.n) {
				body = k.a
				break
			}
		}
		if body != nil {
			if o := m.exec(body); o != "brk" {
				return o
			}
		}
	}
	return ""
}

const cfPrelude = "func tag(n int) int {\n\tprintln(n)\n\treturn n % 3\n}\nvar rs0 = []int{}\nvar rs1 = []int{7}\nvar rs2 = []int{4, 5, 6}\nvar cnt = 0\nvar fuelv = 25\nfunc t(n int) {\n\tprintln(n)\n}\nfunc c(k int) bool {\n\tcnt++\n\treturn (cnt*7+k)%3 != 0\n}\nfunc fuel() bool {\n\tfuelv--\n\treturn fuelv < 0\n}\n"

func funcBody(ins []goat.VerifInstr) []goat.VerifInstr {
	if len(ins) == 0 || ins[0].Code != "FUNC" {
		return nil
	}
	a := ((ins[0].A >> 16) & 0xffff) - 32768
	rets := (ins[0].A & 0xffff) - 32768
	if a < 0 {
		a = -a
	}
	hdr := a + rets
	return ins[1+hdr : 1+hdr+ins[0].C]
}

func encOps(ins []goat.VerifInstr) string {
	var w []string
	for _, i := range ins {
		w = append(w, fmt.Sprintf("%s:%d:%d:%d", i.Code, i.A, i.B, i.C))
	}
	return strings.Join(w, " ")
}

func (c *Ctx) c06One(s *cfStmt, sample bool) (lines, impl []string) {
	var sb strings.Builder
	s.src(&sb)
	body := sb.String()
	var ltNoopt []string
	for _, opt := range []bool{false, true} {
		vm := goat.New()
		if _, err := vm.VerifEval(cfPrelude, true); err != nil {
			c.Rep.Notes = append(c.Rep.Notes, "prelude failed: "+err.Error())
			return
		}
		ins, _, err := vm.VerifCompile("func w() {\n"+body+"}\n", opt)
		if err != nil {
			c.Rep.Violate(Violation{Kind: "oracle", Cut: "compile", Input: body, Impl: err.Error(), Oracle: "valid Go must compile"})
			return
		}
		real := funcBody(ins)
		var toks []string
		leaves := map[string]bool{}
		s.proto(&toks, leaves)
		var lt []string
		items := map[string]string{}
		for k := range leaves {
			if k[0] == 'i' {
				kv := strings.SplitN(k[1:], "=", 2)
				items["a"+kv[0]] = "rs" + kv[1]
			}
		}
		// slots of the j-th range statement, from the real code
		nr := 0
		for _, in := range real {
			if in.Code == "RANGE" {
				for _, it := range real {
					if it.Code == "ITER" && it.A == in.A {
						for ti := range toks {
							if toks[ti] == fmt.Sprintf("@r%d", nr) {
								toks[ti] = fmt.Sprint(in.A)
							} else if toks[ti] == fmt.Sprintf("@kv%d", nr) {
								toks[ti] = fmt.Sprint(it.B)
							}
						}
					}
				}
				nr++
			}
		}
		tagLeaf := map[string]bool{}
		caseOf := map[string][2]string{} // c<id> -> (tag id, values)
		for k := range leaves {
			switch k[0] {
			case 'T':
				tagLeaf["a"+k[1:]] = true
			case 'V':
				f := strings.SplitN(k[1:], "=", 3)
				caseOf["c"+f[0]] = [2]string{f[1], f[2]}
			}
		}
		// the hidden slot of a tagged switch: the LOCALSET that follows the call tag(n) in the real code
		hidden := map[string]int{}
		for i := 0; i+3 < len(real); i++ {
			if real[i].Code == "PUSH" && tagLeaf[fmt.Sprintf("a%d", real[i].A)] && real[i+3].Code == "LOCALSET" {
				hidden[fmt.Sprint(real[i].A)] = real[i+3].A
			} else if real[i].Code == "PUSH" && tagLeaf[fmt.Sprintf("a%d", real[i].A)] && real[i+2].Code == "LOCALSET" {
				hidden[fmt.Sprint(real[i].A)] = real[i+2].A
			}
		}
		for _, k := range sortedKeys(leaves) {
			var leafSrc string
			if cv, ok := caseOf[k]; ok { // value; LOCALGET hidden; EQ, several values chained by OR
				var w []string
				vals := strings.Split(cv[1], "_")
				for j, v := range vals {
					if j > 0 {
						w = append(w, "OR:3:0:0:0")
					}
					w = append(w, fmt.Sprintf("PUSH:%s:0:0:0", v), fmt.Sprintf("LOCALGET:%d:0:0:0", hidden[cv[0]]), "EQ:0:0:0:0")
				}
				lt = append(lt, k+"="+strings.Join(w, ","))
				continue
			}
			switch {
			case k[0] == 'T' || k[0] == 'V':
				continue
			case tagLeaf[k]:
				leafSrc = fmt.Sprintf("func w() int {\nreturn tag(%s)\n}\n", k[1:])
			case k[0] == 'i':
				continue
			case items[k] != "":
				leafSrc = fmt.Sprintf("func w() []int {\nreturn %s\n}\n", items[k])
			case k == "c999":
				leafSrc = "func w() bool {\nreturn fuel()\n}\n"
			case k[0] == 'c':
				leafSrc = fmt.Sprintf("func w() bool {\nreturn c(%s)\n}\n", k[1:])
			default:
				leafSrc = fmt.Sprintf("func w() {\nt(%s)\n}\n", k[1:])
			}
			li, _, err := vm.VerifCompile(leafSrc, opt)
			if err != nil {
				return
			}
			lb := funcBody(li)
			if k[0] == 'c' || items[k] != "" || tagLeaf[k] {
				lb = lb[:len(lb)-1] // drop RETURN
			}
			if tagLeaf[k] {
				lb = append(lb, goat.VerifInstr{Code: "LOCALSET", A: hidden[k[1:]]})
			}
			var w []string
			for _, i := range lb {
				w = append(w, fmt.Sprintf("%s:%d:%d:%d:0", i.Code, i.A, i.B, i.C))
			}
			lt = append(lt, k+"="+strings.Join(w, ","))
		}
		mode := "noopt"
		if opt {
			mode = "opt"
		}
		lines = append(lines, fmt.Sprintf("cf %s %s | %s", mode, strings.Join(toks, " "), strings.Join(lt, " ")))
		impl = append(impl, encOps(real))
		if !opt {
			ltNoopt = lt
		} else if ltNoopt != nil {
			// the object of C02.opt_transparent: the program assembled from the model's optimization of the
			// UNoptimized leaves must be the real compiler's optimized body
			lines = append(lines, fmt.Sprintf("cf optleaves %s | %s", strings.Join(toks, " "), strings.Join(ltNoopt, " ")))
			impl = append(impl, encOps(real))
		}
	}
	// behaviour: native Go semantics vs goatlang, both optimizer settings
	m := &cfRun{fuel: 25}
	how := m.exec(s)
	// the behaviour run gives the function a result (8 from a return inside the skeleton, 7 at its end), so
	// that anything a statement leaves on the operand stack shows up in what the caller receives
	m.trace = append(m.trace, map[bool]string{true: "8", false: "7"}[how == "ret"])
	want := strings.Join(m.trace, "\n")
	vbody := strings.ReplaceAll(body, "return\n", "return 8\n")
	for _, opt := range []bool{false, true} {
		got := evalMode(cfPrelude+"func w() int {\n"+vbody+"return 7\n}\nprintln(w())\n", opt)
		c.Rep.Oracle["native-semantics"]++
		exp := want
		if exp != "" {
			exp += "\n"
		}
		exp += "\n=> OK "
		if got != exp {
			c.Rep.Violate(Violation{Kind: "oracle", Cut: "native-semantics", Input: fmt.Sprintf("optimize=%v\n%s", opt, body), Impl: got, Oracle: exp})
		}
	}
	if sample {
		c.Rep.Sample(map[string]any{"skeleton": body, "line": lines[0], "impl": impl[0], "trace": want})
	}
	return
}

func runC06(c *Ctx) error {
	c.Rep.Rule = "control skeletons over the forms {simple statement, sequence, if/else and if (also with empty blocks), for with condition (with and without init/post), for {}, for k, v := range over slices of 0, 1 and 3 elements, tagless switch with 1..3 clauses and an optional default written at any position, tagged switch (tag evaluated once into the hidden slot, clauses with 1..3 values chained by OR), break, continue, return (bare or after a statement)} with a fuel guard at every loop head: all skeletons of depth <= 2 over a reduced alphabet plus random ones to depth 5; for each: the compiled function body (optimizer off and on) compared with the model's assembly, and the printed trace compared with a native interpreter of Go's semantics; plus Go-toolchain runs of generated programs with switch/range/return; distinct = distinct skeleton; non-trivial = contains a loop with break or continue"
	n := 300
	if c.Thorough() {
		n = 12000
	}
	var lines, impl []string
	add := func(s *cfStmt, sample bool) {
		g := s.guard()
		l, im := c.c06One(g, sample)
		lines = append(lines, l...)
		impl = append(impl, im...)
		var sb strings.Builder
		g.src(&sb)
		body := sb.String()
		c.Rep.Seen(body, strings.Contains(body, "for") && (strings.Count(body, "break") > strings.Count(body, "for") || strings.Contains(body, "continue")))
		if strings.Contains(body, "range") {
			c.Rep.Count("skeleton-with-range")
		}
		if strings.Contains(body, "switch tag(") {
			c.Rep.Count("skeleton-with-tagged-switch")
		}
		if strings.Contains(body, "switch {") {
			c.Rep.Count("skeleton-with-switch")
			if strings.Contains(body, "for") && strings.Contains(body, "continue") {
				c.Rep.Count("skeleton-switch-in-loop-with-continue")
			}
		}
		c.Rep.Count("skeletons")
	}
	// small exhaustive family: loop bodies made of up to two of {act, brk, cont, if-break, if-else(cont, act)}
	atoms := func(g *cfGen) []*cfStmt {
		return []*cfStmt{
			{kind: "act", n: g.id()}, {kind: "brk"}, {kind: "cont"},
			{kind: "ift", n: g.id(), a: &cfStmt{kind: "brk"}},
			{kind: "ift", n: g.id(), a: &cfStmt{kind: "cont"}},
			{kind: "ite", n: g.id(), a: &cfStmt{kind: "cont"}, b: &cfStmt{kind: "act", n: g.id()}},
			{kind: "ite", n: g.id(), a: &cfStmt{kind: "act", n: g.id()}, b: &cfStmt{kind: "brk"}},
		}
	}
	for i := 0; i < 7; i++ {
		for j := 0; j < 7; j++ {
			for form := 0; form < 4; form++ {
				g := &cfGen{}
				body := &cfStmt{kind: "seq", a: atoms(g)[i], b: atoms(g)[j]}
				var s *cfStmt
				switch form {
				case 0:
					s = &cfStmt{kind: "loop", n: g.id(), a: body}
				case 1:
					s = &cfStmt{kind: "loop", n: g.id(), a: body, init: g.id(), p: g.id()}
				case 2:
					s = &cfStmt{kind: "forever", a: body}
				default:
					s = &cfStmt{kind: "rng", n: g.id(), p: 2, a: body}
				}
				// nested inside another loop followed by an action, to check that break/continue stop at the inner loop
				outer := &cfStmt{kind: "loop", n: g.id(), a: &cfStmt{kind: "seq", a: s, b: &cfStmt{kind: "act", n: g.id()}}, init: g.id(), p: g.id()}
				add(s, false)
				add(outer, i == 3 && j == 0 && form == 1)
			}
		}
	}
	for i := 0; i < n; i++ {
		g := &cfGen{r: c.RNG}
		add(g.gen(2+c.RNG.Intn(4), false), i == 0)
	}
	if c.Model != nil {
		ans, err := c.Model.AskAll(lines)
		if err != nil {
			return err
		}
		for i, a := range ans {
			c.Rep.Corr["cf"]++
			if a != impl[i] {
				c.Rep.Violate(Violation{Kind: "correspondence", Cut: "cf", Input: lines[i], Impl: impl[i], Model: a})
			}
		}
	}
	// handwritten programs first (shapes that once slipped through), then
	// switch / range / return: Go toolchain on generated programs
	if err := c.runCorpus("C06-programs"); err != nil {
		return err
	}
	np := 200
	if c.Thorough() {
		np = 3000
	}
	for done := 0; done < np; done += 200 {
		var progs []GoProg
		var feats []map[string]bool
		for i := 0; i < 200 && done+i < np; i++ {
			if i%3 == 0 { // loops and branches whose blocks redeclare the names their headers use (C08's generator)
				progs = append(progs, c08Program(c.RNG, 2+c.RNG.Intn(3)))
				feats = append(feats, map[string]bool{"scope-program": true})
				continue
			}
			p, f := GenProgram(c.RNG, 2+c.RNG.Intn(3))
			progs = append(progs, p)
			feats = append(feats, f)
		}
		if err := c.goDiff("go-toolchain", progs, feats); err != nil {
			return err
		}
	}
	return nil
}
