package main

// C07 — statements are stack-neutral and frames are isolated on every path.
//
// cut point compile: the instruction list the REAL compiler emits (VerifCompile, optimizer on
//                    and off) is handed to the verified checker Goat.Check inside goatmodel;
//                    a rejection is a violation (translation validation, all paths)          [proof-carrying check]
// cut point effect:  the checker's effect table vs the real VM: single instructions executed by
//                    VerifRun, operand-stack delta compared                                  [correspondence]
// oracle:            Eval of statement-only programs returns no residual values              [search]

import (
	"encoding/json"
	"fmt"
	"os"
	"path/filepath"
	"strings"

	goat "github.com/philhassey/goatlang"
)

func init() { checks["C07"] = runC07 }

func compileLine(src string, optimize bool, mode string) (string, string) {
	var res string
	line := func() (l string) {
		defer func() {
			if r := recover(); r != nil {
				res = fmt.Sprintf("ESCAPED %v", r)
			}
		}()
		vm := goat.New()
		ins, slots, err := vm.VerifCompile(src, optimize)
		if err != nil {
			res = "compile-error"
			return ""
		}
		var w []string
		for _, i := range ins {
			w = append(w, encInstr(i))
		}
		return strings.TrimRight(fmt.Sprintf("verify %s %d %s", mode, slots, strings.Join(w, " ")), " ")
	}()
	return line, res
}

func (c *Ctx) c07Effect() error {
	// operands for every opcode whose effect can be observed in isolation
	vm := goat.New()
	vm.Set("ga", goat.Int(5))
	g := vm.VerifGlobalIndex("ga")
	sl := func() goat.Value {
		return goat.NewSlice(goat.TypeInt32, []goat.Value{goat.Int(1), goat.Int(2), goat.Int(3)})
	}
	mp := func() goat.Value {
		return goat.NewMap(goat.TypeInt32, goat.TypeInt32, []goat.Value{goat.Int(1), goat.Int(11)})
	}
	i := goat.Int
	type tc struct {
		ins   goat.VerifInstr
		stack []goat.Value
	}
	cases := []tc{
		{goat.VerifInstr{Code: "PASS"}, nil}, {goat.VerifInstr{Code: "PUSH", A: 7}, nil}, {goat.VerifInstr{Code: "GLOBALREF", A: 7}, nil},
		{goat.VerifInstr{Code: "CONST", A: g}, nil}, {goat.VerifInstr{Code: "GLOBALGET", A: g}, nil}, {goat.VerifInstr{Code: "ZERO", A: 23}, nil},
		{goat.VerifInstr{Code: "POP"}, []goat.Value{i(1)}}, {goat.VerifInstr{Code: "GLOBALSET", A: g}, []goat.Value{i(1)}},
		{goat.VerifInstr{Code: "LOCALGET", A: 0}, nil}, {goat.VerifInstr{Code: "LOCALSET", A: 0}, []goat.Value{i(4)}},
		{goat.VerifInstr{Code: "LOCALZERO", A: 0, B: 23}, nil}, {goat.VerifInstr{Code: "LOCALINCDEC", A: 0, B: 1}, nil},
		{goat.VerifInstr{Code: "LOCALADD", A: 0, B: 1}, nil}, {goat.VerifInstr{Code: "LOCALSUB", A: 0, B: 1}, nil},
		{goat.VerifInstr{Code: "LOCALMUL", A: 0, B: 1}, nil}, {goat.VerifInstr{Code: "LOCALDIV", A: 0, B: 1}, nil},
		{goat.VerifInstr{Code: "INCDEC", A: 1}, []goat.Value{i(4)}}, {goat.VerifInstr{Code: "NEGATE"}, []goat.Value{i(4)}},
		{goat.VerifInstr{Code: "BITCOMPLEMENT"}, []goat.Value{i(4)}}, {goat.VerifInstr{Code: "NOT"}, []goat.Value{goat.Bool(true)}},
		{goat.VerifInstr{Code: "CONVERT", A: 3}, []goat.Value{i(4)}}, {goat.VerifInstr{Code: "CAST", A: 3}, []goat.Value{i(4)}},
		{goat.VerifInstr{Code: "LEN"}, []goat.Value{sl()}}, {goat.VerifInstr{Code: "MAKE", A: 23}, []goat.Value{i(2)}},
		{goat.VerifInstr{Code: "GET"}, []goat.Value{sl(), i(1)}}, {goat.VerifInstr{Code: "GETOK"}, []goat.Value{mp(), i(1)}},
		{goat.VerifInstr{Code: "SET"}, []goat.Value{i(9), sl(), i(1)}}, {goat.VerifInstr{Code: "DELETE"}, []goat.Value{mp(), i(1)}},
		{goat.VerifInstr{Code: "SLICE"}, []goat.Value{sl(), i(0), i(2)}}, {goat.VerifInstr{Code: "COPY"}, []goat.Value{sl(), sl()}}, {goat.VerifInstr{Code: "COPY", C: 1}, []goat.Value{sl(), sl()}}, {goat.VerifInstr{Code: "COPY", C: -1}, []goat.Value{sl(), sl()}}, // (C = -1: the operand of a return)
		{goat.VerifInstr{Code: "APPEND", A: 3}, []goat.Value{sl(), i(4), i(5)}}, {goat.VerifInstr{Code: "NEWSLICE", A: 23, B: 2}, []goat.Value{i(4), i(5)}},
		{goat.VerifInstr{Code: "NEWMAP", A: 23, B: 23, C: 2}, []goat.Value{i(4), i(5)}},
		{goat.VerifInstr{Code: "FASTGETINT", A: 2, B: 1}, nil}, {goat.VerifInstr{Code: "FASTSETINT", A: 2, B: 1}, []goat.Value{i(4)}},
		{goat.VerifInstr{Code: "JUMP", A: 0}, nil}, {goat.VerifInstr{Code: "JUMPFALSE", A: 0}, []goat.Value{goat.Bool(true)}},
		{goat.VerifInstr{Code: "JUMPTRUE", A: 0}, []goat.Value{goat.Bool(false)}},
		{goat.VerifInstr{Code: "AND", A: 0}, []goat.Value{goat.Bool(true)}}, {goat.VerifInstr{Code: "OR", A: 0}, []goat.Value{goat.Bool(false)}},
		{goat.VerifInstr{Code: "RANGE", A: 0, B: 0}, []goat.Value{sl()}},
	}
	for _, op := range []string{"ADD", "SUB", "MUL", "DIV", "MOD", "LT", "GT", "LTE", "GTE", "EQ", "NEQ", "BITAND", "BITOR", "BITXOR", "BITLSH", "BITRSH"} {
		cases = append(cases, tc{goat.VerifInstr{Code: op}, []goat.Value{i(12), i(3)}})
	}
	var lines, impl []string
	for _, t := range cases {
		extra := []goat.Value{i(100), i(200)} // operands below the ones the instruction uses
		stack := append(append([]goat.Value{}, extra...), t.stack...)
		locals := []goat.Value{i(6), i(3), sl()}
		t.ins.Line = 1
		_, out, err := func() (l, s []goat.Value, e error) {
			defer func() {
				if r := recover(); r != nil {
					e = fmt.Errorf("ESCAPED %v", r)
				}
			}()
			return vm.VerifRun([]goat.VerifInstr{t.ins}, 3, locals, stack)
		}()
		if err != nil {
			c.Rep.Notes = append(c.Rep.Notes, "effect case failed to run: "+t.ins.Code+": "+err.Error())
			continue
		}
		pops := len(t.stack)
		pushes := len(out) - len(extra)
		// untouched operands below must still be there
		if len(out) < 2 || out[0].String() != "100" || out[1].String() != "200" {
			c.Rep.Violate(Violation{Kind: "correspondence", Cut: "effect", Input: t.ins.Code, Impl: "operands below the instruction's own were disturbed", Model: ""})
		}
		lines = append(lines, "effect "+encInstr(t.ins))
		impl = append(impl, fmt.Sprintf("%d %d", pops, pushes))
	}
	if c.Model != nil {
		ans, err := c.Model.AskAll(lines)
		if err != nil {
			return err
		}
		for k, a := range ans {
			c.Rep.Corr["effect"]++
			if a != impl[k] {
				c.Rep.Violate(Violation{Kind: "correspondence", Cut: "effect", Input: lines[k], Impl: impl[k], Model: a, Note: "pops pushes"})
			}
		}
	}
	return nil
}

// c07Fallthrough: the statement fallthrough is not supported. It must be refused when the program is compiled, or do what
// Go does - not compile to a read of a variable that leaves a value on the operand stack and displaces the function's
// result (fix: "fallthrough is a compile error")
func (c *Ctx) c07Fallthrough() {
	for _, q := range []struct{ src, want string }{
		{"func f(x int) int {\n\tswitch x {\n\tcase 1:\n\t\tfallthrough\n\tcase 2:\n\t\treturn 2\n\t}\n\treturn 7\n}\nprintln(f(1), f(2), f(3))\n", "2 2 7\n"},
		{"func g(x int) string {\n\ts := \"\"\n\tswitch {\n\tcase x > 0:\n\t\ts += \"a\"\n\t\tfallthrough\n\tcase x > 5:\n\t\ts += \"b\"\n\tdefault:\n\t\ts += \"c\"\n\t}\n\treturn s\n}\nprintln(g(1), g(9), g(-1))\n", "ab ab c\n"},
		{"x := 1\nswitch x {\ncase 1:\n\tprintln(\"one\")\n\tfallthrough\ncase 2:\n\tprintln(\"two\")\n}\n", "one\ntwo\n"},
	} {
		out, err := runScript(q.src)
		c.Rep.Oracle["fallthrough"]++
		if err != nil && strings.Contains(err.Error(), "error in compile") {
			continue // refused
		}
		if err != nil || out != q.want {
			c.Rep.Violate(Violation{Kind: "oracle", Cut: "fallthrough", Input: q.src, Impl: fmt.Sprint(out, " err=", err), Oracle: "a compile error, or Go's output " + q.want})
		}
	}
}

func runC07(c *Ctx) error {
	// handwritten programs (shapes that once slipped through), run by the Go toolchain
	if err := c.runCorpus("C07-programs"); err != nil {
		return err
	}
	c.c07Fallthrough()
	c.Rep.Rule = "every distinct string literal of /repo/*_test.go that compiles (lenient mode: REPL-style inputs may leave values), a regression corpus and generated programs (strict mode: Go statements only), each compiled by the real compiler with the optimizer on and off and verified by the Lean checker; effect: one instruction per opcode on the real VM; distinct = distinct (source, mode); non-trivial = the code contains a jump or a call"
	repo := os.Getenv("VERIF_REPO")
	if repo == "" {
		repo = "/repo"
	}
	if err := c.c07Effect(); err != nil {
		return err
	}
	type job struct {
		src, mode string
	}
	var jobs []job
	wantVals := []string{"6", "405", "12", "3", "3", "4", "103", "50", "5.5", "248", "112", "207", "6", "29", "630"} // the value of each corpus program's last variable
	corpus := []string{
		"func ok(a int) bool { return a > 0 }; func f(a int) int { x := 5; switch { case ok(a): x = 6 }; return x }; y := f(1)",
		"var n = 0; func inc() int { n++; return n }; func f() int { i := 0; for inc(); i < 4; inc() { i++ }; return i*100 + n }; x := f()",
		"func f(x int) int { switch x { case 1, 2: return 12; case 3: return 3 }; return 0 }; a := f(1)",
		"func g() (int, int) { return 1, 2 }; func f() int { a, _ := g(); _, b := g(); g(); return a + b }; x := f()",
		"func f() int { r := 0; for i := 0; i < 3; i++ { switch i { case 7: r += 100; default: break }; r += 1 }; return r }; x := f()",
		"func f() int { a := []int{1, 2, 3}; e := make([]int, 2); n := copy(e, a); copy(e, a[1:]); if copy(e, a) > 1 { n++ }; return n + e[0] }; x := f()",
		"func count(rows [][]int) int { n := 0; for _, r := range rows { for _, x := range r { n += x } }; return n }; func outer() int { a, b, c, d := 10, 20, 30, 40; n := count([][]int{{1, 2}, nil}); return a + b + c + d + n }; x := outer()",
		"func clamp(x int) int { if x > 10 { }; return x }; func f() int { t := 0; for i := 8; i < 13; i++ { if i%2 == 0 { } else { }; t += clamp(i) }; return t }; x := f()",
		"const K = 3; func f(_ int, _ int, c ...float64) float64 { const k = K + 1; var b byte = 255; b += k; return c[0]/2 + float64(b) }; x := f(1, 2, 5)",
		"type T struct { A int }; func (t *T) M(xs ...byte) byte { return xs[0] + 200 }; func f() int { t := &T{}; var a, b int = 1, 2; var p, q = t.M(100), t.M(1, 2); return a + b + int(p) + int(q) }; x := f()",
		"func s(xs ...int) int { n := 0; for _, x := range xs { n += x }; return n }; func f(k int, xs ...int) int { a := 10; b := a + k; _ = b; return s(xs...) }; type T struct { A int }; func (t *T) M(xs ...int) int { return s(xs...) + t.A }; func g() int { t := &T{A: 100}; ys := []int{1, 2, 3}; return f(1, ys...) + t.M(ys...) + f(2) }; x := g()",
		"const ( _ = iota; KB; MB ); func size(n int) int { const ( _ = iota + 5; a; _; b ); const _ = 7; return n*MB + b - a }; func pick() int { const _ = 9; return 5 }; func caller() int { a := 100; return a*2 + pick() + size(0) }; x := caller()",
		"func f() int { m := map[string]int{\"a\": 3}; v, _ := m[\"a\"]; _, ok := m[\"b\"]; w, ok2 := m[\"a\"]; var u, _ = m[\"zz\"]; if ok || !ok2 { return 0 }; return v + w + u }; x := f()",
		"func f() int { a := 1; s := []int{3: 7}; t := []int{0: 7, 1: 8}; u := [][]int{1: {2: 5}}; b := 2; return a + b + s[3] + len(s) + t[1] + len(t) + u[1][2] }; x := f()",
		// frames entered one after the other at the same stack height: the second one's locals start as its own
		"func a() float64 { x := 1.5; var b byte = 9; c := x * 2; return c + float64(b) }; func b() int { h := 7; w := 300; k := h / 2; return k + w }; func f() int { p := a(); q := b(); r := a(); return q + b() + int(p+r) }; x := f()",
	}
	// callees with 0..6 leading locals that range over a nil slice / nil map after a non-nil one, called from a
	// frame with eight live locals: the loop's hidden slots must stay inside the callee's frame
	for kc := 0; kc <= 6; kc++ {
		for _, nilv := range []string{"nil", "map"} {
			var pre, sum []string
			for j := 0; j < kc; j++ {
				pre = append(pre, fmt.Sprintf("p%d := 1", j))
				sum = append(sum, fmt.Sprintf(" + p%d", j))
			}
			body := "for i := 0; i < len(lists); i++ { for _, v := range lists[i] { n += v } }"
			arg, typ := "[][]int{{1, 2}, nil}", "[][]int"
			if nilv == "map" {
				arg, typ = "[]map[string]int{{\"a\": 1, \"b\": 2}, nil}", "[]map[string]int"
			}
			src := fmt.Sprintf("func count(lists %s) int { %s; n := 0; %s; return n%s }; func outer() int { a0, a1, a2, a3, a4, a5, a6, a7 := 10, 20, 30, 40, 50, 60, 70, 80; s := count(%s); return a0 + a1 + a2 + a3 + a4 + a5 + a6 + a7 + s }; r := outer()",
				typ, strings.Join(append([]string{"_ = 0"}, pre...), "; "), body, strings.Join(sum, ""), arg)
			corpus = append(corpus, src)
			wantVals = append(wantVals, fmt.Sprint(363+kc))
		}
	}
	for _, s := range corpus {
		jobs = append(jobs, job{s, "strict"})
	}
	{ // more local slots than a packed operand can name: if this compiles at all, the checker sees every slot operand
		var sb strings.Builder
		sb.WriteString("func big(xs []int) int {\n")
		for i := 0; i < 32770; i++ {
			fmt.Fprintf(&sb, "\tv%d := 1\n\t_ = v%d\n", i, i)
		}
		sb.WriteString("\ts := 0\n\tfor k, x := range xs {\n\t\ts += k + x\n\t}\n\treturn s\n}\ny := big([]int{10, 20, 30})\n")
		jobs = append(jobs, job{sb.String(), "strict"})
	}
	for _, s := range harvestTestStrings(repo) {
		jobs = append(jobs, job{s, "lenient"})
	}
	n := 300
	if c.Thorough() {
		n = 8000
	}
	for i := 0; i < n; i++ {
		if i%4 == 0 {
			jobs = append(jobs, job{c08Program(c.RNG, 2+c.RNG.Intn(3)).Src + "\nmain()\n", "strict"})
		} else {
			p, _ := GenProgram(c.RNG, 2+c.RNG.Intn(3))
			jobs = append(jobs, job{p.Src + "\nmain()\n", "strict"})
		}
	}
	var lines []string
	var srcs []string
	for _, j := range jobs {
		for _, opt := range []bool{false, true} {
			l, res := compileLine(j.src, opt, j.mode)
			if res != "" {
				if strings.HasPrefix(res, "ESCAPED") {
					c.Rep.Violate(Violation{Kind: "crash", Cut: "compile", Input: j.src, Impl: res})
				}
				c.Rep.Count("not-compiled")
				continue
			}
			lines = append(lines, l)
			srcs = append(srcs, fmt.Sprintf("optimize=%v %s: %s", opt, j.mode, j.src))
			c.Rep.Seen(srcs[len(srcs)-1], strings.Contains(l, "JUMP") || strings.Contains(l, "CALL"))
			c.Rep.Count("verified-" + j.mode)
		}
	}
	c.Rep.Sample(map[string]string{"source": srcs[0], "line": lines[0]})
	if c.Model == nil {
		// without the model (it does not build: a broken tie) the search still runs the corpus
		c.c07RunCorpus(corpus, wantVals)
		return fmt.Errorf("C07 needs the model (the verified checker runs inside goatmodel)")
	}
	nongo := map[string]bool{}
	if b, err := os.ReadFile(filepath.Join(c.Corpus, "C07-nongo-inputs.json")); err == nil {
		var doc struct {
			Inputs []string `json:"inputs"`
		}
		if json.Unmarshal(b, &doc) == nil {
			for _, s := range doc.Inputs {
				nongo[s] = true
			}
		}
	}
	ans, err := c.Model.AskAll(lines)
	if err != nil {
		return err
	}
	for k, a := range ans {
		c.Rep.Corr["compile->verify"]++
		if a != "ok" {
			if _, known := c.Findings[srcs[k]]; known {
				continue
			}
			if strings.Contains(srcs[k], " lenient: ") {
				// REPL-style strings from the test tables are not all valid Go (break outside a loop,
				// values left inside a loop body); a rejection counts only if the program runs cleanly
				src := srcs[k][strings.Index(srcs[k], " lenient: ")+len(" lenient: "):]
				if nongo[src] {
					c.Rep.Count("lenient-reject-of-listed-non-go-input")
					continue
				}
				if r := evalMode(src, strings.HasPrefix(srcs[k], "optimize=true")); !strings.Contains(r, "=> OK") {
					c.Rep.Count("lenient-reject-of-failing-input")
					continue
				}
			}
			c.Rep.Violate(Violation{Kind: "correspondence", Cut: "compile->verify", Input: srcs[k], Impl: lines[k], Model: a, Note: "the verified checker rejects the code the compiler emitted"})
		}
	}
	c.c07RunCorpus(corpus, wantVals)
	return nil
}

// c07ManyLocals: a function with more local slots than an instruction's packed operand can name (a range loop packs
// its key and value slots into 16 bits each): the program is rejected or runs right - it never writes outside its frame
func (c *Ctx) c07ManyLocals() {
	// the slots of a range loop (iterator, key, value) are packed into 16-bit halves: every function size around the
	// limit, called from a frame of the same size (a write below its own frame lands in the caller's locals)
	ns := []int{32700, 40000}
	for n := 32756; n <= 32772; n++ {
		ns = append(ns, n)
	}
	for _, n := range ns {
		var sb strings.Builder
		sb.WriteString("func big(depth int, xs []int) int {\n\tkeep := 1001\n")
		for i := 0; i < n; i++ {
			fmt.Fprintf(&sb, "\tv%d := 1\n\t_ = v%d\n", i, i)
		}
		sb.WriteString("\tif depth > 0 {\n\t\treturn big(depth-1, xs) + keep\n\t}\n\ts := 0\n\tfor k, x := range xs {\n\t\ts += k + x\n\t}\n\treturn s\n}\nfunc outer() int {\n\ta, b, c, d := 1, 2, 3, 4\n\tr := big(1, []int{5, 6, 7})\n\treturn r*1000 + a + b + c + d\n}\ny := outer()\n")
		for _, opt := range []bool{false, true} {
			vm := goat.New()
			_, err := vm.VerifEval(sb.String(), opt)
			c.Rep.Oracle["many-locals"]++
			if err != nil && strings.Contains(err.Error(), "error in compile") {
				c.Rep.Count("many-locals-rejected")
				continue
			}
			got := "error: " + fmt.Sprint(err)
			if err == nil {
				got = vm.Get("main.y").String()
			}
			if got != "1022010" {
				c.Rep.Violate(Violation{Kind: "oracle", Cut: "many-locals", Input: fmt.Sprintf("a function with %d locals and a range loop, called by itself once and from a frame with four locals (optimize=%v)", n+3, opt), Impl: "y = " + got, Oracle: "1022010, or refused by the compiler"})
			}
		}
	}
}

func (c *Ctx) c07RunCorpus(corpus, wantVals []string) {
	c.c07ManyLocals()
	// statement-only programs leave no residual values, and compute what Go computes (the value of their last
	// top-level variable, worked out by hand: these programs exercise frames above a caller's locals)
	for i, s := range corpus {
		func() {
			defer func() { recover() }()
			for _, opt := range []bool{true, false} {
				vm := goat.New()
				rets, err := vm.VerifEval(s, opt)
				c.Rep.Oracle["eval-residue"]++
				if err == nil && len(rets) != 0 {
					c.Rep.Violate(Violation{Kind: "oracle", Cut: "eval-residue", Input: s, Impl: fmt.Sprint(rets), Oracle: "no values"})
				}
				name := strings.TrimSpace(s[strings.LastIndex(s, ";")+1:])
				name = "main." + strings.TrimSpace(strings.SplitN(name, ":=", 2)[0])
				c.Rep.Oracle["corpus-value"]++
				got := "error: " + fmt.Sprint(err)
				if err == nil {
					got = vm.Get(name).String()
				}
				if i < len(wantVals) && got != wantVals[i] {
					c.Rep.Violate(Violation{Kind: "oracle", Cut: "corpus-value", Input: fmt.Sprintf("optimize=%v %s", opt, s), Impl: name + " = " + got, Oracle: wantVals[i]})
				}
			}
		}()
	}
}
