package main

// C08 — names resolve by Go's lexical block scoping.
//
// cut point scope: the compiler's scope operations (Begin/Shadow/Index/End/Exists on the real
//                  lookup, through VerifScopes) == Lean model Goat.Scope, incl. the whole
//                  key->slot table after every operation                                [correspondence]
// oracle:          an environment of nested frames (native), and the Go toolchain on generated
//                  programs that redeclare x/y/z/g at every kind of block boundary          [search]

import (
	"fmt"
	"sort"
	"strings"

	goat "github.com/philhassey/goatlang"
)

func init() { checks["C08"] = runC08 }

type frameEnv struct {
	frames []map[string]int
	next   int
}

func (e *frameEnv) resolve(x string) (int, bool) {
	for i := len(e.frames) - 1; i >= 0; i-- {
		if n, ok := e.frames[i][x]; ok {
			return n, true
		}
	}
	return 0, false
}

func (c *Ctx) c08History(nops int) (lines, impl []string, oracleErr string) {
	r := c.RNG
	names := []string{"x", "y", "z", "i", "v"}[:2+r.Intn(4)]
	s := goat.VerifNewScopes()
	env := &frameEnv{}
	lines = append(lines, "scope new")
	impl = append(impl, "ok")
	table := func() {
		lines = append(lines, "scope table")
		impl = append(impl, strings.TrimRight(fmt.Sprintf("len=%d depth=%d %s", s.Len(), s.Depth(), strings.Join(s.Table(), " ")), " "))
		// oracle: the visible binding of every name is the innermost frame's
		tb := map[string]int{}
		for _, kv := range s.Table() {
			var k string
			var n int
			i := strings.LastIndex(kv, "=")
			k = kv[:i]
			fmt.Sscan(kv[i+1:], &n)
			tb[k] = n
		}
		for _, x := range names {
			want, ok := env.resolve(x)
			got, gok := tb[x]
			if ok != gok || (ok && want != got) {
				if oracleErr == "" {
					oracleErr = fmt.Sprintf("name %s resolves to (%d,%v), environment says (%d,%v)", x, got, gok, want, ok)
				}
			}
		}
		// no ~ entry without a live shadowing declaration: the number of entries for x equals the
		// number of frames that bind x
		for _, x := range names {
			cnt := 0
			for k := range tb {
				if strings.TrimLeft(k, "~") == x {
					cnt++
				}
			}
			fr := 0
			for _, f := range env.frames {
				if _, ok := f[x]; ok {
					fr++
				}
			}
			if cnt != fr && oracleErr == "" {
				oracleErr = fmt.Sprintf("name %s has %d table entries but %d live bindings", x, cnt, fr)
			}
		}
		// distinct visible bindings never share a slot
		seen := map[int]string{}
		for k, n := range tb {
			if o, dup := seen[n]; dup && oracleErr == "" {
				oracleErr = fmt.Sprintf("slot %d shared by %s and %s", n, o, k)
			}
			seen[n] = k
		}
	}
	begin := func() {
		s.Begin()
		env.frames = append(env.frames, map[string]int{})
		lines = append(lines, "scope begin")
		impl = append(impl, "ok")
	}
	begin() // function body
	for i := 0; i < nops; i++ {
		x := Pick(r, names)
		switch op := r.Intn(100); {
		case op < 22 && len(env.frames) < 9:
			begin()
			c.Rep.Count("op-begin")
		case op < 40 && len(env.frames) > 1:
			s.End()
			env.frames = env.frames[:len(env.frames)-1]
			lines = append(lines, "scope end")
			impl = append(impl, "ok")
			c.Rep.Count("op-end")
		case op < 75:
			n := s.Shadow(x)
			top := env.frames[len(env.frames)-1]
			if _, ok := top[x]; !ok {
				top[x] = env.next
				env.next++
			}
			if top[x] != n && oracleErr == "" {
				oracleErr = fmt.Sprintf("declare %s gave slot %d, environment %d", x, n, top[x])
			}
			lines = append(lines, "scope declare "+x)
			impl = append(impl, fmt.Sprint(n))
			c.Rep.Count("op-declare")
		case op < 85:
			// Locals.Index: reuse a visible binding, else allocate in the current frame
			n := s.Index(x)
			if m, ok := env.resolve(x); ok {
				if m != n && oracleErr == "" {
					oracleErr = fmt.Sprintf("index %s gave slot %d, visible binding %d", x, n, m)
				}
			} else {
				env.frames[len(env.frames)-1][x] = env.next
				env.next++
			}
			lines = append(lines, "scope index "+x)
			impl = append(impl, fmt.Sprint(n))
			c.Rep.Count("op-index")
		default:
			_, ok := env.resolve(x)
			if s.Exists(x) != ok && oracleErr == "" {
				oracleErr = fmt.Sprintf("exists %s = %v, environment %v", x, s.Exists(x), ok)
			}
			lines = append(lines, "scope exists "+x)
			impl = append(impl, fmt.Sprint(s.Exists(x)))
		}
		table()
	}
	for len(env.frames) > 1 {
		s.End()
		env.frames = env.frames[:len(env.frames)-1]
		lines = append(lines, "scope end")
		impl = append(impl, "ok")
		table()
	}
	return
}

// ---------------------------------------------------------------- programs for the Go toolchain

type progGen struct {
	lit    int
	r      *RNG
	sb     strings.Builder
	scopes [][]string
	label  int
	budget int
	noCall bool
}

func (g *progGen) visible() []string {
	seen := map[string]bool{"g": true}
	for _, s := range g.scopes {
		for _, n := range s {
			seen[n] = true
		}
	}
	var out []string
	for n := range seen {
		out = append(out, n)
	}
	sort.Strings(out)
	return out
}

func (g *progGen) inTop(n string) bool {
	for _, x := range g.scopes[len(g.scopes)-1] {
		if x == n {
			return true
		}
	}
	return false
}

func (g *progGen) expr() string {
	vs := g.visible()
	a := Pick(g.r, vs)
	switch g.r.Intn(5) {
	case 0:
		return fmt.Sprint(g.r.Intn(20))
	case 1:
		return a + " + " + fmt.Sprint(1+g.r.Intn(9))
	case 2:
		return a + "*2 + " + Pick(g.r, vs)
	case 3:
		return Pick(g.r, vs) + " - " + a
	}
	return a
}

func (g *progGen) cond() string {
	a := Pick(g.r, g.visible())
	switch g.r.Intn(4) {
	case 0:
		return a + " > " + fmt.Sprint(g.r.Intn(15))
	case 1:
		return a + "%2 == 0"
	case 2:
		return a + " != " + Pick(g.r, g.visible())
	}
	return "true"
}

func (g *progGen) print() {
	g.label++
	fmt.Fprintf(&g.sb, "println(\"L%d\", %s)\n", g.label, strings.Join(g.visible(), ", "))
}

func (g *progGen) block(depth int) {
	n := 1 + g.r.Intn(4)
	for i := 0; i < n && g.budget > 0; i++ {
		g.budget--
		g.stmt(depth)
	}
	g.print()
}

func (g *progGen) declare(name string) {
	top := len(g.scopes) - 1
	g.scopes[top] = append(g.scopes[top], name)
}

func (g *progGen) stmt(depth int) {
	names := []string{"x", "y", "z"}
	name := Pick(g.r, names)
	k := g.r.Intn(100)
	if depth <= 0 && k >= 45 {
		k = g.r.Intn(45)
	}
	switch {
	case k < 15:
		e := g.expr()
		if g.inTop(name) {
			fmt.Fprintf(&g.sb, "%s = %s\n", name, e)
		} else if g.r.Bool() {
			fmt.Fprintf(&g.sb, "%s := %s\n_ = %s\n", name, e, name)
			g.declare(name)
		} else if g.r.Bool() {
			fmt.Fprintf(&g.sb, "var %s int = %s\n_ = %s\n", name, e, name)
			g.declare(name)
		} else {
			fmt.Fprintf(&g.sb, "var %s int\n%s++\n", name, name)
			g.declare(name)
		}
	case k < 30:
		v := Pick(g.r, g.visible())
		switch g.r.Intn(5) {
		case 3, 4: // a tuple assignment: every target resolves on its own (locals, parameters and the global g in one list, any order)
			vs := g.visible()
			for i := len(vs) - 1; i > 0; i-- {
				j := g.r.Intn(i + 1)
				vs[i], vs[j] = vs[j], vs[i]
			}
			if len(vs) > 3 {
				vs = vs[:2+g.r.Intn(2)]
			}
			if len(vs) < 2 {
				fmt.Fprintf(&g.sb, "%s = %s\n", v, g.expr())
				break
			}
			var es []string
			for range vs {
				es = append(es, g.expr())
			}
			fmt.Fprintf(&g.sb, "%s = %s\n", strings.Join(vs, ", "), strings.Join(es, ", "))
		case 0:
			fmt.Fprintf(&g.sb, "%s = %s\n", v, g.expr())
		case 1:
			fmt.Fprintf(&g.sb, "%s += %d\n", v, 1+g.r.Intn(5))
		default:
			fmt.Fprintf(&g.sb, "%s++\n", v)
		}
	case k < 34:
		g.print()
	case k < 38: // a function literal (no captures: its parameter and locals are named like outer variables), then the
		// outer names are used again - they must still be the outer bindings
		g.lit++
		p2 := Pick(g.r, names)
		for p2 == name {
			p2 = Pick(g.r, names)
		}
		fmt.Fprintf(&g.sb, "fl%d := func(%s int) int {\n%s := %s + g\n_ = %s\nreturn %s*2 + %d\n}\n", g.lit, name, p2, name, p2, name, g.r.Intn(5))
		v := Pick(g.r, g.visible())
		fmt.Fprintf(&g.sb, "%s = %s + fl%d(%d)\n", v, v, g.lit, g.r.Intn(7))
		g.print()
	case k < 45 && g.noCall:
		g.print()
	case k < 45:
		fmt.Fprintf(&g.sb, "%s = h(%s, %d)\n", Pick(g.r, g.visible()), Pick(g.r, g.visible()), g.r.Intn(9))
	case k < 60: // if / else, optionally with an init statement
		g.scopes = append(g.scopes, nil) // the if statement's own scope
		if g.r.Chance(0.4) {
			fmt.Fprintf(&g.sb, "if %s := %s; %s > %d {\n", name, g.expr(), name, g.r.Intn(12))
			g.declare(name)
		} else {
			fmt.Fprintf(&g.sb, "if %s {\n", g.cond())
		}
		g.scopes = append(g.scopes, nil)
		g.block(depth - 1)
		g.scopes = g.scopes[:len(g.scopes)-1]
		if g.r.Bool() {
			g.sb.WriteString("} else {\n")
			g.scopes = append(g.scopes, nil)
			g.block(depth - 1)
			g.scopes = g.scopes[:len(g.scopes)-1]
		}
		g.sb.WriteString("}\n")
		g.scopes = g.scopes[:len(g.scopes)-1]
	case k < 75: // three-clause for, loop variable may shadow
		g.scopes = append(g.scopes, nil)
		fmt.Fprintf(&g.sb, "for %s := 0; %s < 2 && fuel > 0; %s++ {\nfuel--\n", name, name, name)
		g.declare(name)
		g.scopes = append(g.scopes, nil)
		g.block(depth - 1)
		g.scopes = g.scopes[:len(g.scopes)-1]
		g.sb.WriteString("}\n")
		g.scopes = g.scopes[:len(g.scopes)-1]
	case k < 88: // range
		g.scopes = append(g.scopes, nil)
		k2 := Pick(g.r, names)
		for k2 == name {
			k2 = Pick(g.r, names)
		}
		// the operand is evaluated before the loop's variables exist: it may mention outer bindings of their names
		vs := g.visible()
		fmt.Fprintf(&g.sb, "for %s, %s := range []int{%s + %d, %s + %d} {\n_ = %s\n_ = %s\n", name, k2, Pick(g.r, vs), 10+g.r.Intn(5), Pick(g.r, vs), 20+g.r.Intn(5), name, k2)
		g.declare(name)
		g.declare(k2)
		g.scopes = append(g.scopes, nil)
		g.block(depth - 1)
		g.scopes = g.scopes[:len(g.scopes)-1]
		g.sb.WriteString("}\n")
		g.scopes = g.scopes[:len(g.scopes)-1]
	default: // switch: every clause is a block
		if g.r.Bool() {
			fmt.Fprintf(&g.sb, "switch {\ncase %s:\n", g.cond())
		} else {
			fmt.Fprintf(&g.sb, "switch %s {\ncase %d, %d:\n", Pick(g.r, g.visible()), g.r.Intn(6), 6+g.r.Intn(6))
		}
		g.scopes = append(g.scopes, nil)
		g.block(depth - 1)
		g.scopes = g.scopes[:len(g.scopes)-1]
		if g.r.Bool() {
			g.sb.WriteString("default:\n")
			g.scopes = append(g.scopes, nil)
			g.block(depth - 1)
			g.scopes = g.scopes[:len(g.scopes)-1]
		}
		g.sb.WriteString("}\n")
	}
}

func c08Program(r *RNG, depth int) GoProg {
	g := &progGen{r: r, budget: 40}
	g.sb.WriteString("var g = 100\nvar fuel = 60\n\nfunc h(x int, g int) int {\n")
	g.scopes = [][]string{{"x"}}
	g.noCall = true
	g.stmt(1)
	g.noCall = false
	g.sb.WriteString("return x + g\n}\n\nfunc main() {\n")
	g.scopes = [][]string{nil}
	g.block(depth)
	g.sb.WriteString("}\n")
	return GoProg{Src: g.sb.String()}
}

func (c *Ctx) c08Programs() error {
	n := 120
	if c.Thorough() {
		n = 4000
	}
	for done := 0; done < n; {
		batch := 200
		if n-done < batch {
			batch = n - done
		}
		var progs []GoProg
		for i := 0; i < batch; i++ {
			progs = append(progs, c08Program(c.RNG, 2+c.RNG.Intn(3)))
		}
		res, err := GoBatch(progs)
		if err != nil {
			return err
		}
		for i, p := range progs {
			c.Rep.Oracle["go-toolchain"]++
			if res[i].Status != "ok" {
				c.Rep.Count("go-" + res[i].Status)
				if res[i].Status == "compile-error" {
					c.Rep.Notes = append(c.Rep.Notes, "generator produced invalid Go: "+res[i].Out)
				}
				continue
			}
			st, out := RunGoat(p)
			c.Rep.Seen(p.Src, strings.Count(p.Src, "{") > 4)
			if done+i < 2 {
				c.Rep.Sample(map[string]any{"program": p.Src, "stdout": out})
			}
			if st != "ok" || out != res[i].Out {
				c.Rep.Violate(Violation{Kind: "oracle", Cut: "go-toolchain", Input: p.Src, Impl: st + "\n" + out, Oracle: res[i].Out})
			}
		}
		done += batch
	}
	return nil
}

func runC08(c *Ctx) error {
	c.Rep.Rule = "scope histories: well-bracketed sequences of Begin/End/declare/Index/Exists over 2..5 names to nesting depth 9, the whole key->slot table compared after every operation; programs: generated Go programs redeclaring x/y/z (and a global g, parameters) in function bodies, if/else with and without init statement, three-clause for, range, switch clauses, nested to depth 2..4, compiled by the Go toolchain (GOARCH=386); distinct = distinct history/program; non-trivial = history longer than 10 ops / program with more than 4 blocks"
	n, maxOps := 800, 60
	if c.Thorough() {
		n, maxOps = 40000, 200
	}
	var lines, impl []string
	var starts []int
	for i := 0; i < n; i++ {
		l, im, oerr := c.c08History(5 + c.RNG.Intn(maxOps))
		c.Rep.Oracle["frame-environment"]++
		c.Rep.Seen(strings.Join(l, ";"), len(l) > 20)
		if oerr != "" {
			c.Rep.Violate(Violation{Kind: "oracle", Cut: "frame-environment", Input: l, Impl: oerr, Oracle: "stack of frames"})
		}
		if i < 1 {
			c.Rep.Sample(map[string]any{"history": l, "impl": im})
		}
		starts = append(starts, len(lines))
		lines = append(lines, l...)
		impl = append(impl, im...)
	}
	if c.Model != nil {
		ans, err := c.Model.AskAll(lines)
		if err != nil {
			return err
		}
		hist := 0
		reported := -1
		for i, a := range ans {
			for hist+1 < len(starts) && starts[hist+1] <= i {
				hist++
			}
			c.Rep.Corr["scope"]++
			if a != impl[i] && reported != hist {
				reported = hist
				c.Rep.Violate(Violation{Kind: "correspondence", Cut: "scope", Input: lines[starts[hist] : i+1], Impl: impl[i], Model: a})
			}
		}
	}
	if err := c.c08Resolve(); err != nil {
		return err
	}
	// handwritten programs (shapes that once slipped through), run by the Go toolchain
	if err := c.runCorpus("C08-programs"); err != nil {
		return err
	}
	return c.c08Programs()
}
