package main

// cut point resolve: the instruction the real compiler emits for a plain identifier (LOCALGET / GLOBALGET of which
// key), over histories of compilations against one VM's table of globals == Lean model Goat.Resolve
//                                                                                              [correspondence]

import (
	"fmt"
	"strings"

	goat "github.com/philhassey/goatlang"
)

func (c *Ctx) c08Resolve() error {
	r := c.RNG
	nh := 60
	if c.Thorough() {
		nh = 6000
	}
	pool := []string{"a", "b", "acc", "st", "total", "println", "R", "m"}
	var lines, impl, descr []string
	add := func(line, got, what string) {
		lines, impl, descr = append(lines, line), append(impl, got), append(descr, what)
	}
	for h := 0; h < nh; h++ {
		vm := goat.New()
		add("rs new", "ok", "new VM")
		add("rs key builtin println", "ok", "builtin println")
		if _, _, err := vm.VerifCompile("type R struct {\n\tv int\n}\n", false); err != nil {
			return err
		}
		add("rs key glob R", "ok", "type R")
		var hist []string
		for k := 3 + r.Intn(10); k > 0; k-- {
			// the three sections of one compilation; types and bound names are disjoint (a type and a parameter of one
			// name in one block is a Go compile error) - across compilations of the history they overlap freely
			var tys, locs, uses []string
			form := r.Intn(6)
			for _, n := range pool[:5] {
				switch r.Intn(4) {
				case 0:
					if form != 5 { // code outside every block declares no types here
						tys = append(tys, n)
					}
				case 1:
					if form < 4 { // blocks and top-level code have no parameters
						locs = append(locs, n)
					}
				}
			}
			for u := 1 + r.Intn(4); u > 0; u-- {
				uses = append(uses, Pick(r, pool))
			}
			var body strings.Builder
			for _, t := range tys {
				fmt.Fprintf(&body, "\ttype %s struct {\n\t\tv int\n\t}\n", t)
			}
			body.WriteString("\tzz := 0\n")
			zzLine := strings.Count(body.String(), "\n") // (relative to the body's first line) names the function being compiled
			if form < 4 && r.Intn(3) == 0 { // a function literal inside the body: afterwards the names are the function's again
				body.WriteString("\tlf := func(q int) int {\n\t\treturn q + 1\n\t}\n\t_ = lf\n")
				c.Rep.Count("resolve-after-nested-literal")
			}
			first := 0 // line of the first use, relative to the body's first line
			first = strings.Count(body.String(), "\n")
			for _, u := range uses {
				fmt.Fprintf(&body, "\tzz = %s\n", u)
			}
			var params []string
			for _, l := range locs {
				params = append(params, l+" int")
			}
			var src, kind string
			headLines := 1
			switch form {
			case 0:
				kind = "function"
				src = fmt.Sprintf("func %s(%s) int {\n%s\treturn zz\n}\n", Pick(r, []string{"f", "g", "R"}), strings.Join(params, ", "), body.String())
			case 1:
				kind = "method"
				src = fmt.Sprintf("func (r0 *R) %s(%s) int {\n%s\treturn zz\n}\n", Pick(r, []string{"m", "f"}), strings.Join(params, ", "), body.String())
			case 2:
				kind = "literal"
				src = fmt.Sprintf("%s := func(%s) int {\n%s\treturn zz\n}\n", Pick(r, []string{"lit", "fun"}), strings.Join(params, ", "), body.String())
			case 3:
				kind = "init"
				if len(locs) > 0 {
					kind = "function"
					src = fmt.Sprintf("func h(%s) int {\n%s\treturn zz\n}\n", strings.Join(params, ", "), body.String())
				} else {
					src = fmt.Sprintf("func init() {\n%s}\n", body.String())
				}
			case 4:
				kind = "block"
				src = fmt.Sprintf("if true {\n%s}\n", body.String())
			default:
				kind = "top"
				if len(tys) > 0 {
					kind = "block"
					src = fmt.Sprintf("if true {\n%s}\n", body.String())
				} else {
					var sb strings.Builder
					sb.WriteString("zz := 0\n")
					for _, u := range uses {
						fmt.Fprintf(&sb, "zz = %s\n", u)
					}
					src, first, headLines = sb.String(), 1, 0
				}
			}
			ins, _, err := vm.VerifCompile(src, false)
			hist = append(hist, src)
			what := strings.Join(hist, "// ---- next compilation\n")
			if err != nil {
				c.Rep.Violate(Violation{Kind: "correspondence", Cut: "resolve", Input: what, Impl: "compile error: " + err.Error(), Model: "compiles"})
				break
			}
			var got []string
			fn := ""
			for _, i := range ins { // the function's name as the compiler has it, from the first statement of the body
				if i.Line == headLines+zzLine && i.Func != "" {
					fn = i.Func
					break
				}
			}
			for ui := range uses {
				line := headLines + first + ui + 1
				tok := "?"
				for _, i := range ins {
					if i.Line != line {
						continue
					}
					if i.Code == "LOCALGET" {
						tok = "L"
					} else if i.Code == "GLOBALGET" {
						tok = "G:" + vm.VerifGlobalKey(i.A)
					} else {
						continue
					}
					if fn == "" {
						fn = i.Func
					}
					break
				}
				got = append(got, tok)
			}
			var line string
			switch kind {
			case "top":
				line = "rs top U " + strings.Join(uses, " ")
			case "block":
				line = strings.TrimRight(fmt.Sprintf("rs block T %s L zz U %s", strings.Join(tys, " "), strings.Join(uses, " ")), " ")
			default:
				if fn == "" {
					c.Rep.Violate(Violation{Kind: "correspondence", Cut: "resolve", Input: what, Impl: "no instruction found for the uses", Model: ""})
					continue
				}
				line = fmt.Sprintf("rs compile %s T %s L %s zz U %s", fn, strings.Join(tys, " "), strings.Join(locs, " "), strings.Join(uses, " "))
				line = strings.Join(strings.Fields(line), " ")
			}
			if kind == "top" {
				// outside every block zz is a package-level variable
				add("rs key glob zz", "ok", what)
			}
			// (search, also without the model) what local_wins states: a name bound in this function that this body did not
			// declare as a type is the local, whatever was compiled before
			if kind != "top" {
				for ui, u := range uses {
					bound, typ := u == "zz", false
					for _, l := range locs {
						bound = bound || l == u
					}
					for _, t := range tys {
						typ = typ || t == u
					}
					c.Rep.Oracle["resolve-local-wins"]++
					if bound && !typ && got[ui] != "L" {
						c.Rep.Violate(Violation{Kind: "oracle", Cut: "resolve-local-wins", Input: what, Impl: fmt.Sprintf("use of %s in the last compilation -> %s", u, got[ui]), Oracle: "LOCALGET"})
					}
				}
			}
			add(line, strings.Join(got, " "), what)
			c.Rep.Count("resolve-" + kind)
			c.Rep.Seen(what, len(hist) > 3)
		}
	}
	if c.Model == nil {
		return nil
	}
	ans, err := c.Model.AskAll(lines)
	if err != nil {
		return err
	}
	for i, a := range ans {
		c.Rep.Corr["resolve"]++
		if a != impl[i] {
			c.Rep.Violate(Violation{Kind: "correspondence", Cut: "resolve", Input: map[string]string{"line": lines[i], "compilations": descr[i]}, Impl: impl[i], Model: a})
			break
		}
	}
	return nil
}
