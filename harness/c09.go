package main

// C09 — calls deliver arguments and results in order and with their declared types.
//
// cut point call: the real CALL instruction on script functions (VerifRun with a caller stack
//                 prefix, every argument count, every requested result count) == Lean model
//                 Goat.Call.call                                                    [correspondence]
// oracle:         the Go toolchain (GOARCH=386) on generated programs: signatures of 0..5 parameters
//                 of the scalar types, variadic tails, 0..3 results, all call forms, recursion   [search]

import (
	"fmt"
	"strings"
	"testing/fstest"

	goat "github.com/philhassey/goatlang"
)

func init() { checks["C09"] = runC09 }

func (c *Ctx) c09Corr() error {
	r := c.RNG
	n := 300
	if c.Thorough() {
		n = 100000
	}
	var lines, impl []string
	for it := 0; it < n; it++ {
		nargs := r.Intn(5)
		nrets := r.Intn(4)
		variadic := nargs > 0 && r.Chance(0.3)
		// the function returns constants and simple functions of its parameters
		var ps, rs, rexpr []string
		for i := 0; i < nargs; i++ {
			if variadic && i == nargs-1 {
				ps = append(ps, fmt.Sprintf("p%d ...int", i))
			} else {
				ps = append(ps, fmt.Sprintf("p%d int", i))
			}
		}
		for i := 0; i < nrets; i++ {
			rs = append(rs, "int")
		}
		kinds := make([]int, nrets)
		for i := 0; i < nrets; i++ {
			switch {
			case nargs > 0 && !(variadic && nargs == 1) && r.Bool():
				j := r.Intn(nargs)
				if variadic && j == nargs-1 {
					j = 0
				}
				kinds[i] = j + 1
				rexpr = append(rexpr, fmt.Sprintf("p%d*10 + %d", j, i))
			case variadic:
				kinds[i] = -1
				rexpr = append(rexpr, fmt.Sprintf("len(p%d)*100 + %d", nargs-1, i))
			default:
				kinds[i] = 0
				rexpr = append(rexpr, fmt.Sprint(1000+i))
			}
		}
		locals := r.Intn(3)
		var body strings.Builder
		for l := 0; l < locals; l++ {
			fmt.Fprintf(&body, "l%d := %d\n_ = l%d\n", l, l, l)
		}
		if nrets > 0 {
			fmt.Fprintf(&body, "return %s\n", strings.Join(rexpr, ", "))
		}
		src := fmt.Sprintf("func f(%s) (%s) {\n%s}\n__v := f\n__v\n", strings.Join(ps, ", "), strings.Join(rs, ", "), body.String())
		vm := goat.New()
		vals, err := vm.VerifEval(src, r.Bool())
		if err != nil || len(vals) != 1 {
			c.Rep.Notes = append(c.Rep.Notes, "c09: function did not compile: "+src)
			continue
		}
		fn := vals[0]
		// caller stack prefix, actual argument count (right, too few, too many), requested results
		var prefix []int
		for k := 0; k < r.Intn(4); k++ {
			prefix = append(prefix, 500+r.Intn(100))
		}
		xargs := nargs
		if variadic {
			xargs = nargs - 1 + r.Intn(4)
		}
		if r.Chance(0.2) {
			xargs = r.Intn(6)
		}
		xrets := nrets
		if r.Chance(0.4) {
			xrets = r.Intn(4)
		}
		var argv []int
		for k := 0; k < xargs; k++ {
			argv = append(argv, 1+r.Intn(9))
		}
		var stack []goat.Value
		var sints []string
		for _, v := range prefix {
			stack = append(stack, goat.Int(v))
			sints = append(sints, fmt.Sprint(v))
		}
		for _, v := range argv {
			stack = append(stack, goat.Int(v))
			sints = append(sints, fmt.Sprint(v))
		}
		stack = append(stack, fn)
		// what the body leaves: computed natively (only meaningful when the argument count is accepted)
		var results []string
		nvar := xargs - (nargs - 1)
		for i := 0; i < nrets; i++ {
			switch {
			case kinds[i] > 0:
				j := kinds[i] - 1
				v := 0
				if j < len(argv) {
					v = argv[j]
				}
				results = append(results, fmt.Sprint(v*10+i))
			case kinds[i] == -1:
				results = append(results, fmt.Sprint(nvar*100+i))
			default:
				results = append(results, fmt.Sprint(1000+i))
			}
		}
		slots := nargs + locals
		_, out, rerr := func() (l, s []goat.Value, e error) {
			defer func() {
				if r := recover(); r != nil {
					e = fmt.Errorf("ESCAPED %v", r)
				}
			}()
			return vm.VerifRun([]goat.VerifInstr{{Code: "CALL", A: xargs, B: xrets, Line: 1}}, 0, nil, stack)
		}()
		line := fmt.Sprintf("call args=%d rets=%d variadic=%d slots=%d xargs=%d xrets=%d results=%s stack=%s",
			nargs, nrets, b2i(variadic), slots, xargs, xrets, strings.Join(results, ","), strings.Join(sints, ","))
		var got string
		switch {
		case rerr != nil && strings.Contains(rerr.Error(), "ESCAPED"):
			got = rerr.Error()
		case rerr != nil:
			got = "err"
		default:
			var w []string
			for _, v := range out {
				w = append(w, v.String())
			}
			got = strings.TrimRight("ok "+strings.Join(w, " "), " ")
		}
		lines = append(lines, line)
		impl = append(impl, got)
		c.Rep.Seen(line, len(prefix) > 0 && got != "err")
		if got == "err" {
			c.Rep.Count("call-rejected")
		} else {
			c.Rep.Count("call-ok")
		}
		if it == 0 {
			c.Rep.Sample(map[string]string{"function": src, "line": line, "impl": got})
		}
	}
	if c.Model != nil {
		ans, err := c.Model.AskAll(lines)
		if err != nil {
			return err
		}
		for i, a := range ans {
			c.Rep.Corr["call"]++
			if a != impl[i] {
				c.Rep.Violate(Violation{Kind: "correspondence", Cut: "call", Input: lines[i], Impl: impl[i], Model: a})
			}
		}
	}
	return nil
}

func b2i(b bool) int {
	if b {
		return 1
	}
	return 0
}

// ---------------------------------------------------------------- generated call programs

func c09Program(r *RNG) GoProg {
	var sb strings.Builder
	types := []string{"int", "byte", "float64", "string", "bool"}
	lit := func(t string) string {
		switch t {
		case "int":
			return fmt.Sprint(r.Intn(2000) - 1000)
		case "byte":
			return fmt.Sprint(r.Intn(256))
		case "float64":
			return Pick(r, []string{"1.5", "2", "0.25", "100", "-3.75"})
		case "string":
			return Pick(r, []string{`"a"`, `"xy"`, `""`, `"héllo"`})
		}
		return Pick(r, []string{"true", "false"})
	}
	sb.WriteString("type T struct {\n\tA int\n\tF func(int) int\n}\n\nfunc (t *T) M(k int) int {\n\treturn t.A*100 + k\n}\n\nfunc (t *T) M2(a int, b string) (string, int) {\n\treturn b, t.A + a\n}\n\n")
	sb.WriteString("func sum(base int, xs ...int) int {\n\tfor _, x := range xs {\n\t\tbase += x\n\t}\n\treturn base*10 + len(xs)\n}\n\n")
	sb.WriteString("func sum2(base int, xs ...int) (int, int) {\n\ts := base\n\tfor _, x := range xs {\n\t\ts += x\n\t}\n\treturn s, len(xs)\n}\n\n")
	sb.WriteString("func tail1(xs []int) int {\n\treturn sum(3, xs...)\n}\n\nfunc tail2(xs []int) (int, int) {\n\treturn sum2(4, xs...)\n}\n\nfunc tail0(k int) int {\n\treturn sum(k)\n}\n\n")
	sb.WriteString("func (t *T) MV(xs ...int) int {\n\treturn t.A + len(xs)*10\n}\n\nfunc (t *T) TailM(xs []int) int {\n\treturn t.MV(xs...)\n}\n\n")
	sb.WriteString("func (t *T) MVf(k int, xs ...float64) float64 {\n\tif len(xs) == 0 {\n\t\treturn 0.25\n\t}\n\treturn xs[0]/2 + float64(k)\n}\n\nfunc (t *T) MVb(xs ...byte) byte {\n\treturn xs[len(xs)-1] + 200\n}\n\n")
	sb.WriteString("func blank(_ int, _ string, c int) int {\n\treturn c\n}\n\nfunc blank2(_, _ int) int {\n\treturn 7\n}\n\nfunc (_ *T) MB(_ int, _ int, c ...int) int {\n\treturn len(c)\n}\n\n")
	sb.WriteString("var bumps int\n\nfunc bump() int {\n\tbumps++\n\treturn 100 + bumps\n}\n\nfunc (t *T) Bump() (int, int) {\n\tt.A++\n\treturn 7, 8\n}\n\nfunc nores() {\n\tbumps += 10\n}\n\n")
	sb.WriteString("func loopPost(t *T) (string, int) {\n\tn := 0\n\tfor i := 0; i < 3; bump() {\n\t\ti++\n\t\tn++\n\t}\n\tfor i := 0; i < 2; t.Bump() {\n\t\ti++\n\t}\n\tfor i := 0; i < 2; nores() {\n\t\ti++\n\t}\n\tif bump(); n > 0 {\n\t\tn++\n\t}\n\treturn \"done\", n\n}\n\n")
	// constants and nil converted to the parameter types at every depth of a recursion with locals (the frame is
	// entered at every stack height, also the ones at which the value stack has to grow)
	sb.WriteString("func recf(n int, x float64, s []float64, b byte) float64 {\n\ty := x / 2\n\tt := append(s, 1)\n\tz := t[0] / 2\n\tw := b + 200\n\tif n == 0 {\n\t\treturn y + z + float64(w)\n\t}\n\treturn y + z + float64(w) + recf(n-1, 3, nil, 100)\n}\n\n")
	sb.WriteString("func rec(n int) int {\n\tif n == 0 {\n\t\treturn 0\n\t}\n\treturn 1 + rec(n-1)\n}\n\n")
	sb.WriteString("func apply(f func(int) int, v int) int {\n\treturn f(v) + 1\n}\n\nfunc twice(v int) int {\n\treturn v * 2\n}\n\nfunc pair(a int, b int) (int, int) {\n\treturn b, a\n}\n\nfunc pass(a int, b int) (int, int) {\n\treturn pair(a, b)\n}\n\n")
	// a function literal with another result count than its function, before a tail call: the call asks for the
	// function's own count
	sb.WriteString("func viaLit(v int) (int, int) {\n\tcb := func(k int) {\n\t\tbumps += k\n\t}\n\tcb(1)\n\treturn pair(v, v+1)\n}\n\nfunc viaLit2(v int) int {\n\tsplit := func(k int) (int, int) {\n\t\treturn k, k + 1\n\t}\n\ta, b := split(v)\n\treturn twice(a + b)\n}\n\nfunc (t *T) ViaLit3(v int) (string, int) {\n\treturn t.M2(apply(func(k int) int {\n\t\treturn k + 1\n\t}, v), \"z\")\n}\n\n")
	nf := 2 + r.Intn(3)
	type sig struct {
		ps, rs   []string
		variadic bool // the last parameter is a variadic tail of its type
	}
	sensitive := map[string]string{"int": "x/2", "byte": "x+200", "float64": "x/2", "string": "x+\"!\"", "bool": "!x"}
	var sigs []sig
	for i := 0; i < nf; i++ {
		s := sig{}
		for k := 0; k < r.Intn(6); k++ {
			s.ps = append(s.ps, Pick(r, types))
		}
		for k := 0; k < r.Intn(4); k++ {
			s.rs = append(s.rs, Pick(r, types))
		}
		s.variadic = len(s.ps) > 0 && r.Chance(0.4)
		sigs = append(sigs, s)
		var ps []string
		for k, t := range s.ps {
			if s.variadic && k == len(s.ps)-1 {
				ps = append(ps, fmt.Sprintf("p%d ...%s", k, t))
				continue
			}
			ps = append(ps, fmt.Sprintf("p%d %s", k, t))
		}
		fmt.Fprintf(&sb, "func g%d(%s) (%s) {\n", i, strings.Join(ps, ", "), strings.Join(s.rs, ", "))
		var args []string
		for k := range s.ps {
			if s.variadic && k == len(s.ps)-1 {
				args = append(args, fmt.Sprintf("len(p%d)", k))
				continue
			}
			args = append(args, fmt.Sprintf("p%d", k))
		}
		for k := r.Intn(4); k > 0; k-- { // locals of its own above the parameters
			fmt.Fprintf(&sb, "\tl%d := %d\n\t_ = l%d\n", k, k, k)
		}
		fmt.Fprintf(&sb, "\tprintln(\"g%d\"%s)\n", i, prefixComma(args))
		for k, t := range s.ps { // each parameter used in a way that shows its type
			if !(s.variadic && k == len(s.ps)-1) {
				fmt.Fprintf(&sb, "\tif true {\n\t\tx := p%d\n\t\tprintln(\"p\", %s)\n\t}\n", k, sensitive[t])
			}
		}
		if s.variadic { // each packed element, used in a way that shows its type
			k := len(s.ps) - 1
			fmt.Fprintf(&sb, "\tfor _, x := range p%d {\n\t\tprintln(\"v\", x, %s)\n\t}\n", k, sensitive[s.ps[k]])
		}
		var rets []string
		for _, t := range s.rs {
			// prefer echoing a parameter of that type (conversion of constants at the call site shows up)
			found := ""
			for k, pt := range s.ps {
				if pt == t && r.Bool() && !(s.variadic && k == len(s.ps)-1) {
					found = fmt.Sprintf("p%d", k)
				}
			}
			if found == "" {
				found = lit(t)
			}
			rets = append(rets, found)
		}
		if len(rets) > 0 {
			fmt.Fprintf(&sb, "\treturn %s\n", strings.Join(rets, ", "))
		}
		sb.WriteString("}\n\n")
		if s.variadic && len(s.rs) > 0 { // return g(fixed…, xs...): a tail call whose last argument is a spread slice
			k := len(s.ps) - 1
			var ps2, as2 []string
			for j, t := range s.ps[:k] {
				ps2 = append(ps2, fmt.Sprintf("p%d %s", j, t))
				as2 = append(as2, fmt.Sprintf("p%d", j))
			}
			ps2 = append(ps2, fmt.Sprintf("xs []%s", s.ps[k]))
			as2 = append(as2, "xs...")
			fmt.Fprintf(&sb, "func w%d(%s) (%s) {\n\treturn g%d(%s)\n}\n\n", i, strings.Join(ps2, ", "), strings.Join(s.rs, ", "), i, strings.Join(as2, ", "))
		}
	}
	sb.WriteString("var gta, gtb int = pair(11, 12)\n\nvar gua, _ = pair(13, 14)\n\n")
	sb.WriteString("func main() {\n")
	for i, s := range sigs {
		var args []string
		for k, t := range s.ps {
			if s.variadic && k == len(s.ps)-1 {
				var extra []string
				for e := r.Intn(4); e > 0; e-- {
					extra = append(extra, lit(t))
				}
				if r.Chance(0.3) {
					args = append(args, fmt.Sprintf("[]%s{%s}...", t, strings.Join(extra, ", ")))
				} else {
					args = append(args, extra...)
				}
				continue
			}
			args = append(args, lit(t))
		}
		call := fmt.Sprintf("g%d(%s)", i, strings.Join(args, ", "))
		switch len(s.rs) {
		case 0:
			fmt.Fprintf(&sb, "%s\n", call)
		case 1:
			fmt.Fprintf(&sb, "r%d := %s\nprintln(\"r\", r%d)\n", i, call, i)
			if s.rs[0] == "byte" {
				fmt.Fprintf(&sb, "println(\"wrap\", r%d+200)\n", i)
			}
		default:
			var names []string
			for k := range s.rs {
				if r.Chance(0.2) {
					names = append(names, "_")
				} else {
					names = append(names, fmt.Sprintf("r%d_%d", i, k))
				}
			}
			all := true
			for _, nm := range names {
				if nm != "_" {
					all = false
				}
			}
			if all {
				names[0] = fmt.Sprintf("r%d_0", i)
			}
			same := true
			for _, t := range s.rs {
				if t != s.rs[0] {
					same = false
				}
			}
			switch form := r.Intn(4); {
			case form == 0 && same: // typed declaration of several names from one multi-result call
				fmt.Fprintf(&sb, "var %s %s = %s\n", strings.Join(names, ", "), s.rs[0], call)
			case form == 1:
				fmt.Fprintf(&sb, "var %s = %s\n", strings.Join(names, ", "), call)
			case form == 2: // declared first, then assigned
				for k, nm := range names {
					if nm != "_" {
						fmt.Fprintf(&sb, "var %s %s\n", nm, s.rs[k])
					}
				}
				fmt.Fprintf(&sb, "%s = %s\n", strings.Join(names, ", "), call)
			default:
				fmt.Fprintf(&sb, "%s := %s\n", strings.Join(names, ", "), call)
			}
			var used []string
			for _, nm := range names {
				if nm != "_" {
					used = append(used, nm)
				}
			}
			fmt.Fprintf(&sb, "println(\"m\", %s)\n", strings.Join(used, ", "))
		}
	}
	for i, s := range sigs {
		if !(s.variadic && len(s.rs) > 0) {
			continue
		}
		k := len(s.ps) - 1
		var args []string
		for _, t := range s.ps[:k] {
			args = append(args, lit(t))
		}
		var extra []string
		for e := r.Intn(3); e > 0; e-- {
			extra = append(extra, lit(s.ps[k]))
		}
		args = append(args, fmt.Sprintf("[]%s{%s}", s.ps[k], strings.Join(extra, ", ")))
		var names []string
		for j := range s.rs {
			names = append(names, fmt.Sprintf("w%d_%d", i, j))
		}
		fmt.Fprintf(&sb, "%s := w%d(%s)\nprintln(\"w\", %s)\n", strings.Join(names, ", "), i, strings.Join(args, ", "), strings.Join(names, ", "))
	}
	depth := Pick(r, []int{1, 10, 500, 3000})
	fmt.Fprintf(&sb, "println(\"rec\", rec(%d))\n", depth)
	fmt.Fprintf(&sb, "println(\"recf\", recf(%d, 3, nil, 100), recf(2, 5, nil, 60))\n", Pick(r, []int{0, 3, 40, 700}))
	fmt.Fprintf(&sb, "println(\"sum\", sum(1), sum(1, 2), sum(1, 2, 3, 4))\nxs := []int{5, 6, 7}\nprintln(\"spread\", sum(2, xs...))\n")
	fmt.Fprintf(&sb, "t := &T{A: %d}\nm := t.M\nt = &T{A: 9}\nprintln(\"bound\", m(3), t.M(3))\n", 1+r.Intn(8))
	sb.WriteString("s, n := t.M2(4, \"q\")\nprintln(\"m2\", s, n)\n")
	fmt.Fprintf(&sb, "mvf := t.MVf\nmvb := t.MVb\nprintln(\"mvar\", t.MVf(1, %d), t.MVf(2), mvf(3, 5, 6), t.MVb(%d), mvb(1, %d), t.MVb([]byte{7, 100}...))\n", 1+2*r.Intn(20), 60+r.Intn(150), 60+r.Intn(150))
	fmt.Fprintf(&sb, "println(\"blank\", blank(1, \"x\", %d), blank2(3, 4), t.MB(1, 2), t.MB(1, 2, 3, 4))\n", r.Intn(100))
	sb.WriteString("lp1, lp2 := loopPost(t)\nprintln(\"post\", lp1, lp2, bumps, t.A)\n")
	sb.WriteString("fv := twice\nprintln(\"fv\", fv(21), apply(twice, 5), apply(fv, 6))\n")
	sb.WriteString("t.F = twice\nprintln(\"field\", t.F(8))\n")
	sb.WriteString("a, b := pass(1, 2)\nprintln(\"pass\", a, b)\n")
	sb.WriteString("var ta, tb int = pass(3, 4)\nvar ua, ub = pair(5, 6)\nvar va, _ int = pair(7, 8)\nprintln(\"decl\", ta, tb, ua, ub, va, gta, gtb, gua)\n")
	fmt.Fprintf(&sb, "ys := []int{%d, %d}\nprintln(\"tail\", tail1(ys), tail1(nil), tail0(6))\nq1, q2 := tail2(ys)\nprintln(\"tail2\", q1, q2, t.TailM(ys))\n", r.Intn(50), r.Intn(50))
	sb.WriteString("println(\"nested\", 10+twice(3)*2, sum(twice(1), twice(2)))\n")
	sb.WriteString("vl1, vl2 := viaLit(3)\nvs, vn := t.ViaLit3(5)\nprintln(\"lit\", vl1, vl2, viaLit2(4), vs, vn)\n")
	sb.WriteString("}\n")
	return GoProg{Src: sb.String()}
}

func prefixComma(a []string) string {
	if len(a) == 0 {
		return ""
	}
	return ", " + strings.Join(a, ", ")
}

// c09Redefined: a function declared again on the same VM is called by its NEW signature: fixed parameters become a
// variadic tail and back, the element type of the tail changes (the arguments are packed and converted as the new
// declaration says)
func (c *Ctx) c09Redefined() {
	type step struct{ src, want string }
	for _, hist := range [][]step{
		{{"func f(a int, b int) int { return a*100 + b }; v := f(1, 2); v", "102"},
			{"func f(a int, rest ...int) int {\n\ts := a*100 + len(rest)*10\n\tfor _, x := range rest {\n\t\ts += x\n\t}\n\treturn s\n}\nv := f(1, 2); v", "112"},
			{"v := f(1, 2, 3, 4); v", "139"}, {"v := f(7); v", "700"},
			{"func f(a int, b int) int { return a - b }; v := f(9, 2); v", "7"}, {"v := f(1, 2, 3); v", "ERR"}},
		{{"func half(xs ...int) int { return xs[0] / 2 }; v := half(3); v", "1"}, {"func half(xs ...float64) float64 { return xs[0] / 2 }; v := half(3); v", "1.5"},
			{"func half(xs ...uint8) uint8 { return xs[0] + xs[1] }; v := half(200, 100); v", "44"}, {"func half(x float64) float64 { return x / 4 }; v := half(3); v", "0.75"}},
		// a call that spreads a slice has its argument count checked like every other call
		{{"func sum(xs ...int) int {\n\tn := 0\n\tfor _, x := range xs {\n\t\tn += x\n\t}\n\treturn n\n}\nxs := []int{1, 2}\nv := sum(xs...); v", "3"}, {"v := sum(100, xs...); v", "ERR"}, {"v := sum(xs...) + 1; v", "4"},
			{"func g(a int, ys ...int) int { return a*100 + len(ys) }\nv := g(7, xs...); v", "702"}, {"func h() int {\n\tkeep := 42\n\tg(xs...)\n\treturn keep\n}\nv := h(); v", "ERR"}, {"v := g(1, 2, xs...); v", "ERR"},
			{"type U struct {\n\tn int\n}\nfunc (u *U) add(ys ...int) int { return u.n + len(ys) }\nu := &U{n: 5}\nv := u.add(xs...); v", "7"}, {"v := u.add(7, xs...); v", "ERR"}},
		{{"type T struct {\n\tn int\n}\nfunc (t *T) m(a int) int { return t.n + a }\nt := &T{n: 5}\nv := t.m(1); v", "6"},
			{"func (t *T) m(a int, more ...int) int { return t.n + a + len(more)*10 }\nv := t.m(1, 2, 3); v", "26"}, {"v := t.m(1); v", "6"}},
	} {
		vm := goat.New()
		for i, st := range hist {
			rets, err := vm.Eval(fstest.MapFS{}, "main", st.src)
			got := "ERR"
			if err == nil && len(rets) == 1 {
				got = rets[0].String()
			}
			c.Rep.Oracle["redefined-signature"]++
			if got != st.want {
				var text []string
				for _, h := range hist[:i+1] {
					text = append(text, h.src)
				}
				c.Rep.Violate(Violation{Kind: "oracle", Cut: "redefined-signature", Input: strings.Join(text, "\n// next Eval on the same VM\n"), Impl: fmt.Sprint(got, " ", err), Oracle: st.want})
				break
			}
		}
	}
}

func runC09(c *Ctx) error {
	c.c09Redefined()
	// handwritten programs (shapes that once slipped through), run by the Go toolchain
	if err := c.runCorpus("C09-programs"); err != nil {
		return err
	}
	c.Rep.Rule = "call: script functions with 0..4 int parameters (optionally a variadic tail), 0..3 results and 0..2 extra locals, called by a CALL instruction on the real VM with a caller stack prefix of 0..3 values, the right / a wrong argument count and every requested result count, final stack compared with the model; programs: generated signatures (0..5 parameters and 0..3 results over int, byte, float64, string, bool), all call forms (statement, single value, multi-assign with blanks by := / var / typed var / plain assignment, in functions and at package level, return f(), method value bound before reassignment, multi-result method, function-typed variable / parameter / field, variadic with 0..n extras and spread (functions, methods and method values with int, float64 and byte tails), blank parameters, calls as for-post and if-init statements, nested in expressions) and recursion to depth 3000, against the Go toolchain; distinct = distinct line / program; non-trivial = non-empty caller prefix and accepted call / program"
	if err := c.c09Corr(); err != nil {
		return err
	}
	np := 100
	if c.Thorough() {
		np = 8000
	}
	for done := 0; done < np; done += 200 {
		var progs []GoProg
		for i := 0; i < 200 && done+i < np; i++ {
			progs = append(progs, c09Program(c.RNG))
		}
		if done == 0 {
			c.Rep.Sample(map[string]any{"program": progs[0].Src})
		}
		if err := c.goDiff("go-toolchain-calls", progs, nil); err != nil {
			return err
		}
	}
	// a call with the wrong number of arguments / too many requested results is an error, not a crash
	vm := goat.New()
	if _, err := vm.VerifEval("func two() (int, int) { return 1, 2 }", true); err == nil {
		for _, xr := range []int{0, 1, 2, 3} {
			rets, err := vm.Call("main.two", xr)
			c.Rep.Oracle["host-call-counts"]++
			if xr <= 2 && (err != nil || len(rets) != xr) {
				c.Rep.Violate(Violation{Kind: "oracle", Cut: "host-call-counts", Input: fmt.Sprintf("Call(two, %d)", xr), Impl: fmt.Sprint(rets, err), Oracle: fmt.Sprintf("%d values", xr)})
			}
			if xr == 3 && err == nil {
				c.Rep.Violate(Violation{Kind: "oracle", Cut: "host-call-counts", Input: "Call(two, 3)", Impl: fmt.Sprint(rets), Oracle: "error"})
			}
		}
	}
	return nil
}
