package main

// C10 — script maps behave like Go maps under any history.
//
// cut point omap: Value API on NewMap (Set/Get/Delete/Len/Range) == Lean model Goat.OMap,
//                 including the internal ordered key list after every mutation     [correspondence]
// oracle:         native Go map mirror + the range contract of the Go spec          [search]
//                 (host API histories and generated scripts)

import (
	"bytes"
	"fmt"
	"strconv"
	"strings"
	"testing/fstest"

	goat "github.com/philhassey/goatlang"
)

func init() { checks["C10"] = runC10 }

type keyKind struct {
	name string
	typ  goat.Type
	pool []goat.Value
	word []string // protocol / VerifMapKeys rendering
	lit  []string // script literal
	goT  string
}

func c10Kinds() []keyKind {
	ks := []keyKind{{name: "string", typ: goat.TypeString, goT: "string"}, {name: "int", typ: goat.TypeInt32, goT: "int"},
		{name: "float64", typ: goat.TypeFloat64, goT: "float64"}, {name: "bool", typ: goat.TypeBool, goT: "bool"}}
	for _, s := range []string{"a", "b", "c", "dd", "e", "key6", "g", "h", "i", "j", "k", "l"} {
		ks[0].pool = append(ks[0].pool, goat.String(s))
		ks[0].word = append(ks[0].word, s)
		ks[0].lit = append(ks[0].lit, strconv.Quote(s))
	}
	for _, n := range []int{0, 1, 2, 3, -1, 7, 100, -50, 12345, 8, 9, 10} {
		ks[1].pool = append(ks[1].pool, goat.Int(n))
		ks[1].word = append(ks[1].word, fmt.Sprint(float64(n)))
		ks[1].lit = append(ks[1].lit, fmt.Sprint(n))
	}
	for _, f := range []float64{0, 1, 2.5, -1.5, 1e21, 0.1, 3, 100.25, -7, 1e-5, 42, 6.5} {
		ks[2].pool = append(ks[2].pool, goat.Float64(f))
		ks[2].word = append(ks[2].word, fmt.Sprint(f))
		ks[2].lit = append(ks[2].lit, strconv.FormatFloat(f, 'g', -1, 64))
	}
	ks[3].pool = []goat.Value{goat.Bool(false), goat.Bool(true)}
	ks[3].word = []string{"0", "1"}
	ks[3].lit = []string{"false", "true"}
	return ks
}

type c10Iter struct {
	next       func() (goat.Value, goat.Value, bool)
	visited    map[int]bool
	throughout map[int]bool // snapshot keys never deleted since the snapshot
	done       bool
}

// one host-API history: returns protocol lines and the implementation's answers
func (c *Ctx) c10History(kk keyKind, nops int) (lines, impl []string, oracleErr string) {
	r := c.RNG
	npool := len(kk.pool)
	if npool > 2 {
		npool = 3 + r.Intn(len(kk.pool)-2)
	}
	native := map[int]int{}
	var init []goat.Value
	line := "omap new"
	ninit := r.Intn(npool + 1)
	for i := 0; i < ninit; i++ {
		k := r.Intn(npool)
		v := r.Intn(1000)
		init = append(init, kk.pool[k], goat.Int(v))
		line += " " + kk.word[k] + " " + fmt.Sprint(v)
		native[k] = v
	}
	m := goat.NewMap(kk.typ, goat.TypeInt32, init)
	lines = append(lines, line)
	impl = append(impl, strings.TrimRight("ok "+strings.Join(m.VerifMapKeys(), " "), " "))
	var iters []*c10Iter
	fail := func(f string, a ...any) {
		if oracleErr == "" {
			oracleErr = fmt.Sprintf(f, a...)
		}
	}
	for i := 0; i < nops; i++ {
		k := r.Intn(npool)
		switch op := r.Intn(100); {
		case op < 30:
			v := r.Intn(1000)
			m.Set(kk.pool[k], goat.Int(v))
			native[k] = v
			lines = append(lines, fmt.Sprintf("omap set %s %d", kk.word[k], v))
			impl = append(impl, strings.TrimRight("ok "+strings.Join(m.VerifMapKeys(), " "), " "))
			c.Rep.Count("op-set")
		case op < 55:
			m.Delete(kk.pool[k])
			delete(native, k)
			for _, it := range iters {
				delete(it.throughout, k)
			}
			keys := m.VerifMapKeys()
			lines = append(lines, strings.TrimRight(fmt.Sprintf("omap del %s %s", kk.word[k], strings.Join(keys, " ")), " "))
			impl = append(impl, strings.TrimRight("ok "+strings.Join(keys, " "), " "))
			c.Rep.Count("op-delete")
		case op < 70:
			v, ok := m.Get(kk.pool[k])
			nv, nok := native[k]
			if ok != nok || (ok && v.Int() != nv) || (!ok && v.String() != "0") {
				fail("get %s: impl (%v,%v) go (%v,%v)", kk.word[k], v, ok, nv, nok)
			}
			lines = append(lines, "omap get "+kk.word[k])
			if ok {
				impl = append(impl, "some "+v.String())
			} else {
				impl = append(impl, "none")
			}
			c.Rep.Count("op-get")
		case op < 78:
			if m.Len() != len(native) {
				fail("len: impl %d go %d", m.Len(), len(native))
			}
			lines = append(lines, "omap len")
			impl = append(impl, fmt.Sprint(m.Len()))
			c.Rep.Count("op-len")
		case op < 84 && len(iters) < 4:
			it := &c10Iter{next: m.Range(), visited: map[int]bool{}, throughout: map[int]bool{}}
			for k := range native {
				it.throughout[k] = true
			}
			iters = append(iters, it)
			lines = append(lines, "omap iter")
			impl = append(impl, fmt.Sprintf("ok %d", len(iters)-1))
			c.Rep.Count("op-iter")
		default:
			if len(iters) == 0 {
				continue
			}
			id := r.Intn(len(iters))
			it := iters[id]
			kv, vv, ok := it.next()
			lines = append(lines, fmt.Sprintf("omap next %d", id))
			if !ok {
				impl = append(impl, "done")
				if !it.done {
					for k := range it.throughout {
						if !it.visited[k] {
							fail("range: key %s live for the whole loop was not visited", kk.word[k])
						}
					}
				}
				it.done = true
				c.Rep.Count("op-next-done")
				continue
			}
			word := kv.String()
			idx := -1
			for j := range kk.pool {
				if kk.pool[j].String() == word {
					idx = j
				}
			}
			impl = append(impl, kk.word[idx]+" "+vv.String())
			nv, nok := native[idx]
			if !nok {
				fail("range: visited deleted key %s", word)
			} else if nv != vv.Int() {
				fail("range: key %s value %v, current value %d", word, vv, nv)
			}
			if it.visited[idx] {
				fail("range: key %s visited twice", word)
			}
			if it.done {
				fail("range: visit after exhaustion")
			}
			it.visited[idx] = true
			c.Rep.Count("op-next-visit")
		}
	}
	return
}

func (c *Ctx) c10Corr() error {
	n, maxOps := 1500, 60
	if c.Thorough() {
		n, maxOps = 60000, 250
	}
	kinds := c10Kinds()
	var lines, impl []string
	var starts []int
	flush := func() error {
		if len(lines) == 0 {
			return nil
		}
		if c.Model != nil {
			ans, err := c.Model.AskAll(lines)
			if err != nil {
				return err
			}
			hist := 0
			for i, a := range ans {
				for hist+1 < len(starts) && starts[hist+1] <= i {
					hist++
				}
				c.Rep.Corr["omap"]++
				if a != impl[i] {
					c.Rep.Violate(Violation{Kind: "correspondence", Cut: "omap", Input: lines[starts[hist] : i+1], Impl: impl[i], Model: a})
					break
				}
			}
		}
		lines, impl, starts = lines[:0], impl[:0], starts[:0]
		return nil
	}
	for i := 0; i < n; i++ {
		kk := kinds[c.RNG.Intn(len(kinds))]
		l, im, oerr := c.c10History(kk, 5+c.RNG.Intn(maxOps))
		c.Rep.Oracle["host-api-history"]++
		c.Rep.Seen(strings.Join(l, ";"), len(l) > 5)
		if oerr != "" {
			c.Rep.Violate(Violation{Kind: "oracle", Cut: "host-api-history", Input: l, Impl: oerr, Oracle: "native Go map / range contract"})
		}
		if i < 2 {
			c.Rep.Sample(map[string]any{"kind": kk.name, "history": l, "impl": im})
		}
		starts = append(starts, len(lines))
		lines = append(lines, l...)
		impl = append(impl, im...)
		if len(lines) > 40000 {
			if err := flush(); err != nil {
				return err
			}
		}
	}
	return flush()
}

// ---------------------------------------------------------------- scripts

func runScript(src string) (out string, err error) {
	defer func() {
		if r := recover(); r != nil {
			err = fmt.Errorf("PANIC %v", r)
		}
	}()
	var w bytes.Buffer
	vm := goat.New(goat.WithStdout(&w))
	_, err = vm.Eval(fstest.MapFS{}, "s", src)
	return w.String(), err
}

func (c *Ctx) c10Scripts() error {
	n := 300
	if c.Thorough() {
		n = 8000
	}
	r := c.RNG
	kinds := c10Kinds()
	for i := 0; i < n; i++ {
		kk := kinds[r.Intn(len(kinds))]
		npool := len(kk.pool)
		if npool > 6 {
			npool = 6
		}
		native := map[int]int{}
		var sb strings.Builder
		var want []string
		// a key that comes out of a call with a visible effect: evaluated once per use, also in a compound update
		fmt.Fprintf(&sb, "var pool = []%s{%s}\nfunc pk(i int) %s {\n\tprintln(\"pk\", i)\n\treturn pool[i]\n}\n", kk.goT, strings.Join(kk.lit[:npool], ", "), kk.goT)
		fmt.Fprintf(&sb, "func run() {\n")
		// literal or make or nil map
		switch r.Intn(3) {
		case 0:
			fmt.Fprintf(&sb, "m := map[%s]int{", kk.goT)
			seen := map[int]bool{}
			for j := 0; j < r.Intn(npool+1); j++ {
				k := r.Intn(npool)
				if seen[k] {
					continue // duplicate constant keys are a Go compile error
				}
				seen[k] = true
				v := r.Intn(100)
				fmt.Fprintf(&sb, "%s: %d, ", kk.lit[k], v)
				native[k] = v
			}
			fmt.Fprintf(&sb, "}\n")
		case 1:
			fmt.Fprintf(&sb, "m := make(map[%s]int)\n", kk.goT)
		default:
			fmt.Fprintf(&sb, "var m map[%s]int\nprintln(len(m), m[%s])\nfor k := range m { println(k) }\ndelete(m, %s)\nm = map[%s]int{}\n", kk.goT, kk.lit[0], kk.lit[0], kk.goT)
			want = append(want, "0 0")
		}
		type loopCheck struct {
			snapshot  map[int]int
			delWhen   map[int]int // visiting key -> delete key
			setWhen   map[int]int // visiting key -> set key (value 7)
			startLine int
		}
		var loops []loopCheck
		nops := 3 + r.Intn(25)
		for j := 0; j < nops; j++ {
			k := r.Intn(npool)
			switch op := r.Intn(100); {
			case op < 30:
				v := r.Intn(100)
				fmt.Fprintf(&sb, "m[%s] = %d\n", kk.lit[k], v)
				native[k] = v
			case op < 34:
				fmt.Fprintf(&sb, "m[%s] += 3\nm[%s]++\n", kk.lit[k], kk.lit[k])
				native[k] += 4
			case op < 36: // the element type is declared: a constant spelled like a float is stored as an int
				v := r.Intn(100)
				fmt.Fprintf(&sb, "m[%s] = %d.0\nprintln(\"half\", m[%s]/2)\n", kk.lit[k], v, kk.lit[k])
				native[k] = v
				want = append(want, fmt.Sprintf("half %d", v/2))
				c.Rep.Count("script-float-spelled-element")
			case op < 40:
				fmt.Fprintf(&sb, "m[pk(%d)] += 5\nm[pk(%d)]--\nm[pk(%d)] = m[pk(%d)] * 2\n", k, k, k, k)
				native[k] = (native[k] + 4) * 2
				want = append(want, fmt.Sprintf("pk %d", k), fmt.Sprintf("pk %d", k), fmt.Sprintf("pk %d", k), fmt.Sprintf("pk %d", k))
				c.Rep.Count("script-key-from-call")
			case op < 60:
				fmt.Fprintf(&sb, "delete(m, %s)\n", kk.lit[k])
				delete(native, k)
			case op < 70:
				fmt.Fprintf(&sb, "println(m[%s], len(m))\n", kk.lit[k])
				want = append(want, fmt.Sprintf("%d %d", native[k], len(native)))
			case op < 80:
				fmt.Fprintf(&sb, "if v, ok := m[%s]; ok { println(\"has\", v) } else { println(\"no\", v) }\n", kk.lit[k])
				if v, ok := native[k]; ok {
					want = append(want, fmt.Sprintf("has %d", v))
				} else {
					want = append(want, "no 0")
				}
			case op < 90: // range without mutation: order-independent digest
				switch r.Intn(3) { // the loop variables may be named like the map they range over (valid Go: the range expression is evaluated first)
				case 0:
					fmt.Fprintf(&sb, "if true { n := 0; s := 0; for _, v := range m { n++; s += v }; println(\"sum\", n, s) }\n")
				case 1:
					fmt.Fprintf(&sb, "if true { n := 0; s := 0; for _, m := range m { n++; s += m }; println(\"sum\", n, s) }\n")
					c.Rep.Count("range-variable-named-like-the-map")
				default:
					fmt.Fprintf(&sb, "if true { n := 0; s := 0; for m, v := range m { _ = m; n++; s += v }; println(\"sum\", n, s) }\n")
					c.Rep.Count("range-variable-named-like-the-map")
				}
				s := 0
				for _, v := range native {
					s += v
				}
				want = append(want, fmt.Sprintf("sum %d %d", len(native), s))
			default: // range with mutation in the body: checked against the contract
				lc := loopCheck{snapshot: map[int]int{}, delWhen: map[int]int{}, setWhen: map[int]int{}, startLine: len(want)}
				for kk2, v := range native {
					lc.snapshot[kk2] = v
				}
				fmt.Fprintf(&sb, "println(\"loop\")\nfor k, v := range m {\nprintln(\"visit\", k, v)\n")
				for t := 0; t < 1+r.Intn(3); t++ {
					a, b := r.Intn(npool), r.Intn(npool)
					if r.Bool() {
						if _, dup := lc.delWhen[a]; !dup {
							lc.delWhen[a] = b
							fmt.Fprintf(&sb, "if k == %s { delete(m, %s) }\n", kk.lit[a], kk.lit[b])
						}
					} else {
						if _, dup := lc.setWhen[a]; !dup {
							lc.setWhen[a] = b
							fmt.Fprintf(&sb, "if k == %s { m[%s] = 7 }\n", kk.lit[a], kk.lit[b])
						}
					}
				}
				fmt.Fprintf(&sb, "}\nprintln(\"endloop\")\n")
				loops = append(loops, lc)
				want = append(want, "LOOP") // placeholder resolved against the actual output below
				// native state after the loop depends on the visiting order; it is replayed from the output
				// so further deterministic expectations stop here
				j = nops
			}
		}
		fmt.Fprintf(&sb, "}\nrun()\n")
		src := sb.String()
		out, err := runScript(src)
		c.Rep.Oracle["script"]++
		c.Rep.Seen(src, true)
		if i < 2 {
			c.Rep.Sample(map[string]any{"script": src, "stdout": out})
		}
		if err != nil {
			c.Rep.Violate(Violation{Kind: "oracle", Cut: "script", Input: src, Impl: "error: " + err.Error(), Oracle: strings.Join(want, "\n")})
			continue
		}
		got := strings.Split(strings.TrimRight(out, "\n"), "\n")
		if out == "" {
			got = nil
		}
		bad := ""
		gi := 0
		for _, w := range want {
			if w != "LOOP" {
				if gi >= len(got) || got[gi] != w {
					bad = fmt.Sprintf("line %d: got %q want %q", gi, safeIdx(got, gi), w)
					break
				}
				gi++
				continue
			}
			lc := loops[0]
			if gi >= len(got) || got[gi] != "loop" {
				bad = "missing loop marker"
				break
			}
			gi++
			cur := map[int]int{}
			for k, v := range lc.snapshot {
				cur[k] = v
			}
			through := map[int]bool{}
			for k := range lc.snapshot {
				through[k] = true
			}
			visited := map[int]bool{}
			for gi < len(got) && strings.HasPrefix(got[gi], "visit ") {
				f := strings.Fields(got[gi])
				idx := -1
				for j := range kk.pool {
					if kk.pool[j].String() == f[1] {
						idx = j
					}
				}
				v, _ := strconv.Atoi(f[2])
				if cv, ok := cur[idx]; !ok || cv != v {
					bad = fmt.Sprintf("loop visited %s=%d but the map holds %v (present %v)", f[1], v, cv, ok)
				}
				if visited[idx] {
					bad = fmt.Sprintf("loop visited %s twice", f[1])
				}
				visited[idx] = true
				if d, ok := lc.delWhen[idx]; ok {
					delete(cur, d)
					delete(through, d)
				}
				if s, ok := lc.setWhen[idx]; ok {
					cur[s] = 7
				}
				gi++
			}
			if gi >= len(got) || got[gi] != "endloop" {
				bad = "missing endloop marker"
				break
			}
			gi++
			for k := range through {
				if !visited[k] {
					bad = fmt.Sprintf("key %s live for the whole loop was not visited", kk.word[k])
				}
			}
			if bad != "" {
				break
			}
		}
		if bad == "" && gi != len(got) {
			bad = fmt.Sprintf("extra output %q", got[gi:])
		}
		if bad != "" {
			c.Rep.Violate(Violation{Kind: "oracle", Cut: "script", Input: src, Impl: out, Oracle: bad})
		}
	}
	return nil
}

func safeIdx(s []string, i int) string {
	if i < len(s) {
		return s[i]
	}
	return "<none>"
}

// c10OpenFinding replays the recorded, unrepaired defect: a tuple assignment stores its targets right to left
func (c *Ctx) c10OpenFinding() {
	const id = "tuple-assignment-same-key"
	src := "func run() {\nm := map[string]int{}\nm[\"k\"], m[\"k\"] = 1, 2\ni, j := 3, 3\nn := map[int]int{}\nn[i], n[j] = 10, 20\nprintln(m[\"k\"], n[3])\n}\nrun()\n"
	out, err := runScript(src)
	c.Rep.Oracle["open-finding-witness"]++
	if err == nil && out == "2 20\n" {
		return
	}
	if f, ok := c.Findings[id]; ok {
		c.Rep.Known = append(c.Rep.Known, id+": "+f.What+" (witness prints "+strings.TrimSpace(out)+", Go 2 20)")
		return
	}
	c.Rep.Violate(Violation{Kind: "oracle", Cut: "open-finding-witness", Input: src, Impl: out, Oracle: "2 20"})
}

func runC10(c *Ctx) error {
	// handwritten programs (shapes that once slipped through), run by the Go toolchain
	if err := c.runCorpus("C10-programs"); err != nil {
		return err
	}
	c.c10OpenFinding()
	c.Rep.Rule = "histories of set/delete/get/len/iter/next over pools of 2..12 keys (string, int, float64, bool keys) through the host Value API, compared line by line (answers and the internal ordered key list) with the Lean model, and against a native Go map + the range contract; generated scripts (literals, make, nil map, m[k], op=, delete, comma-ok, len, range with and without mutation) against native expectations; distinct = distinct history/script; non-trivial = more than 5 operations"
	// corpus: the delete-then-reinsert history that used to visit a key twice
	kinds := c10Kinds()
	m := goat.NewMap(kinds[1].typ, goat.TypeInt32, []goat.Value{goat.Int(1), goat.Int(1), goat.Int(2), goat.Int(2)})
	m.Delete(goat.Int(1))
	m.Set(goat.Int(1), goat.Int(5))
	next := m.Range()
	cnt := 0
	for {
		k, _, ok := next()
		if !ok {
			break
		}
		if k.Int() == 1 {
			cnt++
		}
	}
	c.Rep.Oracle["corpus"]++
	if cnt != 1 {
		c.Rep.Violate(Violation{Kind: "oracle", Cut: "corpus", Input: "m={1:1,2:2}; delete(m,1); m[1]=5; range m", Impl: fmt.Sprintf("key 1 visited %d times", cnt), Oracle: "once"})
	}
	if err := c.c10Corr(); err != nil {
		return err
	}
	if err := c.c10Tuple(); err != nil {
		return err
	}
	return c.c10Scripts()
}
