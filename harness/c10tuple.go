package main

import (
	"fmt"
	"strings"
)

// c10Tuple: correspondence and oracle for the multi-target assignment (lean/Goat/Model/Tuple.lean). One case = a
// function with a slice `a`, an alias `b := a[off:]`, a map `m`, two variables and two index variables `p`, `q` - each element, entry and variable
// is a numbered cell - and ONE assignment with 2..4 targets drawn from a[i], b[j], m[k], x, y and _, the indices
// literal or read from index variables, the values literals or reads of cells (swap shapes). The script prints every
// cell afterwards. Correspondence: the model's `implStores` (last target first) on the same cells. Oracle: Go's
// left-to-right stores, whenever no cell is the target of two stores with different first and last value (the
// excluded case is the open finding tuple-assignment-same-key, which tuple_assign_differs_iff characterises).
func (c *Ctx) c10Tuple() error {
	n := 60
	if c.Thorough() {
		n = 3000
	}
	r := c.RNG
	var lines, impl, srcs []string
	for it := 0; it < n; it++ {
		na, km := 2+r.Intn(4), 1+r.Intn(3)
		off := r.Intn(na)
		cells := make([]int, na+km+4) // slice elements, map entries, x, y and the index variables p, q
		for i := range cells {
			cells[i] = 10 + i
		}
		xCell, yCell, pCell, qCell := na+km, na+km+1, na+km+2, na+km+3
		cells[pCell], cells[qCell] = 0, 1
		var sb strings.Builder
		sb.WriteString("func run() {\n\ta := []int{")
		for i := 0; i < na; i++ {
			if i > 0 {
				sb.WriteString(", ")
			}
			fmt.Fprint(&sb, cells[i])
		}
		fmt.Fprintf(&sb, "}\n\tb := a[%d:]\n\tm := map[int]int{}\n", off)
		for k := 0; k < km; k++ {
			fmt.Fprintf(&sb, "\tm[%d] = %d\n", k, cells[na+k])
		}
		fmt.Fprintf(&sb, "\tx, y := %d, %d\n\tp, q := 0, 1\n\tp, q = q-1, p+1\n", cells[xCell], cells[yCell])
		idx := func(i int) string { // an index: literal or through an index variable
			if i <= 1 && r.Intn(2) == 0 {
				return []string{"p", "q"}[i]
			}
			return fmt.Sprint(i)
		}
		cellExpr := func(cell int) string {
			switch {
			case cell < na && cell >= off && r.Intn(2) == 0:
				return fmt.Sprintf("b[%s]", idx(cell-off))
			case cell < na:
				return fmt.Sprintf("a[%s]", idx(cell))
			case cell < na+km:
				return fmt.Sprintf("m[%s]", idx(cell-na))
			case cell == xCell:
				return "x"
			case cell == pCell:
				return "p" // (the index variable itself is a target: indices of the other targets are its OLD value)
			case cell == qCell:
				return "q"
			}
			return "y"
		}
		nt := 2 + r.Intn(3)
		var targets, values, pairs []string
		type tv struct{ cell, val int }
		var tvs []tv
		for t := 0; t < nt; t++ {
			cell := r.Intn(len(cells) + 1)
			if r.Intn(4) == 0 && len(tvs) > 0 { // name a cell again
				cell = tvs[r.Intn(len(tvs))].cell
			}
			val := 100 + 10*t + r.Intn(3)
			vexpr := fmt.Sprint(val)
			if r.Intn(3) == 0 { // the value is read from a cell (phase one: the old value)
				src := r.Intn(len(cells))
				val, vexpr = cells[src], cellExpr(src)
			}
			if cell == len(cells) || cell < 0 {
				targets = append(targets, "_")
				pairs = append(pairs, "_", fmt.Sprint(val))
				tvs = append(tvs, tv{-1, val})
			} else {
				targets = append(targets, cellExpr(cell))
				pairs = append(pairs, fmt.Sprint(cell), fmt.Sprint(val))
				tvs = append(tvs, tv{cell, val})
			}
			values = append(values, vexpr)
		}
		fmt.Fprintf(&sb, "\t%s = %s\n\tprintln(", strings.Join(targets, ", "), strings.Join(values, ", "))
		for i := 0; i < na; i++ {
			fmt.Fprintf(&sb, "a[%d], ", i)
		}
		for k := 0; k < km; k++ {
			fmt.Fprintf(&sb, "m[%d], ", k)
		}
		sb.WriteString("x, y, p, q)\n}\nrun()\n")
		src := sb.String()
		out, err := runScript(src)
		got := strings.TrimSpace(out)
		if err != nil {
			got += " ERR " + err.Error()
		}
		// Go: left to right
		want := append([]int{}, cells...)
		first, last := map[int]int{}, map[int]int{}
		for _, t := range tvs {
			if t.cell < 0 {
				continue
			}
			want[t.cell] = t.val
			if _, ok := first[t.cell]; !ok {
				first[t.cell] = t.val
			}
			last[t.cell] = t.val
		}
		sameCell := false
		for cell, f := range first {
			if last[cell] != f {
				sameCell = true
			}
		}
		ws := make([]string, len(want))
		for i, w := range want {
			ws[i] = fmt.Sprint(w)
		}
		c.Rep.Seen(src, nt > 2)
		if sameCell {
			c.Rep.Count("tuple-same-cell-different-values")
		} else {
			c.Rep.Count("tuple-distinct-or-equal")
			c.Rep.Oracle["tuple-go-order"]++
			if w := strings.Join(ws, " "); got != w {
				c.Rep.Violate(Violation{Kind: "oracle", Cut: "tuple-go-order", Input: src, Impl: got, Oracle: w})
			}
		}
		cs := make([]string, len(cells))
		for i, v := range cells {
			cs[i] = fmt.Sprint(v)
		}
		lines = append(lines, "ta impl "+strings.Join(cs, " ")+" | "+strings.Join(pairs, " "))
		impl = append(impl, got)
		srcs = append(srcs, src)
		if it == 0 {
			c.Rep.Sample(map[string]any{"tuple_script": src})
		}
	}
	if c.Model == nil {
		return nil
	}
	ans, err := c.Model.AskAll(lines)
	if err != nil {
		return err
	}
	for i, a := range ans {
		c.Rep.Corr["tuple-stores"]++
		if a != impl[i] {
			c.Rep.Violate(Violation{Kind: "correspondence", Cut: "tuple-stores", Input: map[string]any{"script": srcs[i], "model_line": lines[i]}, Impl: impl[i], Model: a})
		}
	}
	return nil
}
