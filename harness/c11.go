package main

// C11 — slices alias, grow and copy as Go slices do.
//
// cut point slice: a pool of aliasing slice variables driven through the host Value API (NewSlice,
//                  Slice, Set, Get, Append) and through the VM's own instructions (NEWSLICE, MAKE,
//                  SLICE incl. the omitted upper bound, SET, GET, APPEND incl. spread and nil
//                  receiver, COPY) executed one at a time on the real VM; after every step the
//                  contents of every live variable == Lean model Goat.Slice, the capacity chosen
//                  by the Go runtime on reallocation being supplied by the real object
//                                                                                [correspondence]
// oracle:          generated programs over a pool of slice variables (int, byte, float64, string
//                  elements; helper functions that write / append / pass through a variadic
//                  parameter) run by goatlang and by the Go toolchain; the generator tracks a
//                  lower bound of every capacity and only emits operations whose outcome the Go
//                  specification fixes whatever the growth policy                          [search]

import (
	"fmt"
	"sort"
	"strings"

	goat "github.com/philhassey/goatlang"
)

func init() { checks["C11"] = runC11 }

type c11Pool struct {
	vm      *goat.VM
	vars    map[string]goat.Value
	elemTag int
	byteEl  bool
	untyped bool
}

// elem builds an element operand the way compiled code would deliver it: already of the element
// type, or an untyped constant that the slice converts (assign to the element type)
func (p *c11Pool) elem(x int) goat.Value {
	if p.untyped {
		return goat.VerifUntyped(x)
	}
	if p.byteEl {
		return goat.Byte(byte(x))
	}
	return goat.Int(x)
}

func (p *c11Pool) run1(code string, a, b int, stack ...goat.Value) (out []goat.Value, err error) {
	defer func() {
		if r := recover(); r != nil {
			err = fmt.Errorf("PANIC %v", r)
		}
	}()
	_, st, err := p.vm.VerifRun([]goat.VerifInstr{{Code: code, A: a, B: b, Line: 1}}, 0, nil, stack)
	return st, err
}

func (p *c11Pool) runC(code string, a, b, cc int, stack ...goat.Value) (out []goat.Value, err error) {
	defer func() {
		if r := recover(); r != nil {
			err = fmt.Errorf("PANIC %v", r)
		}
	}()
	_, st, err := p.vm.VerifRun([]goat.VerifInstr{{Code: code, A: a, B: b, C: cc, Line: 1}}, 0, nil, stack)
	return st, err
}

func try(f func()) (err error) {
	defer func() {
		if r := recover(); r != nil {
			err = fmt.Errorf("%v", r)
		}
	}()
	f()
	return nil
}

func (p *c11Pool) show() string {
	var names []string
	for k := range p.vars {
		names = append(names, k)
	}
	sort.Strings(names)
	var w []string
	for _, k := range names {
		v := p.vars[k]
		var xs []string
		for i := 0; i < v.Len(); i++ {
			e, _ := v.Get(goat.Int(i))
			if e.VerifTag() == 0 { // Go's zero Value{} in the spare capacity of a reallocated array
				xs = append(xs, "nil")
				continue
			}
			if e.VerifTag() != p.elemTag {
				xs = append(xs, fmt.Sprintf("%d!tag%d", e.Int(), e.VerifTag()))
				continue
			}
			xs = append(xs, fmt.Sprint(e.Int()))
		}
		w = append(w, k+"=["+strings.Join(xs, ",")+"]")
	}
	return strings.Join(w, " ")
}

func (c *Ctx) c11History(nops int) (lines, impl []string) {
	r := c.RNG
	tags := goat.VerifTypeTags()
	p := &c11Pool{vm: goat.New(), vars: map[string]goat.Value{}, elemTag: tags["int32"]}
	hdr := "slice new"
	if r.Intn(4) == 0 {
		p.byteEl, p.elemTag = true, tags["uint8"]
		hdr = "slice new byte"
	}
	sliceTag := goat.NewSlice(goat.Type(p.elemTag), nil).VerifTag()
	lines, impl = append(lines, hdr), append(impl, "ok")
	names := []string{"a", "b", "c", "d", "e", "f"}
	val := func() int {
		if p.byteEl {
			return r.Intn(256)
		}
		if r.Intn(6) == 0 {
			return r.Intn(2000) - 1000
		}
		return r.Intn(100)
	}
	emit := func(line, res string) {
		lines, impl = append(lines, line), append(impl, res)
		lines, impl = append(lines, "slice show"), append(impl, p.show())
	}
	live := func() []string {
		var l []string
		for _, n := range names {
			if _, ok := p.vars[n]; ok {
				l = append(l, n)
			}
		}
		return l
	}
	for i := 0; i < nops; i++ {
		v := Pick(r, names)
		lv := live()
		op := r.Intn(100)
		if len(lv) == 0 {
			op = r.Intn(22)
		}
		var u string
		var uv goat.Value
		if len(lv) > 0 {
			u = Pick(r, lv)
			uv = p.vars[u]
		}
		switch {
		case op < 12: // literal
			n := r.Intn(6)
			var xs []goat.Value
			var ws []string
			host := r.Bool()
			for k := 0; k < n; k++ {
				x := val()
				p.untyped = !host && r.Intn(3) == 0 // only compiled code can deliver an untyped constant
				xs = append(xs, p.elem(x))
				ws = append(ws, fmt.Sprint(x))
			}
			if host {
				p.vars[v] = goat.NewSlice(goat.Type(p.elemTag), xs[:len(xs):len(xs)]) // the host's array, capacity clipped
				c.Rep.Count("lit-host")
			} else {
				st, err := p.run1("NEWSLICE", p.elemTag, n, xs...)
				if err != nil || len(st) != 1 {
					emit("slice lit "+v+" "+strings.Join(ws, " "), fmt.Sprint("err ", err))
					continue
				}
				p.vars[v] = st[0]
				c.Rep.Count("lit-vm")
			}
			emit(strings.TrimRight("slice lit "+v+" "+strings.Join(ws, " "), " "), "ok")
		case op < 18: // make
			n := r.Intn(7)
			st, err := p.run1("MAKE", p.elemTag, 0, goat.Int(n))
			if err != nil || len(st) != 1 {
				emit(fmt.Sprintf("slice make %s %d", v, n), fmt.Sprint("err ", err))
				continue
			}
			p.vars[v] = st[0]
			c.Rep.Count("make")
			emit(fmt.Sprintf("slice make %s %d", v, n), "ok")
		case op < 22: // nil slice of the element type
			p.vars[v] = goat.VerifZero(sliceTag)
			c.Rep.Count("nil")
			emit("slice lit "+v, "ok")
		case op < 45: // sub-slice
			ln, cp := uv.Len(), uv.VerifSliceCap()
			var lo, hi int
			switch k := r.Intn(10); {
			case k < 6 && ln > 0:
				lo = r.Intn(ln + 1)
				hi = lo + r.Intn(ln-lo+1)
			case k < 9:
				lo = r.Intn(cp + 1)
				hi = lo + r.Intn(cp-lo+1)
			default: // out of range
				lo, hi = r.Intn(cp+2), r.Intn(cp+3)
			}
			line := fmt.Sprintf("slice sub %s %s %d %d", v, u, lo, hi)
			var res goat.Value
			var err error
			switch r.Intn(3) {
			case 0:
				err = try(func() { res = uv.Slice(lo, hi) })
				c.Rep.Count("sub-host")
			case 1:
				var st []goat.Value
				st, err = p.run1("SLICE", 0, 0, uv, goat.Int(lo), goat.Int(hi))
				if err == nil {
					res = st[0]
				}
				c.Rep.Count("sub-vm")
			default: // omitted upper bound: s[lo:]
				line = fmt.Sprintf("slice sub %s %s %d %d", v, u, lo, ln)
				var st []goat.Value
				st, err = p.run1("SLICE", 0, 0, uv, goat.Int(lo), goat.Nil())
				if err == nil {
					res = st[0]
				}
				c.Rep.Count("sub-vm-open")
			}
			if err != nil {
				c.Rep.Count("sub-error")
				emit(line, "err")
				continue
			}
			p.vars[v] = res
			emit(line, "ok")
		case op < 62: // element write
			ln := uv.Len()
			k := r.Intn(ln + 1)
			if ln > 0 && r.Intn(8) != 0 {
				k = r.Intn(ln)
			}
			x := val()
			var err error
			p.untyped = false
			if r.Bool() {
				err = try(func() { uv.Set(goat.Int(k), p.elem(x)) })
				c.Rep.Count("set-host")
			} else {
				p.untyped = r.Intn(3) == 0
				_, err = p.run1("SET", 0, 0, p.elem(x), uv, goat.Int(k))
				c.Rep.Count("set-vm")
			}
			res := "ok"
			if err != nil {
				res = "err"
				c.Rep.Count("set-error")
			}
			emit(fmt.Sprintf("slice set %s %d %d", u, k, x), res)
		case op < 67: // element read
			ln := uv.Len()
			k := r.Intn(ln + 1)
			var e goat.Value
			var err error
			if r.Bool() {
				err = try(func() { e, _ = uv.Get(goat.Int(k)) })
			} else {
				var st []goat.Value
				st, err = p.run1("GET", 0, 0, uv, goat.Int(k))
				if err == nil {
					e = st[0]
				}
			}
			res := "err"
			if err == nil {
				res = fmt.Sprint(e.Int())
				if e.VerifTag() == 0 {
					res = "nil"
				}
			}
			c.Rep.Count("get")
			emit(fmt.Sprintf("slice get %s %d", u, k), res)
		case op < 92: // append (plain, spread, host)
			var xs []goat.Value
			var ws []string
			form := r.Intn(3)
			var spread goat.Value
			if form == 2 { // spread of another live slice (possibly overlapping the target)
				w := p.vars[Pick(r, lv)]
				spread = w
				for k := 0; k < w.Len(); k++ {
					e, _ := w.Get(goat.Int(k))
					if e.VerifTag() == 0 {
						ws = append(ws, "nil")
						continue
					}
					ws = append(ws, fmt.Sprint(e.Int()))
				}
			} else {
				n := r.Intn(4)
				if r.Intn(10) == 0 {
					n = 5 + r.Intn(30)
				}
				for k := 0; k < n; k++ {
					x := val()
					p.untyped = form == 1 && r.Intn(3) == 0
					xs = append(xs, p.elem(x))
					ws = append(ws, fmt.Sprint(x))
				}
			}
			var res goat.Value
			var err error
			switch form {
			case 0:
				err = try(func() { res = uv.Append(xs...) })
				c.Rep.Count("append-host")
			case 1:
				var st []goat.Value
				st, err = p.run1("APPEND", len(xs)+1, 0, append([]goat.Value{uv}, xs...)...)
				if err == nil {
					res = st[0]
				}
				c.Rep.Count("append-vm")
			default:
				var st []goat.Value
				st, err = p.run1("APPEND", 2, 1, uv, spread)
				if err == nil {
					res = st[0]
				}
				c.Rep.Count("append-vm-spread")
			}
			if err != nil {
				emit(fmt.Sprintf("slice append %s %s 0 %s", v, u, strings.Join(ws, " ")), fmt.Sprint("err ", err))
				continue
			}
			if uv.Len()+len(ws) <= uv.VerifSliceCap() {
				c.Rep.Count("append-in-place")
			} else {
				c.Rep.Count("append-realloc")
			}
			p.vars[v] = res
			emit(strings.TrimRight(fmt.Sprintf("slice append %s %s %d %s", v, u, res.VerifSliceCap(), strings.Join(ws, " ")), " "),
				fmt.Sprintf("ok len=%d cap=%d", res.Len(), res.VerifSliceCap()))
		default: // copy
			d := Pick(r, lv)
			// half of the copies ask for the result (COPY with C = 1 pushes the count: C11.copy_count)
			wantCount := r.Bool()
			var st []goat.Value
			var err error
			if wantCount {
				st, err = p.runC("COPY", 0, 0, 1, p.vars[d], uv)
			} else {
				st, err = p.run1("COPY", 0, 0, p.vars[d], uv)
			}
			res := "ok"
			switch {
			case err != nil:
				res = fmt.Sprint("err ", err)
			case wantCount && len(st) == 1:
				res = fmt.Sprintf("ok n=%d", st[0].Int())
			case wantCount || len(st) != 0:
				res = fmt.Sprintf("bad stack after COPY: %d values", len(st))
			}
			c.Rep.Count("copy")
			if wantCount {
				emit(fmt.Sprintf("slice copyn %s %s", d, u), res)
			} else {
				emit(fmt.Sprintf("slice copy %s %s", d, u), res)
			}
		}
	}
	return
}

// ---------------------------------------------------------------- script programs vs the Go toolchain

type c11View struct {
	arr, off, ln int
	capLo        int // cap(v) ≥ capLo always; == when exact
	exact        bool
}

type c11Gen struct {
	r      *RNG
	sb     strings.Builder
	T      string
	views  map[string]*c11View
	names  []string
	nextAr int
	feat   map[string]bool
}

func (g *c11Gen) lit(k int) string {
	switch g.T {
	case "int":
		return fmt.Sprint(g.r.Intn(200) - 50)
	case "byte":
		return fmt.Sprint(g.r.Intn(256))
	case "float64":
		return Pick(g.r, []string{"0.5", "1.5", "2", "3.25", "-4", "100", "0.125"})
	default:
		return fmt.Sprintf("%q", Pick(g.r, []string{"a", "bc", "", "déjà", "x y", "z"})+fmt.Sprint(k))
	}
}

func (g *c11Gen) w(f string, a ...any) { fmt.Fprintf(&g.sb, f, a...) }

func (g *c11Gen) showAll() {
	for _, n := range g.names {
		g.w("show(%q, %s)\n", n, n)
	}
}

func (g *c11Gen) sharing(arr int, except string) int {
	k := 0
	for n, v := range g.views {
		if n != except && v.arr == arr && v.arr >= 0 {
			k++
		}
	}
	return k
}

func (g *c11Gen) fresh(ln int) *c11View {
	g.nextAr++
	return &c11View{arr: g.nextAr, ln: ln, capLo: ln, exact: true}
}

// step emits one operation; returns false if the program must end (a deliberate error was emitted)
func (g *c11Gen) step() bool {
	r := g.r
	v := Pick(r, g.names)
	u := Pick(r, g.names)
	uv := g.views[u]
	op := r.Intn(100)
	if op >= 55 && op < 80 && r.Intn(3) > 0 { // appends: prefer a source with spare known capacity
		for _, n := range g.names {
			if w := g.views[n]; w.capLo > w.ln {
				u, uv = n, w
			}
		}
	}
	if op >= 96 && r.Intn(3) > 0 {
		op = 20
	}
	switch {
	case op < 3: // a literal with indices: elements where the indices say, zero values between them, any order
		idx := []int{0, 1, 2, 3, 4, 5}
		for i := len(idx) - 1; i > 0; i-- {
			j := r.Intn(i + 1)
			idx[i], idx[j] = idx[j], idx[i]
		}
		idx = idx[:1+r.Intn(3)]
		n := 0
		var xs []string
		for _, k := range idx {
			xs = append(xs, fmt.Sprintf("%d: %s", k, g.lit(k)))
			if k+1 > n {
				n = k + 1
			}
		}
		g.w("%s = []%s{%s}\n", v, g.T, strings.Join(xs, ", "))
		g.views[v] = g.fresh(n)
		g.feat["indexed-literal"] = true
	case op < 5: // the copy idiom: a conversion of nil is the nil slice of that type
		g.w("%s = append([]%s(nil), %s...)\n", v, g.T, u)
		nv := g.fresh(uv.ln)
		nv.exact = false // the capacity of the new array depends on the growth policy
		if uv.ln == 0 {
			nv = &c11View{arr: -1, exact: true}
		}
		g.views[v] = nv
		g.feat["copy-idiom-append-to-converted-nil"] = true
	case op < 10:
		n := r.Intn(6)
		var xs []string
		for k := 0; k < n; k++ {
			xs = append(xs, g.lit(k))
		}
		g.w("%s = []%s{%s}\n", v, g.T, strings.Join(xs, ", "))
		g.views[v] = g.fresh(n)
		g.feat["literal"] = true
	case op < 15:
		n := r.Intn(6)
		g.w("%s = make([]%s, %d)\n", v, g.T, n)
		g.views[v] = g.fresh(n)
		g.feat["make"] = true
	case op < 18:
		g.w("%s = nil\n", v)
		g.views[v] = &c11View{arr: -1, exact: true}
		g.feat["nil"] = true
	case op < 38: // sub-slice, up to the known capacity
		lim := uv.ln
		if r.Intn(3) == 0 {
			lim = uv.capLo
		}
		lo := r.Intn(lim + 1)
		hi := lo + r.Intn(lim-lo+1)
		switch k := r.Intn(6); {
		case k == 0 && hi == uv.ln:
			g.w("%s = %s[%d:]\n", v, u, lo)
		case k == 1 && lo == 0:
			g.w("%s = %s[:%d]\n", v, u, hi)
		case k == 2 && lo == 0 && hi == uv.ln:
			g.w("%s = %s[:]\n", v, u)
		default:
			g.w("%s = %s[%d:%d]\n", v, u, lo, hi)
		}
		nv := &c11View{arr: uv.arr, off: uv.off + lo, ln: hi - lo, capLo: uv.capLo - lo, exact: uv.exact}
		if uv.arr < 0 { // nil[0:0] is nil
			nv = &c11View{arr: -1, exact: true}
		}
		g.views[v] = nv
		if hi > uv.ln {
			g.feat["reslice-beyond-len"] = true
		}
		g.feat["subslice"] = true
	case op < 55: // element write
		if uv.ln == 0 {
			return true
		}
		k := r.Intn(uv.ln)
		switch f := r.Intn(6); {
		case f == 0 && g.T != "string" && g.T != "float64":
			g.w("%s[%d]++\n", u, k)
		case f == 1:
			g.w("%s[%d] += %s\n", u, k, g.lit(k))
		case f == 2:
			g.w("put(%s, %d, %s)\n", u, k, g.lit(k))
			g.feat["write-in-callee"] = true
		case f == 3 && g.T == "byte":
			g.w("%s[%d] = byte(%d + len(%s)*100)\n", u, k, r.Intn(300), u) // run-time conversion to the element type
		default:
			g.w("%s[%d] = %s\n", u, k, g.lit(k))
		}
		g.feat["write"] = true
	case op < 80: // append
		n := r.Intn(4)
		var xs []string
		spreadOf := ""
		if r.Intn(4) == 0 {
			spreadOf = Pick(r, g.names)
			n = g.views[spreadOf].ln
		} else {
			for k := 0; k < n; k++ {
				xs = append(xs, g.lit(k))
			}
		}
		inPlace := uv.ln+n <= uv.capLo
		realloc := uv.exact && uv.ln+n > uv.capLo
		if !inPlace && !realloc {
			// outcome depends on the growth policy: only observable if the array is shared
			if g.sharing(uv.arr, u) > 0 {
				return true
			}
			v = u
		}
		args := strings.Join(xs, ", ")
		form := r.Intn(5)
		switch {
		case spreadOf != "":
			g.w("%s = append(%s, %s...)\n", v, u, spreadOf)
			g.feat["append-spread"] = true
		case form == 0 && n == 1:
			g.w("%s = app(%s, %s)\n", v, u, args)
			g.feat["append-in-callee"] = true
		case n == 0:
			g.w("%s = append(%s)\n", v, u)
		default:
			g.w("%s = append(%s, %s)\n", v, u, args)
		}
		switch {
		case inPlace:
			g.views[v] = &c11View{arr: uv.arr, off: uv.off, ln: uv.ln + n, capLo: uv.capLo, exact: uv.exact}
			if uv.arr < 0 { // append(nil) with nothing stays nil
				g.views[v] = &c11View{arr: -1, exact: true}
			}
			if n > 0 {
				g.feat["append-in-place"] = true
				if g.sharing(uv.arr, v) > 0 {
					g.feat["append-in-place-shared"] = true
				}
			}
		case realloc:
			nv := g.fresh(uv.ln + n)
			nv.exact = false
			g.views[v] = nv
			g.feat["append-realloc"] = true
			if g.sharing(uv.arr, "") > 0 && uv.arr >= 0 {
				g.feat["append-realloc-shared"] = true
			}
		default:
			nv := g.fresh(uv.ln + n)
			nv.exact = false
			g.views[v] = nv
			g.feat["append-unknown-cap-unshared"] = true
		}
	case op < 88: // copy
		d := Pick(r, g.names)
		if r.Bool() { // the count of copied elements is a value
			g.w("println(\"copied\", copy(%s, %s))\n", d, u)
			g.feat["copy-count"] = true
		} else {
			g.w("copy(%s, %s)\n", d, u)
		}
		g.feat["copy"] = true
		if g.views[d].arr == uv.arr && uv.arr >= 0 {
			g.feat["copy-overlap"] = true
		}
	case op < 92: // pass through a variadic parameter: the same slice, not a copy
		g.w("%s = pass(%s...)\n", v, u)
		g.views[v] = &c11View{arr: uv.arr, off: uv.off, ln: uv.ln, capLo: uv.capLo, exact: uv.exact}
		g.feat["variadic-pass-through"] = true
	case op < 96: // range with writes to the slice inside the loop
		g.w("for i, x := range %s {\n\tprintln(\"r\", i, x)\n", u)
		if uv.ln > 1 && r.Bool() {
			g.w("\t%s[(i+1)%%%d] = x\n", u, uv.ln)
			g.feat["range-write"] = true
		}
		g.w("}\n")
		g.feat["range"] = true
	default: // deliberate error, ends the program
		switch r.Intn(3) {
		case 0:
			g.w("println(\"last\", %s[%d])\n", u, uv.ln+r.Intn(2))
		case 1:
			g.w("%s[len(%s)+%d] = %s\n", u, u, r.Intn(2), g.lit(0))
		default:
			if !uv.exact {
				g.w("println(\"last\", %s[%d])\n", u, uv.ln)
			} else {
				g.w("%s = %s[%d:%d]\n", v, u, r.Intn(uv.ln+1), uv.capLo+1+r.Intn(2))
			}
		}
		g.feat["error-last"] = true
		g.w("println(\"unreachable\")\n")
		return false
	}
	return true
}

func c11Program(r *RNG) (GoProg, map[string]bool) {
	g := &c11Gen{r: r, T: Pick(r, []string{"int", "int", "byte", "float64", "string"}), views: map[string]*c11View{}, feat: map[string]bool{}}
	g.names = []string{"a", "b", "c", "d"}[:2+r.Intn(3)]
	g.feat["elem-"+g.T] = true
	// every element is printed together with a use that shows its type (an element written through any path has the
	// slice's element type: division, wrap-around, concatenation)
	reveal := map[string]string{"int": "x/2", "byte": "x+200", "float64": "x/2", "string": "x+\"!\""}[g.T]
	g.w("func show(n string, s []%s) {\n\tprintln(n, len(s))\n\tfor _, x := range s {\n\t\tprintln(x, %s)\n\t}\n}\n\n", g.T, reveal)
	g.w("func put(s []%s, k int, x %s) {\n\ts[k] = x\n}\n\n", g.T, g.T)
	g.w("func app(s []%s, x %s) []%s {\n\treturn append(s, x)\n}\n\n", g.T, g.T, g.T)
	g.w("func pass(xs ...%s) []%s {\n\treturn xs\n}\n\n", g.T, g.T)
	g.w("func main() {\n")
	for _, n := range g.names {
		g.w("var %s []%s\n", n, g.T)
		g.views[n] = &c11View{arr: -1, exact: true}
	}
	g.showAll()
	n := 4 + r.Intn(25)
	for i := 0; i < n; i++ {
		mark := g.sb.Len()
		if !g.step() {
			break
		}
		if g.sb.Len() != mark {
			g.showAll()
		}
	}
	g.w("}\n")
	return GoProg{Src: g.sb.String()}, g.feat
}

func (c *Ctx) c11Scripts() error {
	n := 150
	if c.Thorough() {
		n = 4000
	}
	for done := 0; done < n; {
		batch := min(n-done, 500)
		var progs []GoProg
		var feats []map[string]bool
		for i := 0; i < batch; i++ {
			p, f := c11Program(c.RNG)
			progs, feats = append(progs, p), append(feats, f)
		}
		res, err := GoBatch(progs)
		if err != nil {
			return err
		}
		for i, p := range progs {
			c.Rep.Oracle["go-toolchain"]++
			c.Rep.Seen(p.Src, len(feats[i]) > 5)
			for f := range feats[i] {
				c.Rep.Count("script-" + f)
			}
			if res[i].Status == "compile-error" || res[i].Status == "timeout" {
				c.Rep.Count("script-go-" + res[i].Status)
				if c.Rep.Dist["script-go-"+res[i].Status] == 1 {
					c.Rep.Sample(map[string]any{"go_" + res[i].Status: p.Src, "out": res[i].Out})
				}
				continue
			}
			st, out := RunGoat(p)
			c.Rep.Count("script-status-" + res[i].Status)
			if st != res[i].Status || out != res[i].Out {
				c.Rep.Violate(Violation{Kind: "oracle", Cut: "go-toolchain", Input: p.Src,
					Impl: st + "\n" + out, Oracle: res[i].Status + "\n" + res[i].Out})
			}
			if done == 0 && i == 0 {
				c.Rep.Sample(map[string]any{"program": p.Src})
			}
		}
		done += batch
	}
	return nil
}

func runC11(c *Ctx) error {
	// handwritten programs (shapes that once slipped through), run by the Go toolchain
	if err := c.runCorpus("C11-programs"); err != nil {
		return err
	}
	c.Rep.Rule = "slice: histories over a pool of six slice variables (int and byte elements) of literal / make / nil / sub-slice (host, VM, omitted upper bound, beyond len up to cap, out of range) / element write and read (in and out of range) / append (host, VM, spread of a possibly overlapping slice, 0..35 elements, onto nil) / copy (also overlapping, as statement and as a value), contents of all variables compared after every step, len and cap after every append; go-toolchain: programs over 2..4 slice variables of int, byte, float64 or string elements with helper functions, restricted to operations whose outcome does not depend on the growth policy (capacity lower bounds tracked by the generator), optionally ending in an out-of-range error; distinct = distinct history/program; non-trivial = history longer than 20 ops / program with more than 5 features"
	n, maxOps := 300, 60
	if c.Thorough() {
		n, maxOps = 20000, 150
	}
	var lines, impl []string
	var starts []int
	for i := 0; i < n; i++ {
		l, im := c.c11History(5 + c.RNG.Intn(maxOps))
		c.Rep.Seen(strings.Join(l, ";"), len(l) > 40)
		if i == 0 {
			c.Rep.Sample(map[string]any{"history": l[:min(len(l), 30)]})
		}
		starts = append(starts, len(lines))
		lines = append(lines, l...)
		impl = append(impl, im...)
	}
	if c.Model != nil {
		ans, err := c.Model.AskAll(lines)
		if err != nil {
			return err
		}
		hist, reported := 0, -1
		for i, a := range ans {
			for hist+1 < len(starts) && starts[hist+1] <= i {
				hist++
			}
			c.Rep.Corr["slice"]++
			if a != impl[i] && reported != hist {
				reported = hist
				c.Rep.Violate(Violation{Kind: "correspondence", Cut: "slice", Input: lines[starts[hist] : i+1], Impl: impl[i], Model: a})
			}
		}
	}
	return c.c11Scripts()
}
