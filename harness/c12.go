package main

// C12 — struct fields are independent, typed, and shared through references.
//
// cut point intmap: the real robin-hood table (VerifIntMap: Set/Assign/Get/Delete/Copy/Len and the
//                   whole slot array) == Lean model Goat.IntMap                      [correspondence]
// oracle:           a native Go map per table (and per copy); scripts with generated struct
//                   types of 0..200 fields and methods, several instances and aliases  [search]

import (
	"bytes"
	"fmt"
	"strings"
	"testing/fstest"

	goat "github.com/philhassey/goatlang"
)

func init() { checks["C12"] = runC12 }

func imDump(m *goat.VerifIntMap) string {
	var w []string
	for _, p := range m.Pairs() {
		w = append(w, fmt.Sprintf("%d:%d", p[0], p[1]))
	}
	return fmt.Sprintf("size=%d total=%d %s", m.Size(), m.Len(), strings.Join(w, " "))
}

func (c *Ctx) c12History(nops int, withDelete bool) (lines, impl []string, oerr string) {
	r := c.RNG
	alloc := Pick(r, []int{0, 0, 1, 5, 8, 9, 40})
	tabs := []*goat.VerifIntMap{goat.VerifNewIntMap(alloc)}
	mirrors := []map[int]int{{}}
	cur := 0
	lines = append(lines, fmt.Sprintf("imap new %d", alloc))
	impl = append(impl, "ok")
	// key pools: sequential, colliding (same low bits), scattered, negative
	var pool []int
	switch r.Intn(4) {
	case 0:
		for i := 0; i < 40; i++ {
			pool = append(pool, i)
		}
	case 1:
		base := r.Intn(16)
		for i := 0; i < 30; i++ {
			pool = append(pool, base+16*i*Pick(r, []int{1, 2, 4, 8}))
		}
	case 2:
		for i := 0; i < 60; i++ {
			pool = append(pool, r.Intn(100000))
		}
	default:
		for i := 0; i < 30; i++ {
			pool = append(pool, r.Intn(200)-100)
		}
	}
	fail := func(f string, a ...any) {
		if oerr == "" {
			oerr = fmt.Sprintf(f, a...)
		}
	}
	// every key is a "field" with a declared type: stores through Assign must convert to it
	tags := goat.VerifTypeTags()
	kindOf := func(k int) string {
		if k < 0 {
			k = -k
		}
		return []string{"int32", "uint8", "float64"}[k%3]
	}
	typed := func(k, v int) (goat.Value, int) { // the value Set stores and the number it holds
		switch kindOf(k) {
		case "uint8":
			return goat.Byte(byte(v)), v % 256
		case "float64":
			return goat.Float64(float64(v)), v
		}
		return goat.Int(v), v
	}
	checkTag := func(k int, v goat.Value) {
		if v.VerifTag() != tags[kindOf(k)] {
			fail("key %d holds a value of tag %d, its field type %s has tag %d", k, v.VerifTag(), kindOf(k), tags[kindOf(k)])
		}
	}
	for i := 0; i < nops; i++ {
		k := Pick(r, pool)
		t, mir := tabs[cur], mirrors[cur]
		switch op := r.Intn(100); {
		case op < 40:
			v := r.Intn(1000)
			val, num := typed(k, v)
			t.Set(k, val)
			mir[k] = num
			v = num
			lines = append(lines, fmt.Sprintf("imap set %d %d", k, v))
			impl = append(impl, "ok")
			c.Rep.Count("op-set")
		case op < 50:
			v := r.Intn(1000)
			_, num := typed(k, v)
			t.Assign(k, goat.VerifUntyped(v)) // an untyped constant: converted to the field's type on store
			v = num
			if _, ok := mir[k]; ok {
				mir[k] = v
			}
			lines = append(lines, fmt.Sprintf("imap assign %d %d", k, v))
			c.Rep.Count("assign-" + kindOf(k))
			impl = append(impl, "ok")
			c.Rep.Count("op-assign")
		case op < 70:
			v, ok := t.Get(k)
			mv, mok := mir[k]
			if ok != mok || (ok && v.Int() != mv) {
				fail("get %d: table (%v,%v) map (%v,%v)", k, v, ok, mv, mok)
			}
			if ok {
				checkTag(k, v)
			}
			lines = append(lines, fmt.Sprintf("imap get %d", k))
			if ok {
				impl = append(impl, "some "+v.String())
			} else {
				impl = append(impl, "none")
			}
			c.Rep.Count("op-get")
		case op < 80 && withDelete:
			t.Delete(k)
			delete(mir, k)
			lines = append(lines, fmt.Sprintf("imap del %d", k))
			impl = append(impl, "ok")
			c.Rep.Count("op-delete")
		case op < 86:
			if t.Len() != len(mir) {
				fail("len: table %d map %d", t.Len(), len(mir))
			}
			lines = append(lines, "imap len")
			impl = append(impl, fmt.Sprint(t.Len()))
		case op < 90 && len(tabs) < 4:
			tabs = append(tabs, t.Copy())
			nm := map[int]int{}
			for a, b := range mir {
				nm[a] = b
			}
			mirrors = append(mirrors, nm)
			lines = append(lines, "imap copy")
			impl = append(impl, fmt.Sprintf("ok %d", len(tabs)-1))
			c.Rep.Count("op-copy")
		case op < 94 && len(tabs) > 1:
			cur = r.Intn(len(tabs))
			lines = append(lines, fmt.Sprintf("imap use %d", cur))
			impl = append(impl, "ok")
		default:
			lines = append(lines, "imap dump")
			impl = append(impl, imDump(t))
			// every key of the mirror must be readable (full scan, catches lost entries early)
			for a, b := range mir {
				if v, ok := t.Get(a); !ok || v.Int() != b {
					fail("key %d lost or wrong: (%v,%v) want %d", a, v, ok, b)
				} else {
					checkTag(a, v)
				}
			}
		}
	}
	lines = append(lines, "imap dump")
	impl = append(impl, imDump(tabs[cur]))
	return
}

func (c *Ctx) c12Scripts() error {
	n := 12
	if c.Thorough() {
		n = 300
	}
	r := c.RNG
	for it := 0; it < n; it++ {
		nf := Pick(r, []int{0, 1, 2, 5, 11, 12, 13, 24, 25, 49, 50, 97, 150, 200})
		nm := Pick(r, []int{0, 1, 3, 12, 13, 40, 120})
		if nf == 0 {
			nm = Pick(r, []int{0, 1, 13})
		}
		var sb strings.Builder
		ftype := func(i int) string {
			switch {
			case i%7 == 3:
				return "byte"
			case i%5 == 1:
				return "float64"
			}
			return "int"
		}
		// an earlier, unrelated type that already uses some of S's field names, with padding names in
		// between: S's fields then get scattered symbol indices and collide in its field table
		if nf > 1 && r.Bool() {
			sb.WriteString("type P struct {\n")
			for i := 0; i < nf; i++ {
				if r.Intn(3) == 0 {
					fmt.Fprintf(&sb, "\tF%d int\n", i)
					for q := r.Intn(20); q > 0; q-- {
						fmt.Fprintf(&sb, "\tQ%d_%d int\n", i, q)
					}
				}
			}
			sb.WriteString("}\n")
			c.Rep.Count("struct-script-scattered-field-indices")
		}
		sb.WriteString("type S struct {\n")
		for i := 0; i < nf; i++ {
			fmt.Fprintf(&sb, "\tF%d %s\n", i, ftype(i))
		}
		sb.WriteString("}\n")
		for i := 0; i < nm; i++ {
			if nf > 0 {
				fmt.Fprintf(&sb, "func (s *S) M%d(k int) int { return int(s.F%d) + k + %d }\n", i, i%nf, i)
			} else {
				fmt.Fprintf(&sb, "func (s *S) M%d(k int) int { return k + %d }\n", i, i)
			}
		}
		sb.WriteString("type D S\n")                                                               // a type defined from S finds S's methods
		sb.WriteString("func pick(s *S, tag int) *S {\n\tprintln(\"pick\", tag)\n\treturn s\n}\n") // an instance reached through a call with a visible effect
		sb.WriteString("func run() {\na := &S{}\nb := &S{}\nc := a\n_ = c\n")
		// mirrors: instances a (aliased by c) and b
		inst := map[string][]int64{"a": make([]int64, nf), "b": make([]int64, nf)}
		bind := map[string]string{"a": "a", "b": "b", "c": "a"} // variable -> instance (named after its first variable)
		var want []string
		nops := 20 + r.Intn(60)
		for k := 0; k < nops; k++ {
			v := Pick(r, []string{"a", "b", "c"})
			real := bind[v]
			switch op := r.Intn(12); {
			case op == 10 && nf > 0: // a tuple assignment that stores a field and rebinds the variable it is reached through:
				// the operands of every target are evaluated before any store, so the field lands in the old instance
				f := r.Intn(nf)
				val := int64(r.Intn(200))
				o := Pick(r, []string{"a", "b", "c"})
				if r.Bool() {
					fmt.Fprintf(&sb, "%s.F%d, %s = %d, %s\n", v, f, v, val, o)
				} else {
					fmt.Fprintf(&sb, "%s, %s.F%d = %s, %d\n", v, v, f, o, val)
				}
				inst[real][f] = val
				bind[v] = bind[o]
				c.Rep.Count("struct-script-tuple-field-and-rebind")
				continue
			case op == 11 && nf > 0: // two field targets, the values cross over
				f := r.Intn(nf)
				o := Pick(r, []string{"a", "b", "c"})
				fmt.Fprintf(&sb, "%s.F%d, %s.F%d = %s.F%d, %s.F%d\n", v, f, o, f, o, f, v, f)
				x, y := inst[real][f], inst[bind[o]][f]
				inst[real][f] = y
				inst[bind[o]][f] = x
				continue
			case op >= 10:
				continue
			case op == 9 && nf > 0 && ftype(r.Intn(nf)) != "": // compound updates of a field of a call's result: the call runs once
				f := r.Intn(nf)
				switch r.Intn(3) {
				case 0:
					fmt.Fprintf(&sb, "pick(%s, %d).F%d += 3\n", v, k, f)
					inst[real][f] += 3
				case 1:
					fmt.Fprintf(&sb, "pick(%s, %d).F%d++\n", v, k, f)
					inst[real][f]++
				default:
					fmt.Fprintf(&sb, "pick(%s, %d).F%d = 7\n", v, k, f)
					inst[real][f] = 7
				}
				if f%7 == 3 {
					inst[real][f] %= 256
				}
				want = append(want, fmt.Sprintf("pick %d", k))
				c.Rep.Count("struct-script-field-of-call-result")
				continue
			case op < 4 && nf > 0:
				f := r.Intn(nf)
				val := int64(r.Intn(300))
				fmt.Fprintf(&sb, "%s.F%d = %d\n", v, f, val)
				if f%7 == 3 {
					val = val % 256
				}
				inst[real][f] = val
			case op < 5 && nf > 0:
				f := r.Intn(nf)
				fmt.Fprintf(&sb, "%s.F%d += 200\n", v, f)
				inst[real][f] += 200
				if f%7 == 3 {
					inst[real][f] %= 256
				}
			case op < 7 && nf > 0:
				f := r.Intn(nf)
				fmt.Fprintf(&sb, "println(\"f\", %s.F%d)\n", v, f)
				want = append(want, fmt.Sprintf("f %d", inst[real][f]))
			case op < 8 && nf > 0: // a use that shows the field's type
				f := r.Intn(nf)
				fmt.Fprintf(&sb, "println(\"h\", %s.F%d/2, %s.F%d+100)\n", v, f, v, f)
				x := inst[real][f]
				switch ftype(f) {
				case "float64":
					want = append(want, fmt.Sprintf("h %v %v", float64(x)/2, float64(x)+100))
				case "byte":
					want = append(want, fmt.Sprintf("h %d %d", byte(x)/2, byte(x)+100))
				default:
					want = append(want, fmt.Sprintf("h %d %d", int32(x)/2, int32(x)+100))
				}
			case nm > 0:
				m := r.Intn(nm)
				fmt.Fprintf(&sb, "println(\"m\", %s.M%d(%d))\n", v, m, k)
				base := int64(0)
				if nf > 0 {
					base = inst[real][m%nf]
				}
				want = append(want, fmt.Sprintf("m %d", int32(base+int64(k)+int64(m))))
			}
		}
		sb.WriteString("}\nrun()\n")
		src := sb.String()
		out, err := runScript(src)
		c.Rep.Oracle["struct-script"]++
		c.Rep.Seen(src, nf > 5)
		c.Rep.Count(fmt.Sprintf("fields-%03d", nf))
		got := strings.TrimRight(out, "\n")
		if err != nil || got != strings.Join(want, "\n") {
			e := ""
			if err != nil {
				e = " ERR " + err.Error()
			}
			c.Rep.Violate(Violation{Kind: "oracle", Cut: "struct-script", Input: src, Impl: got + e, Oracle: strings.Join(want, "\n")})
		}
		if it == 0 {
			c.Rep.Sample(map[string]any{"script_head": src[:min(len(src), 600)], "fields": nf, "methods": nm})
		}
	}
	return nil
}

// c12TypeGainsFields: a struct type declared without fields and declared again with fields (a later Eval on the same
// VM): instances made while it was empty do not share storage with the type - a store through one of them reaches
// neither the other instances nor the instances made afterwards
func (c *Ctx) c12TypeGainsFields() {
	vm := goat.New()
	var out bytes.Buffer
	vm = goat.New(goat.WithStdout(&out))
	steps := []string{
		"type Game struct {\n}\na := &Game{}\nb := &Game{}\n",
		"type Game struct {\n\tScore int\n\tName string\n\tRatio float64\n\tTags []string\n}\nfunc (g *Game) Set(n int) { g.Score = n }\n",
		"a.Score = 99\na.Name = \"old\"\na.Ratio = 2.5\na.Tags = append(a.Tags, \"x\")\nb.Set(5)\n",
		"c := &Game{}\nd := &Game{Score: 1}\nprintln(c.Score, c.Name == \"\", c.Ratio, len(c.Tags), d.Score, d.Name == \"\")\nc.Score = 3\ne := &Game{}\nprintln(e.Score, d.Score)\n",
	}
	for i, st := range steps {
		if i == 3 {
			if e := try(func() { vm.Get("main.b").SetAttr("Score", goat.Int(6)) }); e != nil {
				_ = e // (an old instance may refuse the store)
			}
		}
		if _, err := vm.Eval(fstest.MapFS{}, "main", st); err != nil && i != 2 {
			c.Rep.Violate(Violation{Kind: "oracle", Cut: "type-gains-fields", Input: strings.Join(steps[:i+1], "// next Eval\n"), Impl: err.Error(), Oracle: "evaluates"})
			return
		}
	}
	c.Rep.Oracle["type-gains-fields"]++
	if got, want := out.String(), "0 true 0 0 1 true\n0 1\n"; got != want {
		c.Rep.Violate(Violation{Kind: "oracle", Cut: "type-gains-fields", Input: strings.Join(steps, "// next Eval\n"), Impl: got, Oracle: want})
	}
}

func runC12(c *Ctx) error {
	c.c12TypeGainsFields()
	c.c12TypeRetyped()
	c.c12OpenFinding()
	// handwritten programs (shapes that once slipped through), run by the Go toolchain
	if err := c.runCorpus("C12-programs"); err != nil {
		return err
	}
	c.Rep.Rule = "intmap: histories of Set/Assign/Get/Delete/Len/Copy/use over key pools that are sequential, colliding in the low bits, scattered or negative, on up to 4 tables related by Copy, the whole slot array (distance, key) compared with the model at dumps; half of the histories without Delete (the VM never deletes); struct-script: struct types with 0..200 fields (int and byte) and 0..120 methods, two instances and an alias, random field writes, compound updates, reads and method calls; host-struct: values built by the host with NewStruct (also twice from one initialiser slice) next to script-made instances; composite-fields: a struct with slice, map and pointer fields of different element types in random order, the declared type of every field's zero value observed through append / nil-map reads; struct-heap: the struct layer of the model (instances owning a copy of the type's field table, sharing its method table) against host-made and script-made instances, aliases, SetAttr/GetAttr, methods added by later evaluations and method values called through VM.Func, answers compared line by line; type-object: 2..5 declarations of one struct type name (successive Evals on one VM, or local types of one name in nested blocks) with random field subsets, orders and types; the fields of &T{} in Order with their zero values after every declaration against the model's declare / sync; late-methods: instances, an alias and an instance of a defined type created while the type has m1 methods, further methods up to m2 (crossing the method table's growth thresholds) defined by later evaluations, then called on old and new instances; distinct = distinct history/script; non-trivial = history of more than 20 ops / more than 5 fields"
	n, maxOps := 600, 120
	if c.Thorough() {
		n, maxOps = 30000, 400
	}
	var lines, impl []string
	var starts []int
	for i := 0; i < n; i++ {
		l, im, oerr := c.c12History(10+c.RNG.Intn(maxOps), i%2 == 0)
		c.Rep.Oracle["native-map"]++
		c.Rep.Seen(strings.Join(l, ";"), len(l) > 20)
		if oerr != "" {
			c.Rep.Violate(Violation{Kind: "oracle", Cut: "native-map", Input: l, Impl: oerr, Oracle: "native Go map"})
		}
		if i == 0 {
			c.Rep.Sample(map[string]any{"history": l[:min(len(l), 30)]})
		}
		starts = append(starts, len(lines))
		lines = append(lines, l...)
		impl = append(impl, im...)
	}
	if c.Model != nil {
		ans, err := c.Model.AskAll(lines)
		if err != nil {
			return err
		}
		hist, reported := 0, -1
		for i, a := range ans {
			for hist+1 < len(starts) && starts[hist+1] <= i {
				hist++
			}
			c.Rep.Corr["intmap"]++
			if a != impl[i] && reported != hist {
				reported = hist
				c.Rep.Violate(Violation{Kind: "correspondence", Cut: "intmap", Input: lines[starts[hist] : i+1], Impl: impl[i], Model: a})
			}
		}
	}
	if err := c.c12Scripts(); err != nil {
		return err
	}
	if err := c.c12StructHeap(); err != nil {
		return err
	}
	if err := c.c12TypeObject(); err != nil {
		return err
	}
	c.c12LateMethods()
	c.c12HostMethodsByName()
	c.c12LiteralForms()
	c.c12CompositeFields()
	c.c19HostStructs() // several host-built instances of one type keep their own fields (shared with C19)
	return nil
}

// c12LateMethods: the type's method table grows (across every growth threshold) AFTER instances exist:
// methods defined by later evaluations must be found on the old instances, on their aliases, on new
// instances and on a type defined from the type
// c12LiteralForms: every field of a literal holds the value the literal gives it: keyed literals in any order and
// with omitted fields; a literal without field names either fills the fields in declaration order or is rejected -
// it never yields a struct with other values
func (c *Ctx) c12LiteralForms() {
	for _, k := range []struct{ src, want string }{
		{"type P struct {\n\tX int\n\tY string\n\tZ float64\n}\np := &P{Z: 1.5, X: 2}\nprintln(p.X, p.Y == \"\", p.Z/2)", "2 true 0.75\n"},
		{"type P struct {\n\tX int\n\tY int\n}\np := &P{1, 2}\nprintln(p.X, p.Y)", "1 2\n"},
		{"type P struct {\n\tX int\n\tY int\n}\nps := []*P{{3, 4}, {Y: 5}}\nprintln(ps[0].X, ps[0].Y, ps[1].X, ps[1].Y)", "3 4 0 5\n"},
		{"type P struct {\n\tX int\n\tY int\n}\nfunc mk() *P {\n\treturn &P{7, 8}\n}\nprintln(mk().Y)", "8\n"},
		// a type declared inside a function is that function's type before and after a function literal in the body
		{"type P struct {\n\tX int\n\tY int\n}\nfunc f() {\n\ttype P struct {\n\t\tX float64\n\t}\n\ta := &P{X: 1}\n\tdbl := func(k int) int {\n\t\treturn k * 2\n\t}\n\tb := &P{}\n\tb.X = 1\n\tprintln(a.X/2, b.X/2, dbl(2))\n\tprintln(b)\n}\nf()\nprintln(&P{X: 3})", "0.5 0.5 4\n&{X:1}\n&{X:3 Y:0}\n"},
		{"type Q struct {\n\tN int\n}\nfunc (q *Q) M() int {\n\ttype Q struct {\n\t\tS string\n\t}\n\tcb := func() {\n\t}\n\tcb()\n\tl := &Q{S: \"s\"}\n\treturn len(l.S) + q.N\n}\nprintln((&Q{N: 4}).M())", "5\n"},
		// keyed and positional elements in one literal: Go's value or a rejection, never another value
		{"s := []int{5, 2: 7}\nprintln(len(s), s[0], s[1], s[2])", "3 5 0 7\n"},
		{"s := []int{1: 7, 8}\nprintln(len(s), s[0], s[1], s[2])", "3 0 7 8\n"},
	} {
		out, err := runScript(k.src)
		c.Rep.Oracle["literal-forms"]++
		if err != nil && (strings.Contains(k.src, "{1, 2}") || strings.Contains(k.src, "{3, 4}") || strings.Contains(k.src, "{7, 8}") || strings.Contains(k.src, "2: 7}") || strings.Contains(k.src, "{1: 7, 8}")) {
			c.Rep.Count("literal-without-field-names-rejected")
			continue
		}
		if err != nil || out != k.want {
			c.Rep.Violate(Violation{Kind: "oracle", Cut: "literal-forms", Input: k.src, Impl: fmt.Sprintf("%q err=%v", out, err), Oracle: fmt.Sprintf("%q (or an error for a literal without field names)", k.want)})
		}
	}
}

// c12HostMethodsByName: the host finds fields AND methods of a script instance by name (Value.GetAttr): a method comes
// back bound to its instance, on every instance of the type and of a type defined from it, and calling it updates the
// instance's fields
func (c *Ctx) c12HostMethodsByName() {
	vm := goat.New()
	src := "type Counter struct {\n\tN int\n\tTag string\n}\nfunc (k *Counter) Add(d int) int {\n\tk.N += d\n\treturn k.N\n}\nfunc (k *Counter) Name() string {\n\treturn k.Tag + \"!\"\n}\ntype Tally Counter\na := &Counter{N: 1, Tag: \"a\"}\nb := &Counter{N: 10, Tag: \"b\"}\nt := &Tally{N: 100, Tag: \"t\"}\n"
	if _, err := vm.Eval(fstest.MapFS{}, "main", src); err != nil {
		c.Rep.Violate(Violation{Kind: "oracle", Cut: "host-method-by-name", Input: src, Impl: err.Error(), Oracle: "evaluates"})
		return
	}
	for _, k := range []struct {
		inst string
		add  int
		want string
	}{{"a", 5, "6 a!"}, {"b", 7, "17 b!"}, {"a", 1, "7 a!"}, {"t", 3, "103 t!"}} {
		c.Rep.Oracle["host-method-by-name"]++
		got := func() (res string) {
			defer func() {
				if r := recover(); r != nil {
					res = fmt.Sprintf("panic: %v", r)
				}
			}()
			inst := vm.Get("main." + k.inst)
			r1, err := vm.Func(inst.GetAttr("Add"), 1, goat.Int(k.add))
			if err != nil {
				return "Add: " + err.Error()
			}
			r2, err := vm.Func(inst.GetAttr("Name"), 1)
			if err != nil {
				return "Name: " + err.Error()
			}
			if f := inst.GetAttr("N"); f.Int() != r1[0].Int() {
				return fmt.Sprintf("field N reads %v after Add returned %v", f, r1[0])
			}
			return r1[0].String() + " " + r2[0].String()
		}()
		if got != k.want {
			c.Rep.Violate(Violation{Kind: "oracle", Cut: "host-method-by-name", Input: fmt.Sprintf("%s\n// host: Get(main.%s).GetAttr(\"Add\") called with %d, then GetAttr(\"Name\")", src, k.inst, k.add), Impl: got, Oracle: k.want})
		}
	}
}

func (c *Ctx) c12LateMethods() {
	r := c.RNG
	pairs := [][2]int{{0, 13}, {1, 14}, {3, 12}, {12, 13}, {5, 30}, {12, 60}, {13, 25}, {20, 120}, {24, 49}, {1, 200}}
	n := 4
	if c.Thorough() {
		n = 40
	}
	for it := 0; it < n; it++ {
		pr := pairs[(it+r.Intn(len(pairs)))%len(pairs)]
		m1, m2 := pr[0], pr[1]
		var out bytes.Buffer
		vm := goat.New(goat.WithStdout(&out))
		var script []string
		eval := func(src string) error {
			script = append(script, src)
			var err error
			if e := try(func() { _, err = vm.Eval(fstest.MapFS{}, "main", src) }); e != nil {
				err = e
			}
			return err
		}
		meth := func(i int) string { return fmt.Sprintf("func (s *S) M%d(k int) int { return s.F + k + %d }\n", i, i) }
		var sb strings.Builder
		sb.WriteString("type S struct {\n\tF int\n}\n")
		for i := 0; i < m1; i++ {
			sb.WriteString(meth(i))
		}
		sb.WriteString("type D S\n")
		err := eval(sb.String())
		if err == nil {
			err = eval("a := &S{F: 5}\nal := a\nd := &D{F: 9}")
		}
		// the remaining methods arrive in 1..3 later evaluations
		for lo := m1; lo < m2 && err == nil; {
			hi := lo + 1 + r.Intn(m2-lo)
			sb.Reset()
			for i := lo; i < hi; i++ {
				sb.WriteString(meth(i))
			}
			err = eval(sb.String())
			lo = hi
		}
		var want []string
		if err == nil {
			err = eval("b := &S{F: 7}")
		}
		for k := 0; k < 12 && err == nil; k++ {
			i := r.Intn(m2)
			if k < 3 {
				i = m2 - 1 - k%m2 // the latest methods first
				if i < 0 {
					i = 0
				}
			}
			v := Pick(r, []string{"a", "al", "b", "d"})
			f := map[string]int{"a": 5, "al": 5, "b": 7, "d": 9}[v]
			err = eval(fmt.Sprintf("println(%s.M%d(%d))", v, i, k))
			want = append(want, fmt.Sprint(f+k+i))
		}
		c.Rep.Oracle["late-methods"]++
		c.Rep.Count(fmt.Sprintf("late-methods-%d-to-%d", m1, m2))
		got := strings.TrimSpace(out.String())
		if err != nil || got != strings.Join(want, "\n") {
			e := ""
			if err != nil {
				e = " ERR " + err.Error()
			}
			c.Rep.Violate(Violation{Kind: "oracle", Cut: "late-methods", Input: script, Impl: got + e, Oracle: strings.Join(want, "\n")})
		}
	}
}

// c12CompositeFields: fields of slice, map and pointer types in a random order (so that fields whose types share a
// head symbol stand next to each other): the zero value of each field has the field's OWN declared type, seen through
// what an append to the nil slice / a read of the nil map yields
func (c *Ctx) c12CompositeFields() {
	r := c.RNG
	n := 6
	if c.Thorough() {
		n = 200
	}
	fields := []string{"A []float64", "B []int", "S []string", "M map[string]float64", "N map[string]int", "P *Q", "O *R", "F float64", "G []byte", "I int", "H map[int]byte"}
	for it := 0; it < n; it++ {
		perm := append([]string{}, fields...)
		for i := len(perm) - 1; i > 0; i-- {
			j := r.Intn(i + 1)
			perm[i], perm[j] = perm[j], perm[i]
		}
		var sb strings.Builder
		sb.WriteString("type Q struct {\n\tX int\n}\ntype R struct {\n\tY float64\n}\ntype C struct {\n")
		for _, f := range perm {
			sb.WriteString("\t" + f + "\n")
		}
		sb.WriteString("}\nfunc run() {\nc := &C{}\nd := &C{}\n_ = d\n")
		sb.WriteString("c.A = append(c.A, 7)\nc.B = append(c.B, 7)\nc.G = append(c.G, 250)\nc.S = append(c.S, \"s\")\n")
		sb.WriteString("println(c.A[0]/2, c.B[0]/2, c.G[0]+10, (c.M[\"x\"]+7)/2, (c.N[\"x\"]+7)/2, c.H[3]+255+2, c.P == nil, c.O == nil, len(c.S), c.F+0.5, (c.I+7)/2)\n")
		sb.WriteString("c.P = &Q{X: 7}\nc.O = &R{Y: 7}\nprintln(c.P.X/2, c.O.Y/2, len(d.A), len(d.S), d.P == nil)\n}\nrun()\n")
		src := sb.String()
		out, err := runScript(src)
		want := "3.5 3 4 3.5 3 1 true true 1 0.5 3\n3 3.5 0 0 true"
		c.Rep.Oracle["composite-field-zero-types"]++
		c.Rep.Seen(src, true)
		if got := strings.TrimSpace(out); err != nil || got != want {
			e := ""
			if err != nil {
				e = " ERR " + err.Error()
			}
			c.Rep.Violate(Violation{Kind: "oracle", Cut: "composite-field-zero-types", Input: src, Impl: got + e, Oracle: want})
		}
	}
}
