package main

import (
	"bytes"
	"fmt"
	"strings"
	"testing/fstest"

	goat "github.com/philhassey/goatlang"
)

// c12StructHeap: correspondence for the struct layer (lean/Goat/Model/Struct.lean: a heap of instances that own a
// copy of their type's field table and share its method table). One history = a script struct type with nf int
// fields, instances made by the host (NewStruct) and by the script (&T{...}), with and without initialisers, aliases of them, field stores and loads
// through the host API (SetAttr / GetAttr), methods added by later evaluations, and method values taken from an
// instance and called (the result names the method and the receiver's f0). The same operations go to the model
// (`st type|new|set|get|method`) and the answers are compared line by line.
func (c *Ctx) c12StructHeap() error {
	if c.Model == nil {
		return nil
	}
	n, maxOps := 30, 80
	if c.Thorough() {
		n, maxOps = 1200, 250
	}
	r := c.RNG
	const mkey = 100000
	for it := 0; it < n; it++ {
		nf := Pick(r, []int{1, 2, 5, 11, 12, 13, 24, 25, 48, 49, 97})
		nm := r.Intn(4)
		var sb strings.Builder
		sb.WriteString("type T struct {\n")
		for i := 0; i < nf; i++ {
			fmt.Fprintf(&sb, "\tf%d int\n", i)
		}
		sb.WriteString("}\n")
		method := func(j int) string {
			return fmt.Sprintf("func (t *T) m%d() int {\n\treturn t.f0*1000 + %d\n}\n", j, j)
		}
		for j := 0; j < nm; j++ {
			sb.WriteString(method(j))
		}
		var out bytes.Buffer
		vm := goat.New(goat.WithStdout(&out))
		evals := []string{sb.String()}
		var lines, impl []string
		bad := func(what string, err any) {
			c.Rep.Violate(Violation{Kind: "correspondence", Cut: "struct-heap", Input: map[string]any{"evals": evals, "ops": lines}, Impl: fmt.Sprintf("%s: %v", what, err), Model: "defined"})
		}
		if _, err := vm.Eval(fstest.MapFS{}, "main", evals[0]); err != nil {
			bad("type declaration", err)
			continue
		}
		ks := make([]string, nf)
		for i := range ks {
			ks[i] = fmt.Sprint(i)
		}
		lines = append(lines, "st type "+strings.Join(ks, " "))
		impl = append(impl, "ok")
		for j := 0; j < nm; j++ {
			lines = append(lines, fmt.Sprintf("st method %d %d", mkey+j, j))
			impl = append(impl, "ok")
		}
		type ref struct {
			v  goat.Value
			id int
		}
		var vars []ref
		nInst, nScript := 0, 0
		ops := 10 + r.Intn(maxOps)
		failed := false
		for o := 0; o < ops && !failed; o++ {
			op := r.Intn(100)
			if len(vars) == 0 {
				op = 0
			}
			switch {
			case op < 10 && nInst < 6: // a new instance: by the host or by the script
				var v goat.Value
				// a literal with initialisers (some fields, in any order) or without
				var initHost []goat.Value
				var initSrc, initModel []string
				if r.Intn(2) == 0 {
					for k := 0; k < 1+r.Intn(3); k++ {
						f, val := r.Intn(nf), r.Intn(9000)
						dup := false
						for _, w := range initModel {
							dup = dup || w == fmt.Sprint(f)
						}
						if dup {
							continue // (Go rejects a literal that names a field twice)
						}
						initHost = append(initHost, goat.String(fmt.Sprintf("f%d", f)), goat.Int(val))
						initSrc = append(initSrc, fmt.Sprintf("f%d: %d", f, val))
						initModel = append(initModel, fmt.Sprint(f), fmt.Sprint(val))
					}
				}
				if r.Intn(2) == 0 {
					if e := try(func() { v = goat.NewStruct(vm.Get("main.T"), initHost) }); e != nil {
						bad("NewStruct", e)
						failed = true
						break
					}
					c.Rep.Count("heap-new-host")
				} else {
					src := fmt.Sprintf("x%d := &T{%s}\n", nScript, strings.Join(initSrc, ", "))
					evals = append(evals, src)
					if _, err := vm.Eval(fstest.MapFS{}, "main", src); err != nil {
						bad(src, err)
						failed = true
						break
					}
					v = vm.Get(fmt.Sprintf("main.x%d", nScript))
					nScript++
					c.Rep.Count("heap-new-script")
				}
				vars = append(vars, ref{v, nInst})
				if len(initModel) > 0 {
					lines = append(lines, "st lit "+strings.Join(initModel, " "))
					c.Rep.Count("heap-literal-with-fields")
				} else {
					lines = append(lines, "st new")
				}
				impl = append(impl, fmt.Sprintf("ref %d", nInst))
				nInst++
			case op < 16: // an alias: another variable holding the same reference
				vars = append(vars, vars[r.Intn(len(vars))])
				c.Rep.Count("heap-alias")
			case op < 50: // x.f = v
				x := vars[r.Intn(len(vars))]
				f, v := r.Intn(nf), r.Intn(9000)
				if e := try(func() { x.v.SetAttr(fmt.Sprintf("f%d", f), goat.Int(v)) }); e != nil {
					bad("SetAttr", e)
					failed = true
					break
				}
				lines = append(lines, fmt.Sprintf("st set %d %d %d", x.id, f, v))
				impl = append(impl, "ok")
				c.Rep.Count("heap-set")
			case op < 82: // x.f
				x := vars[r.Intn(len(vars))]
				f := r.Intn(nf)
				got := "?"
				if e := try(func() { got = fmt.Sprintf("field %d", x.v.GetAttr(fmt.Sprintf("f%d", f)).Int()) }); e != nil {
					got = fmt.Sprint("panic ", e)
				}
				lines = append(lines, fmt.Sprintf("st get %d %d", x.id, f))
				impl = append(impl, got)
				c.Rep.Count("heap-get")
			case op < 88 && nm < 40: // a method defined after instances exist
				src := method(nm)
				evals = append(evals, src)
				if _, err := vm.Eval(fstest.MapFS{}, "main", src); err != nil {
					bad(src, err)
					failed = true
					break
				}
				lines = append(lines, fmt.Sprintf("st method %d %d", mkey+nm, nm))
				impl = append(impl, "ok")
				nm++
				c.Rep.Count("heap-late-method")
			case nm > 0: // a method value taken from x and called: names the method and the receiver it is bound to
				x := vars[r.Intn(len(vars))]
				j := r.Intn(nm)
				g1, g2 := "?", "?"
				if e := try(func() {
					rets, err := vm.Func(x.v.GetAttr(fmt.Sprintf("m%d", j)), 1)
					if err != nil || len(rets) != 1 {
						g1 = fmt.Sprint("error ", err)
						return
					}
					res := rets[0].Int()
					g1, g2 = fmt.Sprintf("method %d %d", x.id, res%1000), fmt.Sprintf("field %d", res/1000)
				}); e != nil {
					g1 = fmt.Sprint("panic ", e)
				}
				lines = append(lines, fmt.Sprintf("st get %d %d", x.id, mkey+j), fmt.Sprintf("st get %d 0", x.id))
				impl = append(impl, g1, g2)
				c.Rep.Count("heap-method-call")
			}
		}
		if failed {
			continue
		}
		ans, err := c.Model.AskAll(lines)
		if err != nil {
			return err
		}
		c.Rep.Seen(strings.Join(lines, ";"), len(lines) > 20)
		for i, a := range ans {
			c.Rep.Corr["struct-heap"]++
			if a != impl[i] {
				c.Rep.Violate(Violation{Kind: "correspondence", Cut: "struct-heap", Input: map[string]any{"evals": evals, "ops": lines[:i+1]}, Impl: impl[i], Model: a})
				break
			}
		}
		if it == 0 {
			c.Rep.Sample(map[string]any{"struct_heap_ops": lines[:min(len(lines), 25)]})
		}
	}
	return nil
}

// c12TypeRetyped: a struct type declared again by a later evaluation on the same VM with a field retyped WITHIN its
// kind (slice / map of another element type): instances made afterwards start with the zero value of the newly
// declared field type
func (c *Ctx) c12TypeRetyped() {
	for _, k := range []struct{ first, second, name, want string }{
		{"type T struct {\n\tA int\n\tB []int\n}\nx := &T{A: 1}\nx.B = append(x.B, 5)\n", "type T struct {\n\tA int\n\tB []float64\n\tC string\n}\ny := &T{A: 2}\ny.B = append(y.B, 1)\nh := y.B[0] / 2\n", "main.h", "0.5"},
		{"type U struct {\n\tM map[string]int\n}\nx := &U{}\nn := x.M[\"k\"] + 1\n", "type U struct {\n\tM map[string]string\n}\ny := &U{}\nh := len(y.M[\"k\"]) + 10\n", "main.h", "10"},
		{"type W struct {\n\tB []uint8\n}\nx := &W{}\nx.B = append(x.B, 255)\n", "type W struct {\n\tB []int\n}\ny := &W{}\ny.B = append(y.B, 255)\nh := y.B[0] + 1\n", "main.h", "256"},
	} {
		vm := goat.New()
		c.Rep.Oracle["type-retyped"]++
		in := k.first + "// next Eval\n" + k.second
		if _, err := vm.Eval(fstest.MapFS{}, "main", k.first); err != nil {
			c.Rep.Violate(Violation{Kind: "oracle", Cut: "type-retyped", Input: in, Impl: err.Error(), Oracle: "evaluates"})
			continue
		}
		if _, err := vm.Eval(fstest.MapFS{}, "main", k.second); err != nil {
			c.Rep.Violate(Violation{Kind: "oracle", Cut: "type-retyped", Input: in, Impl: err.Error(), Oracle: "evaluates"})
			continue
		}
		if got := vm.Get(k.name).String(); got != k.want {
			c.Rep.Violate(Violation{Kind: "oracle", Cut: "type-retyped", Input: in, Impl: k.name + " = " + got, Oracle: k.want})
		}
	}
}

// c12OpenFinding replays the recorded, unrepaired defect: two local struct types of one name in nested blocks of one
// function share one type object (its key is function name + type name): the inner type keeps the fields of the
// outer one that it does not declare, and an instance of the OUTER type made after the inner declaration has run
// takes the inner declaration's zero value (and with it the type) for a field both declare
func (c *Ctx) c12OpenFinding() {
	const id = "shadowed-local-type-keeps-outer-fields"
	var seen []string
	what := ""
	defer func() {
		if len(seen) > 0 {
			c.Rep.Known = append(c.Rep.Known, id+": "+what+" ("+strings.Join(seen, "; ")+")")
		}
	}()
	for _, k := range []struct{ src, want, known string }{
		{"import \"fmt\"\nfunc f() {\n\ttype P struct {\n\t\tX int\n\t\tY int\n\t}\n\ta := &P{}\n\tif a.X == 0 {\n\t\ttype P struct {\n\t\t\tX int\n\t\t}\n\t\tb := &P{}\n\t\tfmt.Println(b)\n\t}\n\tc := &P{}\n\tfmt.Println(c)\n}\nf()\n",
			"&{X:0}\n&{X:0 Y:0}\n", "&{X:0 Y:0}\n&{X:0 Y:0}\n"},
		{"func f() {\n\ttype P struct {\n\t\tA int\n\t}\n\tfor i := 0; i < 2; i++ {\n\t\tp := &P{}\n\t\tp.A += 5\n\t\tprintln(p.A / 2)\n\t\tif true {\n\t\t\ttype P struct {\n\t\t\t\tA float64\n\t\t\t}\n\t\t\tq := &P{}\n\t\t\tq.A = 0.5\n\t\t}\n\t}\n}\nf()\n",
			"2\n2\n", "2\n2.5\n"},
	} {
		out, err := runScript(k.src)
		c.Rep.Oracle["open-finding-witness"]++
		if err == nil && out == k.want {
			continue
		}
		if f, ok := c.Findings[id]; ok && err == nil && out == k.known {
			seen = append(seen, "witness prints "+strings.ReplaceAll(strings.TrimSpace(out), "\n", " / ")+", Go "+strings.ReplaceAll(strings.TrimSpace(k.want), "\n", " / "))
			what = f.What
			continue
		}
		e := ""
		if err != nil {
			e = " ERR " + err.Error()
		}
		c.Rep.Violate(Violation{Kind: "oracle", Cut: "open-finding-witness", Input: k.src, Impl: out + e, Oracle: k.want})
	}
}

// c12TypeObject: correspondence for the type object as declarations build it (Model/Struct.lean: TObj.declare,
// TObj.sync = STRUCT, GLOBALSTRUCT -> syncFields -> addField with Lookup / Order). One history = one VM and 2..5
// declarations of `type T struct {...}` with random subsets of six field names in random order and random field types
// (by successive Evals, or as local types of one name in nested blocks of one function); after every declaration
// `println(&T{})` shows the fields in Order with their zero values; the model must print the same line.
func (c *Ctx) c12TypeObject() error {
	if c.Model == nil {
		return nil
	}
	n := 40
	if c.Thorough() {
		n = 1500
	}
	r := c.RNG
	types := []struct{ name, zero string }{{"int", "0"}, {"string", ""}, {"float64", "0"}, {"bool", "false"}, {"uint8", "0"}}
	for it := 0; it < n; it++ {
		nd := 2 + r.Intn(4)
		nested := r.Intn(3) == 0
		var decls []string
		lines := []string{"to reset"}
		for d := 0; d < nd; d++ {
			perm := []int{0, 1, 2, 3, 4, 5}
			for i := 5; i > 0; i-- {
				j := r.Intn(i + 1)
				perm[i], perm[j] = perm[j], perm[i]
			}
			nf := r.Intn(6)
			if d == 0 {
				nf = 1 + r.Intn(5)
			}
			var sb strings.Builder
			sb.WriteString("type T struct {\n")
			line := "to decl"
			for _, f := range perm[:nf] {
				t := types[r.Intn(len(types))]
				fmt.Fprintf(&sb, "\tf%d %s\n", f, t.name)
				line += fmt.Sprintf(" %d=%s", f, t.zero)
			}
			sb.WriteString("}\n")
			decls = append(decls, sb.String())
			lines = append(lines, line)
		}
		var evals []string
		var out string
		var err error
		if nested {
			var sb strings.Builder
			sb.WriteString("func f() {\n")
			for d, decl := range decls {
				sb.WriteString(decl + "println(&T{})\n")
				if d+1 < len(decls) {
					sb.WriteString("if true {\n")
				}
			}
			sb.WriteString(strings.Repeat("}\n", len(decls)-1) + "}\nf()\n")
			evals = []string{sb.String()}
			out, err = runScript(evals[0])
			c.Rep.Count("typeobj-nested-blocks")
		} else {
			var buf bytes.Buffer
			vm := goat.New(goat.WithStdout(&buf))
			for _, decl := range decls {
				src := decl + "println(&T{})\n"
				evals = append(evals, src)
				if _, err = vm.Eval(fstest.MapFS{}, "main", src); err != nil {
					break
				}
			}
			out = buf.String()
			c.Rep.Count("typeobj-successive-evals")
		}
		impl := []string{"ok"}
		for _, l := range strings.Split(strings.TrimRight(out, "\n"), "\n") {
			l = strings.TrimSuffix(strings.TrimPrefix(l, "&{"), "}")
			var items []string
			for _, item := range strings.Split(l, " ") {
				if name, val, ok := strings.Cut(item, ":"); ok {
					items = append(items, strings.TrimPrefix(name, "f")+"="+val)
				}
			}
			impl = append(impl, strings.Join(items, " "))
		}
		if err != nil {
			impl = append(impl, "ERR "+err.Error())
		}
		ans, merr := c.Model.AskAll(lines)
		if merr != nil {
			return merr
		}
		c.Rep.Seen(strings.Join(lines, ";"), nd > 2)
		for i, a := range ans {
			c.Rep.Corr["type-object"]++
			if i >= len(impl) || a != impl[i] {
				c.Rep.Violate(Violation{Kind: "correspondence", Cut: "type-object", Input: map[string]any{"evals": evals, "model_lines": lines[:i+1]}, Impl: safeIdx(impl, i), Model: a})
				break
			}
		}
		if it == 0 {
			c.Rep.Sample(map[string]any{"type_object_history": evals})
		}
	}
	return nil
}
