package main

// C13 — strings are immutable UTF-8 byte sequences with Go's operations.
//
// cut point stringT:  goatlang's string Values (Len / Get / Slice / Range / opLt / opLte / opEq /
//                     opAdd / convert to []byte, to string, from rune) == Lean model Goat.Str,
//                     on ASCII, multi-byte, invalid and truncated UTF-8          [correspondence]
// cut point literal:  the value goatlang gives to string, raw-string and character literal
//                     spellings (escapes of every kind, malformed ones) == Goat.Str.unquoteString /
//                     unquoteRaw / charLit                                       [correspondence]
// oracle:             native Go on the same byte strings (len, index, slice, range, compare, +,
//                     conversions, strconv.Unquote); generated programs run by goatlang and by
//                     the Go toolchain                                                   [search]

import (
	"encoding/hex"
	"fmt"
	"strconv"
	"strings"
	"unicode/utf8"

	goat "github.com/philhassey/goatlang"
)

func init() { checks["C13"] = runC13 }

func hx(s string) string {
	if s == "" {
		return "-"
	}
	return hex.EncodeToString([]byte(s))
}

var c13Runes = []rune{'a', 'Z', '0', ' ', '~', 0x7f, 0x80, 0xe9, 0x7ff, 0x800, 0x20ac, 0xd7ff, 0xe000, 0xfffd, 0xffff, 0x10000, 0x1f410, 0x10ffff}

// genBytes: a string of one of the classes the quantifier names
func genBytes(r *RNG) (string, string) {
	n := r.Intn(9)
	var sb strings.Builder
	class := Pick(r, []string{"ascii", "multibyte", "multibyte", "invalid", "invalid", "random"})
	for i := 0; i < n; i++ {
		switch class {
		case "ascii":
			sb.WriteByte(byte(32 + r.Intn(95)))
		case "multibyte":
			sb.WriteRune(Pick(r, c13Runes))
		case "invalid":
			switch r.Intn(6) {
			case 0:
				sb.WriteByte(byte(0x80 + r.Intn(0x80))) // stray continuation / invalid lead
			case 1:
				e := string(Pick(r, c13Runes[6:]))
				sb.WriteString(e[:len(e)-1]) // truncated sequence
			case 2:
				sb.Write([]byte{0xed, byte(0xa0 + r.Intn(0x20)), 0x80}) // surrogate
			case 3:
				sb.Write([]byte{Pick(r, []byte{0xc0, 0xc1, 0xe0, 0xf0, 0xf4, 0xf5}), byte(0x80 + r.Intn(0x40)), 0x80, 0x80}) // overlong / out of range
			default:
				sb.WriteRune(Pick(r, c13Runes))
			}
		default:
			sb.WriteByte(byte(r.Intn(256)))
		}
	}
	return sb.String(), class
}

func (c *Ctx) c13Values(n int) (lines, impl []string) {
	r := c.RNG
	tags := goat.VerifTypeTags()
	strTag := tags["string"]
	sliceTag := int(goat.TypeSlice) // `[]byte(s)` compiles to CONVERT slice
	emit := func(l, i string) { lines, impl = append(lines, l), append(impl, i) }
	native := func(what, in, got, want string) {
		c.Rep.Oracle["native-go"]++
		if got != want {
			c.Rep.Violate(Violation{Kind: "oracle", Cut: "native-go", Input: what + " " + in, Impl: got, Oracle: want})
		}
	}
	for it := 0; it < n; it++ {
		s, class := genBytes(r)
		c.Rep.Count("class-" + class)
		if !utf8.ValidString(s) {
			c.Rep.Count("invalid-utf8")
		}
		c.Rep.Seen(s, len(s) > 2)
		v := goat.String(s)
		// len
		emit("str len "+hx(s), fmt.Sprint(v.Len()))
		native("len", hx(s), fmt.Sprint(v.Len()), fmt.Sprint(len(s)))
		// index: every position and one beyond
		for i := 0; i <= len(s); i++ {
			var got string
			if err := try(func() {
				e, _ := v.Get(goat.Int(i))
				got = fmt.Sprint(e.Int())
				if e.VerifTag() != tags["uint8"] {
					got += "!notbyte"
				}
			}); err != nil {
				got = "err"
			}
			emit(fmt.Sprintf("str at %s %d", hx(s), i), got)
			if i < len(s) {
				native("index", hx(s), got, fmt.Sprint(s[i]))
			} else {
				native("index", hx(s), got, "err")
			}
		}
		// slices
		for k := 0; k < 4; k++ {
			i, j := r.Intn(len(s)+2), r.Intn(len(s)+2)
			if k < 3 && i > j {
				i, j = j, i
			}
			var got string
			if err := try(func() { got = hx(v.Slice(i, j).String()) }); err != nil {
				got = "err"
			}
			emit(fmt.Sprintf("str slice %s %d %d", hx(s), i, j), got)
			want := "err"
			if i <= j && j <= len(s) {
				want = hx(s[i:j])
			}
			native("slice", fmt.Sprint(hx(s), i, j), got, want)
		}
		// range
		{
			var w, wn []string
			next := v.Range()
			for {
				k, e, ok := next()
				if !ok {
					break
				}
				w = append(w, fmt.Sprintf("%d:%d", k.Int(), e.Int()))
			}
			for i, e := range s {
				wn = append(wn, fmt.Sprintf("%d:%d", i, e))
			}
			emit("str range "+hx(s), strings.Join(w, " "))
			native("range", hx(s), strings.Join(w, " "), strings.Join(wn, " "))
		}
		// compare / concatenate with a related string
		t, _ := genBytes(r)
		switch r.Intn(4) {
		case 0:
			t = s
		case 1:
			t = s + t
		case 2:
			if len(s) > 0 {
				k := r.Intn(len(s))
				t = s[:k] + string([]byte{byte(r.Intn(256))}) + s[k+1:]
			}
		}
		tv := goat.String(t)
		lt, _ := v.VerifOp("lt", tv)
		gt, _ := tv.VerifOp("lt", v)
		eq, _ := v.VerifOp("eq", tv)
		lte, _ := v.VerifOp("lte", tv)
		neq, _ := v.VerifOp("neq", tv)
		rel := "eq"
		switch {
		case lt.Bool() && !gt.Bool() && !eq.Bool() && lte.Bool() && neq.Bool():
			rel = "lt"
		case gt.Bool() && !lt.Bool() && !eq.Bool() && !lte.Bool() && neq.Bool():
			rel = "gt"
		case eq.Bool() && !lt.Bool() && !gt.Bool() && lte.Bool() && !neq.Bool():
			rel = "eq"
		default:
			rel = fmt.Sprintf("inconsistent lt=%v gt=%v eq=%v lte=%v neq=%v", lt.Bool(), gt.Bool(), eq.Bool(), lte.Bool(), neq.Bool())
		}
		emit(fmt.Sprintf("str cmp %s %s", hx(s), hx(t)), rel)
		native("cmp", hx(s)+" "+hx(t), rel, map[int]string{-1: "lt", 0: "eq", 1: "gt"}[strings.Compare(s, t)])
		cat, _ := v.VerifOp("add", tv)
		emit(fmt.Sprintf("str cat %s %s", hx(s), hx(t)), hx(cat.String()))
		native("cat", hx(s)+" "+hx(t), hx(cat.String()), hx(s+t))
		native("operands-unchanged", hx(s)+" "+hx(t), hx(v.String())+" "+hx(tv.String()), hx(s)+" "+hx(t))
		// conversions: string -> []byte -> string, rune -> string
		bs := v.VerifConvert(sliceTag)
		var bl []string
		for i := 0; i < bs.Len(); i++ {
			e, _ := bs.Get(goat.Int(i))
			bl = append(bl, fmt.Sprint(e.Int()))
		}
		var wl []string
		for _, b := range []byte(s) {
			wl = append(wl, fmt.Sprint(b))
		}
		native("to-bytes", hx(s), strings.Join(bl, ","), strings.Join(wl, ","))
		if bs.Len() > 0 { // writing the byte slice must not change the string
			bs.Set(goat.Int(0), goat.Byte(s[0]+1))
			native("bytes-are-a-copy", hx(s), hx(v.String()), hx(s))
			bs.Set(goat.Int(0), goat.Byte(s[0]))
		}
		back := bs.VerifConvert(strTag)
		native("bytes-to-string", hx(s), hx(back.String()), hx(s))
		// string -> []rune -> string
		runeSliceTag := sliceTag | tags["int32"]<<8
		rsl := v.VerifConvert(runeSliceTag)
		var rl, wr []string
		for i := 0; i < rsl.Len(); i++ {
			e, _ := rsl.Get(goat.Int(i))
			rl = append(rl, fmt.Sprint(e.Int()))
		}
		for _, x := range []rune(s) {
			wr = append(wr, fmt.Sprint(x))
		}
		emit("str torunes "+hx(s), strings.Join(rl, ","))
		native("to-runes", hx(s), strings.Join(rl, ","), strings.Join(wr, ","))
		rback := rsl.VerifConvert(strTag)
		emit(strings.TrimRight("str ofrunes "+strings.Join(rl, " "), " "), hx(rback.String()))
		native("runes-to-string", hx(s), hx(rback.String()), hx(string([]rune(s))))
		rn := int(Pick(r, c13Runes))
		switch r.Intn(5) {
		case 0:
			rn = r.Intn(0x110000)
		case 1:
			rn = 0xd800 + r.Intn(0x800) // surrogate: encodes U+FFFD
		}
		rs := goat.Int(rn).VerifConvert(strTag)
		emit(fmt.Sprintf("str rune %d", rn), hx(rs.String()))
		native("rune-to-string", fmt.Sprint(rn), hx(rs.String()), hx(string(rune(rn))))
		if it == 0 {
			c.Rep.Sample(map[string]any{"string_hex": hx(s), "class": class})
		}
	}
	return
}

// ---------------------------------------------------------------- literals

func genLiteralBody(r *RNG, quote byte) (string, bool) {
	var sb strings.Builder
	n := r.Intn(8)
	if quote == '\'' {
		n = 1
	}
	bad := false
	for i := 0; i < n; i++ {
		switch k := r.Intn(20); {
		case k < 5:
			ch := byte(32 + r.Intn(95))
			if ch == quote || ch == '\\' {
				ch = 'q'
			}
			sb.WriteByte(ch)
		case k < 8:
			sb.WriteRune(Pick(r, c13Runes[6:]))
		case k < 11:
			sb.WriteString(`\` + Pick(r, []string{"a", "b", "f", "n", "r", "t", "v", `\`, string(quote)}))
		case k < 13:
			sb.WriteString(fmt.Sprintf(`\x%02x`, r.Intn(256)))
			if r.Intn(2) == 0 && quote == '"' {
				sb.WriteString(fmt.Sprintf("%x", r.Intn(16))) // a hex digit right after the escape is an ordinary character
			}
		case k < 15:
			sb.WriteString(fmt.Sprintf(`\%03o`, r.Intn(256)))
		case k < 17:
			sb.WriteString(fmt.Sprintf(`\u%04x`, Pick(r, []int{0x41, 0xe9, 0x7ff, 0x800, 0x20ac, 0xd7ff, 0xe000, 0xffff})))
		case k < 18:
			sb.WriteString(fmt.Sprintf(`\U%08x`, Pick(r, []int{0x41, 0x1f410, 0x10ffff, 0x10000})))
		default: // malformed
			bad = true
			sb.WriteString(Pick(r, []string{`\q`, `\x1`, `\xg0`, `\u12`, `\ud800`, `\U00110000`, `\400`, `\8`, `\18`, `\`}))
			if quote == '"' {
				sb.WriteString(Pick(r, []string{`\'`, "z"}))
			} else {
				sb.WriteString(Pick(r, []string{"", "z", `\"`}))
			}
		}
	}
	return sb.String(), bad
}

func evalLiteral(src string) (goat.Value, error) {
	var res goat.Value
	var err error
	if e := try(func() {
		vm := goat.New()
		var rets []goat.Value
		rets, err = vm.VerifEval(src, true)
		if err == nil && len(rets) == 1 {
			res = rets[0]
		} else if err == nil {
			err = fmt.Errorf("%d values", len(rets))
		}
	}); e != nil {
		err = e
	}
	return res, err
}

func (c *Ctx) c13Literals(n int) (lines, impl []string) {
	r := c.RNG
	for it := 0; it < n; it++ {
		switch r.Intn(5) {
		case 0, 1, 2: // interpreted string
			body, bad := genLiteralBody(r, '"')
			src := `"` + body + `"`
			got := "err"
			v, err := evalLiteral(src)
			if err == nil {
				got = hx(v.String())
			}
			want := "err"
			if u, e := strconv.Unquote(src); e == nil {
				want = hx(u)
			}
			lines, impl = append(lines, "str unq "+hx(body)), append(impl, got)
			c.Rep.Oracle["strconv"]++
			if got != want {
				c.Rep.Violate(Violation{Kind: "oracle", Cut: "strconv", Input: src, Impl: got, Oracle: want})
			}
			c.Rep.Count("lit-string")
			if bad {
				c.Rep.Count("lit-malformed")
			}
			c.Rep.Seen(src, len(body) > 3)
		case 3: // raw string
			var sb strings.Builder
			for k := r.Intn(8); k > 0; k-- {
				switch r.Intn(6) {
				case 0:
					sb.WriteByte('\r')
				case 1:
					sb.WriteByte('\n')
				case 2:
					sb.WriteString(Pick(r, []string{`\n`, `\`, `"`, `'`, `\x41`}))
				case 3:
					sb.WriteRune(Pick(r, c13Runes[6:]))
				default:
					sb.WriteByte(byte(32 + r.Intn(64))) // no backtick (96)
				}
			}
			body := sb.String()
			src := "`" + body + "`"
			got := "err"
			v, err := evalLiteral(src)
			if err == nil {
				got = hx(v.String())
			}
			lines, impl = append(lines, "str raw "+hx(body)), append(impl, got)
			c.Rep.Oracle["strconv"]++
			if u, e := strconv.Unquote(src); e == nil && hx(u) != got {
				c.Rep.Violate(Violation{Kind: "oracle", Cut: "strconv", Input: src, Impl: got, Oracle: hx(u)})
			}
			c.Rep.Count("lit-raw")
			c.Rep.Seen(src, len(body) > 3)
		default: // character literal
			body, bad := genLiteralBody(r, '\'')
			if r.Intn(12) == 0 {
				body += "x" // two characters
			}
			src := "'" + body + "'"
			got := "err"
			v, err := evalLiteral(src)
			if err == nil {
				got = fmt.Sprint(v.Int())
			}
			want := "err"
			if ch, _, tail, e := strconv.UnquoteChar(body, '\''); e == nil && tail == "" && body != "" {
				want = fmt.Sprint(ch)
			}
			lines, impl = append(lines, "str chr "+hx(body)), append(impl, got)
			c.Rep.Oracle["strconv"]++
			if got != want {
				c.Rep.Violate(Violation{Kind: "oracle", Cut: "strconv", Input: src, Impl: got, Oracle: want})
			}
			c.Rep.Count("lit-char")
			if bad {
				c.Rep.Count("lit-malformed")
			}
			c.Rep.Seen(src, true)
		}
	}
	return
}

// ---------------------------------------------------------------- programs vs the Go toolchain

func goQuote(r *RNG, s string) string {
	// a spelling of s as a Go literal; both engines read the same spelling
	if utf8.ValidString(s) && !strings.ContainsAny(s, "`\r") && r.Intn(4) == 0 {
		return "`" + s + "`"
	}
	var sb strings.Builder
	sb.WriteByte('"')
	for len(s) > 0 {
		rn, w := utf8.DecodeRuneInString(s)
		switch {
		case rn == utf8.RuneError && w == 1:
			fmt.Fprintf(&sb, `\x%02x`, s[0])
		case rn == '"' || rn == '\\':
			sb.WriteByte('\\')
			sb.WriteRune(rn)
		case rn < 32 || rn == 0x7f:
			sb.WriteString(Pick(r, []string{fmt.Sprintf(`\x%02x`, rn), fmt.Sprintf(`\%03o`, rn), fmt.Sprintf(`\u%04x`, rn)}))
		case rn >= 0x80 && r.Intn(3) == 0:
			if rn > 0xffff {
				fmt.Fprintf(&sb, `\U%08x`, rn)
			} else {
				fmt.Fprintf(&sb, `\u%04x`, rn)
			}
		default:
			sb.WriteRune(rn)
		}
		s = s[w:]
	}
	sb.WriteByte('"')
	return sb.String()
}

func c13Program(r *RNG) (GoProg, map[string]bool) {
	feat := map[string]bool{}
	var sb strings.Builder
	w := func(f string, a ...any) { fmt.Fprintf(&sb, f, a...) }
	w("type RuneS []rune\n\ntype Int32S []int32\n\ntype RuneT rune\n\n")
	w("func digits(s string) int {\n\tn := 0\n\tfor i := 0; i < len(s); i++ {\n\t\tif s[i]-'0' <= 9 {\n\t\t\tn++\n\t\t}\n\t}\n\treturn n\n}\n\n")
	w("func main() {\n")
	// an interpreted and a raw literal with the same text between the quotes are different strings when the text
	// holds an escape; both spellings in one program, in both orders, and used again afterwards
	for _, in := range []string{Pick(r, []string{`x\ty`, `\n`, `\x41b`, `a\\b`, `\u00e9`, `q\"`}), `plain`} {
		if strings.HasSuffix(in, `\"`) { // (a raw string cannot end that way next to the closing quote: keep it inside)
			in += "z"
		}
		if r.Bool() {
			w("if true {\n\ta := \"%s\"\n\tb := `%s`\n\tprintln(\"lit\", len(a), len(b), a == b, a, b)\n\tc := \"%s\"\n\tprintln(len(c), c == a, c == b)\n}\n", in, in, in)
		} else {
			w("if true {\n\tb := `%s`\n\ta := \"%s\"\n\tprintln(\"lit\", len(a), len(b), a == b, a, b)\n\td := `%s`\n\tprintln(len(d), d == a, d == b)\n}\n", in, in, in)
		}
	}
	feat["raw-and-interpreted-same-text"] = true
	names := []string{"s", "t", "u"}
	vals := map[string]string{}
	for _, n := range names {
		v, class := genBytes(r)
		if r.Intn(5) == 0 {
			v = Pick(r, []string{"12 4a", "", "it's", "q\"q", "a\tb\n"})
		}
		vals[n] = v
		feat["class-"+class] = true
		w("%s := %s\n", n, goQuote(r, v))
	}
	w("println(\"init\", len(s), len(t), len(u))\n")
	nst := 4 + r.Intn(10)
	for k := 0; k < nst; k++ {
		a, b := Pick(r, names), Pick(r, names)
		va := vals[a]
		switch r.Intn(14) {
		case 0:
			w("println(\"len\", len(%s), %s)\n", a, a)
		case 1:
			if len(va) > 0 {
				i := r.Intn(len(va))
				w("println(\"idx\", %s[%d], %s[%d]+200, %s[%d] == '%s')\n", a, i, a, i, a, i, Pick(r, []string{"a", "0", `\'`, `\\`, `\n`, "é"}))
				feat["index"] = true
			}
		case 2:
			i := r.Intn(len(va) + 1)
			j := i + r.Intn(len(va)-i+1)
			switch r.Intn(3) {
			case 0:
				w("println(\"sl\", %s[%d:%d])\n", a, i, j)
			case 1:
				w("println(\"sl\", %s[%d:])\n", a, i)
			default:
				w("println(\"sl\", %s[:%d])\n", a, j)
			}
			feat["slice"] = true
		case 3:
			w("for i, r := range %s {\n\tprintln(\"r\", i, r, string(r))\n}\n", a)
			feat["range"] = true
		case 4:
			w("println(\"cmp\", %s < %s, %s <= %s, %s == %s, %s != %s, %s > %s, %s >= %s)\n", a, b, a, b, a, b, a, b, a, b, a, b)
			feat["compare"] = true
		case 5:
			w("if true {\n\told := %s\n\t%s += %s\n\tprintln(\"cat\", len(%s), %s, len(old), old)\n}\n", a, a, b, a, a)
			vals[a] = va + vals[b]
			feat["concat-assign"] = true
		case 6:
			w("println(\"plus\", %s+%s, %s+\"-\"+%s)\n", a, b, b, a)
			feat["concat"] = true
		case 7:
			w("if true {\n\tbs := []byte(%s)\n\tprintln(\"bytes\", len(bs))\n", a)
			if len(va) > 0 {
				w("\tbs[0] = bs[0] + 1\n\tprintln(\"copy\", bs[0], %s[0], string(bs) == %s)\n", a, a)
			}
			w("\tprintln(\"back\", string(bs))\n\tb2 := append([]byte(\"x\"), %s...)\n\tvar b3 []byte\n\tb3 = append(b3, %s...)\n\tprintln(\"app\", len(b2), string(b2), len(b3), string(b3) == %s)\n}\n", a, a, a)
			w("if true {\n\tcb := make([]byte, len(%s)+1)\n\tcn := copy(cb, %s)\n\tprintln(\"copy\", cn, string(cb[:cn]) == %s, cb[len(cb)-1])\n}\n", a, a, a)
			feat["to-bytes"] = true
			feat["append-string-spread"] = true
			feat["copy-from-string"] = true
			if r.Bool() {
				// rune is int32: the conversion may be spelled with either name, or with a type defined from them
				rt := Pick(r, []string{"[]rune", "[]rune", "[]int32", "RuneS", "Int32S", "[]RuneT"})
				w("if true {\n\trs := %s(%s)\n\tprintln(\"runes\", len(rs), string(rs) == %s, string(rs))\n\tfor i, x := range rs {\n\t\tprintln(i, x)\n\t}\n}\n", rt, a, a)
				feat["to-runes"] = true
				feat["to-runes-spelled-"+rt] = true
			}
		case 8:
			w("println(\"digits\", digits(%s))\n", a)
			feat["byte-arith"] = true
		case 9:
			rn := Pick(r, c13Runes)
			w("if true {\n\tvar c rune = %d\n\tprintln(\"rune\", string(c), len(string(c)))\n}\n", rn)
			feat["rune-to-string"] = true
		case 10:
			w("switch %s {\ncase %s:\n\tprintln(\"sw same\")\ncase \"\":\n\tprintln(\"sw empty\")\ndefault:\n\tprintln(\"sw other\")\n}\n", a, b)
			feat["switch"] = true
		case 11:
			w("println(\"chars\", 'a', '\\'', '\\\\', '\\n', '\\x41', '\\u00e9', 'é', '\\377', '\"')\n")
			feat["char-literals"] = true
		case 12:
			nv, _ := genBytes(r)
			vals[a] = nv
			w("%s = %s\n", a, goQuote(r, nv))
		default:
			if len(va) > 0 {
				w("if true {\n\tn := 0\n\tfor i := range %s {\n\t\tn += i\n\t}\n\tprintln(\"offs\", n)\n}\n", a)
				feat["range-index-only"] = true
			}
		}
	}
	if r.Intn(6) == 0 { // out-of-range, ends the program
		a := Pick(r, names)
		if r.Bool() {
			w("println(%s[len(%s)+%d])\n", a, a, r.Intn(2))
		} else {
			w("k := len(%s) + 1\nprintln(%s[1:k])\n", a, a)
		}
		feat["error-last"] = true
	}
	w("}\n")
	return GoProg{Src: sb.String()}, feat
}

func (c *Ctx) c13Scripts() error {
	n := 120
	if c.Thorough() {
		n = 3000
	}
	for done := 0; done < n; {
		batch := min(n-done, 500)
		var progs []GoProg
		var feats []map[string]bool
		for i := 0; i < batch; i++ {
			p, f := c13Program(c.RNG)
			progs, feats = append(progs, p), append(feats, f)
		}
		res, err := GoBatch(progs)
		if err != nil {
			return err
		}
		for i, p := range progs {
			c.Rep.Oracle["go-toolchain"]++
			c.Rep.Seen(p.Src, len(feats[i]) > 4)
			for f := range feats[i] {
				c.Rep.Count("script-" + f)
			}
			if res[i].Status == "compile-error" || res[i].Status == "timeout" {
				c.Rep.Count("script-go-" + res[i].Status)
				if c.Rep.Dist["script-go-"+res[i].Status] == 1 {
					c.Rep.Sample(map[string]any{"go_" + res[i].Status: p.Src, "out": res[i].Out})
				}
				continue
			}
			st, out := RunGoat(p)
			c.Rep.Count("script-status-" + res[i].Status)
			if st != res[i].Status || out != res[i].Out {
				c.Rep.Violate(Violation{Kind: "oracle", Cut: "go-toolchain", Input: p.Src,
					Impl: st + "\n" + out, Oracle: res[i].Status + "\n" + res[i].Out})
			}
			if done == 0 && i == 0 {
				c.Rep.Sample(map[string]any{"program": p.Src})
			}
		}
		done += batch
	}
	return nil
}

func runC13(c *Ctx) error {
	// handwritten programs (shapes that once slipped through), run by the Go toolchain
	if err := c.runCorpus("C13-programs"); err != nil {
		return err
	}
	c.Rep.Rule = "stringT: byte strings of length 0..40 of the classes ascii / valid multi-byte (1..4-byte encodings incl. the boundary code points) / invalid (stray continuation and lead bytes, truncated sequences, surrogates, overlong and out-of-range forms) / random bytes: len, every index and one beyond, four slices (in and out of range), range, all six comparisons and + against a related string (equal, extension, one byte changed, unrelated), []byte round trip and copy semantics, []rune(s) and string([]rune), string(rune) for boundary, random and surrogate values; literal: interpreted strings, raw strings and character literals built from plain characters, multi-byte characters, every simple escape, \\x \\ooo \\u \\U escapes and malformed escapes; go-toolchain: programs over three string variables with literal spellings chosen at random; distinct = distinct string / literal / program; non-trivial = longer than 2 bytes / 3 bytes of literal / more than 4 features"
	nv, nl := 400, 1500
	if c.Thorough() {
		nv, nl = 60000, 300000
	}
	l1, i1 := c.c13Values(nv)
	l2, i2 := c.c13Literals(nl)
	lines, impl := append(l1, l2...), append(i1, i2...)
	if c.Model != nil {
		ans, err := c.Model.AskAll(lines)
		if err != nil {
			return err
		}
		for i, a := range ans {
			cut := "stringT"
			if i >= len(l1) {
				cut = "literal"
			}
			c.Rep.Corr[cut]++
			if a != impl[i] {
				c.Rep.Violate(Violation{Kind: "correspondence", Cut: cut, Input: lines[i], Impl: impl[i], Model: a})
			}
		}
	}
	return c.c13Scripts()
}
