package main

// C14 — printed values look as Go prints them, and printing always terminates.
//
// cut point scalar: Value.String() of host-built booleans, integers of every width and floats of
//                   every class == Lean model Goat.Print (fmtScalar / fmtFloat)        [correspondence]
// cut point render: stdout of generated scripts that build nested slices / single-entry maps (to
//                   depth 5) and object graphs with cycles, and print them with println,
//                   fmt.Println, single-operand fmt.Print / fmt.Sprint == Goat.Print.str / println
//                                                                                  [correspondence]
// oracle:           native fmt.Sprint for scalars; the Go toolchain for the programs that print
//                   only what Go renders the same way (no nested pointers, no nil)          [search]

import (
	"bytes"
	"encoding/hex"
	"fmt"
	"math"
	"sort"
	"strconv"
	"strings"
	"testing/fstest"
	"time"

	goat "github.com/philhassey/goatlang"
)

func init() { checks["C14"] = runC14 }

func floatTok(f float64) string {
	switch {
	case math.IsNaN(f):
		return "Fnan"
	case math.IsInf(f, 1):
		return "F+inf"
	case math.IsInf(f, -1):
		return "F-inf"
	}
	s := strconv.FormatFloat(f, 'e', -1, 64) // d.ddde±XX, shortest round-trip digits
	sign := "+"
	if s[0] == '-' {
		sign, s = "-", s[1:]
	}
	mant, exp, _ := strings.Cut(s, "e")
	e, _ := strconv.Atoi(exp)
	return "F" + sign + strings.Replace(mant, ".", "", 1) + "e" + strconv.Itoa(e)
}

func strTok(s string) string { return "s" + hex.EncodeToString([]byte(s)) }

var c14Floats = []float64{0, math.Copysign(0, -1), 1, -1, 1.5, 0.1, 1e20, 1e21, 1.5e21, 9.99e20, 1e-4, 1e-5, 1.25e-5, 0.00012345,
	123456789, 1e8, 1e6, 100000, 3e9, 2147483648, 4294967296, 1e100, 1e-100, math.MaxFloat64, math.SmallestNonzeroFloat64,
	2.2250738585072014e-308, math.Pi, 1.0 / 3, 123.456, -0.000001, 1e15, 1e16, 1e17, 123456789012345678, 0.5, 255, 65536.5,
	math.NaN(), math.Inf(1), math.Inf(-1)}

func (c *Ctx) c14Scalars(n int) (lines, impl []string) {
	r := c.RNG
	emit := func(tok string, v goat.Value, want string) {
		got := hx(v.String())
		lines, impl = append(lines, "print str "+tok), append(impl, got)
		c.Rep.Oracle["native-fmt"]++
		if got != hx(want) {
			c.Rep.Violate(Violation{Kind: "oracle", Cut: "native-fmt", Input: tok, Impl: v.String(), Oracle: want})
		}
	}
	for it := 0; it < n; it++ {
		switch r.Intn(8) {
		case 0:
			b := r.Bool()
			emit(map[bool]string{true: "b1", false: "b0"}[b], goat.Bool(b), fmt.Sprint(b))
			c.Rep.Count("bool")
		case 1:
			x := int32(Pick(r, []int64{0, 1, -1, math.MaxInt32, math.MinInt32, int64(int32(r.U64()))}))
			emit(fmt.Sprintf("i%d", x), goat.Int32(x), fmt.Sprint(x))
			c.Rep.Count("int32")
		case 2:
			x := uint32(Pick(r, []uint64{0, 1, math.MaxUint32, 1 << 31, 1<<31 - 1, 4000000000, r.U64() & 0xffffffff}))
			emit(fmt.Sprintf("i%d", x), goat.Uint32(x), fmt.Sprint(x))
			c.Rep.Count("uint32")
		case 3:
			x := int8(r.U64())
			emit(fmt.Sprintf("i%d", x), goat.Int8(x), fmt.Sprint(x))
			c.Rep.Count("int8")
		case 4:
			x := uint8(r.U64())
			emit(fmt.Sprintf("i%d", x), goat.Uint8(x), fmt.Sprint(x))
			c.Rep.Count("uint8")
		default:
			var f float64
			switch r.Intn(5) {
			case 0:
				f = Pick(r, c14Floats)
				c.Rep.Count("float-boundary")
			case 1:
				f = math.Float64frombits(r.U64()) // every exponent, incl. NaN payloads and subnormals
				c.Rep.Count("float-bits")
			case 2:
				f = float64(int64(r.U64()>>uint(r.Intn(64)))) * Pick(r, []float64{1, -1})
				c.Rep.Count("float-integral")
			case 3:
				f = float64(r.Intn(2000000)-1000000) / Pick(r, []float64{10, 100, 1000, 1e6, 1e9})
				c.Rep.Count("float-decimal")
			default:
				f = math.Pow(10, float64(r.Intn(50)-25)) * (1 + float64(r.Intn(9)))
				c.Rep.Count("float-power")
			}
			switch {
			case math.IsNaN(f):
				c.Rep.Count("float-nan")
			case math.IsInf(f, 0):
				c.Rep.Count("float-inf")
			case f != 0 && (math.Abs(f) >= 1e21 || math.Abs(f) < 1e-4):
				c.Rep.Count("float-exp-form")
			}
			emit(floatTok(f), goat.Float64(f), fmt.Sprint(f))
		}
	}
	// strings print as themselves (valid UTF-8 for the model; arbitrary bytes natively)
	for it := 0; it < n/8; it++ {
		s, _ := genBytes(r)
		v := goat.String(s)
		c.Rep.Oracle["native-fmt"]++
		if v.String() != s {
			c.Rep.Violate(Violation{Kind: "oracle", Cut: "native-fmt", Input: hx(s), Impl: hx(v.String()), Oracle: hx(s)})
		}
		if validUTF8(s) {
			lines, impl = append(lines, "print str "+strTok(s)), append(impl, hx(s))
		}
		c.Rep.Count("string")
	}
	return
}

func validUTF8(s string) bool { return strings.ToValidUTF8(s, "\x00") == s }

// ---------------------------------------------------------------- generated values

type pty struct {
	kind string // int string float64 bool byte int8 uint32 | slice | map | ptr
	elem *pty
	key  string // map key type: string | int
}

func (t *pty) goText() string {
	switch t.kind {
	case "slice":
		return "[]" + t.elem.goText()
	case "map":
		return "map[" + t.key + "]" + t.elem.goText()
	case "ptr":
		return "*T"
	}
	return t.kind
}

func (t *pty) code() string {
	switch t.kind {
	case "slice":
		return "L" + t.elem.code()
	case "map":
		return "M" + t.elem.code()
	case "ptr":
		return "T"
	}
	return "S"
}

type pval struct {
	src string // Go source text
	tok string // model tokens
	ref bool   // contains a struct reference or nil reference
}

var c14Strings = []string{"a", "", "a b", "[x]", "nil", "&{", "map[", "héllo", "1", "true", "...", "🐐", "100%", "%d items", "a%sb%v", "%!"}

func genScalar(r *RNG, kind string) pval {
	switch kind {
	case "int":
		x := Pick(r, []int{0, 1, -1, 42, 2147483647, -2147483648, 1000000, r.Intn(100000) - 50000})
		if x == -2147483648 {
			return pval{src: "-2147483647 - 1", tok: "i-2147483648"}
		}
		return pval{src: fmt.Sprint(x), tok: fmt.Sprintf("i%d", x)}
	case "string":
		s := Pick(r, c14Strings)
		return pval{src: strconv.Quote(s), tok: strTok(s)}
	case "float64":
		f := Pick(r, c14Floats[:len(c14Floats)-3])
		if r.Intn(3) == 0 {
			f = float64(r.Intn(2000000)-1000000) / Pick(r, []float64{1, 10, 1000, 1e6})
		}
		src := strconv.FormatFloat(f, 'g', -1, 64)
		if !strings.ContainsAny(src, ".e") {
			src += ".0"
		}
		if math.Signbit(f) && f == 0 {
			src = "negZero"
		}
		return pval{src: src, tok: floatTok(f)}
	case "bool":
		b := r.Bool()
		return pval{src: fmt.Sprint(b), tok: map[bool]string{true: "b1", false: "b0"}[b]}
	case "byte":
		x := r.Intn(256)
		return pval{src: fmt.Sprint(x), tok: fmt.Sprintf("i%d", x)}
	case "int8":
		x := r.Intn(256) - 128
		return pval{src: fmt.Sprint(x), tok: fmt.Sprintf("i%d", x)}
	default: // uint32
		x := Pick(r, []uint32{0, 4294967295, 2147483648, 4000000000, uint32(r.U64())})
		return pval{src: fmt.Sprint(x), tok: fmt.Sprintf("i%d", x)}
	}
}

// bits the packed Type encoding needs (value.go sliceType / mapType): 8 per slice level, 16 per map level
func (t *pty) bits() int {
	switch t.kind {
	case "slice":
		return 8 + t.elem.bits()
	case "map":
		return 16 + t.elem.bits()
	}
	return 8
}

// genType avoids types whose packed encoding does not fit an int (known finding C14/type-encoding-64-bits,
// replayed separately by c14TypeBitsWitness)
func genType(r *RNG, depth int, allowPtr bool) *pty {
	for {
		if t := genType1(r, depth, allowPtr); t.bits() <= 63 {
			return t
		}
	}
}

func genType1(r *RNG, depth int, allowPtr bool) *pty {
	if depth == 0 || r.Intn(5) == 0 {
		if allowPtr && r.Intn(3) == 0 {
			return &pty{kind: "ptr"}
		}
		return &pty{kind: Pick(r, []string{"int", "int", "string", "float64", "bool", "byte", "int8", "uint32"})}
	}
	if r.Intn(3) == 0 {
		return &pty{kind: "map", key: Pick(r, []string{"string", "int"}), elem: genType1(r, depth-1, allowPtr)}
	}
	return &pty{kind: "slice", elem: genType1(r, depth-1, allowPtr)}
}

// genVal builds a value of type t; inner: inside a composite literal (element type elided)
func genVal(r *RNG, t *pty, nobj int, inner bool) pval {
	switch t.kind {
	case "slice":
		n := r.Intn(4)
		if r.Intn(6) == 0 {
			n = 0
		}
		var srcs, toks []string
		ref := false
		for i := 0; i < n; i++ {
			e := genVal(r, t.elem, nobj, true)
			srcs, toks = append(srcs, e.src), append(toks, e.tok)
			ref = ref || e.ref
		}
		prefix := t.goText()
		if inner {
			prefix = ""
		}
		tok := "[ " + t.code() + " " + strings.Join(toks, " ")
		if n > 0 {
			tok += " "
		}
		return pval{src: prefix + "{" + strings.Join(srcs, ", ") + "}", tok: tok + "]", ref: ref}
	case "map":
		prefix := t.goText()
		if inner {
			prefix = ""
		}
		if r.Intn(5) == 0 {
			return pval{src: prefix + "{}", tok: "{} " + t.code()}
		}
		k := genScalar(r, t.key)
		v := genVal(r, t.elem, nobj, true)
		return pval{src: prefix + "{" + k.src + ": " + v.src + "}", tok: "{ " + t.code() + " " + k.tok + " " + v.tok + " }", ref: v.ref}
	case "ptr":
		if nobj == 0 || r.Intn(5) == 0 {
			return pval{src: "nil", tok: "&nil", ref: true}
		}
		a := r.Intn(nobj)
		return pval{src: fmt.Sprintf("o%d", a), tok: fmt.Sprintf("&%d", a), ref: true}
	}
	return genScalar(r, t.kind)
}

type c14Prog struct {
	src    string
	model  []string // model lines
	nprint int
	goOK   bool
	feat   map[string]bool
}

const c14Header = `import "fmt"

type T struct {
	A  int
	S  string
	F  float64
	B  bool
	U  byte
	L  []int
	LL [][]string
	M  map[string]int
	P  *T
	Q  []*T
	R  map[int]*T
}

type V struct {
	A  int
	S  string
	F  float64
	L  []int
	M  map[string][]int
	LL [][]float64
}

`

func c14Program(r *RNG, graph bool) c14Prog {
	p := c14Prog{goOK: !graph, feat: map[string]bool{}}
	var sb strings.Builder
	sb.WriteString(c14Header)
	sb.WriteString("func main() {\nfzero := 0.0\nnegZero := -1.0 * fzero\nprintln(negZero)\n")
	p.model = append(p.model, "print new", "print ln F-0e0")
	p.nprint = 1
	// the negation of a variable that holds zero is negative zero too, at top level and inside containers
	sb.WriteString("println(-fzero, 1/-fzero, []float64{-fzero, fzero - fzero})\n")
	p.model = append(p.model, "print ln F-0e0 F-inf [ LS F-0e0 F+0e0 ]")
	p.nprint++
	tInt, tStr, tF := &pty{kind: "int"}, &pty{kind: "string"}, &pty{kind: "float64"}
	sl := func(t *pty) *pty { return &pty{kind: "slice", elem: t} }
	nobj := 0
	type fieldv struct {
		name string
		v    pval
	}
	var objs [][]fieldv
	if graph {
		nobj = 1 + r.Intn(4)
		for i := 0; i < nobj; i++ {
			fs := []fieldv{
				{"A", genScalar(r, "int")}, {"S", genScalar(r, "string")}, {"F", genScalar(r, "float64")}, {"B", genScalar(r, "bool")},
				{"U", genScalar(r, "byte")}, {"L", genVal(r, sl(tInt), 0, false)}, {"LL", genVal(r, sl(sl(tStr)), 0, false)},
				{"M", genVal(r, &pty{kind: "map", key: "string", elem: tInt}, 0, false)},
				{"P", pval{src: "nil", tok: "&nil"}}, {"Q", pval{src: "[]*T{}", tok: "[ LT ]"}}, {"R", pval{src: "map[int]*T{}", tok: "{} MT"}},
			}
			var parts []string
			for _, f := range fs[:8] {
				parts = append(parts, f.name+": "+f.v.src)
			}
			fmt.Fprintf(&sb, "o%d := &T{%s}\n", i, strings.Join(parts, ", "))
			objs = append(objs, fs)
		}
		// links, possibly cyclic
		for i := 0; i < nobj; i++ {
			if r.Intn(4) > 0 {
				v := genVal(r, &pty{kind: "ptr"}, nobj, false)
				fmt.Fprintf(&sb, "o%d.P = %s\n", i, v.src)
				objs[i][8].v = v
				if v.src == fmt.Sprintf("o%d", i) {
					p.feat["self-loop"] = true
				}
				p.feat["link"] = true
			}
			if r.Intn(3) == 0 {
				v := genVal(r, sl(&pty{kind: "ptr"}), nobj, false)
				fmt.Fprintf(&sb, "o%d.Q = %s\n", i, v.src)
				objs[i][9].v = v
				p.feat["slice-of-refs-field"] = true
			}
			if r.Intn(4) == 0 {
				v := genVal(r, &pty{kind: "map", key: "int", elem: &pty{kind: "ptr"}}, nobj, false)
				fmt.Fprintf(&sb, "o%d.R = %s\n", i, v.src)
				objs[i][10].v = v
				p.feat["map-of-refs-field"] = true
			}
		}
		for _, fs := range objs {
			var toks []string
			for _, f := range fs {
				toks = append(toks, f.name, f.v.tok)
			}
			p.model = append(p.model, "print obj "+strings.Join(toks, " "))
		}
	}
	nst := 3 + r.Intn(8)
	for k := 0; k < nst; k++ {
		nops := 1
		form := r.Intn(6)
		if form < 3 {
			nops = 1 + r.Intn(3)
		}
		var srcs, toks []string
		for o := 0; o < nops; o++ {
			var v pval
			switch {
			case graph && r.Intn(3) == 0:
				v = genVal(r, &pty{kind: "ptr"}, nobj, false)
				p.feat["print-ref"] = true
			case !graph && r.Intn(25) == 0: // a struct without pointer fields, printed at top level
				fa, fs, ff := genScalar(r, "int"), genScalar(r, "string"), genScalar(r, "float64")
				fl := genVal(r, sl(tInt), 0, false)
				fm := genVal(r, &pty{kind: "map", key: "string", elem: sl(tInt)}, 0, false)
				fll := genVal(r, sl(sl(tF)), 0, false)
				v = pval{src: fmt.Sprintf("&V{A: %s, S: %s, F: %s, L: %s, M: %s, LL: %s}", fa.src, fs.src, ff.src, fl.src, fm.src, fll.src), tok: "&" + fmt.Sprint(len(objs))}
				p.model = append(p.model, "print obj A "+fa.tok+" S "+fs.tok+" F "+ff.tok+" L "+fl.tok+" M "+fm.tok+" LL "+fll.tok)
				objs = append(objs, nil)
				p.feat["print-plain-struct"] = true
				p.goOK = false // Go's %v omits the field names (goatlang prints Go's %+v form, as the property states)
			default:
				d := r.Intn(6)
				t := genType(r, d, graph)
				v = genVal(r, t, nobj, false)
				if t.kind == "byte" || t.kind == "int8" || t.kind == "uint32" || t.kind == "float64" {
					v.src = t.kind + "(" + v.src + ")"
				}
				if d >= 3 && (t.kind == "slice" || t.kind == "map") {
					p.feat["depth>=3"] = true
				}
				if t.kind == "map" {
					p.feat["map"] = true
				}
				if v.ref {
					p.feat["container-of-refs"] = true
				}
			}
			srcs, toks = append(srcs, v.src), append(toks, v.tok)
		}
		args := strings.Join(srcs, ", ")
		switch form {
		case 0, 1:
			fmt.Fprintf(&sb, "println(%s)\n", args)
			p.model = append(p.model, "print ln "+strings.Join(toks, " "))
			p.feat["println"] = true
		case 2:
			fmt.Fprintf(&sb, "fmt.Println(%s)\n", args)
			p.model = append(p.model, "print ln "+strings.Join(toks, " "))
			p.feat["fmt.Println"] = true
		case 3:
			fmt.Fprintf(&sb, "fmt.Print(%s)\nprintln(\"\")\n", args)
			p.model = append(p.model, "print ln "+toks[0])
			p.feat["fmt.Print"] = true
		case 4:
			fmt.Fprintf(&sb, "println(fmt.Sprint(%s))\n", args)
			p.model = append(p.model, "print ln "+toks[0])
			p.feat["fmt.Sprint"] = true
		default:
			if args == "nil" {
				args = "\"nil\""
			}
			fmt.Fprintf(&sb, "if true {\n\tx := %s\n\tprintln(x, x)\n}\n", args)
			p.model = append(p.model, "print ln "+toks[0]+" "+toks[0])
			p.feat["via-variable"] = true
		}
		p.nprint++
	}
	sb.WriteString("}\n")
	p.src = sb.String()
	return p
}

// c14Separators: operands are separated by exactly one space whatever they render to (empty strings in leading,
// middle and trailing position), for every printing entry point; the expected text is what Go prints
func (c *Ctx) c14Separators() {
	src := "import \"fmt\"\ne := \"\"\nprintln(\"\", \"x\")\nprintln(\"\", \"\", true)\nprintln(\"a\", \"\", \"b\")\nprintln(\"a\", \"\")\nprintln(e, 1, e, 2.5, e)\nfmt.Println(\"\", 1)\nfmt.Println(e, e)\nprintln(\"%\", \"100%\", \"%d\")\n"
	want := " x\n  true\na  b\na \n 1  2.5 \n 1\n \n% 100% %d\n"
	out, err := runScript(src)
	c.Rep.Oracle["operand-separators"]++
	if err != nil || out != want {
		c.Rep.Violate(Violation{Kind: "oracle", Cut: "operand-separators", Input: src, Impl: fmt.Sprintf("%q err=%v", out, err), Oracle: fmt.Sprintf("%q", want)})
	}
}

// c14Redeclared: a struct type whose declaration executes more than once (a function-local type in a function
// called several times; the same source evaluated twice on one VM) still prints every field once, in order
func (c *Ctx) c14Redeclared() {
	var out bytes.Buffer
	vm := goat.New(goat.WithStdout(&out))
	src := "type R struct {\n\tA int\n\tB string\n\tC []int\n}\nfunc mk(k int) {\n\ttype L struct {\n\t\tP int\n\t\tQ string\n\t}\n\tprintln(&L{P: k, Q: \"q\"}, &R{A: k, B: \"b\"})\n}\nmk(1)\nmk(2)\nmk(3)\n"
	var err error
	for i := 0; i < 2 && err == nil; i++ {
		_, err = vm.Eval(fstest.MapFS{}, "main", src)
	}
	want := ""
	for i := 0; i < 2; i++ {
		for k := 1; k <= 3; k++ {
			want += fmt.Sprintf("&{P:%d Q:q} &{A:%d B:b C:[]}\n", k, k)
		}
	}
	c.Rep.Oracle["redeclared-type-format"]++
	if err != nil || out.String() != want {
		c.Rep.Violate(Violation{Kind: "oracle", Cut: "redeclared-type-format", Input: "evaluated twice on one VM:\n" + src, Impl: fmt.Sprintf("%q err=%v", out.String(), err), Oracle: fmt.Sprintf("%q", want)})
	}
}

// c14Histories: containers are printed as they ARE, whatever happened to them before: maps after inserts, deletes,
// overwrites and re-inserts (the entries compared as a set unless at most one is left), slices after append and
// reslicing; printed at top level, nested, through fmt.Sprint, and through the host's Value.String
func (c *Ctx) c14Histories(n int) {
	r := c.RNG
	canon := func(s string) string { // "map[b:2 a:1]" -> entries sorted (keys and values here contain no spaces)
		i := strings.Index(s, "map[")
		j := strings.LastIndex(s, "]")
		if i < 0 || j < i {
			return s
		}
		depth, end := 0, -1
		for k := i + 3; k < len(s); k++ {
			if s[k] == '[' {
				depth++
			} else if s[k] == ']' {
				depth--
				if depth == 0 {
					end = k
					break
				}
			}
		}
		if end < 0 {
			return s
		}
		es := strings.Fields(s[i+4 : end])
		sort.Strings(es)
		return s[:i+4] + strings.Join(es, " ") + s[end:]
	}
	kinds := []struct {
		goT  string
		typ  goat.Type
		keys []string
		mk   func(i int) goat.Value
		nat  func(i int) any
	}{
		{"string", goat.TypeString, []string{`"a"`, `"b"`, `""`, `"k3"`}, func(i int) goat.Value { return goat.String([]string{"a", "b", "", "k3"}[i]) }, func(i int) any { return []string{"a", "b", "", "k3"}[i] }},
		{"int", goat.TypeInt32, []string{"7", "8", "0", "-3"}, func(i int) goat.Value { return goat.Int([]int{7, 8, 0, -3}[i]) }, func(i int) any { return []int{7, 8, 0, -3}[i] }},
		{"float64", goat.TypeFloat64, []string{"1.5", "2", "0", "-0.25"}, func(i int) goat.Value { return goat.Float64([]float64{1.5, 2, 0, -0.25}[i]) }, func(i int) any { return []float64{1.5, 2, 0, -0.25}[i] }},
		{"bool", goat.TypeBool, []string{"true", "false", "true", "false"}, func(i int) goat.Value { return goat.Bool(i%2 == 0) }, func(i int) any { return i%2 == 0 }},
	}
	for it := 0; it < n; it++ {
		kk := kinds[r.Intn(len(kinds))]
		var sb strings.Builder
		fmt.Fprintf(&sb, "import \"fmt\"\n")
		native := map[any]int{}
		var init []goat.Value
		if r.Bool() {
			fmt.Fprintf(&sb, "m := map[%s]int{", kk.goT)
			seen := map[any]bool{}
			for j := r.Intn(4); j > 0; j-- {
				k := r.Intn(4)
				if seen[kk.nat(k)] {
					continue
				}
				seen[kk.nat(k)] = true
				v := r.Intn(90)
				fmt.Fprintf(&sb, "%s: %d, ", kk.keys[k], v)
				native[kk.nat(k)] = v
				init = append(init, kk.mk(k), goat.Int(v))
			}
			sb.WriteString("}\n")
		} else {
			fmt.Fprintf(&sb, "m := make(map[%s]int)\n", kk.goT)
		}
		host := goat.NewMap(kk.typ, goat.TypeInt32, init)
		var want, hostGot []string
		emit := func() {
			w := fmt.Sprint(native)
			switch r.Intn(4) {
			case 0:
				sb.WriteString("println(m)\n")
				want = append(want, w)
			case 1:
				fmt.Fprintf(&sb, "println([]map[%s]int{m}, \"x\")\n", kk.goT)
				want = append(want, "["+w+"] x")
			case 2:
				sb.WriteString("println(fmt.Sprint(m))\n")
				want = append(want, w)
			default:
				fmt.Fprintf(&sb, "fmt.Println([][]map[%s]int{{m}})\n", kk.goT)
				want = append(want, "[["+w+"]]")
			}
			c.Rep.Oracle["container-history"]++
			if g := canon(host.String()); g != canon(w) {
				hostGot = append(hostGot, fmt.Sprintf("host Value.String() = %q want %q", g, canon(w)))
			}
		}
		for j := 3 + r.Intn(12); j > 0; j-- {
			k := r.Intn(4)
			switch op := r.Intn(10); {
			case op < 4:
				v := r.Intn(90)
				fmt.Fprintf(&sb, "m[%s] = %d\n", kk.keys[k], v)
				native[kk.nat(k)] = v
				host.Set(kk.mk(k), goat.Int(v))
			case op < 8:
				fmt.Fprintf(&sb, "delete(m, %s)\n", kk.keys[k])
				delete(native, kk.nat(k))
				host.Delete(kk.mk(k))
			default:
				emit()
			}
		}
		emit()
		src := sb.String()
		out, err := runScript(src)
		c.Rep.Seen(src, true)
		var got []string
		for _, l := range strings.Split(strings.TrimRight(out, "\n"), "\n") {
			got = append(got, canon(l))
		}
		for i := range want {
			want[i] = canon(want[i])
		}
		if err != nil || strings.Join(got, "\n") != strings.Join(want, "\n") || len(hostGot) > 0 {
			c.Rep.Violate(Violation{Kind: "oracle", Cut: "container-history", Input: src, Impl: fmt.Sprintf("%s err=%v %s", strings.Join(got, "\n"), err, strings.Join(hostGot, "; ")), Oracle: strings.Join(want, "\n")})
		}
	}
	// slices after append / reslice / element stores print their current elements
	src := "s := []int{1, 2, 3, 4}\nt := s[1:3]\nt = append(t, 9)\nprintln(s, t, s[:0], s[4:], t[:1])\nt = append(t, 10, 11)\nt[0] = 7\nprintln(s, t, len(t))\nvar z []string\nz = append(z, \"\")\nprintln(z, len(z), z[:0])\n"
	want := "[1 2 3 9] [2 3 9] [] [] [2]\n[1 2 3 9] [7 3 9 10 11] 5\n[] 1 []\n"
	out, err := runScript(src)
	c.Rep.Oracle["container-history"]++
	if err != nil || out != want {
		c.Rep.Violate(Violation{Kind: "oracle", Cut: "container-history", Input: src, Impl: fmt.Sprintf("%q err=%v", out, err), Oracle: fmt.Sprintf("%q", want)})
	}
}

func (c *Ctx) c14Scripts(n int) error {
	c.c14Separators()
	c.c14Redeclared()
	c.c14Histories(n / 2)
	var progs []c14Prog
	var lines []string
	var starts []int
	for i := 0; i < n; i++ {
		p := c14Program(c.RNG, i%2 == 0)
		progs = append(progs, p)
		starts = append(starts, len(lines))
		lines = append(lines, p.model...)
	}
	var ans []string
	if c.Model != nil {
		var err error
		if ans, err = c.Model.AskAll(lines); err != nil {
			return err
		}
	}
	var goProgs []GoProg
	var goIdx []int
	for i, p := range progs {
		c.Rep.Seen(p.src, len(p.feat) > 3)
		for f := range p.feat {
			c.Rep.Count("script-" + f)
		}
		gp := GoProg{Src: strings.Replace(p.src, "import \"fmt\"\n", "", 1), Imports: []string{"fmt"}}
		st, out := RunGoat(gp)
		if i == 0 {
			c.Rep.Sample(map[string]any{"program": p.src})
		}
		if ans != nil {
			var want strings.Builder
			for k, l := range p.model {
				if strings.HasPrefix(l, "print ln") {
					b, err := hex.DecodeString(strings.Replace(ans[starts[i]+k], "-", "", 1))
					if err != nil {
						want.WriteString("<model: " + ans[starts[i]+k] + ">\n")
						continue
					}
					want.Write(b)
				}
				c.Rep.Corr["render"]++
			}
			if st != "ok" || out != want.String() {
				c.Rep.Violate(Violation{Kind: "correspondence", Cut: "render", Input: p.src, Impl: st + "\n" + out, Model: want.String()})
			}
		}
		if p.goOK {
			goProgs, goIdx = append(goProgs, gp), append(goIdx, i)
		}
	}
	for lo := 0; lo < len(goProgs); lo += 500 {
		hi := min(lo+500, len(goProgs))
		res, err := GoBatch(goProgs[lo:hi])
		if err != nil {
			return err
		}
		for k, gr := range res {
			p := progs[goIdx[lo+k]]
			c.Rep.Oracle["go-toolchain"]++
			if gr.Status == "compile-error" || gr.Status == "timeout" {
				c.Rep.Count("script-go-" + gr.Status)
				if c.Rep.Dist["script-go-"+gr.Status] == 1 {
					c.Rep.Sample(map[string]any{"go_" + gr.Status: p.src, "out": gr.Out})
				}
				continue
			}
			st, out := RunGoat(goProgs[lo+k])
			if st != gr.Status || out != gr.Out {
				c.Rep.Violate(Violation{Kind: "oracle", Cut: "go-toolchain", Input: p.src, Impl: st + "\n" + out, Oracle: gr.Status + "\n" + gr.Out})
			}
		}
	}
	return nil
}

// c14TypeBitsWitness replays the recorded finding: a type nested so deep that its packed encoding
// exceeds the 64 bits of Type loses its innermost key/element types.
func (c *Ctx) c14TypeBitsWitness() {
	const id = "type-encoding-64-bits"
	f, ok := c.Findings[id]
	src := "x := []map[int]map[int]map[int]map[string]int{{1: {1: {42: {\"k\": 7}}}}}\nprintln(x)\n"
	out, err := runScript(src)
	want := "[map[1:map[1:map[42:map[k:7]]]]]\n"
	if err == nil && out == want {
		return // no longer fails
	}
	if ok {
		c.Rep.Known = append(c.Rep.Known, id+": "+f.What+" (witness prints "+strings.TrimSpace(out)+")")
		return
	}
	c.Rep.Violate(Violation{Kind: "oracle", Cut: "go-fmt", Input: src, Impl: out, Oracle: want})
}

// c14Cyclic: slices that a host made contain themselves or each other (Set does not check element
// types); String() must terminate and agree with the model's path-cut rendering. A regression here
// overflows the Go stack, which no recover can catch, so each case runs under a watchdog only to
// turn a hang into a report; a stack overflow kills the harness and the check reports the broken run.
func (c *Ctx) c14Cyclic(n int) (lines, impl []string) {
	r := c.RNG
	for it := 0; it < n; it++ {
		k := 1 + r.Intn(4)
		pool := make([]goat.Value, k)
		shape := make([][]string, k)
		for i := range pool {
			ln := 1 + r.Intn(3)
			vals := make([]goat.Value, ln)
			for j := range vals {
				x := r.Intn(10)
				vals[j] = goat.Int(x)
				shape[i] = append(shape[i], fmt.Sprintf("i%d", x))
			}
			pool[i] = goat.NewSlice(goat.TypeInt32, vals)
		}
		for e := r.Intn(2*k + 1); e > 0; e-- {
			i, t := r.Intn(k), r.Intn(k)
			j := r.Intn(len(shape[i]))
			pool[i].Set(goat.Int(j), pool[t])
			shape[i][j] = fmt.Sprintf("c%d", t)
			if i == t {
				c.Rep.Count("cyclic-self-loop")
			}
		}
		top := r.Intn(k)
		var secs []string
		for _, sh := range shape {
			secs = append(secs, strings.Join(sh, " "))
		}
		line := fmt.Sprintf("print cyc %d | %s |", top, strings.Join(secs, " | "))
		if it%50 == 0 || c.Tier == "quick" {
			c.Pending(map[string]any{"cyclic_containers": line})
		}
		done := make(chan string, 1)
		go func() { done <- pool[top].String() }()
		select {
		case s := <-done:
			lines, impl = append(lines, line), append(impl, hx(s))
		case <-time.After(20 * time.Second):
			c.Rep.Violate(Violation{Kind: "crash", Cut: "render", Input: line, Impl: "String() did not return within 20s", Oracle: "terminates"})
			return
		}
		c.Rep.Count("cyclic-host-containers")
		c.Rep.Seen(line, true)
	}
	c.PendingDone()
	return
}

// c14CyclicMixed: object graphs of slices and maps of every key kind (string, int, float64, bool) whose elements are
// any, linked at random (self-loops, cycles through several kinds): rendering terminates and cuts every cycle. Only
// termination is checked here (the announced case is the replay if the process dies of a stack overflow).
// c14StructsThroughAny: a struct printed one level down (a field of the printed struct, an element of the printed
// slice or map) that keeps other struct references in a container of any: the static type of the container says
// nothing about its elements, so the nested struct is cut AT that container - acyclic chains print one level and
// cyclic graphs terminate (a missed cut is unbounded recursion: announced first)
func (c *Ctx) c14StructsThroughAny() {
	const decl = "import \"fmt\"\ntype Node struct {\n\tName string\n\tKids []any\n}\ntype Doc struct {\n\tRoot *Node\n}\ntype Box struct {\n\tAttr map[string]any\n\tAny any\n}\ntype Wrap struct {\n\tB *Box\n}\n"
	for _, q := range []struct{ src, want string }{
		{"a := &Node{Name: \"a\"}\nb := &Node{Name: \"b\"}\nc := &Node{Name: \"c\"}\na.Kids = append(a.Kids, b)\nb.Kids = append(b.Kids, c)\nfmt.Println(&Doc{Root: a})\nfmt.Println([]*Node{a})\nprintln(a)\n",
			"&{Root:&{Name:a Kids:[...]}}\n[&{Name:a Kids:[...]}]\n&{Name:a Kids:[...]}\n"},
		{"root := &Node{Name: \"root\"}\nkid := &Node{Name: \"kid\"}\nroot.Kids = append(root.Kids, kid)\nkid.Kids = append(kid.Kids, root)\nfmt.Println(&Doc{Root: root})\nprintln([]*Node{kid})\ns := fmt.Sprint(&Doc{Root: kid})\nfmt.Print(s)\n",
			"&{Root:&{Name:root Kids:[...]}}\n[&{Name:kid Kids:[...]}]\n&{Root:&{Name:kid Kids:[...]}}"},
		{"b := &Box{Attr: map[string]any{}}\nb.Attr[\"self\"] = b\nb.Any = []any{b}\nw := &Wrap{B: b}\nprintln(w)\nprintln([]*Wrap{w})\nprintln(map[string]*Box{\"k\": b})\n",
			"&{B:&{Attr:map[...] Any:[...]}}\n[&{...}]\nmap[k:&{Attr:map[...] Any:[...]}]\n"},
		{"n := &Node{Name: \"n\", Kids: []any{1, \"x\"}}\nprintln(&Doc{Root: n})\nprintln([]*Node{n, nil})\n", "&{Root:&{Name:n Kids:[1 x]}}\n[&{Name:n Kids:[1 x]} nil]\n"},
	} {
		c.Pending(map[string]any{"structs_through_any": q.src})
		out, err := runScript(decl + q.src)
		c.PendingDone()
		c.Rep.Oracle["structs-through-any"]++
		if err != nil {
			out += "ERROR " + err.Error()
		}
		if out != q.want {
			c.Rep.Violate(Violation{Kind: "oracle", Cut: "structs-through-any", Input: decl + q.src, Impl: out, Oracle: q.want})
		}
	}
}

func (c *Ctx) c14CyclicMixed(n int) {
	r := c.RNG
	keyOf := func(kind, j int) goat.Value {
		switch kind {
		case 1:
			return goat.String(fmt.Sprintf("k%d", j))
		case 2:
			return goat.Int(j)
		case 3:
			return goat.Float64(float64(j) + 0.5)
		}
		return goat.Bool(j%2 == 0)
	}
	keyType := []goat.Type{0, goat.TypeString, goat.TypeInt32, goat.TypeFloat64, goat.TypeBool}
	for it := 0; it < n; it++ {
		k := 1 + r.Intn(4)
		pool := make([]goat.Value, k)
		kinds := make([]int, k)
		var descr []string
		for i := range pool {
			kinds[i] = r.Intn(5) // 0 slice, 1..4 map by key kind
			if kinds[i] == 0 {
				pool[i] = goat.NewSlice(goat.TypeNil, []goat.Value{goat.Int(i), goat.Int(i + 1)})
			} else {
				pool[i] = goat.NewMap(keyType[kinds[i]], goat.TypeNil, nil)
				pool[i].Set(keyOf(kinds[i], 0), goat.Int(i))
			}
		}
		for e := 1 + r.Intn(2*k); e > 0; e-- {
			i, t, j := r.Intn(k), r.Intn(k), r.Intn(2)
			if kinds[i] == 0 {
				pool[i].Set(goat.Int(j), pool[t])
			} else {
				pool[i].Set(keyOf(kinds[i], j), pool[t])
			}
			descr = append(descr, fmt.Sprintf("c%d(kind %d)[%d] = c%d", i, kinds[i], j, t))
		}
		top := r.Intn(k)
		line := fmt.Sprintf("print c%d of: %s", top, strings.Join(descr, "; "))
		c.Pending(map[string]any{"cyclic_mixed_containers": line})
		done := make(chan string, 1)
		go func() { done <- pool[top].String() }()
		select {
		case <-done:
		case <-time.After(60 * time.Second):
			c.Rep.Violate(Violation{Kind: "crash", Cut: "render", Input: line, Impl: "String() did not return within 60s", Oracle: "terminates"})
			c.PendingDone()
			return
		}
		c.PendingDone()
		c.Rep.Oracle["cyclic-mixed-terminates"]++
		c.Rep.Count("cyclic-host-mixed-containers")
	}
}

func runC14(c *Ctx) error {
	// handwritten programs (shapes that once slipped through), run by the Go toolchain
	if err := c.runCorpus("C14-programs"); err != nil {
		return err
	}
	c.c14TypeBitsWitness()
	c.c14StructsThroughAny()
	if c.Thorough() {
		c.c14CyclicMixed(20000)
	} else {
		c.c14CyclicMixed(400)
	}
	{
		nc := 300
		if c.Thorough() {
			nc = 30000
		}
		cl, ci := c.c14Cyclic(nc)
		if c.Model != nil {
			ans, err := c.Model.AskAll(cl)
			if err != nil {
				return err
			}
			for i, a := range ans {
				c.Rep.Corr["render"]++
				if a != ci[i] {
					c.Rep.Violate(Violation{Kind: "correspondence", Cut: "render", Input: cl[i], Impl: ci[i], Model: a})
				}
			}
		}
	}
	c.Rep.Rule = "scalar: booleans, int32 / uint32 / int8 / uint8 boundary and random values, float64 from a boundary table (±0, 1e20/1e21, 1e-4/1e-5, max, smallest subnormal, NaN, ±Inf), random bit patterns, integral, decimal and power-of-ten values, strings of every UTF-8 class; render: programs that build values of random types (scalars of every kind, slices and single-entry or empty maps nested to depth 5, references) and 1..4 objects of a struct type with scalar, container, pointer, slice-of-pointer and map-of-pointer fields linked at random (self-loops, cycles), printed with println / fmt.Println (1..3 operands), fmt.Print and fmt.Sprint (one operand) and through a variable; half of the programs contain no references and are also run by the Go toolchain; distinct = distinct value / program; non-trivial = program with more than 3 features"
	ns, np := 3000, 200
	if c.Thorough() {
		ns, np = 400000, 16000
	}
	lines, impl := c.c14Scalars(ns)
	for i, l := range lines {
		c.Rep.Seen(l, i%2 == 0)
	}
	if c.Model != nil {
		ans, err := c.Model.AskAll(lines)
		if err != nil {
			return err
		}
		for i, a := range ans {
			c.Rep.Corr["scalar"]++
			if a != impl[i] {
				c.Rep.Violate(Violation{Kind: "correspondence", Cut: "scalar", Input: lines[i], Impl: impl[i], Model: a})
			}
		}
	}
	return c.c14Scripts(np)
}
