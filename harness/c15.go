package main

// C15 — packages initialise once each, dependencies first.
//
// cut point load: real loader's package order (VerifLoadOrder on generated in-memory trees)
//                 == Lean model Goat.Load.loadOrder                                  [correspondence]
// oracle:         marker lines printed by top-level code and init of every package
//                 (once each, imports first), file selection, cycle / conflict errors  [search]

import (
	"bytes"
	"fmt"
	"sort"
	"strings"
	"testing/fstest"

	goat "github.com/philhassey/goatlang"
)

func init() { checks["C15"] = runC15 }

type c15Pkg struct {
	path    string
	imports []int
	missing []string // imports of packages that do not exist (stdlib-like)
	dir     string   // where it lives in the tree
	nfiles  int
}

type c15Graph struct {
	pkgs   []c15Pkg
	cyclic bool
}

func c15Gen(r *RNG, forceCycle bool) c15Graph {
	n := 1 + r.Intn(12)
	names := []string{"app"}
	pool := []string{"alpha", "beta", "gamma", "delta", "util", "core", "io2", "x/y/pkg", "lib/net", "lib/str", "a/b/c/deep", "zeta", "mid"}
	perm := make([]int, len(pool))
	for i := range perm {
		perm[i] = i
	}
	for i := len(perm) - 1; i > 0; i-- {
		j := r.Intn(i + 1)
		perm[i], perm[j] = perm[j], perm[i]
	}
	for i := 0; i < n-1 && i < len(pool); i++ {
		names = append(names, pool[perm[i]])
	}
	g := c15Graph{}
	for i, nm := range names {
		p := c15Pkg{path: nm, nfiles: 1 + r.Intn(3)}
		// edges only to higher indexes => acyclic
		for j := i + 1; j < len(names); j++ {
			if r.Chance(0.35) {
				p.imports = append(p.imports, j)
			}
		}
		if r.Chance(0.3) {
			p.missing = append(p.missing, Pick(r, []string{"fmt", "strings", "math", "nosuch/none"}))
		}
		// placement: plain, vendor/, or shortened path
		parts := strings.Split(nm, "/")
		switch k := r.Intn(4); {
		case k == 0 && nm != "app":
			p.dir = "vendor/" + nm
		case k == 1 && len(parts) > 1:
			p.dir = strings.Join(parts[1+r.Intn(len(parts)-1):], "/")
		default:
			p.dir = nm
		}
		g.pkgs = append(g.pkgs, p)
	}
	// make every package reachable-ish: chain a random earlier importer
	for j := 1; j < len(g.pkgs); j++ {
		if r.Chance(0.7) {
			i := r.Intn(j)
			has := false
			for _, x := range g.pkgs[i].imports {
				has = has || x == j
			}
			if !has {
				g.pkgs[i].imports = append(g.pkgs[i].imports, j)
			}
		}
	}
	if forceCycle && len(g.pkgs) >= 1 {
		// add a back edge (or a self import)
		j := r.Intn(len(g.pkgs))
		i := j + r.Intn(len(g.pkgs)-j)
		g.pkgs[i].imports = append(g.pkgs[i].imports, j)
		g.cyclic = true
	}
	return g
}

func lastPart(p string) string {
	parts := strings.Split(p, "/")
	return parts[len(parts)-1]
}

// build the in-memory tree; returns the expected marker set per package
func (g *c15Graph) files(r *RNG) (fstest.MapFS, map[string][]string) {
	fs := fstest.MapFS{}
	markers := map[string][]string{}
	shadowDirs := map[string]bool{}
	for _, p := range g.pkgs {
		shadowDirs[p.dir] = true
	}
	for pi, p := range g.pkgs {
		for f := 0; f < p.nfiles; f++ {
			var sb strings.Builder
			if r.Chance(0.2) {
				sb.WriteString("// a header comment\n\n//go:build goat\n\n")
			}
			fmt.Fprintf(&sb, "package %s\n", lastPart(p.path))
			if f == 0 {
				var imps []string
				for _, j := range p.imports {
					imps = append(imps, g.pkgs[j].path)
				}
				imps = append(imps, p.missing...)
				if len(imps) > 0 {
					if r.Bool() {
						sb.WriteString("import (\n")
						for _, im := range imps {
							fmt.Fprintf(&sb, "\t%q\n", im)
						}
						sb.WriteString(")\n")
					} else {
						for _, im := range imps {
							fmt.Fprintf(&sb, "import %q\n", im)
						}
					}
				}
			}
			m1 := fmt.Sprintf("top %s %d", p.path, f)
			m2 := fmt.Sprintf("init %s %d", p.path, f)
			fmt.Fprintf(&sb, "var v%d_%d = mark%d_%d()\nfunc mark%d_%d() int { println(%q); return 1 }\n", pi, f, pi, f, pi, f, m1)
			fmt.Fprintf(&sb, "func init() { println(%q) }\n", m2)
			markers[p.path] = append(markers[p.path], m1, m2)
			if r.Intn(3) == 0 { // top-level code that needs local slots of the run frame (loop variables, an if-init)
				k := 1 + r.Intn(4)
				// (the marker shows the value: k*k from the loops, +1 and +10 from the init function below - updates of a
				// package-level variable by ++ and op= reach the variable that the package's other code reads)
				m3 := fmt.Sprintf("loop %s %d = %d", p.path, f, k*k)
				fmt.Fprintf(&sb, "var acc%d_%d = 0\nfor i := 0; i < %d; i++ {\n\tfor j := 0; j < 2; j++ {\n\t\tacc%d_%d += i + j\n\t}\n}\nif t := acc%d_%d; t >= 0 {\n\tprintln(\"loop %s %d =\", t)\n}\n", pi, f, k, pi, f, pi, f, p.path, f)
				m4 := fmt.Sprintf("bump %s %d = %d", p.path, f, k*k+11)
				fmt.Fprintf(&sb, "func bump%d_%d() {\n\tacc%d_%d++\n\tacc%d_%d += 10\n}\nfunc init() {\n\tbump%d_%d()\n\tprintln(\"bump %s %d =\", acc%d_%d)\n}\n", pi, f, pi, f, pi, f, pi, f, p.path, f, pi, f)
				markers[p.path] = append(markers[p.path], m4)
				markers[p.path] = append(markers[p.path], m3)
			}
			name := fmt.Sprintf("%s/%c%d.go", p.dir, 'a'+byte(r.Intn(20)), f)
			fs[name] = &fstest.MapFile{Data: []byte(sb.String())}
		}
		// files that must be ignored
		if r.Chance(0.3) {
			fs[p.dir+"/"+Pick(r, []string{"zz_test.go", "aa_test.go", "m_test.go", "0_test.go"})] = &fstest.MapFile{Data: []byte(fmt.Sprintf("package %s\n%s\nfunc init() { println(\"BAD test file %s\") }\n", lastPart(p.path), Pick(r, []string{"", "import \"testing\"\n\nfunc TestX(t *testing.T) {\n\tt.Run(\"a\", func(t *testing.T) { defer func() { recover() }() })\n\tch := make(chan struct{})\n\tclose(ch)\n}\n"}), p.path))}
		}
		if r.Chance(0.3) {
			tag := Pick(r, []string{"!goat", "ignore", "linux", "!goat && linux", "windows || darwin"})
			hdr := "//go:build " + tag + "\n\n"
			// the constraint may follow blank lines and comments of both kinds
			hdr = Pick(r, []string{"", "// Copyright header.\n\n", "/* Licence. */\n", "/*\n * Licence\n * text\n */\n\n// and a line comment\n", "/* a */ /* b */\n/* c\n*/ // d\n", "\ufeff", "\ufeff// bom, then a comment\n\n"}) + hdr
			// an excluded file is host code: it need not stay inside the subset the interpreter parses
			body := Pick(r, []string{"", "", "func Map[T any](xs []T, f func(T) T) []T {\n\tfor i := range xs {\n\t\txs[i] = f(xs[i])\n\t}\n\treturn xs\n}\n",
				"var ch = make(chan int, 1)\n\nfunc pump() {\n\tgo func() { ch <- 1 }()\n\tselect {\n\tcase v := <-ch:\n\t\t_ = v\n\tdefault:\n\t}\n}\n",
				"func scan(xs [][]int) int {\nouter:\n\tfor _, r := range xs {\n\t\tfor _, v := range r {\n\t\t\tif v < 0 {\n\t\t\t\tcontinue outer\n\t\t\t}\n\t\t}\n\t}\n\treturn 0\n}\n",
				"import \"unsafe\"\n\ntype hdr struct {\n\tp unsafe.Pointer\n\tn [4]uintptr\n}\n\nvar _ = (*hdr)(nil)\n", "type I interface {\n\t~int | ~string\n}\n\nconst c = 1i\n"})
			fs[p.dir+"/excluded.go"] = &fstest.MapFile{Data: []byte(hdr + fmt.Sprintf("package %s\n%s\nfunc init() { println(\"BAD excluded file %s\") }\n", lastPart(p.path), body, p.path))}
		}
		if r.Chance(0.15) {
			tag := Pick(r, []string{"goat", "goat || linux", "!windows && goat", "!ignore"})
			m := fmt.Sprintf("init %s tagged", p.path)
			fs[p.dir+"/tagged.go"] = &fstest.MapFile{Data: []byte("//go:build " + tag + "\n\npackage " + lastPart(p.path) + fmt.Sprintf("\nfunc init() { println(%q) }\n", m))}
			markers[p.path] = append(markers[p.path], m)
		}
	}
	return fs, markers
}

func (g *c15Graph) protoLine() string {
	var w []string
	for _, p := range g.pkgs {
		var is []string
		for _, j := range p.imports {
			is = append(is, g.pkgs[j].path)
		}
		is = append(is, p.missing...)
		w = append(w, p.path+"="+strings.Join(is, ","))
	}
	return "load app " + strings.Join(w, " ")
}

func (c *Ctx) c15One(g c15Graph, sample bool) (line, impl string) {
	r := c.RNG
	fs, markers := g.files(r)
	line = g.protoLine()
	order, err := func() (o []string, e error) {
		defer func() {
			if r := recover(); r != nil {
				e = fmt.Errorf("PANIC %v", r)
			}
		}()
		return goat.VerifLoadOrder(fs, "app")
	}()
	switch {
	case err != nil && strings.Contains(err.Error(), "PANIC"):
		impl = err.Error()
	case err != nil && strings.Contains(err.Error(), "import cycle"):
		impl = "cycle"
	case err != nil:
		impl = "error " + err.Error()
	default:
		impl = "ok " + strings.Join(order, " ")
	}
	// oracle: run it and check the marker lines
	var w bytes.Buffer
	lerr := func() (e error) {
		defer func() {
			if r := recover(); r != nil {
				e = fmt.Errorf("PANIC %v", r)
			}
		}()
		vm := goat.New(goat.WithStdout(&w))
		return vm.Load(fs, "app")
	}()
	c.Rep.Oracle["markers"]++
	bad := ""
	if g.cyclic {
		// a back edge is only a cycle if it closes a path; decide by DFS
	}
	reach, cyc := g.reachCyclic()
	switch {
	case lerr != nil && strings.Contains(lerr.Error(), "PANIC"):
		bad = "panic escaped Load: " + lerr.Error()
	case cyc:
		if lerr == nil || !strings.Contains(lerr.Error(), "import cycle") {
			bad = fmt.Sprintf("import cycle not reported: err=%v", lerr)
		}
	case lerr != nil:
		bad = "unexpected error: " + lerr.Error()
	default:
		lines := strings.Split(strings.TrimRight(w.String(), "\n"), "\n")
		pos := map[string]int{}
		for i, l := range lines {
			if strings.HasPrefix(l, "BAD") {
				bad = "ignored file was loaded: " + l
			}
			if _, dup := pos[l]; dup {
				bad = "marker printed twice: " + l
			}
			pos[l] = i
		}
		first, last := map[int]int{}, map[int]int{}
		for pi, p := range g.pkgs {
			if !reach[pi] {
				for _, m := range markers[p.path] {
					if _, ok := pos[m]; ok {
						bad = "unreachable package was loaded: " + p.path
					}
				}
				continue
			}
			first[pi], last[pi] = 1<<30, -1
			for _, m := range markers[p.path] {
				i, ok := pos[m]
				if !ok {
					bad = "marker missing: " + m
					continue
				}
				if i < first[pi] {
					first[pi] = i
				}
				if i > last[pi] {
					last[pi] = i
				}
			}
		}
		for pi, p := range g.pkgs {
			if !reach[pi] {
				continue
			}
			for _, j := range p.imports {
				if last[j] > first[pi] {
					bad = fmt.Sprintf("package %s ran before its import %s finished", p.path, g.pkgs[j].path)
				}
			}
		}
	}
	if bad != "" {
		var names []string
		for n := range fs {
			names = append(names, n)
		}
		sort.Strings(names)
		c.Rep.Violate(Violation{Kind: "oracle", Cut: "markers", Input: map[string]any{"graph": line, "files": names}, Impl: w.String(), Oracle: bad})
	}
	if sample {
		c.Rep.Sample(map[string]any{"graph": line, "impl": impl, "stdout": w.String()})
	}
	return
}

func (g *c15Graph) reachCyclic() (map[int]bool, bool) {
	reach := map[int]bool{}
	state := map[int]int{}
	cyc := false
	var dfs func(i int)
	dfs = func(i int) {
		reach[i] = true
		state[i] = 1
		for _, j := range g.pkgs[i].imports {
			if state[j] == 1 {
				cyc = true
			} else if state[j] == 0 {
				dfs(j)
			}
		}
		state[i] = 2
	}
	dfs(0)
	return reach, cyc
}

// c15FileLoads: Load with a .go argument loads that file as a package of its own - also when it lies in the directory
// of a package that one of its dependencies imports (a generator script beside a library, excluded from it by its
// build constraint): every package runs once, dependencies first; a real cycle through the file is still an error
func (c *Ctx) c15FileLoads() {
	type tc struct {
		files map[string]string
		arg   string
		want  string // expected output; "ERROR" = a load error
	}
	tools := "package tools\n\nvar Count = 3\n\nfunc init() { println(\"tools\", Count) }\n"
	helper := "package helper\n\nimport \"tools\"\n\nvar N = tools.Count + 1\n\nfunc init() { println(\"helper\", N) }\n"
	gen := "//go:build ignore\n\npackage main\n\nimport \"helper\"\n\nfunc init() { println(\"gen\", helper.N) }\n"
	for _, k := range []tc{
		{map[string]string{"tools/gen.go": gen, "tools/tools.go": tools, "helper/helper.go": helper}, "tools/gen.go", "tools 3\nhelper 4\ngen 4\n"},
		{map[string]string{"gen.go": gen, "tools/tools.go": tools, "helper/helper.go": helper}, "gen.go", "tools 3\nhelper 4\ngen 4\n"},
		{map[string]string{"cmd/x/gen.go": gen, "tools/tools.go": tools, "helper/helper.go": helper, "cmd/x/x.go": "package x\n\nfunc init() { println(\"BAD x\") }\n"}, "cmd/x/gen.go", "tools 3\nhelper 4\ngen 4\n"},
		{map[string]string{"helper/gen.go": gen, "tools/tools.go": tools, "helper/helper.go": helper}, "helper/gen.go", "tools 3\nhelper 4\ngen 4\n"},
		{map[string]string{"tools/gen.go": "package tools\n\nimport \"helper\"\n\nvar G = helper.N\n", "helper/helper.go": "package helper\n\nimport \"tools\"\n\nvar N = 1\n"}, "tools/gen.go", "ERROR"},
		{map[string]string{"tools/gen.go": gen, "tools/tools.go": tools, "helper/helper.go": helper}, "tools", "tools 3\n"},
		// a directory that holds nothing but _test.go files is a package without script source: nothing of it runs, its
		// imports are not followed, its package clauses are not compared - at the last candidate of the search too
		{map[string]string{"main/main.go": "package main\nimport (\n\"a\"\n\"helper\"\n)\nfunc init() { println(\"main\") }\n", "a/a.go": "package a\nimport \"example.com/x/helper\"\nfunc init() { println(\"a\") }\n",
			"helper/helper_test.go": "package helper\nvar X = mark()\nfunc mark() int { println(\"BAD helper_test.go top-level\"); return 1 }\nfunc init() { println(\"BAD helper_test.go init\") }\n",
			"helper/more_test.go":   "package helper_test\nimport \"main\"\nfunc init() { println(\"BAD more_test.go init\") }\n"}, "main", "a\nmain\n"},
		{map[string]string{"main/main.go": "package main\nimport \"example.com/x/helper\"\nfunc init() { println(\"main\") }\n", "helper/helper_test.go": "package helper\nfunc init() { println(\"BAD helper_test.go init\") }\n"}, "main", "main\n"},
		{map[string]string{"main/main.go": "package main\nimport \"helper\"\nfunc init() { println(\"main\") }\n", "helper/helper.go": "package helper\nfunc init() { println(\"helper\") }\n",
			"helper/helper_test.go": "package helper\nfunc init() { println(\"BAD helper_test.go init\") }\n"}, "main", "helper\nmain\n"},
		{map[string]string{"helper/helper_test.go": "package helper\nfunc init() { println(\"BAD helper_test.go init\") }\n"}, "helper", "ERROR"},
		// a //go:build line counts only in the header of a file: after the package clause, or inside a raw string, it is text
		{map[string]string{"main/main.go": "package main\nimport \"lib\"\nfunc init() { println(\"main\", lib.N, len(lib.Header) > 0) }\n", "lib/a.go": "package lib\nvar N = 1\nfunc init() { println(\"lib\") }\n",
			"lib/b.go": "package lib\n\n//go:build ignore\n\nfunc init() { N++; println(\"lib b\") }\n", "lib/c.go": "package lib\n\nconst Header = `\n//go:build !goat\n\npackage x\n`\n",
			"lib/d.go": "// a comment\n\n//go:build ignore\n\npackage lib\n\nfunc init() { println(\"BAD d\") }\n"}, "main", "lib\nlib b\nmain 2 true\n"},
		{map[string]string{"main/main.go": "package main\nimport \"example.com/x/helper\"\nfunc init() { println(\"main\") }\n", "vendor/example.com/x/helper/h_test.go": "package helper\nfunc init() { println(\"BAD vendored test\") }\n",
			"helper/helper.go": "package helper\nfunc init() { println(\"helper\") }\n"}, "main", "main\n"},
		// only a file name that ends in _test.go is a test file: latest.go, contest.go, test.go are ordinary sources
		{map[string]string{"main/main.go": "package main\nimport \"lib/dep\"\nfunc init() { println(\"main\", dep.M+dep.C+dep.T) }\n", "lib/dep/dep.go": "package dep\nfunc init() { println(\"dep\") }\n",
			"lib/dep/latest.go": "package dep\nvar M = 40\nfunc init() { println(\"latest\") }\n", "lib/dep/contest.go": "package dep\nconst C = 2\nfunc init() { println(\"contest\") }\n",
			"lib/dep/test.go": "package dep\nvar T = 100\nfunc init() { println(\"test\") }\n", "lib/dep/dep_test.go": "package dep\nfunc init() { println(\"BAD dep_test.go\") }\n",
			"lib/dep/_test.go": "package dep\nfunc init() { println(\"BAD _test.go\") }\n"}, "main", "contest\ndep\nlatest\ntest\nmain 142\n"},
		// a file that holds nothing but its package clause, sorted first, second or last among the files of an imported package
		{map[string]string{"main/main.go": "package main\nimport \"lib\"\nfunc init() { println(\"main\", lib.Make()) }\n", "lib/aaa.go": "package lib\n", "lib/lib.go": "package lib\nfunc Make() int { return 7 }\nfunc init() { println(\"lib\") }\n"}, "main", "lib\nmain 7\n"},
		{map[string]string{"main/main.go": "package main\nimport \"lib\"\nfunc init() { println(\"main\", lib.Make()) }\n", "lib/zzz.go": "package lib\n", "lib/lib.go": "package lib\nfunc Make() int { return 7 }\nfunc init() { println(\"lib\") }\n"}, "main", "lib\nmain 7\n"},
		{map[string]string{"main/main.go": "package main\nimport \"lib\"\nfunc init() { println(\"main\", lib.Make()+lib.K) }\n", "lib/a.go": "package lib\n\n// nothing here\n", "lib/b.go": "package lib\nconst K = 1\n", "lib/c.go": "package lib\n", "lib/lib.go": "package lib\nfunc Make() int { return 7 }\nfunc init() { println(\"lib\") }\n"}, "main", "lib\nmain 8\n"},
	} {
		fs := fstest.MapFS{}
		for n, d := range k.files {
			fs[n] = &fstest.MapFile{Data: []byte(d)}
		}
		var w bytes.Buffer
		vm := goat.New(goat.WithStdout(&w))
		var err error
		if e := try(func() { err = vm.Load(fs, k.arg) }); e != nil {
			err = fmt.Errorf("PANIC %v", e)
		}
		got := w.String()
		if err != nil {
			got = "ERROR"
			if k.want != "ERROR" {
				got += " " + err.Error()
			}
		}
		c.Rep.Oracle["file-load"]++
		c.Rep.Count("file-load")
		if got != k.want {
			c.Rep.Violate(Violation{Kind: "oracle", Cut: "file-load", Input: map[string]any{"files": k.files, "load": k.arg}, Impl: got, Oracle: k.want})
		}
	}
}

func runC15(c *Ctx) error {
	c.c15FileLoads()
	c.Rep.Rule = "import graphs of 1..12 packages (random fan-in/out, missing stdlib-like imports, 1-3 files per package, vendor/ and shortened-path placement, _test.go and //go:build files) incl. graphs with a back edge or self-import, and every graph on <= 3 nodes; distinct = distinct graph line; non-trivial = at least 3 packages or a cycle"
	n := 400
	if c.Thorough() {
		n = 60000
	}
	var lines, impl []string
	add := func(g c15Graph, sample bool) {
		l, im := c.c15One(g, sample)
		lines = append(lines, l)
		impl = append(impl, im)
		_, cyc := g.reachCyclic()
		c.Rep.Seen(l, len(g.pkgs) >= 3 || cyc)
		if cyc {
			c.Rep.Count("cyclic")
		} else {
			c.Rep.Count("acyclic")
		}
		c.Rep.Count(fmt.Sprintf("packages-%02d", len(g.pkgs)))
	}
	// all graphs on up to 3 nodes (every subset of the 9 possible edges incl. self loops)
	names := []string{"app", "bb", "cc"}
	for k := 1; k <= 3; k++ {
		for mask := 0; mask < 1<<(k*k); mask++ {
			g := c15Graph{}
			for i := 0; i < k; i++ {
				p := c15Pkg{path: names[i], dir: names[i], nfiles: 1}
				for j := 0; j < k; j++ {
					if mask>>(i*k+j)&1 == 1 {
						p.imports = append(p.imports, j)
					}
				}
				g.pkgs = append(g.pkgs, p)
			}
			add(g, false)
		}
	}
	for i := 0; i < n; i++ {
		add(c15Gen(c.RNG, c.RNG.Chance(0.25)), i < 3)
	}
	if c.Model != nil {
		ans, err := c.Model.AskAll(lines)
		if err != nil {
			return err
		}
		for i, a := range ans {
			c.Rep.Corr["load"]++
			if a != impl[i] {
				c.Rep.Violate(Violation{Kind: "correspondence", Cut: "load", Input: lines[i], Impl: impl[i], Model: a})
			}
		}
	}
	// conflicting package clauses in one directory are an error
	fs := fstest.MapFS{"app/a.go": {Data: []byte("package app\nimport \"dep\"\n")}, "dep/a.go": {Data: []byte("package dep\n")}, "dep/b.go": {Data: []byte("package other\n")}}
	_, err := goat.VerifLoadOrder(fs, "app")
	c.Rep.Oracle["conflict"]++
	if err == nil {
		c.Rep.Violate(Violation{Kind: "oracle", Cut: "conflict", Input: "dep/a.go: package dep; dep/b.go: package other", Impl: "no error", Oracle: "error"})
	}
	return nil
}
