package main

// C16 — declaration order and file layout inside a package do not matter.
//
// cut point tsort: real treeSort permutation (VerifTreeSort) == Lean stable-sort model   [correspondence]
// oracle:          a generated package must print the same under every permutation of its
//                  hoistable declarations and every partition into files                [search]

import (
	"bytes"
	"fmt"
	"sort"
	"strconv"
	"strings"
	"testing/fstest"

	goat "github.com/philhassey/goatlang"
)

func init() { checks["C16"] = runC16 }

type c16Decl struct {
	text      string
	hoistable bool
	pkgs      []string // the packages this declaration uses: each file imports what its declarations use
}

func c16Package(r *RNG) []c16Decl {
	var ds []c16Decl
	nT := 1 + r.Intn(3)
	nF := 2 + r.Intn(5)
	nV := 1 + r.Intn(4)
	nC := r.Intn(3)
	for i := 0; i < nC; i++ {
		if i == 0 {
			ds = append(ds, c16Decl{text: fmt.Sprintf("const K%d = %d", i, 2+r.Intn(9)), hoistable: false})
		} else {
			ds = append(ds, c16Decl{text: fmt.Sprintf("const K%d = K%d + %d", i, i-1, 1+r.Intn(5)), hoistable: false})
		}
	}
	kref := func() string {
		if nC == 0 {
			return "1"
		}
		return fmt.Sprintf("K%d", r.Intn(nC))
	}
	// types with 1..7 methods and 2..6 fields: their names get global-table indices in compile order, so which
	// names collide in a type's method / field table depends on the permutation and the partition
	nMeth := make([]int, nT)
	nFld := make([]int, nT)
	for i := 0; i < nT; i++ {
		nMeth[i], nFld[i] = 1+r.Intn(7), 2+r.Intn(5)
		var fl []string
		for f := 0; f < nFld[i]; f++ {
			fl = append(fl, fmt.Sprintf("\t%c%d int\n", 'A'+f, i*0))
		}
		decl := fmt.Sprintf("type T%d struct {\n\tA int\n\tB int\n", i)
		for f := 2; f < nFld[i]; f++ {
			decl += fmt.Sprintf("\tF%d_%d int\n", i, f)
		}
		ds = append(ds, c16Decl{text: decl + "}", hoistable: true})
		_ = fl
		for m := 0; m < nMeth[i]; m++ {
			extra := ""
			if nFld[i] > 2 {
				extra = fmt.Sprintf(" + t.F%d_%d", i, 2+r.Intn(nFld[i]-2))
			}
			// a type declared inside one method may be named like a package-level function that its sibling methods (and
			// other functions) call: the name means the type only inside the body that declares it
			local := ""
			switch r.Intn(4) {
			case 0:
				ln := Pick(r, []string{"sa", "sc", "mark2"})
				local = fmt.Sprintf("\ttype %s struct {\n\t\tv int\n\t}\n\tq := &%s{v: x + 1}\n\tx = q.v - 1\n", ln, ln)
			case 1:
				extra += " + sa(x) + sc(x) + mark2(x)"
			}
			ds = append(ds, c16Decl{text: fmt.Sprintf("func (t *T%d) M%d(x int) int {\n%s\tmark(\"T%d.M%d\", x)\n\treturn t.A*%d + x + helper%d(x)%s\n}", i, m, local, i, m, 2+m, r.Intn(nF), extra), hoistable: true})
		}
	}
	for i := 0; i < nF; i++ {
		body := fmt.Sprintf("x*%d + %s", 1+r.Intn(4), kref())
		if i+1 < nF && r.Bool() {
			body += fmt.Sprintf(" + helper%d(x-1)", i+1) // forward reference
		}
		if r.Chance(0.4) {
			t := r.Intn(nT)
			body += fmt.Sprintf(" + (&T%d{A: x, B: 1}).B", t)
		}
		local := ""
		switch r.Intn(5) {
		case 0:
			ln := Pick(r, []string{"sa", "sc", "mark2"})
			local = fmt.Sprintf("\ttype %s struct {\n\t\tv int\n\t}\n\tq := &%s{v: x + 1}\n\tx = q.v - 1\n", ln, ln)
		case 1:
			body += " + sa(x) + mark2(x)"
		}
		ds = append(ds, c16Decl{text: fmt.Sprintf("func helper%d(x int) int {\n\tif x < 0 {\n\t\treturn 0\n\t}\n%s\treturn %s\n}", i, local, body), hoistable: true})
	}
	ds = append(ds, c16Decl{text: "func mark(s string, v int) int {\n\tprintln(s, v)\n\treturn v\n}", hoistable: true})
	// declarations that use imported packages: the import groups of the files depend on the partition
	// a declaration whose text holds a line that looks like a build constraint (inside a raw string, after the package
	// clause): it is not one, wherever the declaration lands
	ds = append(ds, c16Decl{text: "func header() string {\n\treturn `// Code generated. DO NOT EDIT.\n//go:build ignore\n\npackage gen`\n}", hoistable: true})
	ds = append(ds, c16Decl{text: "func fs1(x int) int {\n\treturn len(fmt.Sprint(x, \"|\"))\n}", hoistable: true, pkgs: []string{"fmt"}})
	ds = append(ds, c16Decl{text: "func fs2(x int) int {\n\treturn len(strings.Repeat(\"ab\", x%4)) + len(fmt.Sprint(x))\n}", hoistable: true, pkgs: []string{"fmt", "strings"}})
	ds = append(ds, c16Decl{text: "func fs3(x int) int {\n\treturn len(strings.TrimSpace(\" a \")) + x\n}", hoistable: true, pkgs: []string{"strings"}})
	ds = append(ds, c16Decl{text: "func fs4(x float64) float64 {\n\treturn math.Floor(x) + float64(len(strconv.Itoa(7)))\n}", hoistable: true, pkgs: []string{"math", "strconv"}})
	// parameters and locals named like package-level functions (valid Go: the local wins wherever the function is declared)
	ds = append(ds, c16Decl{text: "func sa(x int) int {\n\treturn x + 1\n}", hoistable: true})
	ds = append(ds, c16Decl{text: "func mark2(x int) int {\n\treturn x * 3\n}", hoistable: true})
	ds = append(ds, c16Decl{text: "func sb(v int, sa int) int {\n\tsc := sa * 2\n\treturn v*10 + sa + sc\n}", hoistable: true})
	ds = append(ds, c16Decl{text: "func sc(x int) int {\n\treturn x + 100\n}", hoistable: true})
	sh1, sh2 := r.Intn(nF), r.Intn(nF)
	ds = append(ds, c16Decl{text: fmt.Sprintf("func lim(v int, helper%d int) int {\n\tmark := v + helper%d\n\thelper%d := mark * 2\n\treturn helper%d + mark\n}", sh1, sh1, sh2, sh2), hoistable: true})
	for i := 0; i < nV; i++ {
		e := fmt.Sprintf("helper%d(%d)", r.Intn(nF), r.Intn(4))
		if i > 0 {
			e += fmt.Sprintf(" + g%d", i-1)
		}
		ds = append(ds, c16Decl{text: fmt.Sprintf("var g%d = mark(\"g%d\", %s)", i, i, e), hoistable: false})
	}
	if r.Bool() {
		ds = append(ds, c16Decl{text: "func init() {\n\tprintln(\"init\", g0)\n}", hoistable: false})
	}
	main := "func Main() {\n"
	for i := 0; i < nT; i++ {
		main += fmt.Sprintf("\tt%d := &T%d{A: %d}\n", i, i, 1+r.Intn(5))
		for f := 2; f < nFld[i]; f++ {
			main += fmt.Sprintf("\tt%d.F%d_%d = %d\n", i, i, f, 10*f+i)
		}
		for m := 0; m < nMeth[i]; m++ {
			main += fmt.Sprintf("\tprintln(\"m\", t%d.M%d(%d))\n", i, m, r.Intn(5))
		}
	}
	main += fmt.Sprintf("\tprintln(\"h\", helper0(3), g%d, lim(3, 4), sb(3, 4), sa(1), sc(1))\n\tprintln(\"imp\", fs1(7), fs2(5), fs3(1), fs4(2.5), len(header()))\n}", nV-1)
	ds = append(ds, c16Decl{text: main, hoistable: true})
	return ds
}

// a permutation that keeps the relative order of the non-hoistable declarations
func c16Permute(r *RNG, ds []c16Decl) []c16Decl {
	var hs, ns []c16Decl
	for _, d := range ds {
		if d.hoistable {
			hs = append(hs, d)
		} else {
			ns = append(ns, d)
		}
	}
	for i := len(hs) - 1; i > 0; i-- {
		j := r.Intn(i + 1)
		hs[i], hs[j] = hs[j], hs[i]
	}
	var out []c16Decl
	for len(hs)+len(ns) > 0 {
		if len(ns) == 0 || (len(hs) > 0 && r.Intn(len(hs)+len(ns)) < len(hs)) {
			out = append(out, hs[0])
			hs = hs[1:]
		} else {
			out = append(out, ns[0])
			ns = ns[1:]
		}
	}
	return out
}

// partition into files; non-hoistables are assigned non-decreasing file indexes so that the
// name-sorted concatenation keeps their relative order
func c16Files(r *RNG, ds []c16Decl, nfiles int) fstest.MapFS { return c16FilesAt(r, ds, nfiles, 0) }

// where the package lives: 0 = "app" loaded directly; 1 = "lib/app" and 2 = "vendor/ex.com/app" (import path and
// package name differ) imported by a main package that forwards Main
var c16Dirs = []string{"app", "lib/app", "vendor/ex.com/app"}
var c16Imports = []string{"", "lib/app", "ex.com/app"}

func c16FilesAt(r *RNG, ds []c16Decl, nfiles int, mode int) fstest.MapFS {
	bodies := make([][]string, nfiles)
	uses := make([]map[string]bool, nfiles)
	cur := 0
	for _, d := range ds {
		f := r.Intn(nfiles)
		if !d.hoistable {
			if r.Chance(0.4) && cur < nfiles-1 {
				cur += 1 + r.Intn(nfiles-1-cur)
			}
			f = cur
		}
		bodies[f] = append(bodies[f], d.text)
		for _, p := range d.pkgs {
			if uses[f] == nil {
				uses[f] = map[string]bool{}
			}
			uses[f][p] = true
		}
	}
	fs := fstest.MapFS{}
	for i, b := range bodies {
		imports := ""
		if len(uses[i]) > 0 {
			var ps []string
			for p := range uses[i] {
				ps = append(ps, "\t"+strconv.Quote(p)+"\n")
			}
			sort.Strings(ps)
			imports = "import (\n" + strings.Join(ps, "") + ")\n\n"
		}
		fs[fmt.Sprintf("%s/f%02d.go", c16Dirs[mode], i)] = &fstest.MapFile{Data: []byte("package app\n\n" + imports + strings.Join(b, "\n\n") + "\n")}
	}
	// test files anywhere in the name order: they are skipped and the order of the other files stays
	for _, tn := range []string{"a_test.go", "f00_test.go", "f01_test.go", "f00x_test.go", "zz_test.go"} {
		if r.Intn(3) == 0 {
			fs[c16Dirs[mode]+"/"+tn] = &fstest.MapFile{Data: []byte("package app\n\nfunc init() {\n\tprintln(\"BAD test file\")\n}\n")}
		}
	}
	// files that hold nothing but the package clause, first, in the middle or last in the name order
	for _, en := range []string{"a00.go", "f00a.go", "zzz.go"} {
		if r.Intn(3) == 0 {
			fs[c16Dirs[mode]+"/"+en] = &fstest.MapFile{Data: []byte("package app\n")}
		}
	}
	if mode != 0 {
		fs["main/main.go"] = &fstest.MapFile{Data: []byte(fmt.Sprintf("package main\n\nimport %q\n\nfunc Main() {\n\tapp.Main()\n}\n", c16Imports[mode]))}
	}
	return fs
}

func c16Run(fs fstest.MapFS) (out string) {
	defer func() {
		if r := recover(); r != nil {
			out = fmt.Sprintf("PANIC %v", r)
		}
	}()
	var w bytes.Buffer
	vm := goat.New(goat.WithStdout(&w))
	top := "app"
	if _, ok := fs["main/main.go"]; ok {
		top = "main"
	}
	if err := vm.Load(fs, top); err != nil {
		return w.String() + "LOAD ERROR " + err.Error()
	}
	if _, err := vm.Call(top+".Main", 0); err != nil {
		return w.String() + "CALL ERROR " + err.Error()
	}
	return w.String()
}

// c16BuiltinNamed: a package-level function spelled like a builtin (the ones that are ordinary globals: println,
// print; the ones the call compiler knows: len, copy, delete, append, panic) hides the builtin in every function,
// method and initialiser of the package, wherever it is declared - before or after its callers, in the same or in
// another file (fix 36683fb; the former open finding builtin-named-function: references compiled before the
// declaration took the builtin)
func (c *Ctx) c16BuiltinNamed() {
	for _, name := range []string{"println", "print", "len", "copy", "delete", "append", "panic"} {
		def := "func " + name + "(a int) int {\n\treturn a*2 + 2\n}"
		use := "func Use() int {\n\treturn " + name + "(20)\n}"
		meth := "type T struct {\n\tn int\n}\n\nfunc (t *T) M() int {\n\treturn " + name + "(t.n)\n}"
		vr := "var V = " + name + "(3)"
		main := "func Main() {\n\tt := &T{n: 1}\n\tfmt.Println(Use(), t.M(), V, " + name + "(0))\n}"
		want := "42 4 8 2\n"
		file := func(decls ...string) *fstest.MapFile {
			return &fstest.MapFile{Data: []byte("package app\n\nimport \"fmt\"\n\n" + strings.Join(decls, "\n\n") + "\n")}
		}
		bare := func(decls ...string) *fstest.MapFile {
			return &fstest.MapFile{Data: []byte("package app\n\n" + strings.Join(decls, "\n\n") + "\n")}
		}
		layouts := map[string]fstest.MapFS{
			"declared first":               {"app/a.go": file(def, use, meth, vr, main)},
			"declared last":                {"app/a.go": file(use, meth, vr, main, def)},
			"declared between its callers": {"app/a.go": file(meth, def, main, use, vr)},
			"declared in the first file":   {"app/a.go": bare(def), "app/b.go": file(use, meth, vr, main)},
			"declared in the last file":    {"app/a.go": file(use, main), "app/b.go": bare(meth, vr), "app/z.go": bare(def)},
			"declared in a file between":   {"app/a.go": bare(meth), "app/m.go": bare(def, vr), "app/z.go": file(main, use)},
		}
		for _, l := range sortedKeys(layouts) {
			// the package loaded directly, and imported under a path that differs from its name
			nested := fstest.MapFS{"main/main.go": &fstest.MapFile{Data: []byte("package main\n\nimport \"example.com/x/app\"\n\nfunc Main() {\n\tapp.Main()\n}\n")}}
			for f, d := range layouts[l] {
				nested["example.com/x/"+f] = d
			}
			for _, fs := range []fstest.MapFS{layouts[l], nested} {
				c.Rep.Oracle["package-permutation"]++
				c.Rep.Count("builtin-named-layout")
				if got := c16Run(fs); got != want {
					var text []string
					for _, f := range sortedKeys(fs) {
						text = append(text, "// "+f+"\n"+string(fs[f].Data))
					}
					c.Rep.Violate(Violation{Kind: "oracle", Cut: "package-permutation", Input: "func " + name + " " + l + ":\n" + strings.Join(text, "\n"), Impl: got, Oracle: want})
				}
			}
		}
	}
}

// c16BuiltinNamedVars: the same for package-level variables and constants spelled like builtins (fix 72c716b): functions
// are compiled before the package's variables, so only the declaration of the names up front makes a body see them
func (c *Ctx) c16BuiltinNamedVars() {
	for _, name := range []string{"print", "println", "len", "cap", "copy"} {
		for kind, decl := range map[string]string{"var": "var " + name + " = 3", "const": "const " + name + " = 3", "var group": "var (\n\tother = 1\n\t" + name + " = 3\n)"} {
			use := "func Use() int {\n\treturn " + name + " + 1\n}"
			meth := "type T struct {\n\tn int\n}\n\nfunc (t *T) M() int {\n\treturn " + name + " * t.n\n}"
			main := "func Main() {\n\tt := &T{n: 5}\n\tfmt.Println(Use(), t.M(), " + name + ")\n}"
			want := "4 15 3\n"
			file := func(decls ...string) *fstest.MapFile {
				return &fstest.MapFile{Data: []byte("package app\n\nimport \"fmt\"\n\n" + strings.Join(decls, "\n\n") + "\n")}
			}
			bare := func(decls ...string) *fstest.MapFile {
				return &fstest.MapFile{Data: []byte("package app\n\n" + strings.Join(decls, "\n\n") + "\n")}
			}
			layouts := map[string]fstest.MapFS{
				"declared first":            {"app/a.go": file(decl, use, meth, main)},
				"declared last":             {"app/a.go": file(use, meth, main, decl)},
				"declared in the last file": {"app/a.go": file(use, main), "app/b.go": bare(meth), "app/z.go": bare(decl)},
			}
			for _, l := range sortedKeys(layouts) {
				c.Rep.Oracle["package-permutation"]++
				c.Rep.Count("builtin-named-layout")
				if got := c16Run(layouts[l]); got != want {
					var text []string
					for _, f := range sortedKeys(layouts[l]) {
						text = append(text, "// "+f+"\n"+string(layouts[l][f].Data))
					}
					c.Rep.Violate(Violation{Kind: "oracle", Cut: "package-permutation", Input: kind + " " + name + " " + l + ":\n" + strings.Join(text, "\n"), Impl: got, Oracle: want})
				}
			}
		}
	}
}

// c16OpenFinding replays the recorded, unrepaired defect struct-before-named-scalar-type: the position of a struct-type
// declaration relative to the declaration of a named non-struct type it uses changes the program
func (c *Ctx) c16OpenFinding() {
	const id = "struct-before-named-scalar-type"
	a := "type A struct {\n\tc Celsius\n\tn int\n}"
	cel := "type Celsius float64"
	main := "func Main() {\n\ta := &A{}\n\ta.c += 1.5\n\tx := a.c / 2\n\tprintln(a.c, x, a.n)\n}"
	run := func(order ...string) string {
		return c16Run(fstest.MapFS{"app/a.go": &fstest.MapFile{Data: []byte("package app\n\n" + strings.Join(order, "\n\n") + "\n")}})
	}
	first, after := run(cel, a, main), run(a, cel, main)
	c.Rep.Oracle["open-finding-witness"]++
	if first == after && first == "1.5 0.75 0\n" {
		return // no longer fails
	}
	if f, ok := c.Findings[id]; ok && first == "1.5 0.75 0\n" {
		c.Rep.Known = append(c.Rep.Known, id+": "+f.What+" (witness: Celsius declared first prints "+strings.TrimSpace(first)+", declared after the struct "+strings.TrimSpace(after)+")")
		return
	}
	c.Rep.Violate(Violation{Kind: "oracle", Cut: "open-finding-witness", Input: "type A struct { c Celsius; n int } before / after type Celsius float64", Impl: after, Oracle: first})
}

func runC16(c *Ctx) error {
	c.c16OpenFinding()
	c.c16BuiltinNamed()
	c.c16BuiltinNamedVars()
	c.Rep.Rule = "tsort: random lists of top-level node kinds (all table kinds, statement kinds, unknown kinds), length 0..40, permutation compared with the model; packages: generated packages (struct types, methods, mutually referring functions incl. forward references, chained consts, var initialisers with printed side effects, init) under random permutations of the hoistable declarations x random partitions into 1..4 files, the package loaded directly or imported from a nested / vendored path (import path differs from the package name); distinct = distinct kind list / (package, permutation, partition); non-trivial = list has >= 2 different priorities / package has >= 6 declarations"
	r := c.RNG
	kinds := []string{"package", "import", "type", "const", "method", "function", "init", "var", ":=", "=", "call", "for", "if", "switch", "range", "return", "(name)", "+=", "block", "zzz"}
	n := 3000
	if c.Thorough() {
		n = 200000
	}
	var lines, impl []string
	for i := 0; i < n; i++ {
		k := r.Intn(41)
		if i < 300 {
			k = r.Intn(6)
		}
		ks := make([]string, k)
		distinct := map[string]bool{}
		for j := range ks {
			ks[j] = Pick(r, kinds)
			distinct[ks[j]] = true
		}
		perm := goat.VerifTreeSort(ks)
		var ps []string
		for _, p := range perm {
			ps = append(ps, fmt.Sprint(p))
		}
		lines = append(lines, strings.TrimRight("tsort "+strings.Join(ks, " "), " "))
		impl = append(impl, strings.Join(ps, " "))
		c.Rep.Seen(lines[len(lines)-1], len(distinct) >= 2)
		if i == 400 {
			c.Rep.Sample(map[string]any{"kinds": ks, "perm": perm})
		}
	}
	if c.Model != nil {
		ans, err := c.Model.AskAll(lines)
		if err != nil {
			return err
		}
		for i, a := range ans {
			c.Rep.Corr["tsort"]++
			if a != impl[i] {
				c.Rep.Violate(Violation{Kind: "correspondence", Cut: "tsort", Input: lines[i], Impl: impl[i], Model: a})
			}
		}
	}
	np, nperm := 80, 12
	if c.Thorough() {
		np, nperm = 1500, 60
	}
	for i := 0; i < np; i++ {
		ds := c16Package(r)
		mode := r.Intn(3)
		c.Rep.Count("package-at-" + c16Dirs[mode])
		base := c16Run(c16FilesAt(NewRNG(1), ds, 1, mode))
		c.Rep.Oracle["package-baseline"]++
		if strings.Contains(base, "ERROR") || strings.Contains(base, "PANIC") {
			c.Rep.Violate(Violation{Kind: "oracle", Cut: "package-baseline", Input: c16Text(ds), Impl: base, Oracle: "loads and runs"})
			continue
		}
		if i < 2 {
			c.Rep.Sample(map[string]any{"package": c16Text(ds), "stdout": base})
		}
		for k := 0; k < nperm; k++ {
			pd := c16Permute(r, ds)
			fs := c16FilesAt(r, pd, 1+r.Intn(4), mode)
			got := c16Run(fs)
			c.Rep.Oracle["package-permutation"]++
			var names []string
			for nm, f := range fs {
				names = append(names, "// file "+nm+"\n"+string(f.Data))
			}
			c.Rep.Seen(strings.Join(names, "\n"), len(ds) >= 6)
			if got != base {
				c.Rep.Violate(Violation{Kind: "oracle", Cut: "package-permutation", Input: strings.Join(names, "\n"), Impl: got, Oracle: base})
				break
			}
		}
	}
	return nil
}

func c16Text(ds []c16Decl) string {
	var s []string
	for _, d := range ds {
		s = append(s, d.text)
	}
	return strings.Join(s, "\n\n")
}
