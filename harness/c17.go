package main

// C17 — reloading swaps code in place and keeps state.
//
// cut point reload: histories of (Load version k | Eval with an explicit import = reload of the
//                   current version | capture a function value in a variable / struct field /
//                   bound method | call everything | mutate and read package variables and
//                   instance fields) on ONE running VM == Lean model Goat.Reload      [correspondence]
// oracle:           the obvious specification computed natively: after any history every call
//                   reports the body of the most recently loaded version that defines it; variables
//                   without initialiser and instance fields keep their values, variables with an
//                   initialiser restart from the loaded version's initial value              [search]

import (
	"bytes"
	"fmt"
	"strings"
	"testing/fstest"

	goat "github.com/philhassey/goatlang"
)

func init() { checks["C17"] = runC17 }

type c17Version struct {
	fs    fstest.MapFS
	funcs map[string]string // name (F0, T.M0) -> tag returned by this version's body
	order []string
	mode  string
	limit int
}

func c17Versions(r *RNG) []c17Version {
	nv := 2 + r.Intn(4)
	nf, nm := 1+r.Intn(4), 1+r.Intn(3)
	var vs []c17Version
	prev := map[string]string{}
	for k := 0; k < nv; k++ {
		v := c17Version{funcs: map[string]string{}, mode: fmt.Sprintf("init-v%d", k), limit: 100 + k}
		var sb strings.Builder
		sb.WriteString("package lib\n\nvar Count int\n\nvar Total float64\n\n")
		// package variables without initialiser of every kind of type: they keep their values across reloads
		sb.WriteString("type Shape interface {\n\tArea() int\n}\n\ntype Sq struct {\n\tS int\n}\n\nfunc (q *Sq) Area() int {\n\treturn q.S * q.S\n}\n\n")
		sb.WriteString("var Cur Shape\n\nvar Box any\n\nvar Items []int\n\nvar Tab map[string]int\n\nvar Ptr *Sq\n\nvar Name string\n\n")
		sb.WriteString("func SetAll(k int) {\n\tCur = &Sq{S: k}\n\tBox = k + 1\n\tItems = []int{k + 2}\n\tTab = map[string]int{\"k\": k + 3}\n\tPtr = &Sq{S: k + 4}\n\tName = \"n\"\n}\n\n")
		sb.WriteString("func ReadAll() {\n\tprintln(Cur.Area(), Box, Items[0], len(Items), Tab[\"k\"], Ptr.S, Name)\n}\n\n")
		fmt.Fprintf(&sb, "var Mode = %q\n\nvar Limit = %d\n\n", v.mode, 100+k)
		sb.WriteString("type T struct {\n\tN int\n\tTag string\n}\n\n")
		sb.WriteString("func Bump() {\n\tCount++\n\tTotal += 1.5\n}\n\nfunc SetMode(s string) {\n\tMode = s\n}\n\n")
		sb.WriteString("func (t *T) Inc() int {\n\tt.N++\n\treturn t.N\n}\n\n")
		// instances created AFTER a (re)load, formatted: the struct prototypes survive reloads and must not change
		sb.WriteString("type Pair struct {\n\tX int\n\tY string\n\tIn *Sq\n}\n\nfunc Show(k int) {\n\tprintln(&T{N: k, Tag: \"s\"}, &Sq{S: k}, &Pair{X: k, Y: \"y\", In: &Sq{S: 1}}, &Pair{X: k})\n}\n\n")
		nfk := nf
		if k > 0 && r.Intn(3) == 0 {
			nf++ // a later version adds a function
			nfk = nf
		}
		if k > 0 && r.Intn(5) == 0 && nfk > 1 {
			nfk-- // this version does not mention the last function: it keeps its code
		}
		for i := 0; i < nfk; i++ {
			// (every other name extends the one before it: F0, F0ab, F1, F1ab - recompiling F0 leaves F0ab alone)
			name := fmt.Sprintf("F%d", i/2)
			if i%2 == 1 {
				name += "ab"
			}
			tag := fmt.Sprintf("%s@%d", name, k)
			if old, ok := prev[name]; ok && r.Intn(3) == 0 {
				tag = old // body unchanged in this version
			}
			v.funcs[name] = tag
			v.order = append(v.order, name)
			if form := r.Intn(4); form == 0 {
				fmt.Fprintf(&sb, "func %s() string {\n\treturn %q\n}\n\n", name, tag)
			} else if form == 1 { // a type declared in the body ...
				fmt.Fprintf(&sb, "func %s() string {\n\ttype st struct {\n\t\tv string\n\t}\n\tq := &st{v: %q}\n\treturn q.v\n}\n\n", name, tag)
			} else if form == 2 { // ... whose name is a plain local in another version of the same function
				fmt.Fprintf(&sb, "func %s() string {\n\tst := %q\n\treturn st\n}\n\n", name, tag)
			} else { // a body with locals and control flow, so that code really differs
				// the local may be named like a package-level variable (which exists in the table from the second load on)
				lv := Pick(r, []string{"s", "Name", "Mode"})
				fmt.Fprintf(&sb, "func %s() string {\n\t%s := \"\"\n\tfor i := 0; i < %d; i++ {\n\t\t%s += \"x\"\n\t}\n\tif len(%s) == %d {\n\t\treturn %q\n\t}\n\treturn \"bad\"\n}\n\n", name, lv, k+1, lv, lv, k+1, tag)
			}
		}
		for i := 0; i < nm; i++ {
			name := fmt.Sprintf("T.M%d", i)
			tag := fmt.Sprintf("M%d@%d", i, k)
			if old, ok := prev[name]; ok && r.Intn(3) == 0 {
				tag = old
			}
			v.funcs[name] = tag
			v.order = append(v.order, name)
			if i%2 == 1 { // every other method takes a parameter
				pn := Pick(r, []string{"k", "Limit", "Count"}) // a parameter may shadow a package-level variable too
				fmt.Fprintf(&sb, "func (t *T) M%d(%s int) string {\n\tif %s != 7 {\n\t\treturn \"bad argument\"\n\t}\n\treturn %q + t.Tag\n}\n\n", i, pn, pn, tag)
			} else {
				fmt.Fprintf(&sb, "func (t *T) M%d() string {\n\treturn %q + t.Tag\n}\n\n", i, tag)
			}
		}
		for n, t := range v.funcs {
			prev[n] = t
		}
		v.fs = fstest.MapFS{"lib/lib.go": &fstest.MapFile{Data: []byte(sb.String())}}
		vs = append(vs, v)
	}
	return vs
}

// c17Args: the call's argument list - methods with an odd index take one parameter
func c17Args(fn string) string {
	if strings.HasPrefix(fn, "T.M") {
		var i int
		fmt.Sscan(strings.TrimPrefix(fn, "T.M"), &i)
		if i%2 == 1 {
			return "(7)"
		}
	}
	return "()"
}

func (v c17Version) loadLine() string {
	var w []string
	for _, n := range v.order {
		w = append(w, "f:"+n+"="+v.funcs[n])
	}
	w = append(w, "z:Count=0", "z:Total=0", "z:All=unset", "i:Mode="+v.mode, "i:Limit="+fmt.Sprint(v.limit))
	return "rl load " + strings.Join(w, " ")
}

type c17Cap struct {
	name, expr string // script variable and the expression that calls it
	fn         string // function / method name it refers to
	suffix     string // instance tag appended by methods
}

func (c *Ctx) c17History() (lines, impl, want []string, script []string, fatal string) {
	r := c.RNG
	vs := c17Versions(r)
	var out bytes.Buffer
	vm := goat.New(goat.WithStdout(&out))
	imports := map[string]string{}
	opt := goat.WithEvalImports(imports)
	cur := 0
	spec := map[string]string{} // native specification: name -> tag of the latest loaded body
	count, total, mode := 0, 0.0, ""
	insts := map[string]int{} // instance variable -> N
	var instNames []string
	var caps []c17Cap
	emit := func(l, i, w string) { lines, impl, want = append(lines, l), append(impl, i), append(want, w) }
	eval := func(src string) string {
		out.Reset()
		script = append(script, src)
		var err error
		if e := try(func() { _, err = vm.Eval(vs[cur].fs, "main", src, opt) }); e != nil {
			err = e
		}
		if err != nil {
			if fatal == "" {
				fatal = fmt.Sprintf("eval %q: %v", src, err)
			}
			return "ERR"
		}
		return strings.TrimRight(out.String(), "\n")
	}
	load := func(k int, how string) {
		cur = k
		switch how {
		case "Load":
			script = append(script, fmt.Sprintf("// Load version %d", k))
			if err := vm.Load(vs[k].fs, "lib"); err != nil && fatal == "" {
				fatal = fmt.Sprintf("load v%d: %v", k, err)
			}
		default: // an Eval with an explicit import reloads the package from the file system it is given
			eval("import \"lib\"\nprintln(\"reloaded\")")
		}
		for n, t := range vs[k].funcs {
			spec[n] = t
		}
		mode = vs[k].mode
		emit(vs[k].loadLine(), "ok", "ok")
		c.Rep.Count("load-" + how)
	}
	allK := -1
	emit("rl new", "ok", "ok")
	load(0, "Load")
	eval("import \"lib\"\ntype Holder struct {\n\tFn func() string\n}")
	emit(vs[0].loadLine(), "ok", "ok") // the import reloaded version 0: nothing may change
	nsteps := 8 + r.Intn(30)
	for s := 0; s < nsteps && fatal == ""; s++ {
		switch op := r.Intn(100); {
		case op < 18:
			k := r.Intn(len(vs))
			if r.Intn(4) == 0 {
				k = cur // reload of unchanged source
				c.Rep.Count("reload-unchanged")
			}
			load(k, Pick(r, []string{"Load", "Load", "import"}))
		case op < 40: // capture
			var names []string
			for n := range spec {
				names = append(names, n)
			}
			fn := Pick(r, sortedStrings(names))
			id := fmt.Sprintf("c%d", len(caps))
			var cp c17Cap
			if strings.HasPrefix(fn, "T.") {
				if len(instNames) == 0 {
					continue
				}
				in := Pick(r, instNames)
				m := strings.TrimPrefix(fn, "T.")
				if r.Bool() {
					eval(fmt.Sprintf("%s := %s.%s", id, in, m))
					cp = c17Cap{name: id, expr: id + c17Args(fn), fn: fn, suffix: in}
					c.Rep.Count("capture-bound-method")
				} else {
					eval(fmt.Sprintf("%s := &Holder{Fn: %s.%s}", id, in, m))
					cp = c17Cap{name: id, expr: id + ".Fn" + c17Args(fn), fn: fn, suffix: in}
					c.Rep.Count("capture-bound-method-in-field")
				}
			} else {
				switch r.Intn(3) {
				case 0:
					eval(fmt.Sprintf("%s := lib.%s", id, fn))
					cp = c17Cap{name: id, expr: id + "()", fn: fn}
					c.Rep.Count("capture-variable")
				case 1:
					eval(fmt.Sprintf("%s := &Holder{Fn: lib.%s}", id, fn))
					cp = c17Cap{name: id, expr: id + ".Fn()", fn: fn}
					c.Rep.Count("capture-struct-field")
				default:
					eval(fmt.Sprintf("%s := []func() string{lib.%s}", id, fn))
					cp = c17Cap{name: id, expr: id + "[0]()", fn: fn}
					c.Rep.Count("capture-slice-element")
				}
			}
			caps = append(caps, cp)
			emit(fmt.Sprintf("rl cap %s %s", id, fn), "ok", "ok")
		case op < 50: // new instance
			in := fmt.Sprintf("t%d", len(instNames))
			eval(fmt.Sprintf("%s := &lib.T{Tag: \"/%s\"}", in, in))
			instNames = append(instNames, in)
			insts[in] = 0
			c.Rep.Count("new-instance")
		case op < 72: // call everything captured so far, and everything by name
			for _, cp := range caps {
				got := eval(fmt.Sprintf("println(%s)", cp.expr))
				sfx := ""
				if cp.suffix != "" {
					sfx = "/" + cp.suffix
				}
				emit("rl call "+cp.name, strings.TrimSuffix(got, sfx), spec[cp.fn])
				if !strings.HasSuffix(got, sfx) {
					emit("rl call "+cp.name, got, spec[cp.fn]+sfx)
				}
			}
			for _, n := range sortedKeys(spec) {
				if strings.HasPrefix(n, "T.") {
					if len(instNames) == 0 {
						continue
					}
					in := Pick(r, instNames)
					got := eval(fmt.Sprintf("println(%s.%s%s)", in, strings.TrimPrefix(n, "T."), c17Args(n)))
					emit("rl name "+n, strings.TrimSuffix(got, "/"+in), spec[n])
				} else {
					emit("rl name "+n, eval(fmt.Sprintf("println(lib.%s())", n)), spec[n])
				}
			}
			// a fresh instance of every struct type, formatted by code of the current version
			k := r.Intn(50)
			gotShow := eval(fmt.Sprintf("lib.Show(%d)", k))
			wantShow := fmt.Sprintf("&{N:%d Tag:s} &{S:%d} &{X:%d Y:y In:&{S:1}} &{X:%d Y: In:nil}", k, k, k, k)
			c.Rep.Oracle["fresh-instance-format"]++
			if gotShow != wantShow && fatal == "" {
				c.Rep.Violate(Violation{Kind: "oracle", Cut: "fresh-instance-format", Input: append([]string{}, script...), Impl: gotShow, Oracle: wantShow})
			}
			c.Rep.Count("call-all")
		case op < 82: // mutate package state
			switch r.Intn(3) {
			case 0:
				eval("lib.Bump()")
				count++
				total += 1.5
				emit(fmt.Sprintf("rl setvar Count %d", count), "ok", "ok")
				emit(fmt.Sprintf("rl setvar Total %v", total), "ok", "ok")
			case 1:
				mode = fmt.Sprintf("set-%d", s)
				eval(fmt.Sprintf("lib.SetMode(%q)", mode))
				emit("rl setvar Mode "+mode, "ok", "ok")
			default:
				if len(instNames) > 0 {
					in := Pick(r, instNames)
					insts[in]++
					got := eval(fmt.Sprintf("println(%s.Inc())", in))
					emit(fmt.Sprintf("rl setvar %s.N %d", in, insts[in]), "ok", "ok")
					emit(fmt.Sprintf("rl getvar %s.N", in), got, fmt.Sprint(insts[in]))
				}
			}
			c.Rep.Count("mutate-state")
		case op < 88: // set / read the no-initialiser variables of interface, any, slice, map, pointer and string type
			if allK < 0 || r.Intn(3) == 0 {
				allK = r.Intn(50)
				eval(fmt.Sprintf("lib.SetAll(%d)", allK))
				emit(fmt.Sprintf("rl setvar All %d", allK), "ok", "ok")
			}
			got := eval("lib.ReadAll()")
			wantAll := fmt.Sprintf("%d %d %d 1 %d %d n", allK*allK, allK+1, allK+2, allK+3, allK+4)
			res := fmt.Sprint(allK)
			if got != wantAll {
				res = "ReadAll printed " + got + " instead of " + wantAll
			}
			emit("rl getvar All", res, fmt.Sprint(allK))
			c.Rep.Count("read-typed-state")
		default: // read package state
			got := strings.Fields(eval("println(lib.Count, lib.Total, lib.Mode, lib.Limit)"))
			for len(got) < 4 {
				got = append(got, "?")
			}
			emit("rl getvar Count", got[0], fmt.Sprint(count))
			emit("rl getvar Total", got[1], fmt.Sprint(total))
			emit("rl getvar Mode", got[2], mode)
			emit("rl getvar Limit", got[3], fmt.Sprint(vs[cur].limit))
			c.Rep.Count("read-state")
		}
	}
	return
}

func sortedStrings(a []string) []string {
	m := map[string]bool{}
	for _, s := range a {
		m[s] = true
	}
	return sortedKeys(m)
}

// c17TypeGainsFields: a struct type redeclared with more fields (a reload of changed source): instances created
// afterwards have the fields in declaration order, every time
func (c *Ctx) c17TypeGainsFields() {
	for it := 0; it < 8; it++ {
		var out bytes.Buffer
		vm := goat.New(goat.WithStdout(&out))
		var err error
		for _, src := range []string{"type G struct {\n\tA int\n}\ng0 := &G{A: 1}",
			"type G struct {\n\tA int\n\tB int\n\tC string\n\tD float64\n\tE bool\n\tF []int\n}\nfunc (g *G) Sum() int {\n\treturn g.A + g.B\n}",
			"g1 := &G{A: 2, B: 3, C: \"c\", D: 1.5, E: true, F: []int{4}}\nprintln(g1, g1.Sum(), g0.A)"} {
			if e := try(func() { _, err = vm.Eval(fstest.MapFS{}, "main", src) }); e != nil {
				err = e
			}
			if err != nil {
				break
			}
		}
		want := "&{A:2 B:3 C:c D:1.5 E:true F:[4]} 5 1"
		c.Rep.Oracle["type-gains-fields"]++
		if got := strings.TrimSpace(out.String()); err != nil || got != want {
			c.Rep.Violate(Violation{Kind: "oracle", Cut: "type-gains-fields", Input: "type G struct{A int} redeclared with fields A..F, then a fresh instance printed", Impl: fmt.Sprintf("%s err=%v", got, err), Oracle: want})
			return
		}
	}
}

// c17LiveReload: the package is reloaded WHILE one of its functions is running (from the yield hook reached through
// time.Sleep, as a live-coding host does). From then on the running function reads the re-initialised variables,
// keeps the variables without initialiser, and its calls run the new code - also when the reload makes the table of
// globals grow (every version brings fresh literals).
func (c *Ctx) c17LiveReload() {
	version := func(k int) fstest.MapFS {
		var lits []string
		for j := 0; j < 40; j++ {
			lits = append(lits, fmt.Sprintf("\"v%d-literal-%d\"", k, j))
		}
		src := fmt.Sprintf("package main\n\nimport \"time\"\n\nvar Mode = \"v%d\"\n\nvar ticks int\n\nfunc step() int {\n\treturn %d\n}\n\nfunc pad() []string {\n\treturn []string{%s}\n}\n\nfunc Run(n int) int {\n\tfor i := 0; i < n; i++ {\n\t\ttime.Sleep(0)\n\t\tticks++\n\t\tMode = Mode + \"+\"\n\t\tprintln(Mode, step(), ticks, len(pad()))\n\t}\n\treturn ticks\n}\n", k, k, strings.Join(lits, ", "))
		return fstest.MapFS{"main/main.go": &fstest.MapFile{Data: []byte(src)}}
	}
	var out bytes.Buffer
	vm := goat.New(goat.WithStdout(&out))
	if err := vm.Load(version(0), "main"); err != nil {
		c.Rep.Violate(Violation{Kind: "oracle", Cut: "live-reload", Input: "load version 0", Impl: err.Error(), Oracle: "loads"})
		return
	}
	next, loadErr := 1, ""
	vm.Set("builtin.__yield", goat.NewFunc(0, 0, func(v *goat.VM) {
		if err := v.Load(version(next), "main"); err != nil && loadErr == "" {
			loadErr = err.Error()
		}
		next++
	}))
	const n = 12
	rets, err := vm.Call("main.Run", 1, goat.Int(n))
	var want strings.Builder
	for i := 1; i <= n; i++ {
		fmt.Fprintf(&want, "v%d+ %d %d 40\n", i, i, i)
	}
	c.Rep.Oracle["live-reload"]++
	got := out.String()
	if err != nil || loadErr != "" || len(rets) != 1 || rets[0].Int() != n || got != want.String() {
		c.Rep.Violate(Violation{Kind: "oracle", Cut: "live-reload", Input: "main.Run(12) sleeps in every iteration; the yield hook loads version k+1 of the package (Mode re-initialised, step() returns k+1, 40 fresh literals)",
			Impl: fmt.Sprintf("err=%v loadErr=%s rets=%v\n%s", err, loadErr, rets, got), Oracle: want.String()})
	}
}

// c17KeptContainers: package-level variables declared without an initialiser keep their current values over a reload -
// also when that value is a container that is not nil but empty at that moment (a map without keys yet, a map whose
// last key was deleted, a slice cut to s[:0]), and the container is still the one the host captured before
func (c *Ctx) c17KeptContainers() {
	version := func(k int) fstest.MapFS {
		src := fmt.Sprintf("package main\n\nvar seen map[string]bool\n\nvar counts map[int]int\n\nvar queue []int\n\nvar names []string\n\nvar total int\n\nvar label string\n\nvar ratio float64\n\nvar fresh = []int{}\n\n"+
			"func setup() {\n\tseen = map[string]bool{}\n\tcounts = make(map[int]int)\n\tcounts[7] = 1\n\tdelete(counts, 7)\n\tqueue = []int{1, 2, 3}\n\tqueue = queue[:0]\n\tnames = []string{\"a\"}\n\ttotal = 5\n\tlabel = \"\"\n\tratio = 0.0\n\tfresh = append(fresh, 1)\n}\n\n"+
			"func nils() []bool {\n\treturn []bool{seen == nil, counts == nil, queue == nil, names == nil}\n}\n\nfunc mark(k string) int {\n\tseen[k] = true\n\ttotal++\n\treturn len(seen)*100 + total + %d\n}\n\nfunc bump(k int) int {\n\tcounts[k]++\n\treturn counts[k]\n}\n\n"+
			"func push(v int) int {\n\tqueue = append(queue, v)\n\treturn len(queue)*10 + queue[0] + len(names) + len(fresh)\n}\n\nfunc state() string {\n\treturn \"v%d\" + label\n}\n", k*1000, k)
		return fstest.MapFS{"main/main.go": &fstest.MapFile{Data: []byte(src)}}
	}
	vm := goat.New()
	step := func(what string, f func() ([]goat.Value, error), want string) {
		var rets []goat.Value
		var err error
		if e := try(func() { rets, err = f() }); e != nil {
			err = fmt.Errorf("PANIC %v", e)
		}
		got := c19Show(rets, err)
		c.Rep.Oracle["kept-containers"]++
		if got != want {
			c.Rep.Violate(Violation{Kind: "oracle", Cut: "kept-containers", Input: what + " (package main: var seen map[string]bool / counts map[int]int / queue []int / names []string without initialisers; setup() leaves seen and counts empty but made, queue cut to [:0]; then version 2 is loaded)", Impl: got, Oracle: want})
		}
	}
	load := func(k int) func() ([]goat.Value, error) {
		return func() ([]goat.Value, error) { return nil, vm.Load(version(k), "main") }
	}
	call := func(name string, n int, args ...goat.Value) func() ([]goat.Value, error) {
		return func() ([]goat.Value, error) { return vm.Call("main."+name, n, args...) }
	}
	step("load version 1", load(1), "ok")
	step("setup()", call("setup", 0), "ok")
	step("nils() before the reload", call("nils", 1), "ok [false false false false]")
	heldSeen, heldCounts := vm.Get("main.seen"), vm.Get("main.counts")
	step("load version 2", load(2), "ok")
	step("state()", call("state", 1), "ok v2")
	step("nils() after the reload", call("nils", 1), "ok [false false false false]")
	step("mark(\"k\")", call("mark", 1, goat.String("k")), "ok 2106")
	step("bump(3)", call("bump", 1, goat.Int(3)), "ok 1")
	step("push(4)", call("push", 1, goat.Int(4)), "ok 15") // (fresh has an initialiser: re-initialised, empty)
	c.Rep.Oracle["kept-containers"]++
	if heldSeen.Len() != 1 || heldCounts.Len() != 1 {
		c.Rep.Violate(Violation{Kind: "oracle", Cut: "kept-containers", Input: "the maps the host read before the reload, after mark and bump ran in version 2", Impl: fmt.Sprint(heldSeen.Len(), " ", heldCounts.Len(), " entries"), Oracle: "1 1 entries (they are the package's maps)"})
	}
	step("load version 2 again", load(2), "ok")
	step("mark(\"j\")", call("mark", 1, goat.String("j")), "ok 2207")
}

// c17BuiltinNamed: reloading unchanged source leaves every function behaving as before - also when the package
// declares functions, variables or constants spelled like builtins, after their users, in a package whose import path
// differs from its name (fixes 36683fb, 72c716b: the first load took the builtin, the reload the package's name)
func (c *Ctx) c17BuiltinNamed() {
	ext := "package ext\n\nvar Log []string\n\nfunc Count(xs []int) int {\n\treturn len(xs)\n}\n\nfunc Note(s string) int {\n\tprint(s)\n\treturn cap + println\n}\n\nfunc len(xs []int) int {\n\treturn 100 + 1\n}\n\nfunc print(s string) {\n\tLog = append(Log, s)\n}\n\nvar println = 7\n\nconst cap = 30\n"
	app := "package main\n\nimport \"example.com/test/ext\"\n\nvar copy = 2\n\nfunc Run() []int {\n\treturn []int{ext.Count([]int{1, 2, 3}), ext.Note(\"n\"), len(ext.Log), copy * 2, delete(4)}\n}\n\nfunc delete(k int) int {\n\treturn k + copy\n}\n"
	for _, dir := range []string{"example.com/test/ext", "vendor/example.com/test/ext", "ext"} {
		sys := fstest.MapFS{dir + "/ext.go": &fstest.MapFile{Data: []byte(ext)}, "main/main.go": &fstest.MapFile{Data: []byte(app)}}
		vm := goat.New()
		var held goat.Value
		for load := 1; load <= 3; load++ {
			err := vm.Load(sys, "main")
			var rets []goat.Value
			if err == nil {
				if load == 2 {
					rets, err = vm.Func(held, 1)
				} else {
					rets, err = vm.Call("main.Run", 1)
				}
			}
			if load == 1 {
				held = vm.Get("main.Run")
			}
			c.Rep.Oracle["reload-builtin-named"]++
			want := fmt.Sprintf("ok [101 37 %d 4 6]", load)
			if got := c19Show(rets, err); got != want {
				c.Rep.Violate(Violation{Kind: "oracle", Cut: "reload-builtin-named", Input: fmt.Sprintf("load %d of the same source, package ext under %s:\n%s\n%s", load, dir, ext, app), Impl: got, Oracle: want})
			}
		}
	}
}

// c17NilInitialiser: a package variable declared WITH the initialiser nil is re-initialised by a reload like any other
// initialised variable (var x T = nil is not var x T, which is kept)
func (c *Ctx) c17NilInitialiser() {
	src := "package main\n\ntype Node struct {\n\tv int\n}\n\nvar head *Node = nil\n\nvar trail []int = nil\n\nvar index map[string]int = nil\n\nvar onPush func() int = nil\n\nvar kept *Node\n\nvar count = 0\n\n" +
		"func Push() int {\n\thead = &Node{v: 1}\n\tkept = head\n\ttrail = append(trail, 1)\n\tindex = map[string]int{\"a\": 1}\n\tonPush = func() int { return 1 }\n\tcount++\n\treturn len(trail)\n}\n\n" +
		"func State() []bool {\n\treturn []bool{head == nil, trail == nil, index == nil, onPush == nil, kept == nil, count == 0}\n}\n"
	sys := fstest.MapFS{"main/main.go": &fstest.MapFile{Data: []byte(src)}}
	vm := goat.New()
	for step, q := range []struct{ call, want string }{{"load", "ok"}, {"State", "ok [true true true true true true]"}, {"Push", "ok 1"}, {"Push", "ok 2"}, {"State", "ok [false false false false false false]"},
		{"load", "ok"}, {"State", "ok [true true true true false true]"}, {"Push", "ok 1"}, {"load", "ok"}, {"State", "ok [true true true true false true]"}} {
		var rets []goat.Value
		var err error
		if q.call == "load" {
			err = vm.Load(sys, "main")
		} else {
			rets, err = vm.Call("main."+q.call, 1)
		}
		c.Rep.Oracle["nil-initialiser"]++
		if got := c19Show(rets, err); got != q.want {
			c.Rep.Violate(Violation{Kind: "oracle", Cut: "nil-initialiser", Input: fmt.Sprintf("step %d (%s) of load, State, Push, Push, State, load, State, Push, load, State over:\n%s", step, q.call, src), Impl: got, Oracle: q.want})
			return
		}
	}
}

// c17DynamicInitialiser: package variables of type any declared WITH an initialiser, holding a value of another
// dynamic type when the package is reloaded (a float initialiser under an int, a string under an int, an int under a
// float, a bool under a string): the reload re-initialises them to the initialiser's value, whatever the slot holds
func (c *Ctx) c17DynamicInitialiser() {
	src := "package main\n\nimport \"fmt\"\n\nvar scale any = 1.5\n\nvar label any = \"a\"\n\nvar whole any = 2\n\nvar flag any = true\n\nvar small any = uint8(200)\n\nvar hits int\n\n" +
		"func Bump(n int) int {\n\tscale = n\n\tlabel = n + 1\n\twhole = 0.25\n\tflag = \"no\"\n\tsmall = n * 100\n\thits++\n\treturn hits\n}\n\n" +
		"func State() string {\n\treturn fmt.Sprint(scale, \"|\", label, \"|\", whole, \"|\", flag, \"|\", small, \"|\", hits)\n}\n"
	sys := fstest.MapFS{"main/main.go": &fstest.MapFile{Data: []byte(src)}}
	vm := goat.New()
	for step, q := range []struct {
		call, want string
	}{{"load", "ok"}, {"State", "ok 1.5|a|2|true|200|0"}, {"Bump", "ok 1"}, {"State", "ok 7|8|0.25|no|700|1"}, {"load", "ok"}, {"State", "ok 1.5|a|2|true|200|1"},
		{"Bump", "ok 2"}, {"Bump", "ok 3"}, {"load", "ok"}, {"load", "ok"}, {"State", "ok 1.5|a|2|true|200|3"}} {
		var rets []goat.Value
		var err error
		switch q.call {
		case "load":
			err = vm.Load(sys, "main")
		case "Bump":
			rets, err = vm.Call("main.Bump", 1, goat.Int(7))
		default:
			rets, err = vm.Call("main."+q.call, 1)
		}
		c.Rep.Oracle["dynamic-initialiser"]++
		if got := c19Show(rets, err); got != q.want {
			c.Rep.Violate(Violation{Kind: "oracle", Cut: "dynamic-initialiser", Input: fmt.Sprintf("step %d (%s) of load, State, Bump(7), State, load, State, Bump, Bump, load, load, State over:\n%s", step, q.call, src), Impl: got, Oracle: q.want})
			return
		}
	}
}

func runC17(c *Ctx) error {
	c.c17DynamicInitialiser()
	c.c17LiveReload()
	c.c17NilInitialiser()
	c.c17BuiltinNamed()
	c.c17KeptContainers()
	c.c17TypeGainsFields()
	c.Rep.Rule = "reload: one VM per history; 2..5 versions of a package with 1..5 functions and 1..3 methods whose bodies change, stay the same, appear in a later version or are left out of one; 8..37 steps of Load(version k) / Eval with an explicit import (reload of the current version, also of unchanged source) / capture of a function in a variable, a struct field, a slice element, of a bound method and of a bound method inside a struct field / new instance / call of everything captured and of every function and method by name / creation and formatting of fresh instances of every struct type by the current code / Bump, SetMode, instance Inc / read of the package variables (two without initialiser, two with); distinct = distinct history; non-trivial = at least two loads and one capture"
	n := 500
	if c.Thorough() {
		n = 20000
	}
	var lines, impl []string
	var starts []int
	var scripts [][]string
	for i := 0; i < n; i++ {
		l, im, want, script, fatal := c.c17History()
		loads, capsN := 0, 0
		for _, x := range l {
			if strings.HasPrefix(x, "rl load") {
				loads++
			}
			if strings.HasPrefix(x, "rl cap") {
				capsN++
			}
		}
		c.Rep.Seen(strings.Join(script, "\n"), loads > 2 && capsN > 0)
		if fatal != "" {
			c.Rep.Violate(Violation{Kind: "crash", Cut: "reload", Input: script, Impl: fatal})
		}
		for k := range l {
			c.Rep.Oracle["spec"]++
			if im[k] != want[k] {
				c.Rep.Violate(Violation{Kind: "oracle", Cut: "spec", Input: script, Impl: l[k] + " -> " + im[k], Oracle: want[k]})
				break
			}
		}
		if i == 0 {
			c.Rep.Sample(map[string]any{"history": script[:min(len(script), 25)]})
		}
		starts = append(starts, len(lines))
		lines = append(lines, l...)
		impl = append(impl, im...)
		scripts = append(scripts, script)
	}
	if c.Model != nil {
		ans, err := c.Model.AskAll(lines)
		if err != nil {
			return err
		}
		hist, reported := 0, -1
		for i, a := range ans {
			for hist+1 < len(starts) && starts[hist+1] <= i {
				hist++
			}
			c.Rep.Corr["reload"]++
			if a != impl[i] && reported != hist {
				reported = hist
				c.Rep.Violate(Violation{Kind: "correspondence", Cut: "reload", Input: map[string]any{"script": scripts[hist], "model_lines": lines[starts[hist] : i+1]}, Impl: impl[i], Model: a})
			}
		}
	}
	return nil
}
