package main

// C18 — incremental evaluation equals whole-program evaluation.
//
// cut point eval:  programs of the model's statement kinds (global definitions and assignments,
//                  println, expression statements, late-bound functions, top-level loops and ifs)
//                  evaluated by the real VM in one Eval call, statement by statement and in a
//                  random cutting == Lean model Goat.Incr.evalChunks on the same cutting (output,
//                  final globals, returned values; also the failing cases)             [correspondence]
// oracle:          rich generated top-level programs (progen: declarations of every kind, control
//                  statements, calls, methods, maps, slices, multi-value forms, imports) evaluated
//                  whole on a fresh VM and in 3 random cuttings on one VM each: output, returned
//                  values and the final values of all top-level variables must agree         [search]

import (
	"bytes"
	"fmt"
	"strings"
	"testing/fstest"

	goat "github.com/philhassey/goatlang"
)

func init() { checks["C18"] = runC18 }

type c18Result struct {
	out  string
	rets []string
	err  string
}

// evalChunks feeds the chunks to successive Eval calls of one fresh VM (import aliases persisted,
// as the REPL does) and then reads the listed globals with one more call.
func evalChunked(chunks []string, globals []string) (res c18Result, finals string) {
	return evalChunkedIn(fstest.MapFS{}, chunks, globals)
}

// evalChunkedIn: the same with script packages to import
func evalChunkedIn(sys fstest.MapFS, chunks []string, globals []string) (res c18Result, finals string) {
	var w bytes.Buffer
	vm := goat.New(goat.WithStdout(&w))
	imports := map[string]string{}
	goat.VerifSetBudget(3000000)
	defer goat.VerifSetBudget(-1)
	for _, ch := range chunks {
		var rets []goat.Value
		var err error
		if e := try(func() { rets, err = vm.Eval(sys, "main", ch, goat.WithEvalImports(imports)) }); e != nil {
			err = fmt.Errorf("PANIC %v", e)
		}
		for _, v := range rets {
			res.rets = append(res.rets, v.String())
		}
		if err != nil {
			res.err = err.Error()
			break
		}
	}
	res.out = w.String()
	if res.err == "" && len(globals) > 0 {
		w.Reset()
		if _, err := vm.Eval(sys, "main", "println("+strings.Join(globals, ", ")+")", goat.WithEvalImports(imports)); err != nil {
			finals = "ERR " + err.Error()
		} else {
			finals = strings.TrimSpace(w.String())
		}
	}
	return
}

func cutRandom(r *RNG, stmts []string) (chunks []string, sizes []int) {
	for i := 0; i < len(stmts); {
		n := 1 + r.Intn(4)
		if i+n > len(stmts) {
			n = len(stmts) - i
		}
		chunks = append(chunks, strings.Join(stmts[i:i+n], "\n"))
		sizes = append(sizes, n)
		i += n
	}
	return
}

// ---------------------------------------------------------------- model-language programs

type c18Item struct{ src, tok string }

func c18Expr(r *RNG, vars, funcs []string, d int) (src, tok string) {
	k := r.Intn(10)
	switch {
	case d > 0 && k < 3:
		a, at := c18Expr(r, vars, funcs, d-1)
		b, bt := c18Expr(r, vars, funcs, d-1)
		if r.Bool() {
			return "(" + a + " + " + b + ")", "+ " + at + " " + bt
		}
		return "(" + a + " - " + b + ")", "- " + at + " " + bt
	case k < 6 && len(vars) > 0:
		v := Pick(r, vars)
		return v, "v" + v
	case k < 8 && len(funcs) > 0:
		f := Pick(r, funcs)
		return f + "()", "c" + f
	}
	n := r.Intn(20) - 5
	if n < 0 {
		return fmt.Sprintf("(%d)", n), fmt.Sprintf("n%d", n)
	}
	return fmt.Sprint(n), fmt.Sprintf("n%d", n)
}

func c18ToyProgram(r *RNG) (items []c18Item, vars []string, bad bool) {
	var funcs []string
	n := 3 + r.Intn(14)
	for i := 0; i < n; i++ {
		switch k := r.Intn(100); {
		case k < 22 || len(vars) == 0:
			x := fmt.Sprintf("g%d", len(vars))
			// globals may carry the names that top-level blocks use for their own locals
			if r.Intn(4) == 0 {
				for _, cand := range []string{"i", "t", "w"} {
					if !contains(vars, cand) {
						x = cand
						break
					}
				}
			}
			e, et := c18Expr(r, vars, funcs, 2)
			src := x + " := " + e
			if r.Intn(3) == 0 {
				src = "var " + x + " = " + e
			}
			items = append(items, c18Item{src, "D " + x + " " + et})
			vars = append(vars, x)
		case k < 38:
			x := Pick(r, vars)
			e, et := c18Expr(r, vars, funcs, 2)
			if r.Intn(3) == 0 {
				items = append(items, c18Item{x + " += " + e, "S " + x + " + v" + x + " " + et})
			} else {
				items = append(items, c18Item{x + " = " + e, "S " + x + " " + et})
			}
		case k < 52:
			e, et := c18Expr(r, vars, funcs, 2)
			items = append(items, c18Item{"println(" + e + ")", "P " + et})
		case k < 64: // expression statement: its value is returned (a bare call would be a call statement)
			// (never starting with a parenthesis: after a line ending in "}" that is not Go's statement syntax)
			a, at := fmt.Sprint(r.Intn(9)), ""
			at = "n" + a
			if len(vars) > 0 && r.Bool() {
				a = Pick(r, vars)
				at = "v" + a
			}
			b, bt := c18Expr(r, vars, funcs, 1)
			items = append(items, c18Item{a + " + " + b, "E + " + at + " " + bt})
		case k < 78:
			f := fmt.Sprintf("f%d", len(funcs))
			if len(funcs) > 0 && r.Intn(4) == 0 {
				f = Pick(r, funcs) // re-definition: later calls, also from older functions, see the new body
			}
			// the body may mention any global defined so far (late bound) but only older functions (no recursion)
			var older []string
			for _, g := range funcs {
				if g < f && len(g) <= len(f) {
					older = append(older, g)
				}
			}
			e, et := c18Expr(r, vars, older, 2)
			src := "func " + f + "() int { return " + e + " }"
			if r.Bool() {
				src = "func " + f + "() int {\n\tt := " + e + "\n\treturn t\n}"
			}
			items = append(items, c18Item{src, "F " + f + " " + et})
			if !contains(funcs, f) {
				funcs = append(funcs, f)
			}
		case k < 88:
			x := Pick(r, vars)
			if x == "i" || x == "t" || x == "w" {
				continue // the block's own locals would shadow the target
			}
			kk := r.Intn(6)
			switch r.Intn(3) {
			case 0:
				items = append(items, c18Item{fmt.Sprintf("for i := 0; i < %d; i++ {\n\t%s = %s + i\n}", kk, x, x), fmt.Sprintf("L %d %s", kk, x)})
			case 1: // a local declared in the body
				items = append(items, c18Item{fmt.Sprintf("for i := 0; i < %d; i++ {\n\tt := i\n\t%s = %s + t\n}", kk, x, x), fmt.Sprintf("L %d %s", kk, x)})
			default: // nested block with its own local
				items = append(items, c18Item{fmt.Sprintf("for i := 0; i < %d; i++ {\n\tif i >= 0 {\n\t\tw := i\n\t\t%s += w\n\t}\n}", kk, x), fmt.Sprintf("L %d %s", kk, x)})
			}
		case k < 97:
			x := Pick(r, vars)
			if x == "t" {
				continue
			}
			var visible []string // the header variable t shadows a global t inside the statement
			for _, v := range vars {
				if v != "t" {
					visible = append(visible, v)
				}
			}
			cnd, ct := c18Expr(r, visible, funcs, 1)
			e, et := c18Expr(r, visible, funcs, 1)
			if r.Bool() || x == "w" {
				items = append(items, c18Item{fmt.Sprintf("if %s > 0 {\n\t%s = %s\n}", cnd, x, e), "I " + ct + " " + x + " " + et})
			} else { // header variable and a body local
				items = append(items, c18Item{fmt.Sprintf("if t := %s; t > 0 {\n\tw := %s\n\t%s = w\n}", cnd, e, x), "I " + ct + " " + x + " " + et})
			}
		default: // a use before any definition: both strategies must fail
			bad = true
			// (an undefined *variable* reads as nil in goatlang in both modes; the model has no nil, so only calls)
			items = append(items, c18Item{"println(nofunc())", "P cnofunc"})
		}
	}
	return
}

func contains(a []string, s string) bool {
	for _, x := range a {
		if x == s {
			return true
		}
	}
	return false
}

func (c *Ctx) c18Toy(n int) error {
	r := c.RNG
	type job struct {
		items []c18Item
		vars  []string
		sizes []int
		res   c18Result
		fin   string
		mode  string
	}
	var jobs []job
	var lines []string
	for it := 0; it < n; it++ {
		items, vars, bad := c18ToyProgram(r)
		var srcs []string
		for _, i := range items {
			srcs = append(srcs, i.src)
		}
		c.Rep.Seen(strings.Join(srcs, "\n"), len(items) > 5)
		if bad {
			c.Rep.Count("toy-with-error")
		}
		for _, mode := range []string{"whole", "each", "random"} {
			var chunks []string
			var sizes []int
			switch mode {
			case "whole":
				chunks, sizes = []string{strings.Join(srcs, "\n")}, []int{len(srcs)}
			case "each":
				for _, s := range srcs {
					chunks, sizes = append(chunks, s), append(sizes, 1)
				}
			default:
				chunks, sizes = cutRandom(r, srcs)
			}
			res, fin := evalChunked(chunks, vars)
			jobs = append(jobs, job{items, vars, sizes, res, fin, mode})
			var toks []string
			k := 0
			for ci, sz := range sizes {
				if ci > 0 {
					toks = append(toks, "|")
				}
				for j := 0; j < sz; j++ {
					toks = append(toks, items[k].tok)
					k++
				}
			}
			lines = append(lines, "incr "+strings.Join(toks, " "))
			c.Rep.Count("toy-mode-" + mode)
		}
		if it == 0 {
			c.Rep.Sample(map[string]any{"toy_program": srcs})
		}
	}
	if c.Model == nil {
		return nil
	}
	ans, err := c.Model.AskAll(lines)
	if err != nil {
		return err
	}
	for i, j := range jobs {
		c.Rep.Corr["eval"]++
		got := "err"
		if j.res.err == "" {
			var outs []string
			for _, l := range strings.Split(strings.TrimSpace(j.res.out), "\n") {
				if l != "" {
					outs = append(outs, l)
				}
			}
			var vs []string
			fin := strings.Fields(j.fin)
			for k, v := range j.vars {
				val := "?"
				if k < len(fin) {
					val = fin[k]
				}
				vs = append(vs, v+":"+val)
			}
			// the model sorts variables by name
			sortStringsByName(vs)
			got = "ok out=" + strings.Join(outs, ",") + " vars=" + strings.Join(vs, ",") + " rets=" + strings.Join(j.res.rets, ",")
		}
		if got != ans[i] {
			var srcs []string
			for _, it := range j.items {
				srcs = append(srcs, it.src)
			}
			c.Rep.Violate(Violation{Kind: "correspondence", Cut: "eval", Input: map[string]any{"statements": srcs, "chunk_sizes": j.sizes, "mode": j.mode}, Impl: got + " " + j.res.err, Model: ans[i]})
		}
	}
	return nil
}

func sortStringsByName(a []string) {
	for i := 1; i < len(a); i++ {
		for j := i; j > 0 && strings.SplitN(a[j], ":", 2)[0] < strings.SplitN(a[j-1], ":", 2)[0]; j-- {
			a[j], a[j-1] = a[j-1], a[j]
		}
	}
}

// ---------------------------------------------------------------- rich programs: whole vs cut

// GenTopLevel: the progen generator used at top level: helper declarations, then statements
func GenTopLevel(r *RNG, depth int) (stmts []string, globals []string, feat map[string]bool) {
	g := &PG{r: r, budget: 30, feat: map[string]bool{}}
	g.prelude() // (the same declarations as whole programs get; each is one top-level statement)
	// locals of other numeric types at the same frame offsets in functions called one after the other: a local
	// initialised from an untyped constant has its own type whatever an earlier call left in that stack cell
	g.w("func scaleF(f float64) float64 {\n\tg2 := f * 2.0\n\tvar b2 byte = 200\n\tb2 += 100\n\treturn g2 + float64(b2)\n}\n")
	g.w("func halfI(n int) int {\n\tk := 2\n\tj := 300\n\treturn n/k + j\n}\n")
	// function types without a result: as the last statement of a chunk the type is followed by the end of the input
	if r.Bool() {
		g.f("result-less-func-type")
		g.w("type handler func(int)\n")
		g.w("var cb func(int)\n")
		g.w("var hv handler\n")
		g.w("println(\"cb\", cb == nil, hv == nil)\n")
	}
	nh := r.Intn(3)
	for h := 0; h < nh; h++ {
		g.w("func h%d(p int) int {\n", h)
		g.scopes = [][]pvar{{{"p", "int"}}}
		g.inFunc = true
		g.nHelper = h
		g.block(depth - 1)
		g.w("return %s\n}\n", g.intExpr(2))
		g.inFunc = false
	}
	g.nHelper = nh
	g.scopes = [][]pvar{nil}
	n := 3 + r.Intn(8)
	for i := 0; i < n && g.budget > 0; i++ {
		g.budget--
		g.stmt(depth)
		if r.Intn(4) == 0 { // expression statements: their values are what Eval returns
			if iv := g.vars("int"); len(iv) > 0 {
				g.w("%s + %d\n", Pick(r, iv), r.Intn(5))
				g.f("expr-stmt")
			}
		}
		if r.Intn(5) == 0 {
			g.trace()
		}
	}
	// function literals at top level: each statement of a one-statement-per-Eval cutting starts at line 1, so literals
	// of different statements stand at the same position; one declares a type, the next has a parameter of that
	// name, and a later top-level block uses a variable of that name
	if r.Intn(2) == 0 {
		g.f("top-level-literals-with-local-type")
		k := 2 + r.Intn(6)
		g.w("area := func(w int, h int) int {\n\ttype rect struct {\n\t\tw int\n\t\th int\n\t}\n\tq := &rect{w: w, h: h}\n\treturn q.w * q.h\n}\n")
		g.w("rect := area(3, %d)\n", k)
		g.w("if rect > 10 {\n\tprintln(\"rect big\", rect)\n} else {\n\tprintln(\"rect small\", rect)\n}\n")
		g.w("grow := func(rect int) int {\n\treturn rect + 1\n}\n")
		g.w("for i := 0; i < 2; i++ {\n\trect += grow(i)\n}\n")
		g.w("println(\"lits\", area(2, 3), grow(rect), rect)\n")
		g.declare("rect", "int")
	}
	// a spread appended onto a nil slice, followed by statements that push operands: the new slice owns its elements
	if r.Bool() {
		g.f("append-spread-onto-nil")
		k := r.Intn(50)
		g.w("var all []int\n")
		g.w("part := []int{%d, %d, %d}\n", k, k+1, k+2)
		g.w("all = append(all, part...)\n")
		g.w("more := []int{7, 8, 9}\n")
		g.w("println(\"all\", all[2], all[1], all[0], more[0]+more[1]*more[2])\n")
		g.w("all[0] + all[1]*100\n")
	}
	g.w("sf := scaleF(1.5)\n")
	g.w("hi := halfI(9)\n")
	g.w("println(\"stale\", sf, hi, halfI(7))\n")
	// functions declared after statements that allocated top-level locals; their outermost scope redeclares
	// a variable of another numeric type together with a new one (valid Go: x stays float64)
	for l := r.Intn(3); l > 0; l-- {
		k1, k2 := 1+r.Intn(9), 1+2*r.Intn(9)
		g.w("func late%d(p int) float64 {\n\ta, x := p, %d.5\n\tb, x := %d, %d\n\tif p > 1000 {\n\t\tc, x := 1, 2\n\t\t_ = c\n\t\t_ = x\n\t}\n\treturn x/2 + float64(a-a+b-b)\n}\n", l, k1, k1, k2)
		g.w("println(\"late\", late%d(%d))\n", l, r.Intn(5))
		g.f("late-func-redeclare")
	}
	g.trace()
	// split into top-level statements: a statement ends where the brace depth returns to zero
	depthB := 0
	var cur []string
	for _, line := range strings.Split(g.sb.String(), "\n") {
		if strings.TrimSpace(line) == "" && depthB == 0 {
			continue
		}
		cur = append(cur, line)
		depthB += strings.Count(line, "{") - strings.Count(line, "}") + strings.Count(line, "(") - strings.Count(line, ")")
		if depthB == 0 {
			stmts = append(stmts, strings.Join(cur, "\n"))
			cur = nil
		}
	}
	for _, v := range g.scopes[0] {
		if v.typ == "int" || v.typ == "bool" || v.typ == "string" {
			globals = append(globals, v.name)
		}
	}
	return stmts, globals, g.feat
}

func (c *Ctx) c18Rich(n int) {
	r := c.RNG
	for it := 0; it < n; it++ {
		stmts, globals, feat := GenTopLevel(r, 3)
		if r.Intn(3) == 0 { // imports persist across calls through the alias map
			stmts = append([]string{"import \"fmt\""}, stmts...)
			stmts = append(stmts, "fmt.Println(\"fmt\", fuel)")
			feat["import"] = true
		}
		whole, wfin := evalChunked([]string{strings.Join(stmts, "\n")}, globals)
		c.Rep.Seen(strings.Join(stmts, "\n"), len(stmts) > 10)
		for f := range feat {
			c.Rep.Count("rich-" + f)
		}
		if whole.err != "" {
			c.Rep.Count("rich-whole-error")
			if c.Rep.Dist["rich-whole-error"] <= 2 {
				c.Rep.Sample(map[string]any{"whole_error": whole.err, "program": stmts})
			}
			continue
		}
		for k := 0; k < 3; k++ {
			var chunks []string
			var sizes []int
			if k == 0 {
				for range stmts {
					sizes = append(sizes, 1)
				}
				chunks = stmts
			} else {
				chunks, sizes = cutRandom(r, stmts)
			}
			got, gfin := evalChunked(chunks, globals)
			c.Rep.Oracle["whole-vs-cut"]++
			if got.err != whole.err || got.out != whole.out || strings.Join(got.rets, ",") != strings.Join(whole.rets, ",") || gfin != wfin {
				c.Rep.Violate(Violation{Kind: "oracle", Cut: "whole-vs-cut", Input: map[string]any{"statements": stmts, "chunk_sizes": sizes},
					Impl:   fmt.Sprintf("err=%s\nout=%s\nrets=%v\nglobals=%s", got.err, got.out, got.rets, gfin),
					Oracle: fmt.Sprintf("err=%s\nout=%s\nrets=%v\nglobals=%s", whole.err, whole.out, whole.rets, wfin)})
				break
			}
		}
		if it == 0 {
			c.Rep.Sample(map[string]any{"rich_program": stmts})
		}
	}
	if bad := c.Rep.Dist["rich-whole-error"]; bad*10 > n {
		c.Rep.Notes = append(c.Rep.Notes, fmt.Sprintf("generator health: %d of %d rich programs failed as a whole and were skipped", bad, n))
	}
}

// c18Fixed: handwritten statement sequences, whole against every cutting into two chunks and one statement per call
func (c *Ctx) c18Fixed(cut string, sys fstest.MapFS, stmts []string, globals []string) (whole c18Result, differs bool) {
	whole, wfin := evalChunkedIn(sys, []string{strings.Join(stmts, "\n")}, globals)
	cuts := [][]string{stmts}
	for k := 1; k < len(stmts); k++ {
		cuts = append(cuts, []string{strings.Join(stmts[:k], "\n"), strings.Join(stmts[k:], "\n")})
	}
	for _, chunks := range cuts {
		got, gfin := evalChunkedIn(sys, chunks, globals)
		c.Rep.Oracle[cut]++
		if got.err != whole.err || got.out != whole.out || strings.Join(got.rets, ",") != strings.Join(whole.rets, ",") || gfin != wfin {
			c.Rep.Violate(Violation{Kind: "oracle", Cut: cut, Input: map[string]any{"chunks": chunks},
				Impl:   fmt.Sprintf("err=%s\nout=%s\nrets=%v\nglobals=%s", got.err, got.out, got.rets, gfin),
				Oracle: fmt.Sprintf("err=%s\nout=%s\nrets=%v\nglobals=%s", whole.err, whole.out, whole.rets, wfin)})
			return whole, true
		}
	}
	return whole, false
}

// c18BlockLocals: top-level statements with block-scoped variables (for / if with an init clause) of different types in
// successive statements: a variable declared by a later call starts fresh - it does not see the value or the type
// an earlier call left in a frame slot of the same number
func (c *Ctx) c18BlockLocals() {
	for _, stmts := range [][]string{
		{"g := 0", "for f := 0.5; f < 2; f++ { g++ }", "for n := 7; n < 8; n++ { h = n / 2 }", "println(g, h)", "h"},
		{"g := 0", "for f := 0.5; f < 2; f++ { g++ }", "for n := 7; n < 8; n++ { println(n / 2) }", "g"},
		{"x := 1", "for b := uint8(250); b > 249 && b < 255; b++ { x++ }", "for i := 300; i == 300; i++ { println(i, x) }", "x"},
		{"s := \"\"", "if t := \"ab\"; len(t) > 1 { s = t }", "if k := 5; k > 1 { println(k / 2, s) }", "for q := 9; q < 10; q++ { println(q / 2) }", "s"},
		{"w := 0.0", "for a := 1; a < 3; a++ { w += 0.5 }", "for z := 0.25; z < 1; z++ { w += z / 2 }", "for e := 9; e > 8; e-- { println(e / 2, w) }", "w"},
	} {
		c.Rep.Count("block-locals-top-level")
		if whole, _ := c.c18Fixed("whole-vs-cut-block-locals", fstest.MapFS{}, stmts, nil); whole.err != "" {
			c.Rep.Violate(Violation{Kind: "oracle", Cut: "whole-vs-cut-block-locals", Input: stmts, Impl: whole.err, Oracle: "evaluates as a whole"})
		}
	}
}

// c18LiteralTypes: function literals that declare local types. Every Eval call counts its lines from 1, so literals of
// different calls share their position - and a literal is named by its position: the later one must not see the types
// of the earlier one (enterFunc forgets them; the tie Gen.enterFuncDrops)
func (c *Ctx) c18LiteralTypes() {
	for _, stmts := range [][]string{
		{"mk := func() any { type T struct { id int; tag string }; return &T{id: 1, tag: \"t\"} }", "pr := func() any { type T struct { name string }; return &T{name: \"xyz\"} }", "println(mk())", "println(pr())"},
		{"f1 := func(a int) int { type T struct { a int }; t := &T{a: a}; return t.a + 1 }", "f2 := func(T int) int { y := T + 90; return y }", "x := f1(1)", "y := f2(8)", "println(x, y)", "y"},
		{"func one() any { g := func() any { type P struct { x int }; return &P{x: 3} }; return g() }", "func two() any { g := func() any { type P struct { s string; n int }; return &P{s: \"s\"} }; return g() }", "println(one(), two())"},
		{"h := func() any { type T struct { a int }; return &T{a: 1} }", "h = func() any { type T struct { b string }; return &T{b: \"b\"} }", "println(h())"},
	} {
		c.Rep.Count("literal-types")
		if whole, _ := c.c18Fixed("whole-vs-cut-literal-types", fstest.MapFS{}, stmts, nil); whole.err != "" {
			c.Rep.Violate(Violation{Kind: "oracle", Cut: "whole-vs-cut-literal-types", Input: stmts, Impl: whole.err, Oracle: "evaluates as a whole"})
		}
	}
}

// c18BuiltinNamed: a top-level function or variable spelled like a builtin, defined and then used: the use means the
// program's name in one call as in successive calls (the choice is made from what is DECLARED when the use is
// compiled, not from what has run)
func (c *Ctx) c18BuiltinNamed() {
	for _, stmts := range [][]string{
		{"xs := []int{1, 2, 3}", "func len(s []int) int { return 42 }", "n := len(xs)", "println(\"n =\", n)", "n + 1"},
		{"func println(s string) string { return \"p:\" + s }", "func use() string { return println(\"q\") }", "r := use()", "r"},
		{"func copy(a int, b int) int { return a*10 + b }", "v := copy(1, 2)", "func delete(k int) int { return k * 100 }", "func later() int { return copy(3, 4) + delete(5) }", "w := later()", "v + w"},
		{"append := 7", "x := append + 1", "x"},
	} {
		c.Rep.Count("builtin-named-top-level")
		c.c18Fixed("whole-vs-cut-builtin-named", fstest.MapFS{}, stmts, nil)
	}
}

// c18Packages: imports of script packages at any cut. The packages here have no visible initialisation (functions,
// constants and variables nobody changes): evaluating them again is invisible - see c18OpenFindings for the others
func (c *Ctx) c18Packages() {
	sys := fstest.MapFS{
		"geom/geom.go":  {Data: []byte("package geom\n\nconst Unit = 3\n\nvar Names = []string{\"w\", \"h\"}\n\ntype Rect struct {\n\tW, H int\n}\n\nfunc (r *Rect) Area() int {\n\treturn r.W * r.H * Unit\n}\n\nfunc Area(w, h int) int {\n\treturn w * h * Unit\n}\n")},
		"text/text.go":  {Data: []byte("package text\n\nimport \"geom\"\n\nfunc Label(w, h int) string {\n\treturn geom.Names[0] + \"x\" + geom.Names[1]\n}\n\nfunc Twice(w int) int {\n\treturn geom.Area(w, 2)\n}\n")},
		"deep/er/er.go": {Data: []byte("package er\n\nimport (\n\t\"geom\"\n\t\"text\"\n)\n\nfunc Sum(w int) int {\n\treturn text.Twice(w) + geom.Unit\n}\n")},
		"vendor/v/v.go": {Data: []byte("package v\n\nfunc V() int {\n\treturn 7\n}\n")},
	}
	for _, stmts := range [][]string{
		{"import \"geom\"", "a := geom.Area(2, 3)", "import \"text\"", "b := text.Twice(a)", "println(a, b, text.Label(1, 2))", "b"},
		{"import \"text\"", "import \"geom\"", "r := &geom.Rect{W: 2, H: 5}", "println(r.Area(), text.Twice(1))", "import \"deep/er\"", "x := er.Sum(r.W)", "x"},
		{"import \"deep/er\"", "s := er.Sum(4)", "import \"v\"", "import \"fmt\"", "fmt.Println(s, v.V())", "func f() int { return er.Sum(1) + v.V() }", "f()"},
		{"import (\n\tg \"geom\"\n)", "import \"geom\"", "println(g.Unit, geom.Unit, g.Area(1, 1))", "func area(w int) int { return g.Area(w, w) }", "import \"text\"", "area(3) + text.Twice(1)"},
	} {
		c.Rep.Count("script-package-imports")
		if whole, _ := c.c18Fixed("whole-vs-cut-packages", sys, stmts, nil); whole.err != "" {
			c.Rep.Violate(Violation{Kind: "oracle", Cut: "whole-vs-cut-packages", Input: stmts, Impl: whole.err, Oracle: "evaluates as a whole"})
		}
	}
}

// c18OpenFindings replays the recorded, unrepaired defects (known_findings.json): each witness is evaluated whole and
// one statement per call; while the two still differ as recorded the finding is listed, a witness that stops
// differing is silent, any other difference is a violation of its own
func (c *Ctx) c18OpenFindings() {
	libs := fstest.MapFS{
		"liba/a.go": {Data: []byte("package liba\n\nvar N = 0\n\nfunc init() {\n\tprintln(\"liba init\")\n}\n\nfunc Inc() int {\n\tN++\n\treturn N\n}\n")},
		"libb/b.go": {Data: []byte("package libb\n\nimport \"liba\"\n\nfunc init() {\n\tprintln(\"libb init\", liba.N)\n}\n\nfunc Get() int {\n\treturn liba.N\n}\n")},
		"liby/y.go": {Data: []byte("package liby\n\nfunc init() {\n\tprintln(\"liby init\")\n}\n")},
		"libz/z.go": {Data: []byte("package libz\n\nfunc init() {\n\tprintln(\"libz init\")\n}\n")},
	}
	for _, w := range []struct {
		id    string
		stmts []string
	}{
		{"eval-import-runs-package-again", []string{"import \"liba\"", "import \"libb\"", "x := libb.Get()", "x"}},
		{"eval-import-order", []string{"import \"libz\"", "import \"liby\"", "1"}},
		{"eval-statement-glued-to-previous-line", []string{"a := 5", "-a"}},
	} {
		whole, _ := evalChunkedIn(libs, []string{strings.Join(w.stmts, "\n")}, nil)
		each, _ := evalChunkedIn(libs, w.stmts, nil)
		c.Rep.Oracle["open-finding-witness"]++
		if whole.err == each.err && whole.out == each.out && strings.Join(whole.rets, ",") == strings.Join(each.rets, ",") {
			continue
		}
		show := func(r c18Result) string {
			return fmt.Sprintf("out=%q rets=%v err=%s", r.out, r.rets, r.err)
		}
		if f, ok := c.Findings[w.id]; ok {
			c.Rep.Known = append(c.Rep.Known, w.id+": "+f.What+" (witness "+strings.Join(w.stmts, " / ")+": whole "+show(whole)+", one statement per call "+show(each)+")")
			continue
		}
		c.Rep.Violate(Violation{Kind: "oracle", Cut: "open-finding-witness", Input: w.stmts, Impl: show(each), Oracle: show(whole)})
	}
}

func runC18(c *Ctx) error {
	c.c18OpenFindings()
	c.c18LiteralTypes()
	c.c18BlockLocals()
	c.c18Packages()
	c.c18BuiltinNamed()
	c.Rep.Rule = "eval: programs of 3..16 top-level statements of the model's kinds (:= / var definitions, = and += assignments, println, expression statements, functions incl. re-definition with late-bound globals, top-level for loops and ifs; 3% with a use before definition) evaluated whole, one statement per Eval and in a random cutting (chunks of 1..4), each compared with the model on the same cutting; whole-vs-cut: progen top-level programs (type, method and function declarations, helpers, variables of int/bool/string/slice/map/struct types, if/for/switch/range, multi-value calls, closures-free calls, expression statements, optional import) evaluated whole and in three cuttings; distinct = distinct program; non-trivial = more than 5 / 10 statements"
	nt, nr := 500, 300
	if c.Thorough() {
		nt, nr = 40000, 15000
	}
	if err := c.c18Toy(nt); err != nil {
		return err
	}
	c.c18Rich(nr)
	return nil
}
