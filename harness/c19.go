package main

// C19 — the embedding API passes values faithfully in both directions.
//
// cut point native:  natives registered with each of the six NewFunc signature forms, arities
//                    0..6, 0..4 results, called by a CALL instruction on the real VM above a caller
//                    stack prefix (right / wrong argument count, every requested result count,
//                    panicking bodies) and through VM.Func == Lean model Goat.Host       [correspondence]
// oracle:            what the native itself observed (exact argument values and order); scripts
//                    calling natives nested in expressions, variadic natives with 0..n extras and
//                    spread, VM.Call / VM.Func on script functions for every requested result
//                    count, errors from natives and from nested VM.Call surfacing in the outer
//                    call; constructor/accessor round trips over each constructor's domain [search]

import (
	"bytes"
	"fmt"
	"math"
	"strings"
	"testing/fstest"

	goat "github.com/philhassey/goatlang"
)

func init() { checks["C19"] = runC19 }

type c19Native struct {
	form  string
	argc  int
	nres  int // -1: panics
	seen  [][]int
	value goat.Value
	reuse int // how the native builds its result slice: 0 fresh; 1..3 in the storage of the args slice it was handed
}

func c19Weigh(args []int) int {
	s := 0
	for i, a := range args {
		s += (i + 1) * a
	}
	return s
}

func newC19Native(form string, argc, nres int) *c19Native {
	n := &c19Native{form: form, argc: argc, nres: nres}
	results := func(args []goat.Value) []goat.Value {
		var in []int
		for _, a := range args {
			in = append(in, a.Int())
		}
		n.seen = append(n.seen, in)
		if n.nres < 0 {
			panic("native failure")
		}
		var out []goat.Value
		for j := 0; j < n.nres; j++ {
			out = append(out, goat.Int((j+1)*100000+c19Weigh(in)))
		}
		return out
	}
	// a native may hand back (part of) the args slice it was given, rewritten in place: the results are what the
	// slice holds when the native returns
	inPlace := func(args, out []goat.Value) []goat.Value {
		switch {
		case n.reuse == 1 && len(args) >= len(out):
			copy(args, out)
			return args[:len(out)]
		case n.reuse == 2 && len(args) >= len(out):
			copy(args[len(args)-len(out):], out)
			return args[len(args)-len(out):]
		case n.reuse == 3:
			return append(args[:0], out...)
		}
		return out
	}
	switch form {
	case "f00":
		n.value = goat.NewFunc(argc, 0, func(vm *goat.VM) { results(nil) })
	case "f01":
		n.value = goat.NewFunc(argc, 1, func(vm *goat.VM) goat.Value { return results(nil)[0] })
	case "fN0":
		n.value = goat.NewFunc(argc, 0, func(vm *goat.VM, args []goat.Value) { results(args) })
	case "fN1":
		n.value = goat.NewFunc(argc, 1, func(vm *goat.VM, args []goat.Value) goat.Value { return results(args)[0] })
	case "fNM":
		n.value = goat.NewFunc(argc, nres, func(vm *goat.VM, args []goat.Value) []goat.Value { return inPlace(args, results(args)) })
	case "fVar":
		n.value = goat.NewFunc(argc, nres, func(vm *goat.VM, args []goat.Value, vargs ...goat.Value) []goat.Value {
			return inPlace(args, results(append(append([]goat.Value{}, args...), vargs...)))
		})
	}
	return n
}

func (c *Ctx) c19Natives(n int) (lines, impl []string) {
	r := c.RNG
	forms := []string{"f00", "f01", "fN0", "fN1", "fNM", "fVar"}
	for it := 0; it < n; it++ {
		form := Pick(r, forms)
		argc := r.Intn(7)
		nres := r.Intn(5)
		switch form {
		case "f00":
			argc, nres = 0, 0
		case "f01": // (any arity: the arguments are dropped unread, the result is delivered)
			nres = 1
		case "fN0":
			nres = 0
		case "fN1":
			nres = 1
		case "fVar":
			if argc == 0 {
				argc = 1
			}
		}
		panics := r.Intn(12) == 0
		nat := newC19Native(form, argc, nres)
		if panics {
			nat.nres = -1
		}
		if nat.reuse = r.Intn(6); nat.reuse > 3 {
			nat.reuse = 0
		}
		c.Rep.Count(fmt.Sprintf("native-result-storage-%d", nat.reuse))
		xArgs := argc
		extras := 0
		if form == "fVar" {
			extras = r.Intn(4)
			xArgs = argc - 1 + extras
		}
		if r.Intn(10) == 0 { // wrong argument count
			xArgs = r.Intn(8)
		}
		xRets := r.Intn(5)
		if r.Intn(3) > 0 {
			xRets = min(nres, xRets)
		}
		prefix := r.Intn(4)
		viaFunc := r.Intn(4) == 0
		if viaFunc {
			prefix = 0
		}
		var stack []goat.Value
		var toks []string
		for i := 0; i < prefix+xArgs; i++ {
			x := r.Intn(90) + 1
			stack = append(stack, goat.Int(x))
			toks = append(toks, fmt.Sprint(x))
		}
		nresTok := fmt.Sprint(nres)
		if panics {
			nresTok = "panic"
		}
		cmd := "host"
		if viaFunc {
			cmd = "hostfunc"
		}
		line := strings.TrimRight(fmt.Sprintf("%s %s %d %d %d %s %s", cmd, form, argc, xArgs, xRets, nresTok, strings.Join(toks, " ")), " ")
		var passed []int // (VM.Func appends to and runs on the caller's params slice, so read it before the call)
		for _, v := range stack[prefix:] {
			passed = append(passed, v.Int())
		}
		var got string
		vm := goat.New()
		if viaFunc {
			var rets []goat.Value
			var err error
			if e := try(func() { rets, err = vm.Func(nat.value, xRets, stack...) }); e != nil {
				err = e
			}
			got = c19Show(rets, err)
			c.Rep.Count("via-VM.Func")
		} else {
			var st []goat.Value
			var err error
			if e := try(func() {
				_, st, err = vm.VerifRun([]goat.VerifInstr{{Code: "CALL", A: xArgs, B: xRets, Line: 1}}, 0, nil, append(append([]goat.Value{}, stack...), nat.value))
			}); e != nil {
				err = e
			}
			got = c19Show(st, err)
			c.Rep.Count("via-CALL")
		}
		lines, impl = append(lines, line), append(impl, got)
		c.Rep.Seen(line, prefix > 0 && got != "err")
		c.Rep.Count("form-" + form)
		if got == "err" {
			c.Rep.Count("native-call-error")
		}
		// what the native saw: exactly the arguments, in order
		if xArgs == argc || (form == "fVar" && xArgs >= argc-1) {
			c.Rep.Oracle["native-saw"]++
			var want []int
			if form != "f00" && form != "f01" {
				want = passed
			}
			if len(nat.seen) != 1 || fmt.Sprint(nat.seen[0]) != fmt.Sprint(want) {
				c.Rep.Violate(Violation{Kind: "oracle", Cut: "native-saw", Input: line, Impl: fmt.Sprint(nat.seen), Oracle: fmt.Sprint(want)})
			}
		}
		if it == 0 {
			c.Rep.Sample(map[string]any{"line": line, "impl": got})
		}
	}
	return
}

func c19Show(st []goat.Value, err error) string {
	if err != nil {
		return "err"
	}
	var w []string
	for _, v := range st {
		w = append(w, v.String())
	}
	return strings.TrimRight("ok "+strings.Join(w, " "), " ")
}

// ---------------------------------------------------------------- scripts calling natives and hosts calling scripts

func (c *Ctx) c19Scripts(n int) {
	r := c.RNG
	for it := 0; it < n; it++ {
		var out bytes.Buffer
		vm := goat.New(goat.WithStdout(&out))
		var seen [][]int
		argc := r.Intn(6)
		nres := 1 + r.Intn(3)
		rec := func(args []goat.Value) []goat.Value {
			var in []int
			for _, a := range args {
				in = append(in, a.Int())
			}
			seen = append(seen, in)
			var res []goat.Value
			for j := 0; j < nres; j++ {
				res = append(res, goat.Int((j+1)*1000+c19Weigh(in)))
			}
			return res
		}
		vm.Set("main.nat", goat.NewFunc(argc, nres, func(vm *goat.VM, args []goat.Value) []goat.Value { return rec(args) }))
		vm.Set("main.one", goat.NewFunc(argc, 1, func(vm *goat.VM, args []goat.Value) goat.Value { return rec(args)[0] }))
		vm.Set("main.vnat", goat.NewFunc(2, 1, func(vm *goat.VM, args []goat.Value, vargs ...goat.Value) []goat.Value {
			return rec(append(append([]goat.Value{}, args...), vargs...))[:1]
		}))
		vm.Set("main.boom", goat.NewFunc(1, 1, func(vm *goat.VM, args []goat.Value) goat.Value { panic(fmt.Sprintf("boom %d", args[0].Int())) }))
		vm.Set("main.relay", goat.NewFunc(1, 1, func(vm *goat.VM, args []goat.Value) goat.Value {
			rets, err := vm.Call("main.deep", 1, args[0])
			if err != nil {
				panic(err.Error())
			}
			return rets[0]
		}))
		// a native that re-enters the VM through the handle it was given (a different callee, different
		// arguments, both Call and Func) and reads its own arguments again afterwards
		var reBad []string
		deepFn := func() (goat.Value, bool) {
			fv := vm.Get("main.deep")
			return fv, !fv.IsNil()
		}
		reenter := func(v *goat.VM, args []goat.Value, extra []goat.Value) int {
			all := append(append([]goat.Value{}, args...), extra...)
			var before []int
			for _, a := range all {
				before = append(before, a.Int())
			}
			rets, err := v.Call("main.twoRes", 2, goat.Int(100), goat.Int(200))
			if err != nil || len(rets) != 2 || rets[0].Int() != 200 || rets[1].Int() != 100 {
				reBad = append(reBad, fmt.Sprintf("nested Call twoRes(100,200): %s", c19Show(rets, err)))
			}
			if fv, ok := deepFn(); ok {
				if r2, err := v.Func(fv, 1, goat.Int(3)); err != nil || len(r2) != 1 || r2[0].Int() != 6 {
					reBad = append(reBad, fmt.Sprintf("nested Func deep(3): %s", c19Show(r2, err)))
				}
			}
			var after []int
			for _, a := range append(append([]goat.Value{}, args...), extra...) {
				after = append(after, a.Int())
			}
			if fmt.Sprint(before) != fmt.Sprint(after) {
				reBad = append(reBad, fmt.Sprintf("arguments changed across the nested call: before %v after %v", before, after))
			}
			return c19Weigh(after)
		}
		vm.Set("main.reent", goat.NewFunc(3, 1, func(v *goat.VM, args []goat.Value) goat.Value { return goat.Int(reenter(v, args, nil)) }))
		vm.Set("main.reent2", goat.NewFunc(2, 2, func(v *goat.VM, args []goat.Value) []goat.Value {
			w := reenter(v, args, nil)
			return []goat.Value{goat.Int(w), goat.Int(w + 1)}
		}))
		vm.Set("main.reentv", goat.NewFunc(1, 1, func(v *goat.VM, args []goat.Value, vargs ...goat.Value) []goat.Value {
			return []goat.Value{goat.Int(reenter(v, args, vargs))}
		}))
		var args []int
		var argS []string
		for i := 0; i < argc; i++ {
			a := r.Intn(50) + 1
			args = append(args, a)
			argS = append(argS, fmt.Sprint(a))
		}
		al := strings.Join(argS, ", ")
		var lhs []string
		for j := 0; j < nres; j++ {
			lhs = append(lhs, fmt.Sprintf("r%d", j))
		}
		nextra := r.Intn(4)
		var ex []int
		var exS []string
		for i := 0; i < nextra; i++ {
			e := r.Intn(9) + 1
			ex = append(ex, e)
			exS = append(exS, fmt.Sprint(e))
		}
		vcall := "vnat(7" + prefixComma(exS) + ")"
		if r.Bool() {
			vcall = "vnat(7, []int{" + strings.Join(exS, ", ") + "}...)"
		}
		var ra []int
		for i := 0; i < 7; i++ {
			ra = append(ra, 1+r.Intn(60))
		}
		// the results of the native reach the script in order through every form of declaration and assignment
		natDecl := fmt.Sprintf("%s := nat(%s)", strings.Join(lhs, ", "), al)
		switch r.Intn(4) {
		case 0:
			natDecl = fmt.Sprintf("var %s = nat(%s)", strings.Join(lhs, ", "), al)
		case 1:
			natDecl = fmt.Sprintf("var %s int = nat(%s)", strings.Join(lhs, ", "), al)
		case 2:
			natDecl = fmt.Sprintf("var %s int\n\t%s = nat(%s)", strings.Join(lhs, ", "), strings.Join(lhs, ", "), al)
		}
		c.Rep.Count("script-native-results-by-" + strings.Fields(natDecl)[0])
		src := fmt.Sprintf(`func deep(n int) int {
	if n > 3 {
		xs := []int{1}
		return xs[n]
	}
	return n * 2
}
func twoRes(a int, b int) (int, int) {
	return b, a
}
type Hold struct {
	F func(int, ...int) int
}
func main() {
	%s
	println(%s)
	println(10 + one(%s)*2 - 1)
	k := []int{one(%s), 5}
	println(k[0], len(k))
	println(%s)
	println(relay(2))
	hh := &Hold{F: vnat}
	println(hh.F(7, []int{4, 5}...), hh.F(7, 4, 5), hh.F(7))
	println(reent(%d, %d, %d))
	p, q := reent2(%d, reent(1, %d, 3))
	println(p, q)
	println(reentv(%d, %d, 9) + reentv(4))
}
main()
`, natDecl, strings.Join(lhs, ", "), al, al, vcall, ra[0], ra[1], ra[2], ra[3], ra[4], ra[5], ra[6])
		_, err := vm.Eval(fstest.MapFS{}, "main", src)
		w := c19Weigh(args)
		var want []string
		var rs []string
		for j := 0; j < nres; j++ {
			rs = append(rs, fmt.Sprint((j+1)*1000+w))
		}
		want = append(want, strings.Join(rs, " "), fmt.Sprint(10+(1000+w)*2-1), fmt.Sprint(1000+w, 2),
			fmt.Sprint(1000+c19Weigh(append([]int{7}, ex...))), "4",
			fmt.Sprint(1000+c19Weigh([]int{7, 4, 5}), 1000+c19Weigh([]int{7, 4, 5}), 1000+c19Weigh([]int{7})),
			fmt.Sprint(c19Weigh(ra[0:3])),
			fmt.Sprint(c19Weigh([]int{ra[3], c19Weigh([]int{1, ra[4], 3})}), c19Weigh([]int{ra[3], c19Weigh([]int{1, ra[4], 3})})+1),
			fmt.Sprint(c19Weigh([]int{ra[5], ra[6], 9})+c19Weigh([]int{4})))
		c.Rep.Oracle["script-native"]++
		c.Rep.Seen(src, argc > 1)
		got := strings.TrimSpace(out.String())
		wantSeen := fmt.Sprint([][]int{args, args, args, append([]int{7}, ex...), {7, 4, 5}, {7, 4, 5}, {7}})
		if argc == 0 {
			wantSeen = fmt.Sprint([][]int{nil, nil, nil, append([]int{7}, ex...), {7, 4, 5}, {7, 4, 5}, {7}})
		}
		// host -> native -> script as well
		if rets, err := vm.Call("main.reent", 1, goat.Int(6), goat.Int(7), goat.Int(8)); err != nil || len(rets) != 1 || rets[0].Int() != c19Weigh([]int{6, 7, 8}) {
			reBad = append(reBad, "host Call reent(6,7,8): "+c19Show(rets, err))
		}
		if len(reBad) > 0 {
			c.Rep.Violate(Violation{Kind: "oracle", Cut: "script-native", Input: src, Impl: strings.Join(reBad, "; "), Oracle: "a native that re-enters the VM keeps its arguments and the nested calls give twoRes(100,200) = 200 100, deep(3) = 6"})
		}
		if err != nil || got != strings.Join(want, "\n") || fmt.Sprint(seen) != wantSeen {
			c.Rep.Violate(Violation{Kind: "oracle", Cut: "script-native", Input: src, Impl: fmt.Sprintf("%s\nerr=%v\nseen=%v", got, err, seen), Oracle: strings.Join(want, "\n") + "\nseen=" + wantSeen})
		}
		c.Rep.Count(fmt.Sprintf("script-argc-%d", argc))
		// host calls script: every requested result count
		for xr := 0; xr <= 3; xr++ {
			// the parameters are a sub-slice of a longer buffer of the host's: the call must leave the buffer alone
			buf := []goat.Value{goat.Int(3), goat.Int(4), goat.Int(99), goat.Int(98)}
			rets, err := vm.Call("main.twoRes", xr, buf[:2]...)
			if buf[0].Int() != 3 || buf[1].Int() != 4 || buf[2].Int() != 99 || buf[3].Int() != 98 {
				c.Rep.Violate(Violation{Kind: "oracle", Cut: "host-calls-script", Input: fmt.Sprintf("Call twoRes xRets=%d with params = buf[:2] of a 4-value buffer", xr), Impl: fmt.Sprintf("buffer afterwards: %v %v %v %v", buf[0], buf[1], buf[2], buf[3]), Oracle: "3 4 99 98"})
			}
			c.Rep.Oracle["host-calls-script"]++
			wantR := []string{"4", "3"}
			switch {
			case xr > 2:
				if err == nil {
					c.Rep.Violate(Violation{Kind: "oracle", Cut: "host-calls-script", Input: fmt.Sprintf("Call twoRes xRets=%d", xr), Impl: c19Show(rets, err), Oracle: "err"})
				}
			case err != nil || c19Show(rets, nil) != strings.TrimRight("ok "+strings.Join(wantR[:xr], " "), " "):
				c.Rep.Violate(Violation{Kind: "oracle", Cut: "host-calls-script", Input: fmt.Sprintf("Call twoRes xRets=%d", xr), Impl: c19Show(rets, err), Oracle: "ok " + strings.Join(wantR[:xr], " ")})
			}
		}
		// errors surface: native panic, nested VM.Call failure, script failure through Call
		for _, tc := range []struct{ src, must string }{
			{"println(1 + boom(5))", "boom 5"},
			{"println(relay(9))", "index out of range"},
			{"x := []int{relay(1), relay(7)}\nprintln(x)", "index out of range"},
		} {
			out.Reset()
			_, err := vm.Eval(fstest.MapFS{}, "main", tc.src)
			c.Rep.Oracle["error-surfaces"]++
			if err == nil || !strings.Contains(err.Error(), tc.must) || strings.TrimSpace(out.String()) != "" {
				c.Rep.Violate(Violation{Kind: "oracle", Cut: "error-surfaces", Input: tc.src, Impl: fmt.Sprintf("out=%q err=%v", out.String(), err), Oracle: "error mentioning " + tc.must + ", nothing printed"})
			}
		}
		if _, err := vm.Call("main.deep", 1, goat.Int(8)); err == nil {
			c.Rep.Violate(Violation{Kind: "oracle", Cut: "error-surfaces", Input: "Call deep(8)", Impl: "nil error", Oracle: "error"})
		}
		// the VM is still usable afterwards
		if rets, err := vm.Call("main.deep", 1, goat.Int(2)); err != nil || len(rets) != 1 || rets[0].Int() != 4 {
			c.Rep.Violate(Violation{Kind: "oracle", Cut: "error-surfaces", Input: "Call deep(2) after errors", Impl: c19Show(rets, err), Oracle: "ok 4"})
		}
	}
}

// c19ZeroArity: natives without arguments called as the very first thing a fresh VM does (the run
// stack is empty and has no spare capacity then), in every statement shape, for every form that
// can have no arguments
func (c *Ctx) c19ZeroArity() {
	shapes := []string{"x := %s(); x", "%s() + 0", "y := []int{%s()}; y[0]", "println(%s())", "if %s() > 0 { println(\"pos\") }", "func f() int { return %s() }; f()"}
	forms := map[string]func(calls *int) goat.Value{
		"f01": func(calls *int) goat.Value {
			return goat.NewFunc(0, 1, func(vm *goat.VM) goat.Value { *calls++; return goat.Int(41) })
		},
		"fN1": func(calls *int) goat.Value {
			return goat.NewFunc(0, 1, func(vm *goat.VM, args []goat.Value) goat.Value { *calls += 1 + len(args); return goat.Int(41) })
		},
		"fNM": func(calls *int) goat.Value {
			return goat.NewFunc(0, 1, func(vm *goat.VM, args []goat.Value) []goat.Value {
				*calls += 1 + len(args)
				return []goat.Value{goat.Int(41)}
			})
		},
		"fVar": func(calls *int) goat.Value {
			return goat.NewFunc(1, 1, func(vm *goat.VM, args []goat.Value, vargs ...goat.Value) []goat.Value {
				*calls += 1 + len(args) + len(vargs)
				return []goat.Value{goat.Int(41)}
			})
		},
	}
	for _, form := range sortedKeys(forms) {
		for _, shape := range shapes {
			var out bytes.Buffer
			vm := goat.New(goat.WithStdout(&out))
			calls := 0
			vm.Set("main.nat0", forms[form](&calls))
			src := fmt.Sprintf(shape, "nat0")
			rets, err := vm.Eval(fstest.MapFS{}, "main", src)
			c.Rep.Oracle["zero-arity-first-call"]++
			got := c19Show(rets, err) + " out=" + strings.TrimSpace(out.String()) + fmt.Sprint(" calls=", calls)
			want := map[string]string{"x := %s(); x": "ok 41 out=", "%s() + 0": "ok 41 out=", "y := []int{%s()}; y[0]": "ok 41 out=",
				"println(%s())": "ok out=41", "if %s() > 0 { println(\"pos\") }": "ok out=pos", "func f() int { return %s() }; f()": "ok out="}[shape] + " calls=1"
			if got != want {
				c.Rep.Violate(Violation{Kind: "oracle", Cut: "zero-arity-first-call", Input: form + ": " + src, Impl: got + fmt.Sprint(" ", err), Oracle: want})
			}
		}
	}
}

// c19HostStructs: several values of one script struct type built by the host with NewStruct (also from ONE initialiser
// slice used twice): every value keeps its own fields through GetAttr, through script functions and methods, next
// to script-made instances; the host's initialiser slice is left alone
// c19MapDuplicateKeys: NewMap from a pair list that names a key twice (the later pair overrides): the value reads
// back as ONE entry per key through Len, Get, the host's Range and a script range loop, for every key type
func (c *Ctx) c19MapDuplicateKeys() {
	for _, k := range []struct {
		name string
		typ  goat.Type
		key  func(int) goat.Value
	}{
		{"int", goat.TypeInt32, func(i int) goat.Value { return goat.Int(i) }},
		{"string", goat.TypeString, func(i int) goat.Value { return goat.String(fmt.Sprint("k", i)) }},
		{"float64", goat.TypeFloat64, func(i int) goat.Value { return goat.Float64(float64(i) + 0.5) }},
	} {
		m := goat.NewMap(k.typ, goat.TypeInt32, []goat.Value{k.key(1), goat.Int(10), k.key(2), goat.Int(20), k.key(1), goat.Int(30), k.key(3), goat.Int(5), k.key(2), goat.Int(21)})
		c.Rep.Oracle["map-duplicate-keys"]++
		n, sum := 0, 0
		next := m.Range()
		for i := 0; i < 100; i++ {
			_, v, ok := next()
			if !ok {
				break
			}
			n++
			sum += v.Int()
		}
		v1, ok1 := m.Get(k.key(1))
		got := fmt.Sprint(m.Len(), v1.Int(), ok1, n, sum)
		vm := goat.New()
		vm.Set("main.m", m)
		rets, err := vm.Eval(fstest.MapFS{}, "main", "n := 0\ns := 0\nfor _, v := range m {\n\tn++\n\ts += v\n}\nn*1000 + s + len(m)*100000\n")
		got += " " + c19Show(rets, err)
		if want := "3 30 true 3 56 ok 303056"; got != want {
			c.Rep.Violate(Violation{Kind: "oracle", Cut: "map-duplicate-keys", Input: "NewMap(" + k.name + ", int32, [k1 10 k2 20 k1 30 k3 5 k2 21]): Len, Get(k1), entries and sum of Range; script: n*1000 + sum + len*100000", Impl: got, Oracle: want})
		}
	}
}

func (c *Ctx) c19HostStructs() {
	r := c.RNG
	var out bytes.Buffer
	vm := goat.New(goat.WithStdout(&out))
	src := "type P struct {\n\tX int\n\tY string\n\tZ float64\n}\nfunc (p *P) Sum(k int) int {\n\treturn p.X*10 + k\n}\nfunc pass(a *P, b *P) int {\n\treturn a.X*100 + b.X\n}\nfunc fresh() int {\n\tq := &P{}\n\treturn q.X*1000 + len(q.Y)\n}\nfunc show(p *P) {\n\tprintln(p)\n}\n"
	if _, err := vm.Eval(fstest.MapFS{}, "main", src); err != nil {
		c.Rep.Notes = append(c.Rep.Notes, "c19HostStructs: "+err.Error())
		return
	}
	base := vm.Get("main.P")
	fail := func(what, got, want string) {
		c.Rep.Violate(Violation{Kind: "oracle", Cut: "host-struct", Input: what, Impl: got, Oracle: want})
	}
	for it := 0; it < 20; it++ {
		c.Rep.Oracle["host-struct"]++
		x1, x2 := 1+r.Intn(90), 1+r.Intn(90)
		init1 := []goat.Value{goat.String("X"), goat.Int(x1), goat.String("Y"), goat.String("one"), goat.String("Z"), goat.Float64(1.5)}
		a := goat.NewStruct(base, init1)
		b := goat.NewStruct(base, []goat.Value{goat.String("X"), goat.Int(x2), goat.String("Y"), goat.String("two")})
		a2 := goat.NewStruct(base, init1) // the same initialiser slice again
		if init1[0].String() != "X" || init1[2].String() != "Y" || init1[1].Int() != x1 {
			fail("NewStruct(base, init) twice: the host's initialiser slice", fmt.Sprint(init1), "unchanged")
		}
		got := fmt.Sprint(a.GetAttr("X").Int(), a.GetAttr("Y").String(), a.GetAttr("Z").Float64(), b.GetAttr("X").Int(), b.GetAttr("Y").String(), b.GetAttr("Z").Float64(), a2.GetAttr("X").Int(), a2.GetAttr("Y").String())
		want := fmt.Sprint(x1, "one", 1.5, x2, "two", 0.0, x1, "one")
		if got != want {
			fail("GetAttr of three host-built P values", got, want)
		}
		rets, err := vm.Call("main.pass", 1, a, b)
		if err != nil || len(rets) != 1 || rets[0].Int() != x1*100+x2 {
			fail("pass(a, b)", c19Show(rets, err), fmt.Sprint("ok ", x1*100+x2))
		}
		rets, err = vm.Call("main.fresh", 1)
		if err != nil || len(rets) != 1 || rets[0].Int() != 0 {
			fail("fresh(): a script-made &P{} after NewStruct", c19Show(rets, err), "ok 0")
		}
		b.SetAttr("X", goat.Int(x2+1))
		out.Reset()
		vm.Call("main.show", 0, a)
		vm.Call("main.show", 0, b)
		wantOut := fmt.Sprintf("&{X:%d Y:one Z:1.5}\n&{X:%d Y:two Z:0}\n", x1, x2+1)
		if out.String() != wantOut {
			fail("show(a); show(b) after b.SetAttr", out.String(), wantOut)
		}
	}
}

func (c *Ctx) c19RoundTrips(n int) {
	c.c19HostStructs()
	c.c19MapDuplicateKeys()
	r := c.RNG
	bad := func(what string, in, out any) {
		c.Rep.Violate(Violation{Kind: "oracle", Cut: "roundtrip", Input: fmt.Sprintf("%s(%v)", what, in), Impl: fmt.Sprint(out), Oracle: fmt.Sprint(in)})
	}
	for it := 0; it < n; it++ {
		c.Rep.Oracle["roundtrip"]++
		switch r.Intn(9) {
		case 0:
			x := int32(Pick(r, []uint64{0, 1, math.MaxInt32, 1 << 31, r.U64()}))
			if v := goat.Int32(x); v.Int32() != x || v.Int() != int(x) {
				bad("Int32", x, v.Int32())
			}
			if v := goat.Int(int(x)); v.Int() != int(x) {
				bad("Int", x, v.Int())
			}
		case 1:
			x := uint32(Pick(r, []uint64{0, 1, math.MaxUint32, 1 << 31, r.U64()}))
			if v := goat.Uint32(x); v.Uint() != uint(x) {
				bad("Uint32", x, v.Uint())
			}
			if v := goat.Uint(uint(x)); v.Uint() != uint(x) {
				bad("Uint", x, v.Uint())
			}
		case 2:
			x := int8(r.U64())
			if v := goat.Int8(x); v.Int() != int(x) {
				bad("Int8", x, v.Int())
			}
		case 3:
			x := uint8(r.U64())
			if v := goat.Uint8(x); v.Int() != int(x) {
				bad("Uint8", x, v.Int())
			}
			if v := goat.Byte(x); v.Int() != int(x) {
				bad("Byte", x, v.Int())
			}
		case 4:
			f := math.Float64frombits(r.U64())
			if r.Bool() {
				f = Pick(r, c14Floats)
			}
			if v := goat.Float64(f); math.Float64bits(v.Float64()) != math.Float64bits(f) {
				bad("Float64", f, v.Float64())
			}
		case 5:
			b := r.Bool()
			if v := goat.Bool(b); v.Bool() != b {
				bad("Bool", b, v.Bool())
			}
		case 6:
			s, _ := genBytes(r)
			if v := goat.String(s); v.String() != s || v.Len() != len(s) {
				bad("String", hx(s), hx(v.String()))
			}
		case 7:
			var vals []goat.Value
			var want []string
			for k := r.Intn(5); k > 0; k-- {
				x := r.Intn(1000)
				vals = append(vals, goat.Int(x))
				want = append(want, fmt.Sprint(x))
			}
			v := goat.NewSlice(goat.TypeInt32, vals)
			var got []string
			for i := 0; i < v.Len(); i++ {
				e, _ := v.Get(goat.Int(i))
				got = append(got, fmt.Sprint(e.Int()))
			}
			if strings.Join(got, ",") != strings.Join(want, ",") {
				bad("NewSlice", want, got)
			}
		default:
			vm := goat.New()
			x := r.Intn(100000)
			vm.Set("main.g", goat.Int(x))
			if vm.Get("main.g").Int() != x {
				bad("VM.Set/Get", x, vm.Get("main.g").Int())
			}
			rets, err := vm.Eval(fstest.MapFS{}, "main", "g + 1")
			if err != nil || len(rets) != 1 || rets[0].Int() != x+1 {
				bad("VM.Set then script read", x+1, c19Show(rets, err))
			}
		}
	}
}

// c19Nils: IsNil of values read from a script: true for nil and for the typed nils of every nillable kind, false
// for empty but allocated containers, instances and scalars
func (c *Ctx) c19Nils() {
	vm := goat.New()
	if _, err := vm.Eval(fstest.MapFS{}, "main", "type T struct {\n\tA int\n}\nvar p *T\nvar s []int\nvar ss [][]string\nvar m map[string]int\nvar mm map[int][]*T\nvar f func()\nvar a any\nvar e error\nq := &T{}\ns2 := []int{}\nm2 := map[string]int{}\ng := func() {}\nn := 0\nz := \"\"\nb := false\nx := 0.0\ns3 := s[:0]\ns4 := append(s, 1)[:0]\n"); err != nil {
		c.Rep.Violate(Violation{Kind: "oracle", Cut: "is-nil", Input: "declarations", Impl: err.Error(), Oracle: "evaluates"})
		return
	}
	for name, want := range map[string]bool{"p": true, "s": true, "ss": true, "m": true, "mm": true, "f": true, "a": true, "e": true,
		"q": false, "s2": false, "m2": false, "g": false, "n": false, "z": false, "b": false, "x": false, "s3": true, "s4": false} {
		c.Rep.Oracle["is-nil"]++
		if got := vm.Get("main." + name).IsNil(); got != want {
			c.Rep.Violate(Violation{Kind: "oracle", Cut: "is-nil", Input: "IsNil of main." + name, Impl: fmt.Sprint(got), Oracle: fmt.Sprint(want)})
		}
	}
	for _, v := range []struct {
		what string
		v    goat.Value
		want bool
	}{{"Nil()", goat.Nil(), true}, {"Int(0)", goat.Int(0), false}, {"String(\"\")", goat.String(""), false}, {"NewSlice(int32, nil)", goat.NewSlice(goat.TypeInt32, nil), false},
		{"NewMap(string, int32, nil)", goat.NewMap(goat.TypeString, goat.TypeInt32, nil), false}, {"Bool(false)", goat.Bool(false), false}} {
		c.Rep.Oracle["is-nil"]++
		if got := v.v.IsNil(); got != v.want {
			c.Rep.Violate(Violation{Kind: "oracle", Cut: "is-nil", Input: "IsNil of " + v.what, Impl: fmt.Sprint(got), Oracle: fmt.Sprint(v.want)})
		}
	}
}

// host objects (Wrap): a pointer type and an uncomparable map type, with the whole Object interface
type c19Obj struct{ id int }

func (o *c19Obj) Get(k goat.Value) (goat.Value, bool) { return goat.Int(o.id), true }
func (o *c19Obj) Set(k, v goat.Value)                 {}
func (o *c19Obj) Len() int                            { return 1 }
func (o *c19Obj) Range() func() (goat.Value, goat.Value, bool) {
	return func() (goat.Value, goat.Value, bool) { return goat.Nil(), goat.Nil(), false }
}
func (o *c19Obj) Append(items ...goat.Value) goat.Value { return goat.Wrap(o) }
func (o *c19Obj) Delete(k goat.Value)                   {}
func (o *c19Obj) Slice(i, j int) goat.Value             { return goat.Wrap(o) }
func (o *c19Obj) GetAttr(k string) goat.Value           { return goat.Int(o.id) }
func (o *c19Obj) SetAttr(k string, v goat.Value)        {}

type c19MapObj map[string]int

func (o c19MapObj) Get(k goat.Value) (goat.Value, bool) { return goat.Int(o[k.String()]), true }
func (o c19MapObj) Set(k, v goat.Value)                 {}
func (o c19MapObj) Len() int                            { return len(o) }
func (o c19MapObj) Range() func() (goat.Value, goat.Value, bool) {
	return func() (goat.Value, goat.Value, bool) { return goat.Nil(), goat.Nil(), false }
}
func (o c19MapObj) Append(items ...goat.Value) goat.Value { return goat.Wrap(o) }
func (o c19MapObj) Delete(k goat.Value)                   {}
func (o c19MapObj) Slice(i, j int) goat.Value             { return goat.Wrap(o) }
func (o c19MapObj) GetAttr(k string) goat.Value           { return goat.Int(len(o)) }
func (o c19MapObj) SetAttr(k string, v goat.Value)        {}

// c19Objects: a wrapped host object read back through a script is the object that went in (Unwrap), and the script
// can tell two objects apart and recognise one it has seen: == is the identity of the host's value (the sentinel
// idiom err == ErrX; fix 1a4ef26), an object of an uncomparable host type is unequal to everything instead of a panic
func (c *Ctx) c19Objects() {
	objs := []*c19Obj{{id: 10}, {id: 11}}
	vm := goat.New()
	vm.Set("main.mk", goat.NewFunc(1, 1, func(vm *goat.VM, args []goat.Value) goat.Value { return goat.Wrap(objs[args[0].Int()]) }))
	vm.Set("main.mkmap", goat.NewFunc(0, 1, func(vm *goat.VM, args []goat.Value) goat.Value { return goat.Wrap(c19MapObj{"a": 1}) }))
	vm.Set("main.Sentinel", goat.Wrap(objs[1]))
	src := "import \"errors\"\nvar ErrX = errors.New(\"x\")\nvar ErrY = errors.New(\"x\")\nfunc pass(v any) any { return v }\nfunc find(k int) error {\n\tif k == 1 {\n\t\treturn ErrX\n\t}\n\treturn nil\n}\n" +
		"a := mk(0)\nb := mk(0)\nd := mk(1)\nu := mkmap()\nheld := []any{a, d}\nbyName := map[string]any{\"a\": a}\n" +
		"r := []bool{a == b, a != b, a == d, a == nil, nil == a, a != nil, pass(a) == a, held[0] == b, held[1] == b, byName[\"a\"] == a, d == Sentinel, a == Sentinel, u == u, u != u, u == a,\n\tfind(1) == ErrX, find(1) == ErrY, find(1) != ErrX, find(0) == nil, find(1) == nil, ErrX == ErrX, ErrX == ErrY}\nr"
	rets, err := vm.Eval(fstest.MapFS{}, "main", src)
	c.Rep.Oracle["host-object-identity"]++
	want := "ok [true false false false false true true true false true true false false true false true false false true false true false]"
	if got := c19Show(rets, err); got != want {
		c.Rep.Violate(Violation{Kind: "oracle", Cut: "host-object-identity", Input: src, Impl: got, Oracle: want})
	}
	for i, name := range []string{"a", "d"} {
		c.Rep.Oracle["host-object-identity"]++
		if got := vm.Get("main." + name).Unwrap(); got != goat.Object(objs[i]) {
			c.Rep.Violate(Violation{Kind: "oracle", Cut: "host-object-identity", Input: "Unwrap of main." + name, Impl: fmt.Sprint(got), Oracle: "the object the native returned"})
		}
	}
	for _, q := range []struct {
		what string
		a, b goat.Value
		want bool
	}{{"Wrap(o).Equals(Wrap(o))", goat.Wrap(objs[0]), goat.Wrap(objs[0]), true}, {"Wrap(o).Equals(Wrap(p))", goat.Wrap(objs[0]), goat.Wrap(objs[1]), false},
		{"Wrap(o).Equals(Nil())", goat.Wrap(objs[0]), goat.Nil(), false}, {"Wrap(o).Equals(Int(10))", goat.Wrap(objs[0]), goat.Int(10), false},
		{"Wrap(map).Equals(Wrap(map))", goat.Wrap(c19MapObj{}), goat.Wrap(c19MapObj{}), false}} {
		c.Rep.Oracle["host-object-identity"]++
		if e := try(func() {
			if got := q.a.Equals(q.b); got != q.want {
				c.Rep.Violate(Violation{Kind: "oracle", Cut: "host-object-identity", Input: q.what, Impl: fmt.Sprint(got), Oracle: fmt.Sprint(q.want)})
			}
		}); e != nil {
			c.Rep.Violate(Violation{Kind: "crash", Cut: "host-object-identity", Input: q.what, Impl: fmt.Sprint("panic: ", e), Oracle: fmt.Sprint(q.want)})
		}
	}
}

// c19TailAfterLiteral: natives reached by a tail call (return nat(...)) hand all the results the enclosing function
// declares to its caller, also when a function literal with another result count (a callback handed to a native)
// was compiled earlier in that body - through Call, Func and from a script caller
func (c *Ctx) c19TailAfterLiteral() {
	var seen []string
	vm := goat.New()
	vm.Set("main.minmax", goat.NewFunc(1, 2, func(vm *goat.VM, args []goat.Value) []goat.Value {
		lo, hi := 0, 0
		next := args[0].Range()
		for first := true; ; first = false {
			_, v, ok := next()
			if !ok {
				break
			}
			if first || v.Int() < lo {
				lo = v.Int()
			}
			if first || v.Int() > hi {
				hi = v.Int()
			}
		}
		return []goat.Value{goat.Int(lo), goat.Int(hi)}
	}))
	vm.Set("main.twice", goat.NewFunc(1, 1, func(vm *goat.VM, args []goat.Value) goat.Value { return goat.Int(2 * args[0].Int()) }))
	vm.Set("main.each", goat.NewFunc(2, 0, func(vm *goat.VM, args []goat.Value) {
		for i := 0; i < args[0].Int(); i++ {
			if _, err := vm.Func(args[1], 0, goat.Int(i)); err != nil {
				panic(err)
			}
		}
	}))
	vm.Set("main.note", goat.NewFunc(1, 0, func(vm *goat.VM, args []goat.Value) { seen = append(seen, fmt.Sprint(args[0].Int())) }))
	vm.Set("main.trio", goat.NewFunc(0, 3, func(vm *goat.VM, args []goat.Value) []goat.Value {
		return []goat.Value{goat.Int(1), goat.String("a"), goat.Bool(true)}
	}))
	src := "import \"golang.org/x/exp/slices\"\n\nfunc stats(xs []int) (int, int) {\n\tslices.SortFunc(xs, func(a, b int) bool { return a < b })\n\treturn minmax(xs)\n}\n\n" +
		"func run(x int) int {\n\teach(3, func(i int) { note(i) })\n\treturn twice(x)\n}\n\nfunc same(x int) int {\n\teach(1, func(i int) int { return i })\n\treturn twice(x)\n}\n\n" +
		"func three() (int, string, bool) {\n\tf := func() (int, int) { return 1, 2 }\n\tf()\n\teach(2, func(i int) { note(i + 10) })\n\treturn trio()\n}\n\n" +
		"func viaScript(x int) int {\n\tlo, hi := stats([]int{x, 9, 4})\n\ta, s, ok := three()\n\tif ok {\n\t\tlo += a + len(s)\n\t}\n\treturn lo*100 + hi*10 + run(x)\n}\n"
	if _, err := vm.Eval(fstest.MapFS{}, "main", src); err != nil {
		c.Rep.Violate(Violation{Kind: "oracle", Cut: "tail-call-after-literal", Input: src, Impl: err.Error(), Oracle: "evaluates"})
		return
	}
	xs := func() goat.Value {
		return goat.NewSlice(goat.TypeInt32, []goat.Value{goat.Int(5), goat.Int(9), goat.Int(4)})
	}
	for _, q := range []struct {
		what string
		f    func() ([]goat.Value, error)
		want string
	}{
		{"Call main.stats, 2 results", func() ([]goat.Value, error) { return vm.Call("main.stats", 2, xs()) }, "ok 4 9"},
		{"Func main.stats, 2 results", func() ([]goat.Value, error) { return vm.Func(vm.Get("main.stats"), 2, xs()) }, "ok 4 9"},
		{"Call main.stats, 1 result", func() ([]goat.Value, error) { return vm.Call("main.stats", 1, xs()) }, "ok 4"},
		{"Call main.run", func() ([]goat.Value, error) { return vm.Call("main.run", 1, goat.Int(21)) }, "ok 42"},
		{"Call main.same", func() ([]goat.Value, error) { return vm.Call("main.same", 1, goat.Int(4)) }, "ok 8"},
		{"Call main.three", func() ([]goat.Value, error) { return vm.Call("main.three", 3) }, "ok 1 a true"},
		{"Call main.viaScript", func() ([]goat.Value, error) { return vm.Call("main.viaScript", 1, goat.Int(2)) }, "ok 494"},
	} {
		var rets []goat.Value
		var err error
		if e := try(func() { rets, err = q.f() }); e != nil {
			err = fmt.Errorf("PANIC %v", e)
		}
		c.Rep.Oracle["tail-call-after-literal"]++
		if got := c19Show(rets, err); got != q.want {
			c.Rep.Violate(Violation{Kind: "oracle", Cut: "tail-call-after-literal", Input: q.what + " of:\n" + src, Impl: got, Oracle: q.want})
		}
	}
	c.Rep.Oracle["tail-call-after-literal"]++
	if got, want := strings.Join(seen, " "), "0 1 2 10 11 10 11 0 1 2"; got != want {
		c.Rep.Violate(Violation{Kind: "oracle", Cut: "tail-call-after-literal", Input: "the values the callbacks passed to the native note, in order", Impl: got, Oracle: want})
	}
}

// c19ResultsKept: the results Call and Func hand to the host are the host's: later calls on the same VM (also
// nested ones made by natives) do not change them
func (c *Ctx) c19ResultsKept() {
	vm := goat.New()
	var nested []goat.Value
	vm.Set("main.viaFunc", goat.NewFunc(1, 1, func(vm *goat.VM, args []goat.Value) goat.Value {
		r, err := vm.Func(args[0], 2, goat.String("a"), goat.String("b"))
		if err != nil {
			panic(err)
		}
		nested = r
		return goat.Int(len(r))
	}))
	if _, err := vm.Eval(fstest.MapFS{}, "main", "func pair(a int, b int) (int, int) { return a, b }\nfunc swap(a string, b string) (string, string) { return b, a }\nfunc sum(xs ...int) int {\n\tn := 0\n\tfor _, x := range xs {\n\t\tn += x\n\t}\n\treturn n\n}\nfunc run() int { return viaFunc(swap) }\n"); err != nil {
		c.Rep.Violate(Violation{Kind: "oracle", Cut: "results-kept", Input: "declarations", Impl: err.Error(), Oracle: "evaluates"})
		return
	}
	r1, e1 := vm.Call("main.pair", 2, goat.Int(1), goat.Int(2))
	r2, e2 := vm.Call("main.pair", 2, goat.Int(30), goat.Int(40))
	r3, e3 := vm.Func(vm.Get("main.swap"), 2, goat.String("x"), goat.String("y"))
	_, e4 := vm.Call("main.run", 1)
	r5, e5 := vm.Call("main.sum", 1, goat.Int(1), goat.Int(2), goat.Int(3), goat.Int(4))
	r6, e6 := vm.Call("main.pair", 1, goat.Int(7), goat.Int(8))
	c.Rep.Oracle["results-kept"]++
	got := fmt.Sprint(c19Show(r1, e1), " | ", c19Show(r2, e2), " | ", c19Show(r3, e3), " | ", c19Show(nested, e4), " | ", c19Show(r5, e5), " | ", c19Show(r6, e6))
	if want := "ok 1 2 | ok 30 40 | ok y x | ok b a | ok 10 | ok 7"; got != want {
		c.Rep.Violate(Violation{Kind: "oracle", Cut: "results-kept", Input: "pair(1,2); pair(30,40); Func swap(x,y); run() whose native calls Func swap(a,b); sum(1,2,3,4); pair(7,8) asking one result - every result read after all the calls", Impl: got, Oracle: want})
	}
}

// c19Probes: a host that asks for a name that is not defined gets nil (Get) or an error (Call) and defines nothing:
// scripts compiled afterwards still see the builtins of that spelling (fix 65efe34); and a loader's prelude script
// prints to the VM's output (fix eadf93a)
func (c *Ctx) c19Probes() {
	var out bytes.Buffer
	var loadErr error
	vm := goat.New(goat.WithStdout(&out), goat.WithLoaders(func(vm *goat.VM) {
		_, loadErr = vm.Eval(fstest.MapFS{}, "prelude", "func Hook() int { return 5 }\nprintln(\"prelude\")")
	}))
	c.Rep.Oracle["host-probes"]++
	if loadErr != nil {
		c.Rep.Violate(Violation{Kind: "oracle", Cut: "host-probes", Input: "New(WithStdout(w), WithLoaders(f)) where f evaluates a prelude that prints", Impl: loadErr.Error(), Oracle: "the prelude prints to w"})
	}
	var probes []string
	for _, name := range []string{"main.len", "main.append", "main.copy", "main.println", "main.onFrame", "builtin.nosuch"} {
		probes = append(probes, fmt.Sprint(vm.Get(name).IsNil()))
		_, err := vm.Call(name, 0)
		probes = append(probes, fmt.Sprint(err != nil))
	}
	rets, err := vm.Eval(fstest.MapFS{}, "main", "xs := []int{1, 2}\nys := append(xs, 3)\nn := copy(ys, xs)\nprintln(len(ys), n)\nlen(xs) + Hook()")
	c.Rep.Oracle["host-probes"]++
	got := strings.Join(probes, " ") + " | " + c19Show(rets, err) + " | " + strings.ReplaceAll(out.String(), "\n", "/")
	want := strings.TrimSpace(strings.Repeat("true true ", 6)) + " | ok 7 | prelude/3 2/"
	if got != want {
		c.Rep.Violate(Violation{Kind: "oracle", Cut: "host-probes", Input: "New(WithStdout, WithLoaders(prelude printing and defining Hook)); Get and Call of main.len, main.append, main.copy, main.println, main.onFrame, builtin.nosuch; then a script using len, append, copy, println, Hook", Impl: got, Oracle: want})
	}
}

// c19CallFollowsName: Call looks the name up every time: after the script (or a native through its own VM) stores
// another function under a name, the next Call of that name runs the new function
func (c *Ctx) c19CallFollowsName() {
	vm := goat.New()
	vm.Set("main.rebind", goat.NewFunc(1, 0, func(vm *goat.VM, args []goat.Value) { vm.Set("main.handler", args[0]) }))
	if _, err := vm.Eval(fstest.MapFS{}, "main", "func menuUpdate(x int) int { return 100 + x }\nfunc playUpdate(x int) int { return 200 + x }\nfunc third(x int) int { return 300 + x }\nvar update = menuUpdate\nvar handler = menuUpdate\nfunc start() { update = playUpdate }\nfunc viaNative() { rebind(third) }\n"); err != nil {
		c.Rep.Violate(Violation{Kind: "oracle", Cut: "call-follows-name", Input: "declarations", Impl: err.Error(), Oracle: "evaluates"})
		return
	}
	var got []string
	call := func(name string) {
		r, err := vm.Call("main."+name, 1, goat.Int(2))
		got = append(got, c19Show(r, err))
	}
	call("update")
	call("handler")
	vm.Call("main.start", 0)
	call("update")
	vm.Eval(fstest.MapFS{}, "main", "update = third")
	call("update")
	vm.Call("main.viaNative", 0)
	call("handler")
	vm.Set("main.update", vm.Get("main.menuUpdate"))
	call("update")
	vm.Eval(fstest.MapFS{}, "main", "func menuUpdate(x int) int { return 900 + x }")
	call("update")
	c.Rep.Oracle["call-follows-name"]++
	if g, want := strings.Join(got, " | "), "ok 102 | ok 102 | ok 202 | ok 302 | ok 302 | ok 102 | ok 902"; g != want {
		c.Rep.Violate(Violation{Kind: "oracle", Cut: "call-follows-name", Input: "Call(update), Call(handler), start() rebinding update, Call(update), Eval update = third, Call(update), a native rebinding handler, Call(handler), Set(update, menuUpdate), Call(update), menuUpdate declared again, Call(update)", Impl: g, Oracle: want})
	}
}

// c19ValueFormWithArgs: a native of the form func(vm) Value cannot read arguments, but registered with an arity it
// still delivers its result (not the first argument; fix b462b86), and a wrong argument count is an error
func (c *Ctx) c19ValueFormWithArgs() {
	for argc := 0; argc <= 6; argc++ {
		vm := goat.New()
		calls := 0
		vm.Set("main.nat", goat.NewFunc(argc, 1, func(vm *goat.VM) goat.Value { calls++; return goat.Int(99) }))
		var args []string
		var hostArgs []goat.Value
		for i := 0; i < argc; i++ {
			args = append(args, fmt.Sprint(i+1))
			hostArgs = append(hostArgs, goat.Int(i+1))
		}
		src := "keep := 5\nx := nat(" + strings.Join(args, ", ") + ")\ny := nat(" + strings.Join(args, ", ") + ") + 1\n[]int{keep, x, y}"
		rets, err := vm.Eval(fstest.MapFS{}, "main", src)
		c.Rep.Oracle["value-form-with-arguments"]++
		if got, want := c19Show(rets, err)+fmt.Sprint(" calls=", calls), "ok [5 99 100] calls=2"; got != want {
			c.Rep.Violate(Violation{Kind: "oracle", Cut: "value-form-with-arguments", Input: fmt.Sprintf("NewFunc(%d, 1, func(vm) Value): %s", argc, src), Impl: got, Oracle: want})
		}
		st, err := vm.Call("main.nat", 1, hostArgs...)
		c.Rep.Oracle["value-form-with-arguments"]++
		if got, want := c19Show(st, err), "ok 99"; got != want {
			c.Rep.Violate(Violation{Kind: "oracle", Cut: "value-form-with-arguments", Input: fmt.Sprintf("Call of NewFunc(%d, 1, func(vm) Value) with %d arguments", argc, argc), Impl: got, Oracle: want})
		}
		if _, err := vm.Call("main.nat", 1, append(hostArgs, goat.Int(0))...); err == nil {
			c.Rep.Violate(Violation{Kind: "oracle", Cut: "value-form-with-arguments", Input: fmt.Sprintf("Call of NewFunc(%d, 1, func(vm) Value) with %d arguments", argc, argc+1), Impl: "no error", Oracle: "an error (incorrect args)"})
		}
	}
}

// c19Redefined: Call and Func pass the parameters to the function as it is defined NOW: after a script function was
// declared again with other parameter types (variadic element type, fixed parameter types, arity), the host's values
// reach the new body unchanged
func (c *Ctx) c19Redefined() {
	vm := goat.New()
	step := func(src string) bool {
		if _, err := vm.Eval(fstest.MapFS{}, "main", src); err != nil {
			c.Rep.Violate(Violation{Kind: "oracle", Cut: "redefined-function", Input: src, Impl: err.Error(), Oracle: "evaluates"})
			return false
		}
		return true
	}
	ask := func(what, fn string, want string, args ...goat.Value) {
		c.Rep.Oracle["redefined-function"]++
		rets, err := vm.Call(fn, 1, args...)
		got := fmt.Sprint(err)
		if err == nil {
			got = rets[0].String()
		}
		if got != want {
			c.Rep.Violate(Violation{Kind: "oracle", Cut: "redefined-function", Input: what, Impl: got, Oracle: want})
		}
	}
	if !step("func total(xs ...int) int {\n\ts := 0\n\tfor _, x := range xs {\n\t\ts += x\n\t}\n\treturn s\n}\nfunc first(xs ...int) int {\n\treturn xs[0]\n}\nfunc scale(k int, x int) int {\n\treturn k * x\n}\nr0 := total(1, 2)") {
		return
	}
	ask("total(xs ...int) called with 1, 2", "main.total", "3", goat.Int(1), goat.Int(2))
	if !step("func total(xs ...float64) float64 {\n\ts := 0.0\n\tfor _, x := range xs {\n\t\ts += x\n\t}\n\treturn s\n}\nfunc first(xs ...any) any {\n\treturn xs[0]\n}\nfunc scale(k float64, x float64) float64 {\n\treturn k * x\n}") {
		return
	}
	ask("total redefined as (xs ...float64), called with 1.5, 2.25", "main.total", "3.75", goat.Float64(1.5), goat.Float64(2.25))
	ask("first redefined as (xs ...any), called with 2.5", "main.first", "2.5", goat.Float64(2.5), goat.Int(1))
	ask("scale redefined with float64 parameters, called with 0.5, 3", "main.scale", "1.5", goat.Float64(0.5), goat.Float64(3))
	if !step("func total(k string, xs ...string) string {\n\ts := k\n\tfor _, x := range xs {\n\t\ts += x\n\t}\n\treturn s\n}\nr1 := total(\"a\", \"b\")") {
		return
	}
	ask("total redefined as (k string, xs ...string)", "main.total", "xyz", goat.String("x"), goat.String("y"), goat.String("z"))
}

// c19YieldKeepsArgs: a native that yields (VM.Yield) before it reads its arguments still sees exactly the arguments
// the script passed, whatever the host's yield hook computes (a script function with temporaries of its own, a native
// hook that returns a value), for every args-slice form, also through VM.Call
func (c *Ctx) c19YieldKeepsArgs() {
	for _, hook := range []string{"script", "native", "default"} {
		vm := goat.New()
		if _, err := vm.Eval(fstest.MapFS{}, "main", "var hooks = 0\nfunc onYield() {\n\ta, b, c := 111, 222, 333\n\ts := []int{a, b, c, a + b + c}\n\thooks += len(s)\n}\n"); err != nil {
			c.Rep.Violate(Violation{Kind: "oracle", Cut: "yield-keeps-args", Input: "hook definition", Impl: err.Error(), Oracle: "evaluates"})
			return
		}
		switch hook {
		case "script":
			vm.Set("builtin.__yield", vm.Get("main.onYield"))
		case "native":
			vm.Set("builtin.__yield", goat.NewFunc(0, 1, func(v *goat.VM, args []goat.Value) []goat.Value {
				return []goat.Value{goat.Int(777), goat.Int(888), goat.Int(999)}
			}))
		}
		digits := func(args []goat.Value) int {
			n := 0
			for _, a := range args {
				n = n*10 + a.Int()
			}
			return n
		}
		vm.Set("main.wait1", goat.NewFunc(3, 1, func(v *goat.VM, args []goat.Value) goat.Value { v.Yield(); return goat.Int(digits(args)) }))
		vm.Set("main.waitM", goat.NewFunc(3, 2, func(v *goat.VM, args []goat.Value) []goat.Value {
			v.Yield()
			return []goat.Value{goat.Int(digits(args)), args[2]}
		}))
		vm.Set("main.waitV", goat.NewFunc(2, 1, func(v *goat.VM, args []goat.Value, vargs ...goat.Value) []goat.Value {
			v.Yield()
			return []goat.Value{goat.Int(digits(args)*1000 + digits(vargs))}
		}))
		seen0 := -1
		vm.Set("main.wait0", goat.NewFunc(2, 0, func(v *goat.VM, args []goat.Value) { v.Yield(); seen0 = digits(args) }))
		var out bytes.Buffer
		vm2 := vm
		_ = vm2
		rets, err := vm.Eval(fstest.MapFS{}, "main", "a := wait1(7, 8, 9)\nb, c := waitM(1, 2, 3)\nd := waitV(4, 5, 6, 7)\nwait0(3, 4)\nx := 1000 + wait1(1, 2, 3)*2\n[]int{a, b, c, d, x}")
		c.Rep.Oracle["yield-keeps-args"]++
		got := fmt.Sprint(rets, err, seen0)
		if want := "[[789 123 3 4567 1246]] <nil> 34"; got != want {
			c.Rep.Violate(Violation{Kind: "oracle", Cut: "yield-keeps-args", Input: "natives of the forms N->1, N->M, variadic and N->0 call vm.Yield() before reading their arguments; yield hook: " + hook, Impl: got, Oracle: want})
		}
		r2, err := vm.Call("main.wait1", 1, goat.Int(4), goat.Int(5), goat.Int(6))
		c.Rep.Oracle["yield-keeps-args"]++
		if err != nil || len(r2) != 1 || r2[0].Int() != 456 {
			c.Rep.Violate(Violation{Kind: "oracle", Cut: "yield-keeps-args", Input: "vm.Call(main.wait1, 4, 5, 6); yield hook: " + hook, Impl: fmt.Sprint(r2, err), Oracle: "[456]"})
		}
		_ = out
	}
}

// c19HookErrors: a failure inside a host-supplied hook that a builtin calls back into (the yield hook behind
// time.Sleep, VM.Yield from a native of the host) is a nested call: it surfaces as the error of the outer call
func (c *Ctx) c19HookErrors() {
	for _, via := range []string{"script", "script-function", "host-call", "host-native"} {
		vm := goat.New()
		calls := 0
		vm.Set("builtin.__yield", goat.NewFunc(0, 0, func(vm *goat.VM) { calls++; panic("yield hook failed") }))
		vm.Set("main.pause", goat.NewFunc(0, 0, func(vm *goat.VM) { vm.Yield() }))
		var err error
		var out string
		switch via {
		case "script":
			_, err = vm.Eval(fstest.MapFS{}, "main", "import \"time\"\nx := 1\ntime.Sleep(0)\nx = 2\n")
		case "script-function":
			_, err = vm.Eval(fstest.MapFS{}, "main", "import \"time\"\nx := 1\nfunc f() { time.Sleep(0) }\nf()\nx = 2\n")
		case "host-call":
			_, err = vm.Call("time.Sleep", 0, goat.Float64(0))
		default:
			_, err = vm.Eval(fstest.MapFS{}, "main", "x := 1\npause()\nx = 2\n")
		}
		if via != "host-call" {
			out = vm.Get("main.x").String()
		}
		c.Rep.Oracle["hook-error-surfaces"]++
		if err == nil || !strings.Contains(err.Error(), "yield hook failed") || calls != 1 || (via != "host-call" && out != "1") {
			c.Rep.Violate(Violation{Kind: "oracle", Cut: "hook-error-surfaces", Input: "the yield hook panics; reached through " + via, Impl: fmt.Sprintf("err=%v hook calls=%d x=%s", err, calls, out), Oracle: "an error that carries the hook's message; the statement after the call does not run"})
		}
	}
}

func runC19(c *Ctx) error {
	c.Rep.Rule = "native: the six NewFunc forms x arities 0..6 x 0..4 results, called above a caller prefix of 0..3 values with the right / a wrong argument count, every requested result count 0..4, panicking bodies, variadic natives with 0..3 extras, by a CALL instruction and by VM.Func; scripts: natives with 0..5 parameters called as multi-assign, nested in arithmetic, inside a slice literal, variadic with extras or a spread slice, a native that re-enters the VM; VM.Call on a two-result script function for requested counts 0..3; errors from a native panic, from a nested VM.Call and from a script called by the host; round trips of every constructor over boundary and random values; distinct = distinct call line / script; non-trivial = non-empty caller prefix and accepted call / more than one parameter"
	nn, ns, nr := 2000, 40, 5000
	if c.Thorough() {
		nn, ns, nr = 600000, 10000, 3000000
	}
	lines, impl := c.c19Natives(nn)
	if c.Model != nil {
		ans, err := c.Model.AskAll(lines)
		if err != nil {
			return err
		}
		for i, a := range ans {
			c.Rep.Corr["native"]++
			if a != impl[i] {
				c.Rep.Violate(Violation{Kind: "correspondence", Cut: "native", Input: lines[i], Impl: impl[i], Model: a})
			}
		}
	}
	c.c19Scripts(ns)
	c.c19ZeroArity()
	c.c19HookErrors()
	c.c19YieldKeepsArgs()
	c.c19Redefined()
	c.c19Nils()
	c.c19Objects()
	c.c19ValueFormWithArgs()
	c.c19TailAfterLiteral()
	c.c19ResultsKept()
	c.c19Probes()
	c.c19CallFollowsName()
	c.c19RoundTrips(nr)
	return nil
}
