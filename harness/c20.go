package main

// C20 — run-time errors point at the failing line and the active call chain.
//
// cut point backtrace: generated programs = a random call tree (functions, methods, calls as
//                      statements, in expressions, as arguments, through function values, inside
//                      if / for / range / switch bodies, with arguments spread over several lines,
//                      recursion to depth 30) with one fault of a random kind planted at a known
//                      line; the (function, line) list parsed from the error goatlang returns,
//                      optimizer on and off == Lean model Goat.Backtrace on the same tree
//                                                                                 [correspondence]
// oracle:              the same expectation computed natively from the tree; optimizer on == off  [search]

import (
	"fmt"
	"regexp"
	"sort"
	"strings"
	"testing/fstest"

	goat "github.com/philhassey/goatlang"
)

func init() { checks["C20"] = runC20 }

type c20Stmt struct {
	lines  []string // source lines (indent added on emission)
	kind   string   // op | call | fault
	off    int      // line offset of the reported position inside the statement
	callee []*c20Fn // functions called on that line, in execution order
	rec    int      // recursion depth for a call of a recursive function
	viaLit bool     // the call is made inside a function literal defined on the statement's first line
	line   int      // absolute line, set on emission
}

type c20Fn struct {
	name    string
	method  bool
	body    []*c20Stmt
	recBase []*c20Stmt // recursive function: statements of the base case
	recLine int
	start   int
}

type c20Gen struct {
	r        *RNG
	fns      []*c20Fn
	faulted  bool
	wantKind string
	feat     map[string]bool
	budget   int
	level    int // nesting of the function whose body is being generated (0: main, which has no result)
}

var c20Faults = map[string]string{
	"index": "x = xs[x-x+7]", "div": "x = x / (x - x)", "panic": "panic(\"boom\")", "nilfield": "x = p.A",
	"slice": "xs = xs[1:9]", "nilfunc": "x = nf(1)", "strindex": "x = int(s[x-x+5])", "mod": "x = x % (x - x)",
	"nilmap": "mp[\"a\"] = 1", "nilfieldset": "p.A = 3", "nilmethod": "x = p.mz(1)", "negindex": "x = xs[x-x-1]",
	// compound assignments (every operator the tokenizer reads, also the three-character ones)
	"negshl": "x <<= x - x - 1", "negshr": "x >>= x - x - 1", "idxshr": "xs[x-x+7] >>= 1", "idxshl": "xs[x-x+7] <<= 1", "divassign": "x /= x - x",
	"modassign": "x %= x - x", "idxadd": "xs[x-x+7] += 1", "idxinc": "xs[x-x+7]++", "nilfieldshl": "p.A <<= 1", "nilmapor": "mp[\"a\"] |= 1", "idxandnot": "xs[x-x+7] &= 3",
}

// the same faults with the failing operator on the first line and its last operand on the second
var c20Wrapped = map[string][]string{
	"index": {"x = xs[", "\tx-x+7]"}, "div": {"x = x /", "\t(x - x)"}, "mod": {"x = x %", "\t(x - x)"},
	"panic": {"panic(", "\t\"boom\")"}, "slice": {"xs = xs[1:", "\t9]"}, "strindex": {"x = int(s[", "\tx-x+5])"},
	"negindex": {"x = xs[", "\tx-x-1]"}, "nilmap": {"mp[", "\t\"a\"] = 1"},
	"nilfieldset": {"p.", "\tA = 3"}, "nilfield": {"x = p.", "\tA"}, "nilmethod": {"x = p.", "\tmz(1)"}, "nilfunc": {"x = nf(", "\t1)"},
}

// a store is located at its "=", a selection at the selected name: both stand on the second line
var c20WrappedOff = map[string]int{"nilmap": 1, "nilfieldset": 1, "nilfield": 1, "nilmethod": 1}

func (g *c20Gen) op() *c20Stmt {
	r := g.r
	switch r.Intn(7) {
	case 6: // a function literal defined and called inside the function: what follows still belongs to the function
		g.feat["func-literal-before"] = true
		fl := fmt.Sprintf("fl%d", r.Intn(1000000))
		return &c20Stmt{kind: "op", lines: []string{fl + " := func(a int) int {", "\treturn a + 1", "}", "x = " + fl + "(x)"}}
	case 0:
		return &c20Stmt{kind: "op", lines: []string{"x = x + 1"}}
	case 1:
		return &c20Stmt{kind: "op", lines: []string{"for i := 0; i < 3; i++ {", "\tx += i", "}"}}
	case 2:
		return &c20Stmt{kind: "op", lines: []string{"if x > 100000 {", "\tx = 0", "}"}}
	case 3:
		return &c20Stmt{kind: "op", lines: []string{"xs[0] = x + xs[1]"}}
	case 4:
		return &c20Stmt{kind: "op", lines: []string{"x = len(s) + x*2 - x"}}
	}
	return &c20Stmt{kind: "op", lines: []string{"x = add2(x, 1)"}} // a completed call: must leave no trace
}

func (g *c20Gen) newFn(depth int, onPath bool) *c20Fn {
	f := &c20Fn{name: fmt.Sprintf("f%d", len(g.fns)), method: g.r.Intn(4) == 0}
	if f.method {
		f.name = fmt.Sprintf("m%d", len(g.fns))
	}
	g.fns = append(g.fns, f)
	g.level++
	f.body = g.body(depth, onPath)
	g.level--
	return f
}

func (g *c20Gen) callExpr(f *c20Fn, arg string) string {
	if f.method {
		return fmt.Sprintf("t.%s(%s)", f.name, arg)
	}
	return fmt.Sprintf("%s(%s)", f.name, arg)
}

// body: statements of one function; if onPath the fault (or the call leading to it) is placed here
func (g *c20Gen) body(depth int, onPath bool) []*c20Stmt {
	r := g.r
	var out []*c20Stmt
	n := r.Intn(4)
	pathAt := -1
	if onPath {
		pathAt = r.Intn(n + 1)
	}
	for i := 0; i <= n; i++ {
		if i == pathAt {
			if depth <= 0 || r.Intn(4) == 0 {
				kinds := sortedKeys(c20Faults)
				k := Pick(r, kinds)
				g.wantKind = k
				g.feat["fault-"+k] = true
				switch {
				case k == "index" && r.Intn(3) == 0: // the failing operation on the first line of a longer statement
					g.feat["fault-first-line-of-statement"] = true
					out = append(out, &c20Stmt{kind: "fault", lines: []string{"x = add2(xs[x-x+7],", "\t1)"}})
				case k == "index" && r.Intn(2) == 0: // ... on its second line
					g.feat["fault-second-line-of-statement"] = true
					out = append(out, &c20Stmt{kind: "fault", lines: []string{"x = add2(1,", "\txs[x-x+7])"}, off: 1})
				case k == "div" && r.Intn(2) == 0:
					g.feat["fault-second-line-of-statement"] = true
					out = append(out, &c20Stmt{kind: "fault", lines: []string{"x = x +", "\tx/(x-x)"}, off: 1})
				case c20Wrapped[k] != nil && r.Intn(3) == 0: // the operator on one line, its last operand on the next: the fault is where the operator is
					g.feat["fault-operator-before-wrapped-operand"] = true
					out = append(out, &c20Stmt{kind: "fault", lines: c20Wrapped[k], off: c20WrappedOff[k]})
				default:
					out = append(out, &c20Stmt{kind: "fault", lines: []string{c20Faults[k]}})
				}
				return out // nothing after the fault runs
			}
			out = append(out, g.call(depth-1, true))
			return out
		}
		if depth > 0 && g.budget > 0 && r.Intn(3) == 0 {
			g.budget--
			out = append(out, g.call(depth-1, false)) // a call that completes
		} else {
			out = append(out, g.op())
		}
	}
	return out
}

func (g *c20Gen) call(depth int, onPath bool) *c20Stmt {
	r := g.r
	if r.Intn(7) == 0 { // recursion
		d := 1 + r.Intn(30)
		f := &c20Fn{name: fmt.Sprintf("rec%d", len(g.fns))}
		g.fns = append(g.fns, f)
		g.level++
		f.recBase = g.body(depth, onPath)
		g.level--
		g.feat["recursion"] = true
		return &c20Stmt{kind: "call", lines: []string{fmt.Sprintf("x = %s(%d, x)", f.name, d)}, callee: []*c20Fn{f}, rec: d}
	}
	f := g.newFn(depth, onPath)
	ce := g.callExpr(f, "x")
	if onPath && g.level > 0 && r.Intn(3) == 0 { // the call is the operand of a return (nothing follows a call on the path): the
		// frame's line is the line of the call's "(", wherever the return keyword stands
		g.feat["call-is-return-operand"] = true
		switch k := r.Intn(4); {
		case k == 0:
			return &c20Stmt{kind: "call", lines: []string{"return " + ce}, callee: []*c20Fn{f}}
		case k == 1 && f.method:
			g.feat["call-selector-on-next-line"] = true
			return &c20Stmt{kind: "call", lines: []string{"return t.", "\t" + f.name + "(x)"}, off: 1, callee: []*c20Fn{f}}
		case k == 2:
			g.feat["call-on-line-after-return"] = true
			return &c20Stmt{kind: "call", lines: []string{"return (", "\t" + ce + ")"}, off: 1, callee: []*c20Fn{f}}
		}
		return &c20Stmt{kind: "call", lines: []string{"return 1 +", "\t" + ce}, off: 1, callee: []*c20Fn{f}}
	}
	if f.method && r.Intn(8) == 0 {
		g.feat["call-selector-on-next-line"] = true
		return &c20Stmt{kind: "call", lines: []string{"x = t.", "\t" + f.name + "(x)"}, off: 1, callee: []*c20Fn{f}}
	}
	switch k := r.Intn(11); {
	case k == 0:
		g.feat["call-statement"] = true
		return &c20Stmt{kind: "call", lines: []string{ce}, callee: []*c20Fn{f}}
	case k == 1:
		g.feat["call-in-if"] = true
		return &c20Stmt{kind: "call", lines: []string{"if x == x {", "\tx += " + ce, "}"}, off: 1, callee: []*c20Fn{f}}
	case k == 2:
		g.feat["call-in-for"] = true
		return &c20Stmt{kind: "call", lines: []string{"for i := 0; i < 1; i++ {", "\tx += " + ce + " + i", "}"}, off: 1, callee: []*c20Fn{f}}
	case k == 3:
		g.feat["call-in-switch"] = true
		return &c20Stmt{kind: "call", lines: []string{"switch {", "case x == x:", "\tx = " + ce, "}"}, off: 2, callee: []*c20Fn{f}}
	case k == 4:
		g.feat["call-in-range"] = true
		return &c20Stmt{kind: "call", lines: []string{"for _, v := range []int{1} {", "\tx += " + ce + " + v", "}"}, off: 1, callee: []*c20Fn{f}}
	case k == 5 && !f.method:
		g.feat["call-via-func-value"] = true
		fv := fmt.Sprintf("fv%d", len(g.fns))
		return &c20Stmt{kind: "call", lines: []string{fv + " := " + f.name, "x = " + fv + "(x) + 1"}, off: 1, callee: []*c20Fn{f}}
	case k == 6:
		g.feat["call-multi-line-args"] = true
		ml := strings.Replace(ce, "(x)", "(", 1)
		return &c20Stmt{kind: "call", lines: []string{"x = 2 * " + ml, "\tx,", ")"}, callee: []*c20Fn{f}}
	case k == 7 && !onPath && g.budget > 0: // nested as an argument: the inner call runs first, both on one line
		g.budget--
		f2 := g.newFn(depth, false)
		g.feat["call-as-argument"] = true
		return &c20Stmt{kind: "call", lines: []string{"x = " + g.callExpr(f2, ce)}, callee: []*c20Fn{f, f2}}
	case k == 8 && r.Bool() && !f.method: // (literals do not capture locals, so no receiver) through a function literal: one more frame, named after the literal's position
		g.feat["call-through-func-literal"] = true
		fl := fmt.Sprintf("fl%d", len(g.fns))
		return &c20Stmt{kind: "call", lines: []string{fl + " := func(b int) int {", "\treturn " + g.callExpr(f, "b") + " + 1", "}", "x = " + fl + "(x)"}, off: 3, callee: []*c20Fn{f}, viaLit: true}
	case k == 8:
		g.feat["call-in-else"] = true
		return &c20Stmt{kind: "call", lines: []string{"if x != x {", "\tx = 0", "} else {", "\tx = " + ce + " - 1", "}"}, off: 3, callee: []*c20Fn{f}}
	case k == 9:
		g.feat["call-in-return-position"] = true
		return &c20Stmt{kind: "call", lines: []string{"x = " + ce + "*2 + " + "add2(x, 1)"}, callee: []*c20Fn{f}}
	}
	g.feat["call-in-expression"] = true
	return &c20Stmt{kind: "call", lines: []string{"x = x + " + ce + "*2"}, callee: []*c20Fn{f}}
}

type c20Frame struct {
	fn   string
	line int
}

func c20Program(r *RNG) (src string, tokens []string, want []c20Frame, feat map[string]bool, kind string) {
	g := &c20Gen{r: r, feat: map[string]bool{}, budget: 12}
	mainFn := &c20Fn{name: "main"}
	hasFault := r.Intn(20) != 0
	mainFn.body = g.body(1+r.Intn(6), hasFault)
	fns := append([]*c20Fn{}, g.fns...)
	// emit in random order
	for i := len(fns) - 1; i > 0; i-- {
		j := r.Intn(i + 1)
		fns[i], fns[j] = fns[j], fns[i]
	}
	fns = append(fns, mainFn)
	var sb strings.Builder
	line := 1
	w := func(s string) { sb.WriteString(s + "\n"); line++ }
	w("type T struct {")
	w("\tA int")
	w("}")
	w("")
	w("func add2(a int, b int) int {")
	w("\treturn a + b")
	w("}")
	w("")
	w("func (t *T) mz(a int) int {")
	w("\treturn a + t.A")
	w("}")
	w("")
	emitBody := func(body []*c20Stmt, indent string) {
		for _, st := range body {
			st.line = line + st.off
			for _, l := range st.lines {
				w(indent + l)
			}
		}
	}
	prologue := func() {
		w("\txs := []int{1, 2}")
		w("\tvar p *T")
		w("\tvar nf func(int) int")
		w("\tvar mp map[string]int")
		w("\ts := \"ab\"")
		w("\tt := &T{A: 1}")
		w("\tif x < -5 {")
		w("\t\tprintln(len(xs), p, nf, mp, s, t)")
		w("\t}")
	}
	for _, f := range fns {
		f.start = line
		switch {
		case f.recBase != nil:
			w(fmt.Sprintf("func %s(n int, x int) int {", f.name))
			w("\tif n > 0 {")
			f.recLine = line
			w(fmt.Sprintf("\t\treturn %s(n-1, x+1)", f.name))
			w("\t}")
			prologue()
			emitBody(f.recBase, "\t")
			w("\treturn x")
		case f.name == "main":
			w("func main() {")
			w("\tx := 1")
			prologue()
			emitBody(f.body, "\t")
			w("\tprintln(\"done\", x)")
		case f.method:
			w(fmt.Sprintf("func (t0 *T) %s(x int) int {", f.name))
			prologue()
			emitBody(f.body, "\t")
			w("\treturn x + t0.A")
		default:
			w(fmt.Sprintf("func %s(x int) int {", f.name))
			prologue()
			emitBody(f.body, "\t")
			w("\treturn x")
		}
		w("}")
		w("")
	}
	mainCall := line
	w("main()")
	// dynamic tree in the model's notation + native expectation
	var chain []c20Frame
	found := false
	var walk func(owner string, body []*c20Stmt)
	callFn := func(owner string, st *c20Stmt, f *c20Fn) {
		if f.recBase != nil {
			tokens = append(tokens, fmt.Sprintf("c%d", st.line), "(")
			chain = append(chain, c20Frame{owner, st.line})
			for i := 0; i < st.rec; i++ {
				tokens = append(tokens, fmt.Sprintf("c%d", f.recLine), "(")
				chain = append(chain, c20Frame{f.name, f.recLine})
			}
			walk(f.name, f.recBase)
			for i := 0; i <= st.rec; i++ {
				tokens = append(tokens, ")")
				if !found {
					chain = chain[:len(chain)-1]
				}
			}
			return
		}
		tokens = append(tokens, fmt.Sprintf("c%d", st.line), "(")
		chain = append(chain, c20Frame{owner, st.line})
		if st.viaLit {
			first := st.line - st.off
			tokens = append(tokens, fmt.Sprintf("c%d", first+1), "(")
			chain = append(chain, c20Frame{fmt.Sprintf("lit@%d", first), first + 1})
		}
		name := f.name
		if f.method {
			name = "T." + f.name
		}
		walk(name, f.body)
		tokens = append(tokens, ")")
		if !found {
			chain = chain[:len(chain)-1]
		}
		if st.viaLit {
			tokens = append(tokens, ")")
			if !found {
				chain = chain[:len(chain)-1]
			}
		}
	}
	walk = func(owner string, body []*c20Stmt) {
		for _, st := range body {
			if found {
				return
			}
			switch st.kind {
			case "op":
				tokens = append(tokens, fmt.Sprintf("o%d", st.line))
			case "fault":
				tokens = append(tokens, fmt.Sprintf("f%d", st.line))
				found = true
				want = append(want, c20Frame{owner, st.line})
				for i := len(chain) - 1; i >= 0; i-- {
					want = append(want, chain[i])
				}
			default:
				for _, f := range st.callee {
					if !found {
						callFn(owner, st, f)
					}
				}
			}
		}
	}
	tokens = append(tokens, fmt.Sprintf("c%d", mainCall), "(")
	chain = append(chain, c20Frame{"", mainCall})
	walk("main", mainFn.body)
	tokens = append(tokens, ")")
	return sb.String(), tokens, want, g.feat, g.wantKind
}

var c20Re = regexp.MustCompile(`^(?:error in run: )?\t?(?:main\.(\S+)\(\.\.\.\) )?v:(\d+):\d+`)

var c20LitRe = regexp.MustCompile(`^v:(\d+):\d+$`)

func c20Parse(err error) (frames []c20Frame, ok bool) {
	if err == nil {
		return nil, true
	}
	for _, l := range strings.Split(err.Error(), "\n") {
		m := c20Re.FindStringSubmatch(l)
		if m == nil {
			return nil, false
		}
		var ln int
		fmt.Sscan(m[2], &ln)
		fn := m[1]
		if lm := c20LitRe.FindStringSubmatch(fn); lm != nil { // a function literal is named after its position
			fn = "lit@" + lm[1]
		}
		frames = append(frames, c20Frame{fn, ln})
	}
	return frames, true
}

func c20Show(fr []c20Frame) string {
	if len(fr) == 0 {
		return "none"
	}
	var w []string
	for _, f := range fr {
		w = append(w, fmt.Sprintf("%s:%d", f.fn, f.line))
	}
	return strings.Join(w, " ")
}

func runC20(c *Ctx) error {
	c.c20PackageFault()
	c.Rep.Rule = "backtrace: programs built from a random call tree of depth 1..7 (up to ~25 functions and methods emitted in random order, completed calls before the fault, recursion of depth 1..30), faults with the operator and its last operand on different lines, calls as statement / in an expression / in if, else, for, range and switch bodies / through a function value / as an argument of another call / with arguments over several lines, one fault among 23 kinds (compound assignments with every operator incl. <<= and >>=, index, negative index, slice bounds, string index, integer division and modulo by zero, explicit panic, nil struct field read and write, nil method receiver, nil function value, nil map write) planted at a known line, 5% without fault; recursions of depth 1..30 whose failing operation is the recursive call itself (nil function value, nil receiver at the end of a list); each run with the optimizer off and on; distinct = distinct program; non-trivial = chain of at least 3 frames"
	n := 120
	if c.Thorough() {
		n = 60000
	}
	var lines []string
	type job struct {
		src     string
		off, on string
		want    string
		wantAt  string
		feat    map[string]bool
	}
	var jobs []job
	for i := 0; i < n; i++ {
		src, tokens, want, feat, kind := c20Program(c.RNG)
		run := func(opt bool) string {
			var err error
			goat.VerifSetBudget(5000000)
			if e := try(func() { _, err = goat.New().VerifEval(src, opt) }); e != nil {
				err = fmt.Errorf("PANIC escaped: %v", e)
			}
			goat.VerifSetBudget(-1)
			fr, ok := c20Parse(err)
			if !ok {
				return "unparsed: " + err.Error()
			}
			return c20Show(fr)
		}
		j := job{src: src, off: run(false), on: run(true), want: c20Show(want), feat: feat}
		jobs = append(jobs, j)
		// the same fault reached through the host's Call: the functions are defined by Eval (the program without its
		// last line "main()"), then main.main is called - the report is the same minus the top-level call site
		if len(want) > 0 && i%3 == 0 {
			defs := strings.TrimSuffix(src, "main()\n")
			vm := goat.New()
			var err error
			if e := try(func() {
				if _, err = vm.Eval(fstest.MapFS{}, "v", defs); err == nil {
					_, err = vm.Call("main.main", 0)
				}
			}); e != nil {
				err = fmt.Errorf("PANIC escaped: %v", e)
			}
			got := "unparsed: " + fmt.Sprint(err)
			if fr, ok := c20Parse(err); ok {
				got = c20Show(fr)
			}
			c.Rep.Oracle["tree-expectation-through-call"]++
			c.Rep.Count("fault-reached-through-vm.Call")
			if wantCall := c20Show(want[:len(want)-1]); got != wantCall {
				c.Rep.Violate(Violation{Kind: "oracle", Cut: "tree-expectation-through-call", Input: defs + "// then vm.Call(\"main.main\", 0)", Impl: got, Oracle: wantCall})
			}
		}
		lines = append(lines, "bt "+strings.Join(tokens, " "))
		c.Rep.Seen(src, len(want) >= 3)
		for f := range feat {
			c.Rep.Count(f)
		}
		c.Rep.Count(fmt.Sprintf("chain-depth-%02d", min(len(want), 35)/5*5))
		_ = kind
		if i == 0 {
			c.Rep.Sample(map[string]any{"program": src, "expected": j.want})
		}
	}
	var ans []string
	if c.Model != nil {
		var err error
		if ans, err = c.Model.AskAll(lines); err != nil {
			return err
		}
	}
	for i, j := range jobs {
		c.Rep.Oracle["tree-expectation"] += 2
		if j.off != j.want || j.on != j.want {
			c.Rep.Violate(Violation{Kind: "oracle", Cut: "tree-expectation", Input: j.src, Impl: "optimizer off: " + j.off + "\noptimizer on:  " + j.on, Oracle: j.want})
			continue
		}
		if ans != nil {
			// the model reports positions only; compare the line lists
			c.Rep.Corr["backtrace"] += 2
			implLines := "none"
			if j.on != "none" {
				var ls []string
				for _, f := range strings.Fields(j.on) {
					ls = append(ls, f[strings.LastIndex(f, ":")+1:])
				}
				implLines = "at=" + ls[0] + " chain=" + strings.Join(ls[1:], ",")
			}
			if ans[i] != implLines {
				c.Rep.Violate(Violation{Kind: "correspondence", Cut: "backtrace", Input: j.src, Impl: implLines, Model: ans[i]})
			}
		}
	}
	c.c20RecursiveFault()
	c.c20DepthFault()
	c.c20TopLevelFault()
	return c.c20PosLimits()
}

// c20DepthFault: the fault is the bound on nested calls itself: the header names the call that was refused, and there
// is one chain line per call that is active - the refused call is not one of them
func (c *Ctx) c20DepthFault() {
	src := "func rec(n int) int {\n\tif n%2 == 0 {\n\t\treturn rec(n + 1)\n\t}\n\treturn rec(n + 1)\n}\nrec(0)\n"
	for _, opt := range []bool{false, true} {
		var err error
		if e := try(func() { _, err = goat.New().VerifEval(src, opt) }); e != nil {
			err = fmt.Errorf("PANIC escaped: %v", e)
		}
		c.Rep.Oracle["depth-fault"]++
		bad := ""
		if err == nil || !strings.Contains(err.Error(), "too deep") {
			bad = "no depth fault: " + fmt.Sprint(err)[:min(len(fmt.Sprint(err)), 200)]
		} else {
			lines := strings.Split(err.Error(), "\n")
			n := len(lines) - 2 // header, chain of rec frames, top-level call site
			lineOf := func(l string) string {
				if m := c20Re.FindStringSubmatch(l); m != nil {
					return m[1] + ":" + m[2]
				}
				return "?" + l
			}
			switch {
			case n < 1000:
				bad = fmt.Sprintf("only %d chain lines", n)
			case lineOf(lines[len(lines)-1]) != ":7":
				bad = "outermost line is " + lines[len(lines)-1]
			default:
				// frames rec(0) .. rec(n) are active; the refused call is made by rec(n): line 3 if n is even, else 5
				hdr := "rec:5"
				if n%2 == 0 {
					hdr = "rec:3"
				}
				if lineOf(lines[0]) != hdr {
					bad = fmt.Sprintf("%d chain lines, header %s, want %s", n, lineOf(lines[0]), hdr)
				}
				for i := 1; i <= n && bad == ""; i++ { // chain line i: the call that entered frame rec(n-i+1), made by rec(n-i)
					w := "rec:5"
					if (n-i)%2 == 0 {
						w = "rec:3"
					}
					if lineOf(lines[i]) != w {
						bad = fmt.Sprintf("chain line %d of %d is %s, want %s", i, n, lineOf(lines[i]), w)
					}
				}
			}
		}
		if bad != "" {
			c.Rep.Violate(Violation{Kind: "oracle", Cut: "depth-fault", Input: fmt.Sprintf("optimize=%v\n%s", opt, src), Impl: bad, Oracle: "header = the refused call; one chain line per active call, innermost first; the top-level call site last"})
		}
	}
}

// c20RecursiveFault: the operation that finally fails IS the recursive call (a nil function value / a nil
// receiver at the bottom of the recursion), so the failing position equals the position of every active call site:
// one line per active call must still be reported
func (c *Ctx) c20RecursiveFault() {
	depths := []int{1, 2, 3, 5, 9}
	if c.Thorough() {
		depths = append(depths, 14, 20, 30)
	}
	for _, d := range depths {
		progs := []struct {
			src  string
			want []c20Frame
		}{}
		// a function variable that becomes nil at the bottom
		fv := fmt.Sprintf("var h func(int) int\n\nfunc f(n int) int {\n\tif n == 0 {\n\t\th = nil\n\t}\n\treturn h(n - 1)\n}\n\nfunc start() int {\n\th = f\n\treturn f(%d)\n}\n\nstart()\n", d)
		var w []c20Frame
		for i := 0; i <= d; i++ {
			w = append(w, c20Frame{"f", 7})
		}
		w = append(w, c20Frame{"start", 12}, c20Frame{"", 15})
		progs = append(progs, struct {
			src  string
			want []c20Frame
		}{fv, w})
		// a method called on the nil pointer that ends a linked list
		ls := fmt.Sprintf("type Node struct {\n\tval int\n\tnext *Node\n}\n\nfunc (n *Node) sum() int {\n\tm := n.next\n\treturn n.val + m.sum()\n}\n\nfunc build(k int) *Node {\n\tvar head *Node\n\tfor i := 0; i < k; i++ {\n\t\thead = &Node{val: i, next: head}\n\t}\n\treturn head\n}\n\nfunc run() int {\n\tl := build(%d)\n\treturn l.sum()\n}\n\nrun()\n", d)
		var w2 []c20Frame
		for i := 0; i < d; i++ {
			w2 = append(w2, c20Frame{"Node.sum", 8})
		}
		w2 = append(w2, c20Frame{"run", 21}, c20Frame{"", 24})
		progs = append(progs, struct {
			src  string
			want []c20Frame
		}{ls, w2})
		for _, p := range progs {
			for _, opt := range []bool{false, true} {
				var err error
				if e := try(func() { _, err = goat.New().VerifEval(p.src, opt) }); e != nil {
					err = fmt.Errorf("PANIC escaped: %v", e)
				}
				got := "unparsed: " + fmt.Sprint(err)
				if fr, ok := c20Parse(err); ok {
					got = c20Show(fr)
				}
				c.Rep.Oracle["recursive-call-fault"]++
				c.Rep.Count("recursive-call-fault")
				if got != c20Show(p.want) {
					c.Rep.Violate(Violation{Kind: "oracle", Cut: "recursive-call-fault", Input: fmt.Sprintf("optimize=%v\n%s", opt, p.src), Impl: got, Oracle: c20Show(p.want)})
				}
			}
		}
	}
}

// c20TopLevelFault: a fault in top-level code (outside every function) after declarations of each kind: the first
// line names no function, whatever was declared last
func (c *Ctx) c20TopLevelFault() {
	decls := map[string]string{
		"method-last":   "type T struct {\n\tA int\n}\n\nfunc (t *T) M() int {\n\treturn t.A\n}\n",
		"function-last": "type T struct {\n\tA int\n}\n\nfunc (t *T) M() int {\n\treturn t.A\n}\n\nfunc f() int {\n\treturn 1\n}\n",
		"type-only":     "type T struct {\n\tA int\n}\n",
		"nothing":       "",
	}
	for _, name := range sortedKeys2(decls) {
		pre := decls[name]
		line := strings.Count(pre, "\n") + 3
		src := pre + "\nxs := []int{1}\nys := xs[5]\nprintln(ys)\n"
		for _, opt := range []bool{false, true} {
			var err error
			if e := try(func() { _, err = goat.New().VerifEval(src, opt) }); e != nil {
				err = fmt.Errorf("PANIC escaped: %v", e)
			}
			got := "unparsed: " + fmt.Sprint(err)
			if fr, ok := c20Parse(err); ok {
				got = c20Show(fr)
			}
			want := c20Show([]c20Frame{{"", line}})
			c.Rep.Oracle["top-level-fault"]++
			if got != want {
				c.Rep.Violate(Violation{Kind: "oracle", Cut: "top-level-fault", Input: fmt.Sprintf("%s optimize=%v\n%s", name, opt, src), Impl: got, Oracle: want})
			}
		}
	}
}

// c20PackageFault: a fault inside a method of a package imported through a path that differs from its name: methods
// are named like the package's functions (<package>.<Type>.<method>), every line of the chain with its file and line
func (c *Ctx) c20PackageFault() {
	app := "package main\n\nimport \"lib/geom\"\n\nfunc run() int {\n\ts := geom.New(0)\n\treturn geom.Total(s)\n}\n\nfunc init() {\n\trun()\n}\n"
	geom := "package geom\n\ntype Shape struct {\n\tw int\n}\n\nfunc New(w int) *Shape {\n\treturn &Shape{w: w}\n}\n\nfunc (s *Shape) Area(n int) int {\n\tif n > 0 {\n\t\treturn s.Area(n - 1)\n\t}\n\treturn 100 / s.w\n}\n\nfunc Total(s *Shape) int {\n\tsum := 0\n\tfor i := 0; i < 2; i++ {\n\t\tsum += s.Area(1)\n\t}\n\treturn sum\n}\n"
	for _, dir := range []string{"lib/geom", "vendor/lib/geom", "geom"} {
		sys := fstest.MapFS{"app/main.go": &fstest.MapFile{Data: []byte(app)}, dir + "/shape.go": &fstest.MapFile{Data: []byte(geom)}}
		var err error
		if e := try(func() { err = goat.New().Load(sys, "app") }); e != nil {
			err = fmt.Errorf("PANIC escaped: %v", e)
		}
		var got []string
		if err != nil {
			for n, l := range strings.Split(err.Error(), "\n") {
				l = strings.TrimSpace(strings.TrimPrefix(l, "error in run: "))
				if n == 0 {
					l = strings.SplitN(l, ": ", 2)[0]
				}
				if i := strings.LastIndex(l, ":"); i >= 0 {
					l = l[:i] // without the column
				}
				got = append(got, l)
			}
		}
		want := []string{"geom.Shape.Area(...) " + dir + "/shape.go:15", "geom.Shape.Area(...) " + dir + "/shape.go:13", "geom.Total(...) " + dir + "/shape.go:21", "main.run(...) app/main.go:7", "main.init(...) app/main.go:11", "app/main.go:10"}
		c.Rep.Oracle["package-fault"]++
		if strings.Join(got, " | ") != strings.Join(want, " | ") {
			c.Rep.Violate(Violation{Kind: "oracle", Cut: "package-fault", Input: "package geom under " + dir + ":\n" + geom + "\n// app/main.go\n" + app, Impl: strings.Join(got, " | ") + fmt.Sprint(" err=", err), Oracle: strings.Join(want, " | ")})
		}
	}
}

func sortedKeys2(m map[string]string) []string {
	var ks []string
	for k := range m {
		ks = append(ks, k)
	}
	sort.Strings(ks)
	return ks
}

// c20PosLimits: the position word against the model (Goat.Backtrace.newPos / posInfo): faults planted beyond
// line and column 65535 (both saturate there) and just below; function names and the call chain must be intact
func (c *Ctx) c20PosLimits() error {
	colRe := regexp.MustCompile(`\bv:(\d+):(\d+)`)
	type pj struct {
		src            string
		line, col      int
		gotL, gotC, fn string
	}
	var jobs []pj
	var lines []string
	pads := []int{0, 5, 65530, 65531, 65532, 65533, 65534, 65535, 65536, 70000, 131072 + 9}
	if c.Thorough() {
		pads = append(pads, 65529, 65537, 65540, 99999, 196608+2, 262144+7, 300000)
	}
	for _, pad := range pads {
		for _, form := range []int{0, 1} {
			var src string
			var line, col int
			if form == 0 { // pad blank lines before the function
				src = strings.Repeat("\n", pad) + "func f() int {\n\txs := []int{1}\n\treturn xs[5]\n}\nfunc g() int {\n\treturn f()\n}\ng()\n"
				line, col = pad+3, 11
			} else { // pad blanks before the faulting statement on one line
				src = "func f() int {\n\txs := []int{1}\n" + strings.Repeat(" ", pad) + "return xs[5]\n}\nfunc g() int {\n\treturn f()\n}\ng()\n"
				line, col = 3, pad+10
			}
			for _, opt := range []bool{false, true} {
				var err error
				if e := try(func() { _, err = goat.New().VerifEval(src, opt) }); e != nil {
					err = fmt.Errorf("PANIC escaped: %v", e)
				}
				j := pj{src: fmt.Sprintf("form %d pad %d optimize=%v", form, pad, opt), line: line, col: col}
				if err != nil {
					first := strings.SplitN(err.Error(), "\n", 2)[0]
					if m := colRe.FindStringSubmatch(first); m != nil {
						j.gotL, j.gotC = m[1], m[2]
					}
					if strings.Contains(first, "main.f(...)") && strings.Count(err.Error(), "\n") == 2 && strings.Contains(err.Error(), "main.g(...)") {
						j.fn = "ok"
					} else {
						j.fn = err.Error()
					}
				}
				jobs = append(jobs, j)
				lines = append(lines, fmt.Sprintf("bt pos 1 2 %d %d", line, col))
			}
		}
	}
	// the names have 16-bit indices too: a program with very many constants (they share no table with the names) keeps
	// its function and file names; one with more names than the table holds names nothing past its end - never
	// another function or file
	otherName := regexp.MustCompile(`(\S+)\(\.\.\.\)`)
	for _, many := range []struct {
		kind string
		n    int
	}{{"constants", 65530}, {"constants", 65536}, {"constants", 70000}, {"functions", 65530}, {"functions", 66000}} {
		var sb strings.Builder
		if many.kind == "constants" {
			sb.WriteString("var table = []string{")
			for i := 0; i < many.n; i++ {
				fmt.Fprintf(&sb, "\"s%d\", ", i)
			}
			sb.WriteString("}\n")
		} else {
			for i := 0; i < many.n; i++ {
				fmt.Fprintf(&sb, "func p%d() {}\n", i)
			}
		}
		sb.WriteString("func f() int {\n\txs := []int{1}\n\treturn xs[5]\n}\nfunc g() int {\n\treturn f()\n}\ng()\n")
		for _, opt := range []bool{false, true} {
			var err error
			if e := try(func() { _, err = goat.New().VerifEval(sb.String(), opt) }); e != nil {
				err = fmt.Errorf("PANIC escaped: %v", e)
			}
			c.Rep.Oracle["position-names"]++
			c.Rep.Count("position-many-" + many.kind)
			bad := ""
			switch {
			case err == nil:
				bad = "no error"
			case strings.Count(err.Error(), "\n") != 2 || !strings.Contains(err.Error(), "index out of range"):
				bad = "not the fault and its two callers"
			case many.kind == "constants" && !(strings.Contains(err.Error(), "main.f(...) v:") && strings.Contains(err.Error(), "main.g(...) v:")):
				bad = "function or file names lost"
			default:
				for _, m := range otherName.FindAllStringSubmatch(err.Error(), -1) {
					if m[1] != "main.f" && m[1] != "main.g" {
						bad = "names another function: " + m[1]
					}
				}
				for _, l := range strings.Split(err.Error(), "\n") {
					if !strings.Contains(l, "v:") && !strings.Contains(l, " :") && !strings.HasPrefix(strings.TrimSpace(strings.TrimPrefix(l, "error in run:")), ":") {
						bad = "names another file: " + l
					}
				}
			}
			if bad != "" {
				c.Rep.Violate(Violation{Kind: "oracle", Cut: "position-names", Input: fmt.Sprintf("%d %s before func f / func g / g(), optimize=%v", many.n, many.kind, opt), Impl: bad + ": " + fmt.Sprint(err), Oracle: "main.f faults, called from main.g, called from top level (past the end of the name table: no name)"})
			}
		}
	}
	if c.Model == nil {
		return nil
	}
	// name indices beyond the table against the model
	for _, fi := range []int{0, 1, 65535, 65536, 70000, 1 << 20} {
		for _, gi := range []int{2, 65535, 65536, 1 << 17} {
			w := goat.VerifPosWord(fi, gi, 7, 9)
			jobs = append(jobs, pj{src: fmt.Sprintf("name indices %d %d", fi, gi), gotL: w, fn: "raw"})
			lines = append(lines, fmt.Sprintf("bt pos %d %d 7 9", fi, gi))
		}
	}
	ans, err := c.Model.AskAll(lines)
	if err != nil {
		return err
	}
	for i, j := range jobs {
		if j.fn == "raw" {
			c.Rep.Corr["position-word"]++
			if ans[i] != j.gotL {
				c.Rep.Violate(Violation{Kind: "correspondence", Cut: "position-word", Input: j.src, Impl: j.gotL, Model: ans[i]})
			}
			continue
		}
		c.Rep.Corr["position-word"]++
		c.Rep.Count("position-limits")
		impl := fmt.Sprintf("1 2 %s %s", j.gotL, j.gotC)
		if ans[i] != impl || j.fn != "ok" {
			c.Rep.Violate(Violation{Kind: "correspondence", Cut: "position-word", Input: j.src + fmt.Sprintf(" (fault at line %d column %d)", j.line, j.col), Impl: impl + " names/chain: " + j.fn, Model: ans[i] + " names/chain: ok"})
		}
	}
	return nil
}
