package main

// EXPLORE — not a registered property check: runs handwritten Go programs (declarations plus
// func main(), one per file in $VERIF_EXPLORE_DIR, an optional first line "//imports: a b") through the
// Go-toolchain differential and prints where goatlang differs. A tool for looking for defects by hand.

import (
	"fmt"
	"os"
	"path/filepath"
	"sort"
	"strings"
)

func init() { checks["EXPLORE"] = runExplore }

func runExplore(c *Ctx) error {
	dir := os.Getenv("VERIF_EXPLORE_DIR")
	files, _ := filepath.Glob(filepath.Join(dir, "*.go"))
	sort.Strings(files)
	var progs []GoProg
	for _, f := range files {
		b, err := os.ReadFile(f)
		if err != nil {
			return err
		}
		p := GoProg{Src: string(b)}
		if first := strings.SplitN(p.Src, "\n", 2)[0]; strings.HasPrefix(first, "//imports:") {
			p.Imports = strings.Fields(strings.TrimPrefix(first, "//imports:"))
		}
		progs = append(progs, p)
	}
	res, err := GoBatch(progs)
	if err != nil {
		return err
	}
	for i, p := range progs {
		st, out := RunGoat(p)
		name := filepath.Base(files[i])
		switch {
		case res[i].Status == "compile-error" || res[i].Status == "timeout":
			fmt.Printf("%-28s GO %s: %s\n", name, res[i].Status, strings.SplitN(res[i].Out, "\n", 3)[0])
		case st != res[i].Status || out != res[i].Out:
			fmt.Printf("%-28s DIFF goat=%s go=%s\n", name, st, res[i].Status)
			gl, ol := strings.Split(out, "\n"), strings.Split(res[i].Out, "\n")
			for k := 0; k < len(gl) || k < len(ol); k++ {
				a, b := "", ""
				if k < len(gl) {
					a = gl[k]
				}
				if k < len(ol) {
					b = ol[k]
				}
				if a != b {
					fmt.Printf("    line %d: goat %q | go %q\n", k+1, a, b)
				}
			}
		default:
			fmt.Printf("%-28s same (%s)\n", name, st)
		}
	}
	return nil
}
