module goath

go 1.20

require github.com/philhassey/goatlang v0.0.0

require golang.org/x/exp v0.0.0-20230224173230-c95f2b4c22f2 // indirect

replace github.com/philhassey/goatlang => /repo
