package main

// The Go toolchain as oracle: generated programs are compiled offline with GOARCH=386, where
// Go's `int` and `uint` are 32 bits wide - exactly goatlang's reading of them - and run as one
// batch binary. Each program is a set of package-level declarations with a `func main()`.
// `println`/`print` are redirected to a buffer through fmt (goatlang's println prints its
// operands with %v separated by one space, like fmt.Println).

import (
	"bytes"

	"fmt"
	goat "github.com/philhassey/goatlang"
	"os"
	"os/exec"
	"path/filepath"
	"regexp"
	"strconv"
	"strings"
	"time"
)

type GoProg struct {
	Imports []string
	Src     string
}

type GoResult struct {
	Status string // ok | panic | compile-error | timeout
	Out    string
}

var pkgErrRe = regexp.MustCompile(`(?m)^(?:\./)?(p\d+)/p\.go:`)

func GoBatch(progs []GoProg) ([]GoResult, error) {
	res := make([]GoResult, len(progs))
	dir, err := os.MkdirTemp("", "goatbatch")
	if err != nil {
		return nil, err
	}
	defer os.RemoveAll(dir)
	if err := os.WriteFile(filepath.Join(dir, "go.mod"), []byte("module gobatch\n\ngo 1.20\n"), 0o644); err != nil {
		return nil, err
	}
	skip := map[int]bool{}
	for i, p := range progs {
		d := filepath.Join(dir, fmt.Sprintf("p%04d", i))
		os.MkdirAll(d, 0o755)
		var sb strings.Builder
		fmt.Fprintf(&sb, "package p%04d\n\nimport (\n\t\"fmt\"\n\t\"io\"\n", i)
		for _, im := range p.Imports {
			if im != "fmt" && im != "io" {
				fmt.Fprintf(&sb, "\t%q\n", im)
			}
		}
		sb.WriteString(")\n\nvar w__ io.Writer\n\nfunc println(a ...any) { fmt.Fprintln(w__, a...) }\n\n")
		src := strings.Replace(p.Src, "func main()", "func Main__()", 1)
		// the program's own fmt output goes to the capture buffer as well
		src = strings.ReplaceAll(src, "fmt.Println(", "fmt.Fprintln(w__, ")
		src = strings.ReplaceAll(src, "fmt.Print(", "fmt.Fprint(w__, ")
		src = strings.ReplaceAll(src, "fmt.Printf(", "fmt.Fprintf(w__, ")
		sb.WriteString(src)
		sb.WriteString("\n\nfunc Run(out io.Writer) (res string) {\n\tw__ = out\n\tdefer func() {\n\t\tif r := recover(); r != nil {\n\t\t\tres = \"panic\"\n\t\t}\n\t}()\n\tMain__()\n\treturn \"ok\"\n}\n")
		if err := os.WriteFile(filepath.Join(d, "p.go"), []byte(sb.String()), 0o644); err != nil {
			return nil, err
		}
	}
	env := append(os.Environ(), "GOARCH=386", "GOFLAGS=-mod=mod", "GOPROXY=off", "GOSUMDB=off", "GOTOOLCHAIN=local", "CGO_ENABLED=0")
	for attempt := 0; attempt < 6; attempt++ {
		var mb strings.Builder
		mb.WriteString("package main\n\nimport (\n\t\"bytes\"\n\t\"fmt\"\n\t\"os\"\n")
		n := 0
		for i := range progs {
			if !skip[i] {
				fmt.Fprintf(&mb, "\t\"gobatch/p%04d\"\n", i)
				n++
			}
		}
		mb.WriteString(")\n\nfunc main() {\n\tvar b bytes.Buffer\n\tvar r string\n\t_ = r\n")
		for i := range progs {
			if !skip[i] {
				fmt.Fprintf(&mb, "\tb.Reset()\n\tr = p%04d.Run(&b)\n\tfmt.Printf(\"#%d %%s %%d\\n\", r, b.Len())\n\tos.Stdout.Write(b.Bytes())\n", i, i)
			}
		}
		mb.WriteString("}\n")
		if err := os.WriteFile(filepath.Join(dir, "main.go"), []byte(mb.String()), 0o644); err != nil {
			return nil, err
		}
		if n == 0 {
			break
		}
		cmd := exec.Command("go", "build", "-o", "batch", ".")
		cmd.Dir = dir
		cmd.Env = env
		out, err := cmd.CombinedOutput()
		if err == nil {
			break
		}
		ms := pkgErrRe.FindAllStringSubmatch(string(out), -1)
		if len(ms) == 0 {
			return nil, fmt.Errorf("go build failed: %v\n%s", err, out)
		}
		for _, m := range ms {
			i, _ := strconv.Atoi(m[1][1:])
			if !skip[i] {
				skip[i] = true
				// keep the first error line for this package
				msg := ""
				for _, l := range strings.Split(string(out), "\n") {
					if strings.Contains(l, m[1]+"/p.go:") {
						msg = l
						break
					}
				}
				res[i] = GoResult{Status: "compile-error", Out: msg}
			}
		}
		if attempt == 5 {
			return nil, fmt.Errorf("go build keeps failing:\n%s", out)
		}
	}
	if _, err := os.Stat(filepath.Join(dir, "batch")); err != nil {
		return res, nil
	}
	cmd := exec.Command(filepath.Join(dir, "batch"))
	var stdout bytes.Buffer
	cmd.Stdout = &stdout
	if err := cmd.Start(); err != nil {
		return nil, err
	}
	done := make(chan error, 1)
	go func() { done <- cmd.Wait() }()
	select {
	case <-done:
	case <-time.After(180 * time.Second):
		cmd.Process.Kill()
		<-done
	}
	data := stdout.Bytes()
	for len(data) > 0 {
		nl := bytes.IndexByte(data, '\n')
		if nl < 0 || data[0] != '#' {
			break
		}
		f := strings.Fields(string(data[1:nl]))
		if len(f) != 3 {
			break
		}
		i, _ := strconv.Atoi(f[0])
		ln, _ := strconv.Atoi(f[2])
		data = data[nl+1:]
		if ln > len(data) {
			ln = len(data)
		}
		res[i] = GoResult{Status: f[1], Out: string(data[:ln])}
		data = data[ln:]
	}
	lost := 0
	for i := range res {
		if res[i].Status == "" {
			res[i].Status = "timeout"
			lost++
		}
	}
	if lost > 3 && lost*10 > len(res) {
		return nil, fmt.Errorf("Go toolchain oracle produced no result for %d of %d programs (a program wrote to stdout directly, crashed the batch or looped)", lost, len(res))
	}
	return res, nil
}

// RunGoat evaluates the same program text with goatlang (declarations, then main()).
func RunGoat(p GoProg) (status, out string) {
	var sb strings.Builder
	for _, im := range p.Imports {
		fmt.Fprintf(&sb, "import %q\n", im)
	}
	sb.WriteString(p.Src)
	sb.WriteString("\nmain()\n")
	goat.VerifSetBudget(5000000)
	o, err := runScript(sb.String())
	goat.VerifSetBudget(-1)
	if err != nil && strings.Contains(err.Error(), "budget exhausted") {
		return "budget", o
	}
	if err != nil {
		if strings.Contains(err.Error(), "PANIC") {
			return "escaped", o + err.Error()
		}
		if strings.Contains(err.Error(), "error in run") {
			return "panic", o
		}
		return "compile-error", o + err.Error()
	}
	return "ok", o
}
