package main

import (
	"bufio"
	"encoding/json"
	"fmt"
	"io"
	"os"
	"os/exec"
	"sort"
	"strings"
)

// ---------------------------------------------------------------- PRNG (splitmix64)

type RNG struct{ s uint64 }

func NewRNG(seed uint64) *RNG { return &RNG{s: seed*0x9E3779B97F4A7C15 + 0x1234567} }
func (r *RNG) U64() uint64 {
	r.s += 0x9E3779B97F4A7C15
	z := r.s
	z = (z ^ (z >> 30)) * 0xBF58476D1CE4E5B9
	z = (z ^ (z >> 27)) * 0x94D049BB133111EB
	return z ^ (z >> 31)
}
func (r *RNG) Intn(n int) int {
	if n <= 0 {
		return 0
	}
	return int(r.U64() % uint64(n))
}
func (r *RNG) Bool() bool            { return r.U64()&1 == 1 }
func (r *RNG) Chance(p float64) bool { return float64(r.U64()%1000000)/1000000 < p }
func Pick[T any](r *RNG, xs []T) T   { return xs[r.Intn(len(xs))] }

// ---------------------------------------------------------------- model process

type Model struct {
	cmd *exec.Cmd
	in  io.WriteCloser
	out *bufio.Reader
	N   int
}

func StartModel(path string) (*Model, error) {
	if path == "" {
		return nil, nil
	}
	cmd := exec.Command(path)
	in, err := cmd.StdinPipe()
	if err != nil {
		return nil, err
	}
	out, err := cmd.StdoutPipe()
	if err != nil {
		return nil, err
	}
	cmd.Stderr = os.Stderr
	if err := cmd.Start(); err != nil {
		return nil, err
	}
	return &Model{cmd: cmd, in: in, out: bufio.NewReaderSize(out, 1<<20)}, nil
}

// AskAll sends every line and reads one answer per line.
func (m *Model) AskAll(lines []string) ([]string, error) {
	res := make([]string, 0, len(lines))
	errc := make(chan error, 1)
	go func() {
		w := bufio.NewWriterSize(m.in, 1<<20)
		for _, l := range lines {
			if strings.ContainsAny(l, "\n\r") {
				errc <- fmt.Errorf("newline in protocol line %q", l)
				return
			}
			w.WriteString(l)
			w.WriteByte('\n')
		}
		errc <- w.Flush()
	}()
	for range lines {
		s, err := m.out.ReadString('\n')
		if err != nil {
			return res, fmt.Errorf("model died after %d answers: %v", len(res), err)
		}
		res = append(res, strings.TrimRight(s, " \n"))
	}
	m.N += len(lines)
	return res, <-errc
}

func (m *Model) Ask(line string) (string, error) {
	r, err := m.AskAll([]string{line})
	if err != nil {
		return "", err
	}
	return r[0], nil
}

func (m *Model) Close() {
	if m == nil {
		return
	}
	m.in.Close()
	m.cmd.Wait()
}

// ---------------------------------------------------------------- report

type Violation struct {
	Kind   string `json:"kind"` // correspondence | oracle | crash
	Cut    string `json:"cut"`  // which cut point / sweep
	Input  any    `json:"input"`
	Impl   string `json:"impl"`
	Model  string `json:"model,omitempty"`
	Oracle string `json:"oracle,omitempty"`
	Note   string `json:"note,omitempty"`
}

type Report struct {
	Property    string         `json:"property"`
	Tier        string         `json:"tier"`
	Seed        uint64         `json:"seed"`
	Evaluations int            `json:"evaluations"`
	Distinct    int            `json:"distinct_nontrivial"`
	Rule        string         `json:"rule"`
	Samples     []any          `json:"samples"`
	Corr        map[string]int `json:"correspondence"` // per cut point: cases compared impl vs model
	Oracle      map[string]int `json:"oracle"`         // per sweep: cases compared impl vs Go truth
	Dist        map[string]int `json:"distribution"`
	Exhaustive  bool           `json:"exhaustive,omitempty"`
	Violations  []Violation    `json:"violations"`
	Known       []string       `json:"known_findings_hit"`
	ModelUsed   bool           `json:"model_used"`
	Notes       []string       `json:"notes,omitempty"`

	distinct map[string]bool
}

func NewReport(prop, tier string, seed uint64) *Report {
	return &Report{Property: prop, Tier: tier, Seed: seed, Corr: map[string]int{}, Oracle: map[string]int{}, Dist: map[string]int{}, distinct: map[string]bool{}}
}

func (r *Report) Count(key string) { r.Dist[key]++ }
func (r *Report) Seen(key string, nontrivial bool) {
	r.Evaluations++
	if nontrivial && !r.distinct[key] {
		r.distinct[key] = true
	}
}
func (r *Report) Sample(x any) {
	if len(r.Samples) < 12 {
		r.Samples = append(r.Samples, x)
	}
}
func (r *Report) Violate(v Violation) {
	// a replay keeps the whole input; very long outputs are cut to a window around the first difference
	const keep = 1 << 16
	if len(v.Impl) > keep || len(v.Oracle) > keep {
		d := 0
		for d < len(v.Impl) && d < len(v.Oracle) && v.Impl[d] == v.Oracle[d] {
			d++
		}
		win := func(s string) string {
			lo, hi := d-keep/2, d+keep/2
			if lo < 0 {
				lo = 0
			}
			if hi > len(s) {
				hi = len(s)
			}
			if lo > hi {
				lo = hi
			}
			return fmt.Sprintf("[%d bytes, first difference at %d, showing %d..%d]\n%s", len(s), d, lo, hi, s[lo:hi])
		}
		v.Impl, v.Oracle = win(v.Impl), win(v.Oracle)
	}
	if len(r.Violations) < 50 {
		r.Violations = append(r.Violations, v)
	}
}
func (r *Report) Write(path string) error {
	r.Distinct = len(r.distinct)
	if r.Samples == nil {
		r.Samples = []any{}
	}
	if r.Violations == nil {
		r.Violations = []Violation{}
	}
	if r.Known == nil {
		r.Known = []string{}
	}
	b, err := json.MarshalIndent(r, "", " ")
	if err != nil {
		return err
	}
	return os.WriteFile(path, b, 0o644)
}

// ---------------------------------------------------------------- known findings

type Finding struct {
	Property string `json:"property"`
	ID       string `json:"id"`
	Status   string `json:"status"` // open | fixed
	Input    string `json:"input"`  // exact canonical input (open findings)
	What     string `json:"what"`
	Commit   string `json:"commit,omitempty"`
}

func LoadFindings(path, prop string) map[string]Finding {
	res := map[string]Finding{}
	b, err := os.ReadFile(path)
	if err != nil {
		return res
	}
	var all struct {
		Findings []Finding `json:"findings"`
	}
	if json.Unmarshal(b, &all) != nil {
		return res
	}
	for _, f := range all.Findings {
		if f.Property == prop && f.Status == "open" {
			res[f.Input] = f
		}
	}
	return res
}

func sortedKeys[V any](m map[string]V) []string {
	var ks []string
	for k := range m {
		ks = append(ks, k)
	}
	sort.Strings(ks)
	return ks
}

func min(a, b int) int {
	if a < b {
		return a
	}
	return b
}
