package main

import (
	"encoding/json"
	"flag"
	"fmt"
	"os"
)

type Ctx struct {
	Tier     string
	Seed     uint64
	Model    *Model
	Rep      *Report
	RNG      *RNG
	Findings map[string]Finding
	Replay   string
	Corpus   string
	OutPath  string
}

// Pending announces a case that could kill the process in a way no recover can catch (Go stack
// overflow); if the harness dies, ./check takes the announced case as the failing input.
func (c *Ctx) Pending(v any) {
	if c.OutPath == "" {
		return
	}
	b, _ := json.Marshal(v)
	os.WriteFile(c.OutPath+".pending", b, 0o644)
}

func (c *Ctx) PendingDone() {
	if c.OutPath != "" {
		os.Remove(c.OutPath + ".pending")
	}
}

func (c *Ctx) Thorough() bool { return c.Tier == "thorough" }

var checks = map[string]func(*Ctx) error{}

func main() {
	if len(os.Args) < 2 {
		fmt.Fprintln(os.Stderr, "usage: goath <check> [flags]")
		os.Exit(2)
	}
	name := os.Args[1]
	fs := flag.NewFlagSet(name, flag.ExitOnError)
	tier := fs.String("tier", "quick", "quick|thorough")
	seed := fs.Uint64("seed", 1, "PRNG seed")
	model := fs.String("model", "", "path to goatmodel (empty: no correspondence)")
	out := fs.String("out", "", "report path")
	findings := fs.String("findings", "", "known_findings.json")
	replay := fs.String("replay", "", "replay file")
	corpus := fs.String("corpus", "", "corpus directory")
	fs.Parse(os.Args[2:])
	f, ok := checks[name]
	if !ok {
		fmt.Fprintln(os.Stderr, "unknown check", name)
		os.Exit(2)
	}
	m, err := StartModel(*model)
	if err != nil {
		fmt.Fprintln(os.Stderr, "cannot start model:", err)
		os.Exit(2)
	}
	defer m.Close()
	ctx := &Ctx{Tier: *tier, Seed: *seed, Model: m, RNG: NewRNG(*seed), Replay: *replay, Corpus: *corpus, OutPath: *out}
	ctx.Rep = NewReport(name, *tier, *seed)
	ctx.Rep.ModelUsed = m != nil
	ctx.Findings = LoadFindings(*findings, name)
	if err := f(ctx); err != nil {
		fmt.Fprintln(os.Stderr, "check failed to run:", err)
		ctx.Rep.Notes = append(ctx.Rep.Notes, "harness error: "+err.Error())
		if *out != "" {
			ctx.Rep.Write(*out)
		}
		os.Exit(3)
	}
	if *out != "" {
		if err := ctx.Rep.Write(*out); err != nil {
			fmt.Fprintln(os.Stderr, err)
			os.Exit(3)
		}
	}
	if len(ctx.Rep.Violations) > 0 {
		os.Exit(1)
	}
}
