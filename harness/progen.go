package main

// progen: a type-directed generator of valid Go programs inside goatlang's supported subset.
// Every program is a set of package-level declarations plus `func main()`; it terminates (a global
// fuel counter bounds every loop), prints trace lines from every block, never divides by zero and
// never indexes out of range, so that the Go toolchain (GOARCH=386) is a total oracle for it.
// Map ranges only feed order-independent accumulations.

import (
	"fmt"
	"strings"
)

type pvar struct {
	name string
	typ  string // int bool string []int map[string]int *T
}

type PG struct {
	r       *RNG
	sb      strings.Builder
	scopes  [][]pvar
	label   int
	budget  int
	inLoop  int
	inFunc  bool // generating a helper that returns int
	nHelper int
	feat    map[string]bool // features used (for the evidence distribution)
}

func (g *PG) f(s string)           { g.feat[s] = true }
func (g *PG) w(f string, a ...any) { fmt.Fprintf(&g.sb, f, a...) }

func (g *PG) vars(typ string) []string {
	var out []string
	seen := map[string]bool{}
	for i := len(g.scopes) - 1; i >= 0; i-- {
		for _, v := range g.scopes[i] {
			if !seen[v.name] {
				seen[v.name] = true
				if v.typ == typ {
					out = append(out, v.name)
				}
			}
		}
	}
	return out
}

func (g *PG) declared(name string) bool {
	for _, v := range g.scopes[len(g.scopes)-1] {
		if v.name == name {
			return true
		}
	}
	return false
}

func (g *PG) fresh(prefix string) string {
	for i := 0; ; i++ {
		n := fmt.Sprintf("%s%d", prefix, i)
		ok := true
		for _, s := range g.scopes {
			for _, v := range s {
				if v.name == n {
					ok = false
				}
			}
		}
		if ok {
			return n
		}
	}
}

func (g *PG) declare(name, typ string) {
	g.scopes[len(g.scopes)-1] = append(g.scopes[len(g.scopes)-1], pvar{name, typ})
}

func (g *PG) intExpr(d int) string {
	r := g.r
	iv := g.vars("int")
	if d <= 0 || r.Chance(0.3) {
		if len(iv) > 0 && r.Chance(0.7) {
			return Pick(r, iv)
		}
		return fmt.Sprint(r.Intn(12))
	}
	switch k := r.Intn(17); {
	case k == 16:
		g.f("named-const")
		return Pick(r, []string{"KA", "KB", "KA + 1", "KB - KA", "KC", "KD*3", "blanks(2)", "cok(map[string]int{\"a\": 4})"})
	case k < 4:
		return g.intExpr(d-1) + Pick(r, []string{" + ", " - ", " * "}) + g.intExpr(d-1)
	case k == 4:
		return "(" + g.intExpr(d-1) + ")" + Pick(r, []string{" % ", " / "}) + fmt.Sprint(2+r.Intn(7))
	case k == 5:
		g.f("bitops")
		return "(" + g.intExpr(d-1) + ")" + Pick(r, []string{" & ", " | ", " ^ ", " << ", " >> "}) + fmt.Sprint(1+r.Intn(4))
	case k == 6:
		return "-(" + g.intExpr(d-1) + ")"
	case k == 7:
		if s := g.vars("[]int"); len(s) > 0 {
			g.f("slice-index")
			return fmt.Sprintf("%s[%d]", Pick(r, s), r.Intn(3))
		}
	case k == 8:
		if m := g.vars("map[string]int"); len(m) > 0 {
			g.f("map-index")
			return fmt.Sprintf("%s[%q]", Pick(r, m), Pick(r, []string{"a", "b", "zz"}))
		}
	case k == 9:
		if t := g.vars("*T"); len(t) > 0 {
			g.f("field")
			return Pick(r, t) + "." + Pick(r, []string{"A", "B"})
		}
	case k == 10:
		if t := g.vars("*T"); len(t) > 0 {
			g.f("method-call")
			if r.Bool() {
				g.f("variadic-method-call")
				return fmt.Sprintf("%s.Vsum(%s)", Pick(r, t), strings.Join([]string{g.intExpr(d - 1), g.intExpr(0), g.intExpr(0)}[:1+r.Intn(3)], ", "))
			}
			return fmt.Sprintf("%s.Sum(%s)", Pick(r, t), g.intExpr(d-1))
		}
	case k == 11:
		g.f("func-call")
		return fmt.Sprintf("add(%s, %s)", g.intExpr(d-1), g.intExpr(d-1))
	case k == 12:
		if s := g.vars("[]int"); len(s) > 0 {
			return "len(" + Pick(r, s) + ")"
		}
	case k == 13 && g.nHelper > 0 && !g.inFunc:
		g.f("helper-call")
		return fmt.Sprintf("h%d(%s)", r.Intn(g.nHelper), g.intExpr(d-1))
	case k == 14:
		if s := g.vars("string"); len(s) > 0 {
			g.f("string-len")
			return "len(" + Pick(r, s) + ")"
		}
	}
	if len(iv) > 0 {
		return Pick(r, iv) + " + " + fmt.Sprint(1+r.Intn(5))
	}
	return fmt.Sprint(r.Intn(9))
}

// strExpr: literals from a small pool (so that equal strings meet), variables, concatenations
func (g *PG) strExpr(d int) string {
	r := g.r
	pool := []string{"\"\"", "\"a\"", "\"ab\"", "\"b\"", "\"go\"", "\"m\""}
	sv := g.vars("string")
	switch {
	case d > 0 && r.Intn(4) == 0:
		g.f("string-concat")
		return g.strExpr(d-1) + " + " + g.strExpr(d-1)
	case len(sv) > 0 && r.Bool():
		return Pick(r, sv)
	}
	return Pick(r, pool)
}

func (g *PG) boolExpr(d int) string {
	r := g.r
	if d <= 0 || r.Chance(0.25) {
		if bv := g.vars("bool"); len(bv) > 0 && r.Bool() {
			return Pick(r, bv)
		}
		if r.Intn(8) == 0 {
			for _, t := range []string{"[]int", "map[string]int", "*T"} {
				if vs := g.vars(t); len(vs) > 0 {
					g.f("nil-compare")
					return Pick(r, []string{"%s == nil", "nil == %s", "%s != nil", "nil != %s"})[:0] + fmt.Sprintf(Pick(r, []string{"%s == nil", "nil == %s", "%s != nil", "nil != %s"}), Pick(r, vs))
				}
			}
		}
		if r.Intn(4) == 0 {
			g.f("string-compare")
			return g.strExpr(1) + Pick(r, []string{" < ", " > ", " == ", " != ", " <= ", " >= "}) + g.strExpr(1)
		}
		return g.intExpr(1) + Pick(r, []string{" < ", " > ", " == ", " != ", " <= ", " >= "}) + g.intExpr(1)
	}
	switch r.Intn(6) {
	case 0:
		g.f("and-or")
		return g.boolExpr(d-1) + " && " + g.boolExpr(d-1)
	case 1:
		g.f("and-or")
		return g.boolExpr(d-1) + " || " + g.boolExpr(d-1)
	case 2:
		return "!(" + g.boolExpr(d-1) + ")"
	case 3:
		g.f("func-call")
		return "isOdd(" + g.intExpr(d-1) + ")"
	}
	return g.intExpr(d-1) + Pick(r, []string{" < ", " > ", " == ", " != ", " <= ", " >= "}) + g.intExpr(d-1)
}

func (g *PG) trace() {
	g.label++
	args := []string{fmt.Sprintf("\"T%d\"", g.label)}
	for _, v := range g.vars("int") {
		args = append(args, v)
	}
	for _, v := range g.vars("bool") {
		args = append(args, v)
	}
	for _, v := range g.vars("string") {
		args = append(args, "\"[\"+"+v+"+\"]\"")
	}
	if len(args) > 7 {
		args = args[:7]
	}
	g.w("println(%s)\n", strings.Join(args, ", "))
	if g.r.Intn(4) == 0 && !g.inFunc {
		g.w("println(\"TF\", halfF(%s)/2, wrapB(%s)+10, halfF(1)/KB, wrapB(2)+KA*30, scaleP(3), scaleP(KA), fwd(%s, 2, 3))\n", g.intExpr(1), g.intExpr(1), g.intExpr(1))
		// two calls from the same stack height: the second frame starts where the first one was
		g.w("if true {\nsa := staleA()\nsb := staleB()\nsc := staleA()\nprintln(\"stale\", sa, sb, sc, staleB())\n}\n")
		g.f("typed-const-results")
	}
}

func (g *PG) block(depth int) {
	g.scopes = append(g.scopes, nil)
	n := 1 + g.r.Intn(4)
	for i := 0; i < n && g.budget > 0; i++ {
		g.budget--
		g.stmt(depth)
	}
	g.trace()
	g.scopes = g.scopes[:len(g.scopes)-1]
}

func (g *PG) stmt(depth int) {
	r := g.r
	k := r.Intn(100)
	if depth <= 0 && k >= 50 {
		k = r.Intn(50)
	}
	switch {
	case k < 10: // declaration
		switch r.Intn(8) {
		case 7:
			n := g.fresh("w")
			g.f("string-var")
			g.w("%s := %s\n_ = %s\n", n, g.strExpr(2), n)
			g.declare(n, "string")
		case 0, 1, 2:
			n := g.fresh("v")
			if r.Bool() {
				g.w("%s := %s\n_ = %s\n", n, g.intExpr(2), n)
			} else {
				g.w("var %s int = %s\n_ = %s\n", n, g.intExpr(2), n)
			}
			g.declare(n, "int")
		case 3:
			n := g.fresh("b")
			g.w("%s := %s\n_ = %s\n", n, g.boolExpr(2), n)
			g.declare(n, "bool")
		case 4:
			n := g.fresh("s")
			g.f("slice")
			switch r.Intn(4) {
			case 0: // elements given with their indices, in any order, with a gap
				g.f("slice-indexed-literal")
				g.w("%s := []int{2: %s, 0: %s}\n_ = %s\n", n, g.intExpr(1), g.intExpr(1), n)
			case 1:
				g.f("slice-indexed-literal")
				g.w("%s := []int{0: %s, 1: %s, 2: %s, 4: 9}\n_ = %s\n", n, g.intExpr(1), g.intExpr(1), g.intExpr(1), n)
			default:
				g.w("%s := []int{%s, %s, %s}\n_ = %s\n", n, g.intExpr(1), g.intExpr(1), g.intExpr(1), n)
			}
			g.declare(n, "[]int")
		case 5:
			n := g.fresh("m")
			g.f("map")
			g.w("%s := map[string]int{\"a\": %s, \"b\": %s}\n_ = %s\n", n, g.intExpr(1), g.intExpr(1), n)
			g.declare(n, "map[string]int")
		default:
			n := g.fresh("t")
			g.f("struct")
			g.w("%s := &T{A: %s, B: %s}\n_ = %s\n", n, g.intExpr(1), g.intExpr(1), n)
			g.declare(n, "*T")
		}
	case k < 30: // assignment forms
		iv := g.vars("int")
		switch c := r.Intn(10); {
		case c == 8 && len(iv) > 0 && len(g.vars("[]int")) > 0 && r.Bool(): // a target's index operand is another target
			g.f("multi-assign-dependent-targets")
			sv, v := Pick(r, g.vars("[]int")), Pick(r, iv)
			if r.Bool() {
				g.w("%s[(%s%%3+3)%%3], %s = %s, %s\n", sv, v, v, g.intExpr(1), g.intExpr(1))
			} else {
				g.w("%s, %s[(%s%%3+3)%%3] = %s, %s\n", v, sv, v, g.intExpr(1), g.intExpr(1))
			}
		case c == 8 && len(g.vars("*T")) > 0 && r.Bool():
			g.f("multi-assign-dependent-targets")
			tv := Pick(r, g.vars("*T"))
			// the instance the field store lands in stays observable through an alias
			old := g.fresh("o")
			g.w("%s := %s\n", old, tv)
			if r.Bool() {
				g.w("%s.A, %s = %s, &T{A: %s, B: 2}\n", tv, tv, g.intExpr(1), g.intExpr(1))
			} else {
				g.w("%s.B, %s.A, %s = %s, %s.B, &T{A: %s, B: 2}\n", tv, tv, tv, g.intExpr(1), tv, g.intExpr(1))
			}
			g.w("println(\"alias\", %s.A, %s.B, %s.A, %s.B)\n", old, old, tv, tv)
		case c == 9 && len(g.vars("string")) > 0:
			g.f("string-assign")
			if sv := Pick(r, g.vars("string")); r.Bool() {
				g.w("%s = %s\n", sv, g.strExpr(2))
			} else {
				g.w("if len(%s) < 12 {\n%s += %s\n}\n", sv, sv, g.strExpr(1))
			}
		case c < 3 && len(iv) > 0:
			g.w("%s = %s\n", Pick(r, iv), g.intExpr(2))
		case c == 3 && len(iv) > 0:
			g.f("op-assign")
			g.w("%s %s= %s\n", Pick(r, iv), Pick(r, []string{"+", "-", "*"}), g.intExpr(1))
		case c == 4 && len(iv) > 0:
			g.f("incdec")
			g.w("%s%s\n", Pick(r, iv), Pick(r, []string{"++", "--"}))
		case c == 5 && len(g.vars("[]int")) > 0:
			g.f("slice-store")
			s := Pick(r, g.vars("[]int"))
			switch r.Intn(4) {
			case 0:
				g.w("%s[%d] = %s\n", s, r.Intn(3), g.intExpr(2))
			case 1:
				g.w("%s[%d] += %s\n", s, r.Intn(3), g.intExpr(1))
			case 2: // the index expression has a visible side effect: it is evaluated once
				g.f("op-assign-call-index")
				g.w("%s[idx(%d)] %s= %s\n", s, r.Intn(9), Pick(r, []string{"+", "-", "*"}), g.intExpr(1))
			default:
				g.f("op-assign-call-index")
				g.w("%s[idx(%d)]%s\n", s, r.Intn(9), Pick(r, []string{"++", "--"}))
			}
		case c == 6 && len(g.vars("map[string]int")) > 0:
			g.f("map-store")
			m := Pick(r, g.vars("map[string]int"))
			switch r.Intn(3) {
			case 0:
				g.w("%s[%q] = %s\n", m, Pick(r, []string{"a", "b", "c"}), g.intExpr(2))
			case 1:
				g.w("%s[%q]++\n", m, Pick(r, []string{"a", "b"}))
			default:
				g.f("map-delete")
				g.w("delete(%s, %q)\nprintln(\"len\", len(%s))\n", m, Pick(r, []string{"a", "b", "c"}), m)
			}
		case c == 7 && len(g.vars("*T")) > 0:
			g.f("field-store")
			t := Pick(r, g.vars("*T"))
			switch r.Intn(3) {
			case 0:
				g.w("%s.A = %s\n", t, g.intExpr(2))
			case 1:
				g.w("%s.B += %s\n", t, g.intExpr(1))
			default:
				g.w("%s.Inc()\n", t)
			}
		case c == 8 && len(g.vars("[]int")) > 0:
			g.f("append")
			s := Pick(r, g.vars("[]int"))
			if r.Bool() { // a spread onto a nil slice: the new slice owns its elements whatever is pushed afterwards
				g.f("append-spread-onto-nil")
				nn := g.fresh("n")
				g.w("var %s []int\n%s = append(%s, %s...)\nprintln(\"sp\", %s[2]*3+%s[1]*2+%s[0], %s, len(%s))\n", nn, nn, nn, s, nn, nn, nn, g.intExpr(2), nn)
				g.declare(nn, "[]int")
				break
			}
			// bounded: an append inside a range over the same slice would otherwise double it per pass
			g.w("if len(%s) < 24 {\n%s = append(%s, %s)\n}\n", s, s, s, g.intExpr(1))
		default:
			g.trace()
		}
	case k < 34:
		g.trace()
	case k < 38: // multi-value forms, with blanks in every position
		g.f("multi-assign")
		a, b2, c := g.fresh("a"), g.fresh("q"), g.fresh("z")
		switch r.Intn(9) {
		case 0:
			g.w("%s, %s := pair2(%s, %s)\n_ = %s\n_ = %s\n", a, b2, g.intExpr(1), g.intExpr(1), a, b2)
			g.declare(a, "int")
			g.declare(b2, "int")
		case 1:
			g.w("%s, _ := pair2(%s, %s)\n_ = %s\n", a, g.intExpr(1), g.intExpr(1), a)
			g.declare(a, "int")
		case 2:
			g.w("_, %s := pair2(%s, %s)\n_ = %s\n", b2, g.intExpr(1), g.intExpr(1), b2)
			g.declare(b2, "int")
		case 3:
			g.w("%s, _, %s := tri(%s)\n_ = %s\n_ = %s\n", a, c, g.intExpr(1), a, c)
			g.declare(a, "int")
			g.declare(c, "int")
		case 4:
			g.w("_, %s, _ := tri(%s)\n_ = %s\n", b2, g.intExpr(1), b2)
			g.declare(b2, "int")
		case 5, 6, 7:
			if m := g.vars("map[string]int"); len(m) > 0 {
				g.f("comma-ok")
				key := Pick(r, []string{"a", "b", "zz"})
				switch r.Intn(3) {
				case 0:
					ok := g.fresh("ok")
					g.w("%s, %s := %s[%q]\n_ = %s\n_ = %s\n", a, ok, Pick(r, m), key, a, ok)
					g.declare(a, "int")
					g.declare(ok, "bool")
				case 1:
					g.w("%s, _ := %s[%q]\n_ = %s\n", a, Pick(r, m), key, a)
					g.declare(a, "int")
				default:
					ok := g.fresh("ok")
					g.w("_, %s := %s[%q]\n_ = %s\n", ok, Pick(r, m), key, ok)
					g.declare(ok, "bool")
				}
			} else {
				g.trace()
			}
		default:
			if iv := g.vars("int"); len(iv) >= 2 && r.Bool() {
				g.w("%s, %s = %s, %s\n", iv[0], iv[1], iv[1], iv[0])
			} else if len(iv) >= 1 { // a package-level variable and a local in one target list, either order
				g.f("multi-assign-global-and-local")
				if r.Bool() {
					g.w("gacc, %s = gacc+%s, %s\nprintln(\"gacc\", gacc)\n", iv[0], iv[0], g.intExpr(1))
				} else {
					g.w("%s, gacc = gacc+1, %s\nprintln(\"gacc\", gacc)\n", iv[0], iv[0])
				}
			} else {
				g.w("pair2(1, 2)\n")
			}
		}
	case k < 45 && g.inLoop > 0: // break / continue, guarded so that the loop still does something
		g.f("break-continue")
		g.w("if %s {\n%s\n}\n", g.boolExpr(1), Pick(r, []string{"break", "continue"}))
	case k < 50 && g.inFunc:
		g.f("early-return")
		g.w("if %s {\nreturn %s\n}\n", g.boolExpr(1), g.intExpr(1))
	case k < 50:
		g.trace()
	case k < 64: // if / else-if / else
		g.f("if")
		g.w("if %s {\n", g.boolExpr(2))
		g.block(depth - 1)
		for r.Chance(0.3) {
			g.f("else-if")
			g.w("} else if %s {\n", g.boolExpr(1))
			g.block(depth - 1)
		}
		if r.Bool() {
			g.w("} else {\n")
			g.block(depth - 1)
		}
		g.w("}\n")
	case k < 76: // for loops
		g.scopes = append(g.scopes, nil)
		g.inLoop++
		switch r.Intn(3) {
		case 0:
			g.f("for-3")
			i := g.fresh("i")
			g.w("for %s := 0; %s < %d && fuel > 0; %s++ {\nfuel--\n", i, i, 1+r.Intn(4), i)
			g.declare(i, "int")
		case 1:
			g.f("for-cond")
			g.w("for (%s) && fuel > 0 {\nfuel--\n", g.boolExpr(1))
		default:
			g.f("for-ever")
			g.w("for {\nfuel--\nif fuel <= 0 {\nbreak\n}\n")
		}
		g.block(depth - 1)
		g.w("}\n")
		g.inLoop--
		g.scopes = g.scopes[:len(g.scopes)-1]
	case k < 84: // range
		g.scopes = append(g.scopes, nil)
		g.inLoop++
		switch {
		case r.Intn(6) == 0: // a nil slice / nil map: the loop body never runs, nothing but the loop's own slots is touched
			g.f("range-nil")
			nn, kk, vv := g.fresh("z"), g.fresh("k"), g.fresh("e")
			if r.Bool() {
				g.w("var %s []int\n", nn)
			} else {
				g.w("var %s map[string]int\n", nn)
			}
			g.w("switch %s {\ncase nil:\nprintln(\"nil-case\", nil == %s)\ndefault:\nprintln(\"non-nil\")\n}\n", nn, nn)
			g.w("for %s, %s := range %s {\nprintln(\"never\", %s, %s)\n}\n", kk, vv, nn, kk, vv)
		case len(g.vars("[]int")) > 0 && r.Chance(0.6):
			g.f("range-slice")
			kk, vv := g.fresh("k"), g.fresh("e")
			sl := Pick(r, g.vars("[]int"))
			switch r.Intn(6) { // a loop variable may be named like the operand: the operand is evaluated before it exists
			case 0:
				vv = sl
				g.f("range-variable-named-like-operand")
			case 1:
				kk = sl
				g.f("range-variable-named-like-operand")
			}
			g.w("for %s, %s := range %s {\n_ = %s\n_ = %s\nprintln(\"rv\", %s, %s)\n", kk, vv, sl, kk, vv, kk, vv)
			g.declare(kk, "int")
			g.declare(vv, "int")
			g.block(depth - 1)
			g.w("}\n")
		case len(g.vars("map[string]int")) > 0 && len(g.vars("int")) > 0:
			g.f("range-map")
			acc := Pick(r, g.vars("int"))
			if m := Pick(r, g.vars("map[string]int")); r.Bool() {
				g.w("for _, e := range %s {\n%s += e\n}\n", m, acc)
			} else { // the body deletes and re-inserts one key; every other key is still produced exactly once
				g.f("range-map-churn")
				t := Pick(r, []string{"a", "b", "c", "t"})
				g.w("for k, e := range %s {\ndelete(%s, %q)\n%s[%q] = 1\nif k != %q {\n%s += e\n}\n}\nprintln(\"churn\", %s, len(%s))\n", m, m, t, m, t, t, acc, acc, m)
			}
		default:
			g.f("range-string")
			kk, vv := g.fresh("k"), g.fresh("c")
			g.w("for %s, %s := range %q {\n_ = %s\n_ = %s\n", kk, vv, Pick(r, []string{"ab", "héy", "x"}), kk, vv)
			g.declare(kk, "int")
			g.declare(vv, "rune")
			g.block(depth - 1)
			g.w("}\n")
		}
		g.inLoop--
		g.scopes = g.scopes[:len(g.scopes)-1]
	default: // switch
		tagged := r.Bool()
		if tagged {
			g.f("switch-tagged")
			g.w("switch %s {\n", g.intExpr(1))
		} else {
			g.f("switch-tagless")
			g.w("switch {\n")
		}
		nc := 1 + r.Intn(3)
		defAt := -1
		if r.Chance(0.6) {
			defAt = r.Intn(nc + 1)
		}
		used := map[int]bool{}
		for c := 0; c <= nc; c++ {
			if c == defAt {
				g.w("default:\n")
				g.block(depth - 1)
				if g.inLoop > 0 && r.Chance(0.2) {
					g.f("break-in-switch")
					g.w("break\n")
				}
			}
			if c == nc {
				break
			}
			if tagged {
				// constants must be distinct across the clauses (duplicate constants are a Go compile error)
				var vals []string
				for len(vals) < 1+r.Intn(2) {
					v := r.Intn(12)
					if !used[v] {
						used[v] = true
						vals = append(vals, fmt.Sprint(v))
					}
				}
				if r.Chance(0.4) {
					g.f("case-expr-list")
					vals = append(vals, g.intExpr(1)+" + 100")
				}
				g.w("case %s:\n", strings.Join(vals, ", "))
			} else {
				conds := []string{g.boolExpr(1)}
				if r.Chance(0.3) {
					g.f("case-expr-list")
					conds = append(conds, g.boolExpr(1))
				}
				g.w("case %s:\n", strings.Join(conds, ", "))
			}
			g.block(depth - 1)
			if r.Chance(0.15) {
				g.f("break-in-switch")
				g.w("break\n")
			}
		}
		g.w("}\n")
	}
}

// prelude writes the declarations every generated program starts with (constants, the struct type T with its
// methods, helper functions of the shapes that once showed a defect); the expression and trace generators use them
func (g *PG) prelude() {
	g.w("const KA = 7\n\nconst KB = KA*2 + 1\n\nconst (\n\t_ = iota\n\tKC\n\tKD\n)\n\nfunc blanks(n int) int {\n\tconst (\n\t\t_ = iota * 10\n\t\tk1\n\t\t_\n\t\tk3\n\t)\n\tconst _ = 7\n\treturn n*k3 + k1\n}\n\nfunc cok(m map[string]int) int {\n\tv, _ := m[\"a\"]\n\t_, ok := m[\"zz\"]\n\tif ok {\n\t\treturn -1\n\t}\n\treturn v\n}\n\nfunc idx(k int) int {\n\tprintln(\"idx\", k)\n\treturn k %% 3\n}\n\nvar fuel = 80\n\nvar gacc = 0\n\ntype T struct {\n\tA int\n\tB int\n}\n\nfunc (t *T) Sum(k int) int {\n\treturn t.A + t.B*k\n}\n\nfunc (t *T) Inc() {\n\tt.A++\n\tt.B += 2\n}\n\nfunc (t *T) Vsum(k int, xs ...int) int {\n\ts := t.A * k\n\tfor _, x := range xs {\n\t\ts += x\n\t}\n\treturn s + len(xs)\n}\n\n")
	g.w("func add(a int, b int) int {\n\treturn a + b\n}\n\nfunc isOdd(a int) bool {\n\treturn a%%2 != 0\n}\n\n")
	g.w("func pair2(a int, b int) (int, int) {\n\treturn b, a + 1\n}\n\nfunc tri(a int) (int, int, int) {\n\treturn a, a + 1, a + 2\n}\n\n")
	// results of other types than the parameters, returned as untyped constants: they take the result type
	g.w("func halfF(n int) float64 {\n\tif n > 100000 {\n\t\treturn 3\n\t}\n\treturn 1\n}\n\nfunc wrapB(n int) byte {\n\treturn 250\n}\n\nfunc (t *T) Ratio() float64 {\n\treturn 3\n}\n\n")
	// a parameter of another type than the untyped constant argument, in a function with locals of its own; a result that is one spread call
	g.w("func scaleP(x float64) float64 {\n\ty := x / 2\n\tz := y\n\treturn z\n}\n\nfunc staleA() float64 {\n\ta := 1.5\n\tvar b byte = 9\n\tc := a * 2\n\tvar d uint32 = 7\n\treturn c + float64(b) + float64(d)\n}\n\nfunc staleB() int {\n\th := 7\n\tw := 300\n\tk := h / 2\n\tm := 5\n\treturn k + w + m/2\n}\n\nfunc sumv(xs ...int) int {\n\ts := 0\n\tfor _, x := range xs {\n\t\ts += x\n\t}\n\treturn s\n}\n\nfunc fwd(xs ...int) int {\n\treturn sumv(xs...)\n}\n\n")
}

// GenProgram returns a program and the set of features it uses.
func GenProgram(r *RNG, depth int) (GoProg, map[string]bool) {
	g := &PG{r: r, budget: 45, feat: map[string]bool{}}
	g.prelude()
	nh := r.Intn(3)
	for h := 0; h < nh; h++ {
		g.w("func h%d(p int) int {\n", h)
		g.scopes = [][]pvar{{{"p", "int"}}}
		g.inFunc = true
		g.nHelper = h // may call earlier helpers only (no recursion)
		g.block(depth - 1)
		g.w("return %s\n}\n\n", g.intExpr(2))
		g.inFunc = false
	}
	g.nHelper = nh
	g.w("func main() {\n")
	g.scopes = [][]pvar{nil}
	g.block(depth)
	g.w("}\n")
	return GoProg{Src: g.sb.String()}, g.feat
}
