-- Root of the `Goat` library: everything the checks build.
import Goat.Gen.Types
import Goat.Gen.Tables
import Goat.Model.Pratt
import Goat.Model.PrattGen
import Goat.Spec.GoPrec
import Goat.Lemmas.Pratt
import Goat.Props.C05
import Goat.Model.Num
import Goat.Props.C04
import Goat.Model.OMap
import Goat.Lemmas.OMap
import Goat.Props.C10
import Goat.Model.Load
import Goat.Props.C15
import Goat.Model.TreeSort
import Goat.Props.C16
