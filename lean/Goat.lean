-- Root of the `Goat` library.
import Goat.Gen.Types
import Goat.Gen.Tables
