import Goat.Model.Backtrace
/-! line protocol: `bt <tree>` — `o<p>` operation, `f<p>` fault, `c<site> ( … )` call;
    `bt pos <file idx> <func idx> <line> <column>` — the fields read back from the position word. -/
namespace Goat.Driver
open Goat.Backtrace

partial def parseNodes : List String → Option (Nodes × List String)
  | [] => some (.nil, [])
  | ")" :: rest => some (.nil, ")" :: rest)
  | tok :: rest =>
    match tok.toList with
    | 'o' :: ds => do
      let p ← (String.ofList ds).toNat?
      let (ns, r) ← parseNodes rest
      pure (.cons (.op p) ns, r)
    | 'f' :: ds => do
      let p ← (String.ofList ds).toNat?
      let (ns, r) ← parseNodes rest
      pure (.cons (.fault p) ns, r)
    | 'c' :: ds => do
      let p ← (String.ofList ds).toNat?
      match rest with
      | "(" :: r1 => do
        let (body, r2) ← parseNodes r1
        match r2 with
        | ")" :: r3 => do
          let (ns, r4) ← parseNodes r3
          pure (.cons (.call p body) ns, r4)
        | _ => none
      | _ => none
    | _ => none

def btCmd (args : List String) : String :=
  match args with
  | ["pos", fi, gi, line, col] =>
    match fi.toNat?, gi.toNat?, line.toNat?, col.toNat? with
    | some fi, some gi, some line, some col =>
      let (a, b, c, d) := posInfo (newPos fi gi line col)
      s!"{a} {b} {c} {d}"
    | _, _, _, _ => "bad-op"
  | _ =>
  match parseNodes args with
  | some (prog, []) =>
    match execs [] prog with
    | .error r => s!"at={r.at_} chain=" ++ ",".intercalate (r.chain.map toString)
    | .ok _ => "none"
  | _ => "bad-op"

end Goat.Driver
