import Goat.Model.Backtrace
/-! line protocol: `bt <tree>` — `o<p>` operation, `f<p>` fault, `c<site> ( … )` call. -/
namespace Goat.Driver
open Goat.Backtrace

partial def parseNodes : List String → Option (Nodes × List String)
  | [] => some (.nil, [])
  | ")" :: rest => some (.nil, ")" :: rest)
  | tok :: rest =>
    match tok.toList with
    | 'o' :: ds => do
      let p ← (String.ofList ds).toNat?
      let (ns, r) ← parseNodes rest
      pure (.cons (.op p) ns, r)
    | 'f' :: ds => do
      let p ← (String.ofList ds).toNat?
      let (ns, r) ← parseNodes rest
      pure (.cons (.fault p) ns, r)
    | 'c' :: ds => do
      let p ← (String.ofList ds).toNat?
      match rest with
      | "(" :: r1 => do
        let (body, r2) ← parseNodes r1
        match r2 with
        | ")" :: r3 => do
          let (ns, r4) ← parseNodes r3
          pure (.cons (.call p body) ns, r4)
        | _ => none
      | _ => none
    | _ => none

def btCmd (args : List String) : String :=
  match parseNodes args with
  | some (prog, []) =>
    match execs [] prog with
    | .error r => s!"at={r.at_} chain=" ++ ",".intercalate (r.chain.map toString)
    | .ok _ => "none"
  | _ => "bad-op"

end Goat.Driver
