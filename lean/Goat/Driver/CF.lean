import Goat.Model.CF
import Goat.Driver.Opt
/-! line protocol: `cf <opt|noopt|optleaves> <stmt tokens…> | a<n>=<instrs,…> … c<n>=<instrs,…> …`
    statement tokens (prefix): `act n`, `seq`, `ite c`, `ift c`, `loop c p`, `forever p`, `brk`, `cont`, `swc c` (clause, then the rest of the switch), `swd` (default), `ret n` (return after leaf n), `rng r kv it` (range over the item leaf `it`, slots as in the real code);
    answer: the assembled function body `rw 0 0 (compile L s)` (then the peephole passes when `opt`). -/
namespace Goat.Driver
open Goat.CF Goat.Peephole

partial def parseStmt : List String → Option (Stmt × List String)
  | "act" :: n :: r => n.toNat?.map fun n => (.act n, r)
  | "brk" :: r => some (.brk, r)
  | "cont" :: r => some (.cont, r)
  | "swc" :: c :: r => do
    let c ← c.toNat?
    let (a, r) ← parseStmt r
    let (rest, r) ← parseStmt r
    some (.swc c a rest, r)
  | "ret" :: n :: r => n.toNat?.map fun n => (.ret n, r)
  | "swd" :: r => do
    let (d, r) ← parseStmt r
    some (.swd d, r)
  | "seq" :: r => do
    let (a, r) ← parseStmt r
    let (b, r) ← parseStmt r
    some (.seq a b, r)
  | "ite" :: c :: r => do
    let c ← c.toNat?
    let (a, r) ← parseStmt r
    let (b, r) ← parseStmt r
    some (.ite c a b, r)
  | "ift" :: c :: r => do
    let c ← c.toNat?
    let (a, r) ← parseStmt r
    some (.ift c a, r)
  | "loop" :: c :: p :: r => do
    let c ← c.toNat?
    let p ← p.toNat?
    let (b, r) ← parseStmt r
    some (.loop c b p, r)
  | "rng" :: rr :: kv :: it :: r => do
    let rr ← rr.toInt?
    let kv ← kv.toInt?
    let it ← it.toNat?
    let (b, r) ← parseStmt r
    some (.rng rr kv it b, r)
  | "forever" :: p :: r => do
    let p ← p.toNat?
    let (b, r) ← parseStmt r
    some (.forever b p, r)
  | _ => none

def leafTable (ws : List String) : Option (List (String × List Instr)) :=
  ws.mapM fun w =>
    match w.splitOn "=" with
    | [k, v] => ((v.splitOn ",").filter (· ≠ "")).mapM instrOf |>.map fun l => (k, l)
    | _ => none

def cfCmd (args : List String) : String :=
  match args with
  | mode :: rest =>
    let (stmtToks, leafToks) := rest.span (· ≠ "|")
    match parseStmt stmtToks, leafTable (leafToks.drop 1) with
    | some (s, []), some tbl =>
      let L : Leaves :=
        { act := fun n => (tbl.lookup s!"a{n}").getD [],
          cnd := fun c => (tbl.lookup s!"c{c}").getD [] }
      -- `optleaves`: the object of C02.opt_transparent - the program assembled from the peephole-optimized
      -- leaves, nothing else optimized (the leaf table then holds the UNoptimized leaf codes)
      let code := if mode == "optleaves" then rw 0 0 (compile (optLeaves L) s) else rw 0 0 (compile L s)
      let code := if mode == "opt" then optimize code else code
      -- the enclosing blocks' passes find nothing left to fuse in such code (C02.opt_stable) except a
      -- placeholder rewritten to JUMP 0 afterwards, which the last pass turns into PASS (rule sound_jump0)
      let code := if mode == "optleaves" then
          code.map fun i => if i.op == "JUMP" && i.a == 0 then { i with op := "PASS" } else i
        else code
      " ".intercalate (code.map fun i => s!"{i.op}:{i.a}:{i.b}:{i.c}")
    | _, _ => "bad-op"
  | _ => "bad-op"

end Goat.Driver
