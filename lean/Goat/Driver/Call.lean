import Goat.Model.Call
/-! line protocol: `call k=v …` with keys args rets variadic slots xargs xrets results=<ints,> stack=<ints,>;
    the body appends `results` to its frame. Answer: the final stack (ints, a packed slice as `[a;b]`) or `err`. -/
namespace Goat.Driver
open Goat.Call

/-- stack values: an integer or a packed variadic slice -/
inductive CV where
  | i (n : Int)
  | sl (l : List CV)

partial def CV.show : CV → String
  | .i n => toString n
  | .sl l => "[" ++ ";".intercalate (l.map CV.show) ++ "]"

def ints (s : String) : List Int := ((s.splitOn ",").filter (· ≠ "")).filterMap String.toInt?

def callCmd (args : List String) : String :=
  let kv := args.filterMap fun w => match w.splitOn "=" with
    | [k, v] => some (k, v) | _ => none
  let get (k : String) : String := (kv.lookup k).getD ""
  let nat (k : String) : Nat := (get k).toNat?.getD 0
  let results := (ints (get "results")).map CV.i
  let fn : Fn CV :=
    { args := nat "args", rets := nat "rets", variadic := nat "variadic" == 1, slots := nat "slots",
      argConv := fun _ v => v, retConv := fun _ v => v,
      run := fun _ s => some (s ++ results) }
  let stack := (ints (get "stack")).map CV.i
  match call (.i 0) CV.sl fn (nat "xargs") (nat "xrets") stack with
  | some s => "ok " ++ " ".intercalate (s.map CV.show)
  | none => "err"

end Goat.Driver
