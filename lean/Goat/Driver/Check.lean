import Goat.Model.Check
import Goat.Driver.Opt
/-! line protocol: `verify <strict|lenient> <slots> <OP:a:b:c:pos>…` → `ok` | `reject …`;
    `effect <OP:a:b:c:pos>` → `<pops> <pushes on fallthrough>` | `none` -/
namespace Goat.Driver
open Goat.Check Goat.Peephole

def verifyCmd (args : List String) : String :=
  match args with
  | mode :: slots :: rest =>
    match slots.toNat?, rest.mapM instrOf with
    | some n, some c =>
      match verifyAll 64 c n (mode == "strict") with
      | [] => "ok"
      | errs => "reject " ++ "; ".intercalate (errs.take 2)
    | _, _ => "bad-op"
  | _ => "bad-op"

def effectCmd (args : List String) : String :=
  match args.mapM instrOf with
  | some [i] =>
    match effect i with
    | some e => match e.succs with
      | (_, p) :: _ => s!"{e.pops} {p}"
      | [] => s!"{e.pops} end"
    | none => "none"
  | _ => "bad-op"

end Goat.Driver
