import Goat.Model.Host
/-! line protocol: `host <form> <argc> <xArgs> <xRets> <nres|panic> <stack…>` — the native's body
    returns `nres` results, result j being (j+1)*100000 + Σ (i+1)*arg_i over the arguments it
    received (so order and count are visible); stack items are ints. `hostfunc …` is the same
    through `VM.Func` (fresh stack of just the parameters). -/
namespace Goat.Driver
open Goat.Host

inductive HV
  | n (i : Int)
  | sl (l : List Int)

def HV.toInt : HV → Int
  | .n i => i
  | .sl l => l.foldl (· + ·) 0

def weigh (args : List HV) : Int :=
  (args.zipIdx.map fun (a, i) => ((i : Int) + 1) * a.toInt).foldl (· + ·) 0

def mkNative (form : Form) (argc : Nat) (nres : Option Nat) : Native HV :=
  { form := form, argc := argc,
    body := fun args => nres.map fun k => (List.range k).map fun (j : Nat) => HV.n (((j : Int) + 1) * 100000 + weigh args),
    unpack := fun v => match v with | .sl l => l.map HV.n | .n _ => [] }

def parseForm : String → Option Form
  | "f00" => some .f00 | "f01" => some .f01 | "fN0" => some .fN0
  | "fN1" => some .fN1 | "fNM" => some .fNM | "fVar" => some .fVar
  | _ => none

def showHV : HV → String
  | .n i => toString i
  | .sl l => "[" ++ ",".intercalate (l.map toString) ++ "]"

def hostCmd (viaFunc : Bool) (args : List String) : String :=
  match args with
  | form :: argc :: xArgs :: xRets :: nres :: stack =>
    match parseForm form, argc.toNat?, xArgs.toNat?, xRets.toNat? with
    | some f, some ac, some xa, some xr =>
      let nr := if nres = "panic" then none else nres.toNat?
      let nat := mkNative f ac nr
      let st := stack.filterMap fun s => s.toInt?.map HV.n
      let mk : List HV → HV := fun l => .sl (l.map HV.toInt)
      let res := if viaFunc then vmFunc (fun a r s => call mk nat a r s) xr st else call mk nat xa xr st
      match res with
      | none => "err"
      | some s => "ok " ++ " ".intercalate (s.map showHV)
    | _, _, _, _ => "bad-op"
  | _ => "bad-op"

end Goat.Driver
