import Goat.Model.Incr
/-! line protocol: `incr <items…> | <items…> | …` — chunks separated by `|`; items in prefix form
    `D x e`, `S x e`, `P e`, `E e`, `F f e`, `L k x`, `I c x e`; expressions `n<int>`, `v<name>`,
    `c<func>`, `+ a b`, `- a b`. -/
namespace Goat.Driver
open Goat.Incr

partial def parseExpr : List String → Option (Expr × List String)
  | "+" :: rest => do
    let (a, r1) ← parseExpr rest
    let (b, r2) ← parseExpr r1
    pure (.add a b, r2)
  | "-" :: rest => do
    let (a, r1) ← parseExpr rest
    let (b, r2) ← parseExpr r1
    pure (.sub a b, r2)
  | tok :: rest =>
    match tok.toList with
    | 'n' :: ds => (String.ofList ds).toInt?.map fun n => (.lit n, rest)
    | 'v' :: x => some (.var (String.ofList x), rest)
    | 'c' :: f => some (.call (String.ofList f), rest)
    | _ => none
  | [] => none

partial def parseItems : List String → Option (List Item)
  | [] => some []
  | "D" :: x :: rest => do let (e, r) ← parseExpr rest; let t ← parseItems r; pure (.defv x e :: t)
  | "S" :: x :: rest => do let (e, r) ← parseExpr rest; let t ← parseItems r; pure (.setv x e :: t)
  | "P" :: rest => do let (e, r) ← parseExpr rest; let t ← parseItems r; pure (.print e :: t)
  | "E" :: rest => do let (e, r) ← parseExpr rest; let t ← parseItems r; pure (.expr e :: t)
  | "F" :: f :: rest => do let (e, r) ← parseExpr rest; let t ← parseItems r; pure (.func f e :: t)
  | "L" :: k :: x :: rest => do let n ← k.toNat?; let t ← parseItems rest; pure (.loop n x :: t)
  | "I" :: rest => do
    let (c, r1) ← parseExpr rest
    match r1 with
    | x :: r2 => do let (e, r3) ← parseExpr r2; let t ← parseItems r3; pure (.ifpos c x e :: t)
    | [] => none
  | _ => none

def splitChunks (toks : List String) : List (List String) :=
  toks.foldr (fun t acc => if t = "|" then [] :: acc else match acc with
    | c :: rest => (t :: c) :: rest
    | [] => [[t]]) [[]]

def showResult (r : Option (State × List Int)) : String :=
  match r with
  | none => "err"
  | some (s, rets) =>
    let vars := s.vars.toArray.qsort (fun a b => a.1 < b.1) |>.toList
    "ok out=" ++ ",".intercalate (s.out.map toString) ++ " vars=" ++
      ",".intercalate (vars.map fun (k, v) => k ++ ":" ++ toString v) ++ " rets=" ++ ",".intercalate (rets.map toString)

def incrCmd (args : List String) : String :=
  match (splitChunks args).mapM parseItems with
  | some chunks => showResult (evalChunks {} chunks)
  | none => "bad-op"

end Goat.Driver
