import Goat.Model.IntMap
/-! line protocol (stateful): `imap new <alloc>|set k v|assign k v|get k|del k|len|dump|copy|use <i>` -/
namespace Goat.Driver
open Goat.IntMap

structure IMapState where
  tables : Array (IM String) := #[]
  cur : Nat := 0

def imDump (m : IM String) : String :=
  s!"size={m.size} total={m.total} " ++ " ".intercalate (m.pairs.map fun p => s!"{p.distance}:{p.key}")

def imapCmd (s : IMapState) (args : List String) : IMapState × String :=
  let cur := s.tables[s.cur]?
  let upd (m : Option (IM String)) (ok : String) : IMapState × String :=
    match m with
    | some m' => ({ s with tables := s.tables.set! s.cur m' }, ok)
    | none => (s, "stuck")
  match args, cur with
  | ["new", a], _ =>
    match a.toNat? with
    | some n => ({ tables := #[Goat.IntMap.new n], cur := 0 }, "ok")
    | none => (s, "bad-op")
  | ["set", k, v], some m => match k.toInt? with
    | some k => upd (m.set k v) "ok"
    | none => (s, "bad-op")
  | ["assign", k, v], some m => match k.toInt? with
    | some k => upd (m.assign k (fun _ => v)) "ok"
    | none => (s, "bad-op")
  | ["del", k], some m => match k.toInt? with
    | some k => upd (m.delete k) "ok"
    | none => (s, "bad-op")
  | ["get", k], some m => match k.toInt? with
    | some k => (s, match m.get k with | some v => s!"some {v}" | none => "none")
    | none => (s, "bad-op")
  | ["len"], some m => (s, toString m.total)
  | ["dump"], some m => (s, imDump m)
  | ["copy"], some m => ({ s with tables := s.tables.push m }, s!"ok {s.tables.size}")
  | ["use", i], _ => match i.toNat? with
    | some i => if i < s.tables.size then ({ s with cur := i }, "ok") else (s, "bad-op")
    | none => (s, "bad-op")
  | _, _ => (s, "bad-op")

end Goat.Driver
