import Goat.Model.Load
/-! line protocol: `load <top> <pkg>=<imp>,<imp>… …` → `ok <order…>` | `cycle` | `fuel` -/
namespace Goat.Driver
open Goat.Load

def graphOf (ws : List String) : Imports :=
  ws.filterMap fun w =>
    match w.splitOn "=" with
    | [p, is] => some (p, (is.splitOn ",").filter (· ≠ ""))
    | _ => none

def loadCmd (args : List String) : String :=
  match args with
  | top :: rest =>
    match loadOrder (graphOf rest) top with
    | .ok l => "ok " ++ " ".intercalate l
    | .error .cycle => "cycle"
    | .error .fuel => "fuel"
  | _ => "bad-op"

end Goat.Driver
