import Goat.Model.MiniGo
import Goat.Model.Num
import Goat.Driver.CF
/-! line protocol: `mini <locals,…> | <stmt tokens> | A <slot> <expr> | … | C <op> <expr> <expr> | …`
    (statement tokens as for `cf`; expressions in prefix form `n<k>`, `l<i>`, `+ a b`, `- a b`,
    `* a b`, `/ a b`, `% a b`). Answer: the compiled code, the result of running it on the
    instruction-level machine, and the result of Go's source semantics. -/
namespace Goat.Driver
open Goat.MiniGo Goat.CF Goat.Peephole

def numPrims : Prims Goat.Num.Val where
  untyped k := .int Goat.Num.tUntyped k
  bin op a b := Goat.Num.binop (match op with
    | .add => .add | .sub => .sub | .mul => .mul | .div => .div | .mod => .mod) a b
  cmp op a b :=
    let t (v : Goat.Num.Val) : Bool := v.toInt != 0
    some (match op with
      | .lt => t (Goat.Num.lt a b) | .lte => t (Goat.Num.lte a b)
      | .gt => t (Goat.Num.lt b a) | .gte => t (Goat.Num.lte b a)
      | .eq => t (Goat.Num.eqNum a b) | .neq => !t (Goat.Num.eqNum a b))
  assignTo v old := Goat.Num.reassign v old.tag
  ofBool b := Goat.Num.mkBool b
  truth v := v.toInt != 0

partial def parseMExpr : List String → Option (Expr × List String)
  | op :: rest =>
    let bin (o : BinOp) := do
      let (a, r1) ← parseMExpr rest
      let (b, r2) ← parseMExpr r1
      pure (Expr.bin o a b, r2)
    if op = "+" then bin .add else if op = "-" then bin .sub else if op = "*" then bin .mul
    else if op = "/" then bin .div else if op = "%" then bin .mod
    else match op.toList with
      | 'n' :: ds => (String.ofList ds).toInt?.map fun k => (.lit k, rest)
      | 'l' :: ds => (String.ofList ds).toNat?.map fun i => (.loc i, rest)
      | _ => none
  | [] => none

def parseCmp : String → Option CmpOp
  | "lt" => some .lt | "lte" => some .lte | "gt" => some .gt | "gte" => some .gte
  | "eq" => some .eq | "neq" => some .neq | _ => none

/-- boolean conditions in prefix form: `and a b`, `or a b`, `not a`, `<cmp> ea eb` -/
partial def parseB : List String → Option (BExpr × List String)
  | "and" :: rest => do
    let (a, r1) ← parseB rest
    let (b, r2) ← parseB r1
    pure (.and a b, r2)
  | "or" :: rest => do
    let (a, r1) ← parseB rest
    let (b, r2) ← parseB r1
    pure (.or a b, r2)
  | "not" :: rest => do
    let (a, r1) ← parseB rest
    pure (.not a, r1)
  | op :: rest => do
    let o ← parseCmp op
    let (a, r1) ← parseMExpr rest
    let (b, r2) ← parseMExpr r1
    pure (.cmp (Cond.mk o a b), r2)
  | [] => none

/-- Go's big-step semantics, executable (fuel bounds the number of statement executions) -/
partial def interp (M : Sem (Option (List Goat.Num.Val))) : Nat → Stmt → Option (List Goat.Num.Val) →
    Option (Out × Option (List Goat.Num.Val))
  | 0, _, _ => none
  | _, _, none => some (.normal, none)          -- a panic ends the run (in `Exec` the panic state is absorbing)
  | f + 1, s, st =>
    match s with
    | .act n => some (.normal, M.act n st)
    | .brk => some (.brk, st)
    | .cont => some (.cont, st)
    | .seq a b =>
      match interp M f a st with
      | some (.normal, st1) => interp M f b st1
      | r => r
    | .ite c a b => if M.cval c st then interp M f a (M.ceff c st) else interp M f b (M.ceff c st)
    | .ift c a => if M.cval c st then interp M f a (M.ceff c st) else some (.normal, M.ceff c st)
    | .loop c b p =>
      if M.cval c st then
        match interp M f b (M.ceff c st) with
        | some (.brk, st1) => some (.normal, st1)
        | some (.ret, st1) => some (.ret, st1)
        | some (_, st1) => interp M f (.loop c b p) (M.act p st1)
        | none => none
      else some (.normal, M.ceff c st)
    | .forever b p =>
      match interp M f b st with
      | some (.brk, st1) => some (.normal, st1)
      | some (.ret, st1) => some (.ret, st1)
      | some (_, st1) => interp M f (.forever b p) (M.act p st1)
      | none => none
    | .ret n => some (.ret, M.act n st)
    | .swd d =>
      match interp M f d st with
      | some (.brk, st1) => some (.normal, st1)
      | r => r
    | .swc c a r =>
      if M.cval c st then
        match interp M f a (M.ceff c st) with
        | some (.brk, st1) => some (.normal, st1)
        | r' => r'
      else interp M f r (M.ceff c st)
    | .rng _ _ _ _ => none                             -- MiniGo has no range statement (never parsed by this driver)

/-- the instruction-level machine with jumps (do.go: `N += A`, then `N++`) -/
partial def vmRun (code : Array Instr) : Nat → Nat → St Goat.Num.Val → Option (Option (St Goat.Num.Val))
  | 0, _, _ => none                                   -- out of fuel
  | f + 1, pc, σ =>
    match code[pc]? with
    | none => some (some σ)
    | some i =>
      let jump (a : Int) : Nat := ((pc : Int) + a + 1).toNat
      if i.op = "AND" ∨ i.op = "OR" then
        match σ.ops with
        | t :: rest =>
          let tv := t.toInt != 0
          if (i.op = "AND" ∧ !tv) ∨ (i.op = "OR" ∧ tv) then vmRun code f (((pc : Int) + i.a + 1).toNat) σ
          else vmRun code f (pc + 1) { σ with ops := rest }
        | [] => some none
      else if i.op = "NOT" then
        match σ.ops with
        | t :: rest => vmRun code f (pc + 1) { σ with ops := Goat.Num.mkBool (t.toInt == 0) :: rest }
        | [] => some none
      else if i.op = "RETURN" then some (some σ)
      else if i.op = "JUMP" then vmRun code f (jump i.a) σ
      else if i.op = "JUMPFALSE" ∨ i.op = "JUMPTRUE" then
        match σ.ops with
        | b :: rest =>
          let t := b.toInt != 0
          let σ' := { σ with ops := rest }
          if (i.op = "JUMPFALSE" ∧ !t) ∨ (i.op = "JUMPTRUE" ∧ t) then vmRun code f (jump i.a) σ'
          else vmRun code f (pc + 1) σ'
        | [] => some none
      else match cmpOfCode i.op with
        | some op =>
          match σ.ops with
          | y :: x :: rest =>
            match numPrims.cmp op x y with
            | some b => vmRun code f (pc + 1) { σ with ops := Goat.Num.mkBool b :: rest }
            | none => some none
          | _ => some none
        | none =>
          match step1 numPrims i σ with
          | some σ' => vmRun code f (pc + 1) σ'
          | none => some none                          -- panic

def showLocals (l : List Goat.Num.Val) : String := ",".intercalate (l.map fun v => toString v.toInt)

def miniCmd (args : List String) : String :=
  let secs := (args.foldr (fun t acc => if t = "|" then [] :: acc else match acc with
    | c :: rest => (t :: c) :: rest
    | [] => [[t]]) [[]])
  match secs with
  | [initS] :: stmtToks :: leafSecs =>
    let init : List Goat.Num.Val := ((initS.splitOn ",").filterMap String.toInt?).map fun n => .int Goat.Num.tI32 n
    let acts := leafSecs.filterMap fun sec => match sec with
      | "A" :: slot :: e => do let s ← slot.toNat?; let (x, r) ← parseMExpr e; if r.isEmpty then some (Assign.mk s x) else none
      | _ => none
    let cnds := leafSecs.filterMap fun sec => match sec with
      | "C" :: e => do
        let (b, r) ← parseB e
        if r.isEmpty then some b else none
      | _ => none
    match parseStmt stmtToks with
    | some (body, []) =>
      let p : Prog := { acts := acts, cnds := cnds, body := body }
      let code := compileProg p
      let codeS := ",".intercalate (code.map fun (i : Instr) => s!"{i.op}:{i.a}")
      let vm := match vmRun code.toArray 200000 0 { locals := init, ops := [] } with
        | none => "fuel"
        | some none => "panic"
        | some (some σ) => showLocals σ.locals
      let src := match interp (sem numPrims p) 200000 body (some init) with
        | none => "fuel"
        | some (_, none) => "panic"
        | some (_, some l) => showLocals l
      s!"code={codeS} vm={vm} src={src}"
    | _ => "bad-op"
  | _ => "bad-op"

end Goat.Driver
