import Goat.Model.Num
/-! line protocol: `num <op> <val> <val>` / `num assign <val> <tag>` / `num convert <val> <tag>` /
    `num incdec <val> <k>` / `num negate <val>` / `num complement <val>`;
    values are `<tag>:<int>` or `f:<bits as decimal UInt64>`; answers use the same form or `err`. -/
namespace Goat.Driver
open Goat.Num

def valOf (w : String) : Option Val :=
  match w.splitOn ":" with
  | ["f", b] => b.toNat?.map (fun n => Val.flt (Float.ofBits n.toUInt64))
  | [t, n] => do
    let t ← t.toNat?
    let n ← n.toInt?
    some (Val.int t n)
  | _ => none

def showVal : Val → String
  | .int t n => s!"{t}:{n}"
  | .flt x => if x.isNaN then "f:nan" else s!"f:{x.toBits.toNat}"

def showO : Option Val → String
  | some v => showVal v
  | none => "err"

def opOf : String → Option Op
  | "add" => some .add | "sub" => some .sub | "mul" => some .mul | "div" => some .div
  | "mod" => some .mod | "and" => some .and | "or" => some .or | "xor" => some .xor
  | _ => none

def numCmd (args : List String) : String :=
  match args with
  | ["lsh", a, b] => match valOf a, valOf b with
    | some a, some b => showO (shift true a b) | _, _ => "bad-op"
  | ["rsh", a, b] => match valOf a, valOf b with
    | some a, some b => showO (shift false a b) | _, _ => "bad-op"
  | ["lt", a, b] => match valOf a, valOf b with
    | some a, some b => showVal (lt a b) | _, _ => "bad-op"
  | ["lte", a, b] => match valOf a, valOf b with
    | some a, some b => showVal (lte a b) | _, _ => "bad-op"
  | ["eq", a, b] => match valOf a, valOf b with
    | some a, some b => showVal (eqNum a b) | _, _ => "bad-op"
  | ["assign", a, t] => match valOf a, t.toNat? with
    | some a, some t => showVal (assign a t) | _, _ => "bad-op"
  | ["convert", a, t] => match valOf a, t.toNat? with
    | some a, some t => showO (convert a t) | _, _ => "bad-op"
  | ["incdec", a, k] => match valOf a, k.toInt? with
    | some a, some k => showO (incdec a k) | _, _ => "bad-op"
  | ["negate", a] => match valOf a with
    | some a => showO (negate a) | _ => "bad-op"
  | ["complement", a] => match valOf a with
    | some a => showO (complement a) | _ => "bad-op"
  | [op, a, b] => match opOf op, valOf a, valOf b with
    | some op, some a, some b => showO (binop op a b) | _, _, _ => "bad-op"
  | _ => "bad-op"

end Goat.Driver
