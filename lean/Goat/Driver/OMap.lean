import Goat.Model.OMap
/-! line protocol (stateful): `omap new [k v]…`, `omap set k v`, `omap del k [observed key list…]`,
    `omap get k`, `omap len`, `omap iter`, `omap next <id>`. Keys and values are opaque words. -/
namespace Goat.Driver
open Goat.OMap

structure OMapState where
  m : M String String := ⟨[], []⟩
  iters : Array (List String) := #[]

def pairsOf : List String → List (String × String)
  | k :: v :: t => (k, v) :: pairsOf t
  | _ => []

def showKeys (ks : List String) : String := " ".intercalate ks

def omapCmd (s : OMapState) (args : List String) : OMapState × String :=
  match args with
  | "new" :: rest =>
    let m := M.ofList (pairsOf rest)
    ({ m := m, iters := #[] }, s!"ok {showKeys m.keys}")
  | ["set", k, v] =>
    let m := s.m.set k v
    ({ s with m := m }, s!"ok {showKeys m.keys}")
  | "del" :: k :: observed =>
    if s.m.compacts k then
      -- the implementation's order is taken as the witness; it must be a permutation of the live keys
      if observed.isPerm (akeys (adel k s.m.data)) then
        let m := s.m.delete k observed
        ({ s with m := m }, s!"ok {showKeys m.keys}")
      else (s, "bad-perm")
    else
      let m := s.m.delete k []
      ({ s with m := m }, s!"ok {showKeys m.keys}")
  | ["get", k] =>
    match s.m.get k with
    | some v => (s, s!"some {v}")
    | none => (s, "none")
  | ["len"] => (s, toString s.m.len)
  | ["iter"] => ({ s with iters := s.iters.push s.m.keys }, s!"ok {s.iters.size}")
  | ["next", id] =>
    match id.toNat? with
    | some i =>
      match s.iters[i]? with
      | some rem =>
        match next s.m rem with
        | (some (k, v), rem') => ({ s with iters := s.iters.set! i rem' }, s!"{k} {v}")
        | (none, rem') => ({ s with iters := s.iters.set! i rem' }, "done")
      | none => (s, "bad-op")
    | none => (s, "bad-op")
  | _ => (s, "bad-op")

end Goat.Driver
