import Goat.Model.Peephole
/-! line protocol: `opt <passes> <OP:a:b:c:pos>…` → the optimized list in the same form -/
namespace Goat.Driver
open Goat.Peephole

def instrOf (w : String) : Option Instr :=
  match w.splitOn ":" with
  | [op, a, b, c, p] => do
    let a ← a.toInt?; let b ← b.toInt?; let c ← c.toInt?; let p ← p.toNat?
    some { op := op, a := a, b := b, c := c, pos := p }
  | _ => none

def showInstr (i : Instr) : String := s!"{i.op}:{i.a}:{i.b}:{i.c}:{i.pos}"

def optCmd (args : List String) : String :=
  match args with
  | n :: rest =>
    match n.toNat?, rest.mapM instrOf with
    | some n, some l =>
      let out := (List.range n).foldl (fun acc _ => doOpt Gen.peephole acc) l
      " ".intercalate (out.map showInstr)
    | _, _ => "bad-op"
  | _ => "bad-op"

end Goat.Driver
