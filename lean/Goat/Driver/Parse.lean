import Goat.Model.PrattGen
/-! line protocol: `parse <tok>…` with tokens `n:<name>` `i:<nat>` `s:<symbol>` `(` `)` -/
namespace Goat.Driver
open Goat.Pratt

def tokOf (w : String) : Option Tok :=
  if w == "(" then some Tok.lp
  else if w == ")" then some Tok.rp
  else if w.startsWith "n:" then some (Tok.name (w.drop 2).toString)
  else if w.startsWith "i:" then (w.drop 2).toString.toNat?.map Tok.int
  else if w.startsWith "s:" then some (Tok.sym (w.drop 2).toString)
  else none

def parseCmd (args : List String) : String :=
  match args.mapM tokOf with
  | none => "bad-op"
  | some ts =>
    match parseTop genTable ts with
    | some (e, rest) => s!"ok {e.show} rest={rest.length}"
    | none => "none"

end Goat.Driver
