import Goat.Model.Print
import Goat.Driver.Str
/-! line protocol: `print new | obj <field> <val> … | str <val> | ln <val> …`; results in hex.
    Values are written in prefix form: `n`, `b0`/`b1`, `i<int>`, `s<hex>`, `Fnan`, `F+inf`,
    `F-<digits>e<exp>`, `[ <ty> v… ]`, `{ <ty> k v }`, `{} <ty>`, `&<addr>`, `&nil`; types are
    `S`, `L<ty>`, `M<ty>`, `T`. -/
namespace Goat.Driver
open Goat.Print

def parseTy : List Char → Option Ty
  | ['S'] => some .scalar
  | ['T'] => some .struct
  | 'L' :: r => (parseTy r).map .slice
  | 'M' :: r => (parseTy r).map .map
  | _ => none

def parseFloat (s : String) : Option FloatRepr :=
  if s = "nan" then some .nan
  else if s = "+inf" then some (.inf false)
  else if s = "-inf" then some (.inf true)
  else
    match s.toList with
    | sg :: rest =>
      let neg := sg = '-'
      match (String.ofList rest).splitOn "e" with
      | [ds, e] => e.toInt?.map fun ex => .fin neg (ds.toList.map fun c => c.toNat - 48) ex
      | _ => none
    | [] => none

def parseScalar (t : String) : Option Scalar :=
  match t.toList with
  | ['n'] => some .nil
  | ['b', '0'] => some (.bool false)
  | ['b', '1'] => some (.bool true)
  | 'i' :: r => (String.ofList r).toInt?.map .int
  | 's' :: r => (unhexL r).map fun bs => .str (String.fromUTF8! (ByteArray.mk (bs.map (·.toUInt8)).toArray))
  | 'F' :: r => (parseFloat (String.ofList r)).map .float
  | _ => none

mutual
partial def parseVal : List String → Option (Val × List String)
  | "[" :: ty :: rest => do
    let t ← parseTy ty.toList
    let (es, rest') ← parseVals rest
    pure (.slice t es, rest')
  | "{" :: ty :: k :: rest => do
    let t ← parseTy ty.toList
    let key ← parseScalar k
    let (v, rest') ← parseVal rest
    match rest' with
    | "}" :: r => pure (.map1 t key v, r)
    | _ => none
  | "{}" :: ty :: rest => do
    let t ← parseTy ty.toList
    pure (.map0 t, rest)
  | "&nil" :: rest => some (.nilRef, rest)
  | tok :: rest =>
    if tok.startsWith "&" then (tok.drop 1).toNat?.map fun a => (.ref a, rest)
    else (parseScalar tok).map fun s => (.scalar s, rest)
  | [] => none
partial def parseVals : List String → Option (Vals × List String)
  | "]" :: rest => some (.nil, rest)
  | toks => do
    let (v, rest) ← parseVal toks
    let (vs, rest') ← parseVals rest
    pure (.cons v vs, rest')
end

partial def parseMany (toks : List String) : Option (List Val) :=
  match toks with
  | [] => some []
  | _ => do
    let (v, rest) ← parseVal toks
    let vs ← parseMany rest
    pure (v :: vs)

partial def parseFields (toks : List String) : Option Obj :=
  match toks with
  | [] => some []
  | name :: rest => do
    let (v, rest') ← parseVal rest
    let fs ← parseFields rest'
    pure ((name, v) :: fs)

def hexStr (s : String) : String := hex (s.toUTF8.toList.map (·.toNat))

/-- `print cyc <top> | e … | e … |`: container heap (elements `i<n>` or `c<addr>`), rendered the way
    `String()` of the slice at `top` does: the top container's elements through `SafeStr` -/
def cycCmd (args : List String) : String :=
  match args with
  | top :: "|" :: rest =>
    let secs := rest.foldr (fun t acc => if t = "|" then [] :: acc else match acc with
      | c :: r => (t :: c) :: r
      | [] => [[t]]) [[]]
    let heap : CHeap := secs.map fun sec => sec.filterMap fun t =>
      match t.toList with
      | 'i' :: ds => (String.ofList ds).toInt?.map CVal.int
      | 'c' :: ds => (String.ofList ds).toNat?.map CVal.cref
      | _ => none
    match top.toNat? with
    | some a =>
      match heap[a]? with
      | some elems =>
        match elems.mapM (renderC heap (heap.length + 1) []) with
        | some parts => hexStr ("[" ++ join parts ++ "]")
        | none => "fuel"
      | none => "bad-op"
    | none => "bad-op"
  | _ => "bad-op"

def printCmd (h : Heap) (args : List String) : Heap × String :=
  match args with
  | "cyc" :: rest => (h, cycCmd rest)
  | ["new"] => ([], "ok")
  | "obj" :: toks => match parseFields toks with
    | some o => (h ++ [o], "ok")
    | none => (h, "bad-op")
  | "str" :: toks => match parseVal toks with
    | some (v, []) => (h, hexStr (str h v))
    | _ => (h, "bad-op")
  | "ln" :: toks => match parseMany toks with
    | some vs => (h, hexStr (println h vs))
    | none => (h, "bad-op")
  | _ => (h, "bad-op")

end Goat.Driver
