import Goat.Model.Reload
/-! line protocol (stateful): `rl new | load f:N=B … z:N=Z … i:N=V … | cap c N | call c | name N |
    setvar N V | getvar N` -/
namespace Goat.Driver
open Goat.Reload

structure RlState where
  st : St String String := { cells := [], tab := [], vars := [] }
  caps : List (String × Nat) := []

def splitEq (s : String) : Option (String × String) :=
  match s.splitOn "=" with
  | [a, b] => some (a, b)
  | _ => none

def rlCmd (r : RlState) (args : List String) : RlState × String :=
  match args with
  | ["new"] => ({}, "ok")
  | "load" :: items =>
    let pick (pre : String) : List (String × String) :=
      items.filterMap fun it => if it.startsWith pre then splitEq (it.drop 2).toString else none
    let p : Pkg String String := { funcs := pick "f:", zeros := pick "z:", inits := pick "i:" }
    ({ r with st := load r.st p }, "ok")
  | ["cap", c, n] =>
    match lookup r.st.tab n with
    | some a => ({ r with caps := (c, a) :: r.caps.filter (·.1 ≠ c) }, "ok")
    | none => (r, "err")
  | ["call", c] =>
    match lookup r.caps c with
    | some a => (r, (callRef r.st a).getD "err")
    | none => (r, "err")
  | ["name", n] => (r, (callName r.st n).getD "err")
  | ["setvar", n, v] => ({ r with st := { r.st with vars := setVar r.st.vars n v } }, "ok")
  | ["getvar", n] => (r, (lookup r.st.vars n).getD "nil")
  | _ => (r, "bad-op")

end Goat.Driver
