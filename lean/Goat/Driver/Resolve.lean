import Goat.Model.Resolve
/-! `rs` commands: histories of compilations against one table of globals, and the resolution of identifiers.

    `rs new`                                 – empty table
    `rs key glob|builtin <name>`             – a package-level definition / a builtin
    `rs compile <fn> T t.. L l.. U u..`      – a function named fn (as the compiler names it) whose body declares the
                                               types t.., binds the names l.., and then uses the identifiers u..
    `rs block T t.. L l.. U u..`             – the same for a block outside every function
    `rs top U u..`                           – identifiers used outside every function and block
    answer: one token per use, `L` (LOCALGET) or `G:<key>` (GLOBALGET of that key) -/
namespace Goat.Driver
open Goat.Resolve

def keyText : Key → String
  | .dollar => "$"
  | .ltype f t => f ++ "." ++ t
  | .glob n => "main." ++ n
  | .builtin n => "builtin." ++ n

def resText : Res → String
  | .localGet _ => "L"
  | .globalGet k => "G:" ++ keyText k

/-- split `T a b L c U d e` into the three sections -/
def sections (args : List String) : List String × List String × List String :=
  let rec go (cur : Nat) (ts ls us : List String) : List String → List String × List String × List String
    | [] => (ts.reverse, ls.reverse, us.reverse)
    | "T" :: r => go 0 ts ls us r
    | "L" :: r => go 1 ts ls us r
    | "U" :: r => go 2 ts ls us r
    | a :: r => if cur = 0 then go cur (a :: ts) ls us r else if cur = 1 then go cur ts (a :: ls) us r else go cur ts ls (a :: us) r
  go 0 [] [] [] args

def useAll (t : Tab) (c : Ctx) (us : List String) : Tab × List String :=
  us.foldl (fun (acc : Tab × List String) u =>
    let r := resolve acc.1 c u
    (touch acc.1 r, acc.2 ++ [resText r])) (t, [])

def rsCmd (t : Tab) (args : List String) : Tab × String :=
  match args with
  | ["new"] => ({ keys := [], compiled := [] }, "ok")
  | ["key", "glob", n] => (step t (.addKey (.glob n)), "ok")
  | ["key", "builtin", n] => (step t (.addKey (.builtin n)), "ok")
  | "compile" :: fn :: rest =>
    let (ts, ls, us) := sections rest
    let t1 := step t (.compile fn ts)
    let (t2, out) := useAll t1 { fn := fn, inScope := true, locals := ls } us
    (t2, " ".intercalate out)
  | "block" :: rest =>
    let (ts, ls, us) := sections rest
    let t1 := declTypes t "" ts
    let (t2, out) := useAll t1 { fn := "", inScope := true, locals := ls } us
    (t2, " ".intercalate out)
  | "top" :: rest =>
    let (_, _, us) := sections rest
    let (t2, out) := useAll t { fn := "", inScope := false, locals := [] } us
    (t2, " ".intercalate out)
  | _ => (t, "bad-op")

end Goat.Driver
