import Goat.Model.Scope
import Goat.Model.Load
/-! line protocol (stateful): `scope new|begin|end|declare x|index x|exists x|table` -/
namespace Goat.Driver
open Goat.Scope

def showTable (c : C) : String :=
  let rows := c.l.entries.map (fun (p : Key × Nat) => String.ofList (List.replicate p.1.1 '~') ++ p.1.2 ++ "=" ++ toString p.2)
  " ".intercalate (Goat.Load.sortStrings rows)

def scopeCmd (c : C) (args : List String) : C × String :=
  match args with
  | ["new"] => ({}, "ok")
  | ["begin"] => (c.begin, "ok")
  | ["end"] => match c.scope with
    | [] => (c, "bad-op")
    | _ => (c.end, "ok")
  | ["declare", x] => match c.scope with
    | [] => (c, "bad-op")   -- compiler.Shadow indexes scope[len-1]
    | _ => let (c', n) := c.declare x; (c', toString n)
  | ["index", x] => let (c', n) := c.index x; (c', toString n)
  | ["exists", x] => (c, toString (c.l.exists x))
  | ["table"] => (c, s!"len={c.l.i2k.length} depth={c.scope.length} {showTable c}")
  | _ => (c, "bad-op")

end Goat.Driver
