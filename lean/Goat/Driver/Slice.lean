import Goat.Model.Slice
/-! line protocol (stateful): `slice new | lit v x… | make v n | sub v u i j | set v k x |
    append v u <cap> x… | copy dst src | show`. Variables are single words; values are ints. -/
namespace Goat.Driver
open Goat.Slice

structure SliceState where
  heap : Heap Int := []
  vars : List (String × View) := []
  byteElems : Bool := false     -- element type byte: stored values wrap modulo 256 (`assign`)

def setVar (vars : List (String × View)) (k : String) (v : View) : List (String × View) :=
  (vars.filter (·.1 ≠ k)) ++ [(k, v)]

/-- cells of a reallocated array beyond the appended elements hold Go's zero `Value{}` (nil), not
    the element type's zero; they are only reachable by re-slicing beyond the length -/
def padCell : Int := -999999
def showCell (x : Int) : String := if x = padCell then "nil" else toString x

def showAll (s : SliceState) : String :=
  let sorted := s.vars.toArray.qsort (fun a b => a.1 < b.1) |>.toList
  " ".intercalate (sorted.map fun (k, v) =>
    k ++ "=[" ++ ",".intercalate ((contents s.heap v).map showCell) ++ "]")

def sliceCmd (s : SliceState) (args : List String) : SliceState × String :=
  let conv (x : Int) : Int := if s.byteElems then x % 256 else x
  let ints (l : List String) : List Int :=
    l.filterMap fun w => if w = "nil" then some padCell else w.toInt?.map conv
  match args with
  | ["new"] => ({}, "ok")
  | ["new", "byte"] => ({ byteElems := true }, "ok")
  | "lit" :: v :: xs =>
    let (h, w) := alloc s.heap (ints xs)
    ({ s with heap := h, vars := setVar s.vars v w }, "ok")
  | ["make", v, n] =>
    let (h, w) := alloc s.heap (List.replicate (n.toNat?.getD 0) 0)
    ({ s with heap := h, vars := setVar s.vars v w }, "ok")
  | ["sub", v, u, i, j] =>
    match s.vars.lookup u, i.toNat?, j.toNat? with
    | some w, some i, some j =>
      match slice w i j with
      | some t => ({ s with vars := setVar s.vars v t }, "ok")
      | none => (s, "err")
    | _, _, _ => (s, "err")
  | ["set", v, k, x] =>
    match s.vars.lookup v, k.toNat?, x.toInt? with
    | some w, some k, some x =>
      match sset s.heap w k (conv x) with
      | some h => ({ s with heap := h }, "ok")
      | none => (s, "err")
    | _, _, _ => (s, "err")
  | ["get", v, k] =>
    match s.vars.lookup v, k.toNat? with
    | some w, some k => (s, match sget s.heap w k with | some x => showCell x | none => "err")
    | _, _ => (s, "err")
  | "append" :: v :: u :: c :: xs =>
    match s.vars.lookup u, c.toNat? with
    | some w, some c =>
      let (h, t) := append s.heap w (ints xs) c padCell
      ({ s with heap := h, vars := setVar s.vars v t }, s!"ok len={t.len} cap={t.cap}")
    | _, _ => (s, "err")
  | ["copy", d, u] =>
    match s.vars.lookup d, s.vars.lookup u with
    | some dv, some sv =>
      let (h, _) := copy s.heap dv sv
      ({ s with heap := h }, "ok")
    | _, _ => (s, "err")
  | ["copyn", d, u] =>      -- copy used as a value: the count
    match s.vars.lookup d, s.vars.lookup u with
    | some dv, some sv =>
      let (h, n) := copy s.heap dv sv
      ({ s with heap := h }, s!"ok n={n}")
    | _, _ => (s, "err")
  | ["show"] => (s, showAll s)
  | _ => (s, "bad-op")

end Goat.Driver
