import Goat.Model.Str
/-! line protocol: `str len|at|slice|range|cmp|cat|rune|unq|raw|chr …`; byte strings travel as hex
    (`-` for the empty string). -/
namespace Goat.Driver
open Goat.Str

def hexNib (c : Char) : Option Nat :=
  if '0' ≤ c ∧ c ≤ '9' then some (c.toNat - 48)
  else if 'a' ≤ c ∧ c ≤ 'f' then some (c.toNat - 87) else none

def unhexL : List Char → Option Bytes
  | [] => some []
  | a :: b :: rest => do
    let x ← hexNib a; let y ← hexNib b; let t ← unhexL rest
    pure ((x * 16 + y) :: t)
  | _ => none

def unhex (s : String) : Option Bytes := if s = "-" then some [] else unhexL s.toList

def nib (d : Nat) : Char := Char.ofNat (if d < 10 then 48 + d else 87 + d)
def hex (bs : Bytes) : String :=
  if bs.isEmpty then "-" else String.ofList (bs.flatMap fun b => [nib (b / 16), nib (b % 16)])

def strCmd (args : List String) : String :=
  match args with
  | ["len", h] => match unhex h with | some s => toString s.length | none => "bad-op"
  | ["at", h, i] =>
    match unhex h, i.toNat? with
    | some s, some i => match index s i with | some b => toString b | none => "err"
    | _, _ => "bad-op"
  | ["slice", h, i, j] =>
    match unhex h, i.toNat?, j.toNat? with
    | some s, some i, some j => match slice s i j with | some t => hex t | none => "err"
    | _, _, _ => "bad-op"
  | ["range", h] =>
    match unhex h with
    | some s => " ".intercalate ((runes s).map fun (o, r) => s!"{o}:{r}")
    | none => "bad-op"
  | ["cmp", a, b] =>
    match unhex a, unhex b with
    | some a, some b => if lt a b then "lt" else if lt b a then "gt" else "eq"
    | _, _ => "bad-op"
  | ["cat", a, b] =>
    match unhex a, unhex b with
    | some a, some b => hex (a ++ b)
    | _, _ => "bad-op"
  | ["rune", n] => match n.toNat? with | some r => hex (encode r) | none => "bad-op"
  | ["torunes", h] =>      -- []rune(s): the runes that range yields, without their offsets
    match unhex h with
    | some s => ",".intercalate ((toRunes s).map toString)
    | none => "bad-op"
  | "ofrunes" :: ns =>     -- string(rs): every rune encoded
    match ns.mapM String.toNat? with
    | some rs => hex (encodeAll rs)
    | none => "bad-op"
  | ["unq", h] => match unhex h with
    | some s => (match unquoteString s with | some t => hex t | none => "err")
    | none => "bad-op"
  | ["raw", h] => match unhex h with | some s => hex (unquoteRaw s) | none => "bad-op"
  | ["chr", h] => match unhex h with
    | some s => (match charLit s with | some r => toString r | none => "err")
    | none => "bad-op"
  | _ => "bad-op"

end Goat.Driver
