import Goat.Model.Struct
/-! line protocol (stateful): `st type k1 k2 …|new|set r k v|get r k|method k fn` -/
namespace Goat.Driver
open Goat.IntMap Goat.Struct

def stShow : Attr Int → String
  | .field v => s!"field {v}"
  | .method r fn => s!"method {r} {fn}"
  | .missing => "missing"

instance : Inhabited (Heap Int) := ⟨{ ty := { fields := Goat.IntMap.new 0, methods := Goat.IntMap.new 0 }, insts := [] }⟩

def stCmd (hp : Heap Int) (args : List String) : Heap Int × String :=
  match args with
  | "type" :: ks =>
    match ks.mapM String.toInt? with
    | some ks =>
      match ks.foldlM (fun (m : IM Int) k => m.set k 0) (Goat.IntMap.new ks.length) with
      | some f => ({ ty := { fields := f, methods := Goat.IntMap.new 0 }, insts := [] }, "ok")
      | none => (hp, "stuck")
    | none => (hp, "bad-op")
  | ["new"] => let (hp', r) := hp.alloc; (hp', s!"ref {r}")
  | ["set", r, k, v] =>
    match r.toNat?, k.toInt?, v.toInt? with
    | some r, some k, some v =>
      match hp.setIndex r k (fun _ x => x) v with
      | some hp' => (hp', "ok")
      | none => (hp, "stuck")
    | _, _, _ => (hp, "bad-op")
  | ["get", r, k] =>
    match r.toNat?, k.toInt? with
    | some r, some k => (hp, stShow (hp.getIndex r k))
    | _, _ => (hp, "bad-op")
  | ["method", k, fn] =>
    match k.toInt?, fn.toInt? with
    | some k, some fn =>
      match hp.addMethod k fn with
      | some hp' => (hp', "ok")
      | none => (hp, "stuck")
    | _, _ => (hp, "bad-op")
  | _ => (hp, "bad-op")

end Goat.Driver
