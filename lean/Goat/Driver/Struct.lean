import Goat.Model.Struct
/-! line protocol (stateful): `st type k1 k2 …|new|set r k v|get r k|method k fn` -/
namespace Goat.Driver
open Goat.IntMap Goat.Struct

def stShow : Attr Int → String
  | .field v => s!"field {v}"
  | .method r fn => s!"method {r} {fn}"
  | .missing => "missing"

instance : Inhabited (Heap Int) := ⟨{ ty := { fields := Goat.IntMap.new 0, methods := Goat.IntMap.new 0 }, insts := [] }⟩

def stCmd (hp : Heap Int) (args : List String) : Heap Int × String :=
  match args with
  | "type" :: ks =>
    match ks.mapM String.toInt? with
    | some ks =>
      match ks.foldlM (fun (m : IM Int) k => m.set k 0) (Goat.IntMap.new ks.length) with
      | some f => ({ ty := { fields := f, methods := Goat.IntMap.new 0 }, insts := [] }, "ok")
      | none => (hp, "stuck")
    | none => (hp, "bad-op")
  | ["new"] => let (hp', r) := hp.alloc; (hp', s!"ref {r}")
  | "lit" :: kvs =>
    let rec pairs : List String → Option (List (Int × Int))
      | [] => some []
      | k :: v :: rest => match k.toInt?, v.toInt?, pairs rest with
        | some k, some v, some r => some ((k, v) :: r)
        | _, _, _ => none
      | _ => none
    match pairs kvs with
    | some inits => match hp.allocWith (fun _ x => x) inits with
      | some (hp', r) => (hp', s!"ref {r}")
      | none => (hp, "stuck")
    | none => (hp, "bad-op")
  | ["set", r, k, v] =>
    match r.toNat?, k.toInt?, v.toInt? with
    | some r, some k, some v =>
      match hp.setIndex r k (fun _ x => x) v with
      | some hp' => (hp', "ok")
      | none => (hp, "stuck")
    | _, _, _ => (hp, "bad-op")
  | ["get", r, k] =>
    match r.toNat?, k.toInt? with
    | some r, some k => (hp, stShow (hp.getIndex r k))
    | _, _ => (hp, "bad-op")
  | ["method", k, fn] =>
    match k.toInt?, fn.toInt? with
    | some k, some fn =>
      match hp.addMethod k fn with
      | some hp' => (hp', "ok")
      | none => (hp, "stuck")
    | _, _ => (hp, "bad-op")
  | _ => (hp, "bad-op")


/-! `to decl k=v …` declares a type (the first time: STRUCT + GLOBALSTRUCT on an empty name; later:
    STRUCT + syncFields into the existing object), `to show` prints the fields in `Order` -/
def toShow (t : TObj String) : String :=
  " ".intercalate (t.entries.map fun kv => s!"{kv.1}={kv.2}")

def toCmd (st : Option (TObj String)) (args : List String) : Option (TObj String) × String :=
  match args with
  | "reset" :: _ => (none, "ok")
  | "decl" :: kvs =>
    let parsed := kvs.mapM fun w => match w.splitOn "=" with
      | [k, v] => k.toInt?.map fun k => (k, v)
      | _ => none
    match parsed with
    | none => (st, "bad-op")
    | some decl =>
      match TObj.declare decl with
      | none => (st, "stuck")
      | some cur =>
        match st with
        | none => (some cur, toShow cur)
        | some prev => match prev.sync cur with
          | some t => (some t, toShow t)
          | none => (st, "stuck")
  | _ => (st, "bad-op")

end Goat.Driver
