import Goat.Model.TreeSort
/-! line protocol: `tsort <kind>…` → the sorted permutation as indexes into the input -/
namespace Goat.Driver
open Goat.TreeSort

def tsortCmd (args : List String) : String :=
  let nodes := args.zipIdx
  " ".intercalate ((treeSort nodes).map (fun n => toString n.2))

end Goat.Driver
