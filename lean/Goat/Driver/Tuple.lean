import Goat.Model.Tuple
/-! line protocol: `ta impl|go <cells…> | <target value>…` where a target is a cell number or `_` -/
namespace Goat.Driver
open Goat.Tuple

def taPairs : List String → Option (List (Option Nat × Int))
  | [] => some []
  | t :: v :: rest =>
    match (if t = "_" then some none else t.toNat?.map some), v.toInt?, taPairs rest with
    | some t, some v, some r => some ((t, v) :: r)
    | _, _, _ => none
  | _ => none

def taCmd (args : List String) : String :=
  match args with
  | ord :: rest =>
    let cells := rest.takeWhile (· ≠ "|")
    let tvs := (rest.dropWhile (· ≠ "|")).drop 1
    match cells.mapM String.toInt?, taPairs tvs with
    | some cells, some tvs =>
      if ord = "go" || ord = "impl" then
        " ".intercalate ((runOn (ord = "go") cells tvs).map toString)
      else "bad-op"
    | _, _ => "bad-op"
  | _ => "bad-op"

end Goat.Driver
