import Goat.Gen.Tables
/-! Fail-closed extraction: every source shape `goatx` was asked to read must have been recognised.
    A changed shape is listed in `Gen.unrecognised` and this theorem (imported by every model that
    uses a generated table) no longer checks. -/
namespace Gen
theorem allRecognised : Gen.unrecognised = [] := by decide
end Gen
