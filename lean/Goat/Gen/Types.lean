/-! Types of the facts that `goatx` extracts from /repo (hand-written; the data is generated). -/
namespace Gen

/-- one entry of the parser's symbol table: name, left binding power, nud and led handler names
    (empty string = the default handler that panics). -/
structure Sym where
  name : String
  lbp : Nat
  nud : String
  led : String
  deriving Repr, DecidableEq

inductive Fld where | A | B | C
  deriving Repr, DecidableEq

/-- where an operand of the fused instruction comes from -/
inductive Src where
  | none
  | fld (i : Nat) (f : Fld)
  | neg (i : Nat) (f : Fld)
  | join (i : Nat) (f : Fld) (j : Nat) (g : Fld)
  deriving Repr, DecidableEq

inductive Guard where
  | eqf (i : Nat) (f : Fld) (j : Nat) (g : Fld)   -- in[n+i].f == in[n+j].g
  | eqc (i : Nat) (f : Fld) (c : Int)             -- in[n+i].f == c
  | nec (i : Nat) (f : Fld) (c : Int)             -- in[n+i].f != c
  deriving Repr, DecidableEq

/-- one test of the if / else-if chain that resolves a plain identifier (compiler.go `case "(name)"`) -/
inductive ResolveStep where
  | dollar | localType | local | global | builtin | unknown
  deriving Repr, DecidableEq

/-- one `case` of the peephole `switch`: window pattern, guards, output -/
structure Rule where
  lhs : List String
  guards : List Guard
  rhs : String
  a : Src
  b : Src
  c : Src
  pos : Nat
  deriving Repr, DecidableEq

/-- panic-containment fact about one Go function of the package: does it install a deferred
    `recover` handler, and which package functions does it call *outside* that handler's
    protection (every call if it has none; the handler's own calls count as unprotected) -/
structure FnFact where
  name : String
  recovers : Bool
  unprot : List String
  stages : List String     -- "error in <stage>" prefixes wrapped around errors in the body
  bareErr : Nat            -- `return …, err` statements that hand an error back unwrapped
  deriving Repr, DecidableEq

end Gen
