import Goat.Model.CF
/-!
# Compile correctness of the control-flow schemes (all nesting depths)

Big-step semantics of statements with `break`/`continue` signals (what Go prescribes) against the
relative-jump machine of do.go running the code `Goat.CF.compile` emits, with the enclosing
loop's placeholder rewriting applied exactly as compiler.go does it.
-/
namespace Goat.CF
open Goat.Peephole

/-- what the leaves do: an action transforms the state; a condition yields a boolean and may
    transform the state too (a call in a condition) -/
structure Sem (σ : Type) where
  act : Nat → σ → σ
  cval : Nat → σ → Bool
  ceff : Nat → σ → σ
  /-- `range`: RANGE pops the item the leaf pushed and installs an iterator in the hidden slot `r`;
      ITER asks it for the next pair and stores it in the key / value slots (`some`), or finds it
      exhausted (`none`, the state is then `rdone`) -/
  rinit : Int → σ → σ := fun _ s => s
  rnext : Int → Int → σ → Option σ := fun _ _ _ => none
  rdone : Int → σ → σ := fun _ s => s

inductive Out where | normal | brk | cont | ret
  deriving DecidableEq

variable {σ : Type} (M : Sem σ)

/-- Go's semantics of the statement forms -/
inductive Exec : Stmt → σ → Out → σ → Prop where
  | act {n s} : Exec (.act n) s .normal (M.act n s)
  | seqN {a b s s1 o s2} : Exec a s .normal s1 → Exec b s1 o s2 → Exec (.seq a b) s o s2
  | seqX {a b s o s1} : Exec a s o s1 → o ≠ .normal → Exec (.seq a b) s o s1
  | iteT {c a b s o s'} : M.cval c s = true → Exec a (M.ceff c s) o s' → Exec (.ite c a b) s o s'
  | iteF {c a b s o s'} : M.cval c s = false → Exec b (M.ceff c s) o s' → Exec (.ite c a b) s o s'
  | iftT {c a s o s'} : M.cval c s = true → Exec a (M.ceff c s) o s' → Exec (.ift c a) s o s'
  | iftF {c a s} : M.cval c s = false → Exec (.ift c a) s .normal (M.ceff c s)
  | brk {s} : Exec .brk s .brk s
  | cont {s} : Exec .cont s .cont s
  | loopF {c b p s} : M.cval c s = false → Exec (.loop c b p) s .normal (M.ceff c s)
  | loopT {c b p s o s1 o3 s3} : M.cval c s = true → Exec b (M.ceff c s) o s1 → o ≠ .brk → o ≠ .ret →
      Exec (.loop c b p) (M.act p s1) o3 s3 → Exec (.loop c b p) s o3 s3
  | loopR {c b p s s1} : M.cval c s = true → Exec b (M.ceff c s) .ret s1 → Exec (.loop c b p) s .ret s1
  | loopB {c b p s s1} : M.cval c s = true → Exec b (M.ceff c s) .brk s1 → Exec (.loop c b p) s .normal s1
  | foreverT {b p s o s1 o3 s3} : Exec b s o s1 → o ≠ .brk → o ≠ .ret →
      Exec (.forever b p) (M.act p s1) o3 s3 → Exec (.forever b p) s o3 s3
  | foreverR {b p s s1} : Exec b s .ret s1 → Exec (.forever b p) s .ret s1
  | ret {n s} : Exec (.ret n) s .ret (M.act n s)
  | foreverB {b p s s1} : Exec b s .brk s1 → Exec (.forever b p) s .normal s1
  -- switch: a `break` in a clause leaves the switch; `continue` goes on to the enclosing loop
  | swdN {d s o s'} : Exec d s o s' → o ≠ .brk → Exec (.swd d) s o s'
  | swdB {d s s'} : Exec d s .brk s' → Exec (.swd d) s .normal s'
  | swcT {c a r s o s'} : M.cval c s = true → Exec a (M.ceff c s) o s' → o ≠ .brk → Exec (.swc c a r) s o s'
  | swcB {c a r s s'} : M.cval c s = true → Exec a (M.ceff c s) .brk s' → Exec (.swc c a r) s .normal s'
  | swcF {c a r s o s'} : M.cval c s = false → Exec r (M.ceff c s) o s' → Exec (.swc c a r) s o s'
  -- range: the item is evaluated once; `S i` is the state before the i-th request to the iterator,
  -- `A i` the state with the i-th pair assigned; `n` full passes (each ending normally or by
  -- `continue`) are followed by exhaustion, by a pass that breaks, or by one that returns
  | rngEnd {r kv it b s} {n : Nat} {A S : Nat → σ} {O : Nat → Out} :
      S 0 = M.rinit r (M.act it s) →
      (∀ i, i < n → M.rnext r kv (S i) = some (A i)) →
      (∀ i, i < n → Exec b (A i) (O i) (S (i+1))) →
      (∀ i, i < n → O i ≠ .brk ∧ O i ≠ .ret) →
      M.rnext r kv (S n) = none →
      Exec (.rng r kv it b) s .normal (M.rdone r (S n))
  | rngBrk {r kv it b s a s'} {n : Nat} {A S : Nat → σ} {O : Nat → Out} :
      S 0 = M.rinit r (M.act it s) →
      (∀ i, i < n → M.rnext r kv (S i) = some (A i)) →
      (∀ i, i < n → Exec b (A i) (O i) (S (i+1))) →
      (∀ i, i < n → O i ≠ .brk ∧ O i ≠ .ret) →
      M.rnext r kv (S n) = some a → Exec b a .brk s' →
      Exec (.rng r kv it b) s .normal s'
  | rngRet {r kv it b s a s'} {n : Nat} {A S : Nat → σ} {O : Nat → Out} :
      S 0 = M.rinit r (M.act it s) →
      (∀ i, i < n → M.rnext r kv (S i) = some (A i)) →
      (∀ i, i < n → Exec b (A i) (O i) (S (i+1))) →
      (∀ i, i < n → O i ≠ .brk ∧ O i ≠ .ret) →
      M.rnext r kv (S n) = some a → Exec b a .ret s' →
      Exec (.rng r kv it b) s .ret s'

abbrev Cfg (σ : Type) := Nat × List Bool × σ

def CodeAt (C : List Instr) (pc : Nat) (F : List Instr) : Prop :=
  ∃ X Y, C = X ++ F ++ Y ∧ X.length = pc

variable (L : Leaves)

/-- the machine: relative jumps as in do.go (`N += A` then the loop's `N++`); a leaf's code runs as
    one macro step -/
inductive Step (C : List Instr) : Cfg σ → Cfg σ → Prop where
  | act {pc stk s n} : L.act n ≠ [] → CodeAt C pc (L.act n) →
      Step C (pc, stk, s) (pc + (L.act n).length, stk, M.act n s)
  | cnd {pc stk s c} : L.cnd c ≠ [] → CodeAt C pc (L.cnd c) →
      Step C (pc, stk, s) (pc + (L.cnd c).length, M.cval c s :: stk, M.ceff c s)
  | jmp {pc : Nat} {stk s i} {tgt : Nat} : C[pc]? = some i → i.op = "JUMP" →
      (tgt : Int) = (pc : Int) + i.a + 1 → Step C (pc, stk, s) (tgt, stk, s)
  | jfT {pc stk s i} : C[pc]? = some i → i.op = "JUMPFALSE" → Step C (pc, true :: stk, s) (pc + 1, stk, s)
  | jfF {pc : Nat} {stk s i} {tgt : Nat} : C[pc]? = some i → i.op = "JUMPFALSE" →
      (tgt : Int) = (pc : Int) + i.a + 1 → Step C (pc, false :: stk, s) (tgt, stk, s)
  | jtF {pc stk s i} : C[pc]? = some i → i.op = "JUMPTRUE" → Step C (pc, false :: stk, s) (pc + 1, stk, s)
  | jtT {pc : Nat} {stk s i} {tgt : Nat} : C[pc]? = some i → i.op = "JUMPTRUE" →
      (tgt : Int) = (pc : Int) + i.a + 1 → Step C (pc, true :: stk, s) (tgt, stk, s)
  | ret {pc stk s i} : C[pc]? = some i → i.op = "RETURN" → Step C (pc, stk, s) (C.length, stk, s)
  | range {pc : Nat} {stk s i} {tgt : Nat} : C[pc]? = some i → i.op = "RANGE" →
      (tgt : Int) = (pc : Int) + i.b + 1 → Step C (pc, stk, s) (tgt, stk, M.rinit i.a s)
  | iterT {pc : Nat} {stk s s1 i} {tgt : Nat} : C[pc]? = some i → i.op = "ITER" → M.rnext i.a i.b s = some s1 →
      (tgt : Int) = (pc : Int) + i.c + 1 → Step C (pc, stk, s) (tgt, stk, s1)
  | iterF {pc stk s i} : C[pc]? = some i → i.op = "ITER" → M.rnext i.a i.b s = none →
      Step C (pc, stk, s) (pc + 1, stk, M.rdone i.a s)

inductive Star (C : List Instr) : Cfg σ → Cfg σ → Prop where
  | refl {x} : Star C x x
  | step {x y z} : Step M L C x y → Star C y z → Star C x z

theorem Star.trans {C x y z} (h1 : Star M L C x y) (h2 : Star M L C y z) : Star M L C x z := by
  induction h1 with
  | refl => exact h2
  | step s _ ih => exact Star.step s (ih h2)

theorem Star.one {C x y} (h : Step M L C x y) : Star M L C x y := Star.step h Star.refl

theorem CodeAt.head {C pc i F} (h : CodeAt C pc (i :: F)) : C[pc]? = some i := by
  obtain ⟨X, Y, rfl, rfl⟩ := h
  simp

theorem CodeAt.tail {C pc i F} (h : CodeAt C pc (i :: F)) : CodeAt C (pc+1) F := by
  obtain ⟨X, Y, rfl, rfl⟩ := h
  exact ⟨X ++ [i], Y, by simp, by simp⟩

theorem CodeAt.left {C pc F G} (h : CodeAt C pc (F ++ G)) : CodeAt C pc F := by
  obtain ⟨X, Y, rfl, rfl⟩ := h
  exact ⟨X, G ++ Y, by simp, rfl⟩

theorem CodeAt.right {C pc F G} (h : CodeAt C pc (F ++ G)) : CodeAt C (pc + F.length) G := by
  obtain ⟨X, Y, rfl, rfl⟩ := h
  exact ⟨X ++ F, Y, by simp, by simp⟩

def isPH (i : Instr) : Bool := i.op == "BREAK" || i.op == "CONTINUE"

@[simp] theorem rw_length (db dc F) : (rw db dc F).length = F.length := by
  induction F with
  | nil => rfl
  | cons i is ih => simp [rw, ih]

theorem rwI_shift (db dc e rem i) : rwI db dc (rem + e) i = rwI (db + e) (dc + e) rem i := by
  unfold rwI
  split
  · congr 2; omega
  · split
    · congr 2; omega
    · rfl

theorem rw_append (db dc X Y) :
    rw db dc (X ++ Y) = rw (db + Y.length) (dc + Y.length) X ++ rw db dc Y := by
  induction X with
  | nil => simp [rw]
  | cons i is ih => simp [rw, ih, rwI_shift]

@[simp] theorem rwB_length (db F) : (rwB db F).length = F.length := by
  induction F with
  | nil => rfl
  | cons i is ih => simp [rwB, ih]

theorem rwI_rwBI (db dc k rem i) : rwI db dc rem (rwBI k rem i) = rwI k dc rem i := by
  unfold rwI rwBI
  by_cases h1 : i.op = "BREAK"
  · simp [h1]
  · by_cases h2 : i.op = "CONTINUE"
    · simp [h1, h2]
    · simp [h1, h2]

/-- a clause's BREAK rewriting followed by the enclosing loop's rewriting is one rewriting with
    the clause's break target and the loop's continue target -/
theorem rw_rwB (db dc k F) : rw db dc (rwB k F) = rw k dc F := by
  induction F with
  | nil => rfl
  | cons i is ih => simp [rw, rwB, ih, rwI_rwBI]

theorem rwI_noPH (db dc rem i) (h : isPH i = false) : rwI db dc rem i = i := by
  unfold isPH at h
  simp only [Bool.or_eq_false_iff, beq_eq_false_iff_ne, ne_eq] at h
  unfold rwI
  simp [h.1, h.2]

theorem rw_noPH (db dc F) (h : ∀ i ∈ F, isPH i = false) : rw db dc F = F := by
  induction F with
  | nil => rfl
  | cons i is ih =>
    have hi := h i (by simp)
    have := ih (fun j hj => h j (by simp [hj]))
    simp only [rw, this, rwI_noPH _ _ _ _ hi]

theorem noPH_rwI (db dc rem i) : isPH (rwI db dc rem i) = false := by
  unfold rwI
  split
  · simp [isPH]
  · split
    · simp [isPH]
    · rename_i h1 h2
      simp [isPH, h1, h2]

theorem noPH_rw (db dc F) : ∀ i ∈ rw db dc F, isPH i = false := by
  induction F with
  | nil => simp [rw]
  | cons i is ih =>
    intro j hj
    simp only [rw, List.mem_cons] at hj
    rcases hj with rfl | hj
    · exact noPH_rwI _ _ _ _
    · exact ih j hj

/-- leaves are straight-line code without placeholders, conditions are not empty, and an empty
    action does nothing -/
structure LeavesOK : Prop where
  act_noPH : ∀ n, ∀ i ∈ L.act n, isPH i = false
  cnd_noPH : ∀ c, ∀ i ∈ L.cnd c, isPH i = false
  cnd_ne : ∀ c, L.cnd c ≠ []
  act_empty : ∀ n, L.act n = [] → ∀ s, M.act n s = s

variable {M L}

theorem run_act (ok : LeavesOK M L) {C pc stk s n} (h : CodeAt C pc (L.act n)) :
    Star M L C (pc, stk, s) (pc + (L.act n).length, stk, M.act n s) := by
  by_cases he : L.act n = []
  · rw [he, ok.act_empty n he s]; exact Star.refl
  · exact Star.one M L (Step.act he h)

theorem run_cnd (ok : LeavesOK M L) {C pc stk s c} (h : CodeAt C pc (L.cnd c)) :
    Star M L C (pc, stk, s) (pc + (L.cnd c).length, M.cval c s :: stk, M.ceff c s) :=
  Star.one M L (Step.cnd (ok.cnd_ne c) h)

def offs (db dc : Nat) : Out → Nat
  | .normal => 0 | .brk => db | .cont => dc | .ret => 0

/-- where control is after a statement: just past its code, at the enclosing loop's break or
    continue target, or — after `return` — past the end of the function's code (the frame ends) -/
def tgt (clen pc len db dc : Nat) : Out → Nat
  | .ret => clen
  | o => pc + len + offs db dc o

theorem tgt_of_ne {clen pc len db dc : Nat} {o : Out} (h : o ≠ .ret) : tgt clen pc len db dc o = pc + len + offs db dc o := by
  cases o <;> simp [tgt] at h ⊢

/-- the re-entry point of a loop iteration: where the condition is tested -/
def entry2 (L : Leaves) (pc : Nat) : Stmt → Nat
  | .loop _ b p => pc + 1 + (compile L b).length + (L.act p).length
  | _ => pc

theorem jump_noPH (op : String) (a : Int) (h : op ≠ "BREAK" ∧ op ≠ "CONTINUE") : isPH (jump op a) = false := by
  simp [isPH, jump, h.1, h.2]

theorem loop_code_noPH (ok : LeavesOK M L) (c b p) : ∀ i ∈ compile L (.loop c b p), isPH i = false := by
  intro i hi
  simp only [compile, List.mem_append, List.mem_cons, List.mem_singleton, List.mem_nil_iff, or_false] at hi
  rcases hi with (((hi | hi) | hi) | hi) | hi
  · subst hi; exact jump_noPH _ _ (by decide)
  · exact noPH_rw _ _ _ i hi
  · exact ok.act_noPH p i hi
  · exact ok.cnd_noPH c i hi
  · subst hi; exact jump_noPH _ _ (by decide)

theorem forever_code_noPH (ok : LeavesOK M L) (b p) : ∀ i ∈ compile L (.forever b p), isPH i = false := by
  intro i hi
  simp only [compile, List.mem_append, List.mem_cons, List.mem_singleton, List.mem_nil_iff, or_false] at hi
  rcases hi with (hi | hi) | hi
  · exact noPH_rw _ _ _ i hi
  · exact ok.act_noPH p i hi
  · subst hi; exact jump_noPH _ _ (by decide)

theorem rng_code_noPH (ok : LeavesOK M L) (r kv it b) : ∀ i ∈ compile L (.rng r kv it b), isPH i = false := by
  intro i hi
  simp only [compile, List.mem_append, List.mem_cons, List.mem_singleton, List.mem_nil_iff, or_false] at hi
  rcases hi with ((hi | hi) | hi) | hi
  · exact ok.act_noPH it i hi
  · subst hi; rfl
  · exact noPH_rw _ _ _ i hi
  · subst hi; rfl

end Goat.CF
