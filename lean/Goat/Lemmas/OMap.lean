import Goat.Model.OMap
/-! Helper lemmas for the ordered-map model (association lists, the invariant, iterator steps). -/
namespace Goat.OMap

variable {K V : Type} [DecidableEq K]

/-! ### association lists -/

theorem aget_aput_eq (k : K) (v : V) (d : List (K × V)) : aget k (aput k v d) = some v := by
  induction d with
  | nil => simp [aput, aget]
  | cons p t ih =>
    obtain ⟨k', v'⟩ := p
    by_cases h : k' = k
    · simp [aput, aget, h]
    · simp [aput, aget, h, ih]

theorem aget_aput_ne {k k' : K} (v : V) (d : List (K × V)) (h : k' ≠ k) :
    aget k' (aput k v d) = aget k' d := by
  induction d with
  | nil => simp [aput, aget, Ne.symm h]
  | cons p t ih =>
    obtain ⟨k2, v2⟩ := p
    by_cases h2 : k2 = k
    · subst h2
      simp [aput, aget, Ne.symm h]
    · by_cases h3 : k2 = k'
      · subst h3; simp [aput, aget, h2]
      · simp [aput, aget, h2, h3, ih]

theorem mem_akeys_iff (k : K) (d : List (K × V)) : k ∈ akeys d ↔ (aget k d).isSome := by
  induction d with
  | nil => simp [akeys, aget]
  | cons p t ih =>
    obtain ⟨k', v'⟩ := p
    by_cases h : k' = k
    · simp [akeys, aget, h]
    · simp only [akeys, List.map_cons, List.mem_cons, aget, h, if_false]
      simp only [akeys] at ih
      rw [← ih]
      constructor
      · rintro (h1 | h1)
        · exact absurd h1.symm h
        · exact h1
      · exact Or.inr

theorem akeys_aput_old (k : K) (v : V) (d : List (K × V)) (h : (aget k d).isSome) :
    akeys (aput k v d) = akeys d := by
  induction d with
  | nil => simp [aget] at h
  | cons p t ih =>
    obtain ⟨k', v'⟩ := p
    by_cases h1 : k' = k
    · simp [aput, akeys, h1]
    · simp only [aget, h1, if_false] at h
      simp only [aput, h1, if_false, akeys, List.map_cons]
      have := ih h
      simp only [akeys] at this
      rw [this]

theorem akeys_aput_new (k : K) (v : V) (d : List (K × V)) (h : aget k d = none) :
    akeys (aput k v d) = akeys d ++ [k] := by
  induction d with
  | nil => simp [aput, akeys]
  | cons p t ih =>
    obtain ⟨k', v'⟩ := p
    by_cases h1 : k' = k
    · simp [aget, h1] at h
    · simp only [aget, h1, if_false] at h
      simp only [aput, h1, if_false, akeys, List.map_cons, List.cons_append]
      have := ih h
      simp only [akeys] at this
      rw [this]

theorem akeys_adel (k : K) (d : List (K × V)) : akeys (adel k d) = (akeys d).erase k := by
  induction d with
  | nil => simp [adel, akeys]
  | cons p t ih =>
    obtain ⟨k', v'⟩ := p
    by_cases h1 : k' = k
    · simp [adel, akeys, h1]
    · simp only [adel, h1, if_false, akeys, List.map_cons]
      rw [List.erase_cons_tail (by simpa using h1)]
      simp only [akeys] at ih
      rw [ih]

theorem aget_adel_ne {k k' : K} (d : List (K × V)) (h : k' ≠ k) : aget k' (adel k d) = aget k' d := by
  induction d with
  | nil => simp [adel, aget]
  | cons p t ih =>
    obtain ⟨k2, v2⟩ := p
    by_cases h2 : k2 = k
    · subst h2
      simp [adel, aget, Ne.symm h]
    · by_cases h3 : k2 = k'
      · subst h3; simp [adel, aget, h2]
      · simp [adel, aget, h2, h3, ih]

theorem aget_adel_eq (k : K) (d : List (K × V)) (hn : (akeys d).Nodup) : aget k (adel k d) = none := by
  have h1 : k ∉ akeys (adel k d) := by
    rw [akeys_adel]
    intro hm
    exact (List.Nodup.mem_erase_iff hn).mp hm |>.1 rfl
  cases h : aget k (adel k d) with
  | none => rfl
  | some v =>
    exact absurd ((mem_akeys_iff k _).mpr (by simp [h])) h1

theorem length_adel (k : K) (d : List (K × V)) :
    (adel k d).length = if (aget k d).isSome then d.length - 1 else d.length := by
  induction d with
  | nil => simp [adel, aget]
  | cons p t ih =>
    obtain ⟨k', v'⟩ := p
    by_cases h1 : k' = k
    · simp [adel, aget, h1]
    · simp only [adel, aget, h1, if_false, List.length_cons, ih]
      split
      · rename_i h
        have : t.length ≠ 0 := by
          intro h0
          have : t = [] := List.length_eq_zero_iff.mp h0
          subst this
          simp [aget] at h
        omega
      · rfl

theorem length_aput (k : K) (v : V) (d : List (K × V)) :
    (aput k v d).length = if (aget k d).isSome then d.length else d.length + 1 := by
  induction d with
  | nil => simp [aput, aget]
  | cons p t ih =>
    obtain ⟨k', v'⟩ := p
    by_cases h1 : k' = k
    · simp [aput, aget, h1]
    · simp only [aput, aget, h1, if_false, List.length_cons, ih]
      split <;> rfl

/-! ### a counting fact: a duplicate-free list that covers another and is no longer has the same members -/

theorem mem_of_nodup_subset_length {l1 l2 : List K} (h1 : l1.Nodup) (hs : ∀ x ∈ l1, x ∈ l2)
    (hl : l2.length ≤ l1.length) : ∀ x ∈ l2, x ∈ l1 := by
  induction l1 generalizing l2 with
  | nil =>
    intro x hx
    have : l2 = [] := List.length_eq_zero_iff.mp (by simpa using hl)
    subst this
    cases hx
  | cons a t ih =>
    have ha : a ∈ l2 := hs a (List.mem_cons_self ..)
    have hnd := List.nodup_cons.mp h1
    have hsub : ∀ x ∈ t, x ∈ l2.erase a := by
      intro x hx
      have hne : x ≠ a := fun e => hnd.1 (e ▸ hx)
      exact (List.mem_erase_of_ne hne).mpr (hs x (List.mem_cons_of_mem _ hx))
    have hlen : (l2.erase a).length ≤ t.length := by
      rw [List.length_erase_of_mem ha]
      simp only [List.length_cons] at hl
      omega
    intro x hx
    by_cases hxa : x = a
    · subst hxa; exact List.mem_cons_self ..
    · exact List.mem_cons_of_mem _ (ih hnd.2 hsub hlen x ((List.mem_erase_of_ne hxa).mpr hx))

/-! ### the invariant -/

/-- live keys are duplicate-free, the key list is duplicate-free, and lists every live key -/
structure Inv (m : M K V) : Prop where
  live_nodup : m.live.Nodup
  keys_nodup : m.keys.Nodup
  live_sub : ∀ k ∈ m.live, k ∈ m.keys

theorem inv_set (m : M K V) (k : K) (v : V) (h : Inv m) : Inv (m.set k v) := by
  unfold M.set
  by_cases hk : (m.get k).isSome
  · rw [if_pos hk]
    have e : akeys (aput k v m.data) = akeys m.data := akeys_aput_old k v m.data hk
    exact ⟨by simpa [M.live, e] using h.live_nodup, h.keys_nodup, by simpa [M.live, e] using h.live_sub⟩
  · rw [if_neg hk]
    have hnone : aget k m.data = none := by
      cases h' : aget k m.data with
      | none => rfl
      | some _ => simp [M.get, h'] at hk
    have e : akeys (aput k v m.data) = akeys m.data ++ [k] := akeys_aput_new k v m.data hnone
    have hknl : k ∉ m.live := by
      intro hm
      have := (mem_akeys_iff k m.data).mp hm
      simp [hnone] at this
    refine ⟨?_, ?_, ?_⟩
    · simp only [M.live, e]
      exact List.nodup_append.mpr ⟨h.live_nodup, by simp, by
        intro a ha b hb; simp at hb; subst hb; intro e'; subst e'; exact hknl ha⟩
    · show ((if m.keys.length > m.data.length then m.keys.erase k else m.keys) ++ [k]).Nodup
      by_cases hgt : m.keys.length > m.data.length
      · simp only [hgt, if_true]
        refine List.nodup_append.mpr ⟨h.keys_nodup.erase k, by simp, ?_⟩
        intro a ha b hb; simp at hb; subst hb; intro e'; subst e'
        exact ((List.Nodup.mem_erase_iff h.keys_nodup).mp ha).1 rfl
      · simp only [hgt, if_false]
        refine List.nodup_append.mpr ⟨h.keys_nodup, by simp, ?_⟩
        intro a ha b hb; simp at hb; subst hb; intro e'; subst e'
        have hlen : m.keys.length ≤ m.live.length := by simp [M.live, akeys]; omega
        exact hknl (mem_of_nodup_subset_length h.live_nodup h.live_sub hlen _ ha)
    · intro x hx
      simp only [M.live, e] at hx
      show x ∈ (if m.keys.length > m.data.length then m.keys.erase k else m.keys) ++ [k]
      rcases List.mem_append.mp hx with hx | hx
      · have hxk : x ∈ m.keys := h.live_sub x hx
        have hne : x ≠ k := fun e' => hknl (e' ▸ hx)
        apply List.mem_append_left
        split
        · exact (List.mem_erase_of_ne hne).mpr hxk
        · exact hxk
      · exact List.mem_append_right _ hx

theorem inv_delete (m : M K V) (k : K) (perm : List K) (h : Inv m)
    (hp : perm.Perm (akeys (adel k m.data))) : Inv (m.delete k perm) := by
  unfold M.delete
  have e : akeys (adel k m.data) = m.live.erase k := akeys_adel k m.data
  have hnd : (akeys (adel k m.data)).Nodup := by rw [e]; exact h.live_nodup.erase k
  by_cases hc : (adel k m.data).length ≥ m.keys.length / 2
  · simp only [hc, if_true]
    refine ⟨by simpa [M.live] using hnd, h.keys_nodup, ?_⟩
    intro x hx
    simp only [M.live, e] at hx
    exact h.live_sub x (List.mem_of_mem_erase hx)
  · simp only [hc, if_false]
    refine ⟨by simpa [M.live] using hnd, hp.nodup_iff.mpr hnd, ?_⟩
    intro x hx
    exact hp.mem_iff.mpr hx

theorem inv_empty : Inv (⟨[], []⟩ : M K V) := ⟨by simp [M.live, akeys], by simp, by simp [M.live, akeys]⟩

/-! ### iterator steps -/

theorem next_some {m : M K V} {rem rem' : List K} {k : K} {v : V}
    (h : next m rem = (some (k, v), rem')) :
    ∃ pre, rem = pre ++ k :: rem' ∧ m.get k = some v ∧ ∀ x ∈ pre, m.get x = none := by
  induction rem with
  | nil => simp [next] at h
  | cons a t ih =>
    unfold next at h
    cases hg : m.get a with
    | some w =>
      simp only [hg] at h
      obtain ⟨⟨rfl, rfl⟩, rfl⟩ := by simpa using h
      exact ⟨[], rfl, hg, by simp⟩
    | none =>
      simp only [hg] at h
      obtain ⟨pre, e, hv, hd⟩ := ih h
      refine ⟨a :: pre, by simp [e], hv, ?_⟩
      intro x hx
      rcases List.mem_cons.mp hx with rfl | hx
      · exact hg
      · exact hd x hx

theorem next_none {m : M K V} {rem rem' : List K} (h : next m rem = (none, rem')) :
    rem' = [] ∧ ∀ x ∈ rem, m.get x = none := by
  induction rem with
  | nil => simp [next] at h; exact ⟨h.symm ▸ rfl, by simp⟩
  | cons a t ih =>
    unfold next at h
    cases hg : m.get a with
    | some w => simp [hg] at h
    | none =>
      simp only [hg] at h
      obtain ⟨e, hd⟩ := ih h
      refine ⟨e, ?_⟩
      intro x hx
      rcases List.mem_cons.mp hx with rfl | hx
      · exact hg
      · exact hd x hx

end Goat.OMap
