import Goat.Model.Peephole
/-!
# Two greedy passes of the peephole optimizer reach a fixpoint

The proof is generic in the instruction payloads and uses the rule table only through a handful
of finite facts (`fact_*`), each closed by kernel evaluation on the table regenerated from
compiler.go. If a rule is added or changed so that a fused opcode can start or end another
window, the corresponding fact fails and the theorem is no longer available.
-/
namespace Goat.Peephole

abbrev rules := Gen.peephole

/-! ### facts about the regenerated rule table -/

/-- every window has 1 to 3 instructions -/
theorem fact_len : ∀ r ∈ rules, 1 ≤ r.lhs.length ∧ r.lhs.length ≤ 3 := by decide
/-- no window starts with an opcode that some rule produces -/
theorem fact_H : ∀ r ∈ rules, ∀ r' ∈ rules, r'.lhs.head? ≠ some r.rhs := by decide
/-- a produced opcode can be the middle of a window only as INCDEC inside LOCALGET;INCDEC;LOCALSET -/
theorem fact_P1 : ∀ r ∈ rules, ∀ r' ∈ rules, r'.lhs[1]? = some r.rhs →
    r'.lhs = ["LOCALGET", "INCDEC", "LOCALSET"] ∧ r.rhs = "INCDEC" := by decide
/-- no window ends (third position) with a produced opcode -/
theorem fact_P2 : ∀ r ∈ rules, ∀ r' ∈ rules, r'.lhs[2]? ≠ some r.rhs := by decide
/-- INCDEC is produced only from windows that start with PUSH -/
theorem fact_I : ∀ r ∈ rules, r.rhs = "INCDEC" → r.lhs.head? = some "PUSH" := by decide

def guardIdx : Gen.Guard → Nat
  | .eqf i _ j _ => max i j
  | .eqc i _ _ => i
  | .nec i _ _ => i
/-- guards look only inside the window -/
theorem fact_G : ∀ r ∈ rules, ∀ g ∈ r.guards, guardIdx g < r.lhs.length := by decide

/-! ### basic properties of matching -/

theorem fires_len {r : Gen.Rule} {l} (h : fires r l = true) : r.lhs.length ≤ l.length := by
  simp only [fires, Bool.and_eq_true, beq_iff_eq] at h
  have := congrArg List.length h.1
  simp [opsOf] at this
  omega

theorem fires_ops {r : Gen.Rule} {l} (h : fires r l = true) : opsOf (l.take r.lhs.length) = r.lhs := by
  simp only [fires, Bool.and_eq_true, beq_iff_eq] at h; exact h.1

theorem build_op (r : Gen.Rule) (l) : (build r l).op = r.rhs := rfl

private theorem getElem?_take_eq {l l' : List Instr} {n i : Nat} (h : l.take n = l'.take n) (hi : i < n) :
    l[i]? = l'[i]? := by
  have h1 : (l.take n)[i]? = l[i]? := by rw [List.getElem?_take]; simp [hi]
  have h2 : (l'.take n)[i]? = l'[i]? := by rw [List.getElem?_take]; simp [hi]
  rw [← h1, ← h2, h]

/-- whether a rule fires depends only on the first `|lhs|` instructions -/
theorem fires_congr {r : Gen.Rule} (hr : r ∈ rules) {l l' : List Instr}
    (h : l.take r.lhs.length = l'.take r.lhs.length) : fires r l = fires r l' := by
  have hg : ∀ g ∈ r.guards, guardOk l g = guardOk l' g := by
    intro g hg
    have hi := fact_G r hr g hg
    cases g with
    | eqf i f j g' =>
      simp only [guardIdx] at hi
      simp only [guardOk]
      rw [getElem?_take_eq h (by omega : i < r.lhs.length), getElem?_take_eq h (by omega : j < r.lhs.length)]
    | eqc i f c =>
      simp only [guardIdx] at hi
      simp only [guardOk]
      rw [getElem?_take_eq h hi]
    | nec i f c =>
      simp only [guardIdx] at hi
      simp only [guardOk]
      rw [getElem?_take_eq h hi]
  have hall : r.guards.all (guardOk l) = r.guards.all (guardOk l') := by
    apply Bool.eq_iff_iff.mpr
    simp only [List.all_eq_true]
    constructor
    · intro h1 g hm; rw [← hg g hm]; exact h1 g hm
    · intro h1 g hm; rw [hg g hm]; exact h1 g hm
  unfold fires
  rw [h, hall]

theorem matchAt_some {l f k} (h : matchAt rules l = some (f, k)) :
    ∃ r ∈ rules, fires r l = true ∧ f = build r l ∧ k = r.lhs.length := by
  simp only [matchAt, Option.map_eq_some_iff] at h
  obtain ⟨r, hr, heq⟩ := h
  have hm := List.mem_of_find?_eq_some hr
  have hf := List.find?_some hr
  simp only [Prod.mk.injEq] at heq
  exact ⟨r, hm, hf, heq.1.symm, heq.2.symm⟩

theorem matchAt_none {l} (h : matchAt rules l = none) : ∀ r ∈ rules, fires r l = false := by
  simp only [matchAt, Option.map_eq_none_iff] at h
  intro r hr
  have := List.find?_eq_none.mp h r hr
  simpa using this

theorem matchAt_len {l f k} (h : matchAt rules l = some (f, k)) : 1 ≤ k ∧ k ≤ l.length := by
  obtain ⟨r, hr, hf, _, rfl⟩ := matchAt_some h
  exact ⟨(fact_len r hr).1, fires_len hf⟩

theorem doOpt_fused {i rest f k} (h : matchAt rules (i :: rest) = some (f, k)) :
    doOpt rules (i :: rest) = f :: doOpt rules ((i :: rest).drop k) := by
  rw [doOpt]
  split
  · rename_i f' k' h'
    rw [h] at h'; cases h'
    have := (matchAt_len h).1
    rw [Nat.max_eq_left this]
  · rename_i h'; rw [h] at h'; cases h'

theorem doOpt_plain {i rest} (h : matchAt rules (i :: rest) = none) :
    doOpt rules (i :: rest) = i :: doOpt rules rest := by
  rw [doOpt]
  split
  · rename_i f' k' h'; rw [h] at h'; cases h'
  · rfl

theorem doOpt_nil : doOpt rules [] = [] := by rw [doOpt]

/-- every suffix of the output is the output of a suffix of the input -/
theorem suffix_doOpt : ∀ (n : Nat) (l : List Instr), l.length ≤ n → ∀ t, t <:+ doOpt rules l →
    ∃ s, s <:+ l ∧ t = doOpt rules s := by
  intro n
  induction n with
  | zero =>
    intro l hl t ht
    have : l = [] := List.length_eq_zero_iff.mp (by omega)
    subst this
    exact ⟨[], List.suffix_refl _, by simpa [doOpt_nil] using ht⟩
  | succ n ih =>
    intro l hl t ht
    match l with
    | [] => exact ⟨[], List.suffix_refl _, by simpa [doOpt_nil] using ht⟩
    | i :: rest =>
      cases hm : matchAt rules (i :: rest) with
      | none =>
        rw [doOpt_plain hm] at ht
        rcases List.suffix_cons_iff.mp ht with rfl | ht'
        · exact ⟨i :: rest, List.suffix_refl _, (doOpt_plain hm).symm⟩
        · obtain ⟨s, hs, rfl⟩ := ih rest (by simp at hl; omega) t ht'
          exact ⟨s, hs.trans (List.suffix_cons _ _), rfl⟩
      | some fk =>
        obtain ⟨f, k⟩ := fk
        rw [doOpt_fused hm] at ht
        rcases List.suffix_cons_iff.mp ht with rfl | ht'
        · exact ⟨i :: rest, List.suffix_refl _, (doOpt_fused hm).symm⟩
        · have hk := matchAt_len hm
          obtain ⟨s, hs, rfl⟩ := ih ((i :: rest).drop k) (by simp at hl ⊢; omega) t ht'
          exact ⟨s, hs.trans (List.drop_suffix _ _), rfl⟩

theorem fires_head {r : Gen.Rule} (hr : r ∈ rules) {e T} (h : fires r (e :: T) = true) :
    r.lhs.head? = some e.op := by
  have hl := (fact_len r hr).1
  have ho := fires_ops h
  match hlhs : r.lhs with
  | [] => rw [hlhs] at hl; simp at hl
  | a :: t =>
    rw [hlhs] at ho
    simp only [List.length_cons, List.take_succ_cons, opsOf, List.map_cons, List.cons.injEq] at ho
    simp [ho.1]

theorem fires_matchAt {r : Gen.Rule} (hr : r ∈ rules) {l} (h : fires r l = true) :
    ∃ fk, matchAt rules l = some fk := by
  cases hm : matchAt rules l with
  | some fk => exact ⟨fk, rfl⟩
  | none => have := matchAt_none hm r hr; rw [h] at this; cases this

/-- how the head of a pass's output arose -/
inductive HeadCase (s : List Instr) : Prop where
  | nil : s = [] → doOpt rules s = [] → HeadCase s
  | fused (r2 : Gen.Rule) (e : Instr) (T : List Instr) : r2 ∈ rules → fires r2 s = true →
      doOpt rules s = e :: T → e.op = r2.rhs → HeadCase s
  | plain (j : Instr) (rest2 : List Instr) : s = j :: rest2 → matchAt rules s = none →
      doOpt rules s = j :: doOpt rules rest2 → HeadCase s

theorem headCase (s : List Instr) : HeadCase s := by
  match s with
  | [] => exact .nil rfl doOpt_nil
  | j :: rest2 =>
    cases hm : matchAt rules (j :: rest2) with
    | some fk =>
      obtain ⟨f, k⟩ := fk
      obtain ⟨r2, hr2, hf2, hb2, -⟩ := matchAt_some hm
      exact .fused r2 f _ hr2 hf2 (doOpt_fused hm) (by rw [hb2, build_op])
    | none => exact .plain j rest2 rfl hm (doOpt_plain hm)

private theorem ops_get {r : Gen.Rule} {l : List Instr} (h : fires r l = true) (p : Nat) (e : Instr)
    (hp : p < r.lhs.length) (he : l[p]? = some e) : r.lhs[p]? = some e.op := by
  have ho := fires_ops h
  have : (opsOf (l.take r.lhs.length))[p]? = some e.op := by
    simp [opsOf, List.getElem?_take, hp, he]
  rw [ho] at this
  exact this

/-- Key lemma: a rule can fire on the *output* of a pass only as the LOCALGET;INCDEC;LOCALSET
    window around an INCDEC that this very pass produced. -/
theorem key {s : List Instr} {fk} (h : matchAt rules (doOpt rules s) = some fk) :
    ∃ i rest, s = i :: rest ∧ i.op = "LOCALGET" ∧ doOpt rules s = i :: doOpt rules rest ∧
      ∃ r ∈ rules, r.rhs = "INCDEC" ∧ fires r rest = true := by
  obtain ⟨f, k⟩ := fk
  obtain ⟨r', hr', hf', -, -⟩ := matchAt_some h
  have hlen := fact_len r' hr'
  rcases headCase s with ⟨rfl, h0⟩ | ⟨r1, e, T, hr1, -, hd, hop⟩ | ⟨i, rest, rfl, hm, hplain⟩
  · rw [h0] at hf'
    have h1 := fires_len hf'
    simp only [List.length_nil] at h1; omega
  · -- the head of the output is a fused instruction: no window starts with a fused opcode
    rw [hd] at hf'
    exfalso
    apply fact_H r1 hr1 r' hr'
    rw [fires_head hr' hf', hop]
  · rw [hplain] at hf'
    have noFire := matchAt_none hm r' hr'
    rcases headCase rest with ⟨hr0, h0⟩ | ⟨r2, e, T, hr2, hf2, hd, hop⟩ | ⟨j, rest2, rfl, hm2, hp2⟩
    · -- output is [i]: only a one-instruction window can fire, and then it fires on the input too
      exfalso
      subst hr0
      rw [h0] at hf'
      have h1 := fires_len hf'
      simp only [List.length_cons, List.length_nil] at h1
      have : fires r' [i] = true := hf'
      rw [this] at noFire; cases noFire
    · rw [hd] at hf'
      by_cases h1 : r'.lhs.length = 1
      · -- a one-instruction window sees only `i`, which did not match on the input
        exfalso
        have : fires r' (i :: rest) = fires r' (i :: e :: T) :=
          fires_congr hr' (by rw [h1]; simp)
        rw [hf'] at this; rw [this] at noFire; cases noFire
      · have h1' : r'.lhs[1]? = some r2.rhs := by
          rw [ops_get hf' 1 e (by omega) (by simp), hop]
        obtain ⟨hops, hid⟩ := fact_P1 r2 hr2 r' hr' h1'
        refine ⟨i, rest, rfl, ?_, hplain, r2, hr2, hid, hf2⟩
        have := fires_head hr' hf'
        rw [hops] at this
        simpa using this.symm
    · rw [hp2] at hf'
      by_cases h2 : r'.lhs.length ≤ 2
      · exfalso
        have : fires r' (i :: j :: rest2) = fires r' (i :: j :: doOpt rules rest2) :=
          fires_congr hr' (by
            rcases Nat.lt_or_ge r'.lhs.length 2 with h3 | h3
            · have : r'.lhs.length = 1 := by omega
              rw [this]; simp
            · have : r'.lhs.length = 2 := by omega
              rw [this]; simp)
        rw [hf'] at this; rw [this] at noFire; cases noFire
      · have h3 : r'.lhs.length = 3 := by omega
        rcases headCase rest2 with ⟨hr0, h0⟩ | ⟨r3, e, T, hr3, -, hd, hop⟩ | ⟨k', rest3, rfl, hm3, hp3⟩
        · exfalso
          rw [h0] at hf'
          have := fires_len hf'
          simp only [List.length_cons, List.length_nil] at this; omega
        · exfalso
          rw [hd] at hf'
          apply fact_P2 r3 hr3 r' hr'
          rw [ops_get hf' 2 e (by omega) (by simp), hop]
        · exfalso
          rw [hp3] at hf'
          have : fires r' (i :: j :: k' :: rest3) = fires r' (i :: j :: k' :: doOpt rules rest3) :=
            fires_congr hr' (by rw [h3]; simp)
          rw [hf'] at this; rw [this] at noFire; cases noFire

/-- Two greedy passes reach a fixpoint: no rule fires at any position of the result. -/
theorem stable2 (l : List Instr) : ∀ t, t <:+ doOpt rules (doOpt rules l) → matchAt rules t = none := by
  intro t ht
  cases hmt : matchAt rules t with
  | none => rfl
  | some fk =>
    exfalso
    obtain ⟨s1, hs1, rfl⟩ := suffix_doOpt _ (doOpt rules l) (Nat.le_refl _) t ht
    obtain ⟨i, rest, rfl, -, -, r, hr, hid, hfr⟩ := key hmt
    have hpush := fact_I r hr hid
    have hrest : rest <:+ doOpt rules l := (List.suffix_cons i rest).trans hs1
    obtain ⟨s', -, rfl⟩ := suffix_doOpt _ l (Nat.le_refl _) rest hrest
    obtain ⟨fk', hm'⟩ := fires_matchAt hr hfr
    obtain ⟨i', rest', rfl, hlg, hpl, -⟩ := key hm'
    rw [hpl] at hfr
    have := fires_head hr hfr
    rw [hpush, hlg] at this
    exact absurd this (by decide)

/-- hence a further pass (re-optimising an enclosing block) changes nothing -/
theorem doOpt_of_stable : ∀ (n : Nat) (l : List Instr), l.length ≤ n →
    (∀ t, t <:+ l → matchAt rules t = none) → doOpt rules l = l := by
  intro n
  induction n with
  | zero =>
    intro l hl _
    have : l = [] := List.length_eq_zero_iff.mp (by omega)
    subst this; exact doOpt_nil
  | succ n ih =>
    intro l hl h
    match l with
    | [] => exact doOpt_nil
    | i :: rest =>
      rw [doOpt_plain (h _ (List.suffix_refl _))]
      rw [ih rest (by simp at hl; omega) (fun t ht => h t (ht.trans (List.suffix_cons _ _)))]

theorem opt_stable (l : List Instr) :
    doOpt rules (doOpt rules (doOpt rules l)) = doOpt rules (doOpt rules l) :=
  doOpt_of_stable _ _ (Nat.le_refl _) (stable2 l)

end Goat.Peephole
