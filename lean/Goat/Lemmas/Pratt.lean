import Goat.Model.Pratt
/-!
# The Pratt parser inverts the precedence printer (all expression sizes, all nesting depths)

`render T m e` prints `e` with exactly the parentheses a grammar with binding powers `T` needs
when `e` stands in a context that requires binding power `m` (plus every explicit `paren` node).
`parse_render` shows that `parseExpr` reads this text back as `fold e` (= `e` with redundant
parentheses dropped and `-<literal>` folded, which is what `negateNud` does).
-/
namespace Goat.Pratt

variable (T : Table)

/-- side conditions on the table, all decidable facts about the generated table -/
structure Table.OK : Prop where
  bin_pos : ∀ s bp, T.lbp? s = some bp → T.parenBP < bp
  bin_le_pre : ∀ s bp p pb, T.lbp? s = some bp → T.pre? p = some pb → bp ≤ pb

def headLbp : List Tok → Nat
  | Tok.sym s :: _ => T.lbp s
  | _ => 0

/-- source expressions: operators known to the table, literals unsigned -/
def WF : Expr → Prop
  | .name _ => True
  | .int neg _ => neg = false
  | .un op e => (T.pre? op).isSome ∧ WF e
  | .bin op l r => (T.lbp? op).isSome ∧ WF l ∧ WF r
  | .paren e => WF e

def render : Nat → Expr → List Tok
  | _, .name s => [Tok.name s]
  | _, .int _ n => [Tok.int n]
  | _, .un op e => Tok.sym op :: render ((T.pre? op).getD 0 + 1) e
  | m, .bin op l r =>
    if m ≤ T.lbp op then render (T.lbp op) l ++ Tok.sym op :: render (T.lbp op + 1) r
    else Tok.lp :: (render (T.lbp op) l ++ Tok.sym op :: render (T.lbp op + 1) r) ++ [Tok.rp]
  | _, .paren e => Tok.lp :: render (T.parenBP + 1) e ++ [Tok.rp]

/-- what the parser builds: redundant parentheses vanish, `-<literal>` folds -/
def fold : Expr → Expr
  | .name s => .name s
  | .int neg n => .int neg n
  | .un op e => mkUn op (fold e)
  | .bin op l r => .bin op (fold l) (fold r)
  | .paren e => fold e

/-- fuel monotonicity, both functions at once -/
theorem mono (f : Nat) :
    (∀ rbp ts r, parseExpr T f rbp ts = some r → parseExpr T (f+1) rbp ts = some r) ∧
    (∀ rbp l ts r, loop T f rbp l ts = some r → loop T (f+1) rbp l ts = some r) := by
  induction f with
  | zero => constructor <;> intros <;> simp [parseExpr, loop] at *
  | succ f ih =>
    obtain ⟨ihp, ihl⟩ := ih
    constructor
    · intro rbp ts r h
      match ts with
      | [] => simp [parseExpr] at h
      | Tok.name s :: rest =>
        rw [parseExpr] at h; rw [parseExpr]
        exact ihl _ _ _ _ h
      | Tok.int n :: rest =>
        rw [parseExpr] at h; rw [parseExpr]
        exact ihl _ _ _ _ h
      | Tok.lp :: rest =>
        rw [parseExpr] at h; rw [parseExpr]
        split at h
        · rename_i e rest' heq
          rw [ihp _ _ _ heq]; exact ihl _ _ _ _ h
        · cases h
      | Tok.sym s :: rest =>
        rw [parseExpr] at h; rw [parseExpr]
        cases hp : T.pre? s with
        | none => simp [hp] at h
        | some bp =>
          simp only [hp] at h ⊢
          split at h
          · rename_i e rest' heq
            rw [ihp _ _ _ heq]; exact ihl _ _ _ _ h
          · cases h
      | Tok.rp :: rest => simp [parseExpr] at h
    · intro rbp l ts r h
      match ts with
      | Tok.sym s :: rest =>
        rw [loop] at h; rw [loop]
        cases hb : T.lbp? s with
        | none => simpa [hb] using h
        | some bp =>
          simp only [hb] at h ⊢
          by_cases hlt : rbp < bp
          · simp only [hlt, if_true] at h ⊢
            split at h
            · rename_i e rest' heq
              rw [ihp _ _ _ heq]; exact ihl _ _ _ _ h
            · cases h
          · simp only [hlt, if_false] at h ⊢
            exact h
      | [] => simpa [loop] using h
      | Tok.name s :: rest => simpa [loop] using h
      | Tok.int n :: rest => simpa [loop] using h
      | Tok.lp :: rest => simpa [loop] using h
      | Tok.rp :: rest => simpa [loop] using h

theorem mono_parse {f f' rbp ts r} (h : parseExpr T f rbp ts = some r) (hle : f ≤ f') :
    parseExpr T f' rbp ts = some r := by
  induction hle with
  | refl => exact h
  | step _ ih => exact (mono T _).1 _ _ _ ih

theorem mono_loop {f f' rbp l ts r} (h : loop T f rbp l ts = some r) (hle : f ≤ f') :
    loop T f' rbp l ts = some r := by
  induction hle with
  | refl => exact h
  | step _ ih => exact (mono T _).2 _ _ _ _ ih

theorem loop_stop {f c e X} (h : headLbp T X ≤ c) : loop T (f+1) c e X = some (e, X) := by
  match X, h with
  | Tok.sym s :: rest, h =>
    rw [loop]
    cases hb : T.lbp? s with
    | none => simp
    | some bp =>
      have : ¬ c < bp := by
        simp only [headLbp, Table.lbp, hb, Option.getD_some] at h; omega
      simp [this]
  | [], _ => simp [loop]
  | Tok.name s :: rest, _ => simp [loop]
  | Tok.int n :: rest, _ => simp [loop]
  | Tok.lp :: rest, _ => simp [loop]
  | Tok.rp :: rest, _ => simp [loop]

/-- the unparenthesised binary case, given the two induction hypotheses -/
theorem bin_bare (s : String) (bp : Nat) (hs : T.lbp? s = some bp) (l r : Expr)
    (ihl : ∀ m c X f res, c < m → headLbp T X ≤ m → loop T f c (fold l) X = some res →
        ∃ f', parseExpr T f' c (render T m l ++ X) = some res)
    (ihr : ∀ m c X f res, c < m → headLbp T X ≤ m → loop T f c (fold r) X = some res →
        ∃ f', parseExpr T f' c (render T m r ++ X) = some res)
    (c : Nat) (X : List Tok) (f : Nat) (res) (hc : c < bp) (hX : headLbp T X ≤ bp)
    (h : loop T f c (Expr.bin s (fold l) (fold r)) X = some res) :
    ∃ f', parseExpr T f' c ((render T bp l ++ Tok.sym s :: render T (bp + 1) r) ++ X) = some res := by
  obtain ⟨f1, h1⟩ := ihr (bp + 1) bp X 1 (fold r, X) (by omega) (by omega) (loop_stop T hX)
  let F := max f1 f
  have h2 : loop T (F+1) c (fold l) (Tok.sym s :: (render T (bp + 1) r ++ X)) = some res := by
    rw [loop]
    simp only [hs, hc, if_true]
    rw [mono_parse T h1 (Nat.le_max_left _ _)]
    exact mono_loop T h (Nat.le_max_right _ _)
  have hh : headLbp T (Tok.sym s :: (render T (bp + 1) r ++ X)) ≤ bp := by
    simp [headLbp, Table.lbp, hs]
  obtain ⟨f', h3⟩ := ihl bp c _ _ res hc hh h2
  exact ⟨f', by simpa [List.append_assoc] using h3⟩

theorem parse_render (hT : T.OK) (e : Expr) : WF T e → ∀ m c X f res, c < m → headLbp T X ≤ m →
    loop T f c (fold e) X = some res → ∃ f', parseExpr T f' c (render T m e ++ X) = some res := by
  induction e with
  | name s =>
    intro _ m c X f res _ _ h
    exact ⟨f+1, by simpa [render, parseExpr, fold] using h⟩
  | int neg n =>
    intro hw m c X f res _ _ h
    simp only [WF] at hw
    subst hw
    exact ⟨f+1, by simpa [render, parseExpr, fold] using h⟩
  | un op e ih =>
    intro hw m c X f res _ _ h
    obtain ⟨hop, hwe⟩ := hw
    obtain ⟨pb, hpb⟩ := Option.isSome_iff_exists.mp hop
    have hX : headLbp T X ≤ pb := by
      match X with
      | Tok.sym s :: _ =>
        simp only [headLbp, Table.lbp]
        cases hb : T.lbp? s with
        | none => simp
        | some bp => simpa using hT.bin_le_pre _ _ _ _ hb hpb
      | [] => simp [headLbp]
      | Tok.name _ :: _ => simp [headLbp]
      | Tok.int _ :: _ => simp [headLbp]
      | Tok.lp :: _ => simp [headLbp]
      | Tok.rp :: _ => simp [headLbp]
    obtain ⟨f1, h1⟩ := ih hwe (pb + 1) pb X 1 (fold e, X) (by omega) (by omega) (loop_stop T hX)
    refine ⟨max f1 f + 1, ?_⟩
    simp only [render, hpb, Option.getD_some, List.cons_append]
    rw [parseExpr]
    simp only [hpb]
    rw [mono_parse T h1 (Nat.le_max_left _ _)]
    simp only [fold] at h
    exact mono_loop T h (Nat.le_max_right _ _)
  | bin s l r ihl ihr =>
    intro hw m c X f res hc hX h
    obtain ⟨hop, hwl, hwr⟩ := hw
    obtain ⟨bp, hbp⟩ := Option.isSome_iff_exists.mp hop
    have hl : T.lbp s = bp := by simp [Table.lbp, hbp]
    simp only [fold] at h
    by_cases hm : m ≤ bp
    · simp only [render, hl, hm, if_true]
      exact bin_bare T s bp hbp l r (ihl hwl) (ihr hwr) c X f res (by omega) (by omega) h
    · simp only [render, hl, hm, if_false]
      obtain ⟨f1, h1⟩ := bin_bare T s bp hbp l r (ihl hwl) (ihr hwr) T.parenBP (Tok.rp :: X) 1
        (Expr.bin s (fold l) (fold r), Tok.rp :: X)
        (hT.bin_pos _ _ hbp) (by simp [headLbp]) (loop_stop T (by simp [headLbp]))
      refine ⟨max f1 f + 1, ?_⟩
      simp only [List.cons_append, List.append_assoc, List.nil_append]
      rw [parseExpr]
      have := mono_parse T h1 (Nat.le_max_left f1 f)
      simp only [List.append_assoc, List.cons_append] at this
      rw [this]
      exact mono_loop T h (Nat.le_max_right _ _)
  | paren e ih =>
    intro hw m c X f res _ _ h
    simp only [WF] at hw
    simp only [fold] at h
    obtain ⟨f1, h1⟩ := ih hw (T.parenBP + 1) T.parenBP (Tok.rp :: X) 1 (fold e, Tok.rp :: X)
      (by omega) (by simp [headLbp]) (loop_stop T (by simp [headLbp]))
    refine ⟨max f1 f + 1, ?_⟩
    simp only [render, List.cons_append, List.append_assoc, List.nil_append]
    rw [parseExpr]
    have := mono_parse T h1 (Nat.le_max_left f1 f)
    rw [this]
    exact mono_loop T h (Nat.le_max_right _ _)

/-- Top level: parsing the rendering of a source expression `e` in a context of binding power
    `c`, followed by anything that does not continue the expression, yields `fold e` and leaves
    the follower untouched — for every sufficiently large fuel. -/
theorem pratt_inverts_render (hT : T.OK) (e : Expr) (hw : WF T e) (c : Nat) (X : List Tok)
    (hX : headLbp T X ≤ c) :
    ∃ f, ∀ f', f ≤ f' → parseExpr T f' c (render T (c+1) e ++ X) = some (fold e, X) := by
  obtain ⟨f, h⟩ := parse_render T hT e hw (c+1) c X 1 (fold e, X) (by omega) (by omega) (loop_stop T hX)
  exact ⟨f, fun f' hle => mono_parse T h hle⟩

end Goat.Pratt

/-! ## Decidable table checks and order-isomorphic tables -/
namespace Goat.Pratt

theorem mem_of_lookup {l : List (String × Nat)} {s : String} {bp : Nat}
    (h : l.lookup s = some bp) : (s, bp) ∈ l := by
  induction l with
  | nil => simp at h
  | cons p l ih =>
    obtain ⟨k, v⟩ := p
    rw [List.lookup_cons] at h
    split at h
    · rename_i heq
      simp at heq h
      simp [heq, h]
    · exact List.mem_cons_of_mem _ (ih h)

/-- Boolean form of `Table.OK`, checked by `decide` on the generated table -/
def Table.okB (T : Table) : Bool :=
  T.bin.all (fun p => T.parenBP < p.2) && T.bin.all (fun p => T.pre.all (fun q => p.2 ≤ q.2))

theorem Table.okB_sound (T : Table) (h : T.okB = true) : T.OK := by
  simp only [Table.okB, Bool.and_eq_true, List.all_eq_true, decide_eq_true_eq] at h
  constructor
  · intro s bp hs
    exact h.1 _ (mem_of_lookup hs)
  · intro s bp p pb hs hp
    exact h.2 _ (mem_of_lookup hs) _ (mem_of_lookup hp)

/-- `m` in table `T1` and `m'` in table `T2` make the same parenthesisation decisions -/
def Rel (T1 T2 : Table) (m m' : Nat) : Prop :=
  ∀ s bp1, T1.lbp? s = some bp1 → (m ≤ bp1 ↔ m' ≤ T2.lbp s)

def relB (T1 T2 : Table) (m m' : Nat) : Bool :=
  T1.bin.all (fun p => decide (m ≤ p.2 ↔ m' ≤ T2.lbp p.1))

theorem relB_sound {T1 T2 : Table} {m m' : Nat} (h : relB T1 T2 m m' = true) : Rel T1 T2 m m' := by
  simp only [relB, List.all_eq_true, decide_eq_true_eq] at h
  intro s bp hs
  exact h _ (mem_of_lookup hs)

/-- two tables that order their operators the same way -/
structure Iso (T1 T2 : Table) : Prop where
  same_bin : ∀ s, (T1.lbp? s).isSome → (T2.lbp? s).isSome
  same_pre : ∀ s, (T1.pre? s).isSome → (T2.pre? s).isSome
  bin : ∀ s bp1, T1.lbp? s = some bp1 →
    Rel T1 T2 bp1 (T2.lbp s) ∧ Rel T1 T2 (bp1 + 1) (T2.lbp s + 1)
  pre : ∀ p b1, T1.pre? p = some b1 → Rel T1 T2 (b1 + 1) ((T2.pre? p).getD 0 + 1)
  paren : Rel T1 T2 (T1.parenBP + 1) (T2.parenBP + 1)

def isoB (T1 T2 : Table) : Bool :=
  T1.bin.all (fun p => (T2.lbp? p.1).isSome) &&
  T1.pre.all (fun p => (T2.pre? p.1).isSome) &&
  T1.bin.all (fun p => relB T1 T2 p.2 (T2.lbp p.1) && relB T1 T2 (p.2 + 1) (T2.lbp p.1 + 1)) &&
  T1.pre.all (fun p => relB T1 T2 (p.2 + 1) ((T2.pre? p.1).getD 0 + 1)) &&
  relB T1 T2 (T1.parenBP + 1) (T2.parenBP + 1)

theorem isoB_sound {T1 T2 : Table} (h : isoB T1 T2 = true) : Iso T1 T2 := by
  simp only [isoB, Bool.and_eq_true, List.all_eq_true] at h
  obtain ⟨⟨⟨⟨h1, h2⟩, h3⟩, h4⟩, h5⟩ := h
  constructor
  · intro s hs
    obtain ⟨bp, hbp⟩ := Option.isSome_iff_exists.mp hs
    exact h1 _ (mem_of_lookup hbp)
  · intro s hs
    obtain ⟨bp, hbp⟩ := Option.isSome_iff_exists.mp hs
    exact h2 _ (mem_of_lookup hbp)
  · intro s bp hs
    have := h3 _ (mem_of_lookup hs)
    exact ⟨relB_sound this.1, relB_sound this.2⟩
  · intro p b hp
    exact relB_sound (h4 _ (mem_of_lookup hp))
  · exact relB_sound h5

theorem wf_iso {T1 T2 : Table} (h : Iso T1 T2) (e : Expr) : WF T1 e → WF T2 e := by
  induction e with
  | name s => intro h; trivial
  | int neg n => intro h; exact h
  | un op e ih => intro hw; exact ⟨h.same_pre _ hw.1, ih hw.2⟩
  | bin op l r ihl ihr => intro hw; exact ⟨h.same_bin _ hw.1, ihl hw.2.1, ihr hw.2.2⟩
  | paren e ih => intro hw; exact ih hw

/-- order-isomorphic tables print every expression with the same parentheses -/
theorem render_iso {T1 T2 : Table} (h : Iso T1 T2) (e : Expr) : WF T1 e →
    ∀ m m', Rel T1 T2 m m' → render T1 m e = render T2 m' e := by
  induction e with
  | name s => intro _ m m' _; simp [render]
  | int neg n => intro _ m m' _; simp [render]
  | un op e ih =>
    intro hw m m' _
    obtain ⟨b1, hb1⟩ := Option.isSome_iff_exists.mp hw.1
    simp only [render, hb1, Option.getD_some]
    rw [ih hw.2 _ _ (h.pre _ _ hb1)]
  | bin op l r ihl ihr =>
    intro hw m m' hr
    obtain ⟨bp1, hbp1⟩ := Option.isSome_iff_exists.mp hw.1
    have hl1 : T1.lbp op = bp1 := by simp [Table.lbp, hbp1]
    have hiff := hr _ _ hbp1
    obtain ⟨ra, rb⟩ := h.bin _ _ hbp1
    simp only [render, hl1]
    rw [ihl hw.2.1 _ _ ra, ihr hw.2.2 _ _ rb]
    by_cases hm : m ≤ bp1
    · simp [hm, hiff.mp hm]
    · have : ¬ m' ≤ T2.lbp op := fun hc => hm (hiff.mpr hc)
      simp [hm, this]
  | paren e ih =>
    intro hw m m' _
    simp only [render]
    rw [ih hw _ _ h.paren]

end Goat.Pratt
