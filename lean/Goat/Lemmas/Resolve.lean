import Goat.Model.Resolve
/-! Lemmas about the identifier-resolution model: what a compilation does to the keys, and the chain. -/
namespace Goat.Resolve
open Gen

/-- every type key belongs to a function that was compiled -/
def Inv (t : Tab) : Prop := ∀ f ty, Key.ltype f ty ∈ t.keys → f ∈ t.compiled

theorem declType_keys (t : Tab) (f ty : String) (k : Key) :
    k ∈ (declType t f ty).keys ↔ k ∈ t.keys ∨ k = .ltype f ty := by
  unfold declType
  split
  · constructor
    · exact Or.inl
    · rintro (h | h)
      · exact h
      · subst h; assumption
  · simp only [List.mem_cons]
    constructor
    · rintro (h | h)
      · exact Or.inr h
      · exact Or.inl h
    · rintro (h | h)
      · exact Or.inr h
      · exact Or.inl h

theorem declType_compiled (t : Tab) (f ty : String) : (declType t f ty).compiled = t.compiled := by
  unfold declType; split <;> rfl

theorem declTypes_keys (tys : List String) (t : Tab) (f : String) (k : Key) :
    k ∈ (declTypes t f tys).keys ↔ k ∈ t.keys ∨ ∃ ty ∈ tys, k = .ltype f ty := by
  induction tys generalizing t with
  | nil => simp [declTypes]
  | cons ty tys ih =>
    simp only [declTypes, List.foldl_cons] at ih ⊢
    rw [ih, declType_keys]
    simp only [List.mem_cons, exists_eq_or_imp]
    constructor
    · rintro ((h | h) | h)
      · exact Or.inl h
      · exact Or.inr (Or.inl h)
      · exact Or.inr (Or.inr h)
    · rintro (h | h | h)
      · exact Or.inl (Or.inl h)
      · exact Or.inl (Or.inr h)
      · exact Or.inr h

theorem declTypes_compiled (tys : List String) (t : Tab) (f : String) :
    (declTypes t f tys).compiled = t.compiled := by
  induction tys generalizing t with
  | nil => rfl
  | cons ty tys ih =>
    simp only [declTypes, List.foldl_cons] at ih ⊢
    rw [ih, declType_compiled]

theorem enterFunc_keys_sub (t : Tab) (f : String) (k : Key) (h : k ∈ (enterFunc t f).keys) : k ∈ t.keys := by
  unfold enterFunc at h
  split at h
  · exact h
  · simp only at h
    split at h
    · exact (List.mem_filter.mp h).1
    · exact h

/-- after `enterFunc f` the table holds no type of f (f ≠ "") -/
theorem enterFunc_forgets (t : Tab) (hi : Inv t) (f : String) (hf : f ≠ "") (ty : String) :
    Key.ltype f ty ∉ (enterFunc t f).keys := by
  unfold enterFunc
  rw [if_neg hf]
  simp only
  split
  · intro h
    have := (List.mem_filter.mp h).2
    simp at this
  · intro h
    rename_i hc
    exact hc (hi f ty h)

theorem enterFunc_keeps (t : Tab) (f : String) (k : Key) (hk : ∀ ty, k ≠ .ltype f ty) :
    k ∈ (enterFunc t f).keys ↔ k ∈ t.keys := by
  constructor
  · exact enterFunc_keys_sub t f k
  · intro h
    unfold enterFunc
    split
    · exact h
    · simp only
      split
      · refine List.mem_filter.mpr ⟨h, ?_⟩
        cases k with
        | ltype g ty =>
          have : g ≠ f := fun e => hk ty (by rw [e])
          simpa using this
        | _ => simp
      · exact h

theorem enterFunc_inv (t : Tab) (hi : Inv t) (f : String) : Inv (enterFunc t f) := by
  intro g ty h
  have h0 := enterFunc_keys_sub t f _ h
  have := hi g ty h0
  unfold enterFunc
  split
  · exact this
  · simp only [List.mem_cons]; exact Or.inr this

theorem enterFunc_compiled (t : Tab) (f : String) (hf : f ≠ "") : f ∈ (enterFunc t f).compiled := by
  unfold enterFunc; rw [if_neg hf]; simp

theorem step_inv (t : Tab) (hi : Inv t) (e : Ev) (he : e.ok) : Inv (step t e) := by
  cases e with
  | compile f tys =>
    intro g ty h
    simp only [step] at h ⊢
    rw [declTypes_compiled]
    rcases (declTypes_keys tys _ f _).mp h with h | ⟨ty', _, e⟩
    · exact enterFunc_inv t hi f g ty h
    · cases e; exact enterFunc_compiled t f he
  | addKey k =>
    intro g ty h
    simp only [step] at h ⊢
    split at h
    · rw [if_pos ‹_›]; exact hi g ty h
    · rw [if_neg ‹_›]
      simp only [List.mem_cons] at h
      rcases h with h | h
      · exact absurd h.symm (he g ty)
      · exact hi g ty h

theorem run_inv (h : List Ev) (hok : ∀ e ∈ h, e.ok) : Inv (run h) := by
  unfold run
  suffices ∀ t, Inv t → Inv (h.foldl step t) from this _ (by intro f ty hm; simp at hm)
  induction h with
  | nil => intro t ht; exact ht
  | cons e es ih =>
    intro t ht
    simp only [List.foldl_cons]
    exact ih (fun e' he' => hok e' (List.mem_cons_of_mem _ he')) _ (step_inv t ht e (hok e (List.mem_cons_self ..)))

/-- **recompile_forgets.** Whatever was compiled before - any history of function, method, literal and init
    compilations (also of earlier bodies of f itself) and of package-level definitions - once the body of f has been
    compiled the table holds exactly the types that THIS body declares under f's name. -/
theorem recompile_forgets (h : List Ev) (hok : ∀ e ∈ h, e.ok) (f : String) (hf : f ≠ "") (tys : List String) (ty : String) :
    Key.ltype f ty ∈ (step (run h) (.compile f tys)).keys ↔ ty ∈ tys := by
  simp only [step]
  rw [declTypes_keys]
  constructor
  · rintro (h1 | ⟨ty', hm, e⟩)
    · exact absurd h1 (enterFunc_forgets _ (run_inv h hok) f hf ty)
    · cases e; exact hm
  · intro hm; exact Or.inr ⟨ty, hm, rfl⟩

/-- the other keys are untouched by a compilation -/
theorem compile_keeps (t : Tab) (f : String) (tys : List String) (k : Key) (hk : ∀ ty, k ≠ .ltype f ty) :
    k ∈ (step t (.compile f tys)).keys ↔ k ∈ t.keys := by
  simp only [step]
  rw [declTypes_keys, enterFunc_keeps t f k hk]
  constructor
  · rintro (h | ⟨ty, _, e⟩)
    · exact h
    · exact absurd e (hk ty)
  · exact Or.inl

/-- **local_wins.** With the chain in the order of the source: an identifier that is bound in the enclosing scopes of
    the function resolves to that binding, whatever package-level names and builtins the table holds (and however
    they got there), unless the body being compiled declared a type of that name. -/
theorem local_wins (t : Tab) (c : Ctx) (x : String) (hx : x ≠ "$") (hl : x ∈ c.locals)
    (ht : Key.ltype c.fn x ∉ t.keys) : resolve t c x = .localGet x := by
  simp [resolve, resolveWith, Gen.resolveOrder, firstSome, tryStep, hx, hl, ht]

/-- **local_wins_after_any_history.** The two together: in the body of a function f that is being compiled after any
    history, at a point where the body has declared the types tys so far, a bound identifier that is not one of them
    is the local. -/
theorem local_wins_after_any_history (h : List Ev) (hok : ∀ e ∈ h, e.ok) (f : String) (hf : f ≠ "")
    (tys : List String) (locals : List String) (x : String) (hx : x ≠ "$") (hl : x ∈ locals) (hn : x ∉ tys) :
    resolve (step (run h) (.compile f tys)) { fn := f, inScope := true, locals := locals } x = .localGet x :=
  local_wins _ _ x hx hl (fun hm => hn ((recompile_forgets h hok f hf tys x).mp hm))

/-- a package-level name beats a builtin of the same name; a name found nowhere is a forward reference -/
theorem package_beats_builtin (t : Tab) (c : Ctx) (x : String) (hx : x ≠ "$") (hl : x ∉ c.locals)
    (ht : Key.ltype c.fn x ∉ t.keys) (hg : Key.glob x ∈ t.keys) : resolve t c x = .globalGet (.glob x) := by
  simp [resolve, resolveWith, Gen.resolveOrder, firstSome, tryStep, hx, hl, ht, hg]

theorem forward_reference (t : Tab) (c : Ctx) (x : String) (hx : x ≠ "$") (hl : x ∉ c.locals)
    (ht : Key.ltype c.fn x ∉ t.keys) (hg : Key.glob x ∉ t.keys) (hb : Key.builtin x ∉ t.keys) :
    resolve t c x = .globalGet (.glob x) := by
  simp [resolve, resolveWith, Gen.resolveOrder, firstSome, tryStep, hx, hl, ht, hg, hb]

/-- **resolve_history_independent.** Two histories that define the same package-level names and builtins give the same
    resolution of every identifier in the body of a function compiled after them. -/
theorem resolve_history_independent (h1 h2 : List Ev) (ok1 : ∀ e ∈ h1, e.ok) (ok2 : ∀ e ∈ h2, e.ok)
    (same : ∀ k, (∀ f ty, k ≠ .ltype f ty) → (k ∈ (run h1).keys ↔ k ∈ (run h2).keys))
    (f : String) (hf : f ≠ "") (tys : List String) (locals : List String) (x : String) :
    resolve (step (run h1) (.compile f tys)) { fn := f, inScope := true, locals := locals } x
      = resolve (step (run h2) (.compile f tys)) { fn := f, inScope := true, locals := locals } x := by
  have hk : ∀ k, (k = .ltype f x ∨ ∀ g ty, k ≠ .ltype g ty) →
      (k ∈ (step (run h1) (.compile f tys)).keys ↔ k ∈ (step (run h2) (.compile f tys)).keys) := by
    intro k hk
    rcases hk with rfl | hk
    · rw [recompile_forgets h1 ok1 f hf, recompile_forgets h2 ok2 f hf]
    · rw [compile_keeps _ f tys k (fun ty => hk f ty), compile_keeps _ f tys k (fun ty => hk f ty)]
      exact same k hk
  have e1 := hk (.ltype f x) (Or.inl rfl)
  have e2 := hk (.glob x) (Or.inr (by intro g ty h; cases h))
  have e3 := hk (.builtin x) (Or.inr (by intro g ty h; cases h))
  simp only [resolve, resolveWith, Gen.resolveOrder, firstSome, tryStep, e1, e2, e3]

/-- a package-level key, once in the table, stays there through every event -/
theorem glob_mem_step (t : Tab) (e : Ev) (n : String) (h : Key.glob n ∈ t.keys) : Key.glob n ∈ (step t e).keys := by
  cases e with
  | compile f tys => exact (compile_keeps t f tys (.glob n) (fun ty => by simp)).mpr h
  | addKey k =>
    simp only [step]
    split
    · exact h
    · exact List.mem_cons_of_mem _ h

theorem glob_mem_foldl (h : List Ev) (t : Tab) (n : String) (hm : Key.glob n ∈ t.keys) :
    Key.glob n ∈ (h.foldl step t).keys := by
  induction h generalizing t with
  | nil => exact hm
  | cons e es ih => exact ih _ (glob_mem_step t e n hm)

theorem glob_mem_predeclare (names : List String) (t : Tab) (n : String) (hn : n ∈ names ∨ Key.glob n ∈ t.keys) :
    Key.glob n ∈ (predeclare t names).keys := by
  unfold predeclare
  induction names generalizing t with
  | nil =>
    rcases hn with h | h
    · cases h
    · exact h
  | cons a as ih =>
    simp only [List.foldl_cons]
    apply ih
    rcases hn with h | h
    · rcases List.mem_cons.mp h with rfl | h
      · right
        simp only [step]
        split
        · assumption
        · exact List.mem_cons_self
      · exact Or.inl h
    · exact Or.inr (glob_mem_step t _ n h)

/-! non-vacuity: f first declares a type `acc`; the redefinition has a parameter `acc` -/
def hist : List Ev := [.addKey (.builtin "println"), .addKey (.glob "total"), .compile "main.f" ["acc"], .compile "main.g" ["st"]]
example : ∀ e ∈ hist, e.ok := by
  intro e he
  simp only [hist, List.mem_cons, List.mem_nil_iff, or_false] at he
  rcases he with rfl | rfl | rfl | rfl <;> simp [Ev.ok]
example : resolve (step (run hist) (.compile "main.f" [])) { fn := "main.f", inScope := true, locals := ["acc"] } "acc" = .localGet "acc" := by decide
example : Key.ltype "main.f" "acc" ∈ (run hist).keys := by decide
-- without enterFunc's forgetting the stale type would win
example : resolve (run hist) { fn := "main.f", inScope := true, locals := ["acc"] } "acc" = .globalGet (.ltype "main.f" "acc") := by decide

end Goat.Resolve
