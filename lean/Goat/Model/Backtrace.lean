/-!
# Model of run-time error reporting (vm.go `mkFunc` backtrace push / pop, `btErr`)

An execution is a call tree: plain operations, calls (a call-site position and the callee's body)
and a fault. The machine keeps `bt`, the stack of call-site positions: a call pushes its site,
runs the body and pops on return; a fault stops everything and reports the faulting position
followed by `bt`, innermost call first.
-/
namespace Goat.Backtrace

mutual
inductive Node
  | op (p : Nat)                       -- an operation at position p that succeeds
  | fault (p : Nat)                    -- an operation at position p that fails
  | call (site : Nat) (body : Nodes)   -- a call at position `site` running `body`
inductive Nodes
  | nil
  | cons (n : Node) (rest : Nodes)
end

structure Report where
  at_ : Nat              -- position of the failing operation
  chain : List Nat       -- call sites, innermost first
  deriving DecidableEq, Repr

mutual
/-- the machine: `Except.error` = the report of the first fault, `Except.ok bt'` = the backtrace
    stack after normal completion -/
def exec (bt : List Nat) : Node → Except Report (List Nat)
  | .op _ => .ok bt
  | .fault p => .error { at_ := p, chain := bt }
  | .call site body =>
    match execs (site :: bt) body with              -- v.backtrace = append(v.backtrace, pos)
    | .error r => .error r
    | .ok bt' => .ok bt'.tail                        -- v.backtrace = v.backtrace[:len-1]
def execs (bt : List Nat) : Nodes → Except Report (List Nat)
  | .nil => .ok bt
  | .cons n rest =>
    match exec bt n with
    | .error r => .error r
    | .ok bt' => execs bt' rest
end

mutual
/-- the specification, by recursion on the call tree alone: the first fault in execution order
    and the call sites enclosing it, innermost first -/
def spec : Node → Option Report
  | .op _ => none
  | .fault p => some { at_ := p, chain := [] }
  | .call site body => (specs body).map fun r => { r with chain := r.chain ++ [site] }
def specs : Nodes → Option Report
  | .nil => none
  | .cons n rest =>
    match spec n with
    | some r => some r
    | none => specs rest
end

/-! ### the position word (compiler.go `newPos`, `pos.info`) -/

/-- the packing itself: four 16-bit fields in a 64-bit word (file-name index, function-name index,
    line, column); line and column saturate at 65535 -/
def packPos (fi gi line col : Nat) : Nat :=
  (fi <<< 48) ||| (gi <<< 32) ||| ((min line 0xffff) <<< 16) ||| (min col 0xffff)

/-- a name index past the end of the 16-bit name table becomes 0, the entry that names nothing -/
def satIdx (i : Nat) : Nat := if i > 0xffff then 0 else i

/-- `newPos`: the indices come from the position-name table (index 0 is the empty name) and are
    saturated before they are packed -/
def newPos (fi gi line col : Nat) : Nat := packPos (satIdx fi) (satIdx gi) line col

/-- `pos.info`: the four fields read back -/
def posInfo (p : Nat) : Nat × Nat × Nat × Nat :=
  ((p >>> 48) &&& 0xffff, (p >>> 32) &&& 0xffff, (p >>> 16) &&& 0xffff, p &&& 0xffff)

end Goat.Backtrace
