import Goat.Model.Peephole
/-!
# Model of the compiler's control-flow schemes (compiler.go cases "if", "for", "break", "continue",
"range", "block") over abstract leaves

A *leaf* is the already compiled code of a simple statement (`act n`) or of a condition (`cnd c`):
a straight-line instruction list given to the model from outside (the correspondence harness
passes the real compiler's output for the leaf; the theorems are for arbitrary leaf codes that
contain no placeholder). What the model adds is exactly what C06 is about: the jumps, their
offsets computed from block lengths, and the rewriting of BREAK/CONTINUE placeholders by the
enclosing loop.
-/
namespace Goat.CF
open Goat.Peephole

inductive Stmt where
  | act (n : Nat)                                   -- a simple statement
  | seq (a b : Stmt)
  | ite (c : Nat) (a b : Stmt)                      -- if c { a } else { b }   (else branch non-empty)
  | ift (c : Nat) (a : Stmt)                        -- if c { a }
  | loop (c : Nat) (body : Stmt) (post : Nat)       -- for ; c ; post { body }
  | forever (body : Stmt) (post : Nat)              -- for ; ; post { body }
  | brk
  | cont
  | swc (c : Nat) (a : Stmt) (rest : Stmt)          -- switch { case c: a; <rest> }   (rest: further cases / default)
  | swd (d : Stmt)                                  -- … default: d }   (empty d: no default clause)
  | ret (n : Nat)                                   -- return e…  (leaf n evaluates the results)
  | rng (r kv : Int) (it : Nat) (body : Stmt)       -- for k, v := range <leaf it> { body }  (r: hidden iterator slot, kv: joined key/value slots)
  deriving Repr

/-- the leaf codes: actions and conditions -/
structure Leaves where
  act : Nat → List Instr
  cnd : Nat → List Instr

def jump (op : String) (a : Int) : Instr := { op := op, a := a }

/-- the loop's rewriting of the placeholders of its (already compiled) body: `rem` is the number of
    instructions after this one in the body (`len(block) - n - 1` in the Go code) -/
def rwI (db dc rem : Nat) (i : Instr) : Instr :=
  if i.op = "BREAK" then { i with op := "JUMP", a := ((rem + db : Nat) : Int) }
  else if i.op = "CONTINUE" then { i with op := "JUMP", a := ((rem + dc : Nat) : Int) }
  else i

def rw (db dc : Nat) : List Instr → List Instr
  | [] => []
  | i :: is => rwI db dc is.length i :: rw db dc is

/-- a `switch` clause rewrites only the BREAK placeholders of its (already compiled) block;
    CONTINUE stays for the enclosing loop -/
def rwBI (db rem : Nat) (i : Instr) : Instr :=
  if i.op = "BREAK" then { i with op := "JUMP", a := ((rem + db : Nat) : Int) } else i

def rwB (db : Nat) : List Instr → List Instr
  | [] => []
  | i :: is => rwBI db is.length i :: rwB db is

/-- the compile schemes, instruction for instruction as compiler.go emits them (optimizer off) -/
def compile (L : Leaves) : Stmt → List Instr
  | .act n => L.act n
  | .seq a b => compile L a ++ compile L b
  | .ite c a b =>
    let A := compile L a
    let B := compile L b
    L.cnd c ++ [jump "JUMPFALSE" (A.length + 1)] ++ A ++ [jump "JUMP" B.length] ++ B
  | .ift c a =>
    let A := compile L a
    L.cnd c ++ [jump "JUMPFALSE" A.length] ++ A
  | .loop c b p =>
    let B := compile L b
    let P := L.act p
    let Cn := L.cnd c
    [jump "JUMP" (B.length + P.length)] ++ rw (1 + P.length + Cn.length) 0 B ++ P ++ Cn ++
      [jump "JUMPTRUE" (-((B.length : Int) + P.length + Cn.length + 1))]
  | .forever b p =>
    let B := compile L b
    let P := L.act p
    rw (1 + P.length) 0 B ++ P ++ [jump "JUMP" (-((B.length : Int) + P.length + 1))]
  | .brk => [{ op := "BREAK" }]
  | .cont => [{ op := "CONTINUE" }]
  | .ret n => L.act n ++ [{ op := "RETURN" }]
  | .rng r kv it b =>
    let B := compile L b
    L.act it ++ [{ op := "RANGE", a := r, b := B.length }] ++ rw 1 0 B ++
      [{ op := "ITER", a := r, b := kv, c := -((B.length : Int) + 1) }]
  | .swd d => rwB 0 (compile L d)
  | .swc c a r =>
    let A := compile L a
    let R := compile L r
    L.cnd c ++ [jump "JUMPFALSE" (A.length + 1)] ++ rwB (R.length + 1) A ++ [jump "JUMP" R.length] ++ R

/-- the leaves after the peephole passes (`c.optimize` of every block happens before its length is
    taken for a jump offset) -/
def optLeaves (L : Leaves) : Leaves :=
  { act := fun n => optimize (L.act n), cnd := fun c => optimize (L.cnd c) }

end Goat.CF
