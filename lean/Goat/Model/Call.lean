/-!
# Model of the call protocol (vm.go `mkFunc`, `call`, `callReady`; value.go `newMethod`)

Frames are carved out of one shared stack by index arithmetic. The model keeps that arithmetic
(`take`/`drop` at computed indexes) so that the theorems in Props/C09 say something: they show it
equals the obvious specification "the caller's part of the stack is untouched, the arguments are
replaced by the requested results".

A function body is abstract: `run base stack` executes it with frame base `base` on the whole
stack and returns the whole stack afterwards (or `none`: a run-time error). That bodies respect
their frame (`FrameLocal`) is what C07's verifier establishes for compiled code.
-/
namespace Goat.Call

variable {V : Type}

structure Fn (V : Type) where
  args : Nat                 -- declared parameters (a variadic tail counts as one)
  rets : Nat                 -- declared results
  variadic : Bool
  slots : Nat                -- frame size, ≥ args
  argConv : Nat → V → V      -- `assign(Type(tokens[i].A))` of argument i
  retConv : Nat → V → V      -- `assign(...)` of result i
  run : Nat → List V → Option (List V)

/-- apply `f i` to the element at index `lo + i` for `i < n` -/
def convRange (f : Nat → V → V) (lo n : Nat) (s : List V) : List V :=
  s.mapIdx fun j v => if lo ≤ j ∧ j < lo + n then f (j - lo) v else v

/-- `mkFunc`'s closure: frame set-up, argument typing, body, result splice, result typing -/
def mkFunc (nil : V) (fn : Fn V) (stack : List V) : Option (List V) :=
  let base := stack.length - fn.args                               -- BaseN: len(v.stack) - args
  let s1 := convRange fn.argConv base fn.args stack                -- v.stack[len-args+i] = ….assign(type i)
  let s2 := s1 ++ List.replicate (fn.slots - fn.args) nil          -- append(v.stack, empty...)
  let topN := s2.length
  match fn.run base s2 with
  | none => none
  | some s3 =>
    let s4 := s3.take base ++ s3.drop topN                         -- append(v.stack[:BaseN], v.stack[topN:]...)
    if s4.length < fn.rets then none                               -- the result-typing loop would index below 0
    else some (convRange fn.retConv (s4.length - fn.rets) fn.rets s4)

/-- `callReady`: argument count check, call, result count check / trim -/
def callReady (nil : V) (fn : Fn V) (xArgs xRets : Nat) (stack : List V) : Option (List V) :=
  if xArgs ≠ fn.args then none
  else if stack.length < xArgs then none
  else
    let top := stack.length - xArgs
    match mkFunc nil fn stack with
    | none => none
    | some s' =>
      if s'.length < top + xRets then none          -- fRets < xRets: "incorrect returns"
      else some (s'.take (top + xRets))             -- fRets > xRets: trimmed

/-- `call`: pack the surplus arguments of a variadic function into one slice value -/
def call (nil : V) (mkSlice : List V → V) (fn : Fn V) (xArgs xRets : Nat) (stack : List V) : Option (List V) :=
  if !fn.variadic then callReady nil fn xArgs xRets stack
  else if xArgs + 1 < fn.args then none                 -- make([]Value, negative) panics
  else if stack.length < xArgs then none
  else
    let nVar := xArgs + 1 - fn.args
    let e := stack.length - nVar
    let s' := stack.take e ++ [mkSlice (stack.drop e)]
    callReady nil fn (xArgs - nVar + 1) xRets s'

/-- `newMethod`: the receiver is inserted under the `xArgs = f.args - 1` arguments -/
def methodCall (nil : V) (recv : V) (fn : Fn V) (stack : List V) : Option (List V) :=
  let xArgs := fn.args - 1
  let cut := stack.length - xArgs
  mkFunc nil fn (stack.take cut ++ [recv] ++ stack.drop cut)

end Goat.Call
