import Goat.Model.Peephole
import Goat.Model.VMCore
/-!
# A verifier for emitted bytecode: operand-stack depth, jump targets and slot indexes on every path

`effect` gives, for every opcode of do.go, how many operands it pops and — per successor —
where control goes and how many operands it has pushed by then. `check` validates a *depth map*
(one operand depth per instruction, inferred by an unverified forward pass) against `effect`:
if it accepts, no path through the code — taken by the program's inputs or not — underflows the
operand stack, leaves the code, merges two different depths, or touches a slot outside the
frame (`verify_sound` in Props/C07). Function bodies nested in FUNC instructions are checked as
code of their own, with their own slot count.
-/
namespace Goat.Check
open Goat.Peephole

abbrev Code := List Instr

/-- pops, and the successors as (pc offset relative to the next instruction, pushes) -/
structure Effect where
  pops : Nat
  succs : List (Int × Nat)     -- (relative jump added to pc+1, operands pushed on that edge)
  slots : List Int := []       -- local slot indexes the instruction reads or writes
  deriving Repr

def absNat (z : Int) : Nat := z.natAbs

/-- `splitParams` of the FUNC / ITER / FASTCALLATTR operand -/
def split (v : Int) : Int × Int := Goat.VMCore.splitParams v

/-- the table; `none` = an opcode that must not occur in finished code (placeholders, TYPE outside
    a function header, unknown) -/
def effect (i : Instr) : Option Effect :=
  let fall (pops pushes : Nat) (slots : List Int := []) : Option Effect :=
    some { pops := pops, succs := [(0, pushes)], slots := slots }
  match i.op with
  | "PASS" => fall 0 0
  | "PUSH" | "GLOBALREF" | "CONST" | "GLOBALGET" | "ZERO" => fall 0 1
  | "POP" | "GLOBALSET" | "GLOBALFUNC" | "GLOBALSTRUCT" => fall 1 0
  | "ADD" | "SUB" | "MUL" | "DIV" | "MOD" | "LT" | "GT" | "LTE" | "GTE" | "EQ" | "NEQ"
  | "BITAND" | "BITOR" | "BITXOR" | "BITLSH" | "BITRSH" | "GET" => fall 2 1
  | "INCDEC" | "CONVERT" | "CAST" | "NEGATE" | "BITCOMPLEMENT" | "NOT" | "LEN" | "GETATTR" | "MAKE" => fall 1 1
  | "GETOK" => fall 2 2
  | "SET" => fall 3 0
  | "SLICE" => fall 3 1
  | "DELETE" | "SETMETHOD" | "SETATTR" => fall 2 0
  | "COPY" => fall 2 (if i.c = 0 then 0 else 1)        -- the count is pushed only where it is used
  | "GLOBALZERO" => fall 0 0
  | "LOCALGET" => fall 0 1 [i.a]
  | "LOCALSET" => fall 1 0 [i.a]
  | "LOCALZERO" | "LOCALINCDEC" => fall 0 0 [i.a]
  | "LOCALADD" | "LOCALSUB" | "LOCALMUL" | "LOCALDIV" => fall 0 1 [i.a, i.b]
  | "FASTGET" | "FASTGETINT" | "FASTGETATTR" => fall 0 1 [i.a]
  | "FASTSET" | "FASTSETINT" | "FASTSETATTR" => fall 1 0 [i.a]
  | "CALL" | "CALLVARIADIC" => if i.a < 0 ∨ i.b < 0 then none else fall (absNat i.a + 1) (absNat i.b)
  | "FASTCALL" => if i.b < 0 ∨ i.c < 0 then none else fall (absNat i.b) (absNat i.c)
  | "FASTCALLATTR" =>
    let (c1, c2) := split i.c
    if c1 < 0 ∨ c2 < 0 then none else fall (absNat c1) (absNat c2) [i.a]
  | "APPEND" => if i.a < 1 then none else fall (absNat i.a) 1
  | "NEWSLICE" => if i.b < 0 then none else fall (absNat i.b) 1
  | "NEWMAP" => if i.c < 0 then none else fall (absNat i.c) 1
  | "STRUCT" => if i.a < 0 then none else fall (absNat i.a) 1
  | "NEWSTRUCT" => if i.b < 0 then none else fall (absNat i.b) 1
  | "JUMP" => some { pops := 0, succs := [(i.a, 0)] }
  | "JUMPFALSE" | "JUMPTRUE" => some { pops := 1, succs := [(0, 0), (i.a, 0)] }
  | "AND" | "OR" => some { pops := 1, succs := [(0, 0), (i.a, 1)] }     -- short-circuit keeps the value
  | "RANGE" => some { pops := 1, succs := [(i.b, 0)], slots := [i.a] }
  | "ITER" =>
    let (k, v) := split i.b
    some { pops := 0, succs := [(0, 0), (i.c, 0)], slots := [i.a, k, v] }
  | "RETURN" => if i.a < 0 then none else some { pops := absNat i.a, succs := [] }
  | "PANIC" => some { pops := 1, succs := [] }
  | _ => none

/-- a FUNC header: number of TYPE instructions that follow, body length, slots, declared results -/
def funcHeader (i : Instr) : Option (Nat × Nat × Nat × Nat) :=
  if i.op ≠ "FUNC" then none
  else
    let (args, rets) := split i.a
    if rets < 0 ∨ i.b < 0 ∨ i.c < 0 then none
    else some (absNat args + absNat rets, absNat i.c, absNat i.b, absNat rets)

/-- effect of the instruction at `pc`, with FUNC treated as "push the function value and skip the
    header and the body" -/
def effectAt (c : Code) (pc : Nat) : Option Effect :=
  match c[pc]? with
  | none => none
  | some i =>
    match funcHeader i with
    | some (hdr, body, _, _) => some { pops := 0, succs := [((hdr + body : Nat), 1)] }
    | none => effect i

/-- the local conditions at one instruction, given the depth map `m` and the map `sk` of
    positions that lie inside nested function headers/bodies -/
def checkAt (c : Code) (slots : Nat) (m : List Nat) (sk : List Bool) (strict : Bool) (pc : Nat) : Bool :=
  match effectAt c pc, m[pc]? with
  | some e, some d =>
    decide (e.pops ≤ d) &&
    e.slots.all (fun s => decide (0 ≤ s) && decide (s.toNat < slots)) &&
    (!strict || (c[pc]?.map (·.op)) != some "RETURN" || d == e.pops) &&
    e.succs.all (fun (off, pushes) =>
      let t : Int := (pc : Int) + 1 + off
      decide (0 ≤ t) && decide (t.toNat ≤ c.length) &&
      (if t.toNat < c.length then m[t.toNat]? == some (d - e.pops + pushes) && sk[t.toNat]? == some false
       else !strict || (d - e.pops + pushes == 0)) &&
      -- strict: a taken jump lands on a statement boundary (short-circuit edges excepted)
      (!strict || off == 0 || pushes == 1 || (d - e.pops + pushes == 0)))
  | _, _ => false

/-- indexes that are inside some FUNC's header or body (checked separately, unreachable here) -/
def skipped (c : Code) : Nat → Nat → List Bool → List Bool
  | 0, _, acc => acc
  | fuel+1, pc, acc =>
    if pc ≥ c.length then acc
    else match (c[pc]?).bind funcHeader with
      | some (hdr, body, _, _) =>
        skipped c fuel (pc + 1 + hdr + body) (acc ++ [false] ++ List.replicate (hdr + body) true)
      | none => skipped c fuel (pc + 1) (acc ++ [false])

/-- accept a function body: the entry is at depth 0 and not skipped, and every position is either
    marked as nested-function material or satisfies `checkAt` -/
def check (c : Code) (slots : Nat) (m : List Nat) (sk : List Bool) (strict : Bool) : Bool :=
  (c.length == 0 || (m[0]? == some 0 && sk[0]? == some false)) &&
  (List.range c.length).all (fun pc => sk[pc]?.getD false || checkAt c slots m sk strict pc)

/-- forward inference of the depth map (unverified helper): worklist from pc 0 -/
def infer (c : Code) : Nat → List (Nat × Nat) → List (Option Nat) → List (Option Nat)
  | 0, _, m => m
  | _, [], m => m
  | fuel+1, (pc, d) :: work, m =>
    if pc ≥ c.length then infer c fuel work m
    else match m[pc]? with
      | some (some _) => infer c fuel work m
      | _ =>
        let m' := m.set pc (some d)
        match effectAt c pc with
        | none => infer c fuel work m'
        | some e =>
          let next := e.succs.filterMap (fun (off, pushes) =>
            let t : Int := (pc : Int) + 1 + off
            if 0 ≤ t then some (t.toNat, d - e.pops + pushes) else none)
          infer c fuel (next ++ work) m'

def inferred (c : Code) : List (Option Nat) :=
  infer c (4 * c.length + 4) [(0, 0)] (List.replicate c.length none)

def depthMap (c : Code) : List Nat := (inferred c).map (·.getD 0)

/-- positions the inference never reached (dead code after an infinite loop or a return): they are
    treated like nested-function material — not checked, and no branch may target them -/
def unreached (c : Code) : List Bool := (inferred c).map (·.isNone)

/-- the nested function bodies of a code list: (body, slots, declared results) -/
def bodies (c : Code) : Nat → Nat → List (Code × Nat × Nat)
  | 0, _ => []
  | fuel+1, pc =>
    if pc ≥ c.length then []
    else match (c[pc]?).bind funcHeader with
      | some (hdr, body, slots, rets) =>
        ((c.drop (pc + 1 + hdr)).take body, slots, rets) :: bodies c fuel (pc + 1 + hdr + body)
      | none => bodies c fuel (pc + 1)

/-- verify a code list and, recursively, every function body nested in it; returns the first
    rejected location as a path of FUNC positions -/
def verifyAll : Nat → Code → Nat → Bool → List String
  | 0, _, _, _ => ["nesting too deep"]
  | fuel+1, c, slots, strict =>
    let m := depthMap c
    let sk := List.zipWith (· || ·) (skipped c (c.length + 1) 0 []) (unreached c)
    let here := if check c slots m sk strict then [] else
      [s!"rejected: depths {m}"]
    here ++ (bodies c (c.length + 1) 0).flatMap (fun (b, s, _) => verifyAll fuel b s strict)

end Goat.Check
