/-!
# Model of the error builder (vm.go `btErr`) — the recovery handler must not panic itself

`btErr` runs inside the deferred `recover` of `VM.run` / `VM.Func`; a panic in it would escape to
the host. It picks the instruction whose position is reported from the frame's program counter
`N`, which equals `len(Codes)` after a body ran off its end, and may face an empty frame.
-/
namespace Goat.Contain

inductive Pick
  | code (i : Nat)        -- frame.Codes[i]
  | callSite (i : Nat)    -- backtrace[i]
  | zero                  -- the zero instruction (no position)
  deriving DecidableEq, Repr

/-- the `switch` at the top of `btErr` -/
def btErrPick (n codes bt : Nat) : Pick :=
  if n < codes then .code n
  else if codes > 0 then .code (codes - 1)
  else if bt > 0 then .callSite (bt - 1)
  else .zero

/-- the loop over the backtrace: indexes visited, innermost first -/
def btErrWalk (bt : Nat) : List Nat := (List.range bt).reverse

def Pick.inRange (codes bt : Nat) : Pick → Prop
  | .code i => i < codes
  | .callSite i => i < bt
  | .zero => True

end Goat.Contain
