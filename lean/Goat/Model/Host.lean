/-!
# Model of the embedding API's stack protocol (value.go `NewFunc` adapters; vm.go `call`,
# `callReady`, `VM.Func` / `VM.Call`)

A native function registered with `NewFunc` is wrapped by one of six adapters that slice the
shared VM stack by computed offsets. The model keeps that arithmetic; Props/C19 shows it equal to
the specification "the native receives exactly the arguments, in order, the caller's part of the
stack is untouched, and the caller gets exactly the requested number of results". A native body is
a function from its argument list to `none` (it panicked) or its result list.
-/
namespace Goat.Host

variable {V : Type}

/-- the six `NewFunc` signature forms -/
inductive Form
  | f00   -- func(vm)                      : nothing consumed, nothing pushed
  | f01   -- func(vm) Value                : drops argc unread, pushes one result
  | fN0   -- func(vm, args)                : consumes argc
  | fN1   -- func(vm, args) Value          : consumes argc, pushes one
  | fNM   -- func(vm, args) []Value        : consumes argc, pushes all results
  | fVar  -- func(vm, args, vargs...) []Value : last of argc is the packed slice
  deriving DecidableEq, Repr

structure Native (V : Type) where
  form : Form
  argc : Nat
  body : List V → Option (List V)      -- all results as a list (forms with one result: a singleton)
  unpack : V → List V                   -- `Value.data()` of the packed variadic slice

/-- the adapter closures of `NewFunc`, on the whole stack -/
def adapter (n : Native V) (stack : List V) : Option (List V) :=
  match n.form with
  | .f00 => (n.body []).map fun _ => stack
  | .f01 =>
    let i := stack.length - n.argc                         -- (registered with an arity: the arguments are dropped)
    (n.body []).map fun r => stack.take i ++ r.take 1
  | .fN0 =>
    let i := stack.length - n.argc
    (n.body (stack.drop i)).map fun _ => stack.take i
  | .fN1 =>
    let i := stack.length - n.argc
    (n.body (stack.drop i)).map fun r => stack.take i ++ r.take 1
  | .fNM =>
    let i := stack.length - n.argc
    (n.body (stack.drop i)).map fun r => stack.take i ++ r
  | .fVar =>
    let i := stack.length - n.argc
    let a := stack.drop i
    match a.getLast? with
    | none => none                                         -- a[argc-1] with argc = 0 panics
    | some last => (n.body (a.take (n.argc - 1) ++ n.unpack last)).map fun r => stack.take i ++ r

def isVariadic (n : Native V) : Bool := n.form == .fVar

/-- `callReady` for a native: argument-count check, adapter, result-count check / trim -/
def callReady (n : Native V) (xArgs xRets : Nat) (stack : List V) : Option (List V) :=
  if xArgs ≠ n.argc then none
  else if stack.length < xArgs then none
  else
    let top := stack.length - xArgs
    match adapter n stack with
    | none => none
    | some s' =>
      if s'.length < top + xRets then none
      else some (s'.take (top + xRets))

/-- `call`: surplus arguments of a variadic native are packed into one slice first -/
def call (mkSlice : List V → V) (n : Native V) (xArgs xRets : Nat) (stack : List V) : Option (List V) :=
  if !isVariadic n then callReady n xArgs xRets stack
  else if xArgs + 1 < n.argc then none
  else if stack.length < xArgs then none
  else
    let nVar := xArgs + 1 - n.argc
    let e := stack.length - nVar
    callReady n (xArgs - nVar + 1) xRets (stack.take e ++ [mkSlice (stack.drop e)])

/-- `VM.Func` / `VM.Call` for a callee given as a stack function: a fresh stack `params ++ [fnc]`,
    one CALL instruction (which pops `fnc`), the last `xRets` values are returned -/
def vmFunc (callee : Nat → Nat → List V → Option (List V)) (xRets : Nat) (params : List V) : Option (List V) :=
  (callee params.length xRets params).map fun s => s.drop (s.length - xRets)

end Goat.Host
