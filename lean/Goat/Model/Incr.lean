/-!
# Model of top-level evaluation (vm.go `Eval`: compile against the persistent globals table with
# a fresh locals table, run, return the values left by expression statements)

What persists between `Eval` calls is `σ`: the global variables, the global functions (bodies are
late-bound: they look globals up when they run) and the output written so far. What does not
persist is per-call: the locals table, the operand stack — on which the values of expression
statements accumulate and are returned as `rets`. Top-level control statements use local slots
only inside their blocks, so their net effect is on `σ`.
-/
namespace Goat.Incr

inductive Expr
  | lit (n : Int)
  | var (x : String)
  | call (f : String)
  | add (a b : Expr)
  | sub (a b : Expr)
  deriving Repr

inductive Item
  | defv (x : String) (e : Expr)        -- x := e   /  var x = e
  | setv (x : String) (e : Expr)        -- x = e
  | print (e : Expr)                    -- println(e)
  | expr (e : Expr)                     -- e            (value is returned by Eval)
  | func (f : String) (body : Expr)     -- func f() int { return body }
  | loop (k : Nat) (x : String)         -- for i := 0; i < k; i++ { x = x + i }
  | ifpos (c : Expr) (x : String) (e : Expr)  -- if c > 0 { x = e }
  deriving Repr

structure State where
  vars : List (String × Int) := []
  funcs : List (String × Expr) := []
  out : List Int := []
  deriving Repr

def lookup {α : Type} (t : List (String × α)) (n : String) : Option α := (t.find? (·.1 = n)).map (·.2)
def update {α : Type} (t : List (String × α)) (n : String) (v : α) : List (String × α) :=
  (t.filter (·.1 ≠ n)) ++ [(n, v)]

/-- expressions; `fuel` bounds the evaluation depth (a call of an unknown function, an unknown
    variable or running out of fuel is an error) -/
def eval (s : State) : Nat → Expr → Option Int
  | 0, _ => none
  | _ + 1, .lit n => some n
  | _ + 1, .var x => lookup s.vars x
  | fuel + 1, .call f => (lookup s.funcs f).bind (eval s fuel)
  | fuel + 1, .add a b => do let x ← eval s fuel a; let y ← eval s fuel b; pure (x + y)
  | fuel + 1, .sub a b => do let x ← eval s fuel a; let y ← eval s fuel b; pure (x - y)

def callDepth : Nat := 100

def sumBelow (k : Nat) : Int := (List.range k).foldl (fun (a : Int) (i : Nat) => a + (i : Int)) 0

/-- one top-level statement: new persistent state and the values it leaves for `rets` -/
def step (s : State) : Item → Option (State × List Int)
  | .defv x e => (eval s callDepth e).map fun v => ({ s with vars := update s.vars x v }, [])
  | .setv x e => do
    let _ ← lookup s.vars x
    let v ← eval s callDepth e
    pure ({ s with vars := update s.vars x v }, [])
  | .print e => (eval s callDepth e).map fun v => ({ s with out := s.out ++ [v] }, [])
  | .expr e => (eval s callDepth e).map fun v => (s, [v])
  | .func f body => some ({ s with funcs := update s.funcs f body }, [])
  | .loop k x => (lookup s.vars x).map fun v => ({ s with vars := update s.vars x (v + sumBelow k) }, [])
  | .ifpos c x e => do
    let cv ← eval s callDepth c
    if cv > 0 then
      let _ ← lookup s.vars x
      let v ← eval s callDepth e
      pure ({ s with vars := update s.vars x v }, [])
    else pure (s, [])

/-- one `Eval` call: the statements in order; an error aborts the call -/
def evalChunk (s : State) : List Item → Option (State × List Int)
  | [] => some (s, [])
  | it :: rest => do
    let (s1, r1) ← step s it
    let (s2, r2) ← evalChunk s1 rest
    pure (s2, r1 ++ r2)

/-- successive `Eval` calls on one VM; the returned values of all calls, in order -/
def evalChunks (s : State) : List (List Item) → Option (State × List Int)
  | [] => some (s, [])
  | c :: rest => do
    let (s1, r1) ← evalChunk s c
    let (s2, r2) ← evalChunks s1 rest
    pure (s2, r1 ++ r2)

end Goat.Incr
