import Goat.Gen.Tables
import Goat.Gen.Facts
/-!
# Model of the robin-hood hash table behind struct fields and methods (intmap.go)

Open addressing with the identity hash; `size` is a power of two, so `i & mask = i mod size`
(modelled with `%`). A slot with `distance = 0` is empty. The Go probe loops run until they meet
an empty slot; the model's loops take fuel = `size` and report `none` if it runs out (never, when
an empty slot exists — `find_total` in Props/C12).
-/
namespace Goat.IntMap

structure Pair (V : Type) where
  distance : Nat
  key : Int
  value : V
  deriving Repr

structure IM (V : Type) where
  pairs : List (Pair V)
  total : Nat
  deriving Repr

variable {V : Type}

def IM.size (m : IM V) : Nat := m.pairs.length
def IM.max (m : IM V) : Nat := m.size * Gen.intMapMaxNum / Gen.intMapMaxDen
def IM.min (m : IM V) : Nat := m.size / Gen.intMapMinDen

/-- slot index of a (possibly negative, possibly large) Go int: `i & mask` -/
def slot (size : Nat) (i : Int) : Nat := (i % (size : Int)).toNat

def emptyPair [Inhabited V] : Pair V := { distance := 0, key := 0, value := default }

/-- `init(size, total)`: a table of empty slots -/
def mkTable [Inhabited V] (size total : Nat) : IM V :=
  { pairs := List.replicate size emptyPair, total := total }

/-- `newIntMap(alloc)`: the smallest size ≥ intMapMin that is a power-of-two multiple of it and
    at least `2*alloc` -/
def newSize (alloc : Nat) : Nat → Nat → Nat
  | 0, s => s
  | f+1, s => if s < 2 * alloc then newSize alloc f (s * 2) else s

def new [Inhabited V] (alloc : Nat) : IM V := mkTable (newSize alloc 64 Gen.intMapMin) 0

inductive Probe where
  | found (i : Nat)    -- slot holding the key
  | empty (i : Nat)    -- first empty slot of the probe sequence: the key is absent
  deriving Repr, DecidableEq

/-- the probe loop shared by `Get`, `Set`, `Assign`: from slot `i`, `fuel` more steps -/
def probe (pairs : List (Pair V)) (key : Int) : Nat → Nat → Option Probe
  | 0, _ => none
  | fuel+1, i =>
    let idx := i % pairs.length
    match pairs[idx]? with
    | none => none
    | some p =>
      if p.distance = 0 then some (.empty idx)
      else if p.key = key then some (.found idx)
      else probe pairs key fuel (idx + 1)

def IM.find (m : IM V) (key : Int) : Option Probe := probe m.pairs key m.size (slot m.size key)

/-- `Get(key)` -/
def IM.get (m : IM V) (key : Int) : Option V :=
  match m.find key with
  | some (.found i) => (m.pairs[i]?).map (·.value)
  | _ => none

/-- `insert(i, key, value)`: walk from slot `i`, swapping the carried pair with poorer residents,
    until an empty slot takes the carried pair -/
def insertLoop : Nat → List (Pair V) → Nat → Pair V → Option (List (Pair V))
  | 0, _, _, _ => none
  | fuel+1, pairs, i, carried =>
    let idx := i % pairs.length
    match pairs[idx]? with
    | none => none
    | some p =>
      if p.distance < carried.distance then
        let pairs' := pairs.set idx carried
        if p.distance = 0 then some pairs'
        else insertLoop fuel pairs' (idx + 1) { p with distance := p.distance + 1 }
      else insertLoop fuel pairs (idx + 1) { carried with distance := carried.distance + 1 }

def insertRaw (pairs : List (Pair V)) (key : Int) (value : V) : Option (List (Pair V)) :=
  insertLoop (2 * pairs.length + 2) pairs (slot pairs.length key) { distance := 1, key := key, value := value }

/-- `resize(size)`: re-insert every resident into a fresh table -/
def IM.resize [Inhabited V] (m : IM V) (size : Nat) : Option (IM V) :=
  let size := if size < Gen.intMapMin then Gen.intMapMin else size
  if size = m.size then some m
  else
    (m.pairs.filter (·.distance ≠ 0)).foldlM
      (fun (acc : IM V) p => (insertRaw acc.pairs p.key p.value).map fun ps => { acc with pairs := ps })
      (mkTable size m.total)

/-- `Set(key, value)` -/
def IM.set [Inhabited V] (m : IM V) (key : Int) (value : V) : Option (IM V) :=
  match m.find key with
  | some (.found i) =>
    match m.pairs[i]? with
    | some p => some { m with pairs := m.pairs.set i { p with value := value } }
    | none => none
  | some (.empty _) =>
    match insertRaw m.pairs key value with
    | some ps =>
      let m' : IM V := { pairs := ps, total := m.total + 1 }
      if m'.total > m'.max then m'.resize (m'.size * 2) else some m'
    | none => none
  | none => none

/-- `Assign(key, value)`: overwrite an existing key only (the value conversion is the caller's) -/
def IM.assign (m : IM V) (key : Int) (f : V → V) : Option (IM V) :=
  match m.find key with
  | some (.found i) =>
    match m.pairs[i]? with
    | some p => some { m with pairs := m.pairs.set i { p with value := f p.value } }
    | none => none
  | some (.empty _) => some m
  | none => none

/-- `Delete(key)` by backward shift (not used by the VM; modelled for the table-level check) -/
def deleteShift : Nat → List (Pair V) → Nat → Nat → Option (List (Pair V))
  | 0, _, _, _ => none
  | fuel+1, pairs, prev, i =>
    let idx := i % pairs.length
    match pairs[idx]?, pairs[prev]? with
    | some p, some q =>
      if p.distance ≤ 1 then some (pairs.set prev { q with distance := 0 })
      else deleteShift fuel (pairs.set prev { p with distance := p.distance - 1 }) idx (idx + 1)
    | _, _ => none

def IM.delete [Inhabited V] (m : IM V) (key : Int) : Option (IM V) :=
  match m.find key with
  | some (.found i) =>
    match deleteShift (m.size + 1) m.pairs i (i + 1) with
    | some ps =>
      let m' : IM V := { pairs := ps, total := m.total - 1 }
      if m'.total < m'.min then m'.resize (m'.size / 2) else some m'
    | none => none
  | some (.empty _) => some m
  | none => none

/-- the residents, as (key, value) pairs -/
def IM.entries (m : IM V) : List (Int × V) :=
  (m.pairs.filter (·.distance ≠ 0)).map fun p => (p.key, p.value)

end Goat.IntMap
