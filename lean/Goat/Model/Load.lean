/-!
# Model of the package loader's ordering (load.go `loadImports`)

`discover` is the worklist that collects the transitively imported packages (a package that is
not found becomes a virtual node without imports); `order` is the loop that repeatedly takes the
alphabetically first remaining package whose remaining dependency set is empty, removes it from
every dependency set, and appends it to the run order. With no eligible package the (repaired)
code reports an import cycle.
-/
namespace Goat.Load

/-- the import lists of the packages that exist (a missing package has no entry) -/
abbrev Imports := List (String × List String)

def importsOf (g : Imports) (p : String) : List String := (g.lookup p).getD []

/-- worklist discovery: `todo` is the stack, `seen` the packages map -/
def discover (g : Imports) : Nat → List String → List String → List String
  | 0, _, seen => seen
  | _, [], seen => seen
  | fuel+1, p :: todo, seen =>
    if seen.contains p then discover g fuel todo seen
    else discover g fuel (importsOf g p ++ todo) (p :: seen)

/-- insertion sort by `<` on strings (the Go code sorts the package names) -/
def insertSorted (s : String) : List String → List String
  | [] => [s]
  | a :: t => if s < a then s :: a :: t else a :: insertSorted s t
def sortStrings (l : List String) : List String := l.foldr insertSorted []

/-- the first remaining package with no remaining dependency -/
def pick (keys : List String) (deps : String → List String) : Option String :=
  keys.find? (fun k => (deps k).isEmpty)

inductive Err where
  | cycle   -- no package is eligible: import cycle
  | fuel    -- never happens with fuel = number of packages (`order_never_out_of_fuel`)
  deriving DecidableEq, Repr

/-- remove a finished package from every remaining dependency set -/
def dropDep (deps : String → List String) (p : String) : String → List String :=
  fun k => (deps k).filter (fun d => d ≠ p)

/-- the ordering loop; `deps k` is the remaining dependency set of `k` -/
def order : Nat → List String → (String → List String) → Except Err (List String)
  | _, [], _ => .ok []
  | 0, _ :: _, _ => .error .fuel
  | n+1, a :: t, deps =>
    match pick (a :: t) deps with
    | none => .error .cycle
    | some p =>
      match order n ((a :: t).erase p) (dropDep deps p) with
      | .ok l => .ok (p :: l)
      | .error e => .error e

/-- the packages `loadImports` discovers from `top` (the fuel is more than the worklist can use:
    `discover_spec`) -/
def discovered (g : Imports) (top : String) : List String :=
  discover g (g.length * (g.foldl (fun n p => n + p.2.length) 0 + 1) + 2) [top] []

/-- the whole of `loadImports`' ordering for a top package -/
def loadOrder (g : Imports) (top : String) : Except Err (List String) :=
  let keys := sortStrings (discovered g top)
  order keys.length keys (importsOf g)

end Goat.Load
