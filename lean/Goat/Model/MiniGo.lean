import Goat.Lemmas.CF
/-!
# MiniGo: an end-to-end fragment (expressions, assignment, if / else, for, break, continue)

Source programs are trees (`Expr`, assignments, comparisons, `CF.Stmt` for control flow); the
compiler emits the instruction lists compiler.go emits with the optimizer off (operands left to
right, then the operator; the value, then LOCALSET; comparison then the conditional jump of the
control-flow scheme); the machine runs instructions as do.go does. Arithmetic and comparison
primitives are parameters (`Prims`): their agreement with Go on every width is C04's subject.
`none` is a run-time panic.
-/
namespace Goat.MiniGo
open Goat.Peephole Goat.CF

inductive BinOp | add | sub | mul | div | mod
  deriving DecidableEq, Repr
inductive CmpOp | lt | lte | gt | gte | eq | neq
  deriving DecidableEq, Repr

def BinOp.code : BinOp → String
  | .add => "ADD" | .sub => "SUB" | .mul => "MUL" | .div => "DIV" | .mod => "MOD"
def CmpOp.code : CmpOp → String
  | .lt => "LT" | .lte => "LTE" | .gt => "GT" | .gte => "GTE" | .eq => "EQ" | .neq => "NEQ"

inductive Expr
  | lit (k : Int)
  | loc (i : Nat)
  | bin (op : BinOp) (a b : Expr)
  deriving Repr

structure Assign where
  slot : Nat
  rhs : Expr
  deriving Repr

structure Cond where
  op : CmpOp
  a : Expr
  b : Expr
  deriving Repr

structure Prims (V : Type) where
  untyped : Int → V                       -- PUSH k: an untyped constant
  bin : BinOp → V → V → Option V          -- opAdd … (none: panic, e.g. integer division by zero)
  cmp : CmpOp → V → V → Option Bool
  assignTo : V → V → V                    -- new.assign(type of the old value)
  ofBool : Bool → V                       -- Bool(b): what a comparison pushes
  truth : V → Bool                        -- v.Bool(): what AND / OR / NOT / JUMPFALSE test

variable {V : Type}

/-! ### source semantics (Go: operands left to right) -/

def evalE (P : Prims V) (locals : List V) : Expr → Option V
  | .lit k => some (P.untyped k)
  | .loc i => locals[i]?
  | .bin op a b => do
    let x ← evalE P locals a
    let y ← evalE P locals b
    P.bin op x y

def evalAssign (P : Prims V) (locals : List V) (s : Assign) : Option (List V) := do
  let v ← evalE P locals s.rhs
  let old ← locals[s.slot]?
  pure (locals.set s.slot (P.assignTo v old))

def evalCond (P : Prims V) (locals : List V) (c : Cond) : Option Bool := do
  let x ← evalE P locals c.a
  let y ← evalE P locals c.b
  P.cmp c.op x y

/-- boolean conditions: comparisons combined with Go's short-circuit operators -/
inductive BExpr
  | cmp (c : Cond)
  | and (a b : BExpr)
  | or (a b : BExpr)
  | not (a : BExpr)
  deriving Repr

/-- Go's semantics: the right operand of `&&` / `||` is evaluated only if the left one does not
    decide the result (so its panics do not happen either) -/
def evalB (P : Prims V) (locals : List V) : BExpr → Option Bool
  | .cmp c => evalCond P locals c
  | .and a b => match evalB P locals a with
    | some true => evalB P locals b
    | r => r
  | .or a b => match evalB P locals a with
    | some false => evalB P locals b
    | r => r
  | .not a => (evalB P locals a).map (!·)

/-! ### the compiler -/

def ins (op : String) (a : Int := 0) : Instr := { op := op, a := a }

def compileE : Expr → List Instr
  | .lit k => [ins "PUSH" k]
  | .loc i => [ins "LOCALGET" i]
  | .bin op a b => compileE a ++ compileE b ++ [ins op.code]

def compileAssign (s : Assign) : List Instr := compileE s.rhs ++ [ins "LOCALSET" s.slot]
def compileCond (c : Cond) : List Instr := compileE c.a ++ compileE c.b ++ [ins c.op.code]

/-- `a && b`: a; AND len(b); b — `a || b` likewise with OR; `!a`: a; NOT -/
def compileB : BExpr → List Instr
  | .cmp c => compileCond c
  | .and a b => compileB a ++ [ins "AND" (compileB b).length] ++ compileB b
  | .or a b => compileB a ++ [ins "OR" (compileB b).length] ++ compileB b
  | .not a => compileB a ++ [ins "NOT"]

/-! ### the machine on straight-line code -/

structure St (V : Type) where
  locals : List V
  ops : List V            -- operand stack, top first

def binOfCode (s : String) : Option BinOp :=
  if s = "ADD" then some .add else if s = "SUB" then some .sub else if s = "MUL" then some .mul
  else if s = "DIV" then some .div else if s = "MOD" then some .mod else none

def cmpOfCode (s : String) : Option CmpOp :=
  if s = "LT" then some .lt else if s = "LTE" then some .lte else if s = "GT" then some .gt
  else if s = "GTE" then some .gte else if s = "EQ" then some .eq else if s = "NEQ" then some .neq else none

/-- one instruction of do.go's loop (value-producing opcodes of the fragment) -/
def step1 (P : Prims V) (i : Instr) (σ : St V) : Option (St V) :=
  if i.op = "PUSH" then some { σ with ops := P.untyped i.a :: σ.ops }
  else if i.op = "LOCALGET" then
    if i.a < 0 then none else (σ.locals[i.a.toNat]?).map fun v => { σ with ops := v :: σ.ops }
  else if i.op = "LOCALSET" then
    match σ.ops with
    | v :: rest =>
      if i.a < 0 then none
      else (σ.locals[i.a.toNat]?).map fun old => { locals := σ.locals.set i.a.toNat (P.assignTo v old), ops := rest }
    | [] => none
  else match binOfCode i.op with
    | some op =>
      match σ.ops with
      | y :: x :: rest => (P.bin op x y).map fun r => { σ with ops := r :: rest }
      | _ => none
    | none => none

def run (P : Prims V) : List Instr → St V → Option (St V)
  | [], σ => some σ
  | i :: is, σ => (step1 P i σ).bind (run P is)

/-- a condition's code: the operands, then the comparison whose boolean the following
    conditional jump consumes -/
def runCond (P : Prims V) (code : List Instr) (σ : St V) : Option (Bool × St V) :=
  match code.getLast? with
  | none => none
  | some last =>
    match cmpOfCode last.op with
    | none => none
    | some op =>
      (run P code.dropLast σ).bind fun σ' =>
        match σ'.ops with
        | y :: x :: rest => (P.cmp op x y).map fun b => (b, { σ' with ops := rest })
        | _ => none

/-- the machine on condition code: value instructions, comparisons (push `Bool(b)`), and the
    short-circuit instructions of do.go — AND: if the top is false, jump `A` instructions ahead
    leaving it on the stack, else pop it; OR dually; NOT replaces the top. Jumps only go forward,
    so the recursion is on the remaining code. -/
def runJ (P : Prims V) : List Instr → St V → Option (St V)
  | [], σ => some σ
  | i :: rest, σ =>
    if i.op = "AND" ∨ i.op = "OR" then
      match σ.ops with
      | t :: ops' =>
        if (i.op = "AND" ∧ !P.truth t) ∨ (i.op = "OR" ∧ P.truth t) then runJ P (rest.drop i.a.toNat) σ
        else runJ P rest { σ with ops := ops' }
      | [] => none
    else if i.op = "NOT" then
      match σ.ops with
      | t :: ops' => runJ P rest { σ with ops := P.ofBool (!P.truth t) :: ops' }
      | [] => none
    else match cmpOfCode i.op with
      | some op =>
        match σ.ops with
        | y :: x :: ops' => (P.cmp op x y).bind fun b => runJ P rest { σ with ops := P.ofBool b :: ops' }
        | _ => none
      | none => (step1 P i σ).bind (runJ P rest)
termination_by code => code.length
decreasing_by
  all_goals simp_wf
  all_goals (try simp only [List.length_drop]) <;> omega

/-- a condition's code followed by the conditional jump that pops the boolean -/
def runCondJ (P : Prims V) (code : List Instr) (σ : St V) : Option (Bool × St V) :=
  (runJ P code σ).bind fun σ' =>
    match σ'.ops with
    | t :: rest => some (P.truth t, { σ' with ops := rest })
    | [] => none

/-! ### programs: control flow over indexed leaves -/

structure Prog where
  acts : List Assign
  cnds : List BExpr
  body : Stmt

def leaves (p : Prog) : Leaves where
  act n := match p.acts[n]? with | some s => compileAssign s | none => []
  cnd c := match p.cnds[c]? with | some k => compileB k | none => [ins "PUSH" 0, ins "PUSH" 0, ins "EQ"]

/-- state of the control-flow level: the locals, or `none` after a panic (absorbing) -/
def sem (P : Prims V) (p : Prog) : Sem (Option (List V)) where
  act n s := match p.acts[n]? with
    | some a => s.bind fun l => evalAssign P l a
    | none => s
  cval c s := match p.cnds[c]?, s with
    | some k, some l => (evalB P l k).getD false
    | _, _ => false
  ceff c s := match p.cnds[c]?, s with
    | some k, some l => if (evalB P l k).isSome then some l else none
    | _, _ => none

def compileProg (p : Prog) : List Instr := CF.compile (leaves p) p.body

end Goat.MiniGo
