import Goat.Gen.Tables
import Goat.Gen.Facts
/-!
# Model of goatlang's numeric values (value.go: type tags, `mixType`, `opAdd … opBitXor`,
comparisons, `assign`, `convert`; do.go: INCDEC, NEGATE, BITCOMPLEMENT, CAST)

A goatlang `Value` carries a tag `t` and a `float64` payload. For every tag except float64 the
payload is an integer, modelled as `Int` (exact in a float64 as long as its magnitude is below
2^53 — assumption A-f64-int; all typed values are below 2^32 by the invariant `WT`). Go's native
`int8/uint8/int32/uint32` operators, which the arms of the Go `switch` apply to the converted
payloads, are `BitVec` operators.
-/
namespace Goat.Num

def tagOf (name : String) : Nat := (Gen.typeTags.lookup name).getD 0

def tNil : Nat := tagOf "TypeNil"
def tUntyped : Nat := tagOf "untypedInt"
def tU8 : Nat := tagOf "TypeUint8"
def tI8 : Nat := tagOf "TypeInt8"
def tU32 : Nat := tagOf "TypeUint32"
def tI32 : Nat := tagOf "TypeInt32"
def tF64 : Nat := tagOf "TypeFloat64"
def tBool : Nat := tagOf "TypeBool"
def tString : Nat := tagOf "TypeString"
def nillableMin : Nat := tagOf "nillableMin"
def isNumericMask : Nat := tagOf "isNumericMask"

/-- `mixType(a, b) = a | b` -/
def mixType (a b : Nat) : Nat := a ||| b

inductive Val where
  | int (t : Nat) (n : Int)     -- every non-float tag: payload is an integer
  | flt (x : Float)             -- TypeFloat64

def Val.tag : Val → Nat
  | .int t _ => t
  | .flt _ => tF64

/-- payload as the float64 the implementation stores -/
def Val.toFloat : Val → Float
  | .int _ n => Float.ofInt n
  | .flt x => x

/-- Go's `int64(x)` on a float64 (in range: truncation toward zero) -/
def f2i (x : Float) : Int := x.toInt64.toInt

/-- payload as Go's `int(v.num)` / `int64(v.num)` -/
def Val.toInt : Val → Int
  | .int _ n => n
  | .flt x => f2i x

/-- two's-complement wrap to the range of a typed integer tag -/
def wrapS (w : Nat) (z : Int) : Int := (BitVec.ofInt w z).toInt
def wrapU (w : Nat) (z : Int) : Int := (BitVec.ofInt w z).toNat

/-- apply a `BitVec w` operator to two payloads, reading the result signed or unsigned -/
def binS (w : Nat) (f : BitVec w → BitVec w → BitVec w) (a b : Int) : Int :=
  (f (BitVec.ofInt w a) (BitVec.ofInt w b)).toInt
def binU (w : Nat) (f : BitVec w → BitVec w → BitVec w) (a b : Int) : Int :=
  (f (BitVec.ofInt w a) (BitVec.ofInt w b)).toNat

/-- the operators of the Go `switch` arms -/
inductive Op where
  | add | sub | mul | div | mod | and | or | xor
  deriving DecidableEq, Repr

def Op.bv (w : Nat) : Op → Bool → BitVec w → BitVec w → BitVec w
  | .add, _ => (· + ·)
  | .sub, _ => (· - ·)
  | .mul, _ => (· * ·)
  | .div, true => BitVec.sdiv
  | .div, false => BitVec.udiv
  | .mod, true => BitVec.srem
  | .mod, false => BitVec.umod
  | .and, _ => (· &&& ·)
  | .or, _ => (· ||| ·)
  | .xor, _ => (· ^^^ ·)

/-- the `default:` arm (untyped ∘ untyped and non-numeric tags): arithmetic on the raw payload;
    division, remainder and the bit operators go through Go's 64-bit `int` -/
def Op.untyped : Op → Int → Int → Int
  | .add, a, b => a + b
  | .sub, a, b => a - b
  | .mul, a, b => a * b
  | .div, a, b => (BitVec.sdiv (BitVec.ofInt 64 a) (BitVec.ofInt 64 b)).toInt
  | .mod, a, b => (BitVec.srem (BitVec.ofInt 64 a) (BitVec.ofInt 64 b)).toInt
  | .and, a, b => ((BitVec.ofInt 64 a) &&& (BitVec.ofInt 64 b)).toInt
  | .or, a, b => ((BitVec.ofInt 64 a) ||| (BitVec.ofInt 64 b)).toInt
  | .xor, a, b => ((BitVec.ofInt 64 a) ^^^ (BitVec.ofInt 64 b)).toInt

def Op.float : Op → Float → Float → Option Float
  | .add, a, b => some (a + b)
  | .sub, a, b => some (a - b)
  | .mul, a, b => some (a * b)
  | .div, a, b => some (a / b)
  | _, _, _ => none   -- % & | ^ on float64 go through int(): not Go, not modelled

def Op.isDivMod : Op → Bool
  | .div | .mod => true
  | _ => false

/-- `opAdd … opBitXor`: select the arm by `mixType`, apply the native operator.
    `none` = the Go code panics (integer division by zero) or the case is outside the model. -/
def binop (op : Op) (a b : Val) : Option Val :=
  let t := mixType a.tag b.tag
  if t = tF64 then (op.float a.toFloat b.toFloat).map Val.flt
  else
    let x := a.toInt
    let y := b.toInt
    if t = tI32 then
      if op.isDivMod && wrapS 32 y = 0 then none else some (.int t (binS 32 (op.bv 32 true) x y))
    else if t = tU32 then
      if op.isDivMod && wrapU 32 y = 0 then none else some (.int t (binU 32 (op.bv 32 false) x y))
    else if t = tI8 then
      if op.isDivMod && wrapS 8 y = 0 then none else some (.int t (binS 8 (op.bv 8 true) x y))
    else if t = tU8 then
      if op.isDivMod && wrapU 8 y = 0 then none else some (.int t (binU 8 (op.bv 8 false) x y))
    else
      if op.isDivMod && y = 0 then none else some (.int tUntyped (op.untyped x y))

/-- shifts (`opBitLsh`, `opBitRsh`): the arm is selected by the *left* operand's tag; a negative
    count panics -/
def shift (left : Bool) (a b : Val) : Option Val :=
  let cnt := b.toInt
  if cnt < 0 then none
  else
    let x := a.toInt
    let t := a.tag
    -- a count ≥ the width shifts everything out; clamping keeps the model cheap to run
    -- (`shift_clamp_*` in Props/C04 show clamping does not change the BitVec result)
    let sh (w : Nat) (signed : Bool) (v : BitVec w) : BitVec w :=
      let n := min cnt.toNat w
      if left then v <<< n else if signed then v.sshiftRight n else v >>> n
    if t = tF64 then some (.flt (Float.ofInt ((sh 64 true (BitVec.ofInt 64 x)).toInt)))
    else if t = tI32 then some (.int t (sh 32 true (BitVec.ofInt 32 x)).toInt)
    else if t = tU32 then some (.int t (sh 32 false (BitVec.ofInt 32 x)).toNat)
    else if t = tI8 then some (.int t (sh 8 true (BitVec.ofInt 8 x)).toInt)
    else if t = tU8 then some (.int t (sh 8 false (BitVec.ofInt 8 x)).toNat)
    else some (.int tUntyped (sh 64 true (BitVec.ofInt 64 x)).toInt)

def mkBool (b : Bool) : Val := .int tBool (if b then 1 else 0)

/-- `opLt` / `opLte` on non-strings: compare the payloads -/
def lt (a b : Val) : Val :=
  match a, b with
  | .int _ x, .int _ y => mkBool (x < y)
  | _, _ => mkBool (a.toFloat < b.toFloat)
def lte (a b : Val) : Val :=
  match a, b with
  | .int _ x, .int _ y => mkBool (x ≤ y)
  | _, _ => mkBool (a.toFloat ≤ b.toFloat)

/-- `Equals` on bool and numeric left operands: compare the payloads -/
def eqNum (a b : Val) : Val :=
  match a, b with
  | .int _ x, .int _ y => mkBool (x = y)
  | _, _ => mkBool (a.toFloat == b.toFloat)

/-- `assign(t)`: an untyped constant adopts the destination type, and so does a float64 that reaches an
    integer slot (it can only be a float-spelled constant); nil adopts a nillable type; everything else
    is unchanged -/
def assign (v : Val) (t : Nat) : Val :=
  if v.tag = t then v
  else if v.tag = tUntyped then
    if t = tF64 then .flt v.toFloat
    else if t = tI32 then .int t (wrapS 32 v.toInt)
    else if t = tU32 then .int t (wrapU 32 v.toInt)
    else if t = tI8 then .int t (wrapS 8 v.toInt)
    else if t = tU8 then .int t (wrapU 8 v.toInt)
    else .int tI32 (wrapS 32 v.toInt)
  else if v.tag = tF64 ∧ (t = tI32 ∨ t = tU32 ∨ t = tI8 ∨ t = tU8) then
    -- a float64 reaches an integer slot only as a constant (1e6, 2.0): it takes the slot's type
    (if t = tI32 then .int t (wrapS 32 v.toInt) else if t = tU32 then .int t (wrapU 32 v.toInt)
     else if t = tI8 then .int t (wrapS 8 v.toInt) else .int t (wrapU 8 v.toInt))
  else if v.tag ≠ tNil then v
  else if t ≥ nillableMin then .int t 0
  else .int tNil 0

/-- `reassign(t)`: `assign` for a slot whose type is known only from the value it holds (a variable, a struct
    field - the slot may be an `any`): a float64 stays a float64 there -/
def reassign (v : Val) (t : Nat) : Val :=
  if v.tag = tF64 then v else assign v t

/-- `convert(t)` for the numeric targets -/
def convert (v : Val) (t : Nat) : Option Val :=
  if t = tU8 then some (.int t (wrapU 8 v.toInt))
  else if t = tI8 then some (.int t (wrapS 8 v.toInt))
  else if t = tI32 then some (.int t (wrapS 32 v.toInt))
  else if t = tU32 then some (.int t (wrapU 32 v.toInt))
  else if t = tF64 then some (.flt v.toFloat)
  else none

/-- INCDEC k (do.go): `a.opAdd(newUntypedInt(k))` -/
def incdec (a : Val) (k : Int) : Option Val := binop .add a (.int tUntyped k)
/-- NEGATE: `a.opMul(newUntypedInt(-1))` -/
def negate (a : Val) : Option Val := binop .mul a (.int tUntyped (-1))
/-- BITCOMPLEMENT: an untyped constant stays untyped (`^int(k)`); otherwise
    `a' := a.assign(TypeNil); a'.opBitXor(Uint32(0xffffffff).convert(a'.t))` -/
def complement (a : Val) : Option Val :=
  if a.tag = tUntyped then some (.int tUntyped (~~~ (BitVec.ofInt 64 a.toInt)).toInt) else
  let a' := assign a tNil
  match convert (.int tU32 0xffffffff) a'.tag with
  | some m => binop .xor a' m
  | none => binop .xor a' (.int tNil 0)   -- convert's default arm returns the zero Value

end Goat.Num
