/-!
# Model of goatlang's script maps (value.go `stringMap` / `numericMap`)

A Go map `data` plus an ordered key list `keys` that may contain stale (deleted) keys:
`Set` appends unseen keys (dropping a stale occurrence first), `Delete` removes the entry and
compacts `keys` only when fewer than half of its entries are live — to *some* order of the live
keys (Go's `maps.Keys`), which the model takes as an argument so that theorems hold for every
order. `Range` snapshots `keys` and `next` skips keys that are no longer present.
-/
namespace Goat.OMap

variable {K V : Type} [DecidableEq K]

/-! ## association lists with unique keys (the Go map) -/

def aget (k : K) : List (K × V) → Option V
  | [] => none
  | (k', v) :: t => if k' = k then some v else aget k t

def aput (k : K) (v : V) : List (K × V) → List (K × V)
  | [] => [(k, v)]
  | (k', v') :: t => if k' = k then (k, v) :: t else (k', v') :: aput k v t

def adel (k : K) : List (K × V) → List (K × V)
  | [] => []
  | (k', v') :: t => if k' = k then t else (k', v') :: adel k t

def akeys (d : List (K × V)) : List K := d.map (·.1)

/-! ## the map object -/

structure M (K V : Type) where
  data : List (K × V)
  keys : List K

def M.get (m : M K V) (k : K) : Option V := aget k m.data
def M.len (m : M K V) : Nat := m.data.length
def M.live (m : M K V) : List K := akeys m.data

/-- `newStringMap` / `newNumericMap` from literal pairs: a key is listed when first seen, later
    pairs with the same key overwrite the value -/
def M.ofList (pairs : List (K × V)) : M K V :=
  pairs.foldl (fun m p =>
    { data := aput p.1 p.2 m.data,
      keys := if (aget p.1 m.data).isSome then m.keys else m.keys ++ [p.1] }) ⟨[], []⟩

/-- `Set` (after the element conversion): unseen keys are appended; when the key list holds stale
    entries the stale occurrence of this key is dropped first -/
def M.set (m : M K V) (k : K) (v : V) : M K V :=
  if (m.get k).isSome then { m with data := aput k v m.data }
  else
    { data := aput k v m.data,
      keys := (if m.keys.length > m.data.length then m.keys.erase k else m.keys) ++ [k] }

/-- `Delete`: remove the entry; compact the key list when `len(data) < len(keys) >> 1`, to the order
    `perm` (Go's `maps.Keys` gives an unspecified order of the live keys) -/
def M.delete (m : M K V) (k : K) (perm : List K) : M K V :=
  let d := adel k m.data
  if d.length ≥ m.keys.length / 2 then { data := d, keys := m.keys }
  else { data := d, keys := perm }

/-- did this delete compact? (tells the harness when to supply the observed order) -/
def M.compacts (m : M K V) (k : K) : Bool :=
  decide ((adel k m.data).length < m.keys.length / 2)

/-- one step of a `Range` iterator over the snapshot's remaining keys: skip keys that are gone -/
def next (m : M K V) : List K → Option (K × V) × List K
  | [] => (none, [])
  | k :: rem =>
    match m.get k with
    | some v => (some (k, v), rem)
    | none => next m rem

/-- what can happen while a `range` loop is running -/
inductive Ev (K V : Type) where
  | set (k : K) (v : V)
  | del (k : K) (perm : List K)
  | next

/-- run a loop: the visits it makes and the snapshot keys it has not looked at yet -/
def run : M K V → List K → List (Ev K V) → List (K × V) × List K
  | _, rem, [] => ([], rem)
  | m, rem, .set k v :: es => run (m.set k v) rem es
  | m, rem, .del k p :: es => run (m.delete k p) rem es
  | m, rem, .next :: es =>
    match next m rem with
    | (some kv, rem') => let r := run m rem' es; (kv :: r.1, r.2)
    | (none, rem') => run m rem' es

end Goat.OMap
