import Goat.Gen.Tables
import Goat.Gen.Facts
/-!
# Model of the peephole optimizer (compiler.go `doOptimize`, `optimize`)

`doOptimize` scans the instruction list left to right; at each position the first `case` of the
`switch` whose window pattern and guards match fires, emits one fused instruction and skips the
window; otherwise the instruction is copied. The cases are data: `Gen.peephole` is regenerated
from the source on every run, so this model is the interpreter of that table.
-/
namespace Goat.Peephole

structure Instr where
  op : String
  a : Int := 0
  b : Int := 0
  c : Int := 0
  pos : Nat := 0          -- source position (the harness compares the line)
  deriving DecidableEq, Repr

def Instr.fld (i : Instr) : Gen.Fld → Int
  | .A => i.a | .B => i.b | .C => i.c

/-- `joinParams(a, b) = (((a + 32768) & 0xffff) << 16) | ((b + 32768) & 0xffff)` -/
def joinParams (a b : Int) : Int := ((a + 32768) % 65536) * 65536 + (b + 32768) % 65536

def guardOk (l : List Instr) : Gen.Guard → Bool
  | .eqf i f j g =>
    match l[i]?, l[j]? with
    | some x, some y => x.fld f == y.fld g
    | _, _ => false
  | .eqc i f c =>
    match l[i]? with
    | some x => x.fld f == c
    | none => false
  | .nec i f c =>
    match l[i]? with
    | some x => x.fld f != c
    | none => false

def opsOf (l : List Instr) : List String := l.map (·.op)

/-- the `case` condition: enough instructions left, opcodes match, guards hold -/
def fires (r : Gen.Rule) (l : List Instr) : Bool :=
  (opsOf (l.take r.lhs.length) == r.lhs) && r.guards.all (guardOk l)

def srcVal (l : List Instr) : Gen.Src → Int
  | .none => 0
  | .fld i f => ((l[i]?).map (·.fld f)).getD 0
  | .neg i f => - ((l[i]?).map (·.fld f)).getD 0
  | .join i f j g => joinParams (((l[i]?).map (·.fld f)).getD 0) (((l[j]?).map (·.fld g)).getD 0)

/-- the fused instruction a case appends -/
def build (r : Gen.Rule) (l : List Instr) : Instr :=
  { op := r.rhs, a := srcVal l r.a, b := srcVal l r.b, c := srcVal l r.c,
    pos := ((l[r.pos]?).map (·.pos)).getD 0 }

/-- first matching case at the head of `l`: the fused instruction and the window length -/
def matchAt (rules : List Gen.Rule) (l : List Instr) : Option (Instr × Nat) :=
  (rules.find? (fires · l)).map fun r => (build r l, r.lhs.length)

/-- one pass of `doOptimize` (a matching case always consumes at least one instruction; Lean
    accepting this definition is the termination proof of the pass) -/
def doOpt (rules : List Gen.Rule) : List Instr → List Instr
  | [] => []
  | i :: rest =>
    match matchAt rules (i :: rest) with
    | some (x, k) => x :: doOpt rules ((i :: rest).drop (max k 1))
    | none => i :: doOpt rules rest
termination_by l => l.length
decreasing_by
  · simp only [List.length_drop, List.length_cons]; omega
  · simp

/-- `optimize`: `Gen.optimizePasses` passes (two in the source) -/
def optimize (l : List Instr) : List Instr :=
  (List.range Gen.optimizePasses).foldl (fun acc _ => doOpt Gen.peephole acc) l

end Goat.Peephole
