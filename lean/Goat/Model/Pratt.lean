/-!
# Model of goatlang's expression parser (parse.go `doExpression`, symbol.go `ledInfix`,
`negateNud`, `complementNud`, `notNud`, `parenNud`) on the operator fragment of C05.

Tokens are what the tokenizer hands to the parser: names, integer literals and symbols.
The parser is parametric in a binding-power `Table`; `Goat/Props/C05.lean` instantiates it
with the table regenerated from symbol.go on every run.
-/
namespace Goat.Pratt

inductive Tok where
  | name (s : String)
  | int (n : Nat)
  | sym (s : String)      -- an operator symbol
  | lp | rp               -- "(" and ")"
  deriving DecidableEq, Repr

/-- Trees as the parser builds them. `int true n` is the literal produced by `negateNud`'s
    folding (`-` applied to an `(int)` token rewrites its text to "-n"). `paren` never occurs in
    parser output; it marks redundant parentheses in *source* expressions. -/
inductive Expr where
  | name (s : String)
  | int (neg : Bool) (n : Nat)
  | un (op : String) (e : Expr)
  | bin (op : String) (l r : Expr)
  | paren (e : Expr)
  deriving DecidableEq, Repr

structure Table where
  /-- symbols whose led is `ledInfix` and that the compiler maps to a binary opcode, with their Lbp -/
  bin : List (String × Nat)
  /-- prefix operators with the binding power their nud parses the operand at -/
  pre : List (String × Nat)
  /-- binding power `parenNud` parses its contents at -/
  parenBP : Nat

def Table.lbp? (T : Table) (s : String) : Option Nat := T.bin.lookup s
def Table.pre? (T : Table) (s : String) : Option Nat := T.pre.lookup s
def Table.lbp (T : Table) (s : String) : Nat := (T.lbp? s).getD 0

/-- `negateNud`: `-` applied to a non-negative integer literal folds into the literal
    (the real code prepends "-" to the token text; a literal that already carries a sign is
    left alone and wrapped in a `negate` node). -/
def mkUn (op : String) (e : Expr) : Expr :=
  if op = "-" then
    match e with
    | Expr.int false n => Expr.int true n
    | _ => Expr.un op e
  else Expr.un op e

mutual
/-- `doExpression rbp`: nud of the first token, then the led loop -/
def parseExpr (T : Table) : Nat → Nat → List Tok → Option (Expr × List Tok)
  | 0, _, _ => none
  | fuel+1, rbp, ts =>
    match ts with
    | Tok.name s :: rest => loop T fuel rbp (Expr.name s) rest
    | Tok.int n :: rest => loop T fuel rbp (Expr.int false n) rest
    | Tok.lp :: rest =>
      match parseExpr T fuel T.parenBP rest with
      | some (e, Tok.rp :: rest') => loop T fuel rbp e rest'
      | _ => none
    | Tok.sym s :: rest =>
      match T.pre? s with
      | some bp =>
        match parseExpr T fuel bp rest with
        | some (e, rest') => loop T fuel rbp (mkUn s e) rest'
        | none => none
      | none => none
    | _ => none
/-- the `for rbp < Lbp(token)` loop with `ledInfix` -/
def loop (T : Table) : Nat → Nat → Expr → List Tok → Option (Expr × List Tok)
  | 0, _, _, _ => none
  | fuel+1, rbp, left, ts =>
    match ts with
    | Tok.sym s :: rest =>
      match T.lbp? s with
      | some bp =>
        if rbp < bp then
          match parseExpr T fuel bp rest with
          | some (r, rest') => loop T fuel rbp (Expr.bin s left r) rest'
          | none => none
        else some (left, ts)
      | none => some (left, ts)
    | _ => some (left, ts)
end

/-- enough fuel for any token list (each call consumes a token or returns) -/
def parseTop (T : Table) (ts : List Tok) : Option (Expr × List Tok) :=
  parseExpr T (2 * ts.length + 2) 0 ts

/-- tree text as `token.String()` prints it (negate/complement are renamed by their nuds) -/
def Expr.show : Expr → String
  | .name s => s
  | .int neg n => (if neg then "-" else "") ++ toString n
  | .un op e =>
    let nm := if op = "-" then "negate" else if op = "^" then "complement" else op
    "(" ++ nm ++ " " ++ e.show ++ ")"
  | .bin op l r => "(" ++ op ++ " " ++ l.show ++ " " ++ r.show ++ ")"
  | .paren e => "(paren " ++ e.show ++ ")"

end Goat.Pratt
