import Goat.Gen.Tables
import Goat.Gen.Facts
import Goat.Model.Pratt
/-! The parser model instantiated with the tables regenerated from symbol.go / compiler.go. -/
namespace Goat.Pratt

def nudOf (n : String) : String := ((Gen.symbols.find? (·.name == n)).map (·.nud)).getD ""

/-- infix operators: led is `ledInfix` and the compiler has a binary opcode for them -/
def genBin : List (String × Nat) :=
  (Gen.symbols.filter (fun s => s.led == "ledInfix" && (Gen.infixMap.lookup s.name).isSome)).map
    (fun s => (s.name, s.lbp))

/-- prefix operators: the three nud handlers that parse one operand at a fixed binding power -/
def genPre : List (String × Nat) :=
  (if nudOf "-" == "negateNud" then [("-", Gen.negateNudBP)] else []) ++
  (if nudOf "^" == "complementNud" then [("^", Gen.complementNudBP)] else []) ++
  (if nudOf "!" == "notNud" then [("!", Gen.notNudBP)] else [])

def genTable : Table := { bin := genBin, pre := genPre, parenBP := Gen.parenNudBP }

end Goat.Pratt
