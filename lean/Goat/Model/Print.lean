/-!
# Model of value rendering (value.go `Value.String`, `safeStr`, `SafeStr`; builtins.go `vaSprint`)

Values are trees of scalars, slices and single-entry maps, plus *references* to struct objects in
an explicit heap (so cyclic object graphs are representable). Rendering follows the code:

* `str`   — `Value.String()`: a container prints its elements with `safeStr`;
* `safe`  — `safeStr` of a reference: looks the object up once and prints its fields, or `&{...}`
            if a field's *type* could lead to another struct reference;
* `safeV` — `SafeStr` on slices and maps: `[...]` / `map[...]` if an element's type is unsafe,
            otherwise the elements, recursively with the same test.

All three are structurally recursive on the value tree and dereference the heap at most twice on
any path (`str` once, `safe` once): Lean accepts them without fuel for *every* heap, cyclic or not —
that is the termination argument, independent of the data.
-/
namespace Goat.Print

/-- static types as far as printing cares (value.go `Type.isSafeStr`) -/
inductive Ty
  | scalar
  | slice (e : Ty)
  | map (v : Ty)
  | struct
  deriving DecidableEq, Repr

def Ty.safe : Ty → Bool
  | .scalar => true
  | .slice e => e.safe
  | .map v => v.safe
  | .struct => false

/-- a finite float as Go's shortest round-trip decimal: digits d₀d₁…dₙ and exponent e mean
    d₀.d₁…dₙ × 10^e (supplied by strconv, the layout below is `%v`'s) -/
inductive FloatRepr
  | nan
  | inf (neg : Bool)
  | fin (neg : Bool) (digits : List Nat) (exp : Int)
  deriving DecidableEq, Repr

inductive Scalar
  | nil
  | bool (b : Bool)
  | int (n : Int)
  | str (s : String)
  | float (f : FloatRepr)
  deriving DecidableEq, Repr

mutual
inductive Val
  | scalar (s : Scalar)
  | slice (ty : Ty) (es : Vals)            -- `ty` is the slice's own type; a nil slice has no elements
  | map1 (ty : Ty) (key : Scalar) (v : Val) -- single-entry map
  | map0 (ty : Ty)                          -- empty or nil map
  | ref (a : Nat)                           -- struct reference: an address in the heap
  | nilRef
inductive Vals
  | nil
  | cons (v : Val) (vs : Vals)
end

def Val.ty : Val → Ty
  | .scalar _ => .scalar
  | .slice ty _ => ty
  | .map1 ty _ _ => ty
  | .map0 ty => ty
  | .ref _ => .struct
  | .nilRef => .struct

/-- an object: its fields in declaration order -/
abbrev Obj := List (String × Val)
abbrev Heap := List Obj

def digitChar (d : Nat) : Char := Char.ofNat (48 + d)
def digitsStr (ds : List Nat) : String := String.ofList (ds.map digitChar)

def pad2 (n : Nat) : String := if n < 10 then "0" ++ toString n else toString n

/-- `%v` of a float64 (`%g` with the shortest precision): `%e` form with an at-least-two-digit
    exponent when exp < -4 or exp ≥ 6 (strconv decides with precision 6 in shortest mode);
    positional otherwise -/
def fmtFloat : FloatRepr → String
  | .nan => "NaN"
  | .inf neg => if neg then "-Inf" else "+Inf"
  | .fin neg ds e =>
    let sign := if neg then "-" else ""
    let body :=
      if e < -4 ∨ e ≥ 6 then
        let mant := match ds with
          | [] => "0"
          | [d] => digitsStr [d]
          | d :: rest => digitsStr [d] ++ "." ++ digitsStr rest
        mant ++ "e" ++ (if e < 0 then "-" else "+") ++ pad2 e.natAbs
      else if e < 0 then
        "0." ++ String.ofList (List.replicate (e.natAbs - 1) '0') ++ digitsStr ds
      else
        let n := e.toNat + 1
        if ds.length ≤ n then digitsStr ds ++ String.ofList (List.replicate (n - ds.length) '0')
        else digitsStr (ds.take n) ++ "." ++ digitsStr (ds.drop n)
    sign ++ body

def fmtScalar : Scalar → String
  | .nil => "nil"
  | .bool b => if b then "true" else "false"
  | .int n => toString n
  | .str s => s
  | .float f => fmtFloat f

def join (parts : List String) : String := " ".intercalate parts

mutual
/-- what Go's `%v` prints for a value without struct references -/
def goFmt : Val → String
  | .scalar s => fmtScalar s
  | .slice _ es => "[" ++ join (goFmts es) ++ "]"
  | .map1 _ k v => "map[" ++ fmtScalar k ++ ":" ++ goFmt v ++ "]"
  | .map0 _ => "map[]"
  | .ref _ => "?"
  | .nilRef => "nil"
def goFmts : Vals → List String
  | .nil => []
  | .cons v vs => goFmt v :: goFmts vs
end

mutual
def anyUnsafe : Vals → Bool
  | .nil => false
  | .cons v vs => !v.ty.safe || anyUnsafe vs
/-- `SafeStr` of slices and maps (and `safeStr` of scalars) -/
def safeV : Val → String
  | .scalar s => fmtScalar s
  | .slice _ es => if anyUnsafe es then "[...]" else "[" ++ join (safeVs es) ++ "]"
  | .map1 _ k v => if !v.ty.safe then "map[...]" else "map[" ++ fmtScalar k ++ ":" ++ safeV v ++ "]"
  | .map0 _ => "map[]"
  | .ref _ => "?"            -- a struct reference never has a safe type: see `safe`
  | .nilRef => "nil"
def safeVs : Vals → List String
  | .nil => []
  | .cons v vs => safeV v :: safeVs vs
end

/-- `safeStr` of a field or element that may be a reference -/
def safe (h : Heap) : Val → String
  | .ref a =>
    match h[a]? with
    | none => "nil"
    | some fields =>
      if fields.any (fun f => !f.2.ty.safe) then "&{...}"
      else "&{" ++ join (fields.map fun f => f.1 ++ ":" ++ safeV f.2) ++ "}"
  | v => safeV v

def safes (h : Heap) : Vals → List String
  | .nil => []
  | .cons v vs => safe h v :: safes h vs

/-- `Value.String()` -/
def str (h : Heap) : Val → String
  | .scalar s => fmtScalar s
  | .slice _ es => "[" ++ join (safes h es) ++ "]"
  | .map1 _ k v => "map[" ++ fmtScalar k ++ ":" ++ safe h v ++ "]"
  | .map0 _ => "map[]"
  | .ref a =>
    match h[a]? with
    | none => "nil"
    | some fields => "&{" ++ join (fields.map fun f => f.1 ++ ":" ++ safe h f.2) ++ "}"
  | .nilRef => "nil"

/-- `println` / `fmt.Println`: operands separated by one space, newline at the end -/
def println (h : Heap) (vs : List Val) : String := join (vs.map (str h)) ++ "\n"

mutual
/-- well-typed: elements have the element type of their container -/
def WT : Val → Bool
  | .scalar _ => true
  | .slice ty es => match ty with
    | .slice e => WTs e es
    | _ => false
  | .map1 ty _ v => match ty with
    | .map e => v.ty == e && WT v
    | _ => false
  | .map0 ty => match ty with
    | .map _ => true
    | _ => false
  | .ref _ => true
  | .nilRef => true
def WTs (e : Ty) : Vals → Bool
  | .nil => true
  | .cons v vs => v.ty == e && WT v && WTs e vs
end

end Goat.Print

/-! ### containers that contain themselves (only constructible through the host API: `Set` and
`Append` do not check element types). `SafeStr` carries the containers on its path
(`safeStrP`) and cuts one met again. Containers live in their own heap so that cycles are
representable; `fuel` only makes the definition structural — `Props/C14.cyc_total` shows that
`heap size + 1` is always enough, whatever the heap looks like. -/
namespace Goat.Print

inductive CVal
  | int (n : Int)
  | cref (a : Nat)          -- a slice object (address in the container heap)
  deriving DecidableEq, Repr

abbrev CHeap := List (List CVal)

def renderC (h : CHeap) : Nat → List Nat → CVal → Option String
  | _, _, .int n => some (toString n)
  | 0, _, .cref _ => none
  | fuel + 1, path, .cref a =>
    if a ∈ path then some "[...]"
    else match h[a]? with
      | none => some "[]"
      | some elems => (elems.mapM (renderC h fuel (a :: path))).map fun parts => "[" ++ join parts ++ "]"

end Goat.Print
