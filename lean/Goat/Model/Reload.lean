/-!
# Model of live reload (do.go GLOBALFUNC / GLOBALZERO / GLOBALSET / SETMETHOD, value.go addMethod)

Function objects live in cells of a store; the globals table (and each type's method table,
which the type object shares by reference with all of its instances) maps a name to the address
of its cell. A function value captured by a script — in a variable, a struct field, or inside a
bound method — is the *address*. Re-declaring a name overwrites the cell's contents in place
(`*fnc = *val`) and allocates a cell only for a new name. Package variables declared without an
initialiser are only zeroed while they are still nil; variables with an initialiser are assigned
again.
-/
namespace Goat.Reload

variable {β V : Type}

structure St (β V : Type) where
  cells : List β                    -- function objects by address
  tab : List (String × Nat)         -- name ↦ address (globals and "Type.method" entries alike)
  vars : List (String × V)          -- package variables that are not nil

def lookup {α : Type} (t : List (String × α)) (n : String) : Option α := (t.find? (·.1 = n)).map (·.2)

/-- `func n …` / `func (T) n …` executed: GLOBALFUNC / addMethod -/
def define (s : St β V) (n : String) (b : β) : St β V :=
  match lookup s.tab n with
  | some a => { s with cells := s.cells.set a b }
  | none => { s with cells := s.cells ++ [b], tab := s.tab ++ [(n, s.cells.length)] }

def setVar (vars : List (String × V)) (n : String) (v : V) : List (String × V) :=
  (n, v) :: vars.filter (·.1 ≠ n)

/-- `var n T` executed: GLOBALZERO — only a variable that is still nil is initialised -/
def declZero (s : St β V) (n : String) (zero : V) : St β V :=
  match lookup s.vars n with
  | some _ => s
  | none => { s with vars := setVar s.vars n zero }

/-- `var n = e` executed: the initialiser is evaluated and assigned again -/
def declInit (s : St β V) (n : String) (v : V) : St β V := { s with vars := setVar s.vars n v }

structure Pkg (β V : Type) where
  funcs : List (String × β)
  zeros : List (String × V)
  inits : List (String × V)

def loadFuncs (s : St β V) (fs : List (String × β)) : St β V := fs.foldl (fun s f => define s f.1 f.2) s

def load (s : St β V) (p : Pkg β V) : St β V :=
  let s1 := loadFuncs s p.funcs
  let s2 := p.zeros.foldl (fun s z => declZero s z.1 z.2) s1
  p.inits.foldl (fun s z => declInit s z.1 z.2) s2

/-- calling through a captured function value -/
def callRef (s : St β V) (a : Nat) : Option β := s.cells[a]?
/-- calling by name -/
def callName (s : St β V) (n : String) : Option β := (lookup s.tab n).bind (s.cells[·]?)

/-- table invariant: addresses are allocated cells and distinct names have distinct cells -/
structure WF (s : St β V) : Prop where
  inRange : ∀ n a, lookup s.tab n = some a → a < s.cells.length
  inj : ∀ n m a, lookup s.tab n = some a → lookup s.tab m = some a → n = m

end Goat.Reload
