import Goat.Gen.Tables
/-! # Resolution of a plain identifier (compiler.go `case "(name)"`, `enterFunc`)

The chain of tests is generated (`Gen.resolveOrder`, from the if / else-if chain of the source); the table of
globals is modelled by the set of its keys (the lookup is by key), structured instead of spelled:
`<fn>.<ty>`, `<pkg>.<name>`, `builtin.<name>`, `$`. -/
namespace Goat.Resolve
open Gen

/-- the keys of the table of globals that the resolution of an identifier reads -/
inductive Key where
  | dollar
  | ltype (fn ty : String)   -- a type declared inside the function named fn: "<fn>.<ty>"
  | glob (name : String)     -- a package-level name: "<pkg>.<name>"
  | builtin (name : String)  -- "builtin.<name>"
  deriving Repr, DecidableEq

/-- what the compiler knows when it meets an identifier: the table of globals (keys only - the lookup is by
    key) and the names of the functions compiled against it so far -/
structure Tab where
  keys : List Key
  compiled : List String
  deriving Repr

inductive Res where
  | localGet (name : String)   -- LOCALGET of the nearest binding (which slot: the Scope model)
  | globalGet (k : Key)        -- GLOBALGET of that key's slot
  deriving Repr, DecidableEq

/-- where the identifier stands -/
structure Ctx where
  fn : String            -- compiler.FuncName ("" outside every function)
  inScope : Bool         -- compiler.isLocal(): inside a function body or a block
  locals : List String   -- names bound in the enclosing scopes of the function (Locals.Exists)

/-- one branch of the chain: `none` = its condition is false -/
def tryStep (t : Tab) (c : Ctx) (x : String) : ResolveStep → Option Res
  | .dollar => if x = "$" then some (.globalGet .dollar) else none
  | .localType => if c.inScope ∧ Key.ltype c.fn x ∈ t.keys then some (.globalGet (.ltype c.fn x)) else none
  | .local => if x ∈ c.locals then some (.localGet x) else none
  | .global => if Key.glob x ∈ t.keys then some (.globalGet (.glob x)) else none
  | .builtin => if Key.builtin x ∈ t.keys then some (.globalGet (.builtin x)) else none
  | .unknown => none

def firstSome {α β} (f : α → Option β) : List α → Option β
  | [] => none
  | a :: as => match f a with
    | some b => some b
    | none => firstSome f as

/-- the chain in the order of the source; the last `else` is a forward reference: the package-level key -/
def resolveWith (order : List ResolveStep) (t : Tab) (c : Ctx) (x : String) : Res :=
  (firstSome (tryStep t c x) order).getD (.globalGet (.glob x))

def resolve := resolveWith Gen.resolveOrder

/-- the forward reference creates its key (`Index`) -/
def touch (t : Tab) (r : Res) : Tab :=
  match r with
  | .globalGet k => if k ∈ t.keys then t else { t with keys := k :: t.keys }
  | .localGet _ => t

/-- `enterFunc`: a name compiled before loses the types of the body it replaces -/
def enterFunc (t : Tab) (f : String) : Tab :=
  if f = "" then t else
  { keys := if f ∈ t.compiled then t.keys.filter (fun k => match k with | .ltype g _ => g ≠ f | _ => true) else t.keys,
    compiled := f :: t.compiled }

/-- a `type` declaration inside function f (`Index` creates the key if it is missing) -/
def declType (t : Tab) (f ty : String) : Tab :=
  if Key.ltype f ty ∈ t.keys then t else { t with keys := .ltype f ty :: t.keys }

def declTypes (t : Tab) (f : String) (tys : List String) : Tab := tys.foldl (fun t ty => declType t f ty) t

/-- events that change the table -/
inductive Ev where
  | compile (f : String) (tys : List String)   -- a function, method, init or literal named f whose body declares tys
  | addKey (k : Key)                           -- a package-level definition, a forward reference, a builtin
  deriving Repr

def Ev.ok : Ev → Prop
  | .compile f _ => f ≠ ""
  | .addKey k => ∀ f ty, k ≠ .ltype f ty

def step (t : Tab) : Ev → Tab
  | .compile f tys => declTypes (enterFunc t f) f tys
  | .addKey k => if k ∈ t.keys then t else { t with keys := k :: t.keys }

def run (h : List Ev) : Tab := h.foldl step { keys := [], compiled := [] }

/-- `declareFuncs` (run by compilePkgs before a package is compiled): the names of the package's functions get their
    package-level keys before any body is compiled -/
def predeclare (t : Tab) (names : List String) : Tab := names.foldl (fun t n => step t (.addKey (.glob n))) t

end Goat.Resolve
