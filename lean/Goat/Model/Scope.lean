import Std.Data.HashMap
/-!
# Model of the compiler's scope handling (lookup.go `Index/shadow/unshadow/Shadow/Drop/Exists`,
compiler.go `Begin/Shadow/End`)

The symbol table maps *keys* to slot indexes. A shadowed name `x` is renamed `~x`, `~~x`, …; the
model writes such a key as `(number of leading tildes, name)` (source identifiers never start with
`~`). `i2k` is `indexToKey` (and its length is `len(data)`, which never shrinks: slots are not
reused); a dropped slot keeps the empty string.
-/
namespace Goat.Scope

abbrev Key := Nat × String

/-- `keyToIndex`: a finite map; `put`/`del` are Go's map assignment and `delete` -/
abbrev Tbl := Std.HashMap Key Nat
def Tbl.get (t : Tbl) (k : Key) : Option Nat := t[k]?
def Tbl.put (t : Tbl) (k : Key) (n : Nat) : Tbl := t.insert k n
def Tbl.del (t : Tbl) (k : Key) : Tbl := t.erase k

structure L where
  tbl : Tbl := {}                -- keyToIndex
  i2k : List String := []        -- indexToKey

def L.get (l : L) (k : Key) : Option Nat := l.tbl.get k

/-- `Exists(key)` -/
def L.exists (l : L) (x : String) : Bool := (l.get (0, x)).isSome

/-- `Index(key)`: the slot of the key, creating it if required -/
def L.index (l : L) (x : String) : L × Nat :=
  match l.get (0, x) with
  | some n => (l, n)
  | none =>
    let n := l.i2k.length
    ({ tbl := l.tbl.put (0, x) n, i2k := l.i2k ++ [x] }, n)

/-- `shadow(key)`: rename key → ~key, after renaming ~key → ~~key … (the Go code recurses; fuel
    larger than the number of slots is never exhausted because every level holds its own slot) -/
def shadowT : Nat → Nat → String → Tbl → Tbl
  | 0, _, _, t => t
  | f+1, k, x, t =>
    match t.get (k, x) with
    | none => t
    | some n => ((shadowT f (k+1) x t).put (k+1, x) n).del (k, x)

/-- `unshadow(key)`: rename ~key → key (removing ~key — the repaired code), then ~~key → ~key … -/
def unshadowT : Nat → Nat → String → Tbl → Tbl
  | 0, _, _, t => t
  | f+1, k, x, t =>
    match t.get (k+1, x) with
    | none => t
    | some n => unshadowT f (k+1) x ((t.put (k, x) n).del (k+1, x))

/-- `lookup.Shadow(key)` = shadow; Index -/
def L.shadow (l : L) (x : String) : L × Nat :=
  ({ l with tbl := shadowT (l.i2k.length + 1) 0 x l.tbl }).index x

/-- `Drop(t)`: for the last `t` slots, newest first: forget the key and restore what it shadowed -/
def L.drop (l : L) : Nat → L
  | 0 => l
  | t+1 =>
    -- the Go loop runs i = 1..t with n = len - i; newest first = the recursion's innermost call first
    let n := l.i2k.length - (t + 1)
    let l' := L.drop l t
    match l'.i2k[n]? with
    | none => l'
    | some key =>
      if key = "" then l'
      else
        { tbl := unshadowT (l'.i2k.length + 1) 0 key (l'.tbl.del (0, key)),
          i2k := l'.i2k.set n "" }

/-- the compiler's view: the table plus the stack of scope marks -/
structure C where
  l : L := {}
  scope : List Nat := []

def C.begin (c : C) : C := { c with scope := c.l.i2k.length :: c.scope }

/-- `compiler.Shadow(key)`: a name of the current scope is reused, an outer one is shadowed -/
def C.declare (c : C) (x : String) : C × Nat :=
  match c.l.get (0, x), c.scope with
  | some n, mark :: _ =>
    if n < mark then let (l, m) := c.l.shadow x; ({ c with l := l }, m)
    else let (l, m) := c.l.index x; ({ c with l := l }, m)
  | _, _ => let (l, m) := c.l.index x; ({ c with l := l }, m)

/-- `Locals.Index(key)` used directly (parameters, hidden loop/switch variables) -/
def C.index (c : C) (x : String) : C × Nat :=
  let (l, m) := c.l.index x; ({ c with l := l }, m)

def C.«end» (c : C) : C :=
  match c.scope with
  | [] => c
  | a :: rest => { l := c.l.drop (c.l.i2k.length - a), scope := rest }

def C.resolve (c : C) (x : String) : Option Nat := c.l.get (0, x)

/-- the live entries of the table, for printing -/
def L.entries (l : L) : List (Key × Nat) := l.tbl.toList

end Goat.Scope
