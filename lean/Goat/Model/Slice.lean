/-!
# Model of script slices (value.go `sliceT`, do.go APPEND / NEWSLICE / MAKE / SLICE / COPY)

`sliceT` wraps a Go slice of Values, so a script slice *is* a Go slice: a view
`(array, offset, length, capacity)` onto a backing array that other views may share. The heap
of backing arrays is explicit. `append` beyond the capacity allocates a fresh array whose
capacity is the Go runtime's choice: the model takes it as an argument (`newCap ≥ needed`), so
the theorems hold for every growth policy.
-/
namespace Goat.Slice

variable {V : Type}

structure View where
  arr : Nat
  off : Nat
  len : Nat
  cap : Nat
  deriving DecidableEq, Repr

abbrev Heap (V : Type) := List (List V)

def cell (h : Heap V) (a i : Nat) : Option V := (h[a]?).bind (·[i]?)

def writeCell (h : Heap V) (a i : Nat) (x : V) : Heap V :=
  match h[a]? with
  | some row => h.set a (row.set i x)
  | none => h

/-- `make([]T, n)` / a literal: a fresh array of exactly n elements -/
def alloc (h : Heap V) (elems : List V) : Heap V × View :=
  (h ++ [elems], { arr := h.length, off := 0, len := elems.length, cap := elems.length })

/-- `s[k]` -/
def sget (h : Heap V) (s : View) (k : Nat) : Option V :=
  if k < s.len then cell h s.arr (s.off + k) else none

/-- `s[k] = x` -/
def sset (h : Heap V) (s : View) (k : Nat) (x : V) : Option (Heap V) :=
  if k < s.len then some (writeCell h s.arr (s.off + k) x) else none

/-- `s[i:j]` (Go: 0 ≤ i ≤ j ≤ cap(s)) -/
def slice (s : View) (i j : Nat) : Option View :=
  if i ≤ j ∧ j ≤ s.cap then some { arr := s.arr, off := s.off + i, len := j - i, cap := s.cap - i } else none

def contents (h : Heap V) (s : View) : List V :=
  ((h[s.arr]?).getD []).drop s.off |>.take s.len

/-- write `xs` into the array starting at absolute index `i` -/
def writeMany (h : Heap V) (a i : Nat) : List V → Heap V
  | [] => h
  | x :: xs => writeMany (writeCell h a i x) a (i + 1) xs

/-- `append(s, xs...)`: in place within the capacity, else into a fresh array of capacity
    `newCap` (any value ≥ the needed length, chosen by the runtime) padded with `pad` -/
def append (h : Heap V) (s : View) (xs : List V) (newCap : Nat) (pad : V) : Heap V × View :=
  if s.len + xs.length ≤ s.cap then
    (writeMany h s.arr (s.off + s.len) xs, { s with len := s.len + xs.length })
  else
    let n := s.len + xs.length
    let c := max newCap n
    let row := contents h s ++ xs ++ List.replicate (c - n) pad
    (h ++ [row], { arr := h.length, off := 0, len := n, cap := c })

/-- `copy(dst, src)`: min(len(dst), len(src)) elements, reading the source before writing -/
def copy (h : Heap V) (dst src : View) : Heap V × Nat :=
  let n := min dst.len src.len
  (writeMany h dst.arr dst.off ((contents h src).take n), n)

end Goat.Slice
