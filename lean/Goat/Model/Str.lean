/-!
# Model of script strings (value.go `stringT`, `convert`; token.go `Unquote` / `Char`)

A string is a sequence of bytes (`List Nat`, every element < 256). `len`, indexing and slicing
count bytes; `range` decodes UTF-8 the way Go does (an invalid or truncated sequence yields
U+FFFD and consumes one byte) and reports byte offsets; `string(rune)` encodes UTF-8.

The arithmetic is written with `/` and `%` by constants instead of shifts and masks, so that the
proofs are linear arithmetic; the executable driver compares it with Go's own decoder on every
kind of input.
-/
namespace Goat.Str

abbrev Bytes := List Nat

def runeError : Nat := 0xFFFD

def isCont (b : Nat) : Bool := 0x80 ≤ b && b ≤ 0xBF

/-- Go's `utf8.DecodeRune`: (rune, width); width 0 only for the empty input -/
def decode : Bytes → Nat × Nat
  | [] => (runeError, 0)
  | b0 :: rest =>
    if b0 < 0x80 then (b0, 1)
    else if 0xC2 ≤ b0 ∧ b0 ≤ 0xDF then
      match rest with
      | b1 :: _ => if isCont b1 then ((b0 - 0xC0) * 64 + (b1 - 0x80), 2) else (runeError, 1)
      | _ => (runeError, 1)
    else if 0xE0 ≤ b0 ∧ b0 ≤ 0xEF then
      match rest with
      | b1 :: b2 :: _ =>
        let lo := if b0 = 0xE0 then 0xA0 else 0x80
        let hi := if b0 = 0xED then 0x9F else 0xBF
        if lo ≤ b1 ∧ b1 ≤ hi ∧ isCont b2 then
          ((b0 - 0xE0) * 4096 + (b1 - 0x80) * 64 + (b2 - 0x80), 3)
        else (runeError, 1)
      | _ => (runeError, 1)
    else if 0xF0 ≤ b0 ∧ b0 ≤ 0xF4 then
      match rest with
      | b1 :: b2 :: b3 :: _ =>
        let lo := if b0 = 0xF0 then 0x90 else 0x80
        let hi := if b0 = 0xF4 then 0x8F else 0xBF
        if lo ≤ b1 ∧ b1 ≤ hi ∧ isCont b2 ∧ isCont b3 then
          ((b0 - 0xF0) * 262144 + (b1 - 0x80) * 4096 + (b2 - 0x80) * 64 + (b3 - 0x80), 4)
        else (runeError, 1)
      | _ => (runeError, 1)
    else (runeError, 1)

/-- a Unicode scalar value -/
def validRune (r : Nat) : Prop := r < 0xD800 ∨ (0xE000 ≤ r ∧ r ≤ 0x10FFFF)

instance (r : Nat) : Decidable (validRune r) := by unfold validRune; exact inferInstance

/-- Go's `string(rune(r))` / `utf8.AppendRune`: invalid runes encode U+FFFD -/
def encode (r : Nat) : Bytes :=
  if r < 0x80 then [r]
  else if r < 0x800 then [0xC0 + r / 64, 0x80 + r % 64]
  else if ¬ validRune r then [0xEF, 0xBF, 0xBD]
  else if r < 0x10000 then [0xE0 + r / 4096, 0x80 + r / 64 % 64, 0x80 + r % 64]
  else [0xF0 + r / 262144, 0x80 + r / 4096 % 64, 0x80 + r / 64 % 64, 0x80 + r % 64]

def encodeAll (rs : List Nat) : Bytes := rs.flatMap encode

/-- `for i, r := range s`: (byte offset, rune) pairs -/
def runesAux : Nat → Nat → Bytes → List (Nat × Nat)
  | 0, _, _ => []
  | _, _, [] => []
  | fuel + 1, off, bs@(_ :: _) =>
    let (r, w) := decode bs
    (off, r) :: runesAux fuel (off + w) (bs.drop w)

def runes (s : Bytes) : List (Nat × Nat) := runesAux s.length 0 s

/-- `[]rune(s)`: the runes that `range` yields, without their offsets (`string(rs)` is `encodeAll rs`) -/
def toRunes (s : Bytes) : List Nat := (runes s).map Prod.snd

/-- `s[i]` -/
def index (s : Bytes) (i : Nat) : Option Nat := s[i]?

/-- `s[i:j]` -/
def slice (s : Bytes) (i j : Nat) : Option Bytes :=
  if i ≤ j ∧ j ≤ s.length then some ((s.drop i).take (j - i)) else none

/-- bytewise lexicographic `<` -/
def lt : Bytes → Bytes → Bool
  | [], [] => false
  | [], _ :: _ => true
  | _ :: _, [] => false
  | a :: as, b :: bs => if a < b then true else if b < a then false else lt as bs

def le (a b : Bytes) : Bool := !lt b a

/-! ### literals (token.go `Unquote`, `Char`: Go's strconv.Unquote / UnquoteChar) -/

def hexVal (c : Nat) : Option Nat :=
  if 48 ≤ c ∧ c ≤ 57 then some (c - 48)
  else if 97 ≤ c ∧ c ≤ 102 then some (c - 87)
  else if 65 ≤ c ∧ c ≤ 70 then some (c - 55)
  else none

def hexN : Nat → Bytes → Nat → Option (Nat × Bytes)
  | 0, rest, acc => some (acc, rest)
  | n + 1, c :: rest, acc => (hexVal c).bind fun d => hexN n rest (acc * 16 + d)
  | _ + 1, [], _ => none

def octVal (c : Nat) : Option Nat := if 48 ≤ c ∧ c ≤ 55 then some (c - 48) else none

/-- the body of an interpreted literal between the quotes `q` (34 for a string, 39 for a
    character): the bytes it denotes, or `none` if it is malformed -/
def unescape (q : Nat) : Nat → Bytes → Option Bytes
  | 0, _ => none
  | _, [] => some []
  | fuel + 1, c :: rest =>
    if c = q ∨ c = 10 then none
    else if c ≠ 92 then (unescape q fuel rest).map (c :: ·)
    else
      match rest with
      | [] => none
      | e :: rest' =>
        let simple (b : Nat) := (unescape q fuel rest').map (b :: ·)
        if e = 97 then simple 7 else if e = 98 then simple 8 else if e = 102 then simple 12
        else if e = 110 then simple 10 else if e = 114 then simple 13 else if e = 116 then simple 9
        else if e = 118 then simple 11 else if e = 92 then simple 92
        else if e = 39 then (if q = 39 then simple 39 else none)
        else if e = 34 then (if q = 34 then simple 34 else none)
        else if e = 120 then
          (hexN 2 rest' 0).bind fun (v, r) => (unescape q fuel r).map (v :: ·)
        else if e = 117 then
          (hexN 4 rest' 0).bind fun (v, r) =>
            if validRune v then (unescape q fuel r).map (encode v ++ ·) else none
        else if e = 85 then
          (hexN 8 rest' 0).bind fun (v, r) =>
            if validRune v then (unescape q fuel r).map (encode v ++ ·) else none
        else
          match octVal e, rest' with
          | some d0, c1 :: c2 :: r =>
            match octVal c1, octVal c2 with
            | some d1, some d2 =>
              let v := d0 * 64 + d1 * 8 + d2
              if v < 256 then (unescape q fuel r).map (v :: ·) else none
            | _, _ => none
          | _, _ => none

/-- `"…"` -/
def unquoteString (body : Bytes) : Option Bytes := unescape 34 (body.length + 1) body

/-- the canonical spelling used by the round-trip theorem: every byte as `\xHH` -/
def hexDigit (d : Nat) : Nat := if d < 10 then 48 + d else 87 + d
def quoteByte (b : Nat) : Bytes := [92, 120, hexDigit (b / 16), hexDigit (b % 16)]
def quoteAll (bs : Bytes) : Bytes := bs.flatMap quoteByte

/-- raw string literal: carriage returns are dropped -/
def unquoteRaw (body : Bytes) : Bytes := body.filter (· ≠ 13)

end Goat.Str

namespace Goat.Str

/-- the value of a character literal body (between the single quotes) -/
def charLit (body : Bytes) : Option Nat :=
  match body with
  | [] => none
  | c :: rest =>
    if c = 39 ∨ c = 10 then none
    else if c ≠ 92 then
      let (r, w) := decode body
      if w = body.length ∧ (r ≠ runeError ∨ body = [0xEF, 0xBF, 0xBD]) then some r else none
    else
      match rest with
      | [e] =>
        if e = 97 then some 7 else if e = 98 then some 8 else if e = 102 then some 12
        else if e = 110 then some 10 else if e = 114 then some 13 else if e = 116 then some 9
        else if e = 118 then some 11 else if e = 92 then some 92 else if e = 39 then some 39
        else none
      | 120 :: h => (hexN 2 h 0).bind fun (v, r) => if r = [] then some v else none
      | 117 :: h => (hexN 4 h 0).bind fun (v, r) => if r = [] ∧ validRune v then some v else none
      | 85 :: h => (hexN 8 h 0).bind fun (v, r) => if r = [] ∧ validRune v then some v else none
      | [c0, c1, c2] =>
        match octVal c0, octVal c1, octVal c2 with
        | some d0, some d1, some d2 => if d0 * 64 + d1 * 8 + d2 < 256 then some (d0 * 64 + d1 * 8 + d2) else none
        | _, _, _ => none
      | _ => none

end Goat.Str
