import Goat.Model.IntMap
/-!
# Model of struct values (value.go: structT, newStructByIndex, GetIndex, SetIndex, addMethod)

A struct variable holds a reference (an index into the heap of instances); every instance owns a
copy of its type's field table (`b.Fields.Copy()`), all instances share the type's method table
(`b.Methods`, a pointer). `GetIndex` answers with the field, else with the method of that index
bound to the instance; `SetIndex` is `Fields.Assign` — it never creates a field.
-/
namespace Goat.Struct
open Goat.IntMap
variable {V : Type}

/-- a struct type object: the field table with the zero value of every field, and the method table
    (`structT.Fields`, `structT.Methods`; the latter is shared by pointer among all instances) -/
structure SType (V : Type) where
  fields : IM V
  methods : IM V

/-- what `GetIndex` hands back -/
inductive Attr (V : Type) where
  | field (v : V)
  | method (recv : Nat) (fn : V)   -- a method value bound to the instance it was taken from
  | missing

/-- the heap: instance `r` is `insts[r]`; a struct variable holds `r` (a reference) -/
structure Heap (V : Type) where
  ty : SType V
  insts : List (IM V)

/-- `newStructByIndex` without initialisers: a per-instance copy of the type's field table -/
def Heap.alloc (hp : Heap V) : Heap V × Nat := ({ hp with insts := hp.insts ++ [hp.ty.fields] }, hp.insts.length)

/-- `structT.SetIndex(k, v)` = `Fields.Assign(k, v)` with the conversion to the slot's type -/
def Heap.setIndex (hp : Heap V) (r : Nat) (k : Int) (conv : V → V → V) (v : V) : Option (Heap V) :=
  match hp.insts[r]? with
  | none => none
  | some m => (m.assign k (fun old => conv old v)).map fun m' => { hp with insts := hp.insts.set r m' }

/-- `structT.GetIndex(k)`: the field, else the method of that index bound to this instance -/
def Heap.getIndex (hp : Heap V) (r : Nat) (k : Int) : Attr V :=
  match hp.insts[r]? with
  | none => .missing
  | some m =>
    match m.get k with
    | some v => .field v
    | none => match hp.ty.methods.get k with
      | some fn => .method r fn
      | none => .missing

/-- `addMethod` on the type object (a later `func (T) name`): one `Set` on the shared table -/
def Heap.addMethod [Inhabited V] (hp : Heap V) (k : Int) (fn : V) : Option (Heap V) :=
  (hp.ty.methods.set k fn).map fun ms => { hp with ty := { hp.ty with methods := ms } }

/-- `newStructByIndex(base, data)`: a new instance, then one `SetIndex` per (field, value) pair of
    the literal `&T{f: v, …}` -/
def Heap.allocWith (hp : Heap V) (conv : V → V → V) (inits : List (Int × V)) : Option (Heap V × Nat) :=
  (inits.foldlM (fun (h : Heap V) kv => h.setIndex hp.alloc.2 kv.1 conv kv.2) hp.alloc.1).map fun h => (h, hp.alloc.2)

/-! ### the type object as declarations build it (STRUCT, GLOBALSTRUCT, addField, syncFields) -/

/-- a struct TYPE object as the declarations build it (`structT.Order`, `structT.Fields`; a field
    name and its index are one key here: the index is the global number of the name) -/
structure TObj (V : Type) where
  order : List Int
  fields : IM V

/-- `addField(key, idx, val)`: append to `Order` unless the name is known, `Fields.Set(idx, val)` -/
def TObj.addField [Inhabited V] (t : TObj V) (k : Int) (v : V) : Option (TObj V) :=
  (t.fields.set k v).map fun f => { order := if k ∈ t.order then t.order else t.order ++ [k], fields := f }

def TObj.addAll [Inhabited V] (t : TObj V) (kvs : List (Int × V)) : Option (TObj V) :=
  kvs.foldlM (fun t kv => t.addField kv.1 kv.2) t

/-- `STRUCT n`: a fresh type object from the declared (name, zero value) pairs -/
def TObj.declare [Inhabited V] (decl : List (Int × V)) : Option (TObj V) :=
  TObj.addAll { order := [], fields := Goat.IntMap.new (decl.length) } decl

/-- the (name, value) pairs of a type object in declaration order -/
def TObj.entries (t : TObj V) : List (Int × V) :=
  t.order.filterMap fun k => (t.fields.get k).map fun v => (k, v)

/-- `GLOBALSTRUCT` on a name that already holds a type: `prev.syncFields(cur)` -/
def TObj.sync [Inhabited V] (prev cur : TObj V) : Option (TObj V) := prev.addAll cur.entries

/-- `Order` after adding the names `ks` one by one -/
def orderAfter (o : List Int) (ks : List Int) : List Int :=
  ks.foldl (fun o k => if k ∈ o then o else o ++ [k]) o

end Goat.Struct
