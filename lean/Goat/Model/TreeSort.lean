import Goat.Gen.Tables
import Goat.Gen.Facts
/-!
# Model of `treeSort` (tree.go): a stable sort of the top-level nodes by kind priority, descending.

`sort.SliceStable` is trusted to be *a* stable sort; every stable sort computes the same list, and
the model is stable insertion sort. Priorities come from the table regenerated from tree.go
(kinds not in the table have priority 0, as a missing Go map entry does).
-/
namespace Goat.TreeSort

def prio (kind : String) : Int := (Gen.treePriority.lookup kind).getD 0

variable {α : Type}

/-- insert `x` in front of the first element whose priority is not greater than `x`'s -/
def ins (pr : α → Int) (x : α) : List α → List α
  | [] => [x]
  | y :: t => if pr x ≥ pr y then x :: y :: t else y :: ins pr x t

/-- stable sort by descending priority -/
def sortDesc (pr : α → Int) : List α → List α
  | [] => []
  | x :: l => ins pr x (sortDesc pr l)

/-- `treeSort` on a list of (kind, payload) nodes -/
def treeSort (l : List (String × α)) : List (String × α) := sortDesc (fun n => prio n.1) l

/-- the distinct priority values, highest first -/
def levels : List Int :=
  let vs := (0 :: Gen.treePriority.map (·.2))
  let rec insD (v : Int) : List Int → List Int
    | [] => [v]
    | a :: t => if v > a then v :: a :: t else if v = a then a :: t else a :: insD v t
  vs.foldr insD []

end Goat.TreeSort
