/-!
# Model of the multi-target assignment `t1, t2, … = e1, e2, …` (compiler.go, case "=")

The compiler evaluates the operands of index and field targets left to right into hidden slots
(`#item`, `#key`), then the right-hand side left to right, and then emits the stores for the targets
from the LAST target to the first (the values are popped off the operand stack). Go carries the
assignments out left to right. Phase one (operands and values) is the same in both; the model is
phase two: a list of resolved targets (`none` for the blank identifier) with their values, applied
to a store of locations in one order or the other.
-/
namespace Goat.Tuple

variable {L V : Type} [DecidableEq L]

/-- one store -/
def put (σ : L → V) (l : L) (v : V) : L → V := fun l' => if l' = l then v else σ l'

def step (σ : L → V) (tv : Option L × V) : L → V :=
  match tv.1 with
  | some l => put σ l tv.2
  | none => σ

/-- Go: the assignments are carried out in left-to-right order -/
def goStores (σ : L → V) (tvs : List (Option L × V)) : L → V := tvs.foldl step σ

/-- goatlang: the stores are emitted for the last target first -/
def implStores (σ : L → V) (tvs : List (Option L × V)) : L → V := tvs.reverse.foldl step σ

/-- the value of the first / last target that names `l` -/
def firstFor (l : L) : List (Option L × V) → Option V
  | [] => none
  | (some l', v) :: rest => if l' = l then some v else firstFor l rest
  | (none, _) :: rest => firstFor l rest

def lastFor (l : L) (tvs : List (Option L × V)) : Option V := firstFor l tvs.reverse

/-- executable instance for the driver: cells are numbered, the store is a list -/
def runOn (order : Bool) (cells : List Int) (tvs : List (Option Nat × Int)) : List Int :=
  let σ : Nat → Int := fun i => cells.getD i 0
  let σ' := if order then goStores σ tvs else implStores σ tvs
  (List.range cells.length).map σ'

end Goat.Tuple
