import Goat.Model.Peephole
/-!
# The stack machine on the opcodes that the peephole rules mention (do.go)

Values, the heap behind reference values and calls are abstract (`Prims`): the dynamically typed
VM applies the same primitive to the same operands on both sides of a rule, whatever the values
are. `none` is a Go panic (converted to a run-time error by the VM's recover).
-/
namespace Goat.VMCore
open Goat.Peephole

structure Prims (V H : Type) where
  untyped : Int → V                     -- newUntypedInt(k)
  global : Int → V                      -- globals.Read(idx)
  add : V → V → Option V                -- opAdd … (none: panic, e.g. on non-numeric operands)
  sub : V → V → Option V
  mul : V → V → Option V
  div : V → V → Option V
  assignTo : V → V → V                  -- new.assign(old.t)
  get : V → V → H → Option V            -- r.Get(k)
  set : V → V → V → H → Option H        -- obj.Set(key, value)
  getattr : V → Int → H → Option V      -- r.getIndex(vm, k)
  setattr : V → Int → V → H → Option H  -- obj.setIndex(vm, key, value)

structure State (V H : Type) where
  locals : List V       -- the frame's slots, stack[baseN ..]
  ops : List V          -- the operand stack above them, top first
  heap : H

/-- a call is an arbitrary (possibly failing) transformer of the whole machine state -/
abbrev CallSem (V H : Type) := V → Int → Int → State V H → Option (State V H)

variable {V H : Type}

def getLocal (σ : State V H) (a : Int) : Option V :=
  if a < 0 then none else σ.locals[a.toNat]?

def setLocal (σ : State V H) (a : Int) (v : V) : Option (State V H) :=
  if a < 0 then none
  else if a.toNat < σ.locals.length then some { σ with locals := σ.locals.set a.toNat v }
  else none

/-- `splitParams` -/
def splitParams (v : Int) : Int × Int := ((v / 65536) % 65536 - 32768, v % 65536 - 32768)

def arith (P : Prims V H) (f : V → V → Option V) (σ : State V H) : Option (State V H) :=
  match σ.ops with
  | b :: a :: rest => (f a b).map fun r => { σ with ops := r :: rest }
  | _ => none

/-- one instruction of `exec` (only the opcodes of the rule table; anything else is outside the
    model and reported as `none`) -/
def exec1 (P : Prims V H) (call : CallSem V H) (i : Instr) (σ : State V H) : Option (State V H) :=
  if i.op = "PUSH" then some { σ with ops := P.untyped i.a :: σ.ops }
  else if i.op = "CONST" ∨ i.op = "GLOBALGET" then some { σ with ops := P.global i.a :: σ.ops }
  else if i.op = "LOCALGET" then (getLocal σ i.a).map fun v => { σ with ops := v :: σ.ops }
  else if i.op = "LOCALSET" then
    match σ.ops with
    | v :: rest => (getLocal σ i.a).bind fun old => setLocal { σ with ops := rest } i.a (P.assignTo v old)
    | [] => none
  else if i.op = "ADD" then arith P P.add σ
  else if i.op = "SUB" then arith P P.sub σ
  else if i.op = "MUL" then arith P P.mul σ
  else if i.op = "DIV" then arith P P.div σ
  else if i.op = "INCDEC" then
    match σ.ops with
    | a :: rest => (P.add a (P.untyped i.a)).map fun r => { σ with ops := r :: rest }
    | [] => none
  else if i.op = "LOCALINCDEC" then
    (getLocal σ i.a).bind fun x => (P.add x (P.untyped i.b)).bind fun r => setLocal σ i.a r
  else if i.op = "LOCALADD" then
    (getLocal σ i.a).bind fun x => (getLocal σ i.b).bind fun y => (P.add x y).map fun r => { σ with ops := r :: σ.ops }
  else if i.op = "LOCALSUB" then
    (getLocal σ i.a).bind fun x => (getLocal σ i.b).bind fun y => (P.sub x y).map fun r => { σ with ops := r :: σ.ops }
  else if i.op = "LOCALMUL" then
    (getLocal σ i.a).bind fun x => (getLocal σ i.b).bind fun y => (P.mul x y).map fun r => { σ with ops := r :: σ.ops }
  else if i.op = "LOCALDIV" then
    (getLocal σ i.a).bind fun x => (getLocal σ i.b).bind fun y => (P.div x y).map fun r => { σ with ops := r :: σ.ops }
  else if i.op = "GET" then
    match σ.ops with
    | k :: r :: rest => (P.get r k σ.heap).map fun v => { σ with ops := v :: rest }
    | _ => none
  else if i.op = "SET" then
    match σ.ops with
    | key :: obj :: value :: rest => (P.set obj key value σ.heap).map fun h => { σ with ops := rest, heap := h }
    | _ => none
  else if i.op = "FASTGET" then
    (getLocal σ i.a).bind fun r => (P.get r (P.global i.b) σ.heap).map fun v => { σ with ops := v :: σ.ops }
  else if i.op = "FASTSET" then
    match σ.ops with
    | value :: rest => (getLocal σ i.a).bind fun r =>
        (P.set r (P.global i.b) value σ.heap).map fun h => { σ with ops := rest, heap := h }
    | [] => none
  else if i.op = "FASTGETINT" then
    (getLocal σ i.a).bind fun r => (P.get r (P.untyped i.b) σ.heap).map fun v => { σ with ops := v :: σ.ops }
  else if i.op = "FASTSETINT" then
    match σ.ops with
    | value :: rest => (getLocal σ i.a).bind fun r =>
        (P.set r (P.untyped i.b) value σ.heap).map fun h => { σ with ops := rest, heap := h }
    | [] => none
  else if i.op = "GETATTR" then
    match σ.ops with
    | r :: rest => (P.getattr r i.a σ.heap).map fun v => { σ with ops := v :: rest }
    | [] => none
  else if i.op = "SETATTR" then
    match σ.ops with
    | obj :: value :: rest => (P.setattr obj i.a value σ.heap).map fun h => { σ with ops := rest, heap := h }
    | _ => none
  else if i.op = "FASTGETATTR" then
    (getLocal σ i.a).bind fun r => (P.getattr r i.b σ.heap).map fun v => { σ with ops := v :: σ.ops }
  else if i.op = "FASTSETATTR" then
    match σ.ops with
    | value :: rest => (getLocal σ i.a).bind fun obj =>
        (P.setattr obj i.b value σ.heap).map fun h => { σ with ops := rest, heap := h }
    | [] => none
  else if i.op = "CALL" then
    match σ.ops with
    | f :: rest => call f i.a i.b { σ with ops := rest }
    | [] => none
  else if i.op = "FASTCALL" then call (P.global i.a) i.b i.c σ
  else if i.op = "FASTCALLATTR" then
    (getLocal σ i.a).bind fun obj => (P.getattr obj i.b σ.heap).bind fun f =>
      call f (splitParams i.c).1 (splitParams i.c).2 σ
  else if i.op = "JUMP" then (if i.a = 0 then some σ else none)   -- only the fall-through jump is straight-line
  else if i.op = "PASS" then some σ
  else none

def run (P : Prims V H) (call : CallSem V H) : List Instr → State V H → Option (State V H)
  | [], σ => some σ
  | i :: rest, σ => (exec1 P call i σ).bind (run P call rest)

end Goat.VMCore
