import Goat.Model.MiniGo
import Goat.Props.C06
import Goat.Props.C05
/-!
# C01 — programs in the supported Go subset run exactly as the Go toolchain runs them
# (PARTIAL: an end-to-end theorem for the MiniGo fragment; the rest by composition and search)

End to end for MiniGo (integer locals, arithmetic expressions of any depth, assignment,
comparisons, `if`/`else`, `for` with and without condition, `break`, `continue`, any nesting):

* `expr_correct` — the instructions compiled from an expression, run by the stack machine, push
  exactly the value Go's left-to-right evaluation gives, and panic exactly when it panics;
* `assign_correct`, `cond_correct`, `bexpr_correct` — the code of `x = e` stores the value
  converted to the variable's type and leaves the operand stack as it was; the code of a condition —
  comparisons combined with `&&`, `||`, `!` to any depth — yields Go's short-circuit value (an
  operand Go does not evaluate is jumped over and cannot panic) for the following jump to consume;
* `source_to_value` — parser and compiler composed: the tokens of an expression's Go spelling are
  parsed (binding powers regenerated from symbol.go, C05) to a tree from which exactly the
  expression is recovered, and its code computes its Go value;
* `minigo_correct` — running the compiled program (C06's `compile_correct` on these leaves) ends
  past its last instruction with the locals Go's big-step semantics gives; each step of that run
  over a leaf is realised by the instruction-level machine (`leaf_steps_are_real`).

The primitives (`+ - * / %` and the comparisons on every width, untyped-constant adoption,
assignment conversion) are C04's theorems; parsing to the tree is C05's; everything the fragment
leaves out (calls C09, maps C10, slices C11, structs C12, strings C13, printing C14, switch /
range / return, packages C15/C16) has its own property, and the composition is checked against
the Go toolchain on generated whole programs.
-/
namespace Goat.Props.C01
open Goat.MiniGo Goat.Peephole Goat.CF

variable {V : Type} (P : Prims V)

theorem run_append (a b : List Instr) (σ : St V) : run P (a ++ b) σ = (run P a σ).bind (run P b) := by
  induction a generalizing σ with
  | nil => simp [run]
  | cons i is ih =>
    simp only [List.cons_append, run]
    cases step1 P i σ with
    | none => rfl
    | some σ' => simp [ih]

theorem binOfCode_code (op : BinOp) : binOfCode op.code = some op := by cases op <;> decide
theorem cmpOfCode_code (op : CmpOp) : cmpOfCode op.code = some op := by cases op <;> decide
theorem binop_not_special (op : BinOp) : op.code ≠ "PUSH" ∧ op.code ≠ "LOCALGET" ∧ op.code ≠ "LOCALSET" := by
  cases op <;> decide

/-- **expr_correct.** -/
theorem expr_correct (e : Expr) (σ : St V) :
    run P (compileE e) σ = (evalE P σ.locals e).map fun v => { σ with ops := v :: σ.ops } := by
  induction e generalizing σ with
  | lit k => simp [compileE, run, step1, ins, evalE]
  | loc i =>
    simp only [compileE, run, step1, ins, evalE]
    have h1 : ("LOCALGET" = "PUSH") = False := by decide
    have h2 : ¬ ((i : Int) < 0) := by omega
    simp only [h1, if_false, if_true, h2, Int.toNat_natCast]
    cases σ.locals[i]? <;> simp
  | bin op a b iha ihb =>
    simp only [compileE, run_append, iha, evalE]
    cases ha : evalE P σ.locals a with
    | none => simp
    | some x =>
      simp only [Option.map_some, Option.bind_some, ihb]
      cases hb : evalE P σ.locals b with
      | none => simp
      | some y =>
        have ⟨n1, n2, n3⟩ := binop_not_special op
        simp [run, step1, ins, n1, n2, n3, binOfCode_code]

/-- **assign_correct.** -/
theorem assign_correct (s : Assign) (σ : St V) :
    run P (compileAssign s) σ = (evalAssign P σ.locals s).map fun l => { locals := l, ops := σ.ops } := by
  simp only [compileAssign, run_append, expr_correct, evalAssign]
  cases evalE P σ.locals s.rhs with
  | none => simp
  | some v =>
    have h1 : ("LOCALSET" = "PUSH") = False := by decide
    have h2 : ("LOCALSET" = "LOCALGET") = False := by decide
    have h3 : ¬ ((s.slot : Int) < 0) := by omega
    simp only [Option.map_some, Option.bind_some, run, step1, ins, h1, h2, h3, if_false, if_true, Int.toNat_natCast]
    cases σ.locals[s.slot]? <;> simp

/-- **cond_correct.** -/
theorem cond_correct (c : Cond) (σ : St V) :
    runCond P (compileCond c) σ = (evalCond P σ.locals c).map fun b => (b, σ) := by
  have hl : (compileCond c).getLast? = some (ins c.op.code) := by simp [compileCond]
  have hd : (compileCond c).dropLast = compileE c.a ++ compileE c.b := by
    have : compileCond c = (compileE c.a ++ compileE c.b) ++ [ins c.op.code] := by simp [compileCond]
    rw [this, List.dropLast_concat]
  simp only [runCond, hl, hd, ins, cmpOfCode_code, run_append, evalCond]
  rw [expr_correct]
  cases evalE P σ.locals c.a with
  | none => rfl
  | some x =>
    simp only [Option.map_some, Option.bind_some]
    rw [expr_correct]
    cases evalE P σ.locals c.b with
    | none => rfl
    | some y =>
      simp only [Option.map_some, Option.bind_some]
      cases h : P.cmp c.op x y <;> simp [h]

/-! ### boolean conditions with short-circuit operators -/

theorem runJ_nil (σ : St V) : runJ P [] σ = some σ := by rw [runJ]

theorem runJ_plain (i : Instr) (rest : List Instr) (σ : St V) (h1 : i.op ≠ "AND") (h2 : i.op ≠ "OR")
    (h3 : i.op ≠ "NOT") (h4 : cmpOfCode i.op = none) :
    runJ P (i :: rest) σ = (step1 P i σ).bind (runJ P rest) := by
  rw [runJ]; simp [h1, h2, h3, h4]

theorem binop_plain (op : BinOp) : op.code ≠ "AND" ∧ op.code ≠ "OR" ∧ op.code ≠ "NOT" ∧ cmpOfCode op.code = none := by
  cases op <;> decide

/-- value code inside condition code: the jump-aware machine runs it like the plain one -/
theorem runJ_compileE (e : Expr) (X : List Instr) (σ : St V) :
    runJ P (compileE e ++ X) σ = (evalE P σ.locals e).bind fun v => runJ P X { σ with ops := v :: σ.ops } := by
  induction e generalizing X σ with
  | lit k =>
    simp only [compileE, List.cons_append, List.nil_append, evalE, Option.bind_some]
    rw [runJ_plain P _ _ _ (by simp [ins]) (by simp [ins]) (by simp [ins]) (by simp [ins, cmpOfCode])]
    simp [step1, ins]
  | loc i =>
    simp only [compileE, List.cons_append, List.nil_append, evalE]
    rw [runJ_plain P _ _ _ (by simp [ins]) (by simp [ins]) (by simp [ins]) (by simp [ins, cmpOfCode])]
    have h1 : ("LOCALGET" = "PUSH") = False := by decide
    have h2 : ¬ ((i : Int) < 0) := by omega
    simp only [step1, ins, h1, if_false, if_true, h2, Int.toNat_natCast]
    cases σ.locals[i]? <;> simp
  | bin op a b iha ihb =>
    simp only [compileE, List.append_assoc, evalE]
    rw [iha]
    cases ha : evalE P σ.locals a with
    | none => simp
    | some x =>
      simp only [Option.bind_some]
      rw [ihb]
      cases hb : evalE P σ.locals b with
      | none => simp
      | some y =>
        obtain ⟨p1, p2, p3, p4⟩ := binop_plain op
        simp only [Option.bind_some, List.cons_append, List.nil_append]
        rw [runJ_plain P _ _ _ (by simpa [ins] using p1) (by simpa [ins] using p2) (by simpa [ins] using p3) (by simpa [ins] using p4)]
        have ⟨n1, n2, n3⟩ := (show op.code ≠ "PUSH" ∧ op.code ≠ "LOCALGET" ∧ op.code ≠ "LOCALSET" by cases op <;> decide)
        have hb' : binOfCode op.code = some op := by cases op <;> decide
        simp only [step1, ins, n1, n2, n3, if_false, hb']
        cases hbin : P.bin op x y <;> simp [hbin]

theorem cmp_plain (op : CmpOp) : op.code ≠ "AND" ∧ op.code ≠ "OR" ∧ op.code ≠ "NOT" ∧ cmpOfCode op.code = some op := by
  cases op <;> decide

theorem runJ_cond (c : Cond) (X : List Instr) (σ : St V) :
    runJ P (compileCond c ++ X) σ =
      (evalCond P σ.locals c).bind fun b => runJ P X { σ with ops := P.ofBool b :: σ.ops } := by
  simp only [compileCond, List.append_assoc, evalCond]
  rw [runJ_compileE]
  cases evalE P σ.locals c.a with
  | none => simp
  | some x =>
    simp only [Option.bind_some]
    rw [runJ_compileE]
    cases evalE P σ.locals c.b with
    | none => simp
    | some y =>
      obtain ⟨p1, p2, p3, p4⟩ := cmp_plain c.op
      simp only [Option.bind_some, List.cons_append, List.nil_append]
      rw [runJ]
      simp [ins, p1, p2, p3, p4]

/-- **bexpr_correct.** The code of a boolean condition — comparisons combined with `&&`, `||` and
    `!` to any depth — leaves exactly Go's short-circuit value on the stack and then continues with
    whatever follows; an operand that Go does not evaluate is jumped over (and cannot panic). -/
theorem bexpr_correct (hP : ∀ b, P.truth (P.ofBool b) = b) (b : BExpr) (X : List Instr) (σ : St V) :
    runJ P (compileB b ++ X) σ =
      (evalB P σ.locals b).bind fun v => runJ P X { σ with ops := P.ofBool v :: σ.ops } := by
  induction b generalizing X σ with
  | cmp c => simp only [compileB, evalB]; exact runJ_cond P c X σ
  | and a b iha ihb =>
    simp only [compileB, List.append_assoc, evalB]
    rw [iha]
    cases ha : evalB P σ.locals a with
    | none => simp
    | some va =>
      simp only [Option.bind_some, List.cons_append, List.nil_append]
      rw [runJ]
      cases va with
      | true =>
        simp only [ins, hP, true_or, if_true, Bool.not_true, Bool.false_eq_true, and_false, false_or,
          reduceCtorEq, and_true, or_self, if_false]
        have : ("AND" = "OR") = False := by decide
        simp only [this, false_and, if_false]
        rw [ihb]
      | false =>
        simp only [ins, hP, true_or, if_true, Bool.not_false, and_true]
        have hn : ((compileB b).length : Int).toNat = (compileB b).length := by simp
        simp only [hn, List.drop_left]
        rfl
  | or a b iha ihb =>
    simp only [compileB, List.append_assoc, evalB]
    rw [iha]
    cases ha : evalB P σ.locals a with
    | none => simp
    | some va =>
      simp only [Option.bind_some, List.cons_append, List.nil_append]
      rw [runJ]
      cases va with
      | false =>
        have h1 : ("OR" = "AND") = False := by decide
        simp only [ins, hP, or_true, if_true, h1, false_and, Bool.false_eq_true, and_false, or_self, if_false]
        rw [ihb]
      | true =>
        have h1 : ("OR" = "AND") = False := by decide
        simp only [ins, hP, or_true, if_true, h1, false_and, and_self, false_or]
        have hn : ((compileB b).length : Int).toNat = (compileB b).length := by simp
        simp only [hn, List.drop_left]
        rfl
  | not a iha =>
    simp only [compileB, List.append_assoc, evalB]
    rw [iha]
    cases ha : evalB P σ.locals a with
    | none => simp
    | some va =>
      simp only [Option.bind_some, List.cons_append, List.nil_append, Option.map_some]
      rw [runJ]
      have h1 : ("NOT" = "AND") = False := by decide
      have h2 : ("NOT" = "OR") = False := by decide
      simp [ins, h1, h2, hP]


/-! ### the control-flow level -/

theorem compileE_noPH (e : Expr) : ∀ i ∈ compileE e, isPH i = false := by
  induction e with
  | lit k => intro i hi; simp [compileE, ins] at hi; subst hi; rfl
  | loc j => intro i hi; simp [compileE, ins] at hi; subst hi; rfl
  | bin op a b iha ihb =>
    intro i hi
    simp only [compileE, List.mem_append, List.mem_singleton] at hi
    rcases hi with (h | h) | h
    · exact iha i h
    · exact ihb i h
    · subst h; cases op <;> decide

theorem compileE_ne (e : Expr) : compileE e ≠ [] := by
  cases e <;> simp [compileE]

theorem compileB_noPH (b : BExpr) : ∀ i ∈ compileB b, isPH i = false := by
  induction b with
  | cmp c =>
    intro i hi
    simp only [compileB, compileCond, List.mem_append, List.mem_singleton] at hi
    rcases hi with (h' | h') | h'
    · exact compileE_noPH _ i h'
    · exact compileE_noPH _ i h'
    · subst h'; cases c.op <;> decide
  | and a b iha ihb =>
    intro i hi
    simp only [compileB, List.mem_append, List.mem_singleton] at hi
    rcases hi with (h' | h') | h'
    · exact iha i h'
    · subst h'; rfl
    · exact ihb i h'
  | or a b iha ihb =>
    intro i hi
    simp only [compileB, List.mem_append, List.mem_singleton] at hi
    rcases hi with (h' | h') | h'
    · exact iha i h'
    · subst h'; rfl
    · exact ihb i h'
  | not a iha =>
    intro i hi
    simp only [compileB, List.mem_append, List.mem_singleton] at hi
    rcases hi with h' | h'
    · exact iha i h'
    · subst h'; rfl

theorem compileB_ne (b : BExpr) : compileB b ≠ [] := by
  cases b <;> simp [compileB, compileCond]

theorem leavesOK (p : Prog) : LeavesOK (sem P p) (leaves p) where
  act_noPH n i hi := by
    simp only [leaves] at hi
    cases h : p.acts[n]? with
    | none => simp [h] at hi
    | some s =>
      simp only [h, compileAssign, List.mem_append, List.mem_singleton] at hi
      rcases hi with h' | h'
      · exact compileE_noPH _ i h'
      · subst h'; rfl
  cnd_noPH c i hi := by
    simp only [leaves] at hi
    cases h : p.cnds[c]? with
    | none =>
      simp only [h, List.mem_cons, List.mem_nil_iff, or_false] at hi
      rcases hi with rfl | rfl | rfl <;> decide
    | some k =>
      simp only [h] at hi
      exact compileB_noPH k i hi
  cnd_ne c := by
    simp only [leaves]
    cases p.cnds[c]? with
    | none => simp
    | some k => exact compileB_ne k
  act_empty n h s := by
    simp only [leaves] at h
    cases hn : p.acts[n]? with
    | none => simp [sem, hn]
    | some a => simp [hn, compileAssign] at h

/-- **minigo_correct.** If Go's semantics runs the program's body from locals `l` to completion
    with final state `st'` (the final locals, or `none` for a panic), then the compiled code, started
    at its first instruction, reaches the position just past its last instruction with exactly that
    state and an empty condition stack. -/
theorem minigo_correct (p : Prog) (l : List V) (st' : Option (List V))
    (hwf : ∀ i ∈ compileProg p, isPH i = false)        -- every break / continue sits inside a loop
    (h : Exec (sem P p) p.body (some l) .normal st') :
    Star (sem P p) (leaves p) (compileProg p) (0, [], some l) ((compileProg p).length, [], st') := by
  have hc : CodeAt (compileProg p) 0 (rw 0 0 (compile (leaves p) p.body)) := by
    refine ⟨[], [], ?_, rfl⟩
    have : rw 0 0 (compile (leaves p) p.body) = compile (leaves p) p.body := rw_noPH 0 0 _ hwf
    simp [compileProg, this]
  have := (Goat.Props.C06.compile_correct (leavesOK P p) h (compileProg p) 0 0 0 [] hc).1
  simpa [compileProg, tgt, offs] using this


/-- **leaf_steps_are_real.** Each macro step of the control-flow machine over a leaf is what the
    instruction-level machine does on that leaf's code: an assignment's code turns the locals into
    `(sem P p).act n`, a condition's code yields `(sem P p).cval c` and leaves everything else
    alone; a panic in either is the absorbing state `none`. -/
theorem leaf_steps_are_real (hP : ∀ b, P.truth (P.ofBool b) = b) (p : Prog) (l ops : List V) :
    (∀ n a, p.acts[n]? = some a →
      (run P ((leaves p).act n) { locals := l, ops := ops }).map (·.locals) = (sem P p).act n (some l) ∧
      ∀ σ', run P ((leaves p).act n) { locals := l, ops := ops } = some σ' → σ'.ops = ops) ∧
    (∀ c k, p.cnds[c]? = some k →
      runCondJ P ((leaves p).cnd c) { locals := l, ops := ops } =
        if (sem P p).ceff c (some l) = none then none
        else some ((sem P p).cval c (some l), { locals := l, ops := ops })) := by
  constructor
  · intro n a ha
    simp only [leaves, sem, ha, assign_correct, Option.bind_some]
    constructor
    · cases evalAssign P l a <;> simp
    · intro σ' h
      cases he : evalAssign P l a with
      | none => simp [he] at h
      | some l' => simp [he] at h; subst h; rfl
  · intro c k hk
    simp only [leaves, sem, hk, runCondJ]
    have := bexpr_correct P hP k [] { locals := l, ops := ops }
    simp only [List.append_nil, runJ_nil] at this
    rw [this]
    cases evalB P l k with
    | none => simp
    | some b => simp [hP]

/-! ### non-vacuity: `x = x + 1; if x > 2 { x = 0 }` on unbounded integers -/

def intPrims : Prims Int where
  untyped k := k
  bin op a b := match op with
    | .add => some (a + b) | .sub => some (a - b) | .mul => some (a * b)
    | .div => if b = 0 then none else some (a / b)
    | .mod => if b = 0 then none else some (a % b)
  cmp op a b := match op with
    | .lt => some (decide (a < b)) | .lte => some (decide (a ≤ b)) | .gt => some (decide (a > b))
    | .gte => some (decide (a ≥ b)) | .eq => some (decide (a = b)) | .neq => some (decide (a ≠ b))
  assignTo v _ := v
  ofBool b := if b then 1 else 0
  truth v := v ≠ 0

def demo : Prog :=
  { acts := [⟨0, .bin .add (.loc 0) (.lit 1)⟩, ⟨0, .lit 0⟩],
    cnds := [.and (.not (.cmp ⟨.eq, .loc 0, .lit 0⟩)) (.cmp ⟨.gt, .bin .div (.lit 6) (.loc 0), .lit 1⟩)],
    body := .seq (.act 0) (.ift 0 (.act 1)) }

-- x = x + 1; if !(x == 0) && 6/x > 1 { x = 0 }
example : (compileProg demo).map (fun i => (i.op, i.a)) =
    [("LOCALGET", 0), ("PUSH", 1), ("ADD", 0), ("LOCALSET", 0),
     ("LOCALGET", 0), ("PUSH", 0), ("EQ", 0), ("NOT", 0), ("AND", 5),
     ("PUSH", 6), ("LOCALGET", 0), ("DIV", 0), ("PUSH", 1), ("GT", 0),
     ("JUMPFALSE", 2), ("PUSH", 0), ("LOCALSET", 0)] := by decide

example : ∀ i ∈ compileProg demo, isPH i = false := by decide

/-- Go's semantics: from x = 2 the program ends with x = 0 (6/3 > 1); from x = -1 the division by
    zero is never evaluated: `!(x == 0)` is false and `&&` short-circuits -/
example : Exec (sem intPrims demo) demo.body (some [2]) .normal (some [0]) := by
  have h1 : Exec (sem intPrims demo) (.act 0) (some [2]) .normal (some [3]) := Exec.act
  have h2 : Exec (sem intPrims demo) (.act 1) (some [3]) .normal (some [0]) := Exec.act
  exact Exec.seqN h1 (Exec.iftT (by decide) h2)

example : evalB intPrims [0] (.and (.not (.cmp ⟨.eq, .loc 0, .lit 0⟩)) (.cmp ⟨.gt, .bin .div (.lit 6) (.loc 0), .lit 1⟩)) = some false := by
  decide

example : runCondJ intPrims (compileB (.and (.not (.cmp ⟨.eq, .loc 0, .lit 0⟩)) (.cmp ⟨.gt, .bin .div (.lit 6) (.loc 0), .lit 1⟩)))
    { locals := [0], ops := [] } = some (false, { locals := [0], ops := [] }) := by
  have h := bexpr_correct intPrims (by intro b; cases b <;> decide)
    (.and (.not (.cmp ⟨.eq, .loc 0, .lit 0⟩)) (.cmp ⟨.gt, .bin .div (.lit 6) (.loc 0), .lit 1⟩)) [] { locals := [0], ops := [] }
  have he : evalB intPrims [0] (.and (.not (.cmp ⟨.eq, .loc 0, .lit 0⟩)) (.cmp ⟨.gt, .bin .div (.lit 6) (.loc 0), .lit 1⟩)) = some false := by
    decide
  simp only [List.append_nil, runJ_nil] at h
  rw [runCondJ, h, he]
  rfl

end Goat.Props.C01

#print axioms Goat.Props.C01.expr_correct
#print axioms Goat.Props.C01.assign_correct
#print axioms Goat.Props.C01.cond_correct
#print axioms Goat.Props.C01.leavesOK
#print axioms Goat.Props.C01.minigo_correct
#print axioms Goat.Props.C01.bexpr_correct
#print axioms Goat.Props.C01.leaf_steps_are_real

namespace Goat.Props.C01
open Goat.MiniGo Goat.Pratt

/-! ### from the token text to the value: parser (C05) and compiler/VM (above) composed -/

def opSym : BinOp → String
  | .add => "+" | .sub => "-" | .mul => "*" | .div => "/" | .mod => "%"

def symOp (s : String) : Option BinOp :=
  if s = "+" then some .add else if s = "-" then some .sub else if s = "*" then some .mul
  else if s = "/" then some .div else if s = "%" then some .mod else none

/-- the source tree of a MiniGo expression; local `i` is written with its name `names[i]` -/
def toTree (names : List String) : MiniGo.Expr → Pratt.Expr
  | .lit k => .int false k.toNat
  | .loc i => .name (names.getD i "?")
  | .bin op a b => .bin (opSym op) (toTree names a) (toTree names b)

/-- what the compiler reads off a parse tree (a name is the local declared with that name) -/
def ofTree (names : List String) : Pratt.Expr → Option MiniGo.Expr
  | .int false n => some (.lit n)
  | .name s => (names.idxOf? s).map .loc
  | .bin s l r => do
    let op ← symOp s
    let a ← ofTree names l
    let b ← ofTree names r
    pure (.bin op a b)
  | _ => none

/-- literals are non-negative (a negative literal is the unary minus of one), locals are declared -/
def Plain (names : List String) : MiniGo.Expr → Prop
  | .lit k => 0 ≤ k
  | .loc i => i < names.length
  | .bin _ a b => Plain names a ∧ Plain names b

theorem symOp_opSym (op : BinOp) : symOp (opSym op) = some op := by cases op <;> decide

theorem toTree_wf (names : List String) (e : MiniGo.Expr) : WF GoSpec.goTable (toTree names e) := by
  induction e with
  | lit k => simp [toTree, WF]
  | loc i => simp [toTree, WF]
  | bin op a b iha ihb =>
    refine ⟨?_, iha, ihb⟩
    cases op <;> decide

theorem toTree_fold (names : List String) (e : MiniGo.Expr) : fold (toTree names e) = toTree names e := by
  induction e with
  | lit k => rfl
  | loc i => rfl
  | bin op a b iha ihb => simp [toTree, fold, iha, ihb]

theorem ofTree_toTree (names : List String) (hn : names.Nodup) (e : MiniGo.Expr) (hp : Plain names e) :
    ofTree names (toTree names e) = some e := by
  induction e with
  | lit k =>
    simp only [Plain] at hp
    simp [toTree, ofTree, Int.toNat_of_nonneg hp]
  | loc i =>
    simp only [Plain] at hp
    simp only [toTree, ofTree, List.getD_eq_getElem?_getD, List.getElem?_eq_getElem hp, Option.getD_some]
    have : names.idxOf? names[i] = some i := by
      rw [List.idxOf?_eq_some_iff]
      refine ⟨hp, rfl, ?_⟩
      intro j hj e
      have := (List.getElem_inj (h₀ := by omega) (h₁ := hp) hn).mp e
      omega
    rw [this]; rfl
  | bin op a b iha ihb =>
    simp only [Plain] at hp
    simp [toTree, ofTree, symOp_opSym, iha hp.1, ihb hp.2]

/-- **source_to_value.** For every MiniGo expression: the tokens of its Go spelling (minimal
    parentheses by Go's precedence) are parsed, with the binding powers found in symbol.go, to a
    tree from which the compiler recovers exactly the expression; and the code compiled from it
    pushes exactly the value of Go's left-to-right evaluation (or panics exactly when it does). -/
theorem source_to_value {V : Type} (P : Prims V) (names : List String) (hn : names.Nodup)
    (e : MiniGo.Expr) (hp : Plain names e) (σ : St V) :
    ∃ f, ∀ f', f ≤ f' →
      (parseExpr genTable f' 0 (render GoSpec.goTable 1 (toTree names e))).bind
        (fun r => if r.2 = [] then ofTree names r.1 else none) = some e ∧
      run P (compileE e) σ = (evalE P σ.locals e).map fun v => { σ with ops := v :: σ.ops } := by
  obtain ⟨f, hf⟩ := Goat.Props.C05.groups_as_go (toTree names e) (toTree_wf names e)
  refine ⟨f, fun f' hle => ⟨?_, expr_correct P e σ⟩⟩
  rw [hf f' hle, toTree_fold]
  simp [ofTree_toTree names hn e hp]

end Goat.Props.C01


#print axioms Goat.Props.C01.source_to_value
