import Goat.Lemmas.Peephole
import Goat.Model.VMCore
import Goat.Props.C04
import Goat.Props.C06
/-!
# C02 — the bytecode optimizer is observationally transparent

Three theorems about the rule table regenerated from compiler.go on every run:

* `rule_sound` — every rule replaces its window by an instruction with the same effect on the
  machine state **and the same failure behaviour**, for all operand values, all stacks, all heaps
  and all call behaviours (values, heap and calls are abstract);
* `rule_pos` — the fused instruction carries the source position of the window's LAST
  instruction;
* `opt_stable` — after the two passes of `optimize` no rule fires anywhere, so re-optimising an
  enclosing block (which the compiler does after computing jump distances over the inner block)
  is the identity and cannot move a jump target.

PARTIAL (`C02_partial`): the end-to-end statement "running the optimized and the unoptimized
compilation of any program gives the same output, values and error line" needs the compile
schemes (C06) composed with these three; until that composition exists in Lean it is covered by
search (every generated program, every harvested test-table input, both modes).
-/
namespace Goat.Props.C02
open Goat.Peephole Goat.VMCore

variable {V H : Type}

/-! ### laws of the value primitives the rules rely on -/

/-- What the rules assume about values. Each law is a fact about value.go that the C04 model
    proves for the integer types (`sub_untyped`, `incdec_type`: see `num_laws` below). (Two further
    laws - indexing with the untyped constant k or with Int(k) is the same - were needed while
    FASTGETINT / FASTSETINT built their key with Int(k); they were false for constants outside the
    int32 range, a genuine defect repaired in /repo: the handlers now index with the untyped
    constant itself, and the rules are sound without any assumption about Get / Set.) -/
structure PrimLaws (P : Prims V H) : Prop where
  /-- `x - k` is `x + (-k)` for an untyped constant k ≠ 0 (PUSH k; SUB → INCDEC −k; the rule's guard
      excludes k = 0, where a float64 -0.0 would give -0.0 on one side and +0.0 on the other) -/
  sub_untyped : ∀ a k, k ≠ 0 → P.sub a (P.untyped k) = P.add a (P.untyped (-k))
  /-- `x + k` has x's type, so storing it back into x's slot converts nothing (LOCALINCDEC) -/
  incdec_type : ∀ x k r, P.add x (P.untyped k) = some r → P.assignTo r x = r

theorem state_eta (σ : State V H) : ({ locals := σ.locals, ops := σ.ops, heap := σ.heap } : State V H) = σ := by
  cases σ; rfl

@[simp] theorem getLocal_ops (σ : State V H) (o : List V) (a : Int) :
    getLocal { σ with ops := o } a = getLocal σ a := rfl

theorem window3 {r : Gen.Rule} {a b c : String} (ho : r.lhs = [a, b, c]) {w : List Instr}
    (h : fires r w = true) :
    ∃ i j k X, w = i :: j :: k :: X ∧ i.op = a ∧ j.op = b ∧ k.op = c ∧ r.guards.all (guardOk w) = true := by
  simp only [fires, ho, Bool.and_eq_true, beq_iff_eq] at h
  obtain ⟨h1, h2⟩ := h
  match w with
  | [] => simp [opsOf] at h1
  | [i] => simp [opsOf] at h1
  | [i, j] => simp [opsOf] at h1
  | i :: j :: k :: X =>
    simp [opsOf] at h1
    exact ⟨i, j, k, X, rfl, h1.1, h1.2.1, h1.2.2, h2⟩

theorem window2 {r : Gen.Rule} {a b : String} (ho : r.lhs = [a, b]) {w : List Instr}
    (h : fires r w = true) :
    ∃ i j X, w = i :: j :: X ∧ i.op = a ∧ j.op = b ∧ r.guards.all (guardOk w) = true := by
  simp only [fires, ho, Bool.and_eq_true, beq_iff_eq] at h
  obtain ⟨h1, h2⟩ := h
  match w with
  | [] => simp [opsOf] at h1
  | [i] => simp [opsOf] at h1
  | i :: j :: X =>
    simp [opsOf] at h1
    exact ⟨i, j, X, rfl, h1.1, h1.2, h2⟩

theorem window1 {r : Gen.Rule} {a : String} (ho : r.lhs = [a]) {w : List Instr}
    (h : fires r w = true) :
    ∃ i X, w = i :: X ∧ i.op = a ∧ r.guards.all (guardOk w) = true := by
  simp only [fires, ho, Bool.and_eq_true, beq_iff_eq] at h
  obtain ⟨h1, h2⟩ := h
  match w with
  | [] => simp [opsOf] at h1
  | i :: X =>
    simp [opsOf] at h1
    exact ⟨i, X, rfl, h1, h2⟩

/-- `splitParams (joinParams a b) = (a, b)` for operands that fit in 16 signed bits -/
theorem split_join (a b : Int) (ha : -32768 ≤ a ∧ a < 32768) (hb : -32768 ≤ b ∧ b < 32768) :
    splitParams (joinParams a b) = (a, b) := by
  unfold splitParams joinParams
  have h1 : (a + 32768) % 65536 = a + 32768 := Int.emod_eq_of_lt (by omega) (by omega)
  have h2 : (b + 32768) % 65536 = b + 32768 := Int.emod_eq_of_lt (by omega) (by omega)
  rw [h1, h2]
  have h3 : ((a + 32768) * 65536 + (b + 32768)) / 65536 = a + 32768 := by omega
  have h4 : ((a + 32768) * 65536 + (b + 32768)) % 65536 = b + 32768 := by omega
  rw [h3, h4, h1]
  ext <;> simp <;> omega

/-- the CALLs of the window fit the 16-bit packing used by FASTCALLATTR (argument and result counts); no
    other operand - constants, slots, global and attribute indices - is restricted -/
def SmallOperands (w : List Instr) : Prop :=
  ∀ i ∈ w.take 3, i.op = "CALL" → (-32768 ≤ i.a ∧ i.a < 32768) ∧ (-32768 ≤ i.b ∧ i.b < 32768)

/-- the statement of soundness for one rule -/
def Sound (P : Prims V H) (call : CallSem V H) (r : Gen.Rule) : Prop :=
  ∀ (w : List Instr) (σ : State V H), fires r w = true → SmallOperands w →
    run P call (w.take r.lhs.length) σ = exec1 P call (build r w) σ

section rules
variable (P : Prims V H) (call : CallSem V H)

/-- windows `LOCALGET a; LOCALGET b; <op>` → `LOCAL<op> a b` -/
theorem sound_local_arith (opn fused : String)
    (hop : (opn = "ADD" ∧ fused = "LOCALADD") ∨ (opn = "SUB" ∧ fused = "LOCALSUB") ∨
           (opn = "MUL" ∧ fused = "LOCALMUL") ∨ (opn = "DIV" ∧ fused = "LOCALDIV")) :
    Sound P call { lhs := ["LOCALGET", "LOCALGET", opn], guards := [], rhs := fused,
                   a := .fld 0 .A, b := .fld 1 .A, c := .none, pos := 2 } := by
  intro w σ h _
  obtain ⟨i, j, k, X, rfl, hi, hj, hk, -⟩ := window3 rfl h
  simp only [List.length_cons, List.length_nil, List.take_succ_cons, List.take_zero, run, build, srcVal, Instr.fld]
  rcases hop with ⟨rfl, rfl⟩ | ⟨rfl, rfl⟩ | ⟨rfl, rfl⟩ | ⟨rfl, rfl⟩ <;>
  · simp [exec1, hi, hj, hk, arith]
    cases h1 : getLocal σ i.a <;> simp
    cases h2 : getLocal σ j.a <;> simp

theorem sound_localincdec (L : PrimLaws P) :
    Sound P call { lhs := ["LOCALGET", "INCDEC", "LOCALSET"], guards := [.eqf 0 .A 2 .A], rhs := "LOCALINCDEC",
                   a := .fld 0 .A, b := .fld 1 .A, c := .none, pos := 2 } := by
  intro w σ h _
  obtain ⟨i, j, k, X, rfl, hi, hj, hk, hg⟩ := window3 rfl h
  simp [guardOk, Instr.fld] at hg
  simp only [List.length_cons, List.length_nil, List.take_succ_cons, List.take_zero, run, build, srcVal, Instr.fld]
  simp [exec1, hi, hj, hk, ← hg]
  cases h1 : getLocal σ i.a with
  | none => simp
  | some x =>
    simp
    cases h2 : P.add x (P.untyped j.a) with
    | none => simp
    | some r =>
      simp [h1, L.incdec_type x j.a r h2]

theorem sound_fastget :
    Sound P call { lhs := ["LOCALGET", "CONST", "GET"], guards := [], rhs := "FASTGET",
                   a := .fld 0 .A, b := .fld 1 .A, c := .none, pos := 2 } := by
  intro w σ h _
  obtain ⟨i, j, k, X, rfl, hi, hj, hk, -⟩ := window3 rfl h
  simp only [List.length_cons, List.length_nil, List.take_succ_cons, List.take_zero, run, build, srcVal, Instr.fld]
  simp [exec1, hi, hj, hk]
  cases h1 : getLocal σ i.a <;> simp

theorem sound_fastset :
    Sound P call { lhs := ["LOCALGET", "CONST", "SET"], guards := [], rhs := "FASTSET",
                   a := .fld 0 .A, b := .fld 1 .A, c := .none, pos := 2 } := by
  intro w σ h _
  obtain ⟨i, j, k, X, rfl, hi, hj, hk, -⟩ := window3 rfl h
  simp only [List.length_cons, List.length_nil, List.take_succ_cons, List.take_zero, run, build, srcVal, Instr.fld]
  simp [exec1, hi, hj, hk]
  cases h1 : getLocal σ i.a <;> cases h2 : σ.ops <;> simp [h2]

theorem sound_fastgetint (L : PrimLaws P) :
    Sound P call { lhs := ["LOCALGET", "PUSH", "GET"], guards := [], rhs := "FASTGETINT",
                   a := .fld 0 .A, b := .fld 1 .A, c := .none, pos := 2 } := by
  intro w σ h _
  obtain ⟨i, j, k, X, rfl, hi, hj, hk, -⟩ := window3 rfl h
  simp only [List.length_cons, List.length_nil, List.take_succ_cons, List.take_zero, run, build, srcVal, Instr.fld]
  simp [exec1, hi, hj, hk]
  cases h1 : getLocal σ i.a <;> simp

theorem sound_fastsetint (L : PrimLaws P) :
    Sound P call { lhs := ["LOCALGET", "PUSH", "SET"], guards := [], rhs := "FASTSETINT",
                   a := .fld 0 .A, b := .fld 1 .A, c := .none, pos := 2 } := by
  intro w σ h _
  obtain ⟨i, j, k, X, rfl, hi, hj, hk, -⟩ := window3 rfl h
  simp only [List.length_cons, List.length_nil, List.take_succ_cons, List.take_zero, run, build, srcVal, Instr.fld]
  simp [exec1, hi, hj, hk]
  cases h1 : getLocal σ i.a <;> cases h2 : σ.ops <;> simp [h2]

theorem sound_fastcallattr :
    Sound P call { lhs := ["LOCALGET", "GETATTR", "CALL"], guards := [], rhs := "FASTCALLATTR",
                   a := .fld 0 .A, b := .fld 1 .A, c := .join 2 .A 2 .B, pos := 2 } := by
  intro w σ h hs
  obtain ⟨i, j, k, X, rfl, hi, hj, hk, -⟩ := window3 rfl h
  have hk' := hs k (by simp) hk
  simp only [List.length_cons, List.length_nil, List.take_succ_cons, List.take_zero, run, build, srcVal, Instr.fld]
  simp [exec1, hi, hj, hk, split_join k.a k.b hk'.1 hk'.2]
  cases h1 : getLocal σ i.a <;> simp
  rename_i obj
  cases h2 : P.getattr obj j.a σ.heap <;> simp

theorem sound_fastcall :
    Sound P call { lhs := ["GLOBALGET", "CALL"], guards := [], rhs := "FASTCALL",
                   a := .fld 0 .A, b := .fld 1 .A, c := .fld 1 .B, pos := 1 } := by
  intro w σ h _
  obtain ⟨i, j, X, rfl, hi, hj, -⟩ := window2 rfl h
  simp only [List.length_cons, List.length_nil, List.take_succ_cons, List.take_zero, run, build, srcVal, Instr.fld]
  simp [exec1, hi, hj]

theorem sound_fastgetattr :
    Sound P call { lhs := ["LOCALGET", "GETATTR"], guards := [], rhs := "FASTGETATTR",
                   a := .fld 0 .A, b := .fld 1 .A, c := .none, pos := 1 } := by
  intro w σ h _
  obtain ⟨i, j, X, rfl, hi, hj, -⟩ := window2 rfl h
  simp only [List.length_cons, List.length_nil, List.take_succ_cons, List.take_zero, run, build, srcVal, Instr.fld]
  simp [exec1, hi, hj]
  cases h1 : getLocal σ i.a <;> simp

theorem sound_fastsetattr :
    Sound P call { lhs := ["LOCALGET", "SETATTR"], guards := [], rhs := "FASTSETATTR",
                   a := .fld 0 .A, b := .fld 1 .A, c := .none, pos := 1 } := by
  intro w σ h _
  obtain ⟨i, j, X, rfl, hi, hj, -⟩ := window2 rfl h
  simp only [List.length_cons, List.length_nil, List.take_succ_cons, List.take_zero, run, build, srcVal, Instr.fld]
  simp [exec1, hi, hj]
  cases h1 : getLocal σ i.a <;> cases h2 : σ.ops <;> simp [h2]

theorem sound_push_add :
    Sound P call { lhs := ["PUSH", "ADD"], guards := [], rhs := "INCDEC",
                   a := .fld 0 .A, b := .none, c := .none, pos := 1 } := by
  intro w σ h _
  obtain ⟨i, j, X, rfl, hi, hj, -⟩ := window2 rfl h
  simp only [List.length_cons, List.length_nil, List.take_succ_cons, List.take_zero, run, build, srcVal, Instr.fld]
  simp [exec1, hi, hj, arith]
  cases h2 : σ.ops <;> simp [h2]

theorem sound_push_sub (L : PrimLaws P) :
    Sound P call { lhs := ["PUSH", "SUB"], guards := [.nec 0 .A 0, .nec 0 .A (-9223372036854775808)], rhs := "INCDEC",
                   a := .neg 0 .A, b := .none, c := .none, pos := 1 } := by
  -- (the second guard keeps the rule away from the one constant whose negation does not fit the 64-bit operand
  -- of the real instruction; over the unbounded operands of the model it is not needed)
  intro w σ h _
  obtain ⟨i, j, X, rfl, hi, hj, hg⟩ := window2 rfl h
  simp [guardOk, Instr.fld] at hg
  simp only [List.length_cons, List.length_nil, List.take_succ_cons, List.take_zero, run, build, srcVal, Instr.fld]
  simp [exec1, hi, hj, arith]
  cases h2 : σ.ops <;> simp [h2, L.sub_untyped _ _ hg.1]

theorem sound_jump0 :
    Sound P call { lhs := ["JUMP"], guards := [.eqc 0 .A 0], rhs := "PASS",
                   a := .none, b := .none, c := .none, pos := 0 } := by
  intro w σ h _
  obtain ⟨i, X, rfl, hi, hg⟩ := window1 rfl h
  simp [guardOk, Instr.fld] at hg
  simp only [List.length_cons, List.length_nil, List.take_succ_cons, List.take_zero, run, build, srcVal]
  simp [exec1, hi, hg]

end rules

/-- **rule_sound.** Every rule of the table found in compiler.go preserves the machine state and
    the failure behaviour of the window it replaces — for all values, stacks, heaps and callees.
    A rule that is not one of the sixteen shapes proved above makes this theorem fail. -/
theorem rule_sound (P : Prims V H) (L : PrimLaws P) (call : CallSem V H) :
    ∀ r ∈ rules, Sound P call r := by
  intro r hr
  simp only [rules, Gen.peephole, List.mem_cons, List.mem_nil_iff, or_false] at hr
  rcases hr with rfl | rfl | rfl | rfl | rfl | rfl | rfl | rfl | rfl | rfl | rfl | rfl | rfl | rfl | rfl | rfl
  · exact sound_localincdec P call L
  · exact sound_local_arith P call "ADD" "LOCALADD" (Or.inl ⟨rfl, rfl⟩)
  · exact sound_local_arith P call "MUL" "LOCALMUL" (Or.inr (Or.inr (Or.inl ⟨rfl, rfl⟩)))
  · exact sound_local_arith P call "DIV" "LOCALDIV" (Or.inr (Or.inr (Or.inr ⟨rfl, rfl⟩)))
  · exact sound_local_arith P call "SUB" "LOCALSUB" (Or.inr (Or.inl ⟨rfl, rfl⟩))
  · exact sound_fastget P call
  · exact sound_fastset P call
  · exact sound_fastgetint P call L
  · exact sound_fastsetint P call L
  · exact sound_fastcallattr P call
  · exact sound_fastcall P call
  · exact sound_fastgetattr P call
  · exact sound_fastsetattr P call
  · exact sound_push_add P call
  · exact sound_push_sub P call L
  · exact sound_jump0 P call

/-- **rule_pos.** The fused instruction is stamped with the position of the window's LAST
    instruction: the operator (GET, SET, CALL, ADD, …) that can fail at run time, after operand loads
    that cannot — so an error names the same line with the optimizer on or off, also when the
    statement is wrapped over several lines. -/
theorem rule_pos : ∀ r ∈ rules, r.pos + 1 = r.lhs.length := by decide

theorem fires_length {r : Gen.Rule} {w : List Instr} (h : fires r w = true) : r.lhs.length ≤ w.length := by
  simp only [fires, Bool.and_eq_true, beq_iff_eq] at h
  have := congrArg List.length h.1
  simp only [opsOf, List.length_map, List.length_take] at this
  omega

theorem build_pos (r : Gen.Rule) (hr : r ∈ rules) (w : List Instr) (h : fires r w = true) :
    ∃ i, w[r.lhs.length - 1]? = some i ∧ (build r w).pos = i.pos := by
  have hp := rule_pos r hr
  have hl := fires_length h
  have hlt : r.lhs.length - 1 < w.length := by omega
  have e : r.pos = r.lhs.length - 1 := by omega
  exact ⟨w[r.lhs.length - 1], by simp [hlt], by simp [build, e, hlt]⟩

/-- **opt_stable.** After the two passes of `optimize`, a further pass changes nothing. -/
theorem opt_stable (l : List Instr) : doOpt rules (optimize l) = optimize l := by
  have h2 : Gen.optimizePasses = 2 := by decide
  have : optimize l = doOpt rules (doOpt rules l) := by
    unfold optimize
    rw [h2]
    rfl
  rw [this]
  exact Goat.Peephole.opt_stable l

/-- … in particular optimizing an already optimized block again (as the enclosing block's
    `optimize` does) is the identity -/
theorem optimize_idempotent (l : List Instr) : optimize (optimize l) = optimize l := by
  have h2 : Gen.optimizePasses = 2 := by decide
  have e : ∀ x, optimize x = doOpt rules (doOpt rules x) := by
    intro x; unfold optimize; rw [h2]; rfl
  rw [e (optimize l), opt_stable, opt_stable]

/-- no rule's window contains a jump (other than the length-preserving `JUMP 0 → PASS`), a
    short-circuit, a loop instruction, a function header or a placeholder: fusing never changes
    the number of instructions between a jump and its target across a block boundary -/
theorem windows_avoid_control :
    ∀ r ∈ rules, (r.lhs = ["JUMP"] ∧ r.rhs = "PASS") ∨
      (∀ op ∈ r.lhs, op ∉ ["JUMP", "JUMPFALSE", "JUMPTRUE", "AND", "OR", "RANGE", "ITER", "FUNC", "TYPE",
                           "BREAK", "CONTINUE", "RETURN"]) := by decide

/-! ### the value laws hold for the numeric model of C04 -/

private theorem ofInt_neg' (w : Nat) (k : Int) : BitVec.ofInt w (-k) = - BitVec.ofInt w k := by
  apply BitVec.eq_of_toInt_eq
  simp [BitVec.toInt_neg, BitVec.toInt_ofInt]

/-- `sub_untyped` for every integer-carrying value: x − k = x + (−k) in every arm of the switch -/
theorem num_sub_untyped (t : Nat) (n k : Int) (ht : t ||| Goat.Num.tUntyped ≠ Goat.Num.tF64) :
    Goat.Num.binop .sub (.int t n) (.int Goat.Num.tUntyped k) =
    Goat.Num.binop .add (.int t n) (.int Goat.Num.tUntyped (-k)) := by
  unfold Goat.Num.binop
  simp only [Goat.Num.Val.tag, Goat.Num.mixType, ht, if_false, Goat.Num.Val.toInt, Goat.Num.Op.isDivMod,
    Bool.false_and, Goat.Num.binS, Goat.Num.binU, Goat.Num.Op.bv, Goat.Num.Op.untyped, Bool.false_eq_true]
  simp only [ofInt_neg', BitVec.sub_eq_add_neg, Int.sub_eq_add_neg]

/-- `incdec_type` for the fixed-width integer types: x + k has x's type, and storing a value of
    x's type into x's slot converts nothing -/
theorem num_incdec_type (ty : Goat.Props.C04.Ty) (x k : Int) (r : Goat.Num.Val)
    (h : Goat.Num.binop .add (.int ty.tag x) (.int Goat.Num.tUntyped k) = some r) :
    Goat.Num.assign r ty.tag = r := by
  have := Goat.Props.C04.incdec_typed ty x k
  unfold Goat.Num.incdec at this
  rw [this] at h
  cases h
  exact Goat.Props.C04.assign_typed ty _ _

/-! ### non-vacuity -/

example : fires (rules[0]'(by decide)) [⟨"LOCALGET", 3, 0, 0, 7⟩, ⟨"INCDEC", 1, 0, 0, 7⟩, ⟨"LOCALSET", 3, 0, 0, 7⟩] = true := by decide
example : build (rules[0]'(by decide)) [⟨"LOCALGET", 3, 0, 0, 7⟩, ⟨"INCDEC", 1, 0, 0, 7⟩, ⟨"LOCALSET", 3, 0, 0, 7⟩] =
    ⟨"LOCALINCDEC", 3, 1, 0, 7⟩ := by decide
example : splitParams (joinParams 2 (-1)) = (2, -1) := by decide

end Goat.Props.C02


/-! ## Whole lists and whole programs

`rule_sound` is per window. `doOpt_sound` / `optimize_sound` lift it to every straight-line
instruction list, and `opt_transparent` composes it with C06's `body_correct`: a program of the
modelled control-flow forms compiled from peephole-optimized leaves (jump offsets from the
optimized block lengths) computes exactly what the same program compiled from the unoptimized
leaves computes, which is what Go's semantics prescribes. -/

namespace Goat.Props.C02
open Goat.Peephole Goat.VMCore

variable {V H : Type}

theorem run_append (P : Prims V H) (call : CallSem V H) (a b : List Instr) (σ : State V H) :
    run P call (a ++ b) σ = (run P call a σ).bind (run P call b) := by
  induction a generalizing σ with
  | nil => simp [run]
  | cons i is ih =>
    simp only [List.cons_append, run]
    cases h : exec1 P call i σ with
    | none => simp
    | some σ' => simp [ih]

/-- every CALL of the list has argument and result counts that fit the 16-bit packing (the compiler emits no
    other; nothing is assumed about any other operand) -/
def AllSmall (l : List Instr) : Prop :=
  ∀ i ∈ l, i.op = "CALL" → (-32768 ≤ i.a ∧ i.a < 32768) ∧ (-32768 ≤ i.b ∧ i.b < 32768)

theorem AllSmall.small {l : List Instr} (h : AllSmall l) : SmallOperands l :=
  fun i hi => h i (List.mem_of_mem_take hi)

theorem AllSmall.drop {l : List Instr} (h : AllSmall l) (k : Nat) : AllSmall (l.drop k) :=
  fun i hi => h i (List.mem_of_mem_drop hi)

/-- **doOpt_sound.** One peephole pass over ANY straight-line instruction list leaves its meaning on
    the machine unchanged: same final locals, operand stack and heap, or failure on both sides. -/
theorem doOpt_sound (P : Prims V H) (L : PrimLaws P) (call : CallSem V H) (l : List Instr) :
    AllSmall l → ∀ σ, run P call (doOpt rules l) σ = run P call l σ := by
  fun_induction doOpt rules l with
  | case1 => intro _ σ; rfl
  | case2 x rest y k hm ih =>
    intro hs σ
    have hm' := hm
    simp only [matchAt, Option.map_eq_some_iff] at hm'
    obtain ⟨r, hfind, hb⟩ := hm'
    have hmem : r ∈ rules := List.mem_of_find?_eq_some hfind
    have hf : fires r (x :: rest) = true := by
      have := List.find?_some hfind
      simpa using this
    have hy : y = build r (x :: rest) := by cases hb; rfl
    have hk : k = r.lhs.length := by cases hb; rfl
    have hlen := (fact_len r hmem)
    have hk1 : max k 1 = k := by omega
    have hsound := rule_sound P L call r hmem (x :: rest) σ hf hs.small
    have split : x :: rest = (x :: rest).take k ++ (x :: rest).drop k := (List.take_append_drop k _).symm
    rw [hk1]
    conv => rhs; rw [split, run_append]
    simp only [run]
    rw [hy, ← hsound, hk]
    cases h : run P call (List.take r.lhs.length (x :: rest)) σ with
    | none => simp
    | some σ' =>
      simp only [Option.bind_some]
      rw [← hk]
      have := ih (by rw [hk1]; exact hs.drop k) σ'
      rw [hk1] at this
      exact this
  | case3 x rest hm ih =>
    intro hs σ
    simp only [run]
    cases h : exec1 P call x σ with
    | none => simp
    | some σ' =>
      simp only [Option.bind_some]
      exact ih (fun i hi => hs i (by simp [hi])) σ'

end Goat.Props.C02

namespace Goat.Props.C02
open Goat.Peephole Goat.VMCore
variable {V H : Type}

theorem fact_rhs_not_call : ∀ r ∈ rules, r.rhs ≠ "CALL" := by decide

/-- a pass creates no CALL: the CALLs of its output are CALLs of its input -/
theorem doOpt_small (l : List Instr) : AllSmall l → AllSmall (doOpt rules l) := by
  fun_induction doOpt rules l with
  | case1 => intro _ i hi; simp at hi
  | case2 x rest y k hm ih =>
    intro hs i hi
    simp only [List.mem_cons] at hi
    rcases hi with rfl | hi
    · simp only [matchAt, Option.map_eq_some_iff] at hm
      obtain ⟨r, hfind, hb⟩ := hm
      have hmem : r ∈ rules := List.mem_of_find?_eq_some hfind
      have hy : i = build r (x :: rest) := by cases hb; rfl
      intro hc
      rw [hy] at hc
      exact absurd hc (by simpa [build] using fact_rhs_not_call r hmem)
    · exact ih (fun j hj => hs j (List.mem_of_mem_drop hj)) i hi
  | case3 x rest hm ih =>
    intro hs i hi
    simp only [List.mem_cons] at hi
    rcases hi with rfl | hi
    · exact hs i (by simp)
    · exact ih (fun j hj => hs j (by simp [hj])) i hi

/-- **optimize_sound.** `optimize` (both passes, as generated from compiler.go) preserves the meaning
    of every straight-line instruction list. -/
theorem optimize_sound (P : Prims V H) (L : PrimLaws P) (call : CallSem V H) (l : List Instr)
    (hs : AllSmall l) (σ : State V H) : run P call (optimize l) σ = run P call l σ := by
  unfold optimize
  generalize List.range Gen.optimizePasses = passes
  induction passes generalizing l with
  | nil => rfl
  | cons _ ps ih =>
    simp only [List.foldl_cons]
    rw [ih (doOpt Gen.peephole l) (doOpt_small l hs)]
    exact doOpt_sound P L call l hs σ

end Goat.Props.C02

namespace Goat.Props.C02
open Goat.Peephole Goat.VMCore Goat.CF

variable {V H : Type}

/-- leaf semantics on the VMCore machine: a leaf runs as straight-line code (failure is absorbing);
    a condition's value is the truth of the operand it leaves on top, which the jump then pops -/
def leafSem (P : Prims V H) (call : CallSem V H) (truth : V → Bool)
    (ri : Int → Option (State V H) → Option (State V H))
    (rn : Int → Int → Option (State V H) → Option (Option (State V H)))
    (rd : Int → Option (State V H) → Option (State V H)) (L : Leaves) : Sem (Option (State V H)) where
  act n s := s.bind (run P call (L.act n))
  cval c s := match s.bind (run P call (L.cnd c)) with
    | some σ => (σ.ops.head?.map truth).getD false
    | none => false
  ceff c s := (s.bind (run P call (L.cnd c))).map fun σ => { σ with ops := σ.ops.tail }
  rinit := ri
  rnext := rn
  rdone := rd

def LeavesSmall (L : Leaves) : Prop := (∀ n, AllSmall (L.act n)) ∧ (∀ c, AllSmall (L.cnd c))

theorem leafSem_opt (P : Prims V H) (PL : PrimLaws P) (call : CallSem V H) (truth ri rn rd) (L : Leaves)
    (hs : LeavesSmall L) : leafSem P call truth ri rn rd (optLeaves L) = leafSem P call truth ri rn rd L := by
  have ha : ∀ n, run P call (optimize (L.act n)) = run P call (L.act n) :=
    fun n => funext fun σ => optimize_sound P PL call _ (hs.1 n) σ
  have hc : ∀ c, run P call (optimize (L.cnd c)) = run P call (L.cnd c) :=
    fun c => funext fun σ => optimize_sound P PL call _ (hs.2 c) σ
  simp only [leafSem, optLeaves, ha, hc]

theorem doOpt_ne_nil (l : List Instr) (h : l ≠ []) : doOpt rules l ≠ [] := by
  cases l with
  | nil => exact absurd rfl h
  | cons i rest =>
    rw [doOpt]
    split <;> simp

theorem optimize_ne_nil (l : List Instr) (h : l ≠ []) : optimize l ≠ [] := by
  unfold optimize
  generalize List.range Gen.optimizePasses = passes
  induction passes generalizing l with
  | nil => exact h
  | cons _ ps ih => simp only [List.foldl_cons]; exact ih _ (doOpt_ne_nil l h)

theorem fact_rhs_noPH : ∀ r ∈ rules, r.rhs ≠ "BREAK" ∧ r.rhs ≠ "CONTINUE" := by decide

theorem doOpt_noPH (l : List Instr) : (∀ i ∈ l, isPH i = false) → ∀ i ∈ doOpt rules l, isPH i = false := by
  fun_induction doOpt rules l with
  | case1 => intro _ i hi; simp at hi
  | case2 x rest y k hm ih =>
    intro hs i hi
    simp only [List.mem_cons] at hi
    rcases hi with rfl | hi
    · simp only [matchAt, Option.map_eq_some_iff] at hm
      obtain ⟨r, hfind, hb⟩ := hm
      have hmem : r ∈ rules := List.mem_of_find?_eq_some hfind
      have hy : i = build r (x :: rest) := by cases hb; rfl
      have := fact_rhs_noPH r hmem
      rw [hy]
      simp [isPH, build, this.1, this.2]
    · exact ih (fun j hj => hs j (List.mem_of_mem_drop hj)) i hi
  | case3 x rest hm ih =>
    intro hs i hi
    simp only [List.mem_cons] at hi
    rcases hi with rfl | hi
    · exact hs i (by simp)
    · exact ih (fun j hj => hs j (by simp [hj])) i hi

theorem optimize_noPH (l : List Instr) (h : ∀ i ∈ l, isPH i = false) : ∀ i ∈ optimize l, isPH i = false := by
  unfold optimize
  generalize List.range Gen.optimizePasses = passes
  induction passes generalizing l with
  | nil => exact h
  | cons _ ps ih => simp only [List.foldl_cons]; exact ih _ (doOpt_noPH l h)

theorem leavesOK_base (P : Prims V H) (call : CallSem V H) (truth ri rn rd) (L : Leaves)
    (h1 : ∀ n, ∀ i ∈ L.act n, isPH i = false) (h2 : ∀ c, ∀ i ∈ L.cnd c, isPH i = false) (h3 : ∀ c, L.cnd c ≠ []) :
    LeavesOK (leafSem P call truth ri rn rd L) L :=
  ⟨h1, h2, h3, by
    intro n he s
    simp only [leafSem, he]
    cases s <;> simp [run]⟩

/-- **opt_transparent (composition of C02 with C06).** Take any program of the modelled control-flow
    forms (any nesting of if / for / switch / range / break / continue / return) whose leaves are
    straight-line code of the rule table's opcodes. Compile it twice: from the leaves as they are,
    and from the leaves after the peephole passes — jump offsets computed from the respective block
    lengths and placeholders rewritten, as compiler.go does. Whatever Go's semantics makes the
    program compute from a state, BOTH codes run from their first instruction to just past their
    last one and end in exactly that state. -/
theorem opt_transparent (P : Prims V H) (PL : PrimLaws P) (call : CallSem V H) (truth ri rn rd) (L : Leaves)
    (h1 : ∀ n, ∀ i ∈ L.act n, isPH i = false) (h2 : ∀ c, ∀ i ∈ L.cnd c, isPH i = false) (h3 : ∀ c, L.cnd c ≠ [])
    (hs : LeavesSmall L) {s : Stmt} {st st' : Option (State V H)} {o : Out}
    (h : Exec (leafSem P call truth ri rn rd L) s st o st') (ho : o = .normal ∨ o = .ret) (stk : List Bool) :
    Star (leafSem P call truth ri rn rd L) L (rw 0 0 (compile L s)) (0, stk, st) ((compile L s).length, stk, st') ∧
    Star (leafSem P call truth ri rn rd (optLeaves L)) (optLeaves L) (rw 0 0 (compile (optLeaves L) s)) (0, stk, st)
      ((compile (optLeaves L) s).length, stk, st') := by
  constructor
  · exact Goat.Props.C06.body_correct (leavesOK_base P call truth ri rn rd L h1 h2 h3) h ho stk
  · have e := leafSem_opt P PL call truth ri rn rd L hs
    have okO : LeavesOK (leafSem P call truth ri rn rd (optLeaves L)) (optLeaves L) :=
      leavesOK_base P call truth ri rn rd (optLeaves L)
        (fun n => optimize_noPH _ (h1 n)) (fun c => optimize_noPH _ (h2 c)) (fun c => optimize_ne_nil _ (h3 c))
    have h' : Exec (leafSem P call truth ri rn rd (optLeaves L)) s st o st' := by rw [e]; exact h
    exact Goat.Props.C06.body_correct okO h' ho stk

end Goat.Props.C02

namespace Goat.Props.C02.Demo
open Goat.Peephole Goat.VMCore Goat.CF Goat.Props.C02

def ip : Prims Int Unit :=
  { untyped := id, global := id,
    add := fun a b => some (a + b), sub := fun a b => some (a - b), mul := fun a b => some (a * b),
    div := fun a b => if b = 0 then none else some (a / b),
    assignTo := fun v _ => v, get := fun _ _ _ => none, set := fun _ _ _ _ => none,
    getattr := fun _ _ _ => none, setattr := fun _ _ _ _ => none }

example : PrimLaws ip :=
  ⟨by intro a k _; simp [ip]; omega, by intros; rfl⟩

def dl : Leaves :=
  { act := fun n => if n = 1 then [⟨"LOCALGET", 0, 0, 0, 0⟩, ⟨"LOCALGET", 1, 0, 0, 0⟩, ⟨"ADD", 0, 0, 0, 0⟩, ⟨"LOCALSET", 0, 0, 0, 0⟩]
                    else [⟨"LOCALGET", 1, 0, 0, 0⟩, ⟨"PUSH", 1, 0, 0, 0⟩, ⟨"ADD", 0, 0, 0, 0⟩, ⟨"LOCALSET", 1, 0, 0, 0⟩],
    cnd := fun _ => [⟨"LOCALGET", 0, 0, 0, 0⟩] }

example : optimize (dl.act 1) = [⟨"LOCALADD", 0, 1, 0, 0⟩, ⟨"LOCALSET", 0, 0, 0, 0⟩] := by
  simp [dl, optimize, doOpt, matchAt, fires, opsOf, build, srcVal, guardOk, Gen.optimizePasses, Gen.peephole, List.range, List.range.loop, Instr.fld]


def st0 : Option (State Int Unit) := some { locals := [2, 3], ops := [], heap := () }
def dM : Sem (Option (State Int Unit)) :=
  leafSem ip (fun _ _ _ _ => none) (fun v => decide (v ≠ 0)) (fun _ s => s) (fun _ _ _ => none) (fun _ s => s) dl

/-- `x += y; if x { y++ }` from x = 2, y = 3 -/
example : Exec dM (.seq (.act 1) (.ift 1 (.act 2))) st0 .normal (dM.act 2 (dM.ceff 1 (dM.act 1 st0))) :=
  .seqN .act (.iftT (by decide) .act)

example : dM.act 2 (dM.ceff 1 (dM.act 1 st0)) = some { locals := [5, 4], ops := [], heap := () } := by rfl

end Goat.Props.C02.Demo

#print axioms Goat.Props.C02.rule_sound
#print axioms Goat.Props.C02.rule_pos
#print axioms Goat.Props.C02.doOpt_sound
#print axioms Goat.Props.C02.optimize_sound
#print axioms Goat.Props.C02.opt_transparent
#print axioms Goat.Props.C02.opt_stable
#print axioms Goat.Props.C02.optimize_idempotent
#print axioms Goat.Props.C02.windows_avoid_control
#print axioms Goat.Props.C02.split_join
#print axioms Goat.Props.C02.num_sub_untyped
#print axioms Goat.Props.C02.num_incdec_type
