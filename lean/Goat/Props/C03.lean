import Goat.Model.Contain
import Goat.Gen.Tables
/-!
# C03 — no input can take the embedding host down   (PARTIAL: see below)

What a theorem can carry here:

* `btErr_total` — the error builder that runs inside the recovery handlers indexes its frame and
  backtrace in range for **every** program counter, code length and backtrace depth (also `N =
  len(Codes)` after a body ran off its end, also an empty frame): the handler cannot panic on its
  own bookkeeping.
* `containment_structure` — facts regenerated from /repo's source by goatx on every run, decided
  by the kernel against the expectations written here: the four functions that run
  script-controlled or input-controlled code (`parse`, `compiler.run`, `VM.run`, `VM.Func`) each
  install a deferred `recover`; the recovery handlers of `VM.run` / `VM.Func` call nothing but
  `btErr`; `Eval` and `Load` wrap every error in one of the stage prefixes and never return a bare
  `err`; and the set of functions each entry point and each loader / tokenizer stage calls
  *outside* any recover is exactly the reviewed list below. Any change to that structure breaks
  this theorem and sends the check into its search for an escaping panic.
* termination of the stages is carried by other properties' theorems: the loader's dependency
  walk ends in an order or a cycle error (C15 `cycle_is_error`, `order_ok_iff_acyclic`), the
  peephole pass is a total function (C02, `doOpt` accepted by Lean's termination checker), the
  compiler of control flow is structurally recursive (C06), the Pratt loop consumes a token per
  step (C05's fuelled model, fuel = number of tokens).

What it cannot: that the *bodies* running outside a recover (the reviewed list: glue in `Eval` /
`Load`, the tokenizer, the loader, the dumps) contain no panicking operation for any input is a
fact about Go's run time, not expressible in the model. That part is searched, not proved: byte
strings, token soups, mutated corpus programs, random file trees and option subsets through every
entry point with a `recover()` in the harness.
-/
namespace Goat.Props.C03
open Goat.Contain

/-- **btErr_total.** -/
theorem btErr_total (n codes bt : Nat) : (btErrPick n codes bt).inRange codes bt := by
  unfold btErrPick
  split
  · assumption
  · split
    · simp only [Pick.inRange]; omega
    · split
      · simp only [Pick.inRange]; omega
      · trivial

theorem btErrWalk_inRange (bt : Nat) : ∀ i ∈ btErrWalk bt, i < bt := by
  intro i hi
  simpa [btErrWalk] using hi

/-- the expectation: name, has a deferred recover, calls made outside it, stage prefixes, bare
    `return err` count. (Methods of the package appear as `.Name`: receivers are not resolved.) -/
def expected : List Gen.FnFact := [
  { name := "VM.Eval", recovers := false,
    unprot := [".codeDump", ".run", ".treeDump", "compilePkgs", "loadImports", "newLookup", "parse", "tokenize"],
    stages := ["tokenize", "parse", "loadImports", "compile (imports)", "run (imports)", "compile", "run"], bareErr := 0 },
  { name := "VM.Load", recovers := false,
    unprot := [".codeDump", ".run", ".treeDump", "compilePkgs"],
    stages := ["load", "compile", "run", "run"], bareErr := 0 },   -- the second "run": values left by top-level code
  { name := "VM.Call", recovers := false, unprot := [".Func", ".Peek"], stages := [], bareErr := 0 },   -- (Peek: a map read)
  { name := "VM.Func", recovers := true, unprot := [".btErr"], stages := [], bareErr := 0 },
  { name := "VM.run", recovers := true, unprot := [".btErr"], stages := [], bareErr := 0 },
  { name := "VM.btErr", recovers := false, unprot := [".String"], stages := [], bareErr := 0 },
  { name := "VM.codeDump", recovers := false, unprot := [".String"], stages := [], bareErr := 0 },
  { name := "VM.treeDump", recovers := false, unprot := [".String", ".Write", "writeTree"], stages := [], bareErr := 0 },
  { name := "writeTree", recovers := false, unprot := ["writeTree"], stages := [], bareErr := 0 },   -- (depth-bounded recursion)
  { name := "parse", recovers := true, unprot := [], stages := [], bareErr := 0 },
  { name := "compiler.run", recovers := true, unprot := [], stages := [], bareErr := 0 },
  { name := "compilePkgs", recovers := false, unprot := [".run", "declareFuncs", "newLookup"], stages := [], bareErr := 1 },
  { name := "declareFuncs", recovers := false, unprot := [".Index"], stages := [], bareErr := 0 },   -- (a loop over the package's declarations)
  -- compares two host objects; its recover guards that one comparison and nothing else (no call inside it)
  { name := "sameObject", recovers := true, unprot := [], stages := [], bareErr := 0 },
  -- (tokenize calls text/scanner's Peek; since lookup.Peek exists the spelling counts - receivers are not resolved)
  { name := "tokenize", recovers := false, unprot := [".Peek"], stages := [], bareErr := 1 },
  { name := "treeSort", recovers := false, unprot := [], stages := [], bareErr := 0 },
  { name := "joinFiles", recovers := false, unprot := ["symAtPos"], stages := [], bareErr := 0 },
  { name := "loadFile", recovers := false, unprot := ["loadImports", "rawLoadFile", "treeSort"], stages := ["loadFile"], bareErr := 0 },
  { name := "loadPackage", recovers := false, unprot := ["loadImports", "rawLoadPackage", "treeSort"], stages := ["loadPackage"], bareErr := 0 },
  { name := "loadImports", recovers := false,
    unprot := [".Append", "rawLoadPackage", "treeSort"], stages := ["loadPackage"], bareErr := 0 },
  { name := "rawLoadFile", recovers := false, unprot := ["checkConstraint", "parse", "tokenize"],
    stages := ["ReadFile", "constraint", "tokenize", "parse"], bareErr := 0 },
  { name := "rawLoadPackage", recovers := false, unprot := [".Append", "joinFiles", "rawLoadFile", "symAtPos"],
    stages := ["Glob", "loadFile"], bareErr := 0 },
  { name := "checkConstraint", recovers := false, unprot := [".Eval"], stages := [], bareErr := 1 }
]

/-- **containment_structure.** Every expected fact is what goatx extracted from the current
    source, and nothing else is extracted under those names. -/
theorem containment_structure :
    expected.all (fun e => (Gen.funcs.filter (·.name == e.name)) == [e]) = true := by decide

/-- the functions that run input- or script-controlled code all recover -/
theorem stages_recover :
    ["parse", "compiler.run", "VM.run", "VM.Func"].all
      (fun n => (Gen.funcs.filter (·.name == n)).all (·.recovers) && (Gen.funcs.any (·.name == n))) = true := by decide

/-- `Eval` and `Load` name a stage on every error they return -/
theorem entry_errors_name_a_stage :
    (Gen.funcs.filter (fun f => f.name == "VM.Eval" || f.name == "VM.Load")).all
      (fun f => f.bareErr == 0 && f.stages.all (fun s =>
        ["tokenize", "parse", "load", "loadImports", "compile", "compile (imports)", "run", "run (imports)"].contains s)) = true := by decide

/-- no other function of the package installs a recover that could swallow an error silently (`sameObject` calls
    nothing: the only panic its recover can meet is that of comparing two host values of an uncomparable type) -/
theorem recovers_are_exactly :
    (Gen.funcs.filter (·.recovers)).map (·.name) = ["VM.Func", "VM.run", "compiler.run", "parse", "sameObject"] := by decide

example : btErrPick 5 5 2 = .code 4 ∧ btErrPick 0 0 3 = .callSite 2 ∧ btErrPick 0 0 0 = .zero := by decide

end Goat.Props.C03

#print axioms Goat.Props.C03.btErr_total
#print axioms Goat.Props.C03.btErrWalk_inRange
#print axioms Goat.Props.C03.containment_structure
#print axioms Goat.Props.C03.stages_recover
#print axioms Goat.Props.C03.entry_errors_name_a_stage
#print axioms Goat.Props.C03.recovers_are_exactly
