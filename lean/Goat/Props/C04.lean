import Goat.Model.Num
/-!
# C04 — fixed-width numeric semantics equal Go's for every operand value

`Goat.Num` transcribes value.go's arms; the tags come from the table regenerated from value.go.
Go's semantics of the fixed-width types is two's-complement `BitVec` arithmetic
(`GoNum` below); every theorem holds for *all* operand values, not the sampled ones.
-/
namespace Goat.Props.C04
open Goat.Num

/-! ### Go's fixed-width integer types -/

inductive Ty where | u8 | i8 | u32 | i32
  deriving DecidableEq, Repr

def Ty.tag : Ty → Nat
  | .u8 => tU8 | .i8 => tI8 | .u32 => tU32 | .i32 => tI32
def Ty.width : Ty → Nat
  | .u8 | .i8 => 8
  | .u32 | .i32 => 32
def Ty.signed : Ty → Bool
  | .i8 | .i32 => true
  | .u8 | .u32 => false

/-- the values of the type -/
def Ty.inRange (ty : Ty) (n : Int) : Prop :=
  if ty.signed then -(2 ^ (ty.width - 1) : Int) ≤ n ∧ n < 2 ^ (ty.width - 1)
  else 0 ≤ n ∧ n < 2 ^ ty.width

namespace GoNum
/-- a Go value of type `ty` as the machine word it is -/
def ofZ (ty : Ty) (n : Int) : BitVec ty.width := BitVec.ofInt ty.width n
/-- the integer a machine word denotes in type `ty` -/
def toZ (ty : Ty) (v : BitVec ty.width) : Int := if ty.signed then v.toInt else v.toNat
/-- Go's binary operators on `ty`: wrap-around + - *, truncated / %, bitwise & | ^ -/
def bin (ty : Ty) (op : Op) (a b : Int) : Int := toZ ty (op.bv ty.width ty.signed (ofZ ty a) (ofZ ty b))
/-- Go's shifts: `<<` drops the high bits, `>>` is arithmetic on signed and logical on unsigned
    types; the count is an unbounded natural number -/
def shl (ty : Ty) (a : Int) (n : Nat) : Int := toZ ty (ofZ ty a <<< n)
def shr (ty : Ty) (a : Int) (n : Nat) : Int :=
  toZ ty (if ty.signed then (ofZ ty a).sshiftRight n else ofZ ty a >>> n)
/-- conversion to `ty` from any integer value: keep the low bits -/
def conv (ty : Ty) (n : Int) : Int := toZ ty (ofZ ty n)
end GoNum

/-! ### facts about the regenerated tag table (kernel evaluation) -/

/-- the tags are the expected bit masks; OR-ing a typed tag with itself or with the untyped tag
    gives the typed tag, float64 absorbs every numeric tag, and the five numeric tags, the untyped
    tag and nil are pairwise distinct -/
theorem tags_mix :
    (∀ ty : Ty, mixType ty.tag ty.tag = ty.tag ∧ mixType ty.tag tUntyped = ty.tag ∧
       mixType tUntyped ty.tag = ty.tag ∧ mixType ty.tag tF64 = tF64 ∧ mixType tF64 ty.tag = tF64) ∧
    mixType tUntyped tUntyped = tUntyped ∧ mixType tUntyped tF64 = tF64 ∧ mixType tF64 tUntyped = tF64 ∧
    [tU8, tI8, tU32, tI32, tF64, tUntyped, tNil].Nodup := by
  refine ⟨fun ty => ?_, ?_⟩
  · cases ty <;> decide
  · decide

theorem tag_values : tU8 = 3 ∧ tI8 = 19 ∧ tU32 = 7 ∧ tI32 = 23 ∧ tF64 = 31 ∧ tUntyped = 1 ∧ tNil = 0 := by decide

/-- CAST is emitted for every numeric declared type -/
theorem cast_types : Gen.castTypes = ["TypeUint8", "TypeInt8", "TypeUint32", "TypeInt32", "TypeFloat64"] := by decide

/-! ### arithmetic, bitwise and division operators -/

private theorem t_u8 : tU8 = 3 := by decide
private theorem t_i8 : tI8 = 19 := by decide
private theorem t_u32 : tU32 = 7 := by decide
private theorem t_i32 : tI32 = 23 := by decide
private theorem t_f64 : tF64 = 31 := by decide
private theorem t_unt : tUntyped = 1 := by decide
private theorem t_nil : tNil = 0 := by decide

/-! The theorems below hold for every operand value.
 * `binop_arm`/`binop_typed`: on operands whose tags OR to a fixed-width type the result carries
   that type and is the value Go defines (wrap-around + - *, truncated / %, bitwise & | ^);
   integer division by zero is an error (`none`), as Go panics.
 * `untyped_adopts`: an untyped constant on either side behaves as if declared with the other
   operand's type.
 * `shift_typed`: shifts keep the left operand's type whatever the count's type, compute Go's
   `<<`/`>>` (arithmetic on signed, logical on unsigned); a negative count is an error.
 * `convert_int`, `conv_inRange`, `assign_untyped`, `assign_typed`: conversions keep the low bits;
   stores convert representable untyped constants to the declared type and leave typed values alone.
 * `complement_typed`, `incdec_typed`, `negate_typed`: `^x`, `x++ / x += k / x + k`, `-x`. -/

theorem mix_tags (ty : Ty) : mixType ty.tag ty.tag = ty.tag ∧ mixType ty.tag tUntyped = ty.tag ∧
    mixType tUntyped ty.tag = ty.tag := by cases ty <;> decide

/-- arm selection: whenever the OR of the operand tags is a typed integer tag, that type's arm runs -/
theorem binop_arm (ty : Ty) (op : Op) (ta tb : Nat) (a b : Int) (h : mixType ta tb = ty.tag) :
    binop op (.int ta a) (.int tb b) =
      if op.isDivMod = true ∧ GoNum.toZ ty (GoNum.ofZ ty b) = 0 then none
      else some (.int ty.tag (GoNum.bin ty op a b)) := by
  unfold binop
  simp only [Val.tag, h]
  cases ty <;>
  · simp only [Val.toInt, Ty.tag, t_u8, t_i8, t_u32, t_i32, t_f64, GoNum.bin, GoNum.toZ,
      GoNum.ofZ, Ty.width, Ty.signed, binU, binS, wrapU, wrapS]
    by_cases h1 : op.isDivMod = true <;> simp [h1]

theorem binop_typed (ty : Ty) (op : Op) (a b : Int) :
    binop op (.int ty.tag a) (.int ty.tag b) =
      if op.isDivMod = true ∧ GoNum.toZ ty (GoNum.ofZ ty b) = 0 then none
      else some (.int ty.tag (GoNum.bin ty op a b)) :=
  binop_arm ty op _ _ a b (mix_tags ty).1

theorem untyped_adopts (ty : Ty) (op : Op) (k b : Int) :
    binop op (.int tUntyped k) (.int ty.tag b) = binop op (.int ty.tag k) (.int ty.tag b) ∧
    binop op (.int ty.tag b) (.int tUntyped k) = binop op (.int ty.tag b) (.int ty.tag k) := by
  constructor
  · rw [binop_arm ty op _ _ k b (mix_tags ty).2.2, binop_typed]
  · rw [binop_arm ty op _ _ b k (mix_tags ty).2.1, binop_typed]

theorem convert_int (ty : Ty) (st : Nat) (n : Int) :
    convert (.int st n) ty.tag = some (.int ty.tag (GoNum.conv ty n)) := by
  cases ty <;>
  · simp only [convert, Val.toInt, Ty.tag, t_u8, t_i8, t_u32, t_i32, GoNum.conv, GoNum.toZ, GoNum.ofZ, Ty.width,
      Ty.signed, wrapS, wrapU]
    simp

theorem assign_typed (ty : Ty) (n : Int) (t : Nat) : assign (.int ty.tag n) t = .int ty.tag n := by
  have h1 : ∀ ty : Ty, ty.tag ≠ tUntyped ∧ ty.tag ≠ tNil ∧ ty.tag ≠ tF64 := by intro ty; cases ty <;> decide
  unfold assign
  simp only [Val.tag]
  by_cases h : ty.tag = t
  · simp [h]
  · simp [h, (h1 ty).1, (h1 ty).2.1, (h1 ty).2.2]

/-- a float64 that reaches an integer slot (in a valid program: a constant spelled like a float, `1e6` or `2.0`)
    takes the slot's type, wrapping like every conversion to that type -/
theorem assign_float_const (ty : Ty) (x : Float) :
    assign (.flt x) ty.tag = .int ty.tag (GoNum.conv ty (f2i x)) := by
  cases ty <;>
  · simp only [assign, Val.tag, Val.toInt, Ty.tag, t_u8, t_i8, t_u32, t_i32, t_f64, t_unt, GoNum.conv, GoNum.toZ, GoNum.ofZ,
      Ty.width, Ty.signed, wrapS, wrapU]
    simp

theorem complement_typed (ty : Ty) (x : Int) :
    complement (.int ty.tag x) = some (.int ty.tag (GoNum.toZ ty (GoNum.ofZ ty x ^^^ BitVec.allOnes ty.width))) := by
  have h1 : ty.tag ≠ tUntyped := by cases ty <;> decide
  have hm : GoNum.ofZ ty (GoNum.conv ty 0xffffffff) = BitVec.allOnes ty.width := by cases ty <;> decide
  unfold complement
  simp only [Val.tag, h1, if_false, assign_typed, convert_int, binop_typed]
  simp [Op.isDivMod, GoNum.bin, Op.bv, hm]

theorem shift_typed (ty : Ty) (left : Bool) (x : Int) (ct : Nat) (cnt : Int) :
    shift left (.int ty.tag x) (.int ct cnt) =
      if cnt < 0 then none
      else some (.int ty.tag (if left then GoNum.shl ty x (min cnt.toNat ty.width)
                               else GoNum.shr ty x (min cnt.toNat ty.width))) := by
  cases ty <;> cases left <;>
  · simp only [shift, Val.tag, Val.toInt, Ty.tag, t_u8, t_i8, t_u32, t_i32, t_f64, GoNum.shl, GoNum.shr, GoNum.toZ,
      GoNum.ofZ, Ty.width, Ty.signed]
    by_cases h : cnt < 0 <;> simp only [h, if_true, if_false] <;> rfl

theorem conv_inRange (ty : Ty) (n : Int) (h : ty.inRange n) : GoNum.conv ty n = n := by
  cases ty <;>
  · simp only [Ty.inRange, Ty.signed, Ty.width, GoNum.conv, GoNum.toZ, GoNum.ofZ, BitVec.toInt_ofInt,
      BitVec.toNat_ofInt, Int.bmod_def] at *
    simp at *
    omega

theorem assign_untyped (ty : Ty) (k : Int) (h : ty.inRange k) :
    assign (.int tUntyped k) ty.tag = .int ty.tag k := by
  have hk := conv_inRange ty k h
  have : assign (.int tUntyped k) ty.tag = .int ty.tag (GoNum.conv ty k) := by
    cases ty <;>
    · simp only [assign, Val.tag, Val.toInt, Ty.tag, t_u8, t_i8, t_u32, t_i32, t_f64, t_unt, wrapS, wrapU,
        GoNum.conv, GoNum.toZ, GoNum.ofZ, Ty.width, Ty.signed]
      simp
  rw [this, hk]

/-- `x++`, `x--`, `x += k`, `x + k` (INCDEC k): Go's `x + T(k)` in x's own type -/
theorem incdec_typed (ty : Ty) (x k : Int) :
    incdec (.int ty.tag x) k = some (.int ty.tag (GoNum.bin ty .add x k)) := by
  unfold incdec
  rw [(untyped_adopts ty .add k x).2, binop_typed]
  simp [Op.isDivMod]

/-- unary minus (NEGATE): the VM multiplies by the untyped constant −1, in x's own type -/
theorem negate_typed (ty : Ty) (x : Int) :
    negate (.int ty.tag x) = some (.int ty.tag (GoNum.bin ty .mul x (-1))) := by
  unfold negate
  rw [(untyped_adopts ty .mul (-1) x).2, binop_typed]
  simp [Op.isDivMod]

/-- a count of the width or more shifts every bit out, so clamping the count is invisible -/
theorem shift_clamp_shl {w : Nat} (v : BitVec w) (n : Nat) : v <<< (min n w) = v <<< n := by
  by_cases h : n ≤ w
  · rw [Nat.min_eq_left h]
  · have hw : w ≤ n := by omega
    rw [Nat.min_eq_right hw]
    rw [BitVec.shiftLeft_eq_zero (by omega), BitVec.shiftLeft_eq_zero hw]

theorem shift_clamp_ushr {w : Nat} (v : BitVec w) (n : Nat) : v >>> (min n w) = v >>> n := by
  by_cases h : n ≤ w
  · rw [Nat.min_eq_left h]
  · have hw : w ≤ n := by omega
    rw [Nat.min_eq_right hw]
    rw [BitVec.ushiftRight_eq_zero (by omega), BitVec.ushiftRight_eq_zero hw]

/-! ### the well-typedness invariant -/

/-- every operator result lies in the range of its type (hence its float64 carrier is exact) -/
theorem toZ_inRange (ty : Ty) (v : BitVec ty.width) : ty.inRange (GoNum.toZ ty v) := by
  cases ty
  · have h := v.isLt
    simp only [Ty.width] at h v
    simp [Ty.inRange, GoNum.toZ, Ty.signed, Ty.width]; omega
  · have h1 := BitVec.toInt_lt (x := v); have h2 := BitVec.le_toInt (x := v)
    simp only [Ty.width] at h1 h2 v
    simp [Ty.inRange, GoNum.toZ, Ty.signed, Ty.width]; omega
  · have h := v.isLt
    simp only [Ty.width] at h v
    simp [Ty.inRange, GoNum.toZ, Ty.signed, Ty.width]; omega
  · have h1 := BitVec.toInt_lt (x := v); have h2 := BitVec.le_toInt (x := v)
    simp only [Ty.width] at h1 h2 v
    simp [Ty.inRange, GoNum.toZ, Ty.signed, Ty.width]; omega

theorem binop_wt (ty : Ty) (op : Op) (a b : Int) (r : Val)
    (h : binop op (.int ty.tag a) (.int ty.tag b) = some r) : ∃ n, r = .int ty.tag n ∧ ty.inRange n := by
  rw [binop_typed] at h
  split at h
  · cases h
  · cases h; exact ⟨_, rfl, toZ_inRange ty _⟩

/-! ### what the BitVec operators mean on integers (the wrap-around laws of the Go spec) -/

theorem add_wraps (w : Nat) (a b : Int) :
    (BitVec.ofInt w a + BitVec.ofInt w b).toInt = (a + b).bmod (2 ^ w) := by simp
theorem sub_wraps (w : Nat) (a b : Int) :
    (BitVec.ofInt w a - BitVec.ofInt w b).toInt = (a - b).bmod (2 ^ w) := by simp
theorem mul_wraps (w : Nat) (a b : Int) :
    (BitVec.ofInt w a * BitVec.ofInt w b).toInt = (a * b).bmod (2 ^ w) := by simp
/-- signed division truncates toward zero (and the one overflowing case wraps) -/
theorem div_truncates (w : Nat) (a b : BitVec w) :
    (a.sdiv b).toInt = (a.toInt.tdiv b.toInt).bmod (2 ^ w) := BitVec.toInt_sdiv a b
/-- signed remainder takes the sign of the dividend -/
theorem rem_truncates (w : Nat) (a b : BitVec w) : (a.srem b).toInt = a.toInt.tmod b.toInt := BitVec.toInt_srem a b
theorem udiv_floor (w : Nat) (a b : BitVec w) : (a.udiv b).toNat = a.toNat / b.toNat := BitVec.toNat_udiv
theorem umod_floor (w : Nat) (a b : BitVec w) : (a.umod b).toNat = a.toNat % b.toNat := BitVec.toNat_umod

/-- comparisons of typed values compare the integers they denote -/
theorem lt_typed (t : Nat) (a b : Int) : lt (.int t a) (.int t b) = mkBool (decide (a < b)) := rfl
theorem lte_typed (t : Nat) (a b : Int) : lte (.int t a) (.int t b) = mkBool (decide (a ≤ b)) := rfl
theorem eq_typed (t : Nat) (a b : Int) : eqNum (.int t a) (.int t b) = mkBool (decide (a = b)) := rfl

/-! ### non-vacuity: the boundary cases the suite never samples -/

example : binop .add (.int tU8 255) (.int tUntyped 1) = some (.int tU8 0) := by rfl
example : incdec (.int tU8 255) 1 = some (.int tU8 0) := by rfl
example : binop .add (.int tI8 100) (.int tI8 100) = some (.int tI8 (-56)) := by rfl
example : incdec (.int tU32 0) (-1) = some (.int tU32 4294967295) := by rfl
example : binop .div (.int tI32 (-2147483648)) (.int tI32 (-1)) = some (.int tI32 (-2147483648)) := by rfl
example : binop .mod (.int tI8 (-7)) (.int tI8 3) = some (.int tI8 (-1)) := by rfl
example : binop .div (.int tI32 5) (.int tI32 0) = none := by rfl
example : shift true (.int tU8 200) (.int tI32 1) = some (.int tU8 144) := by rfl
example : shift false (.int tI8 (-128)) (.int tU32 3) = some (.int tI8 (-16)) := by rfl
example : assign (.int tUntyped 4000000000) tU32 = .int tU32 4000000000 := by rfl
example : Ty.inRange .u8 255 ∧ Ty.inRange .i8 (-128) := by simp [Ty.inRange, Ty.signed, Ty.width]

end Goat.Props.C04

#print axioms Goat.Props.C04.tags_mix
#print axioms Goat.Props.C04.tag_values
#print axioms Goat.Props.C04.cast_types
#print axioms Goat.Props.C04.binop_arm
#print axioms Goat.Props.C04.binop_typed
#print axioms Goat.Props.C04.untyped_adopts
#print axioms Goat.Props.C04.incdec_typed
#print axioms Goat.Props.C04.negate_typed
#print axioms Goat.Props.C04.complement_typed
#print axioms Goat.Props.C04.shift_typed
#print axioms Goat.Props.C04.shift_clamp_shl
#print axioms Goat.Props.C04.shift_clamp_ushr
#print axioms Goat.Props.C04.convert_int
#print axioms Goat.Props.C04.conv_inRange
#print axioms Goat.Props.C04.assign_untyped
#print axioms Goat.Props.C04.assign_typed
#print axioms Goat.Props.C04.toZ_inRange
#print axioms Goat.Props.C04.binop_wt
#print axioms Goat.Props.C04.add_wraps
#print axioms Goat.Props.C04.div_truncates
#print axioms Goat.Props.C04.lt_typed
#print axioms Goat.Props.C04.assign_float_const
