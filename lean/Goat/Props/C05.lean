import Goat.Lemmas.Pratt
import Goat.Model.PrattGen
import Goat.Spec.GoPrec
/-!
# C05 — expressions group by Go's operator precedence and associativity

Property theorems only. The binding-power table `genTable` is regenerated from
/repo/symbol.go and /repo/compiler.go on every run (Goat/Gen/Tables.lean), so every
`decide` below is re-checked against what the source says now.
-/
namespace Goat.Props.C05
open Goat.Pratt GoSpec

/-! ### obligations on the regenerated table (finite facts, by kernel evaluation) -/

/-- the parser's binary operators are exactly Go's (minus `&^`, which is not a token), and its
    prefix operators are `- ^ !` -/
theorem table_ops :
    (genTable.bin.map (·.1)).all (fun s => (goTable.lbp? s).isSome) = true ∧
    (goTable.bin.map (·.1)).all (fun s => (genTable.lbp? s).isSome) = true ∧
    genTable.bin.length = goTable.bin.length ∧
    genTable.pre.map (·.1) = ["-", "^", "!"] := by decide

/-- parentheses bind looser than every binary operator; every prefix operator parses its
    operand tighter than any binary operator -/
theorem table_ok : genTable.okB = true := by decide

/-- the parser's binding powers order the operators exactly as Go's five levels do -/
theorem table_iso : isoB goTable genTable = true := by decide

/-- stated outright: two binary operators compare by binding power as they do by Go level -/
theorem table_order :
    goTable.bin.all (fun a => goTable.bin.all (fun b =>
      decide ((a.2 < b.2 ↔ genTable.lbp a.1 < genTable.lbp b.1) ∧
              (a.2 = b.2 ↔ genTable.lbp a.1 = genTable.lbp b.1)))) = true := by decide

/-! ### the property -/

/-- **C05.** For every source expression `e` over Go's binary and unary operators (any size, any
    nesting, with any redundant parentheses), printed with the parentheses Go's grammar
    (`goTable`: five levels, left-associative, unary tightest) requires, goatlang's parser with
    the table found in the source returns exactly `e`'s tree (`fold` drops the redundant
    parentheses and folds `-<literal>`, as `negateNud` does) and consumes the whole text. -/
theorem groups_as_go (e : Expr) (hw : WF goTable e) :
    ∃ f, ∀ f', f ≤ f' → parseExpr genTable f' 0 (render goTable 1 e) = some (fold e, []) := by
  have hiso := isoB_sound table_iso
  have hr : Rel goTable genTable 1 1 := relB_sound (by decide)
  rw [render_iso hiso e hw 1 1 hr]
  have := pratt_inverts_render genTable (Table.okB_sound _ table_ok) e (wf_iso hiso e hw) 0 []
    (by simp [headLbp])
  simpa using this

/-- the same inside any context: after the expression anything that cannot continue it
    (a closing bracket, `{`, `;`, a keyword, end of input) is left in place -/
theorem groups_as_go_ctx (e : Expr) (hw : WF goTable e) (X : List Tok) (hX : headLbp genTable X = 0) :
    ∃ f, ∀ f', f ≤ f' → parseExpr genTable f' 0 (render goTable 1 e ++ X) = some (fold e, X) := by
  have hiso := isoB_sound table_iso
  have hr : Rel goTable genTable 1 1 := relB_sound (by decide)
  rw [render_iso hiso e hw 1 1 hr]
  exact pratt_inverts_render genTable (Table.okB_sound _ table_ok) e (wf_iso hiso e hw) 0 X (by omega)

/-- `&^` is lexed as `&` followed by unary `^`; on every fixed-width integer that is Go's AND NOT -/
theorem andnot_equiv {w : Nat} (a b : BitVec w) : a &&& (b ^^^ BitVec.allOnes w) = a &&& ~~~b := by
  rw [BitVec.xor_allOnes]

/-! ### non-vacuity: concrete expressions that mix shifts, bit operators and arithmetic -/

/-- `1<<3 - 1`, `6 | 1 + 1`, `-(2) * !x == (a &^ b)`-like shapes satisfy the hypotheses and the
    executable parser (with its default fuel) returns the Go tree -/
def ex1 : Expr := .bin "-" (.bin "<<" (.int false 1) (.int false 3)) (.int false 1)
def ex2 : Expr := .bin "|" (.int false 6) (.bin "+" (.int false 1) (.int false 1))
def ex3 : Expr := .bin "||" (.bin "==" (.un "!" (.name "a")) (.name "b"))
  (.bin "<" (.bin "*" (.un "-" (.paren (.int false 2))) (.bin "+" (.name "x") (.name "y"))) (.bin "&" (.name "p") (.un "^" (.name "q"))))

example : parseTop genTable (render goTable 1 ex1) = some (fold ex1, []) := by decide
example : parseTop genTable (render goTable 1 ex2) = some (fold ex2, []) := by decide
example : parseTop genTable (render goTable 1 ex3) = some (fold ex3, []) := by decide
example : WF goTable ex3 := by simp [WF, ex3, goTable, Table.lbp?, Table.pre?, List.lookup]

end Goat.Props.C05

#print axioms Goat.Props.C05.table_ops
#print axioms Goat.Props.C05.table_ok
#print axioms Goat.Props.C05.table_iso
#print axioms Goat.Props.C05.table_order
#print axioms Goat.Props.C05.groups_as_go
#print axioms Goat.Props.C05.groups_as_go_ctx
#print axioms Goat.Props.C05.andnot_equiv
