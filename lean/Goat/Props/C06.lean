import Goat.Lemmas.CF
/-!
# C06 — break, continue and the branches of if / for reach the target Go specifies

`compile_correct`: for every statement built from simple statements, `if`/`else`, `if` without
else, `for` with and without condition, `switch` with any number of clauses, `break` and `continue` — at **every nesting depth** — and
for arbitrary leaf codes and leaf semantics, running the code that the compile schemes emit
(placeholders rewritten by the enclosing loop exactly as compiler.go does, relative jumps executed
as do.go does) follows Go's big-step semantics: it ends just past the statement's code, or at the
enclosing loop's break / continue target, with the final state Go prescribes.

`switch` is in the theorem too: a clause chain `case c₁: A₁ … default: D` (chunks chained by
JUMPFALSE / JUMP, BREAK rewritten per clause to the end of the switch and in the default clause to
its own end, CONTINUE left for the enclosing loop, `rw_rwB`): a `break` in any clause leaves the
switch and nothing else, a `continue` reaches the enclosing loop's continue target.

`return` is in the theorem as well (signal `ret`: the RETURN instruction ends the frame, loops and
switches pass the signal on, `body_correct` covers bodies that fall off their end or return).

`range` is in the theorem (`rng`: the item leaf runs once, RANGE installs the iterator and jumps to
ITER, ITER either assigns the next pair and jumps back to the first body instruction or falls
through; `break` in the body lands just past ITER, `continue` on ITER; the iterator is abstract:
`rinit`, `rnext`, `rdone`): any number of passes ending normally or by `continue`, then exhaustion,
a pass that breaks, or one that returns (`rng_prefix`, `rng_run`).

A tagged switch `switch t { case a, b: … }` is the same scheme over derived leaves: `seq (act tag)
(swc …)` where the tag leaf ends in `LOCALSET hidden` and a clause's condition leaf is
`value; LOCALGET hidden; EQ` (several values chained by OR) - the correspondence harness builds
exactly these leaves and compares the whole function body.

PARTIAL: the iterators behind RANGE are abstract here (strings: C13), and the staged peephole
passes enter through C02.opt_transparent and the instruction-for-instruction correspondence of the
emitted code; C07's verifier checks all emitted code, and Go-toolchain runs cover nests
enumerated exhaustively for small depths.
-/
namespace Goat.Props.C06
open Goat.CF Goat.Peephole

variable {σ : Type} {M : Sem σ} {L : Leaves}

theorem rw_single_noPH (db dc : Nat) (i : Instr) (h : isPH i = false) : rw db dc [i] = [i] := by
  simp [rw, rwI_noPH _ _ _ _ h]

theorem rw_cons_noPH (db dc : Nat) (i : Instr) (F : List Instr) (h : isPH i = false) :
    rw db dc (i :: F) = i :: rw db dc F := by
  simp [rw, rwI_noPH _ _ _ _ h]

theorem rw_ite (ok : LeavesOK M L) (db dc : Nat) (c : Nat) (a b : Stmt) :
    rw db dc (compile L (.ite c a b)) =
      L.cnd c ++ (jump "JUMPFALSE" ((compile L a).length + 1) ::
        (rw (db + ((compile L b).length + 1)) (dc + ((compile L b).length + 1)) (compile L a) ++
          (jump "JUMP" (compile L b).length :: rw db dc (compile L b)))) := by
  have e : compile L (.ite c a b) =
      L.cnd c ++ (jump "JUMPFALSE" ((compile L a).length + 1) ::
        (compile L a ++ (jump "JUMP" (compile L b).length :: compile L b))) := by
    simp [compile]
  rw [e, rw_append, rw_noPH _ _ _ (ok.cnd_noPH c), rw_cons_noPH _ _ _ _ (jump_noPH _ _ (by decide)),
    rw_append, rw_cons_noPH _ _ _ _ (jump_noPH _ _ (by decide))]
  simp only [List.length_cons, rw_length]

theorem rw_ift (ok : LeavesOK M L) (db dc : Nat) (c : Nat) (a : Stmt) :
    rw db dc (compile L (.ift c a)) =
      L.cnd c ++ (jump "JUMPFALSE" (compile L a).length :: rw db dc (compile L a)) := by
  have e : compile L (.ift c a) = L.cnd c ++ (jump "JUMPFALSE" (compile L a).length :: compile L a) := by
    simp [compile]
  rw [e, rw_append, rw_noPH _ _ _ (ok.cnd_noPH c), rw_cons_noPH _ _ _ _ (jump_noPH _ _ (by decide))]

theorem rw_swd (db dc : Nat) (d : Stmt) :
    rw db dc (compile L (.swd d)) = rw 0 dc (compile L d) := by
  simp only [compile, rw_rwB]

theorem rw_swc (ok : LeavesOK M L) (db dc : Nat) (c : Nat) (a r : Stmt) :
    rw db dc (compile L (.swc c a r)) =
      L.cnd c ++ (jump "JUMPFALSE" ((compile L a).length + 1) ::
        (rw ((compile L r).length + 1) (dc + ((compile L r).length + 1)) (compile L a) ++
          (jump "JUMP" (compile L r).length :: rw db dc (compile L r)))) := by
  have e : compile L (.swc c a r) =
      L.cnd c ++ (jump "JUMPFALSE" ((compile L a).length + 1) ::
        (rwB ((compile L r).length + 1) (compile L a) ++ (jump "JUMP" (compile L r).length :: compile L r))) := by
    simp [compile]
  rw [e, rw_append, rw_noPH _ _ _ (ok.cnd_noPH c), rw_cons_noPH _ _ _ _ (jump_noPH _ _ (by decide)),
    rw_append, rw_cons_noPH _ _ _ _ (jump_noPH _ _ (by decide)), rw_rwB]
  simp only [List.length_cons, rw_length]

/-- `n` full passes of a `range` body: from the ITER instruction back to it, the iterator asked once
    per pass -/
theorem rng_prefix {C : List Instr} {pb len : Nat} {stk : List Bool} {r kv : Int} {n : Nat} {A S : Nat → σ}
    (hI : C[pb + len]? = some { op := "ITER", a := r, b := kv, c := -((len : Int) + 1) })
    (hnext : ∀ i, i < n → M.rnext r kv (S i) = some (A i))
    (hbody : ∀ i, i < n → Star M L C (pb, stk, A i) (pb + len, stk, S (i+1))) :
    ∀ k, k ≤ n → Star M L C (pb + len, stk, S 0) (pb + len, stk, S k) := by
  intro k
  induction k with
  | zero => intro _; exact Star.refl
  | succ k ih =>
    intro hk
    have h1 := ih (by omega)
    have st : Step M L C (pb + len, stk, S k) (pb, stk, A k) :=
      Step.iterT hI rfl (hnext k (by omega)) (by push_cast; omega)
    exact Star.trans M L h1 (Star.step st (hbody k (by omega)))

/-- the common part of the three `range` outcomes: the item leaf, RANGE, and the full passes bring
    the machine to the ITER instruction in state `S n` -/
theorem rng_run (ok : LeavesOK M L) {r kv : Int} {it : Nat} {b : Stmt} {s : σ} {n : Nat} {A S : Nat → σ} {O : Nat → Out}
    {C : List Instr} {pc : Nat} {stk : List Bool}
    (h0 : S 0 = M.rinit r (M.act it s))
    (hnext : ∀ i, i < n → M.rnext r kv (S i) = some (A i))
    (hO : ∀ i, i < n → O i ≠ .brk ∧ O i ≠ .ret)
    (ihB : ∀ i, i < n → ∀ (C : List Instr) (pc db dc : Nat) (stk : List Bool), CodeAt C pc (rw db dc (compile L b)) →
      Star M L C (pc, stk, A i) (tgt C.length pc (compile L b).length db dc (O i), stk, S (i+1)) ∧
      Star M L C (entry2 L pc b, stk, A i) (tgt C.length pc (compile L b).length db dc (O i), stk, S (i+1)))
    (hc : CodeAt C pc (compile L (.rng r kv it b))) :
    Star M L C (pc, stk, s) (pc + (L.act it).length + 1 + (compile L b).length, stk, S n) ∧
    CodeAt C (pc + (L.act it).length + 1) (rw 1 0 (compile L b)) ∧
    C[pc + (L.act it).length + 1 + (compile L b).length]? =
      some { op := "ITER", a := r, b := kv, c := -(((compile L b).length : Int) + 1) } := by
  simp only [compile, List.append_assoc, List.singleton_append] at hc
  have t1 := run_act ok (stk := stk) (s := s) hc.left
  have hR := hc.right
  have t2 : Step M L C (pc + (L.act it).length, stk, M.act it s)
      (pc + (L.act it).length + 1 + (compile L b).length, stk, M.rinit r (M.act it s)) :=
    Step.range hR.head rfl (by push_cast; omega)
  have hB := hR.tail.left
  have hI := hR.tail.right.head
  simp only [rw_length] at hI
  have hbody : ∀ i, i < n → Star M L C (pc + (L.act it).length + 1, stk, A i)
      (pc + (L.act it).length + 1 + (compile L b).length, stk, S (i+1)) := by
    intro i hi
    have h := (ihB i hi C _ 1 0 stk hB).1
    have ho := hO i hi
    cases hoi : O i with
    | normal => rw [hoi] at h; simpa [tgt, offs] using h
    | cont => rw [hoi] at h; simpa [tgt, offs] using h
    | brk => exact absurd hoi ho.1
    | ret => exact absurd hoi ho.2
  have pre := rng_prefix hI hnext hbody n (Nat.le_refl n)
  rw [h0] at pre
  exact ⟨Star.trans M L t1 (Star.step t2 pre), hB, hI⟩

theorem compile_correct (ok : LeavesOK M L) {s : Stmt} {st : σ} {o : Out} {st' : σ} (h : Exec M s st o st') :
    ∀ (C : List Instr) (pc db dc : Nat) (stk : List Bool), CodeAt C pc (rw db dc (compile L s)) →
      Star M L C (pc, stk, st) (tgt C.length pc (compile L s).length db dc o, stk, st') ∧
      Star M L C (entry2 L pc s, stk, st) (tgt C.length pc (compile L s).length db dc o, stk, st') := by
  induction h with
  | @act n s =>
    intro C pc db dc stk hc
    simp only [compile] at hc
    rw [rw_noPH _ _ _ (ok.act_noPH n)] at hc
    have := run_act ok (stk := stk) (s := s) hc
    simp only [compile, tgt, offs, entry2, Nat.add_zero]
    exact ⟨this, this⟩
  | @ret n s =>
    intro C pc db dc stk hc
    have hnp : ∀ i ∈ compile L (.ret n), isPH i = false := by
      intro i hi
      simp only [compile, List.mem_append, List.mem_singleton] at hi
      rcases hi with hi | hi
      · exact ok.act_noPH n i hi
      · subst hi; rfl
    rw [rw_noPH _ _ _ hnp] at hc
    simp only [compile] at hc
    have h1 := run_act ok (stk := stk) (s := s) hc.left
    have h2 : Step M L C (pc + (L.act n).length, stk, M.act n s) (C.length, stk, M.act n s) :=
      Step.ret hc.right.head rfl
    have := Star.trans M L h1 (Star.one M L h2)
    simp only [tgt, entry2]
    exact ⟨this, this⟩
  | @brk s =>
    intro C pc db dc stk hc
    simp only [compile, rw, rwI, List.length_nil, if_true] at hc
    have hs : Step M L C (pc, stk, s) (pc + 1 + db, stk, s) :=
      Step.jmp (CodeAt.head hc) rfl (by push_cast; omega)
    simp only [compile, tgt, offs, entry2, List.length_singleton]
    exact ⟨Star.one M L hs, Star.one M L hs⟩
  | @cont s =>
    intro C pc db dc stk hc
    have e : rw db dc (compile L .cont) = [{ op := "JUMP", a := ((0 + dc : Nat) : Int) }] := by
      simp [compile, rw, rwI]
    rw [e] at hc
    have hs : Step M L C (pc, stk, s) (pc + 1 + dc, stk, s) :=
      Step.jmp (CodeAt.head hc) rfl (by push_cast; omega)
    simp only [compile, tgt, offs, entry2, List.length_singleton]
    exact ⟨Star.one M L hs, Star.one M L hs⟩
  | @seqN a b s s1 o s2 _ _ iha ihb =>
    intro C pc db dc stk hc
    simp only [compile, rw_append] at hc
    have h1 := (iha C pc _ _ stk hc.left).1
    have hr := hc.right
    simp only [rw_length] at hr
    have h2 := (ihb C _ db dc stk hr).1
    simp only [tgt, offs, Nat.add_zero] at h1
    have := Star.trans M L h1 h2
    simp only [compile, entry2, List.length_append]
    have e : tgt C.length (pc + (compile L a).length) (compile L b).length db dc o
        = tgt C.length pc ((compile L a).length + (compile L b).length) db dc o := by
      cases o <;> simp [tgt] <;> omega
    rw [e] at this
    exact ⟨this, this⟩
  | @seqX a b s o s1 _ hne iha =>
    intro C pc db dc stk hc
    simp only [compile, rw_append] at hc
    have h1 := (iha C pc _ _ stk hc.left).1
    simp only [compile, entry2, List.length_append]
    have : tgt C.length pc (compile L a).length (db + (compile L b).length) (dc + (compile L b).length) o
         = tgt C.length pc ((compile L a).length + (compile L b).length) db dc o := by
      cases o <;> simp [tgt, offs] at * <;> omega
    rw [this] at h1
    exact ⟨h1, h1⟩
  | @iteT c a b s o s' hcnd _ iha =>
    intro C pc db dc stk hc
    rw [rw_ite ok] at hc
    have s1 := run_cnd ok (stk := stk) (s := s) hc.left
    rw [hcnd] at s1
    have hJ := hc.right
    have s2 := Step.jfT (M := M) (L := L) (stk := stk) (s := M.ceff c s) hJ.head rfl
    have hA := hJ.tail.left
    have h3 := (iha C _ _ _ stk hA).1
    have hJ2 := hJ.tail.right
    simp only [rw_length] at hJ2
    have pre := Star.trans M L s1 (Star.step s2 h3)
    simp only [compile, entry2, List.length_append, List.length_cons, List.length_nil]
    cases o with
    | normal =>
      have s4 : Step M L C (pc + (L.cnd c).length + 1 + (compile L a).length, stk, s')
          (pc + (L.cnd c).length + 1 + (compile L a).length + 1 + (compile L b).length, stk, s') :=
        Step.jmp hJ2.head rfl (by simp [jump]; omega)
      simp only [tgt, offs, Nat.add_zero] at pre ⊢
      have := Star.trans M L pre (Star.one M L s4)
      rw [show pc + ((L.cnd c).length + (0 + 1) + (compile L a).length + (0 + 1) + (compile L b).length)
            = pc + (L.cnd c).length + 1 + (compile L a).length + 1 + (compile L b).length by omega]
      exact ⟨this, this⟩
    | brk =>
      simp only [tgt, offs] at pre ⊢
      rw [show pc + ((L.cnd c).length + (0 + 1) + (compile L a).length + (0 + 1) + (compile L b).length) + db
            = pc + (L.cnd c).length + 1 + (compile L a).length + (db + ((compile L b).length + 1)) by omega]
      exact ⟨pre, pre⟩
    | cont =>
      simp only [tgt, offs] at pre ⊢
      rw [show pc + ((L.cnd c).length + (0 + 1) + (compile L a).length + (0 + 1) + (compile L b).length) + dc
            = pc + (L.cnd c).length + 1 + (compile L a).length + (dc + ((compile L b).length + 1)) by omega]
      exact ⟨pre, pre⟩
    | ret =>
      simp only [tgt] at pre ⊢
      exact ⟨pre, pre⟩
  | @iteF c a b s o s' hcnd _ ihb =>
    intro C pc db dc stk hc
    rw [rw_ite ok] at hc
    have s1 := run_cnd ok (stk := stk) (s := s) hc.left
    rw [hcnd] at s1
    have hJ := hc.right
    have hB := hJ.tail.right.tail
    simp only [rw_length] at hB
    have s2 : Step M L C (pc + (L.cnd c).length, false :: stk, M.ceff c s)
        (pc + (L.cnd c).length + 1 + (compile L a).length + 1, stk, M.ceff c s) :=
      Step.jfF hJ.head rfl (by simp [jump]; omega)
    have h3 := (ihb C _ db dc stk hB).1
    have pre := Star.trans M L s1 (Star.step s2 h3)
    simp only [compile, entry2, List.length_append, List.length_cons, List.length_nil]
    have e : tgt C.length (pc + (L.cnd c).length + 1 + (compile L a).length + 1) (compile L b).length db dc o
        = tgt C.length pc ((L.cnd c).length + (0 + 1) + (compile L a).length + (0 + 1) + (compile L b).length) db dc o := by
      cases o <;> simp [tgt] <;> omega
    rw [e] at pre
    exact ⟨pre, pre⟩
  | @iftT c a s o s' hcnd _ iha =>
    intro C pc db dc stk hc
    rw [rw_ift ok] at hc
    have s1 := run_cnd ok (stk := stk) (s := s) hc.left
    rw [hcnd] at s1
    have hJ := hc.right
    have s2 := Step.jfT (M := M) (L := L) (stk := stk) (s := M.ceff c s) hJ.head rfl
    have h3 := (iha C _ db dc stk hJ.tail).1
    have pre := Star.trans M L s1 (Star.step s2 h3)
    simp only [compile, entry2, List.length_append, List.length_cons, List.length_nil]
    have e : tgt C.length (pc + (L.cnd c).length + 1) (compile L a).length db dc o
        = tgt C.length pc ((L.cnd c).length + (0 + 1) + (compile L a).length) db dc o := by
      cases o <;> simp [tgt] <;> omega
    rw [e] at pre
    exact ⟨pre, pre⟩
  | @iftF c a s hcnd =>
    intro C pc db dc stk hc
    rw [rw_ift ok] at hc
    have s1 := run_cnd ok (stk := stk) (s := s) hc.left
    rw [hcnd] at s1
    have hJ := hc.right
    have s2 : Step M L C (pc + (L.cnd c).length, false :: stk, M.ceff c s)
        (pc + (L.cnd c).length + 1 + (compile L a).length, stk, M.ceff c s) :=
      Step.jfF hJ.head rfl (by simp [jump]; omega)
    have pre := Star.trans M L s1 (Star.one M L s2)
    simp only [compile, entry2, tgt, offs, List.length_append, List.length_cons, List.length_nil, Nat.add_zero]
    rw [show pc + ((L.cnd c).length + (0 + 1) + (compile L a).length)
          = pc + (L.cnd c).length + 1 + (compile L a).length by omega]
    exact ⟨pre, pre⟩
  | @loopF c b p s hcnd =>
    intro C pc db dc stk hc
    rw [rw_noPH _ _ _ (loop_code_noPH ok c b p)] at hc
    simp only [compile, List.append_assoc, List.cons_append, List.nil_append] at hc
    -- layout: JUMP :: (B' ++ (P ++ (Cn ++ [JT])))
    have hP := hc.tail.right
    simp only [rw_length] at hP
    have hCn := hP.right
    have hJT := hCn.right
    have s0 : Step M L C (pc, stk, s) (pc + 1 + (compile L b).length + (L.act p).length, stk, s) :=
      Step.jmp hc.head rfl (by simp [jump]; omega)
    have s1 := run_cnd ok (stk := stk) (s := s) hCn.left
    rw [hcnd] at s1
    have s2 := Step.jtF (M := M) (L := L) (stk := stk) (s := M.ceff c s) hJT.head rfl
    have two := Star.trans M L s1 (Star.one M L s2)
    simp only [compile, entry2, tgt, offs, List.length_append, List.length_cons, List.length_nil, rw_length, Nat.add_zero]
    rw [show pc + (0 + 1 + (compile L b).length + (L.act p).length + (L.cnd c).length + (0 + 1))
          = pc + 1 + (compile L b).length + (L.act p).length + (L.cnd c).length + 1 by omega]
    exact ⟨Star.step s0 two, two⟩
  | @loopT c b p s o s1 o3 s3 hcnd _ hne hnr _ ihb ihl =>
    intro C pc db dc stk hc
    have hc0 := hc
    rw [rw_noPH _ _ _ (loop_code_noPH ok c b p)] at hc
    simp only [compile, List.append_assoc, List.cons_append, List.nil_append] at hc
    have hB := hc.tail.left
    have hP := hc.tail.right
    simp only [rw_length] at hP
    have hCn := hP.right
    have hJT := hCn.right
    have s0 : Step M L C (pc, stk, s) (pc + 1 + (compile L b).length + (L.act p).length, stk, s) :=
      Step.jmp hc.head rfl (by simp [jump]; omega)
    have t1 := run_cnd ok (stk := stk) (s := s) hCn.left
    rw [hcnd] at t1
    have t2 : Step M L C (pc + 1 + (compile L b).length + (L.act p).length + (L.cnd c).length, true :: stk, M.ceff c s)
        (pc + 1, stk, M.ceff c s) :=
      Step.jtT hJT.head rfl (by simp [jump]; omega)
    have h3 := (ihb C (pc+1) (1 + (L.act p).length + (L.cnd c).length) 0 stk hB).1
    have e3 : tgt C.length (pc + 1) (compile L b).length (1 + (L.act p).length + (L.cnd c).length) 0 o
        = pc + 1 + (compile L b).length := by
      cases o <;> simp [tgt, offs] at *
    rw [e3] at h3
    have t4 := run_act ok (stk := stk) (s := s1) hP.left
    have h5 := (ihl C pc db dc stk hc0).2
    simp only [entry2] at h5
    have two := Star.trans M L t1 (Star.step t2 (Star.trans M L h3 (Star.trans M L t4 h5)))
    simp only [entry2]
    exact ⟨Star.step s0 two, two⟩
  | @loopR c b p s s1 hcnd _ ihb =>
    intro C pc db dc stk hc
    rw [rw_noPH _ _ _ (loop_code_noPH ok c b p)] at hc
    simp only [compile, List.append_assoc, List.cons_append, List.nil_append] at hc
    have hB := hc.tail.left
    have hP := hc.tail.right
    simp only [rw_length] at hP
    have hCn := hP.right
    have hJT := hCn.right
    have s0 : Step M L C (pc, stk, s) (pc + 1 + (compile L b).length + (L.act p).length, stk, s) :=
      Step.jmp hc.head rfl (by simp [jump]; omega)
    have t1 := run_cnd ok (stk := stk) (s := s) hCn.left
    rw [hcnd] at t1
    have t2 : Step M L C (pc + 1 + (compile L b).length + (L.act p).length + (L.cnd c).length, true :: stk, M.ceff c s)
        (pc + 1, stk, M.ceff c s) :=
      Step.jtT hJT.head rfl (by simp [jump]; omega)
    have h3 := (ihb C (pc+1) (1 + (L.act p).length + (L.cnd c).length) 0 stk hB).1
    simp only [tgt] at h3
    have two := Star.trans M L t1 (Star.step t2 h3)
    simp only [entry2, tgt]
    exact ⟨Star.step s0 two, two⟩
  | @loopB c b p s s1 hcnd _ ihb =>
    intro C pc db dc stk hc
    rw [rw_noPH _ _ _ (loop_code_noPH ok c b p)] at hc
    simp only [compile, List.append_assoc, List.cons_append, List.nil_append] at hc
    have hB := hc.tail.left
    have hP := hc.tail.right
    simp only [rw_length] at hP
    have hCn := hP.right
    have hJT := hCn.right
    have s0 : Step M L C (pc, stk, s) (pc + 1 + (compile L b).length + (L.act p).length, stk, s) :=
      Step.jmp hc.head rfl (by simp [jump]; omega)
    have t1 := run_cnd ok (stk := stk) (s := s) hCn.left
    rw [hcnd] at t1
    have t2 : Step M L C (pc + 1 + (compile L b).length + (L.act p).length + (L.cnd c).length, true :: stk, M.ceff c s)
        (pc + 1, stk, M.ceff c s) :=
      Step.jtT hJT.head rfl (by simp [jump]; omega)
    have h3 := (ihb C (pc+1) (1 + (L.act p).length + (L.cnd c).length) 0 stk hB).1
    simp only [tgt, offs] at h3
    have two := Star.trans M L t1 (Star.step t2 h3)
    simp only [compile, entry2, tgt, offs, List.length_append, List.length_cons, List.length_nil, rw_length, Nat.add_zero]
    rw [show pc + (0 + 1 + (compile L b).length + (L.act p).length + (L.cnd c).length + (0 + 1))
          = pc + 1 + (compile L b).length + (1 + (L.act p).length + (L.cnd c).length) by omega]
    exact ⟨Star.step s0 two, two⟩
  | @foreverT b p s o s1 o3 s3 _ hne hnr _ ihb ihl =>
    intro C pc db dc stk hc
    have hc0 := hc
    rw [rw_noPH _ _ _ (forever_code_noPH ok b p)] at hc
    simp only [compile, List.append_assoc] at hc
    have hB := hc.left
    have hP := hc.right
    simp only [rw_length] at hP
    have hJ := hP.right
    have h3 := (ihb C pc (1 + (L.act p).length) 0 stk hB).1
    have e3 : tgt C.length pc (compile L b).length (1 + (L.act p).length) 0 o = pc + (compile L b).length := by
      cases o <;> simp [tgt, offs] at *
    rw [e3] at h3
    have t4 := run_act ok (stk := stk) (s := s1) hP.left
    have t5 : Step M L C (pc + (compile L b).length + (L.act p).length, stk, M.act p s1) (pc, stk, M.act p s1) :=
      Step.jmp hJ.head rfl (by simp [jump]; omega)
    have h6 := (ihl C pc db dc stk hc0).1
    have all := Star.trans M L h3 (Star.trans M L t4 (Star.step t5 h6))
    simp only [entry2]
    exact ⟨all, all⟩
  | @foreverR b p s s1 _ ihb =>
    intro C pc db dc stk hc
    rw [rw_noPH _ _ _ (forever_code_noPH ok b p)] at hc
    simp only [compile, List.append_assoc] at hc
    have hB := hc.left
    have h3 := (ihb C pc (1 + (L.act p).length) 0 stk hB).1
    simp only [tgt] at h3
    simp only [entry2, tgt]
    exact ⟨h3, h3⟩
  | @foreverB b p s s1 _ ihb =>
    intro C pc db dc stk hc
    rw [rw_noPH _ _ _ (forever_code_noPH ok b p)] at hc
    simp only [compile, List.append_assoc] at hc
    have hB := hc.left
    have h3 := (ihb C pc (1 + (L.act p).length) 0 stk hB).1
    simp only [tgt, offs] at h3
    simp only [compile, entry2, tgt, offs, List.length_append, List.length_cons, List.length_nil, rw_length, Nat.add_zero]
    rw [show pc + ((compile L b).length + (L.act p).length + (0 + 1))
          = pc + (compile L b).length + (1 + (L.act p).length) by omega]
    exact ⟨h3, h3⟩
  | @swdN d s o s' _ hne ihd =>
    intro C pc db dc stk hc
    rw [rw_swd] at hc
    have h3 := (ihd C pc 0 dc stk hc).1
    simp only [compile, entry2, rwB_length]
    have : tgt C.length pc (compile L d).length 0 dc o = tgt C.length pc (compile L d).length db dc o := by
      cases o <;> simp [tgt, offs] at hne ⊢
    rw [this] at h3
    exact ⟨h3, h3⟩
  | @swdB d s s' _ ihd =>
    intro C pc db dc stk hc
    rw [rw_swd] at hc
    have h3 := (ihd C pc 0 dc stk hc).1
    simp only [compile, entry2, rwB_length, tgt, offs, Nat.add_zero] at h3 ⊢
    exact ⟨h3, h3⟩
  | @swcT c a r s o s' hcnd _ hne iha =>
    intro C pc db dc stk hc
    rw [rw_swc ok] at hc
    have s1 := run_cnd ok (stk := stk) (s := s) hc.left
    rw [hcnd] at s1
    have hJ := hc.right
    have s2 := Step.jfT (M := M) (L := L) (stk := stk) (s := M.ceff c s) hJ.head rfl
    have hA := hJ.tail.left
    have h3 := (iha C _ _ _ stk hA).1
    have hJ2 := hJ.tail.right
    simp only [rw_length] at hJ2
    have pre := Star.trans M L s1 (Star.step s2 h3)
    simp only [compile, entry2, List.length_append, List.length_cons, List.length_nil, rwB_length]
    cases o with
    | normal =>
      have s4 : Step M L C (pc + (L.cnd c).length + 1 + (compile L a).length, stk, s')
          (pc + (L.cnd c).length + 1 + (compile L a).length + 1 + (compile L r).length, stk, s') :=
        Step.jmp hJ2.head rfl (by simp [jump]; omega)
      simp only [tgt, offs, Nat.add_zero] at pre ⊢
      have := Star.trans M L pre (Star.one M L s4)
      rw [show pc + ((L.cnd c).length + (0 + 1) + (compile L a).length + (0 + 1) + (compile L r).length)
            = pc + (L.cnd c).length + 1 + (compile L a).length + 1 + (compile L r).length by omega]
      exact ⟨this, this⟩
    | brk => exact absurd rfl hne
    | cont =>
      simp only [tgt, offs] at pre ⊢
      rw [show pc + ((L.cnd c).length + (0 + 1) + (compile L a).length + (0 + 1) + (compile L r).length) + dc
            = pc + (L.cnd c).length + 1 + (compile L a).length + (dc + ((compile L r).length + 1)) by omega]
      exact ⟨pre, pre⟩
    | ret =>
      simp only [tgt] at pre ⊢
      exact ⟨pre, pre⟩
  | @swcB c a r s s' hcnd _ iha =>
    intro C pc db dc stk hc
    rw [rw_swc ok] at hc
    have s1 := run_cnd ok (stk := stk) (s := s) hc.left
    rw [hcnd] at s1
    have hJ := hc.right
    have s2 := Step.jfT (M := M) (L := L) (stk := stk) (s := M.ceff c s) hJ.head rfl
    have hA := hJ.tail.left
    have h3 := (iha C _ _ _ stk hA).1
    have pre := Star.trans M L s1 (Star.step s2 h3)
    simp only [compile, entry2, List.length_append, List.length_cons, List.length_nil, rwB_length, tgt, offs, Nat.add_zero] at pre ⊢
    rw [show pc + ((L.cnd c).length + (0 + 1) + (compile L a).length + (0 + 1) + (compile L r).length)
          = pc + (L.cnd c).length + 1 + (compile L a).length + ((compile L r).length + 1) by omega]
    exact ⟨pre, pre⟩
  | @swcF c a r s o s' hcnd _ ihr =>
    intro C pc db dc stk hc
    rw [rw_swc ok] at hc
    have s1 := run_cnd ok (stk := stk) (s := s) hc.left
    rw [hcnd] at s1
    have hJ := hc.right
    have hR := hJ.tail.right.tail
    simp only [rw_length] at hR
    have s2 : Step M L C (pc + (L.cnd c).length, false :: stk, M.ceff c s)
        (pc + (L.cnd c).length + 1 + (compile L a).length + 1, stk, M.ceff c s) :=
      Step.jfF hJ.head rfl (by simp [jump]; omega)
    have h3 := (ihr C _ db dc stk hR).1
    have pre := Star.trans M L s1 (Star.step s2 h3)
    simp only [compile, entry2, List.length_append, List.length_cons, List.length_nil, rwB_length]
    have e : tgt C.length (pc + (L.cnd c).length + 1 + (compile L a).length + 1) (compile L r).length db dc o
        = tgt C.length pc ((L.cnd c).length + (0 + 1) + (compile L a).length + (0 + 1) + (compile L r).length) db dc o := by
      cases o <;> simp [tgt] <;> omega
    rw [e] at pre
    exact ⟨pre, pre⟩
  | @rngEnd r kv it b s n A S O h0 hnext _ hO hend ihB =>
    intro C pc db dc stk hc
    rw [rw_noPH _ _ _ (rng_code_noPH ok r kv it b)] at hc
    obtain ⟨run, _, hI⟩ := rng_run ok (stk := stk) h0 hnext hO ihB hc
    have fin := Step.iterF (M := M) (L := L) (stk := stk) hI rfl hend
    have all := Star.trans M L run (Star.one M L fin)
    simp only [compile, entry2, tgt, offs, List.length_append, List.length_cons, List.length_nil, rw_length, Nat.add_zero]
    rw [show pc + ((L.act it).length + (0 + 1) + (compile L b).length + (0 + 1))
          = pc + (L.act it).length + 1 + (compile L b).length + 1 by omega]
    exact ⟨all, all⟩
  | @rngBrk r kv it b s a s' n A S O h0 hnext _ hO hsome _ ihB ihl =>
    intro C pc db dc stk hc
    rw [rw_noPH _ _ _ (rng_code_noPH ok r kv it b)] at hc
    obtain ⟨run, hB, hI⟩ := rng_run ok (stk := stk) h0 hnext hO ihB hc
    have st : Step M L C (pc + (L.act it).length + 1 + (compile L b).length, stk, S n)
        (pc + (L.act it).length + 1, stk, a) := Step.iterT hI rfl hsome (by push_cast; omega)
    have h3 := (ihl C _ 1 0 stk hB).1
    have all := Star.trans M L run (Star.step st h3)
    simp only [compile, entry2, tgt, offs, List.length_append, List.length_cons, List.length_nil, rw_length, Nat.add_zero] at all ⊢
    rw [show pc + ((L.act it).length + (0 + 1) + (compile L b).length + (0 + 1))
          = pc + (L.act it).length + 1 + (compile L b).length + 1 by omega]
    exact ⟨all, all⟩
  | @rngRet r kv it b s a s' n A S O h0 hnext _ hO hsome _ ihB ihl =>
    intro C pc db dc stk hc
    rw [rw_noPH _ _ _ (rng_code_noPH ok r kv it b)] at hc
    obtain ⟨run, hB, hI⟩ := rng_run ok (stk := stk) h0 hnext hO ihB hc
    have st : Step M L C (pc + (L.act it).length + 1 + (compile L b).length, stk, S n)
        (pc + (L.act it).length + 1, stk, a) := Step.iterT hI rfl hsome (by push_cast; omega)
    have h3 := (ihl C _ 1 0 stk hB).1
    have all := Star.trans M L run (Star.step st h3)
    simp only [entry2, tgt] at all ⊢
    exact ⟨all, all⟩

/-- **C06 (core).** A whole function body (no enclosing loop: a stray `break`/`continue` does not
    occur in valid Go) runs from its first instruction to just past its last one — whether it falls
    off its end or executes a `return` anywhere, at any depth of loops and switches — and produces
    the state Go's semantics prescribes. -/
theorem body_correct (ok : LeavesOK M L) {s : Stmt} {st st' : σ} {o : Out} (h : Exec M s st o st')
    (ho : o = .normal ∨ o = .ret) (stk : List Bool) :
    Star M L (rw 0 0 (compile L s)) (0, stk, st) ((compile L s).length, stk, st') := by
  have := (compile_correct ok h (rw 0 0 (compile L s)) 0 0 0 stk ⟨[], [], by simp, rfl⟩).1
  rcases ho with rfl | rfl
  · simpa [tgt, offs] using this
  · simpa [tgt] using this

end Goat.Props.C06

#print axioms Goat.Props.C06.compile_correct
#print axioms Goat.Props.C06.body_correct

/-! ### non-vacuity: a nest with break and continue satisfies the hypotheses and runs as Go says -/
namespace Goat.Props.C06
open Goat.CF Goat.Peephole

/-- state = the trace of executed leaves; `c 0` holds once more than two leaves ran, the other
    conditions hold while fewer than ten ran; the action 0 is the empty statement -/
def demoSem : Sem (List Nat) :=
  { act := fun n s => if n = 0 then s else s ++ [n],
    cval := fun k s => if k = 0 then decide (s.length > 2) else decide (s.length < 10),
    ceff := fun k s => s ++ [100 + k] }

def demoLeaves : Leaves :=
  { act := fun n => if n = 0 then [] else [⟨"PUSH", n, 0, 0, 0⟩, ⟨"FASTCALL", 7, 1, 0, 0⟩],
    cnd := fun k => [⟨"PUSH", k, 0, 0, 0⟩, ⟨"FASTCALL", 8, 1, 1, 0⟩] }

example : LeavesOK demoSem demoLeaves :=
  ⟨by intro n i hi; simp only [demoLeaves] at hi; split at hi <;> simp at hi; rcases hi with rfl | rfl <;> rfl,
   by intro c i hi; simp only [demoLeaves] at hi; simp at hi; rcases hi with rfl | rfl <;> rfl,
   by intro c; simp [demoLeaves],
   by intro n h s
      simp only [demoLeaves] at h
      split at h
      · rename_i hn; simp [demoSem, hn]
      · simp at h⟩

/-- `for c(3) { if c(0) { break } ; t(5) }`: first iteration runs t(5), the second breaks -/
example : Exec demoSem (.loop 3 (.seq (.ift 0 .brk) (.act 5)) 0) [] .normal [103, 100, 5, 103, 100] := by
  refine .loopT (by decide) (.seqN (.iftF (by decide)) .act) (by decide) (by decide) ?_
  exact .loopB (by decide) (.seqX (.iftT (by decide) .brk) (by decide))

/-- `for c(3) { switch { case c(0): return t(9) ; default: t(5) } }`: the first iteration takes the
    default clause, the second returns from inside the switch inside the loop -/
example : Exec demoSem (.loop 3 (.swc 0 (.ret 9) (.swd (.act 5))) 0) [] .ret [103, 100, 5, 103, 100, 9] := by
  refine .loopT (by decide) (.swcF (by decide) (.swdN .act (by decide))) (by decide) (by decide) ?_
  exact .loopR (by decide) (.swcT (by decide) .ret (by decide))

/-- a `range` demo: the state carries the trace and what is left of the one live iterator -/
def demoSemR : Sem (List Nat × Nat) :=
  { act := fun n s => if n = 0 then s else (s.1 ++ [n], s.2),
    cval := fun k s => if k = 0 then decide (s.1.length > 2) else decide (s.1.length < 10),
    ceff := fun k s => (s.1 ++ [100 + k], s.2),
    rinit := fun _ s => (s.1, 3),
    rnext := fun _ _ s => if s.2 = 0 then none else some (s.1 ++ [200 + s.2], s.2 - 1),
    rdone := fun _ s => s }

/-- `for … range <3 items> { if c(0) { break }; t(5) }`: two full passes, the third breaks
    (the item leaf 0 is the empty code here; `c(0)` holds once more than two leaves ran) -/
example : Exec demoSemR (.rng 1 0 0 (.seq (.ift 0 .brk) (.act 5))) ([], 0) .normal
    ([203, 100, 5, 202, 100], 1) := by
  refine Exec.rngBrk (n := 1)
    (S := fun i => if i = 0 then ([], 3) else ([203, 100, 5], 2))
    (A := fun _ => ([203], 2)) (O := fun _ => .normal) (a := ([203, 100, 5, 202], 1))
    rfl ?_ ?_ ?_ rfl ?_
  · intro i hi; have : i = 0 := by omega
    subst this; rfl
  · intro i hi; have : i = 0 := by omega
    subst this; exact .seqN (.iftF (by decide)) .act
  · intro i _; exact ⟨by decide, by decide⟩
  · exact .seqX (.iftT (by decide) .brk) (by decide)

end Goat.Props.C06
