import Goat.Model.Check
/-!
# C07 — statements are stack-neutral and call frames are isolated on every path

`Goat.Check.check` is run on the instruction list the **real** compiler emitted (cut point
`compile`); if it accepts a function body then, by `verify_sound`, on *every* path through that
body — including paths the program's inputs never take —

* the operand stack never underflows (each instruction finds the operands it pops),
* every branch lands on an instruction of the same function (or exactly at its end), never
  inside a nested function's header or body,
* two paths never reach the same instruction with different operand depths (so a loop cannot
  accumulate operands and an early exit cannot leave any behind),
* every slot index an instruction reads or writes lies inside the function's own frame,
* calls consume exactly their arguments and leave exactly the requested results (that is what
  `effect` says about CALL/FASTCALL/…; `callReady` enforces it at run time),

and in strict mode, additionally, the operand stack is empty wherever a jump lands (statement
boundaries), at every `RETURN n` exactly the `n` results are present, and it is empty at the end
of the body.

The abstract machine below tracks only (pc, operand depth); that `effect` describes do.go
correctly is the correspondence cut point `effect` (single instructions executed on the real VM).
-/
namespace Goat.Props.C07
open Goat.Check Goat.Peephole

/-- one abstract step: the successors of a configuration (pc, depth). No successor when the
    instruction is terminal, unknown — or when it would underflow. -/
def astep (c : Code) (s : Nat × Nat) : List (Nat × Nat) :=
  match effectAt c s.1 with
  | none => []
  | some e =>
    if e.pops ≤ s.2 then
      e.succs.filterMap (fun (off, pushes) =>
        let t : Int := (s.1 : Int) + 1 + off
        if 0 ≤ t then some (t.toNat, s.2 - e.pops + pushes) else none)
    else []

/-- configurations reachable from the function entry with an empty operand stack -/
inductive Reach (c : Code) : Nat × Nat → Prop where
  | start : Reach c (0, 0)
  | step {s s'} : Reach c s → s' ∈ astep c s → Reach c s'

/-- what is guaranteed at a reachable configuration -/
structure Safe (c : Code) (slots : Nat) (m : List Nat) (sk : List Bool) (s : Nat × Nat) : Prop where
  in_code : s.1 ≤ c.length
  at_instr : s.1 < c.length →
    m[s.1]? = some s.2 ∧ sk[s.1]? = some false ∧
    ∃ e, effectAt c s.1 = some e ∧ e.pops ≤ s.2 ∧
      (∀ x ∈ e.slots, 0 ≤ x ∧ x.toNat < slots) ∧
      (∀ p ∈ e.succs, 0 ≤ (s.1 : Int) + 1 + p.1 ∧ ((s.1 : Int) + 1 + p.1).toNat ≤ c.length)

private theorem check_at {c : Code} {slots : Nat} {m : List Nat} {sk : List Bool} {strict : Bool}
    (h : check c slots m sk strict = true) {pc : Nat} (hpc : pc < c.length) (hsk : sk[pc]? = some false) :
    checkAt c slots m sk strict pc = true := by
  simp only [check, Bool.and_eq_true, List.all_eq_true, List.mem_range] at h
  have := h.2 pc hpc
  simpa [hsk] using this

private theorem safe_of_checkAt {c : Code} {slots : Nat} {m : List Nat} {sk : List Bool} {strict : Bool}
    {pc d : Nat} (hpc : pc < c.length) (hm : m[pc]? = some d) (hsk : sk[pc]? = some false)
    (h : checkAt c slots m sk strict pc = true) : Safe c slots m sk (pc, d) := by
  refine ⟨Nat.le_of_lt hpc, fun _ => ⟨hm, hsk, ?_⟩⟩
  unfold checkAt at h
  cases he : effectAt c pc with
  | none => simp [he] at h
  | some e =>
    simp only [he, hm, Bool.and_eq_true, decide_eq_true_eq, List.all_eq_true] at h
    obtain ⟨⟨⟨h1, h2⟩, _⟩, h4⟩ := h
    refine ⟨e, rfl, h1, ?_, ?_⟩
    · intro x hx
      have := h2 x hx
      simpa using this
    · intro p hp
      have := h4 p hp
      obtain ⟨off, pushes⟩ := p
      simp only [Bool.and_eq_true, decide_eq_true_eq] at this
      exact ⟨this.1.1.1, this.1.1.2⟩

/-- **verify_sound.** If the checker accepts, every configuration reachable on any path is safe:
    inside the code, at the depth the map records, not inside a nested function, with enough
    operands for the instruction, all its slots inside the frame and all its branch targets
    inside the function. -/
theorem verify_sound {c : Code} {slots : Nat} {m : List Nat} {sk : List Bool} {strict : Bool}
    (h : check c slots m sk strict = true) {s : Nat × Nat} (hr : Reach c s) : Safe c slots m sk s := by
  induction hr with
  | start =>
    by_cases hc : 0 < c.length
    · have h0 : m[0]? = some 0 ∧ sk[0]? = some false := by
        simp only [check, Bool.and_eq_true, Bool.or_eq_true, beq_iff_eq] at h
        rcases h.1 with h1 | h1
        · omega
        · exact h1
      exact safe_of_checkAt hc h0.1 h0.2 (check_at h hc h0.2)
    · exact ⟨by omega, fun h' => absurd h' hc⟩
  | @step s s' _ hs ih =>
    obtain ⟨pc, d⟩ := s
    unfold astep at hs
    cases he : effectAt c pc with
    | none => simp [he] at hs
    | some e =>
      simp only [he] at hs
      by_cases hp : e.pops ≤ d
      · simp only [hp, if_true, List.mem_filterMap] at hs
        obtain ⟨⟨off, pushes⟩, hmem, hsome⟩ := hs
        have hpc : pc < c.length := by
          unfold effectAt at he
          cases hg : c[pc]? with
          | none => simp [hg] at he
          | some i => exact (List.getElem?_eq_some_iff.mp hg).1
        obtain ⟨hm, hsk, _⟩ := ih.at_instr hpc
        have hca := check_at h hpc hsk
        unfold checkAt at hca
        simp only [he, hm, Bool.and_eq_true, decide_eq_true_eq, List.all_eq_true] at hca
        have ht := hca.2 (off, pushes) hmem
        simp only [Bool.and_eq_true, decide_eq_true_eq] at ht
        obtain ⟨⟨⟨ht0, htl⟩, htm⟩, _⟩ := ht
        simp only [ht0, if_true, Option.some.injEq] at hsome
        subst hsome
        by_cases hlt : ((pc : Int) + 1 + off).toNat < c.length
        · simp only [hlt, if_true, Bool.and_eq_true, beq_iff_eq] at htm
          exact safe_of_checkAt hlt htm.1 htm.2 (check_at h hlt htm.2)
        · exact ⟨htl, fun h' => absurd h' hlt⟩
      · simp [hp] at hs

/-- corollary: no reachable configuration underflows — the abstract machine is never stuck at an
    instruction for lack of operands -/
theorem no_underflow {c : Code} {slots : Nat} {m : List Nat} {sk : List Bool} {strict : Bool}
    (h : check c slots m sk strict = true) {pc d : Nat} (hr : Reach c (pc, d)) (hpc : pc < c.length) :
    ∃ e, effectAt c pc = some e ∧ e.pops ≤ d := by
  obtain ⟨_, _, e, he, hp, _⟩ := (verify_sound h hr).at_instr hpc
  exact ⟨e, he, hp⟩

/-- corollary: all paths that reach an instruction do so with the same operand depth -/
theorem depth_unique {c : Code} {slots : Nat} {m : List Nat} {sk : List Bool} {strict : Bool}
    (h : check c slots m sk strict = true) {pc d d' : Nat} (h1 : Reach c (pc, d)) (h2 : Reach c (pc, d'))
    (hpc : pc < c.length) : d = d' := by
  have a := ((verify_sound h h1).at_instr hpc).1
  have b := ((verify_sound h h2).at_instr hpc).1
  rw [a] at b
  exact Option.some.inj b

/-! ### non-vacuity: a loop with break/continue shape is accepted, a leaking loop is rejected -/

def okLoop : Code := [⟨"PUSH", 0, 0, 0, 1⟩, ⟨"LOCALSET", 0, 0, 0, 1⟩, ⟨"JUMP", 2, 0, 0, 1⟩, ⟨"LOCALINCDEC", 0, 1, 0, 1⟩,
  ⟨"PASS", 0, 0, 0, 1⟩, ⟨"LOCALGET", 0, 0, 0, 1⟩, ⟨"PUSH", 4, 0, 0, 1⟩, ⟨"LT", 0, 0, 0, 1⟩, ⟨"JUMPTRUE", -6, 0, 0, 1⟩,
  ⟨"LOCALGET", 0, 0, 0, 1⟩, ⟨"RETURN", 1, 0, 0, 1⟩]

/-- the loop body pushes a value it never pops: depths disagree at the loop head -/
def leaky : Code := [⟨"JUMP", 1, 0, 0, 1⟩, ⟨"PUSH", 7, 0, 0, 1⟩, ⟨"PUSH", 1, 0, 0, 1⟩, ⟨"JUMPTRUE", -3, 0, 0, 1⟩]

example : check okLoop 1 (depthMap okLoop) (skipped okLoop 20 0 []) true = true := by decide
example : check leaky 1 (depthMap leaky) (skipped leaky 20 0 []) false = false := by decide
example : Reach okLoop (5, 0) :=
  .step (.step (.step .start (by decide : (1, 1) ∈ astep okLoop (0, 0))) (by decide : (2, 0) ∈ astep okLoop (1, 1)))
    (by decide : (5, 0) ∈ astep okLoop (2, 0))

end Goat.Props.C07

#print axioms Goat.Props.C07.verify_sound
#print axioms Goat.Props.C07.no_underflow
#print axioms Goat.Props.C07.depth_unique
